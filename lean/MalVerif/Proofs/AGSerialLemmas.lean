import MalVerif.Proofs.AGCopyLemmas
import MalVerif.Proofs.MStateInv
import Std.Data.String.ToInt
/-!
# Helper lemmas for saving / loading an attack graph (C10)

* specification vocabulary: `nodeTuple`, `Edge`, `PEdge`, `SameGraph`, `NodeMatch`;
* generic: `isort` is a permutation, `attKey` is fresh, `idKeys`, keys and integers;
* what `toDoc` writes (`toDoc_steps_eq`, `toDoc_attackers_vals`, `toDoc_attacker_keys_nodup`);
* `fromDoc` in three named folds (`loadNode`, `linkEntry`, `loadAtt`), each characterised for an arbitrary
  well-formed document (`DocOK`): `nodes_loaded_aux`, `links_loaded`, `attackers_loaded_aux`; the result is
  described by `Loaded`;
* a document that represents a graph up to the order of its entries and a re-keying of the id lists
  (`Rep`, `KeyPerm`) is well formed, and what is loaded from it is the same graph (`sameGraph_of_loaded`);
* `jsonRT` and `yamlRT` of `toDoc s` represent `s`.
-/
namespace MalVerif.AGS
open MalVerif.AGraph
open MalVerif.Ser (Key)

/-! ## specification vocabulary -/

/-- what a file keeps of a node -/
def nodeTuple (s : St) (r : Nat) :
    Int × String × NType × String × Option String × Option Bool × Bool × Bool × Option String × List String × String :=
  let o := s.nobj r
  (o.id, o.name, o.type, o.ttc, o.defense, o.exist, o.viable, o.necessary, o.mitre, o.tags, o.extras)

/-- `(i, j)`: the node with id `i` has a child with id `j` -/
def Edge (s : St) (i j : Int) : Prop :=
  ∃ p ∈ s.nodes, (s.nobj p).id = i ∧ j ∈ (s.nobj p).children.map (fun c => (s.nobj c).id)
/-- `(i, j)`: the node with id `j` has a parent with id `i` -/
def PEdge (s : St) (i j : Int) : Prop :=
  ∃ c ∈ s.nodes, (s.nobj c).id = j ∧ i ∈ (s.nobj c).parents.map (fun p => (s.nobj p).id)

def entryIds (s : St) (a : Nat) : List Int := (s.aobj a).entry.map (fun n => (s.nobj n).id)
def reachedIds (s : St) (a : Nat) : List Int := (s.aobj a).reached.map (fun n => (s.nobj n).id)

/-- the loaded graph `s'` and the saved graph `s` have the same nodes (a permutation of the attribute
tuples), the same edges (as sets of id pairs, seen from the child lists and from the parent lists) and the same
attackers with the same entry points and reached steps (as sets of node ids) -/
structure SameGraph (s' s : St) : Prop where
  nodes : (s'.nodes.map (nodeTuple s')).Perm (s.nodes.map (nodeTuple s))
  edges : ∀ i j, Edge s' i j ↔ Edge s i j
  pedges : ∀ i j, PEdge s' i j ↔ PEdge s i j
  attackers : (s'.attackers.map (fun a => ((s'.aobj a).id, (s'.aobj a).name))).Perm
      (s.attackers.map (fun a => ((s.aobj a).id, (s.aobj a).name)))
  att_sets : ∀ a' ∈ s'.attackers, ∀ a ∈ s.attackers, (s'.aobj a').id = (s.aobj a).id →
      (∀ i, i ∈ entryIds s' a' ↔ i ∈ entryIds s a) ∧ (∀ i, i ∈ reachedIds s' a' ↔ i ∈ reachedIds s a)

/-- the loaded node object `o'` against the saved one `o` -/
structure NodeMatch (wm : Bool) (o' o : NodeObj) : Prop where
  id : o'.id = o.id
  name : o'.name = o.name
  type : o'.type = o.type
  ttc : o'.ttc = o.ttc
  defense : o'.defense = o.defense
  exist : o'.exist = o.exist
  viable : o'.viable = o.viable
  necessary : o'.necessary = o.necessary
  mitre : o'.mitre = o.mitre
  tags : o'.tags = o.tags
  extras : o'.extras = o.extras
  asset : o'.asset = if wm then o.asset else none
  defOne : o'.defOne = decide (o.defense = some "1.0")
  suppress : o'.suppress = o.tags.contains "suppress"

/-! ## generic lemmas -/

/-- Python `int(str(n)) = n` -/
theorem toInt_toString (n : Int) : (toString n).toInt? = some n := Int.toInt?_repr n

theorem insertBy_perm {α : Type} (le : α → α → Bool) (x : α) (l : List α) : (insertBy le x l).Perm (x :: l) := by
  induction l with
  | nil => exact List.Perm.refl _
  | cons y ys ih =>
    unfold insertBy
    split
    · exact List.Perm.refl _
    · exact ((List.Perm.cons y ih).trans (List.Perm.swap x y ys))

/-- sorting only permutes -/
theorem isort_perm {α : Type} (le : α → α → Bool) (l : List α) : (isort le l).Perm l := by
  induction l with
  | nil => exact List.Perm.refl _
  | cons x l ih =>
    show (insertBy le x (isort le l)).Perm (x :: l)
    exact (insertBy_perm le x _).trans (List.Perm.cons x ih)

theorem nodup_eraseDups_aux (n : Nat) : ∀ l : List Int, l.length ≤ n → l.eraseDups.Nodup := by
  induction n with
  | zero =>
    intro l hl
    have : l = [] := List.eq_nil_of_length_eq_zero (by omega)
    subst this; simp
  | succ n ih =>
    intro l hl
    cases l with
    | nil => simp
    | cons a as =>
      rw [List.eraseDups_cons, List.nodup_cons]
      have hf := List.length_filter_le (fun b => !b == a) as
      simp only [List.length_cons] at hl
      refine ⟨?_, ih _ (by omega)⟩
      rw [List.mem_eraseDups, List.mem_filter]
      simp
theorem nodup_eraseDups (l : List Int) : l.eraseDups.Nodup := nodup_eraseDups_aux l.length l (Nat.le_refl _)

/-! ### keys -/

/-- the integer a key stands for (`0` if it is not a number; the loader rejects such keys) -/
def kint (k : Key) : Int := k.toInt?.getD 0
def kints (ks : List Key) : List Int := ks.map kint
/-- every key is the text of an integer -/
def KeysParse (ks : List Key) : Prop := ∀ k ∈ ks, k.toInt?.isSome = true

theorem toInt?_of_parse {k : Key} (h : k.toInt?.isSome = true) : k.toInt? = some (kint k) := by
  unfold kint
  cases hk : k.toInt? with
  | none => rw [hk] at h; cases h
  | some n => rfl

theorem mapM_toInt_of_parse (ks : List Key) (h : KeysParse ks) : ks.mapM (·.toInt?) = some (kints ks) := by
  induction ks with
  | nil => rfl
  | cons k ks ih =>
    rw [List.mapM_cons, toInt?_of_parse (h k List.mem_cons_self), ih (fun x hx => h x (List.mem_cons_of_mem _ hx))]
    rfl

theorem keysParse_idKeys (l : List Int) : KeysParse (idKeys l) := by
  intro k hk
  unfold idKeys at hk
  obtain ⟨n, _, rfl⟩ := List.mem_map.1 hk
  rfl
theorem kints_idKeys (l : List Int) : kints (idKeys l) = l.eraseDups := by
  unfold kints idKeys
  rw [List.map_map]
  exact List.map_id'' (fun _ => rfl) _
theorem nodup_kints_idKeys (l : List Int) : (kints (idKeys l)).Nodup := by
  rw [kints_idKeys]; exact nodup_eraseDups l
theorem mem_kints_idKeys (l : List Int) (i : Int) : i ∈ kints (idKeys l) ↔ i ∈ l := by
  rw [kints_idKeys, List.mem_eraseDups]

/-- a re-keying of the id lists of a document that keeps the integers, up to their order -/
def KeyPerm (σ : List Key → List Key) : Prop :=
  ∀ ks, KeysParse ks → KeysParse (σ ks) ∧ (kints (σ ks)).Perm (kints ks)

theorem keyPerm_id : KeyPerm id := fun _ h => ⟨h, List.Perm.refl _⟩
/-- JSON: integer keys become their decimal text -/
theorem keyPerm_json : KeyPerm (fun ks => ks.map (fun k => Key.s k.text)) := by
  intro ks h
  have hk : ∀ k : Key, (Key.s k.text).toInt? = k.toInt? := by
    intro k
    cases k with
    | i n => exact toInt_toString n
    | s t => rfl
  constructor
  · intro k hk'
    obtain ⟨k0, h0, rfl⟩ := List.mem_map.1 hk'
    rw [hk]; exact h k0 h0
  · unfold kints
    rw [List.map_map]
    have : ks.map (kint ∘ fun k => Key.s k.text) = ks.map kint :=
      List.map_congr_left (fun k _ => by show (Key.toInt? (Key.s k.text)).getD 0 = _; rw [hk]; rfl)
    rw [this]
/-- YAML: the keys are written in sorted order -/
theorem keyPerm_yaml : KeyPerm (isort keyLe) := by
  intro ks h
  have hp := isort_perm keyLe ks
  exact ⟨fun k hk => h k (hp.mem_iff.1 hk), hp.map kint⟩

/-! ### the attacker keys -/

theorem attKey_eq_freshName (taken : List String) (sfx : String) (k : Nat) (n : String) :
    attKey taken sfx k n = MS.freshName taken sfx k n := by
  induction k generalizing n with
  | zero => rfl
  | succ k ih => unfold attKey MS.freshName; rw [ih]

/-- the key chosen for an attacker is not among the keys already taken -/
theorem attKey_fresh (taken : List String) (i : Int) (k : Nat) (n : String) (hk : taken.length < k) :
    attKey taken (":" ++ toString i) k n ∉ taken := by
  rw [attKey_eq_freshName]
  exact MS.freshName_not_mem taken _ (MS.sfx_length_pos i) k n hk

/-! ## what `toDoc` writes -/

theorem sdictPut_of_new {β : Type} (d : List (String × β)) (k : String) (v : β) (h : k ∉ d.map (·.1)) :
    sdictPut d k v = d ++ [(k, v)] := by
  unfold sdictPut
  rw [if_neg]
  intro ha
  rw [List.any_eq_true] at ha
  obtain ⟨e, he, hk⟩ := ha
  exact h (List.mem_map.2 ⟨e, he, by simpa using hk⟩)

/-- with pairwise distinct full names nothing is overwritten: one entry per node, in order -/
theorem toDoc_steps_eq (s : St) (hd : NamesDistinct s) (hn : s.nodes.Nodup) :
    (toDoc s).steps = s.nodes.map (fun r => (fullName (s.nobj r), nodeEntry s r)) := by
  rw [toDoc_steps]
  suffices h : ∀ (l done : List Nat), (∀ x ∈ l, x ∈ s.nodes) → (∀ x ∈ done, x ∈ s.nodes) →
      (∀ x ∈ done, x ∉ l) → l.Nodup →
      l.foldl (fun d r => sdictPut d (fullName (s.nobj r)) (nodeEntry s r))
        (done.map (fun r => (fullName (s.nobj r), nodeEntry s r))) =
      (done ++ l).map (fun r => (fullName (s.nobj r), nodeEntry s r)) by
    simpa using h s.nodes [] (fun _ hx => hx) (by simp) (by simp) hn
  intro l
  induction l with
  | nil => intro done _ _ _ _; simp
  | cons r l ih =>
    intro done hl hdone hdisj hnd
    rw [List.nodup_cons] at hnd
    rw [List.foldl_cons, sdictPut_of_new]
    · have := ih (done ++ [r]) (fun x hx => hl x (List.mem_cons_of_mem _ hx))
        (by
          intro x hx
          rcases List.mem_append.1 hx with h | h
          · exact hdone x h
          · rw [List.mem_singleton] at h; rw [h]; exact hl r List.mem_cons_self)
        (by
          intro x hx hxl
          rcases List.mem_append.1 hx with h | h
          · exact hdisj x h (List.mem_cons_of_mem _ hxl)
          · rw [List.mem_singleton] at h; exact hnd.1 (h ▸ hxl))
        hnd.2
      simpa using this
    · intro hm
      rw [List.map_map] at hm
      obtain ⟨x, hx, e⟩ := List.mem_map.1 hm
      have : x = r := hd x (hdone x hx) r (hl r List.mem_cons_self) e
      exact hdisj x hx (this ▸ List.mem_cons_self)

/-- one entry per attacker, in order (the keys are only used to order a YAML file) -/
theorem toDoc_attackers_vals (s : St) : (toDoc s).attackers.map (·.2) = s.attackers.map (attEntry s) := by
  rw [toDoc_attackers]
  suffices h : ∀ (l : List Nat) (d : List (String × AttEntry)),
      (l.foldl (fun d a =>
        d ++ [(attKey (d.map (·.1)) (":" ++ toString (s.aobj a).id) (d.length + 1) (s.aobj a).name, attEntry s a)]) d).map
        (·.2) = d.map (·.2) ++ l.map (attEntry s) by
    simpa using h s.attackers []
  intro l
  induction l with
  | nil => intro d; simp
  | cons a l ih => intro d; rw [List.foldl_cons, ih]; simp

/-- the keys the attackers are written under are pairwise distinct: the dictionary loses no attacker -/
theorem toDoc_attacker_keys_nodup (s : St) : ((toDoc s).attackers.map (·.1)).Nodup := by
  rw [toDoc_attackers]
  suffices h : ∀ (l : List Nat) (d : List (String × AttEntry)), (d.map (·.1)).Nodup →
      ((l.foldl (fun d a =>
        d ++ [(attKey (d.map (·.1)) (":" ++ toString (s.aobj a).id) (d.length + 1) (s.aobj a).name, attEntry s a)]) d).map
        (·.1)).Nodup from h s.attackers [] List.nodup_nil
  intro l
  induction l with
  | nil => intro d hd; exact hd
  | cons a l ih =>
    intro d hd
    rw [List.foldl_cons]
    apply ih
    rw [List.map_append, List.map_singleton]
    apply MS.nodup_append_single hd
    exact attKey_fresh _ _ _ _ (by rw [List.length_map]; exact Nat.lt_succ_self _)

/-! ## `fromDoc` in three folds -/

/-- the node object built from an entry of the file -/
def entryObj (wm : Bool) (n : NodeEntry) : NodeObj :=
  { name := n.name, type := n.type, ttc := n.ttc,
    asset := if wm then n.asset else none,
    defense := n.defense, exist := n.exist, viable := n.viable, necessary := n.necessary,
    mitre := n.mitre, tags := n.tags, extras := n.extras,
    defOne := n.defense = some "1.0", suppress := n.tags.contains "suppress" }

def loadNode (wm : Bool) (ak : String → Bool) (s : St) (e : String × NodeEntry) : Except Err St :=
  if wm && (match e.2.asset with | some a => !ak a | none => false) then .error .lookupError else
  addNode s (entryObj wm e.2) (some e.2.id)

def addChild (r : Nat) (s : St) (k : Key) : Except Err St :=
  match k.toInt?.bind (getNodeById s) with
  | none => .error .lookupError
  | some c => .ok (updN s r (fun o => { o with children := o.children ++ [c] }))
def addParent (r : Nat) (s : St) (k : Key) : Except Err St :=
  match k.toInt?.bind (getNodeById s) with
  | none => .error .lookupError
  | some p => .ok (updN s r (fun o => { o with parents := o.parents ++ [p] }))
def linkEntry (s : St) (e : String × NodeEntry) : Except Err St :=
  match getNodeById s e.2.id with
  | none => .error .lookupError
  | some r => do
    let s' ← e.2.children.foldlM (addChild r) s
    e.2.parents.foldlM (addParent r) s'
def loadAtt (s : St) (e : String × AttEntry) : Except Err St :=
  match e.2.entry.mapM (·.toInt?), e.2.reached.mapM (·.toInt?) with
  | some en, some re => addAttacker s e.2.name (some e.2.id) en re
  | _, _ => .error .valueError

theorem fromDoc_eq (wm : Bool) (ak : String → Bool) (d : AGDoc) :
    fromDoc wm ak d = (do
      let s1 ← d.steps.foldlM (loadNode wm ak) {}
      let s2 ← d.steps.foldlM linkEntry s1
      d.attackers.foldlM loadAtt s2) := rfl

theorem loadNode_eq (wm : Bool) (s : St) (e : String × NodeEntry) :
    loadNode wm (fun _ => true) s e = addNode s (entryObj wm e.2) (some e.2.id) := by
  unfold loadNode
  rw [if_neg]
  cases wm <;> cases e.2.asset <;> simp

/-! ## phase 1: the nodes -/

/-- the state after loading the node entries `es` -/
structure NodesLoaded (wm : Bool) (es : List NodeEntry) (s : St) : Prop where
  nodes : s.nodes = List.range es.length
  nfresh : s.nfresh = es.length
  nobj : ∀ i (h : i < es.length), s.nobj i = { entryObj wm es[i] with id := es[i].id }
  cons : Consistent s
  attackers : s.attackers = []
  attIdx : s.attIdx = []
  afresh : s.afresh = 0

theorem nodesLoaded_init (wm : Bool) : NodesLoaded wm [] {} :=
  ⟨rfl, rfl, fun i h => absurd h (Nat.not_lt_zero i), init_consistent', rfl, rfl, rfl⟩

theorem NodesLoaded.lookup {wm : Bool} {es : List NodeEntry} {s : St} (h : NodesLoaded wm es s) (k : Int) (r : Nat) :
    getNodeById s k = some r ↔ ∃ hr : r < es.length, es[r].id = k := by
  unfold getNodeById
  rw [h.cons.idx.id_exact, h.nodes, List.mem_range]
  constructor
  · rintro ⟨hr, hid⟩
    rw [h.nobj r hr] at hid
    exact ⟨hr, hid⟩
  · rintro ⟨hr, hid⟩
    refine ⟨hr, ?_⟩
    rw [h.nobj r hr]; exact hid

theorem NodesLoaded.lookup_none {wm : Bool} {es : List NodeEntry} {s : St} (h : NodesLoaded wm es s) (k : Int)
    (hk : k ∉ es.map (·.id)) : dget s.idIdx k = none := by
  cases hd : dget s.idIdx k with
  | none => rfl
  | some r =>
    obtain ⟨hr, hid⟩ := (h.lookup k r).1 hd
    exact absurd (List.mem_map.2 ⟨es[r], List.getElem_mem hr, hid⟩) hk

theorem NodesLoaded.step {wm : Bool} {es : List NodeEntry} {s : St} (h : NodesLoaded wm es s) (n : NodeEntry)
    (hn : n.id ∉ es.map (·.id)) : NodesLoaded wm (es ++ [n]) (addNodeSt s (entryObj wm n) n.id) := by
  have hlen : (es ++ [n]).length = es.length + 1 := by simp
  refine ⟨?_, ?_, ?_, ?_, h.attackers, h.attIdx, h.afresh⟩
  · show s.nodes ++ [s.nfresh] = _
    rw [h.nodes, h.nfresh, hlen, List.range_succ]
  · show s.nfresh + 1 = _
    rw [h.nfresh, hlen]
  · intro i hi
    rw [hlen] at hi
    show (if i = s.nfresh then _ else s.nobj i) = _
    by_cases hi' : i = es.length
    · rw [if_pos (by rw [h.nfresh]; exact hi')]
      subst hi'
      simp
    · have hlt : i < es.length := by omega
      rw [if_neg (by rw [h.nfresh]; exact hi'), h.nobj i hlt, List.getElem_append_left hlt]
  · exact addNodeSt_consistent s _ _ h.cons (h.lookup_none _ hn) rfl rfl rfl

/-- stage 1: the node-creation fold succeeds for entries with pairwise distinct ids and creates the nodes
`0, 1, …` in the order of the file, each with the attributes of its entry -/
theorem nodes_loaded_aux (wm : Bool) (rest : List (String × NodeEntry)) (es : List NodeEntry) (s : St)
    (h : NodesLoaded wm es s) (hid : ((es ++ rest.map (·.2)).map (·.id)).Nodup) :
    ∃ s', rest.foldlM (loadNode wm (fun _ => true)) s = .ok s' ∧ NodesLoaded wm (es ++ rest.map (·.2)) s' := by
  induction rest generalizing es s with
  | nil => exact ⟨s, rfl, by simpa using h⟩
  | cons e rest ih =>
    have hnew : e.2.id ∉ es.map (·.id) := by
      intro hm
      rw [List.map_cons, List.map_append, List.map_cons, List.nodup_append] at hid
      exact hid.2.2 _ hm _ List.mem_cons_self rfl
    have hk := h.lookup_none _ hnew
    have hstep := h.step e.2 hnew
    have e1 : loadNode wm (fun _ => true) s e = .ok (addNodeSt s (entryObj wm e.2) e.2.id) := by
      rw [loadNode_eq, addNode_eq]
      show (if (dget s.idIdx e.2.id).isSome = true then _ else _) = _
      rw [hk]; rfl
    have hid' : (((es ++ [e.2]) ++ rest.map (·.2)).map (·.id)).Nodup := by simpa using hid
    obtain ⟨s', h1, h2⟩ := ih (es ++ [e.2]) _ hstep hid'
    refine ⟨s', ?_, by simpa using h2⟩
    rw [List.foldlM_cons, e1]
    exact h1

/-! ## well-formed documents -/

/-- the node entries of a document: distinct ids; the id lists are numbers, without repetition, ids of
entries of the document; `b` is listed as a child of `a` iff `a` is listed as a parent of `b` -/
structure NodesOKDoc (es : List NodeEntry) : Prop where
  ids_nodup : (es.map (·.id)).Nodup
  ch_parse : ∀ e ∈ es, KeysParse e.children
  pa_parse : ∀ e ∈ es, KeysParse e.parents
  ch_mem : ∀ e ∈ es, ∀ k ∈ kints e.children, k ∈ es.map (·.id)
  pa_mem : ∀ e ∈ es, ∀ k ∈ kints e.parents, k ∈ es.map (·.id)
  ch_nodup : ∀ e ∈ es, (kints e.children).Nodup
  pa_nodup : ∀ e ∈ es, (kints e.parents).Nodup
  mirror : ∀ e ∈ es, ∀ e' ∈ es, (e'.id ∈ kints e.children ↔ e.id ∈ kints e'.parents)

/-- the attacker entries: distinct ids; entry points and reached steps are ids of node entries -/
structure AttsOKDoc (ids : List Int) (as : List AttEntry) : Prop where
  ids_nodup : (as.map (·.id)).Nodup
  en_parse : ∀ a ∈ as, KeysParse a.entry
  re_parse : ∀ a ∈ as, KeysParse a.reached
  en_mem : ∀ a ∈ as, ∀ k ∈ kints a.entry, k ∈ ids
  re_mem : ∀ a ∈ as, ∀ k ∈ kints a.reached, k ∈ ids

structure DocOK (d : AGDoc) : Prop where
  nodes : NodesOKDoc (d.steps.map (·.2))
  atts : AttsOKDoc ((d.steps.map (·.2)).map (·.id)) (d.attackers.map (·.2))

/-! ## phase 2: the links -/

theorem updN_updN_same (s : St) (r : Nat) (f g : NodeObj → NodeObj) :
    updN (updN s r f) r g = updN s r (fun o => g (f o)) := by
  unfold updN
  congr 1
  funext x
  by_cases h : x = r <;> simp [h]

theorem updN_of_id (s : St) (r : Nat) (f : NodeObj → NodeObj) (h : ∀ o, f o = o) : updN s r f = s := by
  unfold updN
  have : (fun x => if x = r then f (s.nobj x) else s.nobj x) = s.nobj := by
    funext x; by_cases hx : x = r <;> simp [hx, h]
  rw [this]

theorem foldlM_addChild (r : Nat) (ks : List Key) (s : St) (cs : List Nat)
    (h : ks.map (fun k => k.toInt?.bind (getNodeById s)) = cs.map some) :
    ks.foldlM (addChild r) s = .ok (updN s r (fun o => { o with children := o.children ++ cs })) := by
  induction ks generalizing s cs with
  | nil =>
    cases cs with
    | nil => rw [updN_of_id _ _ _ (fun o => by simp)]; rfl
    | cons c cs => simp at h
  | cons k ks ih =>
    cases cs with
    | nil => simp at h
    | cons c cs =>
      rw [List.map_cons, List.map_cons, List.cons.injEq] at h
      rw [List.foldlM_cons]
      have e1 : addChild r s k = .ok (updN s r (fun o => { o with children := o.children ++ [c] })) := by
        unfold addChild; rw [h.1]
      rw [e1]
      have h2 : ks.map (fun k => k.toInt?.bind
          (getNodeById (updN s r (fun o => { o with children := o.children ++ [c] })))) = cs.map some := h.2
      show ks.foldlM (addChild r) (updN s r _) = _
      rw [ih _ cs h2, updN_updN_same]
      congr 2
      funext o
      simp

theorem foldlM_addParent (r : Nat) (ks : List Key) (s : St) (cs : List Nat)
    (h : ks.map (fun k => k.toInt?.bind (getNodeById s)) = cs.map some) :
    ks.foldlM (addParent r) s = .ok (updN s r (fun o => { o with parents := o.parents ++ cs })) := by
  induction ks generalizing s cs with
  | nil =>
    cases cs with
    | nil => rw [updN_of_id _ _ _ (fun o => by simp)]; rfl
    | cons c cs => simp at h
  | cons k ks ih =>
    cases cs with
    | nil => simp at h
    | cons c cs =>
      rw [List.map_cons, List.map_cons, List.cons.injEq] at h
      rw [List.foldlM_cons]
      have e1 : addParent r s k = .ok (updN s r (fun o => { o with parents := o.parents ++ [c] })) := by
        unfold addParent; rw [h.1]
      rw [e1]
      have h2 : ks.map (fun k => k.toInt?.bind
          (getNodeById (updN s r (fun o => { o with parents := o.parents ++ [c] })))) = cs.map some := h.2
      show ks.foldlM (addParent r) (updN s r _) = _
      rw [ih _ cs h2, updN_updN_same]
      congr 2
      funext o
      simp

/-- the i-th entry -/
def nth (es : List NodeEntry) (i : Nat) : NodeEntry := es.getD i default
theorem nth_eq (es : List NodeEntry) {i : Nat} (h : i < es.length) : nth es i = es[i] := by
  unfold nth; rw [List.getD_eq_getElem?_getD, List.getElem?_eq_getElem h]; rfl

/-- the reference the id `k` stands for -/
def lookI (s1 : St) (k : Int) : Nat := (getNodeById s1 k).getD 0
def childRefs (s1 : St) (es : List NodeEntry) (i : Nat) : List Nat := (kints (nth es i).children).map (lookI s1)
def parentRefs (s1 : St) (es : List NodeEntry) (i : Nat) : List Nat := (kints (nth es i).parents).map (lookI s1)

/-- the state when the first `j` entries have been linked -/
def linkedSt (s1 : St) (es : List NodeEntry) (j : Nat) : St :=
  { s1 with nobj := fun x => if x < j then { s1.nobj x with children := childRefs s1 es x, parents := parentRefs s1 es x }
                             else s1.nobj x }

section links
variable {wm : Bool} {es : List NodeEntry} {s1 : St}

theorem NodesLoaded.lookI_of_mem (h : NodesLoaded wm es s1) {k : Int} (hk : k ∈ es.map (·.id)) :
    ∃ hr : lookI s1 k < es.length, es[lookI s1 k].id = k ∧ getNodeById s1 k = some (lookI s1 k) := by
  obtain ⟨e, he, rfl⟩ := List.mem_map.1 hk
  obtain ⟨i, hi, rfl⟩ := List.getElem_of_mem he
  have hl : getNodeById s1 es[i].id = some i := (h.lookup _ i).2 ⟨hi, rfl⟩
  have : lookI s1 es[i].id = i := by unfold lookI; rw [hl]; rfl
  rw [this]
  exact ⟨hi, rfl, hl⟩

theorem NodesLoaded.lookI_idx (h : NodesLoaded wm es s1) {r : Nat} (hr : r < es.length) : lookI s1 es[r].id = r := by
  have hl : getNodeById s1 es[r].id = some r := (h.lookup _ r).2 ⟨hr, rfl⟩
  unfold lookI; rw [hl]; rfl

theorem linkedSt_zero : linkedSt s1 es 0 = s1 := by
  unfold linkedSt
  simp only [Nat.not_lt_zero, if_false]

theorem linkedSt_frame (j : Nat) : Frame s1 (linkedSt s1 es j) := ⟨rfl, rfl, rfl, rfl, rfl, rfl, rfl, rfl, rfl⟩

theorem keys_lookup (h : NodesLoaded wm es s1) (s : St) (hs : s.idIdx = s1.idIdx) (ks : List Key) (hp : KeysParse ks)
    (hm : ∀ k ∈ kints ks, k ∈ es.map (·.id)) :
    ks.map (fun k => k.toInt?.bind (getNodeById s)) = ((kints ks).map (lookI s1)).map some := by
  unfold kints
  rw [List.map_map, List.map_map]
  apply List.map_congr_left
  intro k hk
  have hg : getNodeById s = getNodeById s1 := by funext i; unfold getNodeById; rw [hs]
  rw [toInt?_of_parse (hp k hk), hg]
  exact (h.lookI_of_mem (hm _ (List.mem_map_of_mem hk))).2.2

theorem linkEntry_step (h : NodesLoaded wm es s1) (hd : NodesOKDoc es) (j : Nat) (hj : j < es.length) (key : String) :
    linkEntry (linkedSt s1 es j) (key, es[j]) = .ok (linkedSt s1 es (j + 1)) := by
  have hmem : es[j] ∈ es := List.getElem_mem hj
  have hl : getNodeById (linkedSt s1 es j) es[j].id = some j := (h.lookup _ j).2 ⟨hj, rfl⟩
  unfold linkEntry
  simp only [hl]
  rw [foldlM_addChild j _ _ _ (keys_lookup h (linkedSt s1 es j) rfl _ (hd.ch_parse _ hmem) (hd.ch_mem _ hmem))]
  show List.foldlM (addParent j) (updN (linkedSt s1 es j) j _) es[j].parents = _
  rw [foldlM_addParent j _ _ _ (keys_lookup h (updN (linkedSt s1 es j) j _) rfl _ (hd.pa_parse _ hmem)
    (hd.pa_mem _ hmem)), updN_updN_same]
  congr 1
  unfold updN linkedSt
  congr 1
  funext x
  by_cases hx : x = j
  · subst hx
    have e0 : s1.nobj x = { entryObj wm es[x] with id := es[x].id } := h.nobj x hj
    simp only [Nat.lt_irrefl, if_false, if_true, Nat.lt_succ_self, childRefs, parentRefs, nth_eq es hj, e0]
    simp [entryObj]
  · by_cases hlt : x < j
    · have : x < j + 1 := by omega
      simp [hx, hlt, this]
    · have : ¬ x < j + 1 := by omega
      simp [hx, hlt, this]

/-- stage 2a: the link fold succeeds -/
theorem links_fold (h : NodesLoaded wm es s1) (hd : NodesOKDoc es) (rest : List (String × NodeEntry)) (j : Nat)
    (hj : j ≤ es.length) (hrest : rest.map (·.2) = es.drop j) :
    rest.foldlM linkEntry (linkedSt s1 es j) = .ok (linkedSt s1 es es.length) := by
  induction rest generalizing j with
  | nil =>
    have : es.length ≤ j := by
      have := congrArg List.length hrest
      simp at this; omega
    have e : j = es.length := by omega
    rw [e]; rfl
  | cons e rest ih =>
    have hj : j < es.length := by
      have := congrArg List.length hrest
      simp at this; omega
    have he : e.2 = es[j] ∧ rest.map (·.2) = es.drop (j + 1) := by
      rw [List.map_cons, List.drop_eq_getElem_cons hj, List.cons.injEq] at hrest
      exact hrest
    rw [List.foldlM_cons]
    have : e = (e.1, es[j]) := by rw [← he.1]
    rw [this, linkEntry_step h hd j hj]
    exact ih (j + 1) hj he.2

end links

/-- the state after the link fold -/
structure LinksLoaded (wm : Bool) (es : List NodeEntry) (s : St) : Prop where
  nodes : s.nodes = List.range es.length
  nfresh : s.nfresh = es.length
  det : ∀ i (h : i < es.length), (s.nobj i).detached = { entryObj wm es[i] with id := es[i].id }
  children_ids : ∀ i (h : i < es.length), (s.nobj i).children.map (fun c => (s.nobj c).id) = kints es[i].children
  parents_ids : ∀ i (h : i < es.length), (s.nobj i).parents.map (fun c => (s.nobj c).id) = kints es[i].parents
  cons : Consistent s
  attackers : s.attackers = []
  attIdx : s.attIdx = []
  afresh : s.afresh = 0

section linked
variable {wm : Bool} {es : List NodeEntry} {s1 : St}

theorem linkedSt_nobj_lt {j i : Nat} (hi : i < j) : (linkedSt s1 es j).nobj i =
    { s1.nobj i with children := childRefs s1 es i, parents := parentRefs s1 es i } := by
  unfold linkedSt; simp [hi]
theorem linkedSt_nobj_ge {j i : Nat} (hi : ¬ i < j) : (linkedSt s1 es j).nobj i = s1.nobj i := by
  unfold linkedSt; simp [hi]
theorem linkedSt_sameData (j x : Nat) : SameData (s1.nobj x) ((linkedSt s1 es j).nobj x) := by
  by_cases hx : x < j
  · rw [linkedSt_nobj_lt hx]; exact ⟨rfl, rfl, rfl, rfl, rfl, rfl, rfl, rfl⟩
  · rw [linkedSt_nobj_ge hx]; exact SameData.refl _
theorem linkedSt_compBy (j x : Nat) : ((linkedSt s1 es j).nobj x).compBy = (s1.nobj x).compBy := by
  by_cases hx : x < j
  · rw [linkedSt_nobj_lt hx]
  · rw [linkedSt_nobj_ge hx]

theorem NodesLoaded.lookI_inj (h : NodesLoaded wm es s1) {a b : Int} (ha : a ∈ es.map (·.id)) (hb : b ∈ es.map (·.id))
    (e : lookI s1 a = lookI s1 b) : a = b := by
  obtain ⟨_, h1, _⟩ := h.lookI_of_mem ha
  obtain ⟨_, h2, _⟩ := h.lookI_of_mem hb
  rw [← h1, ← h2]
  simp only [e]

theorem NodesLoaded.mem_refs (h : NodesLoaded wm es s1) (l : List Int) (hm : ∀ k ∈ l, k ∈ es.map (·.id)) {c : Nat}
    (hc : c < es.length) : c ∈ l.map (lookI s1) ↔ es[c].id ∈ l := by
  rw [List.mem_map]
  constructor
  · rintro ⟨k, hk, rfl⟩
    obtain ⟨_, h1, _⟩ := h.lookI_of_mem (hm k hk)
    rw [h1]; exact hk
  · intro hk
    exact ⟨_, hk, h.lookI_idx hc⟩

theorem NodesLoaded.count_refs (h : NodesLoaded wm es s1) (l : List Int) (hl : l.Nodup)
    (hm : ∀ k ∈ l, k ∈ es.map (·.id)) {c : Nat} (hc : c < es.length) :
    (l.map (lookI s1)).count c = if es[c].id ∈ l then 1 else 0 := by
  have nd : (l.map (lookI s1)).Nodup :=
    MS.nodup_map_of_inj (lookI s1) l hl (fun a ha b hb e => h.lookI_inj (hm a ha) (hm b hb) e)
  rw [nd.count]
  by_cases hk : es[c].id ∈ l
  · rw [if_pos hk, if_pos ((h.mem_refs l hm hc).2 hk)]
  · rw [if_neg hk, if_neg (fun hh => hk ((h.mem_refs l hm hc).1 hh))]

theorem NodesLoaded.ids_of_refs (h : NodesLoaded wm es s1) (j : Nat) (l : List Int) (hm : ∀ k ∈ l, k ∈ es.map (·.id)) :
    (l.map (lookI s1)).map (fun c => ((linkedSt s1 es j).nobj c).id) = l := by
  rw [List.map_map]
  conv => rhs; rw [← List.map_id l]
  apply List.map_congr_left
  intro k hk
  obtain ⟨hr, h1, _⟩ := h.lookI_of_mem (hm k hk)
  show ((linkedSt s1 es j).nobj (lookI s1 k)).id = k
  rw [(linkedSt_sameData j _).id, h.nobj _ hr]
  exact h1

/-- stage 2b: the linked state -/
theorem linksLoaded (h : NodesLoaded wm es s1) (hd : NodesOKDoc es) : LinksLoaded wm es (linkedSt s1 es es.length) := by
  have hmemN : ∀ x, x ∈ s1.nodes ↔ x < es.length := by intro x; rw [h.nodes, List.mem_range]
  have hel : ∀ i (hi : i < es.length), es[i] ∈ es := fun i hi => List.getElem_mem hi
  have hch : ∀ i (hi : i < es.length), ((linkedSt s1 es es.length).nobj i).children = (kints es[i].children).map (lookI s1) := by
    intro i hi; rw [linkedSt_nobj_lt hi]; show childRefs s1 es i = _; unfold childRefs; rw [nth_eq es hi]
  have hpa : ∀ i (hi : i < es.length), ((linkedSt s1 es es.length).nobj i).parents = (kints es[i].parents).map (lookI s1) := by
    intro i hi; rw [linkedSt_nobj_lt hi]; show parentRefs s1 es i = _; unfold parentRefs; rw [nth_eq es hi]
  refine ⟨h.nodes, h.nfresh, ?_, ?_, ?_, ⟨?_, ?_, ?_, ?_⟩, h.attackers, h.attIdx, h.afresh⟩
  · intro i hi
    rw [linkedSt_nobj_lt hi, ← h.nobj i hi]
    have := h.nobj i hi
    show ({ s1.nobj i with children := [], parents := [], compBy := [] } : NodeObj) = s1.nobj i
    rw [this]; rfl
  · intro i hi
    rw [hch i hi]
    exact h.ids_of_refs _ _ (hd.ch_mem _ (hel i hi))
  · intro i hi
    rw [hpa i hi]
    exact h.ids_of_refs _ _ (hd.pa_mem _ (hel i hi))
  · -- NodesOK
    refine ⟨h.cons.nodes.nodup, h.cons.nodes.fresh, ?_, ?_, ?_⟩
    · intro p hp c hc
      have hp' := (hmemN p).1 hp
      rw [hch p hp'] at hc
      obtain ⟨k, hk, rfl⟩ := List.mem_map.1 hc
      obtain ⟨hr, _, _⟩ := h.lookI_of_mem (hd.ch_mem _ (hel p hp') k hk)
      exact (hmemN _).2 hr
    · intro p hp c hc
      have hp' := (hmemN p).1 hp
      rw [hpa p hp'] at hc
      obtain ⟨k, hk, rfl⟩ := List.mem_map.1 hc
      obtain ⟨hr, _, _⟩ := h.lookI_of_mem (hd.pa_mem _ (hel p hp') k hk)
      exact (hmemN _).2 hr
    · intro p hp c hc
      have hp' := (hmemN p).1 hp
      have hc' := (hmemN c).1 hc
      rw [hch p hp', hpa c hc',
          h.count_refs _ (hd.ch_nodup _ (hel p hp')) (hd.ch_mem _ (hel p hp')) hc',
          h.count_refs _ (hd.pa_nodup _ (hel c hc')) (hd.pa_mem _ (hel c hc')) hp']
      have := hd.mirror _ (hel p hp') _ (hel c hc')
      by_cases hk : es[c].id ∈ kints es[p].children
      · rw [if_pos hk, if_pos (this.1 hk)]
      · rw [if_neg hk, if_neg (fun hh => hk (this.2 hh))]
  · exact IdxOK.congr (s := s1) rfl rfl rfl rfl (fun x _ => (linkedSt_sameData _ x).id)
      (fun x _ => (linkedSt_sameData _ x).fullName) h.cons.idx
  · exact AttIdxOK.congr (s := s1) rfl rfl rfl rfl (fun _ _ => rfl) h.cons.attIdx
  · exact CompOK.congr (s := s1) rfl rfl (fun x _ => linkedSt_compBy _ x) (fun _ _ => rfl) (fun _ _ => rfl) h.cons.comp

end linked

/-! ## phase 3: the attackers -/

/-- two node objects agree on everything but `compBy` -/
structure SameButComp (o o' : NodeObj) : Prop where
  det : o'.detached = o.detached
  children : o'.children = o.children
  parents : o'.parents = o.parents
def KeepsLinks (s s' : St) : Prop := ∀ x, SameButComp (s.nobj x) (s'.nobj x)

theorem SameButComp.refl (o : NodeObj) : SameButComp o o := ⟨rfl, rfl, rfl⟩
theorem SameButComp.trans {o o' o'' : NodeObj} (h : SameButComp o o') (h' : SameButComp o' o'') : SameButComp o o'' :=
  ⟨h'.det.trans h.det, h'.children.trans h.children, h'.parents.trans h.parents⟩
theorem KeepsLinks.refl (s : St) : KeepsLinks s s := fun _ => SameButComp.refl _
theorem KeepsLinks.trans {s s' s'' : St} (h : KeepsLinks s s') (h' : KeepsLinks s' s'') : KeepsLinks s s'' :=
  fun x => (h x).trans (h' x)
theorem KeepsLinks.foldl {ι : Type} (f : St → ι → St) (l : List ι) (s : St) (h : ∀ s x, KeepsLinks s (f s x)) :
    KeepsLinks s (l.foldl f s) := by
  induction l generalizing s with
  | nil => exact KeepsLinks.refl s
  | cons x l ih => exact (h s x).trans (ih _)
theorem KeepsLinks.updA (s : St) (a : Nat) (f : AttObj → AttObj) : KeepsLinks s (updA s a f) :=
  fun _ => SameButComp.refl _
theorem KeepsLinks.updN_compBy (s : St) (n : Nat) (g : List Nat → List Nat) :
    KeepsLinks s (updN s n (fun o => { o with compBy := g o.compBy })) := by
  intro x
  rw [updN_nobj]
  split
  · exact ⟨rfl, rfl, rfl⟩
  · exact SameButComp.refl _
theorem compromise_keepsLinks (s : St) (a n : Nat) : KeepsLinks s (compromise s a n) := by
  rcases compromise_cases s a n with e | e <;> rw [e]
  · exact KeepsLinks.refl s
  · exact (KeepsLinks.updN_compBy s n (fun l => l ++ [a])).trans (KeepsLinks.updA _ _ _)
theorem aaReach_keepsLinks (a : Nat) (s : St) (i : Int) : KeepsLinks s (aaReach a s i) := by
  unfold aaReach; split
  · exact compromise_keepsLinks s a _
  · exact KeepsLinks.refl s
theorem aaEntry_keepsLinks (a : Nat) (s : St) (i : Int) : KeepsLinks s (aaEntry a s i) := by
  unfold aaEntry; split
  · exact KeepsLinks.updA s a _
  · exact KeepsLinks.refl s

theorem aaReach_aobj_ne (a : Nat) (s : St) (i : Int) (b : Nat) (h : b ≠ a) : (aaReach a s i).aobj b = s.aobj b := by
  unfold aaReach; split
  · exact compromise_aobj_ne s a _ b h
  · rfl
theorem aaEntry_aobj_ne (a : Nat) (s : St) (i : Int) (b : Nat) (h : b ≠ a) : (aaEntry a s i).aobj b = s.aobj b := by
  unfold aaEntry; split
  · exact updA_aobj_ne s a _ h
  · rfl
theorem foldl_aaReach_aobj_ne (a : Nat) (l : List Int) (s : St) (b : Nat) (h : b ≠ a) :
    (l.foldl (aaReach a) s).aobj b = s.aobj b := by
  induction l generalizing s with
  | nil => rfl
  | cons i l ih => rw [List.foldl_cons, ih, aaReach_aobj_ne a s i b h]
theorem foldl_aaEntry_aobj_ne (a : Nat) (l : List Int) (s : St) (b : Nat) (h : b ≠ a) :
    (l.foldl (aaEntry a) s).aobj b = s.aobj b := by
  induction l generalizing s with
  | nil => rfl
  | cons i l ih => rw [List.foldl_cons, ih, aaEntry_aobj_ne a s i b h]

theorem foldl_aaReach_data (a : Nat) (l : List Int) (s : St) (b : Nat) :
    ((l.foldl (aaReach a) s).aobj b).id = (s.aobj b).id ∧ ((l.foldl (aaReach a) s).aobj b).name = (s.aobj b).name ∧
      ((l.foldl (aaReach a) s).aobj b).entry = (s.aobj b).entry := by
  induction l generalizing s with
  | nil => exact ⟨rfl, rfl, rfl⟩
  | cons i l ih =>
    rw [List.foldl_cons]
    obtain ⟨i1, i2, i3⟩ := ih (aaReach a s i)
    rw [i1, i2, i3]
    unfold aaReach; split
    · exact compromise_aobj_data s a _ b
    · exact ⟨rfl, rfl, rfl⟩

theorem foldl_aaReach_reached (a : Nat) (l : List Int) (s : St) (h : Consistent s) (ha : a ∈ s.attackers) (m : Nat) :
    m ∈ ((l.foldl (aaReach a) s).aobj a).reached ↔ (m ∈ (s.aobj a).reached ∨ ∃ i ∈ l, getNodeById s i = some m) := by
  induction l generalizing s with
  | nil => simp
  | cons i l ih =>
    have hf := aaReach_frame a s i
    have hgn : ∀ k, getNodeById (aaReach a s i) k = getNodeById s k := by
      intro k; unfold getNodeById; rw [hf.idIdx]
    rw [List.foldl_cons, ih _ (aaReach_consistent a s i h ha) (by rw [hf.attackers]; exact ha)]
    simp only [hgn, List.mem_cons, exists_eq_or_imp]
    have : m ∈ ((aaReach a s i).aobj a).reached ↔ (m ∈ (s.aobj a).reached ∨ getNodeById s i = some m) := by
      unfold aaReach; split
      · next n hn =>
        rw [compromise_reached_mem h.comp ha ((h.idx.id_exact i n).1 hn).1, hn]
        constructor
        · rintro (h' | h'); exact Or.inl h'; exact Or.inr (by rw [h'])
        · rintro (h' | h'); exact Or.inl h'; injection h' with h'; exact Or.inr h'.symm
      · next hn => rw [hn]; simp
    rw [this, or_assoc]

theorem foldl_aaEntry_self (a : Nat) (l : List Int) (s : St) :
    (l.foldl (aaEntry a) s).aobj a = { s.aobj a with entry := (s.aobj a).entry ++ l.filterMap (getNodeById s) } := by
  induction l generalizing s with
  | nil => simp
  | cons i l ih =>
    rw [List.foldl_cons, ih]
    have hgn : getNodeById (aaEntry a s i) = getNodeById s := by
      funext k; unfold getNodeById; rw [(aaEntry_frame a s i).idIdx]
    rw [hgn, List.filterMap_cons]
    unfold aaEntry
    cases hi : getNodeById s i with
    | none => rfl
    | some n =>
      simp only [updA_aobj, if_true]
      simp

/-- the state after loading the attacker entries `as` into the linked state `s2` -/
structure AttsLoaded (s2 : St) (as : List AttEntry) (s : St) : Prop where
  cons : Consistent s
  nodes : s.nodes = s2.nodes
  idIdx : s.idIdx = s2.idIdx
  links : KeepsLinks s2 s
  attackers : s.attackers = List.range as.length
  afresh : s.afresh = as.length
  aobj : ∀ j (h : j < as.length), (s.aobj j).id = as[j].id ∧ (s.aobj j).name = as[j].name ∧
      (s.aobj j).entry = (kints as[j].entry).map (lookI s2) ∧
      (∀ m, m ∈ (s.aobj j).reached ↔ m ∈ (kints as[j].reached).map (lookI s2))

theorem filterMap_lookup (s2 : St) (l : List Int) (h : ∀ i ∈ l, (getNodeById s2 i).isSome = true) :
    l.filterMap (getNodeById s2) = l.map (lookI s2) := by
  induction l with
  | nil => rfl
  | cons i l ih =>
    have hi := h i List.mem_cons_self
    rw [Option.isSome_iff_exists] at hi
    obtain ⟨n, hn⟩ := hi
    rw [List.filterMap_cons, hn, List.map_cons, ih (fun j hj => h j (List.mem_cons_of_mem _ hj))]
    unfold lookI; rw [hn]; rfl

theorem mem_map_lookI (s2 : St) (l : List Int) (h : ∀ i ∈ l, (getNodeById s2 i).isSome = true) (m : Nat) :
    m ∈ l.map (lookI s2) ↔ ∃ i ∈ l, getNodeById s2 i = some m := by
  rw [List.mem_map]
  constructor
  · rintro ⟨i, hi, rfl⟩
    have := h i hi
    rw [Option.isSome_iff_exists] at this
    obtain ⟨n, hn⟩ := this
    exact ⟨i, hi, by unfold lookI; rw [hn]; rfl⟩
  · rintro ⟨i, hi, hn⟩
    exact ⟨i, hi, by unfold lookI; rw [hn]; rfl⟩

theorem AttsLoaded.step {s2 : St} {as : List AttEntry} {s : St} (h : AttsLoaded s2 as s) (key : String) (a : AttEntry)
    (hid : a.id ∉ as.map (·.id)) (hpe : KeysParse a.entry) (hpr : KeysParse a.reached)
    (hme : ∀ k ∈ kints a.entry, (getNodeById s2 k).isSome = true)
    (hmr : ∀ k ∈ kints a.reached, (getNodeById s2 k).isSome = true) :
    ∃ s', loadAtt s (key, a) = .ok s' ∧ AttsLoaded s2 (as ++ [a]) s' := by
  have hgn : getNodeById s = getNodeById s2 := by funext k; unfold getNodeById; rw [h.idIdx]
  have hk : dget s.attIdx a.id = none := by
    cases hd : dget s.attIdx a.id with
    | none => rfl
    | some r =>
      obtain ⟨hr, hri⟩ := (h.cons.attIdx.id_exact _ r).1 hd
      rw [h.attackers, List.mem_range] at hr
      rw [(h.aobj r hr).1] at hri
      exact absurd (List.mem_map.2 ⟨as[r], List.getElem_mem hr, hri⟩) hid
  have hex : ∃ s', addAttacker s a.name (some a.id) (kints a.entry) (kints a.reached) = .ok s' := by
    rw [addAttacker_eq, if_neg (by show ¬ (dget s.attIdx a.id).isSome = true; rw [hk]; simp), if_neg]
    · exact ⟨_, rfl⟩
    · rw [hgn]
      simp only [Bool.not_eq_true', Bool.not_eq_false, Bool.and_eq_true, List.all_eq_true]
      exact ⟨hmr, hme⟩
  obtain ⟨s', hok⟩ := hex
  refine ⟨s', ?_, ?_⟩
  · unfold loadAtt
    simp only [mapM_toInt_of_parse _ hpe, mapM_toInt_of_parse _ hpr]
    exact hok
  · have hcons := addAttacker_consistent' h.cons hok
    obtain ⟨_, hs'⟩ := addAttacker_ok hok
    have hkk : (some a.id).getD s.nextAtt = a.id := rfl
    rw [hkk] at hs'
    -- the three stages
    have h0 := aaInit_consistent s a.name a.id h.cons hk
    have ha0 : s.afresh ∈ (aaInit s a.name a.id).attackers := (aaInit_mem s a.name _ _).2 (Or.inr rfl)
    have hf1 : Frame (aaInit s a.name a.id) ((kints a.reached).foldl (aaReach s.afresh) (aaInit s a.name a.id)) :=
      Frame.foldl _ _ _ (aaReach_frame s.afresh)
    have hf2 : Frame (aaInit s a.name a.id) s' := by
      rw [hs']; exact hf1.trans (Frame.foldl _ _ _ (aaEntry_frame s.afresh))
    have hl : KeepsLinks s s' := by
      rw [hs']
      exact KeepsLinks.trans (s' := aaInit s a.name a.id) (fun _ => SameButComp.refl _)
        ((KeepsLinks.foldl _ _ _ (aaReach_keepsLinks s.afresh)).trans (KeepsLinks.foldl _ _ _ (aaEntry_keepsLinks s.afresh)))
    have hlen : (as ++ [a]).length = as.length + 1 := by simp
    refine ⟨hcons, hf2.nodes.trans h.nodes, hf2.idIdx.trans h.idIdx, h.links.trans hl, ?_, ?_, ?_⟩
    · rw [hf2.attackers]
      show s.attackers ++ [s.afresh] = _
      rw [h.attackers, h.afresh, hlen, List.range_succ]
    · rw [hf2.afresh]
      show s.afresh + 1 = _
      rw [h.afresh, hlen]
    · intro j hj
      rw [hlen] at hj
      by_cases hj' : j = as.length
      · -- the new attacker
        subst hj'
        have hja : as.length = s.afresh := h.afresh.symm
        have e1 : (as ++ [a])[as.length] = a := by simp
        rw [e1, hja, hs', foldl_aaEntry_self]
        obtain ⟨d1, d2, d3⟩ := foldl_aaReach_data s.afresh (kints a.reached) (aaInit s a.name a.id) s.afresh
        have hnew := aaInit_aobj_new s a.name a.id
        have hg1 : getNodeById ((kints a.reached).foldl (aaReach s.afresh) (aaInit s a.name a.id)) = getNodeById s2 := by
          funext k; unfold getNodeById; rw [hf1.idIdx]; show dget s.idIdx k = _; rw [h.idIdx]
        refine ⟨by show _ = a.id; rw [d1, hnew], by show _ = a.name; rw [d2, hnew], ?_, ?_⟩
        · show _ ++ _ = _
          rw [d3, hnew, hg1, filterMap_lookup s2 _ hme]
          rfl
        · intro m
          show m ∈ (((kints a.reached).foldl (aaReach s.afresh) (aaInit s a.name a.id)).aobj s.afresh).reached ↔ _
          rw [foldl_aaReach_reached _ _ _ h0 ha0, hnew, mem_map_lookI s2 _ hmr]
          have hg0 : getNodeById (aaInit s a.name a.id) = getNodeById s2 := by
            funext k; unfold getNodeById; show dget s.idIdx k = _; rw [h.idIdx]
          rw [hg0]
          simp
      · have hlt : j < as.length := by omega
        have hne : j ≠ s.afresh := by rw [h.afresh]; exact hj'
        have e1 : (as ++ [a])[j] = as[j] := List.getElem_append_left hlt
        have e2 : s'.aobj j = s.aobj j := by
          rw [hs', foldl_aaEntry_aobj_ne _ _ _ _ hne, foldl_aaReach_aobj_ne _ _ _ _ hne]
          show (if j = s.afresh then _ else _) = _
          rw [if_neg hne]
        rw [e1, e2]
        exact h.aobj j hlt

/-- stage 3: the attacker fold succeeds and creates the attackers `0, 1, …` in the order of the file -/
theorem attackers_loaded_aux (s2 : St) (rest : List (String × AttEntry)) (as : List AttEntry) (s : St)
    (h : AttsLoaded s2 as s) (hid : ((as ++ rest.map (·.2)).map (·.id)).Nodup)
    (hpe : ∀ a ∈ rest, KeysParse a.2.entry) (hpr : ∀ a ∈ rest, KeysParse a.2.reached)
    (hme : ∀ a ∈ rest, ∀ k ∈ kints a.2.entry, (getNodeById s2 k).isSome = true)
    (hmr : ∀ a ∈ rest, ∀ k ∈ kints a.2.reached, (getNodeById s2 k).isSome = true) :
    ∃ s', rest.foldlM loadAtt s = .ok s' ∧ AttsLoaded s2 (as ++ rest.map (·.2)) s' := by
  induction rest generalizing as s with
  | nil => exact ⟨s, rfl, by simpa using h⟩
  | cons e rest ih =>
    have hnew : e.2.id ∉ as.map (·.id) := by
      intro hm
      rw [List.map_cons, List.map_append, List.map_cons, List.nodup_append] at hid
      exact hid.2.2 _ hm _ List.mem_cons_self rfl
    obtain ⟨s1, h1, h2⟩ := h.step e.1 e.2 hnew (hpe e List.mem_cons_self) (hpr e List.mem_cons_self)
      (hme e List.mem_cons_self) (hmr e List.mem_cons_self)
    have hid' : (((as ++ [e.2]) ++ rest.map (·.2)).map (·.id)).Nodup := by simpa using hid
    obtain ⟨s', h3, h4⟩ := ih (as ++ [e.2]) s1 h2 hid' (fun a ha => hpe a (List.mem_cons_of_mem _ ha))
      (fun a ha => hpr a (List.mem_cons_of_mem _ ha)) (fun a ha => hme a (List.mem_cons_of_mem _ ha))
      (fun a ha => hmr a (List.mem_cons_of_mem _ ha))
    refine ⟨s', ?_, by simpa using h4⟩
    rw [List.foldlM_cons]
    have : e = (e.1, e.2) := rfl
    rw [this, h1]
    exact h3

/-! ## the three phases composed -/

/-- what `fromDoc` builds from a well-formed document with node entries `es` and attacker entries `as`:
node `i` is made from the i-th node entry, attacker `j` from the j-th attacker entry -/
structure Loaded (wm : Bool) (es : List NodeEntry) (as : List AttEntry) (s : St) : Prop where
  cons : Consistent s
  nodes : s.nodes = List.range es.length
  det : ∀ i (h : i < es.length), (s.nobj i).detached = { entryObj wm es[i] with id := es[i].id }
  children_ids : ∀ i (h : i < es.length), (s.nobj i).children.map (fun c => (s.nobj c).id) = kints es[i].children
  parents_ids : ∀ i (h : i < es.length), (s.nobj i).parents.map (fun c => (s.nobj c).id) = kints es[i].parents
  attackers : s.attackers = List.range as.length
  att : ∀ j (h : j < as.length), (s.aobj j).id = as[j].id ∧ (s.aobj j).name = as[j].name ∧
      entryIds s j = kints as[j].entry ∧ (∀ i, i ∈ reachedIds s j ↔ i ∈ kints as[j].reached)

theorem detached_id {o o' : NodeObj} (h : o'.detached = o.detached) : o'.id = o.id := by
  have := congrArg NodeObj.id h; exact this

theorem mem_map_congr_set {α β : Type} (f : α → β) (l l' : List α) (h : ∀ m, m ∈ l ↔ m ∈ l') (i : β) :
    i ∈ l.map f ↔ i ∈ l'.map f := by
  simp only [List.mem_map]
  constructor
  · rintro ⟨m, hm, rfl⟩; exact ⟨m, (h m).1 hm, rfl⟩
  · rintro ⟨m, hm, rfl⟩; exact ⟨m, (h m).2 hm, rfl⟩

/-- stage 4: loading a well-formed document succeeds -/
theorem fromDoc_ok (wm : Bool) (d : AGDoc) (hd : DocOK d) :
    ∃ s', fromDoc wm (fun _ => true) d = .ok s' ∧ Loaded wm (d.steps.map (·.2)) (d.attackers.map (·.2)) s' := by
  -- phase 1
  obtain ⟨s1, h1, hN⟩ := nodes_loaded_aux wm d.steps [] {} (nodesLoaded_init wm) (by simpa using hd.nodes.ids_nodup)
  rw [List.nil_append] at hN
  -- phase 2
  have h2 := links_fold hN hd.nodes d.steps 0 (Nat.zero_le _) (by simp)
  rw [linkedSt_zero] at h2
  have hL := linksLoaded hN hd.nodes
  -- phase 3
  have hg : ∀ k, getNodeById (linkedSt s1 (d.steps.map (·.2)) (d.steps.map (·.2)).length) k = getNodeById s1 k :=
    fun _ => rfl
  have hsome : ∀ k ∈ (d.steps.map (·.2)).map (·.id),
      (getNodeById (linkedSt s1 (d.steps.map (·.2)) (d.steps.map (·.2)).length) k).isSome = true := by
    intro k hk
    rw [hg, (hN.lookI_of_mem hk).2.2]; rfl
  have hA0 : AttsLoaded (linkedSt s1 (d.steps.map (·.2)) (d.steps.map (·.2)).length) []
      (linkedSt s1 (d.steps.map (·.2)) (d.steps.map (·.2)).length) :=
    ⟨hL.cons, rfl, rfl, KeepsLinks.refl _, hL.attackers, hL.afresh, fun j h => absurd h (Nat.not_lt_zero j)⟩
  obtain ⟨s', h3, hA⟩ := attackers_loaded_aux _ d.attackers [] _ hA0 (by simpa using hd.atts.ids_nodup)
    (fun a ha => hd.atts.en_parse _ (List.mem_map_of_mem ha)) (fun a ha => hd.atts.re_parse _ (List.mem_map_of_mem ha))
    (fun a ha k hk => hsome k (hd.atts.en_mem _ (List.mem_map_of_mem ha) k hk))
    (fun a ha k hk => hsome k (hd.atts.re_mem _ (List.mem_map_of_mem ha) k hk))
  rw [List.nil_append] at hA
  refine ⟨s', ?_, ?_⟩
  · rw [fromDoc_eq, h1]
    show (do let s2 ← d.steps.foldlM linkEntry s1; d.attackers.foldlM loadAtt s2) = _
    rw [h2]
    exact h3
  · have hid : ∀ x, (s'.nobj x).id = ((linkedSt s1 (d.steps.map (·.2)) (d.steps.map (·.2)).length).nobj x).id :=
      fun x => detached_id (hA.links x).det
    have hidmap : ∀ l : List Nat, l.map (fun c => (s'.nobj c).id) =
        l.map (fun c => ((linkedSt s1 (d.steps.map (·.2)) (d.steps.map (·.2)).length).nobj c).id) :=
      fun l => List.map_congr_left (fun c _ => hid c)
    have hlk : lookI (linkedSt s1 (d.steps.map (·.2)) (d.steps.map (·.2)).length) = lookI s1 := rfl
    refine ⟨hA.cons, hA.nodes.trans hL.nodes, ?_, ?_, ?_, hA.attackers, ?_⟩
    · intro i hi; rw [(hA.links i).det]; exact hL.det i hi
    · intro i hi; rw [(hA.links i).children, hidmap]; exact hL.children_ids i hi
    · intro i hi; rw [(hA.links i).parents, hidmap]; exact hL.parents_ids i hi
    · intro j hj
      obtain ⟨a1, a2, a3, a4⟩ := hA.aobj j hj
      have hmem_e := hd.atts.en_mem _ (List.getElem_mem hj)
      have hmem_r := hd.atts.re_mem _ (List.getElem_mem hj)
      refine ⟨a1, a2, ?_, ?_⟩
      · unfold entryIds
        rw [a3, hidmap, hlk]
        exact hN.ids_of_refs _ _ hmem_e
      · intro i
        unfold reachedIds
        rw [hlk] at a4
        rw [mem_map_congr_set _ _ _ a4, hidmap, hN.ids_of_refs _ _ hmem_r]

/-! ## documents that represent a graph -/

def reKeyN (σ : List Key → List Key) (n : NodeEntry) : NodeEntry :=
  { n with children := σ n.children, parents := σ n.parents }
def reKeyA (σ : List Key → List Key) (a : AttEntry) : AttEntry :=
  { a with entry := σ a.entry, reached := σ a.reached }

/-- the document holds one entry per node and per attacker of `s`, in some order, with re-keyed id lists -/
structure Rep (s : St) (σ : List Key → List Key) (d : AGDoc) : Prop where
  steps : (d.steps.map (·.2)).Perm (s.nodes.map (fun r => reKeyN σ (nodeEntry s r)))
  atts : (d.attackers.map (·.2)).Perm (s.attackers.map (fun a => reKeyA σ (attEntry s a)))

theorem NodesOKDoc.perm {es es' : List NodeEntry} (hp : es.Perm es') (h : NodesOKDoc es') : NodesOKDoc es := by
  have hm : ∀ e, e ∈ es ↔ e ∈ es' := fun e => hp.mem_iff
  have hi : ∀ k, k ∈ es.map (·.id) ↔ k ∈ es'.map (·.id) := fun k => (hp.map _).mem_iff
  exact ⟨((hp.map _).nodup_iff).2 h.ids_nodup, fun e he => h.ch_parse e ((hm e).1 he),
    fun e he => h.pa_parse e ((hm e).1 he), fun e he k hk => (hi k).2 (h.ch_mem e ((hm e).1 he) k hk),
    fun e he k hk => (hi k).2 (h.pa_mem e ((hm e).1 he) k hk), fun e he => h.ch_nodup e ((hm e).1 he),
    fun e he => h.pa_nodup e ((hm e).1 he), fun e he e' he' => h.mirror e ((hm e).1 he) e' ((hm e').1 he')⟩

theorem AttsOKDoc.perm {ids ids' : List Int} {as as' : List AttEntry} (hi : ∀ k, k ∈ ids' → k ∈ ids)
    (hp : as.Perm as') (h : AttsOKDoc ids' as') : AttsOKDoc ids as := by
  have hm : ∀ e, e ∈ as ↔ e ∈ as' := fun e => hp.mem_iff
  exact ⟨((hp.map _).nodup_iff).2 h.ids_nodup, fun e he => h.en_parse e ((hm e).1 he),
    fun e he => h.re_parse e ((hm e).1 he), fun e he k hk => hi k (h.en_mem e ((hm e).1 he) k hk),
    fun e he k hk => hi k (h.re_mem e ((hm e).1 he) k hk)⟩

def childIds (s : St) (r : Nat) : List Int := (s.nobj r).children.map (fun c => (s.nobj c).id)
def parentIds (s : St) (r : Nat) : List Int := (s.nobj r).parents.map (fun c => (s.nobj c).id)

section rep
variable {s : St} {σ : List Key → List Key}

theorem mem_ids_iff (h : Consistent s) (l : List Nat) (hl : ∀ x ∈ l, x ∈ s.nodes) {r : Nat} (hr : r ∈ s.nodes) :
    (s.nobj r).id ∈ l.map (fun c => (s.nobj c).id) ↔ r ∈ l := by
  rw [List.mem_map]
  constructor
  · rintro ⟨c, hc, e⟩
    exact h.idx.ids_unique (hl c hc) hr e ▸ hc
  · intro hm; exact ⟨r, hm, rfl⟩

theorem child_iff_parent (h : Consistent s) {p c : Nat} (hp : p ∈ s.nodes) (hc : c ∈ s.nodes) :
    c ∈ (s.nobj p).children ↔ p ∈ (s.nobj c).parents := by
  rw [← List.count_pos_iff, ← List.count_pos_iff, h.nodes.mirror p hp c hc]

theorem mem_kints_rekey (hσ : KeyPerm σ) (l : List Int) (i : Int) : i ∈ kints (σ (idKeys l)) ↔ i ∈ l := by
  rw [((hσ _ (keysParse_idKeys l)).2).mem_iff, mem_kints_idKeys]

theorem rep_nodesOK (h : Consistent s) (hσ : KeyPerm σ) (L : List Nat) (hL : L.Perm s.nodes) :
    NodesOKDoc (L.map (fun r => reKeyN σ (nodeEntry s r))) := by
  have hsub : ∀ r, r ∈ L ↔ r ∈ s.nodes := fun r => hL.mem_iff
  have hids : (L.map (fun r => reKeyN σ (nodeEntry s r))).map (·.id) = L.map (fun r => (s.nobj r).id) := by
    rw [List.map_map]; rfl
  have hidmem : ∀ r ∈ s.nodes, (s.nobj r).id ∈ (L.map (fun r => reKeyN σ (nodeEntry s r))).map (·.id) := by
    intro r hr; rw [hids]; exact List.mem_map_of_mem ((hsub r).2 hr)
  have hch : ∀ r, (reKeyN σ (nodeEntry s r)).children = σ (idKeys (childIds s r)) := fun _ => rfl
  have hpa : ∀ r, (reKeyN σ (nodeEntry s r)).parents = σ (idKeys (parentIds s r)) := fun _ => rfl
  constructor
  · rw [hids]
    exact MS.nodup_map_of_inj _ L (hL.nodup_iff.2 h.nodes.nodup)
      (fun a ha b hb e => h.idx.ids_unique ((hsub a).1 ha) ((hsub b).1 hb) e)
  · intro e he
    obtain ⟨r, _, rfl⟩ := List.mem_map.1 he
    rw [hch]; exact (hσ _ (keysParse_idKeys _)).1
  · intro e he
    obtain ⟨r, _, rfl⟩ := List.mem_map.1 he
    rw [hpa]; exact (hσ _ (keysParse_idKeys _)).1
  · intro e he k hk
    obtain ⟨r, hr, rfl⟩ := List.mem_map.1 he
    rw [hch, mem_kints_rekey hσ] at hk
    obtain ⟨c, hc, rfl⟩ := List.mem_map.1 hk
    exact hidmem c (h.nodes.children_mem r ((hsub r).1 hr) c hc)
  · intro e he k hk
    obtain ⟨r, hr, rfl⟩ := List.mem_map.1 he
    rw [hpa, mem_kints_rekey hσ] at hk
    obtain ⟨c, hc, rfl⟩ := List.mem_map.1 hk
    exact hidmem c (h.nodes.parents_mem r ((hsub r).1 hr) c hc)
  · intro e he
    obtain ⟨r, _, rfl⟩ := List.mem_map.1 he
    rw [hch, ((hσ _ (keysParse_idKeys _)).2).nodup_iff]
    exact nodup_kints_idKeys _
  · intro e he
    obtain ⟨r, _, rfl⟩ := List.mem_map.1 he
    rw [hpa, ((hσ _ (keysParse_idKeys _)).2).nodup_iff]
    exact nodup_kints_idKeys _
  · intro e he e' he'
    obtain ⟨r, hr, rfl⟩ := List.mem_map.1 he
    obtain ⟨r', hr', rfl⟩ := List.mem_map.1 he'
    have hrn := (hsub r).1 hr
    have hrn' := (hsub r').1 hr'
    rw [hch, hpa, mem_kints_rekey hσ, mem_kints_rekey hσ]
    show (s.nobj r').id ∈ childIds s r ↔ (s.nobj r).id ∈ parentIds s r'
    unfold childIds parentIds
    rw [mem_ids_iff h _ (h.nodes.children_mem r hrn) hrn', mem_ids_iff h _ (h.nodes.parents_mem r' hrn') hrn]
    exact child_iff_parent h hrn hrn'

theorem rep_attsOK (h : Consistent s) (hσ : KeyPerm σ) (ids : List Int) (hids : ∀ r ∈ s.nodes, (s.nobj r).id ∈ ids)
    (L : List Nat) (hL : L.Perm s.attackers) : AttsOKDoc ids (L.map (fun a => reKeyA σ (attEntry s a))) := by
  have hsub : ∀ r, r ∈ L ↔ r ∈ s.attackers := fun r => hL.mem_iff
  constructor
  · rw [List.map_map]
    exact MS.nodup_map_of_inj _ L (hL.nodup_iff.2 h.attIdx.nodup)
      (fun a ha b hb e => h.attIdx.ids_unique ((hsub a).1 ha) ((hsub b).1 hb) e)
  · intro e he
    obtain ⟨a, _, rfl⟩ := List.mem_map.1 he
    exact (hσ _ (keysParse_idKeys _)).1
  · intro e he
    obtain ⟨a, _, rfl⟩ := List.mem_map.1 he
    exact (hσ _ (keysParse_idKeys _)).1
  · intro e he k hk
    obtain ⟨a, ha, rfl⟩ := List.mem_map.1 he
    have hk' : k ∈ kints (σ (idKeys (entryIds s a))) := hk
    rw [mem_kints_rekey hσ] at hk'
    obtain ⟨n, hn, rfl⟩ := List.mem_map.1 hk'
    exact hids n (h.comp.entry_mem a ((hsub a).1 ha) n hn)
  · intro e he k hk
    obtain ⟨a, ha, rfl⟩ := List.mem_map.1 he
    have hk' : k ∈ kints (σ (idKeys (reachedIds s a))) := hk
    rw [mem_kints_rekey hσ] at hk'
    obtain ⟨n, hn, rfl⟩ := List.mem_map.1 hk'
    exact hids n (h.comp.reached_mem a ((hsub a).1 ha) n hn)

/-- a document that represents a consistent graph is well formed -/
theorem rep_docOK {d : AGDoc} (h : Consistent s) (hσ : KeyPerm σ) (hr : Rep s σ d) : DocOK d := by
  refine ⟨(rep_nodesOK h hσ s.nodes (List.Perm.refl _)).perm hr.steps, ?_⟩
  refine (rep_attsOK h hσ ((s.nodes.map (fun r => reKeyN σ (nodeEntry s r))).map (·.id)) ?_ s.attackers
    (List.Perm.refl _)).perm ?_ hr.atts
  · intro r hr
    rw [List.map_map]
    exact List.mem_map.2 ⟨r, hr, rfl⟩
  · intro k hk
    exact ((hr.steps.map _).mem_iff).2 hk

end rep

/-! ## what is loaded is the same graph -/

def objTuple (o : NodeObj) :
    Int × String × NType × String × Option String × Option Bool × Bool × Bool × Option String × List String × String :=
  (o.id, o.name, o.type, o.ttc, o.defense, o.exist, o.viable, o.necessary, o.mitre, o.tags, o.extras)
def entryTuple (n : NodeEntry) :
    Int × String × NType × String × Option String × Option Bool × Bool × Bool × Option String × List String × String :=
  (n.id, n.name, n.type, n.ttc, n.defense, n.exist, n.viable, n.necessary, n.mitre, n.tags, n.extras)

theorem nodeTuple_eq (s : St) (r : Nat) : nodeTuple s r = objTuple (s.nobj r) := rfl
theorem objTuple_detached (o : NodeObj) : objTuple o.detached = objTuple o := rfl
theorem objTuple_entryObj (wm : Bool) (n : NodeEntry) : objTuple { entryObj wm n with id := n.id } = entryTuple n := rfl
theorem entryTuple_reKey (σ : List Key → List Key) (s : St) (r : Nat) :
    entryTuple (reKeyN σ (nodeEntry s r)) = nodeTuple s r := rfl

theorem range_map_eq {α β : Type} (l : List α) (g : Nat → β) (f : α → β) (h : ∀ i (hi : i < l.length), g i = f l[i]) :
    (List.range l.length).map g = l.map f := by
  apply List.ext_getElem
  · simp
  · intro i h1 h2
    simp only [List.length_map, List.length_range] at h1
    simp [h i h1]

theorem perm_map_of_map {α β γ : Type} {l : List α} {L : List γ} {g : γ → α} (f : α → β) (k : γ → β)
    (hk : ∀ x, f (g x) = k x) (hp : l.Perm (L.map g)) : (l.map f).Perm (L.map k) := by
  have := hp.map f
  have e : (L.map g).map f = L.map k := by
    rw [List.map_map]; exact List.map_congr_left (fun x _ => hk x)
  rw [e] at this
  exact this

section same
variable {wm : Bool} {s s' : St} {σ : List Key → List Key} {es : List NodeEntry} {as : List AttEntry}

theorem Loaded.id_eq (hl : Loaded wm es as s') {i : Nat} (hi : i < es.length) : (s'.nobj i).id = es[i].id := by
  have := congrArg NodeObj.id (hl.det i hi); exact this

theorem Loaded.tuples (hl : Loaded wm es as s') : s'.nodes.map (nodeTuple s') = es.map entryTuple := by
  rw [hl.nodes]
  apply range_map_eq
  intro i hi
  rw [nodeTuple_eq, ← objTuple_detached, hl.det i hi, objTuple_entryObj]

theorem Loaded.edge (hl : Loaded wm es as s') (i j : Int) :
    Edge s' i j ↔ ∃ e ∈ es, e.id = i ∧ j ∈ kints e.children := by
  unfold Edge
  constructor
  · rintro ⟨p, hp, hid, hj⟩
    rw [hl.nodes, List.mem_range] at hp
    rw [hl.children_ids p hp] at hj
    exact ⟨es[p], List.getElem_mem hp, by rw [← hl.id_eq hp]; exact hid, hj⟩
  · rintro ⟨e, he, hid, hj⟩
    obtain ⟨p, hp, rfl⟩ := List.getElem_of_mem he
    refine ⟨p, by rw [hl.nodes, List.mem_range]; exact hp, by rw [hl.id_eq hp]; exact hid, ?_⟩
    rw [hl.children_ids p hp]; exact hj

theorem Loaded.pedge (hl : Loaded wm es as s') (i j : Int) :
    PEdge s' i j ↔ ∃ e ∈ es, e.id = j ∧ i ∈ kints e.parents := by
  unfold PEdge
  constructor
  · rintro ⟨p, hp, hid, hj⟩
    rw [hl.nodes, List.mem_range] at hp
    rw [hl.parents_ids p hp] at hj
    exact ⟨es[p], List.getElem_mem hp, by rw [← hl.id_eq hp]; exact hid, hj⟩
  · rintro ⟨e, he, hid, hj⟩
    obtain ⟨p, hp, rfl⟩ := List.getElem_of_mem he
    refine ⟨p, by rw [hl.nodes, List.mem_range]; exact hp, by rw [hl.id_eq hp]; exact hid, ?_⟩
    rw [hl.parents_ids p hp]; exact hj

/-- the loaded graph is the saved one -/
theorem sameGraph_of_loaded {d : AGDoc} (h : Consistent s) (hσ : KeyPerm σ) (hr : Rep s σ d)
    (hl : Loaded wm (d.steps.map (·.2)) (d.attackers.map (·.2)) s') : SameGraph s' s := by
  have hmemE : ∀ e, e ∈ d.steps.map (·.2) ↔ ∃ r ∈ s.nodes, reKeyN σ (nodeEntry s r) = e := by
    intro e; rw [hr.steps.mem_iff, List.mem_map]
  have hmemA : ∀ e, e ∈ d.attackers.map (·.2) ↔ ∃ a ∈ s.attackers, reKeyA σ (attEntry s a) = e := by
    intro e; rw [hr.atts.mem_iff, List.mem_map]
  constructor
  · rw [hl.tuples]
    exact perm_map_of_map entryTuple (nodeTuple s) (fun _ => rfl) hr.steps
  · intro i j
    rw [hl.edge]
    unfold Edge
    constructor
    · rintro ⟨e, he, hid, hj⟩
      obtain ⟨r, hr', rfl⟩ := (hmemE e).1 he
      exact ⟨r, hr', hid, (mem_kints_rekey hσ _ j).1 hj⟩
    · rintro ⟨r, hr', hid, hj⟩
      exact ⟨_, (hmemE _).2 ⟨r, hr', rfl⟩, hid, (mem_kints_rekey hσ (childIds s r) j).2 hj⟩
  · intro i j
    rw [hl.pedge]
    unfold PEdge
    constructor
    · rintro ⟨e, he, hid, hj⟩
      obtain ⟨r, hr', rfl⟩ := (hmemE e).1 he
      exact ⟨r, hr', hid, (mem_kints_rekey hσ _ i).1 hj⟩
    · rintro ⟨r, hr', hid, hj⟩
      exact ⟨_, (hmemE _).2 ⟨r, hr', rfl⟩, hid, (mem_kints_rekey hσ (parentIds s r) i).2 hj⟩
  · have e1 : s'.attackers.map (fun a => ((s'.aobj a).id, (s'.aobj a).name)) =
        (d.attackers.map (·.2)).map (fun a => (a.id, a.name)) := by
      rw [hl.attackers]
      apply range_map_eq
      intro j hj
      rw [(hl.att j hj).1, (hl.att j hj).2.1]
    rw [e1]
    exact perm_map_of_map (fun a : AttEntry => (a.id, a.name)) (fun a => ((s.aobj a).id, (s.aobj a).name))
      (fun _ => rfl) hr.atts
  · intro a' ha' a ha hid
    rw [hl.attackers, List.mem_range] at ha'
    obtain ⟨a1, _, a3, a4⟩ := hl.att a' ha'
    obtain ⟨b, hb, hbe⟩ := (hmemA _).1 (List.getElem_mem ha')
    have hba : b = a := by
      apply h.attIdx.ids_unique hb ha
      rw [← hid, a1, ← hbe]; rfl
    subst hba
    rw [← hbe] at a3 a4
    constructor
    · intro i
      rw [a3]
      exact mem_kints_rekey hσ (entryIds s b) i
    · intro i
      rw [a4]
      exact mem_kints_rekey hσ (reachedIds s b) i

theorem nodeMatch_of_det {o' : NodeObj} (r : Nat)
    (hdet : o'.detached = { entryObj wm (reKeyN σ (nodeEntry s r)) with id := (reKeyN σ (nodeEntry s r)).id }) :
    NodeMatch wm o' (s.nobj r) := by
  constructor
  · have := congrArg NodeObj.id hdet; exact this
  · have := congrArg NodeObj.name hdet; exact this
  · have := congrArg NodeObj.type hdet; exact this
  · have := congrArg NodeObj.ttc hdet; exact this
  · have := congrArg NodeObj.defense hdet; exact this
  · have := congrArg NodeObj.exist hdet; exact this
  · have := congrArg NodeObj.viable hdet; exact this
  · have := congrArg NodeObj.necessary hdet; exact this
  · have := congrArg NodeObj.mitre hdet; exact this
  · have := congrArg NodeObj.tags hdet; exact this
  · have := congrArg NodeObj.extras hdet; exact this
  · have := congrArg NodeObj.asset hdet; exact this
  · have := congrArg NodeObj.defOne hdet; exact this
  · have := congrArg NodeObj.suppress hdet; exact this

/-- node by node: every saved node has a loaded counterpart with the same attributes, and conversely -/
theorem nodeMatch_of_loaded {d : AGDoc} (hr : Rep s σ d)
    (hl : Loaded wm (d.steps.map (·.2)) (d.attackers.map (·.2)) s') :
    (∀ r ∈ s.nodes, ∃ r' ∈ s'.nodes, NodeMatch wm (s'.nobj r') (s.nobj r)) ∧
    (∀ r' ∈ s'.nodes, ∃ r ∈ s.nodes, NodeMatch wm (s'.nobj r') (s.nobj r)) := by
  have hmemE : ∀ e, e ∈ d.steps.map (·.2) ↔ ∃ r ∈ s.nodes, reKeyN σ (nodeEntry s r) = e := by
    intro e; rw [hr.steps.mem_iff, List.mem_map]
  constructor
  · intro r hr'
    obtain ⟨i, hi, he⟩ := List.getElem_of_mem ((hmemE _).2 ⟨r, hr', rfl⟩)
    refine ⟨i, by rw [hl.nodes, List.mem_range]; exact hi, nodeMatch_of_det (σ := σ) r ?_⟩
    rw [hl.det i hi, he]
  · intro i hi
    rw [hl.nodes, List.mem_range] at hi
    obtain ⟨r, hr', he⟩ := (hmemE _).1 (List.getElem_mem hi)
    refine ⟨r, hr', nodeMatch_of_det (σ := σ) r ?_⟩
    rw [hl.det i hi, he]

end same

/-! ## the two file formats -/

theorem reKeyN_id (n : NodeEntry) : reKeyN id n = n := rfl
theorem reKeyA_id (a : AttEntry) : reKeyA id a = a := rfl

/-- what `toDoc` writes represents the graph -/
theorem rep_toDoc (s : St) (h : Consistent s) (hx : NamesExact s) : Rep s id (toDoc s) := by
  constructor
  · rw [toDoc_steps_eq s hx.distinct h.nodes.nodup, List.map_map]
    exact List.Perm.refl _
  · rw [toDoc_attackers_vals]
    exact List.Perm.refl _

def jsonKeys (ks : List Key) : List Key := ks.map (fun k => Key.s k.text)

theorem rep_jsonRT {s : St} {d : AGDoc} (hr : Rep s id d) : Rep s jsonKeys (jsonRT d) := by
  constructor
  · have e : (jsonRT d).steps.map (·.2) = (d.steps.map (·.2)).map (reKeyN jsonKeys) := by
      show (d.steps.map _).map _ = _
      rw [List.map_map, List.map_map]; rfl
    rw [e]
    exact perm_map_of_map (reKeyN jsonKeys) _ (fun _ => rfl) hr.steps
  · have e : (jsonRT d).attackers.map (·.2) = (d.attackers.map (·.2)).map (reKeyA jsonKeys) := by
      show (d.attackers.map _).map _ = _
      rw [List.map_map, List.map_map]; rfl
    rw [e]
    exact perm_map_of_map (reKeyA jsonKeys) _ (fun _ => rfl) hr.atts

theorem rep_yamlRT {s : St} {d : AGDoc} (hr : Rep s id d) : Rep s (isort keyLe) (yamlRT d) := by
  constructor
  · have e : (yamlRT d).steps.map (·.2) =
        ((isort (fun a b => decide (a.1 ≤ b.1)) d.steps).map (·.2)).map (reKeyN (isort keyLe)) := by
      show ((isort _ d.steps).map _).map _ = _
      rw [List.map_map, List.map_map]; rfl
    rw [e]
    exact perm_map_of_map (reKeyN (isort keyLe)) _ (fun _ => rfl)
      (((isort_perm (fun a b => decide (a.1 ≤ b.1)) d.steps).map (·.2)).trans hr.steps)
  · have e : (yamlRT d).attackers.map (·.2) =
        ((isort (fun a b => decide (a.1 ≤ b.1)) d.attackers).map (·.2)).map (reKeyA (isort keyLe)) := by
      show ((isort _ d.attackers).map _).map _ = _
      rw [List.map_map, List.map_map]; rfl
    rw [e]
    exact perm_map_of_map (reKeyA (isort keyLe)) _ (fun _ => rfl)
      (((isort_perm (fun a b => decide (a.1 ≤ b.1)) d.attackers).map (·.2)).trans hr.atts)

/-- the round trip through a document that represents the graph -/
theorem roundtrip_of_rep (wm : Bool) {s : St} {σ : List Key → List Key} {d : AGDoc} (h : Consistent s)
    (hσ : KeyPerm σ) (hr : Rep s σ d) :
    ∃ s', fromDoc wm (fun _ => true) d = .ok s' ∧ SameGraph s' s ∧ Consistent s' ∧
      (∀ r ∈ s.nodes, ∃ r' ∈ s'.nodes, NodeMatch wm (s'.nobj r') (s.nobj r)) ∧
      (∀ r' ∈ s'.nodes, ∃ r ∈ s.nodes, NodeMatch wm (s'.nobj r') (s.nobj r)) := by
  obtain ⟨s', hok, hl⟩ := fromDoc_ok wm d (rep_docOK h hσ hr)
  have hm := nodeMatch_of_loaded hr hl
  exact ⟨s', hok, sameGraph_of_loaded h hσ hr hl, hl.cons, hm.1, hm.2⟩

/-- the three ways a saved graph reaches the loader: as written, through a JSON file, through a YAML file -/
theorem rep_of_format {s : St} {d : AGDoc} (h : Consistent s) (hx : NamesExact s)
    (hd : d = toDoc s ∨ d = jsonRT (toDoc s) ∨ d = yamlRT (toDoc s)) : ∃ σ, KeyPerm σ ∧ Rep s σ d := by
  rcases hd with rfl | rfl | rfl
  · exact ⟨id, keyPerm_id, rep_toDoc s h hx⟩
  · exact ⟨jsonKeys, keyPerm_json, rep_jsonRT (rep_toDoc s h hx)⟩
  · exact ⟨isort keyLe, keyPerm_yaml, rep_yamlRT (rep_toDoc s h hx)⟩

/-! ## small graphs for the `example`s of `Props/C10.lean` -/
namespace Demo
/-- four nodes (tags, extras, MITRE info, TTC, defense and existence status), a cycle, a self-loop, a duplicate
edge, analysis results, a pruned node, two attackers (one with id 0, one with the same name) -/
def c10Ops : List Op :=
  [.addNode { name := "b", asset := some "h", tags := ["t", "u"], extras := "{\"k\": 1}", mitre := some "T1" } none,
   .addNode { name := "a", asset := some "h", type := .and, ttc := "{\"type\": \"function\"}" } none,
   .addNode { name := "d", asset := some "g", type := .defense, defense := some "1.0", defOne := true } (some 7),
   .addNode { name := "e", asset := some "g", type := .exist, exist := some true } none,
   .addNode { name := "z", asset := some "g" } none,
   .link 0 1, .link 1 0, .link 1 1, .link 2 1, .link 3 0, .link 0 1, .link 4 0,
   .setLabels [(4, false, true), (2, false, false)], .prune,
   .addAttacker "eve" (some 0) [1] [1, 0], .addAttacker "eve" none [0] [0]]
def c10G : St := c10Ops.foldl applyOp {}
/-- two nodes with the same full name: the second overwrites the first in the file -/
def c10Clash : St :=
  [Op.addNode { name := "a", asset := some "h" } none, .addNode { name := "a", asset := some "h" } none].foldl applyOp {}
/-- what the examples compare -/
structure NodeRow where
  id : Int
  name : String
  type : NType
  ttc : String
  defense : Option String
  exist : Option Bool
  viable : Bool
  necessary : Bool
  mitre : Option String
  tags : List String
  extras : String
  children : List Int
  parents : List Int
  asset : Option String
  deriving DecidableEq, Repr
structure AttRow where
  id : Int
  name : String
  entry : List Int
  reached : List Int
  deriving DecidableEq, Repr
def summary (s : St) : List NodeRow × List AttRow :=
  (s.nodes.map (fun r => let o := s.nobj r
      { id := o.id, name := o.name, type := o.type, ttc := o.ttc, defense := o.defense, exist := o.exist,
        viable := o.viable, necessary := o.necessary, mitre := o.mitre, tags := o.tags, extras := o.extras,
        children := childIds s r, parents := parentIds s r, asset := o.asset }),
   s.attackers.map (fun a => { id := (s.aobj a).id, name := (s.aobj a).name, entry := entryIds s a,
                               reached := reachedIds s a }))
end Demo

end MalVerif.AGS
