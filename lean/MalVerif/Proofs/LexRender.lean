import MalVerif.Proofs.ParseDecl
/-!
# The printed text lexes back to the tokens

`render` separates the tokens by single blanks, so every token is lexed on its own: `lexAux` spends one unit of
fuel per token and one per blank.
-/
namespace MalVerif.Mal

/-- end of the text or a blank -/
def Sep (cs : List Char) : Prop := cs = [] ∨ ∃ r, cs = ' ' :: r

theorem spanChars_append (p : Char → Bool) (l cs : List Char) (hl : l.all p = true)
    (hs : cs = [] ∨ ∃ c r, cs = c :: r ∧ p c = false) : spanChars p (l ++ cs) = (l, cs) := by
  induction l with
  | nil =>
    rcases hs with rfl | ⟨c, r, rfl, hc⟩
    · rfl
    · simp [spanChars, hc]
  | cons x l ih =>
    simp only [List.all_cons, Bool.and_eq_true] at hl
    simp [spanChars, hl.1, ih hl.2]

theorem isIdChar_not_special {c : Char} (h : isIdChar c = true) :
    c ≠ ' ' ∧ c ≠ '\t' ∧ c ≠ '\r' ∧ c ≠ '\n' ∧ c ≠ '"' := by
  refine ⟨?_, ?_, ?_, ?_, ?_⟩ <;> (intro hc; subst hc; revert h; decide)

theorem isIdChar_of_isDigit {c : Char} (h : isDigit c = true) : isIdChar c = true := by
  simp only [isDigit] at h
  simp [isIdChar, Char.isAlphanum, h]

theorem sep_idChar {cs : List Char} (hs : Sep cs) : cs = [] ∨ ∃ c r, cs = c :: r ∧ isIdChar c = false := by
  rcases hs with rfl | ⟨r, rfl⟩
  · exact .inl rfl
  · exact .inr ⟨' ', r, rfl, by decide⟩

theorem sep_digit {cs : List Char} (hs : Sep cs) : cs = [] ∨ ∃ c r, cs = c :: r ∧ isDigit c = false := by
  rcases hs with rfl | ⟨r, rfl⟩
  · exact .inl rfl
  · exact .inr ⟨' ', r, rfl, by decide⟩

/-- a word that is not a number -/
theorem lexAux_word (w : List Char) (h1 : w ≠ []) (h2 : w.all isIdChar = true) (h3 : w.all isDigit = false)
    (f : Nat) (cs : List Char) (hs : Sep cs) :
    lexAux (f+1) (w ++ cs) = (lexAux f cs).map (wordTok (String.ofList w) :: ·) := by
  cases w with
  | nil => exact absurd rfl h1
  | cons c w' =>
    have hc : isIdChar c = true := by simp only [List.all_cons, Bool.and_eq_true] at h2; exact h2.1
    obtain ⟨n1, n2, n3, n4, n5⟩ := isIdChar_not_special hc
    have hsp := spanChars_append isIdChar (c :: w') cs h2 (sep_idChar hs)
    simp only [List.cons_append] at hsp ⊢
    rw [lexAux.eq_3]
    simp only [n1, n2, n3, n4, n5, decide_false, Bool.or_self, Bool.false_eq_true, if_false, hc, if_true, hsp, h3]

/-- a number -/
theorem lexAux_int (w : List Char) (h1 : w ≠ []) (h2 : w.all isDigit = true)
    (f : Nat) (cs : List Char) (hs : Sep cs) :
    lexAux (f+1) (w ++ cs) = (lexAux f cs).map (Tok.int (String.ofList w) :: ·) := by
  have h2' : w.all isIdChar = true := by
    simp only [List.all_eq_true] at h2 ⊢
    exact fun x hx => isIdChar_of_isDigit (h2 x hx)
  cases w with
  | nil => exact absurd rfl h1
  | cons c w' =>
    have hc : isIdChar c = true := by simp only [List.all_cons, Bool.and_eq_true] at h2'; exact h2'.1
    obtain ⟨n1, n2, n3, n4, n5⟩ := isIdChar_not_special hc
    have hsp := spanChars_append isIdChar (c :: w') cs h2' (sep_idChar hs)
    simp only [List.cons_append] at hsp ⊢
    rw [lexAux.eq_3]
    simp only [n1, n2, n3, n4, n5, decide_false, Bool.or_self, Bool.false_eq_true, if_false, hc, if_true, hsp, h2]
    rcases hs with rfl | ⟨r, rfl⟩ <;> rfl

/-- `digits . digits` -/
theorem lexAux_float_a (a b : List Char) (ha : a ≠ []) (ha2 : a.all isDigit = true) (hb : b ≠ [])
    (hb2 : b.all isDigit = true) (f : Nat) (cs : List Char) (hs : Sep cs) :
    lexAux (f+1) (a ++ '.' :: b ++ cs) = (lexAux f cs).map (Tok.float (String.ofList (a ++ '.' :: b)) :: ·) := by
  have ha2' : a.all isIdChar = true := by
    simp only [List.all_eq_true] at ha2 ⊢
    exact fun x hx => isIdChar_of_isDigit (ha2 x hx)
  cases a with
  | nil => exact absurd rfl ha
  | cons c a' =>
    cases b with
    | nil => exact absurd rfl hb
    | cons d b' =>
      have hc : isIdChar c = true := by simp only [List.all_cons, Bool.and_eq_true] at ha2'; exact ha2'.1
      have hd : isDigit d = true := by simp only [List.all_cons, Bool.and_eq_true] at hb2; exact hb2.1
      obtain ⟨n1, n2, n3, n4, n5⟩ := isIdChar_not_special hc
      have hsp := spanChars_append isIdChar (c :: a') ('.' :: (d :: b' ++ cs)) ha2'
        (.inr ⟨'.', _, rfl, by decide⟩)
      have hsp2 := spanChars_append isDigit (d :: b') cs hb2 (sep_digit hs)
      simp only [List.cons_append, List.append_assoc] at hsp hsp2 ⊢
      rw [lexAux.eq_3]
      simp only [n1, n2, n3, n4, n5, decide_false, Bool.or_self, Bool.false_eq_true, if_false, hc, if_true, hsp, ha2,
        hd, hsp2]
      rfl

/-- `. digits` -/
theorem lexAux_float_b (b : List Char) (hb : b ≠ []) (hb2 : b.all isDigit = true) (f : Nat) (cs : List Char)
    (hs : Sep cs) :
    lexAux (f+1) ('.' :: b ++ cs) = (lexAux f cs).map (Tok.float (String.ofList ('.' :: b)) :: ·) := by
  cases b with
  | nil => exact absurd rfl hb
  | cons d b' =>
    have hd : isDigit d = true := by simp only [List.all_cons, Bool.and_eq_true] at hb2; exact hb2.1
    have hsp2 := spanChars_append isDigit (d :: b') cs hb2 (sep_digit hs)
    simp only [List.cons_append] at hsp2 ⊢
    rw [lexAux.eq_3]
    have : isIdChar '.' = false := by decide
    simp [this, hd, hsp2]

theorem spanString_cons (c : Char) (hc : c ≠ '"') (l : List Char) :
    spanString (c :: l) = (spanString l).map (fun r => (c :: r.1, r.2)) := by
  rw [spanString.eq_def]
  split
  · rename_i heq; exact absurd heq (by simp)
  · rename_i heq; simp only [List.cons.injEq] at heq; exact absurd heq.1 hc
  · rename_i ch cs' _ heq; simp only [List.cons.injEq] at heq; obtain ⟨rfl, rfl⟩ := heq; rfl

theorem spanString_body (body cs : List Char) (h : '"' ∉ body) :
    spanString (body ++ '"' :: cs) = some (body ++ ['"'], cs) := by
  induction body with
  | nil => rfl
  | cons c body ih =>
    have hc : c ≠ '"' := fun hc => h (by simp [hc])
    have := ih (fun hm => h (by simp [hm]))
    simp only [List.cons_append]
    rw [spanString_cons c hc, this]; rfl

theorem lexAux_str (body : List Char) (h : '"' ∉ body) (f : Nat) (cs : List Char) :
    lexAux (f+1) ('"' :: (body ++ '"' :: cs)) =
      (lexAux f cs).map (Tok.str (String.ofList ('"' :: (body ++ ['"']))) :: ·) := by
  rw [lexAux.eq_3]
  simp [spanString_body body cs h]

/-! ### tokens whose text lexes back to them -/

/-- identifiers: id characters, not a keyword / `E C I A`, not a number; numbers: digits; floats: `digits? . digits`;
strings: quoted text without a quote inside -/
def LexOK : Tok → Prop
  | .id s => s.toList ≠ [] ∧ s.toList.all isIdChar = true ∧ wordTok s = .id s
  | .int s => s.toList ≠ [] ∧ s.toList.all isDigit = true
  | .float s => ∃ a b, s = String.ofList (a ++ '.' :: b) ∧ a.all isDigit = true ∧ b ≠ [] ∧ b.all isDigit = true
  | .str raw => ∃ body, raw = String.ofList ('"' :: (body ++ ['"'])) ∧ '"' ∉ body
  | _ => True

theorem not_allDigits_of_wordTok_id {s : String} (h : wordTok s = .id s) : s.toList.all isDigit = false := by
  unfold wordTok at h
  split at h <;> first | exact Tok.noConfusion h | skip
  by_cases hd : s.toList.all isDigit = true
  · rw [if_pos hd] at h; exact absurd h (by simp)
  · exact Bool.eq_false_iff.mpr hd

theorem lexAux_kw (w : String) (t : Tok) (h1 : w.toList ≠ []) (h2 : w.toList.all isIdChar = true)
    (h3 : w.toList.all isDigit = false) (ht : wordTok w = t) (f : Nat) (cs : List Char) (hs : Sep cs) :
    lexAux (f+1) (w.toList ++ cs) = (lexAux f cs).map (t :: ·) := by
  rw [lexAux_word w.toList h1 h2 h3 f cs hs, String.ofList_toList, ht]

theorem lexAux_tok (t : Tok) (h : LexOK t) (f : Nat) (cs : List Char) (hs : Sep cs) :
    lexAux (f+1) ((tokText t).toList ++ cs) = (lexAux f cs).map (t :: ·) := by
  cases t with
  | id s => exact lexAux_kw s _ h.1 h.2.1 (not_allDigits_of_wordTok_id h.2.2) h.2.2 f cs hs
  | int s =>
    have := lexAux_int s.toList h.1 h.2 f cs hs
    rwa [String.ofList_toList] at this
  | float s =>
    obtain ⟨a, b, rfl, ha, hb, hb2⟩ := h
    simp only [tokText, String.toList_ofList]
    by_cases hae : a = []
    · subst hae
      simpa using lexAux_float_b b hb hb2 f cs hs
    · simpa using lexAux_float_a a b hae ha hb hb2 f cs hs
  | str raw =>
    obtain ⟨body, rfl, hb⟩ := h
    simp only [tokText, String.toList_ofList]
    simpa using lexAux_str body hb f cs
  | kwAbstract => exact lexAux_kw "abstract" _ (by decide) (by decide) (by decide) (by decide) f cs hs
  | kwAsset => exact lexAux_kw "asset" _ (by decide) (by decide) (by decide) (by decide) f cs hs
  | kwAssociations => exact lexAux_kw "associations" _ (by decide) (by decide) (by decide) (by decide) f cs hs
  | kwExtends => exact lexAux_kw "extends" _ (by decide) (by decide) (by decide) (by decide) f cs hs
  | kwInclude => exact lexAux_kw "include" _ (by decide) (by decide) (by decide) (by decide) f cs hs
  | kwCategory => exact lexAux_kw "category" _ (by decide) (by decide) (by decide) (by decide) f cs hs
  | kwInfo => exact lexAux_kw "info" _ (by decide) (by decide) (by decide) (by decide) f cs hs
  | kwLet => exact lexAux_kw "let" _ (by decide) (by decide) (by decide) (by decide) f cs hs
  | exists_ => exact lexAux_kw "E" _ (by decide) (by decide) (by decide) (by decide) f cs hs
  | c => exact lexAux_kw "C" _ (by decide) (by decide) (by decide) (by decide) f cs hs
  | i => exact lexAux_kw "I" _ (by decide) (by decide) (by decide) (by decide) f cs hs
  | a => exact lexAux_kw "A" _ (by decide) (by decide) (by decide) (by decide) f cs hs
  | _ =>
    rcases hs with rfl | ⟨r, rfl⟩ <;> simp +decide [tokText, lexAux.eq_3]

/-! ### the rendered text -/

def renderChars : List Tok → List Char
  | [] => []
  | [t] => (tokText t).toList
  | t :: ts => (tokText t).toList ++ ' ' :: renderChars ts

theorem render_toList (ts : List Tok) : (render ts).toList = renderChars ts := by
  induction ts with
  | nil => rfl
  | cons t ts ih =>
    cases ts with
    | nil => rfl
    | cons t' ts =>
      simp only [render, renderChars, String.toList_append, ih]
      have : " ".toList = [' '] := by decide
      rw [this]; simp

theorem tokText_ne_nil (t : Tok) (h : LexOK t) : 1 ≤ (tokText t).toList.length := by
  cases t with
  | id s => have := h.1; cases hs : s.toList <;> simp_all [tokText]
  | int s => have := h.1; cases hs : s.toList <;> simp_all [tokText]
  | float s => obtain ⟨a, b, rfl, _⟩ := h; simp [tokText, String.toList_ofList]; omega
  | str raw => obtain ⟨b, rfl, _⟩ := h; simp [tokText, String.toList_ofList]
  | _ => simp +decide

theorem renderChars_length (ts : List Tok) (h : ∀ t ∈ ts, LexOK t) (hne : ts ≠ []) :
    2 * ts.length ≤ (renderChars ts).length + 1 := by
  induction ts with
  | nil => exact absurd rfl hne
  | cons t ts ih =>
    have h1 := tokText_ne_nil t (h t (by simp))
    cases ts with
    | nil => simp [renderChars]; omega
    | cons t' ts =>
      have := ih (fun x hx => h x (by simp [hx])) (by simp)
      simp only [renderChars, List.length_append, List.length_cons] at this ⊢
      omega

theorem lexAux_blank (f : Nat) (cs : List Char) : lexAux (f+1) (' ' :: cs) = lexAux f cs := by
  rw [lexAux.eq_3]; simp

theorem lexAux_nil (f : Nat) : lexAux (f+1) [] = some [] := by simp only [lexAux]

theorem lexAux_renderChars (ts : List Tok) (h : ∀ t ∈ ts, LexOK t) (f : Nat) (hf : 2 * ts.length ≤ f) (hf1 : 1 ≤ f) :
    lexAux f (renderChars ts) = some ts := by
  induction ts generalizing f with
  | nil =>
    obtain ⟨f, rfl⟩ : ∃ g, f = g + 1 := ⟨f - 1, by omega⟩
    exact lexAux_nil f
  | cons t ts ih =>
    simp only [List.length_cons] at hf
    obtain ⟨f, rfl⟩ : ∃ g, f = g + 2 := ⟨f - 2, by omega⟩
    cases ts with
    | nil =>
      have := lexAux_tok t (h t (by simp)) (f+1) [] (.inl rfl)
      simp only [List.append_nil] at this
      simp only [renderChars]
      rw [this, lexAux_nil]; rfl
    | cons t' ts =>
      simp only [renderChars]
      rw [lexAux_tok t (h t (by simp)) (f+1) _ (.inr ⟨_, rfl⟩), lexAux_blank,
        ih (fun x hx => h x (by simp [hx])) f (by simp only [List.length_cons] at hf ⊢; omega)
          (by simp only [List.length_cons] at hf; omega)]
      rfl

/-- the printed text lexes back to the tokens, for tokens whose text is lexable (`LexOK`) -/
theorem lex_render (ts : List Tok) (h : ∀ t ∈ ts, LexOK t) : lex (render ts) = some ts := by
  unfold lex
  rw [render_toList]
  have hlen : (render ts).length = (renderChars ts).length := by
    rw [← render_toList]; exact (String.length_toList).symm
  rw [hlen]
  by_cases hne : ts = []
  · subst hne; rfl
  · exact lexAux_renderChars ts h _ (renderChars_length ts h hne) (by omega)

/-- a file whose text is the rendered printed specification compiles to the specification -/
theorem compileFile_render_prSpec (files : String → Option String) (f : Nat) (name : String) (s : CSpec)
    (hw : WFSpec s) (hlex : ∀ t ∈ prSpec s, LexOK t) (hfile : files name = some (render (prSpec s))) :
    compileFile files (f+1) name = some s :=
  compileFile_prSpec files f name _ s hw hfile (lex_render _ hlex)


/-- the reserved words of the lexer: keywords and the one-letter tokens -/
def reservedWords : List String :=
  ["abstract", "asset", "associations", "extends", "include", "category", "info", "let", "E", "C", "I", "A"]

theorem not_digit_of_alpha (c : Char) (h : c.isAlpha = true ∨ c = '_') : isDigit c = false := by
  rcases h with h | rfl
  · simp only [Char.isAlpha, Char.isUpper, Char.isLower, Bool.or_eq_true, Bool.and_eq_true, decide_eq_true_eq] at h
    simp only [isDigit, Char.isDigit, Bool.and_eq_false_iff, decide_eq_false_iff_not]
    right; intro h3
    have a3 := UInt32.le_iff_toNat_le.mp h3
    rcases h with ⟨h1, h2⟩ | ⟨h1, h2⟩
    · have a1 := UInt32.le_iff_toNat_le.mp h1
      simp at a1 a3; omega
    · have a1 := UInt32.le_iff_toNat_le.mp h1
      simp at a1 a3; omega
  · decide

/-- `[A-Za-z_][A-Za-z0-9_]*`, not reserved -/
theorem lexOK_id_of_ident (s : String) (c : Char) (cs : List Char) (hs : s.toList = c :: cs)
    (hc : c.isAlpha = true ∨ c = '_') (hall : s.toList.all isIdChar = true) (hres : s ∉ reservedWords) :
    LexOK (.id s) := by
  refine ⟨by rw [hs]; simp, hall, ?_⟩
  have hnd : s.toList.all isDigit = false := by
    rw [hs]; simp only [List.all_cons, not_digit_of_alpha c hc, Bool.false_and]
  simp only [reservedWords, List.mem_cons, List.not_mem_nil, or_false, not_or] at hres
  unfold wordTok
  split <;> first | (rename_i h; simp_all; done) | (rw [hnd]; rfl)


/-- a decision procedure for `LexOK` -/
def lexOKb : Tok → Bool
  | .id s => !s.toList.isEmpty && s.toList.all isIdChar && (wordTok s == .id s)
  | .int s => !s.toList.isEmpty && s.toList.all isDigit
  | .float s =>
    match (spanChars isDigit s.toList).2 with
    | '.' :: b => !b.isEmpty && b.all isDigit
    | _ => false
  | .str raw =>
    match raw.toList with
    | '"' :: r => (match r.reverse with | '"' :: b => !b.contains '"' | _ => false)
    | _ => false
  | _ => true

theorem spanChars_spec (p : Char → Bool) (l : List Char) :
    (spanChars p l).1 ++ (spanChars p l).2 = l ∧ (spanChars p l).1.all p = true := by
  induction l with
  | nil => simp [spanChars]
  | cons c l ih =>
    unfold spanChars
    split
    · rename_i hc; simp [ih.1, ih.2, hc]
    · simp

theorem lexOK_of_lexOKb (t : Tok) (h : lexOKb t = true) : LexOK t := by
  cases t with
  | id s =>
    simp only [lexOKb, Bool.and_eq_true, Bool.not_eq_true', List.isEmpty_eq_false_iff, beq_iff_eq] at h
    exact ⟨h.1.1, h.1.2, h.2⟩
  | int s =>
    simp only [lexOKb, Bool.and_eq_true, Bool.not_eq_true', List.isEmpty_eq_false_iff] at h
    exact ⟨h.1, h.2⟩
  | float s =>
    simp only [lexOKb] at h
    split at h
    · rename_i b hb
      simp only [Bool.and_eq_true, Bool.not_eq_true', List.isEmpty_eq_false_iff] at h
      have hs := spanChars_spec isDigit s.toList
      rw [hb] at hs
      exact ⟨(spanChars isDigit s.toList).1, b, by rw [hs.1, String.ofList_toList], hs.2, h.1, h.2⟩
    · exact absurd h (by simp)
  | str raw =>
    simp only [lexOKb] at h
    split at h
    · rename_i r hr
      split at h
      · rename_i b hb
        have hr' : r = b.reverse ++ ['"'] := by
          have := congrArg List.reverse hb; simpa using this
        refine ⟨b.reverse, ?_, ?_⟩
        · rw [← hr', ← hr, String.ofList_toList]
        · simpa using h
      · exact absurd h (by simp)
    · exact absurd h (by simp)
  | _ => trivial

end MalVerif.Mal
