import MalVerif.Proofs.LexRender
/-!
# The printed specification is lexable when its names and literals are

`NamesLexable s` talks only about the names and literals that occur in the specification `s`:

* every name (asset, super asset, step, field, variable, sub-type, tag, association, category, define key, meta key,
  TTC distribution) is `IdentOK`: non-empty, identifier characters only, not all digits, not a reserved word;
* every string (define value, meta value) is `noQuote`;
* every TTC number (`.num v`, argument of a distribution) is `NumOK`: `digits? . digits`.

Multiplicities need no condition (`natTok_lexOK`), nor do step types, TTC operators and risk flags (their tokens
carry no text of the specification).  One lemma per printer function: `prX_lexOK : … → AllOK (prX …)`.
-/
namespace MalVerif.Mal
open MalVerif (Expr)

/-! ### names, strings, numbers -/

/-- a name the lexer reads back as `Tok.id`: `[A-Za-z0-9_]+`, not a number, not a keyword / `E C I A` -/
def IdentOK (s : String) : Prop :=
  s.toList ≠ [] ∧ s.toList.all isIdChar = true ∧ s.toList.all isDigit = false ∧ s ∉ reservedWords

def identOKb (s : String) : Bool :=
  !s.toList.isEmpty && s.toList.all isIdChar && !s.toList.all isDigit && !reservedWords.contains s

theorem identOKb_iff (s : String) : identOKb s = true ↔ IdentOK s := by
  simp only [identOKb, IdentOK, Bool.and_eq_true, Bool.not_eq_true', List.isEmpty_eq_false_iff,
    List.contains_eq_mem, decide_eq_false_iff_not, and_assoc]

/-- the word is an identifier exactly if it is neither a number nor reserved -/
theorem wordTok_eq_id_iff (s : String) :
    wordTok s = .id s ↔ s.toList.all isDigit = false ∧ s ∉ reservedWords := by
  constructor
  · intro h
    refine ⟨not_allDigits_of_wordTok_id h, ?_⟩
    intro hm
    simp only [reservedWords, List.mem_cons, List.not_mem_nil, or_false] at hm
    rcases hm with rfl | rfl | rfl | rfl | rfl | rfl | rfl | rfl | rfl | rfl | rfl | rfl <;>
      exact absurd h (by decide)
  · rintro ⟨hnd, hres⟩
    simp only [reservedWords, List.mem_cons, List.not_mem_nil, or_false, not_or] at hres
    unfold wordTok
    split <;> first | (rename_i h; simp_all; done) | (rw [hnd]; rfl)

theorem lexOK_id_iff (s : String) : LexOK (.id s) ↔ IdentOK s := by
  simp only [LexOK, IdentOK, wordTok_eq_id_iff]

theorem lexOK_id {s : String} (h : IdentOK s) : LexOK (.id s) := (lexOK_id_iff s).mpr h

/-- `[A-Za-z_][A-Za-z0-9_]*`, not reserved (the hypotheses of `ident_lexable`) -/
theorem identOK_of_ident (s : String) (c : Char) (cs : List Char) (hs : s.toList = c :: cs)
    (hc : c.isAlpha = true ∨ c = '_') (hall : s.toList.all isIdChar = true) (hres : s ∉ reservedWords) :
    IdentOK s := (lexOK_id_iff s).mp (lexOK_id_of_ident s c cs hs hc hall hres)

def noQuoteB (v : String) : Bool := !v.toList.contains '"'

theorem noQuoteB_iff (v : String) : noQuoteB v = true ↔ noQuote v := by
  simp [noQuoteB, noQuote]

theorem quote_eq (v : String) : quote v = String.ofList ('"' :: (v.toList ++ ['"'])) := by
  apply String.toList_inj.mp
  simp [quote, String.toList_append]

theorem lexOK_str_quote {v : String} (h : noQuote v) : LexOK (.str (quote v)) :=
  ⟨v.toList, quote_eq v, h⟩

/-- a number the printer emits as FLOAT and the lexer reads back as the same FLOAT: `digits? . digits` -/
def NumOK (v : String) : Prop :=
  ∃ a b, v = String.ofList (a ++ '.' :: b) ∧ a.all isDigit = true ∧ b ≠ [] ∧ b.all isDigit = true

def numOKb (v : String) : Bool := lexOKb (.float v)

theorem numOKb_iff (v : String) : numOKb v = true ↔ NumOK v := by
  constructor
  · exact lexOK_of_lexOKb (.float v)
  · rintro ⟨a, b, rfl, ha, hb, hb2⟩
    have hsp := spanChars_append isDigit a ('.' :: b) ha (.inr ⟨'.', b, rfl, by decide⟩)
    simp only [numOKb, lexOKb, String.toList_ofList, hsp, Bool.and_eq_true, Bool.not_eq_true',
      List.isEmpty_eq_false_iff]
    exact ⟨hb, hb2⟩

theorem lexOK_float {v : String} (h : NumOK v) : LexOK (.float v) := h

/-- a multiplicity bound is a non-empty digit string -/
theorem natTok_lexOK (n : Nat) : LexOK (natTok n) := by
  have hne : Nat.toDigits 10 n ≠ [] := Nat.toDigits_ne_nil
  have hd : (Nat.toDigits 10 n).all isDigit = true := by
    simp only [List.all_eq_true, isDigit]
    exact fun c hc => Nat.isDigit_of_mem_toDigits (by omega) (by omega) hc
  simpa only [natTok, LexOK, Nat.toString_eq_repr, Nat.repr, String.toList_ofList] using And.intro hne hd

/-! ### token lists -/

def AllOK (ts : List Tok) : Prop := ∀ t ∈ ts, LexOK t

@[simp] theorem allOK_nil : AllOK [] := fun _ h => absurd h (by simp)

@[simp] theorem allOK_cons (t : Tok) (ts : List Tok) : AllOK (t :: ts) ↔ LexOK t ∧ AllOK ts := by
  simp [AllOK]

@[simp] theorem allOK_append (a b : List Tok) : AllOK (a ++ b) ↔ AllOK a ∧ AllOK b := by
  simp only [AllOK, List.mem_append]
  exact ⟨fun h => ⟨fun t ht => h t (.inl ht), fun t ht => h t (.inr ht)⟩,
    fun h t ht => ht.elim (h.1 t) (h.2 t)⟩

/-! the tokens that carry no text of the specification -/
@[simp] theorem lexOK_kwAbstract : LexOK .kwAbstract := trivial
@[simp] theorem lexOK_kwAsset : LexOK .kwAsset := trivial
@[simp] theorem lexOK_kwAssociations : LexOK .kwAssociations := trivial
@[simp] theorem lexOK_kwExtends : LexOK .kwExtends := trivial
@[simp] theorem lexOK_kwInclude : LexOK .kwInclude := trivial
@[simp] theorem lexOK_kwCategory : LexOK .kwCategory := trivial
@[simp] theorem lexOK_kwInfo : LexOK .kwInfo := trivial
@[simp] theorem lexOK_kwLet : LexOK .kwLet := trivial
@[simp] theorem lexOK_exists_ : LexOK .exists_ := trivial
@[simp] theorem lexOK_c : LexOK .c := trivial
@[simp] theorem lexOK_i : LexOK .i := trivial
@[simp] theorem lexOK_a : LexOK .a := trivial
@[simp] theorem lexOK_lparen : LexOK .lparen := trivial
@[simp] theorem lexOK_rparen : LexOK .rparen := trivial
@[simp] theorem lexOK_lcurly : LexOK .lcurly := trivial
@[simp] theorem lexOK_rcurly : LexOK .rcurly := trivial
@[simp] theorem lexOK_hash : LexOK .hash := trivial
@[simp] theorem lexOK_colon : LexOK .colon := trivial
@[simp] theorem lexOK_larrow : LexOK .larrow := trivial
@[simp] theorem lexOK_rarrow : LexOK .rarrow := trivial
@[simp] theorem lexOK_lsquare : LexOK .lsquare := trivial
@[simp] theorem lexOK_rsquare : LexOK .rsquare := trivial
@[simp] theorem lexOK_star : LexOK .star := trivial
@[simp] theorem lexOK_assign : LexOK .assign := trivial
@[simp] theorem lexOK_minus : LexOK .minus := trivial
@[simp] theorem lexOK_intersect : LexOK .intersect := trivial
@[simp] theorem lexOK_union : LexOK .union := trivial
@[simp] theorem lexOK_range : LexOK .range := trivial
@[simp] theorem lexOK_dot : LexOK .dot := trivial
@[simp] theorem lexOK_and_ : LexOK .and_ := trivial
@[simp] theorem lexOK_or_ : LexOK .or_ := trivial
@[simp] theorem lexOK_notExists : LexOK .notExists := trivial
@[simp] theorem lexOK_at : LexOK .at := trivial
@[simp] theorem lexOK_requires : LexOK .requires := trivial
@[simp] theorem lexOK_inherits : LexOK .inherits := trivial
@[simp] theorem lexOK_leadsto : LexOK .leadsto := trivial
@[simp] theorem lexOK_comma : LexOK .comma := trivial
@[simp] theorem lexOK_plus : LexOK .plus := trivial
@[simp] theorem lexOK_divide : LexOK .divide := trivial
@[simp] theorem lexOK_power : LexOK .power := trivial

@[simp] theorem allOK_parenT (b : Bool) (ts : List Tok) : AllOK (parenT b ts) ↔ AllOK ts := by
  cases b <;> simp [parenT]

/-! ### step expressions -/

def ExprNames : Expr → Prop
  | .step n => IdentOK n
  | .field n => IdentOK n
  | .var v => IdentOK v
  | .collect l r => ExprNames l ∧ ExprNames r
  | .union l r => ExprNames l ∧ ExprNames r
  | .inter l r => ExprNames l ∧ ExprNames r
  | .diff l r => ExprNames l ∧ ExprNames r
  | .trans e => ExprNames e
  | .sub t e => IdentOK t ∧ ExprNames e

def exprNamesB : Expr → Bool
  | .step n => identOKb n
  | .field n => identOKb n
  | .var v => identOKb v
  | .collect l r => exprNamesB l && exprNamesB r
  | .union l r => exprNamesB l && exprNamesB r
  | .inter l r => exprNamesB l && exprNamesB r
  | .diff l r => exprNamesB l && exprNamesB r
  | .trans e => exprNamesB e
  | .sub t e => identOKb t && exprNamesB e

theorem exprNamesB_iff (e : Expr) : exprNamesB e = true ↔ ExprNames e := by
  induction e <;> simp_all [exprNamesB, ExprNames, identOKb_iff]

theorem prExpr_lexOK (e : Expr) (h : ExprNames e) (ctx : Nat) (right : Bool) : AllOK (prExpr ctx right e) := by
  induction e generalizing ctx right with
  | step n => simpa [prExpr] using lexOK_id h
  | field n => simpa [prExpr] using lexOK_id h
  | var v => simpa [prExpr] using lexOK_id h
  | collect l r ihl ihr => simp [prExpr, ihl h.1, ihr h.2]
  | union l r ihl ihr => simp [prExpr, ihl h.1, ihr h.2]
  | inter l r ihl ihr => simp [prExpr, ihl h.1, ihr h.2]
  | diff l r ihl ihr => simp [prExpr, ihl h.1, ihr h.2]
  | trans e ih => simp [prExpr, ih h]
  | sub t e ih => simpa [prExpr, ih h.2] using lexOK_id h.1

theorem prExprList_lexOK (es : List Expr) (h : ∀ e ∈ es, ExprNames e) : AllOK (prExprList es) := by
  induction es with
  | nil => simp [prExprList]
  | cons e es ih =>
    have he := prExpr_lexOK e (h e (by simp)) 0 false
    have hes := ih (fun x hx => h x (by simp [hx]))
    cases es with
    | nil => simpa [prExprList] using he
    | cons e' es => simp [prExprList, he, hes]

/-! ### TTC -/

def TtcNames : TTC → Prop
  | .func n args => IdentOK n ∧ ∀ a ∈ args, NumOK a
  | .num v => NumOK v
  | .bin _ l r => TtcNames l ∧ TtcNames r

def ttcNamesB : TTC → Bool
  | .func n args => identOKb n && args.all numOKb
  | .num v => numOKb v
  | .bin _ l r => ttcNamesB l && ttcNamesB r

theorem ttcNamesB_iff (t : TTC) : ttcNamesB t = true ↔ TtcNames t := by
  induction t <;> simp_all [ttcNamesB, TtcNames, identOKb_iff, numOKb_iff]

theorem ttcOp_lexOK (op : String) : LexOK (ttcOp op).1 := by
  unfold ttcOp
  repeat' split
  all_goals trivial

theorem prArgs_lexOK (as : List String) (h : ∀ a ∈ as, NumOK a) : AllOK (prArgs as) := by
  induction as with
  | nil => simp [prArgs]
  | cons a as ih =>
    have ha : LexOK (.float a) := lexOK_float (h a (by simp))
    have has := ih (fun x hx => h x (by simp [hx]))
    cases as with
    | nil => simp [prArgs, ha]
    | cons a' as => simp [prArgs, ha, has]

theorem prTtc_lexOK (t : TTC) (h : TtcNames t) (ctx : Nat) (right : Bool) : AllOK (prTtc ctx right t) := by
  induction t generalizing ctx right with
  | func n args =>
    have hn := lexOK_id h.1
    cases args with
    | nil => simpa [prTtc] using hn
    | cons a as => simp [prTtc, hn, prArgs_lexOK (a :: as) h.2]
  | num v => simpa [prTtc] using lexOK_float h
  | bin op l r ihl ihr =>
    have hop := ttcOp_lexOK op
    unfold prTtc
    simp only []
    split <;> simp [hop, ihl h.1, ihr h.2]

/-! ### multiplicities, metas, tags, steps -/

theorem prMult_lexOK (lo : Nat) (hi : Option Nat) : AllOK (prMult lo hi) := by
  unfold prMult
  cases hi with
  | none => simp only []; split <;> simp [natTok_lexOK]
  | some h => simp only []; split <;> simp [natTok_lexOK]

def MetaNames (m : Meta) : Prop := ∀ kv ∈ m, IdentOK kv.1 ∧ noQuote kv.2

def metaNamesB (m : Meta) : Bool := m.all fun kv => identOKb kv.1 && noQuoteB kv.2

theorem metaNamesB_iff (m : Meta) : metaNamesB m = true ↔ MetaNames m := by
  simp [metaNamesB, MetaNames, identOKb_iff, noQuoteB_iff]

theorem prMetas_lexOK (m : Meta) (h : MetaNames m) : AllOK (prMetas m) := by
  induction m with
  | nil => simp [prMetas]
  | cons kv m ih =>
    obtain ⟨k, v⟩ := kv
    have hkv := h (k, v) (by simp)
    have hm := ih (fun x hx => h x (by simp [hx]))
    simp [prMetas, lexOK_id hkv.1, lexOK_str_quote hkv.2, hm]

theorem prTags_lexOK (ts : List String) (h : ∀ t ∈ ts, IdentOK t) : AllOK (prTags ts) := by
  induction ts with
  | nil => simp [prTags]
  | cons t ts ih =>
    simp [prTags, lexOK_id (h t (by simp)), ih (fun x hx => h x (by simp [hx]))]

theorem stepTok_lexOK (ty : String) : LexOK (stepTok ty) := by
  unfold stepTok
  repeat' split
  all_goals trivial

theorem prCias_lexOK (r : Bool × Bool × Bool) : AllOK (prCias r) := by
  obtain ⟨c, i, a⟩ := r
  cases c <;> cases i <;> cases a <;> simp [prCias]

theorem prRisk_lexOK (r : Option (Bool × Bool × Bool)) : AllOK (prRisk r) := by
  cases r with
  | none => simp [prRisk]
  | some r => simp [prRisk, prCias_lexOK r]

theorem prTtcOpt_lexOK (t : Option TTC) (h : ∀ x, t = some x → TtcNames x) : AllOK (prTtcOpt t) := by
  cases t with
  | none => simp [prTtcOpt]
  | some t => simp [prTtcOpt, prTtc_lexOK t (h t rfl) 0 false]

theorem prRequires_lexOK (r : Option (List Expr)) (h : ∀ l, r = some l → ∀ e ∈ l, ExprNames e) :
    AllOK (prRequires r) := by
  cases r with
  | none => simp [prRequires]
  | some l => simp [prRequires, prExprList_lexOK l (h l rfl)]

theorem prReaches_lexOK (r : Option (Bool × List Expr)) (h : ∀ x, r = some x → ∀ e ∈ x.2, ExprNames e) :
    AllOK (prReaches r) := by
  cases r with
  | none => simp [prReaches]
  | some x =>
    obtain ⟨o, l⟩ := x
    have hl := prExprList_lexOK l (h (o, l) rfl)
    cases o <;> simp [prReaches, hl]

/-- the names and literals of a step -/
structure StepNames (s : CStep) : Prop where
  name : IdentOK s.name
  tags : ∀ t ∈ s.tags, IdentOK t
  ttc : ∀ t, s.ttc = some t → TtcNames t
  metaD : MetaNames s.metaD
  requires : ∀ l, s.requires = some l → ∀ e ∈ l, ExprNames e
  reaches : ∀ x, s.reaches = some x → ∀ e ∈ x.2, ExprNames e

def stepNamesB (s : CStep) : Bool :=
  identOKb s.name && s.tags.all identOKb && s.ttc.all ttcNamesB && metaNamesB s.metaD &&
    s.requires.all (·.all exprNamesB) && s.reaches.all (·.2.all exprNamesB)

theorem stepNamesB_iff (s : CStep) : stepNamesB s = true ↔ StepNames s := by
  simp only [stepNamesB, Bool.and_eq_true, identOKb_iff, List.all_eq_true, Option.all_eq_true, ttcNamesB_iff,
    metaNamesB_iff, exprNamesB_iff]
  exact ⟨fun ⟨⟨⟨⟨⟨h1, h2⟩, h3⟩, h4⟩, h5⟩, h6⟩ => ⟨h1, h2, h3, h4, h5, h6⟩,
    fun h => ⟨⟨⟨⟨⟨h.name, h.tags⟩, h.ttc⟩, h.metaD⟩, h.requires⟩, h.reaches⟩⟩

theorem prStep_lexOK (s : CStep) (h : StepNames s) : AllOK (prStep s) := by
  simp [prStep, stepTok_lexOK, lexOK_id h.name, prTags_lexOK _ h.tags, prRisk_lexOK, prTtcOpt_lexOK _ h.ttc,
    prMetas_lexOK _ h.metaD, prRequires_lexOK _ h.requires, prReaches_lexOK _ h.reaches]

theorem prSteps_lexOK (ss : List CStep) (h : ∀ s ∈ ss, StepNames s) : AllOK (prSteps ss) := by
  induction ss with
  | nil => simp [prSteps]
  | cons s ss ih =>
    simp [prSteps, prStep_lexOK s (h s (by simp)), ih (fun x hx => h x (by simp [hx]))]

/-! ### assets -/

theorem prVars_lexOK (vs : List (String × Expr)) (h : ∀ ve ∈ vs, IdentOK ve.1 ∧ ExprNames ve.2) :
    AllOK (prVars vs) := by
  induction vs with
  | nil => simp [prVars]
  | cons ve vs ih =>
    obtain ⟨v, e⟩ := ve
    have hve := h (v, e) (by simp)
    simp [prVars, lexOK_id hve.1, prExpr_lexOK e hve.2 0 false, ih (fun x hx => h x (by simp [hx]))]

/-- the names and literals of an asset (its category name is not printed with the asset) -/
structure AssetNames (a : CAsset) : Prop where
  name : IdentOK a.name
  superAsset : ∀ s, a.superAsset = some s → IdentOK s
  metaD : MetaNames a.metaD
  variables : ∀ ve ∈ a.variables, IdentOK ve.1 ∧ ExprNames ve.2
  steps : ∀ s ∈ a.steps, StepNames s

def assetNamesB (a : CAsset) : Bool :=
  identOKb a.name && a.superAsset.all identOKb && metaNamesB a.metaD &&
    a.variables.all (fun ve => identOKb ve.1 && exprNamesB ve.2) && a.steps.all stepNamesB

theorem assetNamesB_iff (a : CAsset) : assetNamesB a = true ↔ AssetNames a := by
  simp only [assetNamesB, Bool.and_eq_true, identOKb_iff, List.all_eq_true, Option.all_eq_true, metaNamesB_iff,
    exprNamesB_iff, stepNamesB_iff]
  exact ⟨fun ⟨⟨⟨⟨h1, h2⟩, h3⟩, h4⟩, h5⟩ => ⟨h1, h2, h3, h4, h5⟩,
    fun h => ⟨⟨⟨⟨h.name, h.superAsset⟩, h.metaD⟩, h.variables⟩, h.steps⟩⟩

theorem prExtends_lexOK (o : Option String) :
    (∀ s, o = some s → IdentOK s) → AllOK (match o with | some s => [Tok.kwExtends, .id s] | none => []) := by
  intro h
  cases o with
  | none => simp
  | some s => simp [lexOK_id (h s rfl)]

theorem prAbstract_lexOK (b : Bool) : AllOK (if b then [Tok.kwAbstract] else []) := by
  cases b <;> simp

theorem prAsset_lexOK (a : CAsset) (h : AssetNames a) : AllOK (prAsset a) := by
  have hsup := prExtends_lexOK a.superAsset h.superAsset
  have habs := prAbstract_lexOK a.isAbstract
  unfold prAsset
  simp only [allOK_append, allOK_cons, allOK_nil, lexOK_kwAsset, lexOK_lcurly, lexOK_rcurly, and_true, true_and]
  exact ⟨habs, lexOK_id h.name, ⟨hsup, prMetas_lexOK _ h.metaD⟩, prVars_lexOK _ h.variables,
    prSteps_lexOK _ h.steps⟩

theorem prAssets_lexOK (as : List CAsset) (h : ∀ a ∈ as, AssetNames a) : AllOK (prAssets as) := by
  induction as with
  | nil => simp [prAssets]
  | cons a as ih =>
    simp [prAssets, prAsset_lexOK a (h a (by simp)), ih (fun x hx => h x (by simp [hx]))]

/-! ### associations -/

/-- the names and literals of an association (the multiplicities need no condition) -/
structure AssocNames (a : CAssoc) : Prop where
  name : IdentOK a.name
  leftAsset : IdentOK a.leftAsset
  leftField : IdentOK a.leftField
  rightAsset : IdentOK a.rightAsset
  rightField : IdentOK a.rightField
  metaD : MetaNames a.metaD

def assocNamesB (a : CAssoc) : Bool :=
  identOKb a.name && identOKb a.leftAsset && identOKb a.leftField && identOKb a.rightAsset &&
    identOKb a.rightField && metaNamesB a.metaD

theorem assocNamesB_iff (a : CAssoc) : assocNamesB a = true ↔ AssocNames a := by
  simp only [assocNamesB, Bool.and_eq_true, identOKb_iff, metaNamesB_iff]
  exact ⟨fun ⟨⟨⟨⟨⟨h1, h2⟩, h3⟩, h4⟩, h5⟩, h6⟩ => ⟨h1, h2, h3, h4, h5, h6⟩,
    fun h => ⟨⟨⟨⟨⟨h.name, h.leftAsset⟩, h.leftField⟩, h.rightAsset⟩, h.rightField⟩, h.metaD⟩⟩

theorem prAssoc_lexOK (a : CAssoc) (h : AssocNames a) : AllOK (prAssoc a) := by
  simp [prAssoc, lexOK_id h.name, lexOK_id h.leftAsset, lexOK_id h.leftField, lexOK_id h.rightAsset,
    lexOK_id h.rightField, prMult_lexOK, prMetas_lexOK _ h.metaD]

theorem prAssocs_lexOK (as : List CAssoc) (h : ∀ a ∈ as, AssocNames a) : AllOK (prAssocs as) := by
  induction as with
  | nil => simp [prAssocs]
  | cons a as ih =>
    simp [prAssocs, prAssoc_lexOK a (h a (by simp)), ih (fun x hx => h x (by simp [hx]))]

/-! ### defines, categories, the specification -/

theorem prDefines_lexOK (ds : List (String × String)) (h : ∀ kv ∈ ds, IdentOK kv.1 ∧ noQuote kv.2) :
    AllOK (prDefines ds) := by
  induction ds with
  | nil => simp [prDefines]
  | cons kv ds ih =>
    obtain ⟨k, v⟩ := kv
    have hkv := h (k, v) (by simp)
    simp [prDefines, lexOK_id hkv.1, lexOK_str_quote hkv.2, ih (fun x hx => h x (by simp [hx]))]

theorem prCategories_lexOK (assets : List CAsset) (ha : ∀ a ∈ assets, AssetNames a) (cs : List (String × Meta))
    (h : ∀ c ∈ cs, IdentOK c.1 ∧ MetaNames c.2) : AllOK (prCategories assets cs) := by
  induction cs with
  | nil => simp [prCategories]
  | cons c cs ih =>
    obtain ⟨n, m⟩ := c
    have hc := h (n, m) (by simp)
    have has : AllOK (prAssets (assets.filter (·.category = n))) :=
      prAssets_lexOK _ (fun a hm => ha a (List.mem_filter.mp hm).1)
    simp [prCategories, lexOK_id hc.1, prMetas_lexOK _ hc.2, has, ih (fun x hx => h x (by simp [hx]))]

/-- **the names and literals of a specification are lexable**: every define key, category, asset, super asset,
variable, step, tag, field, sub-type, association and meta key is an identifier the lexer reads back as `Tok.id`
(`IdentOK`), every define / meta value contains no `"` (`noQuote`), every TTC number is `digits? . digits`
(`NumOK`) and every TTC distribution name an identifier -/
structure NamesLexable (s : CSpec) : Prop where
  defines : ∀ kv ∈ s.defines, IdentOK kv.1 ∧ noQuote kv.2
  categories : ∀ c ∈ s.categories, IdentOK c.1 ∧ MetaNames c.2
  assets : ∀ a ∈ s.assets, AssetNames a
  associations : ∀ a ∈ s.associations, AssocNames a

def namesLexableB (s : CSpec) : Bool :=
  s.defines.all (fun kv => identOKb kv.1 && noQuoteB kv.2) &&
    s.categories.all (fun c => identOKb c.1 && metaNamesB c.2) &&
    s.assets.all assetNamesB && s.associations.all assocNamesB

theorem namesLexableB_iff (s : CSpec) : namesLexableB s = true ↔ NamesLexable s := by
  simp only [namesLexableB, Bool.and_eq_true, List.all_eq_true, identOKb_iff, noQuoteB_iff, metaNamesB_iff,
    assetNamesB_iff, assocNamesB_iff]
  exact ⟨fun ⟨⟨⟨h1, h2⟩, h3⟩, h4⟩ => ⟨h1, h2, h3, h4⟩,
    fun h => ⟨⟨⟨h.defines, h.categories⟩, h.assets⟩, h.associations⟩⟩

instance (s : CSpec) : Decidable (NamesLexable s) := decidable_of_iff _ (namesLexableB_iff s)

theorem prSpec_allOK (s : CSpec) (h : NamesLexable s) : AllOK (prSpec s) := by
  have h3 : AllOK (if s.associations = [] then []
      else Tok.kwAssociations :: .lcurly :: (prAssocs s.associations ++ [.rcurly])) := by
    split
    · simp
    · simp [prAssocs_lexOK _ h.associations]
  simp [prSpec, prDefines_lexOK _ h.defines, prCategories_lexOK _ h.assets _ h.categories, h3]

end MalVerif.Mal
