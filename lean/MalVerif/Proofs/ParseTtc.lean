import MalVerif.Proofs.ParseExpr
/-!
# TTC expressions: unfolding, fuel monotonicity, consumed prefixes, round trip
-/
namespace MalVerif.Mal

/-! ### unfolding -/

theorem parseArgs_zero (ts : List Tok) : parseArgs 0 ts = none := by simp only [parseArgs]

theorem parseTtcAtom_zero (ts : List Tok) : parseTtcAtom 0 ts = none := by rw [parseTtcAtom.eq_def]
theorem parseTtcFact_zero (ts : List Tok) : parseTtcFact 0 ts = none := by rw [parseTtcFact.eq_def]
theorem parseTtcTermLoop_zero (acc : TTC) (ts : List Tok) : parseTtcTermLoop 0 acc ts = none := by
  rw [parseTtcTermLoop.eq_def]
theorem parseTtcTerm_zero (ts : List Tok) : parseTtcTerm 0 ts = none := by rw [parseTtcTerm.eq_def]
theorem parseTtcExprLoop_zero (acc : TTC) (ts : List Tok) : parseTtcExprLoop 0 acc ts = none := by
  rw [parseTtcExprLoop.eq_def]
theorem parseTtcExpr_zero (ts : List Tok) : parseTtcExpr 0 ts = none := by rw [parseTtcExpr.eq_def]


/-- one unfolding of `parseTtcAtom`, with the recursive calls abstracted -/
def ttcAtomStep (pe : List Tok → P TTC) (pa : List Tok → P (List String)) (ts : List Tok) : P TTC :=
  match ts with
  | .id n :: .lparen :: .rparen :: rest => some (.func n [], rest)
  | .id n :: .lparen :: rest => (pa rest).map (fun r => (.func n r.1, r.2))
  | .id n :: rest => some (.func n [], rest)
  | .lparen :: rest =>
    match pe rest with
    | some (e, .rparen :: rest') => some (e, rest')
    | _ => none
  | .int s :: rest => some (.num s, rest)
  | .float s :: rest => some (.num s, rest)
  | _ => none

theorem parseTtcAtom_succ (f : Nat) (ts : List Tok) :
    parseTtcAtom (f+1) ts = ttcAtomStep (parseTtcExpr f) (parseArgs f) ts := by
  rw [parseTtcAtom.eq_def]
  unfold ttcAtomStep
  simp only
  split
  · rfl
  · simp_all
  · simp_all
  · split <;> simp_all
  · rfl
  · rfl
  · simp_all

theorem ttcAtomStep_mono {pe pe' : List Tok → P TTC} {pa pa' : List Tok → P (List String)}
    (he : ∀ ts r, pe ts = some r → pe' ts = some r) (ha : ∀ ts r, pa ts = some r → pa' ts = some r)
    {ts : List Tok} {r : TTC × List Tok} (h : ttcAtomStep pe pa ts = some r) : ttcAtomStep pe' pa' ts = some r := by
  unfold ttcAtomStep at h ⊢
  split at h
  · exact h
  · rename_i n rest hne
    cases hp : pa rest with
    | none => simp [hp] at h
    | some x =>
      rw [hp] at h
      simp only [ha _ _ hp]
      exact h
  · exact h
  · split at h
    · rename_i e rest' hp
      simp only [he _ _ hp]; exact h
    · exact absurd h (by simp)
  · exact h
  · exact h
  · exact absurd h (by simp)


/-- what follows the first atom of a `ttcfact` -/
def factTail (pa : List Tok → P TTC) (a : TTC × List Tok) : P TTC :=
  match a.2 with
  | .power :: rest => (pa rest).map (fun r => (.bin "exponentiation" a.1 r.1, r.2))
  | _ => some a

theorem parseTtcFact_succ (f : Nat) (ts : List Tok) :
    parseTtcFact (f+1) ts = (parseTtcAtom f ts).bind (factTail (parseTtcAtom f)) := by
  rw [parseTtcFact.eq_def]
  simp only
  cases h : parseTtcAtom f ts with
  | none => rfl
  | some a =>
    obtain ⟨a1, a2⟩ := a
    simp only [Option.bind_some, factTail]
    split
    · rename_i h'; simp only [Option.some.injEq, Prod.mk.injEq] at h'; obtain ⟨rfl, rfl⟩ := h'; rfl
    · rename_i h'
      split
      · exact (h' _ _ rfl).elim
      · rfl

theorem factTail_power (pa : List Tok → P TTC) (a : TTC) (rest : List Tok) :
    factTail pa (a, .power :: rest) = (pa rest).map (fun r => (.bin "exponentiation" a r.1, r.2)) := rfl

theorem factTail_stop (pa : List Tok → P TTC) (a : TTC) (rest : List Tok) (h : ∀ r, rest ≠ .power :: r) :
    factTail pa (a, rest) = some (a, rest) := by
  unfold factTail
  split
  · rename_i h'; exact absurd h' (h _)
  · rfl

/-- the operators of `ttcterm` -/
def mulOp : Tok → Option String
  | .star => some "multiplication"
  | .divide => some "division"
  | _ => none
/-- the operators of `ttcexpr` -/
def addOp : Tok → Option String
  | .plus => some "addition"
  | .minus => some "subtraction"
  | _ => none

theorem parseTtcTermLoop_op (f : Nat) (acc : TTC) (t : Tok) (ts : List Tok) (op : String) (h : mulOp t = some op) :
    parseTtcTermLoop (f+1) acc (t :: ts) =
      (parseTtcFact f ts).bind (fun r => parseTtcTermLoop f (.bin op acc r.1) r.2) := by
  rw [parseTtcTermLoop.eq_def]
  cases t <;> simp [mulOp] at h
  all_goals
    subst h
    simp only
    cases parseTtcFact f ts <;> rfl

theorem parseTtcTermLoop_stop (f : Nat) (acc : TTC) (ts : List Tok) (h : ∀ t r, ts = t :: r → mulOp t = none) :
    parseTtcTermLoop (f+1) acc ts = some (acc, ts) := by
  rw [parseTtcTermLoop.eq_def]
  simp only
  split
  · exact absurd (h _ _ rfl) (by simp [mulOp])
  · exact absurd (h _ _ rfl) (by simp [mulOp])
  · rfl

theorem parseTtcTerm_succ (f : Nat) (ts : List Tok) :
    parseTtcTerm (f+1) ts = (parseTtcFact f ts).bind (fun r => parseTtcTermLoop f r.1 r.2) := by
  rw [parseTtcTerm.eq_def]
  simp only
  cases parseTtcFact f ts <;> rfl

theorem parseTtcExprLoop_op (f : Nat) (acc : TTC) (t : Tok) (ts : List Tok) (op : String) (h : addOp t = some op) :
    parseTtcExprLoop (f+1) acc (t :: ts) =
      (parseTtcTerm f ts).bind (fun r => parseTtcExprLoop f (.bin op acc r.1) r.2) := by
  rw [parseTtcExprLoop.eq_def]
  cases t <;> simp [addOp] at h
  all_goals
    subst h
    simp only
    cases parseTtcTerm f ts <;> rfl

theorem parseTtcExprLoop_stop (f : Nat) (acc : TTC) (ts : List Tok) (h : ∀ t r, ts = t :: r → addOp t = none) :
    parseTtcExprLoop (f+1) acc ts = some (acc, ts) := by
  rw [parseTtcExprLoop.eq_def]
  simp only
  split
  · exact absurd (h _ _ rfl) (by simp [addOp])
  · exact absurd (h _ _ rfl) (by simp [addOp])
  · rfl

theorem parseTtcExpr_succ (f : Nat) (ts : List Tok) :
    parseTtcExpr (f+1) ts = (parseTtcTerm f ts).bind (fun r => parseTtcExprLoop f r.1 r.2) := by
  rw [parseTtcExpr.eq_def]
  simp only
  cases parseTtcTerm f ts <;> rfl

/-- case analysis on the next token of a loop -/
theorem mulOp_cases (ts : List Tok) :
    (∃ t r op, ts = t :: r ∧ mulOp t = some op) ∨ (∀ t r, ts = t :: r → mulOp t = none) := by
  cases ts with
  | nil => exact .inr (fun _ _ h => by simp at h)
  | cons t r =>
    cases h : mulOp t with
    | none => exact .inr (fun t' r' h' => by simp only [List.cons.injEq] at h'; rw [← h'.1]; exact h)
    | some op => exact .inl ⟨t, r, op, rfl, h⟩
theorem addOp_cases (ts : List Tok) :
    (∃ t r op, ts = t :: r ∧ addOp t = some op) ∨ (∀ t r, ts = t :: r → addOp t = none) := by
  cases ts with
  | nil => exact .inr (fun _ _ h => by simp at h)
  | cons t r =>
    cases h : addOp t with
    | none => exact .inr (fun t' r' h' => by simp only [List.cons.injEq] at h'; rw [← h'.1]; exact h)
    | some op => exact .inl ⟨t, r, op, rfl, h⟩

/-! ### arguments -/

theorem parseArgs_mono (f : Nat) (ts : List Tok) (r : List String × List Tok) (h : parseArgs f ts = some r) :
    parseArgs (f+1) ts = some r := by
  induction f generalizing ts r with
  | zero => simp [parseArgs] at h
  | succ f ih =>
    unfold parseArgs at h ⊢
    split at h
    · rename_i t rest
      cases hn : numTok t with
      | none => simp [hn] at h
      | some n =>
        simp only [hn, Option.bind_some] at h ⊢
        cases hp : parseArgs f rest with
        | none => simp [hp] at h
        | some x => rw [ih _ _ hp]; rw [hp] at h; exact h
    · exact h
    · exact absurd h (by simp)

theorem parseArgs_cut (f : Nat) (ts : List Tok) (r : List String × List Tok) (h : parseArgs f ts = some r) :
    CutS ts r.2 := by
  induction f generalizing ts r with
  | zero => simp [parseArgs] at h
  | succ f ih =>
    unfold parseArgs at h
    split at h
    · rename_i t rest
      cases hn : numTok t with
      | none => simp [hn] at h
      | some n =>
        simp only [hn, Option.bind_some] at h
        cases hp : parseArgs f rest with
        | none => simp [hp] at h
        | some x =>
          rw [hp] at h; simp only [Option.map_some, Option.some.injEq] at h; subst h
          exact CutS.cons _ (CutS.cons _ (ih _ _ hp).cut).cut
    · rename_i t rest
      cases hn : numTok t with
      | none => simp [hn] at h
      | some n =>
        simp only [hn, Option.map_some, Option.some.injEq] at h; subst h
        exact CutS.cons _ (CutS.one _ _).cut
    · exact absurd h (by simp)


/-! ### fuel monotonicity, consumed prefixes -/

theorem factTail_mono {pa pa' : List Tok → P TTC} (ha : ∀ ts r, pa ts = some r → pa' ts = some r)
    {a r : TTC × List Tok} (h : factTail pa a = some r) : factTail pa' a = some r := by
  obtain ⟨a1, a2⟩ := a
  by_cases hp : ∃ rest, a2 = .power :: rest
  · obtain ⟨rest, rfl⟩ := hp
    rw [factTail_power] at h ⊢
    cases hx : pa rest with
    | none => simp [hx] at h
    | some x => rw [ha _ _ hx]; rw [hx] at h; exact h
  · have hp' : ∀ r, a2 ≠ .power :: r := fun r hr => hp ⟨r, hr⟩
    rw [factTail_stop _ _ _ hp'] at h ⊢; exact h

/-- fuel monotonicity of the TTC parsers -/
theorem ttc_mono (f : Nat) :
    (∀ ts r, parseTtcAtom f ts = some r → parseTtcAtom (f+1) ts = some r) ∧
    (∀ ts r, parseTtcFact f ts = some r → parseTtcFact (f+1) ts = some r) ∧
    (∀ acc ts r, parseTtcTermLoop f acc ts = some r → parseTtcTermLoop (f+1) acc ts = some r) ∧
    (∀ ts r, parseTtcTerm f ts = some r → parseTtcTerm (f+1) ts = some r) ∧
    (∀ acc ts r, parseTtcExprLoop f acc ts = some r → parseTtcExprLoop (f+1) acc ts = some r) ∧
    (∀ ts r, parseTtcExpr f ts = some r → parseTtcExpr (f+1) ts = some r) := by
  induction f with
  | zero =>
    refine ⟨?_, ?_, ?_, ?_, ?_, ?_⟩
    · intro ts r h; rw [parseTtcAtom_zero] at h; exact absurd h (by simp)
    · intro ts r h; rw [parseTtcFact_zero] at h; exact absurd h (by simp)
    · intro acc ts r h; rw [parseTtcTermLoop_zero] at h; exact absurd h (by simp)
    · intro ts r h; rw [parseTtcTerm_zero] at h; exact absurd h (by simp)
    · intro acc ts r h; rw [parseTtcExprLoop_zero] at h; exact absurd h (by simp)
    · intro ts r h; rw [parseTtcExpr_zero] at h; exact absurd h (by simp)
  | succ f ih =>
    obtain ⟨hA, hF, hTL, hT, hEL, hE⟩ := ih
    refine ⟨?_, ?_, ?_, ?_, ?_, ?_⟩
    · intro ts r h
      rw [parseTtcAtom_succ] at h ⊢
      exact ttcAtomStep_mono hE (parseArgs_mono f) h
    · intro ts r h
      rw [parseTtcFact_succ] at h ⊢
      cases ha : parseTtcAtom f ts with
      | none => simp [ha] at h
      | some a =>
        rw [hA _ _ ha]; rw [ha] at h
        simp only [Option.bind_some] at h ⊢
        exact factTail_mono hA h
    · intro acc ts r h
      rcases mulOp_cases ts with ⟨t, r', op, rfl, hop⟩ | hstop
      · rw [parseTtcTermLoop_op _ _ _ _ _ hop] at h ⊢
        cases hp : parseTtcFact f r' with
        | none => simp [hp] at h
        | some x =>
          rw [hF _ _ hp]; rw [hp] at h
          simp only [Option.bind_some] at h ⊢
          exact hTL _ _ _ h
      · rw [parseTtcTermLoop_stop _ _ _ hstop] at h ⊢; exact h
    · intro ts r h
      rw [parseTtcTerm_succ] at h ⊢
      cases hp : parseTtcFact f ts with
      | none => simp [hp] at h
      | some x =>
        rw [hF _ _ hp]; rw [hp] at h
        simp only [Option.bind_some] at h ⊢
        exact hTL _ _ _ h
    · intro acc ts r h
      rcases addOp_cases ts with ⟨t, r', op, rfl, hop⟩ | hstop
      · rw [parseTtcExprLoop_op _ _ _ _ _ hop] at h ⊢
        cases hp : parseTtcTerm f r' with
        | none => simp [hp] at h
        | some x =>
          rw [hT _ _ hp]; rw [hp] at h
          simp only [Option.bind_some] at h ⊢
          exact hEL _ _ _ h
      · rw [parseTtcExprLoop_stop _ _ _ hstop] at h ⊢; exact h
    · intro ts r h
      rw [parseTtcExpr_succ] at h ⊢
      cases hp : parseTtcTerm f ts with
      | none => simp [hp] at h
      | some x =>
        rw [hT _ _ hp]; rw [hp] at h
        simp only [Option.bind_some] at h ⊢
        exact hEL _ _ _ h

theorem ttcAtomStep_cut {pe : List Tok → P TTC} {pa : List Tok → P (List String)}
    (he : ∀ ts r, pe ts = some r → CutS ts r.2) (ha : ∀ ts r, pa ts = some r → CutS ts r.2)
    {ts : List Tok} {r : TTC × List Tok} (h : ttcAtomStep pe pa ts = some r) : CutS ts r.2 := by
  unfold ttcAtomStep at h
  split at h
  · cases h; exact CutS.cons _ (CutS.cons _ (CutS.one _ _).cut).cut
  · rename_i n rest hne
    cases hp : pa rest with
    | none => simp [hp] at h
    | some x =>
      rw [hp] at h; simp only [Option.map_some, Option.some.injEq] at h; subst h
      exact CutS.cons _ (CutS.cons _ (ha _ _ hp).cut).cut
  · cases h; exact CutS.one _ _
  · split at h
    · rename_i e rest' hp
      cases h
      exact CutS.cons _ ((he _ _ hp).trans (CutS.one _ _)).cut
    · exact absurd h (by simp)
  · cases h; exact CutS.one _ _
  · cases h; exact CutS.one _ _
  · exact absurd h (by simp)

theorem factTail_cut {pa : List Tok → P TTC} (ha : ∀ ts r, pa ts = some r → CutS ts r.2)
    {a r : TTC × List Tok} (h : factTail pa a = some r) : Cut a.2 r.2 := by
  obtain ⟨a1, a2⟩ := a
  by_cases hp : ∃ rest, a2 = .power :: rest
  · obtain ⟨rest, rfl⟩ := hp
    rw [factTail_power] at h
    cases hx : pa rest with
    | none => simp [hx] at h
    | some x =>
      rw [hx] at h; simp only [Option.map_some, Option.some.injEq] at h; subst h
      exact (CutS.cons _ (ha _ _ hx).cut).cut
  · have hp' : ∀ r, a2 ≠ .power :: r := fun r hr => hp ⟨r, hr⟩
    rw [factTail_stop _ _ _ hp'] at h; cases h; exact Cut.refl _

/-- every TTC parser returns a suffix of its input, strictly shorter for the non-loop rules -/
theorem ttc_cut (f : Nat) :
    (∀ ts r, parseTtcAtom f ts = some r → CutS ts r.2) ∧
    (∀ ts r, parseTtcFact f ts = some r → CutS ts r.2) ∧
    (∀ acc ts r, parseTtcTermLoop f acc ts = some r → Cut ts r.2) ∧
    (∀ ts r, parseTtcTerm f ts = some r → CutS ts r.2) ∧
    (∀ acc ts r, parseTtcExprLoop f acc ts = some r → Cut ts r.2) ∧
    (∀ ts r, parseTtcExpr f ts = some r → CutS ts r.2) := by
  induction f with
  | zero =>
    refine ⟨?_, ?_, ?_, ?_, ?_, ?_⟩
    · intro ts r h; rw [parseTtcAtom_zero] at h; exact absurd h (by simp)
    · intro ts r h; rw [parseTtcFact_zero] at h; exact absurd h (by simp)
    · intro acc ts r h; rw [parseTtcTermLoop_zero] at h; exact absurd h (by simp)
    · intro ts r h; rw [parseTtcTerm_zero] at h; exact absurd h (by simp)
    · intro acc ts r h; rw [parseTtcExprLoop_zero] at h; exact absurd h (by simp)
    · intro ts r h; rw [parseTtcExpr_zero] at h; exact absurd h (by simp)
  | succ f ih =>
    obtain ⟨hA, hF, hTL, hT, hEL, hE⟩ := ih
    refine ⟨?_, ?_, ?_, ?_, ?_, ?_⟩
    · intro ts r h
      rw [parseTtcAtom_succ] at h
      exact ttcAtomStep_cut hE (parseArgs_cut f) h
    · intro ts r h
      rw [parseTtcFact_succ] at h
      cases ha : parseTtcAtom f ts with
      | none => simp [ha] at h
      | some a =>
        rw [ha] at h
        simp only [Option.bind_some] at h
        exact (hA _ _ ha).trans_cut (factTail_cut hA h)
    · intro acc ts r h
      rcases mulOp_cases ts with ⟨t, r', op, rfl, hop⟩ | hstop
      · rw [parseTtcTermLoop_op _ _ _ _ _ hop] at h
        cases hp : parseTtcFact f r' with
        | none => simp [hp] at h
        | some x =>
          rw [hp] at h
          simp only [Option.bind_some] at h
          exact (CutS.cons _ ((hF _ _ hp).cut.trans (hTL _ _ _ h))).cut
      · rw [parseTtcTermLoop_stop _ _ _ hstop] at h; cases h; exact Cut.refl _
    · intro ts r h
      rw [parseTtcTerm_succ] at h
      cases hp : parseTtcFact f ts with
      | none => simp [hp] at h
      | some x =>
        rw [hp] at h
        simp only [Option.bind_some] at h
        exact (hF _ _ hp).trans_cut (hTL _ _ _ h)
    · intro acc ts r h
      rcases addOp_cases ts with ⟨t, r', op, rfl, hop⟩ | hstop
      · rw [parseTtcExprLoop_op _ _ _ _ _ hop] at h
        cases hp : parseTtcTerm f r' with
        | none => simp [hp] at h
        | some x =>
          rw [hp] at h
          simp only [Option.bind_some] at h
          exact (CutS.cons _ ((hT _ _ hp).cut.trans (hEL _ _ _ h))).cut
      · rw [parseTtcExprLoop_stop _ _ _ hstop] at h; cases h; exact Cut.refl _
    · intro ts r h
      rw [parseTtcExpr_succ] at h
      cases hp : parseTtcTerm f ts with
      | none => simp [hp] at h
      | some x =>
        rw [hp] at h
        simp only [Option.bind_some] at h
        exact (hT _ _ hp).trans_cut (hEL _ _ _ h)


/-! ### printing levels -/

abbrev prE (t : TTC) : List Tok := prTtc 0 false t
abbrev prT (t : TTC) : List Tok := prTtc 1 true t
abbrev prF (t : TTC) : List Tok := prTtc 2 true t
abbrev prA (t : TTC) : List Tok := prTtc 4 false t

/-- precedence of the top node: 1 `+ -`, 2 `* /`, 3 `^`, 4 atom -/
def tkind : TTC → Nat
  | .bin op _ _ => (ttcOp op).2
  | _ => 4

theorem ttcOp_snd (op : String) : (ttcOp op).2 = 1 ∨ (ttcOp op).2 = 2 ∨ (ttcOp op).2 = 3 := by
  unfold ttcOp; repeat' split
  all_goals simp

theorem prTtc_1f (t : TTC) : prTtc 1 false t = prE t := by
  cases t with
  | bin op l r => rcases ttcOp_snd op with h | h | h <;> simp [prE, prTtc, h]
  | func n as => cases as <;> rfl
  | num v => rfl

theorem prTtc_2f (t : TTC) : prTtc 2 false t = prT t := by
  cases t with
  | bin op l r => rcases ttcOp_snd op with h | h | h <;> simp [prT, prTtc, h]
  | func n as => cases as <;> rfl
  | num v => rfl

theorem prT_eq (t : TTC) : prT t = if tkind t = 1 then .lparen :: (prE t ++ [.rparen]) else prE t := by
  cases t with
  | bin op l r => rcases ttcOp_snd op with h | h | h <;> simp [prT, prE, prTtc, h, tkind, parenT]
  | func n as => cases as <;> rfl
  | num v => rfl

theorem prF_eq (t : TTC) : prF t = if tkind t ≤ 2 then .lparen :: (prE t ++ [.rparen]) else prE t := by
  cases t with
  | bin op l r => rcases ttcOp_snd op with h | h | h <;> simp [prF, prE, prTtc, h, tkind, parenT]
  | func n as => cases as <;> rfl
  | num v => rfl

theorem prA_eq (t : TTC) : prA t = if tkind t ≤ 3 then .lparen :: (prE t ++ [.rparen]) else prE t := by
  cases t with
  | bin op l r => rcases ttcOp_snd op with h | h | h <;> simp [prA, prE, prTtc, h, tkind, parenT]
  | func n as => cases as <;> rfl
  | num v => rfl

theorem prE_add (op : String) (l r : TTC) (h : (ttcOp op).2 = 1) :
    prE (.bin op l r) = prE l ++ (ttcOp op).1 :: prT r := by
  simp [prE, prTtc, h, parenT, prTtc_1f]

theorem prE_mul (op : String) (l r : TTC) (h : (ttcOp op).2 = 2) :
    prE (.bin op l r) = prT l ++ (ttcOp op).1 :: prF r := by
  simp [prE, prTtc, h, parenT, prTtc_2f]

theorem prE_pow (op : String) (l r : TTC) (h : (ttcOp op).2 = 3) :
    prE (.bin op l r) = prA l ++ .power :: prA r := by
  simp [prE, prTtc, h, parenT]

theorem prTtc_ne_nil (c : Nat) (b : Bool) (t : TTC) : 1 ≤ (prTtc c b t).length := by
  cases t with
  | bin op l r => simp only [prTtc]; split <;> simp only [parenT] <;> split <;> simp <;> omega
  | func n as => cases as <;> simp [prTtc]
  | num v => simp [prTtc]

/-! ### well-formed TTC expressions, follow sets, sizes -/

/-- the five operators the compiler produces -/
def wfTtc : TTC → Bool
  | .bin op l r =>
    (op = "addition" || op = "subtraction" || op = "multiplication" || op = "division" || op = "exponentiation")
      && wfTtc l && wfTtc r
  | _ => true

def contTAtom : Tok → Bool
  | .lparen => true | _ => false
def contTFact : Tok → Bool
  | .power => true | t => contTAtom t
def contTTerm : Tok → Bool
  | .star => true | .divide => true | t => contTFact t
def contTExpr : Tok → Bool
  | .plus => true | .minus => true | t => contTTerm t

theorem headP_tAtom_of_tFact (rest : List Tok) (h : headP contTFact rest = false) : headP contTAtom rest = false := by
  cases rest with
  | nil => rfl
  | cons t r => cases t <;> simp_all [headP, contTFact, contTAtom]
theorem headP_tFact_of_tTerm (rest : List Tok) (h : headP contTTerm rest = false) : headP contTFact rest = false := by
  cases rest with
  | nil => rfl
  | cons t r => cases t <;> simp_all [headP, contTTerm, contTFact]
theorem headP_tTerm_of_tExpr (rest : List Tok) (h : headP contTExpr rest = false) : headP contTTerm rest = false := by
  cases rest with
  | nil => rfl
  | cons t r => cases t <;> simp_all [headP, contTExpr, contTTerm]

def nfacts : TTC → Nat
  | .bin op l _ => if (ttcOp op).2 = 2 then nfacts l + 1 else 1
  | _ => 1
def nterms : TTC → Nat
  | .bin op l _ => if (ttcOp op).2 = 1 then nterms l + 1 else 1
  | _ => 1

theorem nfacts_pos (t : TTC) : 1 ≤ nfacts t := by
  cases t <;> simp [nfacts]; split <;> omega
theorem nterms_pos (t : TTC) : 1 ≤ nterms t := by
  cases t <;> simp [nterms]; split <;> omega

theorem prT_length (t : TTC) : (prE t).length ≤ (prT t).length := by rw [prT_eq]; split <;> simp <;> omega
theorem prF_length (t : TTC) : (prE t).length ≤ (prF t).length := by rw [prF_eq]; split <;> simp <;> omega

theorem nfacts_le (t : TTC) : nfacts t ≤ (prE t).length := by
  induction t with
  | bin op l r ihl _ =>
    simp only [nfacts]
    split
    · rename_i h; rw [prE_mul op l r h]; have := prT_length l; simp; omega
    · exact prTtc_ne_nil _ _ _
  | func n as => exact prTtc_ne_nil _ _ _
  | num v => exact prTtc_ne_nil _ _ _

theorem nterms_le (t : TTC) : nterms t ≤ (prE t).length := by
  induction t with
  | bin op l r ihl _ =>
    simp only [nterms]
    split
    · rename_i h; rw [prE_add op l r h]; simp; omega
    · exact prTtc_ne_nil _ _ _
  | func n as => exact prTtc_ne_nil _ _ _
  | num v => exact prTtc_ne_nil _ _ _

/-! ### the four statements -/

def TAtomOK (t : TTC) : Prop :=
  ∀ f rest, headP contTAtom rest = false → 2 * (prA t).length ≤ f + 1 →
    parseTtcAtom f (prA t ++ rest) = some (t, rest)
def TFactOK (t : TTC) : Prop :=
  ∀ f rest, headP contTFact rest = false → 2 * (prF t).length ≤ f →
    parseTtcFact f (prF t ++ rest) = some (t, rest)
def TTermOK (t : TTC) : Prop :=
  ∀ f rest, headP contTFact rest = false → 2 * (prT t).length + 1 ≤ f →
    parseTtcTerm f (prT t ++ rest) = parseTtcTermLoop (f - nfacts t) t rest
def TExprOK (t : TTC) : Prop :=
  ∀ f rest, headP contTTerm rest = false → 2 * (prE t).length + 2 ≤ f →
    parseTtcExpr f (prE t ++ rest) = parseTtcExprLoop (f - nterms t) t rest

theorem parseTtcTermLoop_done (f : Nat) (t : TTC) (rest : List Tok) (hf : 1 ≤ f)
    (hr : headP contTTerm rest = false) : parseTtcTermLoop f t rest = some (t, rest) := by
  obtain ⟨f, rfl⟩ : ∃ g, f = g + 1 := ⟨f - 1, by omega⟩
  apply parseTtcTermLoop_stop
  intro t r h; subst h
  cases t <;> simp_all [headP, contTTerm, mulOp]

theorem parseTtcExprLoop_done (f : Nat) (t : TTC) (rest : List Tok) (hf : 1 ≤ f)
    (hr : headP contTExpr rest = false) : parseTtcExprLoop f t rest = some (t, rest) := by
  obtain ⟨f, rfl⟩ : ∃ g, f = g + 1 := ⟨f - 1, by omega⟩
  apply parseTtcExprLoop_stop
  intro t r h; subst h
  cases t <;> simp_all [headP, contTExpr, addOp]

/-! ### atoms -/

theorem parseArgs_prArgs (as : List String) (hne : as ≠ []) (f : Nat) (rest : List Tok) (hf : as.length ≤ f) :
    parseArgs f (prArgs as ++ rest) = some (as, rest) := by
  induction as generalizing f with
  | nil => exact absurd rfl hne
  | cons a as ih =>
    obtain ⟨f, rfl⟩ : ∃ g, f = g + 1 := ⟨f - 1, by simp at hf; omega⟩
    cases as with
    | nil => simp [prArgs, parseArgs, numTok]
    | cons b as =>
      have := ih (by simp) f (by simpa using hf)
      simp only [prArgs, List.cons_append] at this ⊢
      simp only [parseArgs, numTok, Option.bind_some, this, Option.map_some]

theorem prArgs_length (as : List String) (hne : as ≠ []) : (prArgs as).length = 2 * as.length := by
  induction as with
  | nil => exact absurd rfl hne
  | cons a as ih =>
    cases as with
    | nil => rfl
    | cons b as => simp only [prArgs, List.length_cons] at ih ⊢; have := ih (by simp); omega

theorem tAtomOK_func (n : String) (as : List String) : TAtomOK (.func n as) := by
  intro f rest hr hf
  cases as with
  | nil =>
    simp only [prA, prTtc, List.length_cons, List.length_nil] at hf
    obtain ⟨f, rfl⟩ : ∃ g, f = g + 1 := ⟨f - 1, by omega⟩
    simp only [prA, prTtc, List.cons_append, List.nil_append]
    rw [parseTtcAtom_succ]
    unfold ttcAtomStep
    split
    · rename_i h; simp only [List.cons.injEq] at h; rw [h.2] at hr; simp [headP, contTAtom] at hr
    · rename_i h; simp only [List.cons.injEq] at h; rw [h.2] at hr; simp [headP, contTAtom] at hr
    · rename_i h; simp only [List.cons.injEq, Tok.id.injEq] at h; obtain ⟨rfl, rfl⟩ := h; rfl
    · rename_i h; simp at h
    · rename_i h; simp at h
    · rename_i h; simp at h
    · rename_i h1 h2 h3 h4 h5 h6; exact (h3 _ _ rfl).elim
  | cons a as =>
    have hl := prArgs_length (a :: as) (by simp)
    simp only [prA, prTtc, List.length_cons] at hf hl
    obtain ⟨f, rfl⟩ : ∃ g, f = g + 1 := ⟨f - 1, by omega⟩
    simp only [prA, prTtc, List.cons_append]
    rw [parseTtcAtom_succ]
    have hp := parseArgs_prArgs (a :: as) (by simp) f rest (by simp only [List.length_cons]; omega)
    unfold ttcAtomStep
    split
    · rename_i h; cases as <;> simp [prArgs] at h
    · rename_i h; simp only [List.cons.injEq, Tok.id.injEq] at h; obtain ⟨rfl, _, rfl⟩ := h
      rw [hp]; rfl
    · rename_i h1 h2 h; simp only [List.cons.injEq, Tok.id.injEq] at h; exact absurd h.2.symm (h2 _)
    · rename_i h; simp at h
    · rename_i h; simp at h
    · rename_i h; simp at h
    · rename_i h1 h2 h3 h4 h5 h6; exact (h3 _ _ rfl).elim

theorem tAtomOK_num (v : String) : TAtomOK (.num v) := by
  intro f rest hr hf
  simp only [prA, prTtc, List.length_cons, List.length_nil] at hf
  obtain ⟨f, rfl⟩ : ∃ g, f = g + 1 := ⟨f - 1, by omega⟩
  simp only [prA, prTtc, List.cons_append, List.nil_append]
  rw [parseTtcAtom_succ]
  rfl

theorem ttcAtomStep_lparen (pe : List Tok → P TTC) (pa : List Tok → P (List String)) (ts : List Tok) :
    ttcAtomStep pe pa (.lparen :: ts) =
      (match pe ts with
       | some (e, .rparen :: rest') => some (e, rest')
       | _ => none) := rfl

theorem tAtomOK_of_exprOK (t : TTC) (hE : TExprOK t) (hk : tkind t ≤ 3) : TAtomOK t := by
  intro f rest _ hf
  rw [prA_eq, if_pos hk] at hf ⊢
  simp only [List.length_cons, List.length_append, List.length_nil] at hf
  obtain ⟨f, rfl⟩ : ∃ g, f = g + 1 := ⟨f - 1, by omega⟩
  have h1 := nterms_le t
  have h2 := nterms_pos t
  simp only [List.cons_append, List.append_assoc, List.nil_append]
  rw [parseTtcAtom_succ, ttcAtomStep_lparen, hE f (.rparen :: rest) rfl (by omega),
    parseTtcExprLoop_done _ _ _ (by omega) rfl]

/-! ### operators -/

def wfOp (op : String) : Bool :=
  op = "addition" || op = "subtraction" || op = "multiplication" || op = "division" || op = "exponentiation"

theorem ttcOp_add {op : String} (hw : wfOp op = true) (h : (ttcOp op).2 = 1) : addOp (ttcOp op).1 = some op := by
  simp only [wfOp, Bool.or_eq_true, decide_eq_true_eq] at hw
  rcases hw with (((rfl | rfl) | rfl) | rfl) | rfl <;> simp [ttcOp] at h ⊢ <;> simp [addOp]

theorem ttcOp_mul {op : String} (hw : wfOp op = true) (h : (ttcOp op).2 = 2) : mulOp (ttcOp op).1 = some op := by
  simp only [wfOp, Bool.or_eq_true, decide_eq_true_eq] at hw
  rcases hw with (((rfl | rfl) | rfl) | rfl) | rfl <;> simp [ttcOp] at h ⊢ <;> simp [mulOp]

theorem ttcOp_pow {op : String} (hw : wfOp op = true) (h : (ttcOp op).2 = 3) : op = "exponentiation" := by
  simp only [wfOp, Bool.or_eq_true, decide_eq_true_eq] at hw
  rcases hw with (((rfl | rfl) | rfl) | rfl) | rfl <;> simp [ttcOp] at h ⊢

theorem tkind_range (t : TTC) : 1 ≤ tkind t ∧ tkind t ≤ 4 := by
  cases t with
  | bin op l r => rcases ttcOp_snd op with h | h | h <;> simp [tkind, h]
  | func n as => simp [tkind]
  | num v => simp [tkind]

theorem nfacts_of_kind (t : TTC) (h : tkind t ≠ 2) : nfacts t = 1 := by
  cases t <;> simp_all [nfacts, tkind]
theorem nterms_of_kind (t : TTC) (h : tkind t ≠ 1) : nterms t = 1 := by
  cases t <;> simp_all [nterms, tkind]

/-! ### node lemmas -/

theorem tFactOK_of_atomOK (t : TTC) (hA : TAtomOK t) (hk : tkind t ≠ 3) : TFactOK t := by
  intro f rest hr hf
  have hp : prF t = prA t := by
    rw [prF_eq, prA_eq]
    have := tkind_range t
    by_cases h : tkind t ≤ 2
    · rw [if_pos h, if_pos (by omega)]
    · rw [if_neg h, if_neg (by omega)]
  rw [hp] at hf ⊢
  have h1 : 1 ≤ (prA t).length := prTtc_ne_nil _ _ _
  obtain ⟨f, rfl⟩ : ∃ g, f = g + 1 := ⟨f - 1, by omega⟩
  rw [parseTtcFact_succ, hA f rest (headP_tAtom_of_tFact rest hr) (by omega)]
  simp only [Option.bind_some]
  apply factTail_stop
  intro r h; subst h; simp [headP, contTFact] at hr

theorem tFactOK_pow (op : String) (l r : TTC) (hop : op = "exponentiation") (hL : TAtomOK l) (hR : TAtomOK r) :
    TFactOK (.bin op l r) := by
  intro f rest hr hf
  have hk : (ttcOp op).2 = 3 := by subst hop; simp [ttcOp]
  have hp : prF (.bin op l r) = prA l ++ .power :: prA r := by
    rw [prF_eq, if_neg (by simp [tkind, hk]), prE_pow op l r hk]
  rw [hp] at hf ⊢
  simp only [List.length_append, List.length_cons] at hf
  obtain ⟨f, rfl⟩ : ∃ g, f = g + 1 := ⟨f - 1, by omega⟩
  simp only [List.append_assoc, List.cons_append]
  rw [parseTtcFact_succ, hL f _ rfl (by omega)]
  simp only [Option.bind_some]
  rw [factTail_power, hR f rest (headP_tAtom_of_tFact rest hr) (by omega)]
  subst hop; rfl

theorem tTermOK_of_factOK (t : TTC) (hF : TFactOK t) (hk : tkind t ≠ 2) : TTermOK t := by
  intro f rest hr hf
  have hp : prT t = prF t := by
    rw [prT_eq, prF_eq]
    have := tkind_range t
    by_cases h : tkind t = 1
    · rw [if_pos h, if_pos (by omega)]
    · rw [if_neg h, if_neg (by omega)]
  rw [hp] at hf ⊢
  obtain ⟨f, rfl⟩ : ∃ g, f = g + 1 := ⟨f - 1, by omega⟩
  rw [parseTtcTerm_succ, hF f rest hr (by omega), nfacts_of_kind t hk]
  simp

theorem mulOp_tok_follow {t : Tok} {op : String} (h : mulOp t = some op) (ts : List Tok) :
    headP contTFact (t :: ts) = false := by
  cases t <;> simp [mulOp] at h <;> rfl

theorem addOp_tok_follow {t : Tok} {op : String} (h : addOp t = some op) (ts : List Tok) :
    headP contTTerm (t :: ts) = false := by
  cases t <;> simp [addOp] at h <;> rfl

theorem tTermOK_mul (op : String) (l r : TTC) (hw : wfOp op = true) (hk : (ttcOp op).2 = 2)
    (hL : TTermOK l) (hR : TFactOK r) : TTermOK (.bin op l r) := by
  intro f rest hr hf
  have hp : prT (.bin op l r) = prT l ++ (ttcOp op).1 :: prF r := by
    rw [prT_eq, if_neg (by simp [tkind, hk]), prE_mul op l r hk]
  rw [hp] at hf ⊢
  simp only [List.length_append, List.length_cons] at hf
  have h1 := nfacts_le l
  have h2 := prT_length l
  have hop := ttcOp_mul hw hk
  simp only [List.append_assoc, List.cons_append]
  rw [hL f _ (mulOp_tok_follow hop _) (by omega)]
  obtain ⟨k, hk'⟩ : ∃ k, f - nfacts l = k + 1 := ⟨f - nfacts l - 1, by omega⟩
  rw [hk', parseTtcTermLoop_op _ _ _ _ _ hop, hR k rest hr (by omega)]
  simp only [Option.bind_some, nfacts, hk, if_true]
  congr 1; omega

theorem tExprOK_of_termOK (t : TTC) (hT : TTermOK t) (hk : tkind t ≠ 1) : TExprOK t := by
  intro f rest hr hf
  have hp : prT t = prE t := by rw [prT_eq, if_neg hk]
  have h1 := nfacts_le t
  have h2 := nfacts_pos t
  obtain ⟨f, rfl⟩ : ∃ g, f = g + 1 := ⟨f - 1, by omega⟩
  rw [← hp, parseTtcExpr_succ, hT f rest (headP_tFact_of_tTerm rest hr) (by rw [hp]; omega),
    parseTtcTermLoop_done _ _ _ (by omega) hr, nterms_of_kind t hk]
  simp

theorem tExprOK_add (op : String) (l r : TTC) (hw : wfOp op = true) (hk : (ttcOp op).2 = 1)
    (hL : TExprOK l) (hR : TTermOK r) : TExprOK (.bin op l r) := by
  intro f rest hr hf
  rw [prE_add op l r hk] at hf ⊢
  simp only [List.length_append, List.length_cons] at hf
  have h1 := nterms_le l
  have h2 := nfacts_le r
  have h3 := nfacts_pos r
  have h4 := prT_length r
  have hop := ttcOp_add hw hk
  simp only [List.append_assoc, List.cons_append]
  rw [hL f _ (addOp_tok_follow hop _) (by omega)]
  obtain ⟨k, hk'⟩ : ∃ k, f - nterms l = k + 1 := ⟨f - nterms l - 1, by omega⟩
  rw [hk', parseTtcExprLoop_op _ _ _ _ _ hop, hR k rest (headP_tFact_of_tTerm rest hr) (by omega),
    parseTtcTermLoop_done _ _ _ (by omega) hr]
  simp only [Option.bind_some, nterms, hk, if_true]
  congr 1; omega

/-! ### the induction -/

theorem ttc_all (t : TTC) (hw : wfTtc t = true) : TAtomOK t ∧ TFactOK t ∧ TTermOK t ∧ TExprOK t := by
  induction t with
  | func n as =>
    have A := tAtomOK_func n as
    have F := tFactOK_of_atomOK _ A (by simp [tkind])
    have T := tTermOK_of_factOK _ F (by simp [tkind])
    exact ⟨A, F, T, tExprOK_of_termOK _ T (by simp [tkind])⟩
  | num v =>
    have A := tAtomOK_num v
    have F := tFactOK_of_atomOK _ A (by simp [tkind])
    have T := tTermOK_of_factOK _ F (by simp [tkind])
    exact ⟨A, F, T, tExprOK_of_termOK _ T (by simp [tkind])⟩
  | bin op l r ihl ihr =>
    simp only [wfTtc, Bool.and_eq_true] at hw
    obtain ⟨⟨hop, hl⟩, hr⟩ := hw
    have hop' : wfOp op = true := hop
    have ihl := ihl hl
    have ihr := ihr hr
    rcases ttcOp_snd op with h | h | h
    · have E := tExprOK_add op l r hop' h ihl.2.2.2 ihr.2.2.1
      have A := tAtomOK_of_exprOK _ E (by simp [tkind, h])
      have F := tFactOK_of_atomOK _ A (by simp [tkind, h])
      exact ⟨A, F, tTermOK_of_factOK _ F (by simp [tkind, h]), E⟩
    · have T := tTermOK_mul op l r hop' h ihl.2.2.1 ihr.2.1
      have E := tExprOK_of_termOK _ T (by simp [tkind, h])
      have A := tAtomOK_of_exprOK _ E (by simp [tkind, h])
      exact ⟨A, tFactOK_of_atomOK _ A (by simp [tkind, h]), T, E⟩
    · have F := tFactOK_pow op l r (ttcOp_pow hop' h) ihl.1 ihr.1
      have T := tTermOK_of_factOK _ F (by simp [tkind, h])
      have E := tExprOK_of_termOK _ T (by simp [tkind, h])
      exact ⟨tAtomOK_of_exprOK _ E (by simp [tkind, h]), F, T, E⟩

/-- the TTC round trip -/
theorem parseTtcExpr_prTtc (t : TTC) (hw : wfTtc t = true) (f : Nat) (rest : List Tok)
    (hr : headP contTExpr rest = false) (hf : 2 * (prE t).length + 2 ≤ f) :
    parseTtcExpr f (prE t ++ rest) = some (t, rest) := by
  have h1 := nterms_le t
  rw [(ttc_all t hw).2.2.2 f rest (headP_tTerm_of_tExpr rest hr) hf,
    parseTtcExprLoop_done _ _ _ (by omega) hr]


end MalVerif.Mal
