import MalVerif.Model.Compiler.Token
/-!
# `lexPrefix`: the tokens in front of the first lexing error

`lexPrefixAux` is `lexAux` with "the tokens so far" in place of failure: on a text that lexes both give the same
token list.
-/
namespace MalVerif.Mal

theorem lexPrefixAux_of_lexAux (f : Nat) (cs : List Char) (ts : List Tok) (h : lexAux f cs = some ts) :
    lexPrefixAux f cs = ts := by
  fun_induction lexAux f cs generalizing ts <;> simp_all [lexPrefixAux] <;>
    (try (obtain ⟨a, ha, rfl⟩ := h)) <;> (try simp_all +zetaDelta) <;>
    (try (obtain ⟨a, ha, rfl⟩ := h)) <;> (try simp_all)
  -- left: a word that is not all digits — the FLOAT / INT branch of `lexPrefixAux` is not taken either
  intro hall
  obtain ⟨x, hx, hd⟩ := ‹∃ x, x ∈ _ ∧ isDigit x = false›
  rw [hall x hx] at hd; exact absurd hd (by simp)

/-- on a text that lexes, the tokens in front of the first error are all its tokens -/
theorem lexPrefix_of_lex (src : String) (ts : List Tok) (h : lex src = some ts) : lexPrefix src = ts :=
  lexPrefixAux_of_lexAux _ _ ts h

end MalVerif.Mal
