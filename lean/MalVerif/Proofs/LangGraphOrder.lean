import MalVerif.Proofs.LangGraphLemmas
import Batteries.Data.List.Perm
/-!
# The `extends` order of a language (for C15)

* `Acyclic L ↔ ∀ t, ¬ TC (Extends L) t t` (pigeonhole on the pairwise
  distinct declared names along the ancestor walk),
* the structure of the ancestor walk (every element is the declaration of an ancestor; what follows an
  element are its ancestors), linearity of the ancestors of one type,
* `NoShadow` from `NoVarRedecl`, `FieldsUnique` from `FieldsLocal` + `NoFieldRedecl`,
* invariance (`typeE_rigid`) and monotonicity (`typeE_mono`) of the static typing in the source type,
  downward closure of the side condition `StarTyped`, its reduction for `e*` to the single test
  "`e` leads from `T` to a sub asset of `T`".
-/
namespace MalVerif.LG
open MalVerif

/-! ## transitive closure (`TC` of `Spec/Den.lean`: one or more steps) -/

theorem _root_.MalVerif.TC.trans {α} {R : α → α → Prop} {x y z : α} (h1 : TC R x y) (h2 : TC R y z) :
    TC R x z := by
  induction h2 with
  | one h => exact .snoc h1 h
  | snoc _ h ih => exact .snoc ih h

theorem _root_.MalVerif.TC.toRTC {α} {R : α → α → Prop} {x y : α} (h : TC R x y) : RTC R x y := by
  induction h with
  | one h => exact .single h
  | snoc _ h ih => exact ih.tail h

theorem _root_.MalVerif.TC.of_head_rtc {α} {R : α → α → Prop} {x y z : α} (h1 : R x y) (h2 : RTC R y z) :
    TC R x z := by
  induction h2 generalizing x with
  | refl => exact .one h1
  | head h _ ih => exact TC.cons h1 (ih h)

theorem _root_.MalVerif.TC.trans_rtc {α} {R : α → α → Prop} {x y z : α} (h1 : TC R x y) (h2 : RTC R y z) :
    TC R x z := by
  induction h2 with
  | refl => exact h1
  | head h _ ih => exact ih (h1.snoc h)

theorem RTC.trans_tc {α} {R : α → α → Prop} {x y z : α} (h1 : RTC R x y) (h2 : TC R y z) : TC R x z := by
  induction h1 with
  | refl => exact h2
  | head h _ ih => exact TC.cons h (ih h2)

theorem RTC.eq_or_tc {α} {R : α → α → Prop} {x y : α} (h : RTC R x y) : x = y ∨ TC R x y := by
  cases h with
  | refl => exact Or.inl rfl
  | head h h' => exact Or.inr (.of_head_rtc h h')

/-- the first step of a non-empty path -/
theorem _root_.MalVerif.TC.head_cases {α} {R : α → α → Prop} {x y : α} (h : TC R x y) :
    ∃ s, R x s ∧ (s = y ∨ TC R s y) := by
  induction h with
  | one h => exact ⟨_, h, Or.inl rfl⟩
  | snoc _ h ih =>
    obtain ⟨s, hs, e | ht⟩ := ih
    · subst e; exact ⟨s, hs, Or.inr (.one h)⟩
    · exact ⟨s, hs, Or.inr (ht.snoc h)⟩

/-! ## `extends` is a partial function -/

theorem extends_functional {L : Lang} {t s s' : String} (h : Extends L t s) (h' : Extends L t s') : s = s' := by
  obtain ⟨a, ha, hs⟩ := h
  obtain ⟨a', ha', hs'⟩ := h'
  rw [ha] at ha'; cases ha'
  rw [hs] at hs'; cases hs'; rfl

/-- the ancestors of one type are linearly ordered -/
theorem rtc_linear {L : Lang} {t u v : String} (h1 : RTC (Extends L) t u) (h2 : RTC (Extends L) t v) :
    RTC (Extends L) u v ∨ RTC (Extends L) v u := by
  induction h1 with
  | refl => exact Or.inl h2
  | head h hr ih =>
    cases h2 with
    | refl => exact Or.inr (.head h hr)
    | head h' hr' =>
      cases extends_functional h h'
      exact ih hr'

/-- a type on an `extends` cycle: its super asset is on the cycle, too -/
theorem tc_self_step {L : Lang} {t : String} (h : TC (Extends L) t t) :
    ∃ s, Extends L t s ∧ TC (Extends L) s s := by
  obtain ⟨s, hs, e | ht⟩ := h.head_cases
  · subst e; exact ⟨s, hs, h⟩
  · exact ⟨s, hs, ht.snoc hs⟩

/-! ## acyclicity -/

/-- the walk from a type on an `extends` cycle is cut by every amount of fuel -/
theorem chainOK_false_of_cycle (L : Lang) : ∀ (k : Nat) (t : String), TC (Extends L) t t →
    L.chainOK k t = false := by
  intro k
  induction k with
  | zero => intro t _; rfl
  | succ k ih =>
    intro t h
    obtain ⟨s, ⟨a, ha, hs⟩, hc⟩ := tc_self_step h
    simp only [Lang.chainOK, ha, hs]
    exact ih s hc

/-- pigeonhole: pairwise distinct names of declared assets are at most `|assets|` many -/
theorem declared_names_length_le (L : Lang) (seen : List String) (hnd : seen.Nodup)
    (hdecl : ∀ s ∈ seen, (L.findAsset s).isSome = true) : seen.length ≤ L.assets.length := by
  have hsub : seen ⊆ L.assets.map (·.name) := by
    intro s hs
    have := hdecl s hs
    cases hfa : L.findAsset s with
    | none => rw [hfa] at this; cases this
    | some a => exact List.mem_map.2 ⟨a, findAsset_mem hfa, findAsset_name hfa⟩
  have := (List.subperm_of_subset hnd hsub).length_le
  simpa using this

/-- the walk with the names already passed: when no type is its own proper ancestor, they are
pairwise distinct declared names, so the fuel that is left suffices -/
theorem chainOK_of_seen (L : Lang) (hno : ∀ t, ¬ TC (Extends L) t t) :
    ∀ (k : Nat) (t : String) (seen : List String), seen.Nodup →
      (∀ s ∈ seen, (L.findAsset s).isSome = true) → (∀ s ∈ seen, TC (Extends L) s t) →
      L.assets.length + 1 ≤ seen.length + k → L.chainOK k t = true := by
  intro k
  induction k with
  | zero =>
    intro t seen hnd hdecl _ hlen
    have := declared_names_length_le L seen hnd hdecl
    omega
  | succ k ih =>
    intro t seen hnd hdecl htc hlen
    simp only [Lang.chainOK]
    cases hfa : L.findAsset t with
    | none => rfl
    | some a =>
      cases hsa : a.superAsset with
      | none => simp only [hsa]
      | some s =>
        have hext : Extends L t s := ⟨a, hfa, hsa⟩
        simp only [hsa]
        refine ih s (t :: seen) ?_ ?_ ?_ ?_
        · exact List.nodup_cons.2 ⟨fun hmem => hno t (htc t hmem), hnd⟩
        · intro x hx
          rcases List.mem_cons.1 hx with e | hx
          · rw [e, hfa]; rfl
          · exact hdecl x hx
        · intro x hx
          rcases List.mem_cons.1 hx with e | hx
          · rw [e]; exact .one hext
          · exact (htc x hx).snoc hext
        · simp only [List.length_cons]; omega

/-- **acyclicity from the relation**: when no type is its own proper ancestor, no ancestor walk is cut
by the fuel `|assets| + 1` -/
theorem acyclic_of_no_cycle (L : Lang) (hno : ∀ t, ¬ TC (Extends L) t t) : Acyclic L := by
  intro t
  exact chainOK_of_seen L hno _ t [] List.nodup_nil (by simp) (by simp) (by simp)

theorem acyclic_iff_no_cycle (L : Lang) : Acyclic L ↔ ∀ t, ¬ TC (Extends L) t t := by
  constructor
  · intro hac t htc
    have := chainOK_false_of_cycle L (L.assets.length + 1) t htc
    rw [hac t] at this; cases this
  · exact acyclic_of_no_cycle L

/-! ## the structure of the ancestor walk -/

/-- every element of the walk is the declaration found under its name, of an ancestor-or-self -/
theorem chain_elem (L : Lang) : ∀ (k : Nat) (t : String) (x : AssetDecl), x ∈ L.chain k t →
    L.findAsset x.name = some x ∧ RTC (Extends L) t x.name := by
  intro k
  induction k with
  | zero => intro t x hx; simp [Lang.chain] at hx
  | succ k ih =>
    intro t x hx
    simp only [Lang.chain] at hx
    cases hfa : L.findAsset t with
    | none => rw [hfa] at hx; cases hx
    | some a =>
      rw [hfa] at hx
      have hname := findAsset_name hfa
      rcases List.mem_cons.1 hx with e | hx
      · subst e; rw [hname]; exact ⟨hfa, .refl⟩
      · cases hsa : a.superAsset with
        | none => rw [hsa] at hx; cases hx
        | some s =>
          rw [hsa] at hx
          obtain ⟨h1, h2⟩ := ih s x hx
          exact ⟨h1, .head ⟨a, hfa, hsa⟩ h2⟩

/-- `t ≤ u` implies that `u` is a declared ancestor-or-self of `t` (no hypothesis on cycles) -/
theorem isSub_rtc {L : Lang} {t u : String} (h : L.isSub t u = true) :
    (L.findAsset u).isSome = true ∧ RTC (Extends L) t u := by
  unfold Lang.isSub at h
  obtain ⟨x, hx, hn⟩ := List.any_eq_true.1 h
  simp only [decide_eq_true_eq] at hn
  obtain ⟨h1, h2⟩ := chain_elem L _ t x hx
  rw [hn] at h1 h2
  exact ⟨by rw [h1]; rfl, h2⟩

theorem isSub_declared_right {L : Lang} {t u : String} (h : L.isSub t u = true) :
    (L.findAsset u).isSome = true := (isSub_rtc h).1

/-- what follows an element of the walk are its ancestors -/
theorem chain_suffix (L : Lang) : ∀ (k : Nat) (t : String) (l1 l2 : List AssetDecl) (x : AssetDecl),
    L.chain k t = l1 ++ x :: l2 → ∀ y ∈ l2, RTC (Extends L) x.name y.name := by
  intro k
  induction k with
  | zero => intro t l1 l2 x h; simp [Lang.chain] at h
  | succ k ih =>
    intro t l1 l2 x h y hy
    simp only [Lang.chain] at h
    cases hfa : L.findAsset t with
    | none => rw [hfa] at h; simp at h
    | some a =>
      rw [hfa] at h
      cases l1 with
      | nil =>
        simp only [List.nil_append, List.cons.injEq] at h
        obtain ⟨rfl, h⟩ := h
        cases hsa : a.superAsset with
        | none => rw [hsa] at h; subst h; cases hy
        | some s =>
          rw [hsa] at h
          simp only at h
          have := (chain_elem L k s y (h ▸ hy)).2
          rw [findAsset_name hfa]
          exact .head ⟨a, hfa, hsa⟩ this
      | cons b l1 =>
        simp only [List.cons_append, List.cons.injEq] at h
        cases hsa : a.superAsset with
        | none => rw [hsa] at h; simp at h
        | some s =>
          rw [hsa] at h
          exact ih s l1 l2 x h.2 y hy

/-- the walk from a type that extends `s`, when not cut by the fuel: the declaration, then the walk
from `s` -/
theorem chain_extends {L : Lang} {t s : String} {a : AssetDecl}
    (hok : L.chainOK (L.assets.length + 1) t = true) (hfa : L.findAsset t = some a)
    (hsa : a.superAsset = some s) :
    L.chain (L.assets.length + 1) t = a :: L.chain (L.assets.length + 1) s := by
  have hoks : L.chainOK L.assets.length s = true := by
    simpa [Lang.chainOK, hfa, hsa] using hok
  have := (chain_fuel L _ s hoks (L.assets.length + 1) (Nat.le_succ _)).1
  rw [this]
  simp [Lang.chain, hfa, hsa]

/-! ## `NoShadow` from the primitive condition on variable declarations -/

/-- no asset declares a variable that one of its proper ancestors declares (`a`, `b` are the
declarations found under the names `t`, `u`) -/
def NoVarRedecl (L : Lang) : Prop :=
  ∀ t u a b v, L.findAsset t = some a → L.findAsset u = some b → TC (Extends L) t u →
    v ∈ a.variables.map (·.1) → v ∉ b.variables.map (·.1)

/-- a variable that is found is declared by an ancestor-or-self -/
theorem lookupVar_declares {L : Lang} {T v : String} {d : Expr} (h : L.lookupVar T v = some d) :
    ∃ b, L.findAsset b.name = some b ∧ RTC (Extends L) T b.name ∧ v ∈ b.variables.map (·.1) := by
  unfold Lang.lookupVar at h
  obtain ⟨b, hb, h⟩ := List.exists_of_findSome?_eq_some h
  obtain ⟨h1, h2⟩ := chain_elem L _ T b hb
  refine ⟨b, h1, h2, ?_⟩
  cases hf : b.variables.find? (·.1 = v) with
  | none => rw [hf] at h; cases h
  | some p =>
    have hp := List.find?_some hf
    simp only [decide_eq_true_eq] at hp
    exact List.mem_map.2 ⟨p, List.mem_of_find?_eq_some hf, hp⟩

theorem find_var_none {vars : List (String × Expr)} {v : String} (h : v ∉ vars.map (·.1)) :
    vars.find? (·.1 = v) = none := by
  rw [List.find?_eq_none]
  intro p hp hv
  simp only [decide_eq_true_eq] at hv
  exact h (List.mem_map.2 ⟨p, hp, hv⟩)

theorem lookupVar_of_rtc (L : Lang) (hac : Acyclic L) (h : NoVarRedecl L) {t T : String}
    (hr : RTC (Extends L) t T) : ∀ v d, L.lookupVar T v = some d → L.lookupVar t v = some d := by
  induction hr with
  | refl => intro v d hd; exact hd
  | @head x y z hext _ ih =>
    intro v d hd
    obtain ⟨a, hfa, hsa⟩ := hext
    have hy := ih v d hd
    obtain ⟨b, hb, hyb, hvb⟩ := lookupVar_declares hy
    have hva : v ∉ a.variables.map (·.1) := fun hva =>
      h x b.name a b v hfa hb (.of_head_rtc ⟨a, hfa, hsa⟩ hyb) hva hvb
    unfold Lang.lookupVar
    rw [chain_extends (hac x) hfa hsa, List.findSome?_cons, find_var_none hva]
    exact hy

/-- **`NoShadow` from the primitive condition** (no `extends` cycle) -/
theorem noShadow_of_noVarRedecl (L : Lang) (hac : Acyclic L) (h : NoVarRedecl L) : NoShadow L := by
  intro t T v d hs hd
  exact lookupVar_of_rtc L hac h (isSub_rtc hs).2 v d hd

/-- a decidable sufficient check -/
def noVarRedeclCheck (L : Lang) : Bool :=
  L.assets.all fun a => L.assets.all fun b =>
    a.name == b.name || !(L.isSub a.name b.name) ||
      a.variables.all fun p => !(b.variables.any fun q => q.1 == p.1)

theorem noVarRedecl_of_check (L : Lang) (hac : Acyclic L) (h : noVarRedeclCheck L = true) : NoVarRedecl L := by
  intro t u a b v hfa hfb htc hva hvb
  have hc := List.all_eq_true.1 (List.all_eq_true.1 h a (findAsset_mem hfa)) b (findAsset_mem hfb)
  rw [findAsset_name hfa, findAsset_name hfb] at hc
  simp only [Bool.or_eq_true, beq_iff_eq, Bool.not_eq_true'] at hc
  rcases hc with (e | hc) | hc
  · subst e; exact (acyclic_iff_no_cycle L).1 hac t htc
  · have := (isSub_iff L t u (hac t)).2 ⟨by rw [hfa]; rfl, by rw [hfb]; rfl, htc.toRTC⟩
    rw [this] at hc; cases hc
  · obtain ⟨p, hp, rfl⟩ := List.mem_map.1 hva
    obtain ⟨q, hq, hqp⟩ := List.mem_map.1 hvb
    have := List.all_eq_true.1 hc p hp
    simp only [Bool.not_eq_true', List.any_eq_false, beq_iff_eq] at this
    exact this q hq hqp

/-! ## `FieldsUnique` from the primitive conditions on field names -/

/-- one asset type does not get the same field name with two different targets -/
def FieldsLocal (nodes : List AssocDecl) : Prop :=
  ∀ d1 ∈ nodes, ∀ d2 ∈ nodes, ∀ f S U1 U2, Provides d1 f S U1 → Provides d2 f S U2 → U1 = U2

/-- no asset type has a field that one of its proper ancestors has -/
def NoFieldRedecl (L : Lang) (nodes : List AssocDecl) : Prop :=
  ∀ d1 ∈ nodes, ∀ d2 ∈ nodes, ∀ f S1 U1 S2 U2, Provides d1 f S1 U1 → Provides d2 f S2 U2 →
    ¬ TC (Extends L) S1 S2

/-- **`FieldsUnique` from the primitive conditions** (cycles or not) -/
theorem fieldsUnique_of_noFieldRedecl (L : Lang) (nodes : List AssocDecl) (hl : FieldsLocal nodes)
    (hr : NoFieldRedecl L nodes) : FieldsUnique L nodes := by
  intro d1 hd1 d2 hd2 f S1 U1 S2 U2 t hp1 hp2 hs1 hs2
  rcases rtc_linear (isSub_rtc hs1).2 (isSub_rtc hs2).2 with h | h
  · rcases h.eq_or_tc with e | h
    · subst e; exact hl d1 hd1 d2 hd2 f S1 U1 U2 hp1 hp2
    · exact absurd h (hr d1 hd1 d2 hd2 f S1 U1 S2 U2 hp1 hp2)
  · rcases h.eq_or_tc with e | h
    · subst e; exact hl d1 hd1 d2 hd2 f S2 U1 U2 hp1 hp2
    · exact absurd h (hr d2 hd2 d1 hd1 f S2 U2 S1 U1 hp2 hp1)

def fieldsLocalCheck (nodes : List AssocDecl) : Bool :=
  nodes.all fun d1 => nodes.all fun d2 => (sides d1).all fun p1 => (sides d2).all fun p2 =>
    p1.1 != p2.1 || p1.2.1 != p2.2.1 || p1.2.2 == p2.2.2

theorem fieldsLocal_of_check (nodes : List AssocDecl) (h : fieldsLocalCheck nodes = true) :
    FieldsLocal nodes := by
  intro d1 hd1 d2 hd2 f S U1 U2 hp1 hp2
  have h' := List.all_eq_true.1 (List.all_eq_true.1 (List.all_eq_true.1 (List.all_eq_true.1 h d1 hd1) d2 hd2)
    (f, S, U1) ((provides_iff_sides _ _ _ _).1 hp1)) (f, S, U2) ((provides_iff_sides _ _ _ _).1 hp2)
  simpa using h'

def noFieldRedeclCheck (L : Lang) (nodes : List AssocDecl) : Bool :=
  nodes.all fun d1 => nodes.all fun d2 => (sides d1).all fun p1 => (sides d2).all fun p2 =>
    p1.1 != p2.1 || p1.2.1 == p2.2.1 || !(L.isSub p1.2.1 p2.2.1)

theorem provides_end {d : AssocDecl} {f S U : String} (h : Provides d f S U) :
    S = d.leftAsset ∨ S = d.rightAsset := by
  rcases h with ⟨_, e, _⟩ | ⟨_, e, _⟩
  · exact Or.inl e.symm
  · exact Or.inr e.symm

theorem noFieldRedecl_of_check (L : Lang) (nodes : List AssocDecl) (hac : Acyclic L)
    (hends : ∀ d ∈ nodes, (L.findAsset d.leftAsset).isSome = true ∧ (L.findAsset d.rightAsset).isSome = true)
    (h : noFieldRedeclCheck L nodes = true) : NoFieldRedecl L nodes := by
  intro d1 hd1 d2 hd2 f S1 U1 S2 U2 hp1 hp2 htc
  have h' := List.all_eq_true.1 (List.all_eq_true.1 (List.all_eq_true.1 (List.all_eq_true.1 h d1 hd1) d2 hd2)
    (f, S1, U1) ((provides_iff_sides _ _ _ _).1 hp1)) (f, S2, U2) ((provides_iff_sides _ _ _ _).1 hp2)
  simp only [bne_self_eq_false, Bool.false_or, Bool.or_eq_true, beq_iff_eq, Bool.not_eq_true'] at h'
  rcases h' with e | h'
  · subst e; exact (acyclic_iff_no_cycle L).1 hac S1 htc
  · have h1 : (L.findAsset S1).isSome = true := by
      rcases provides_end hp1 with e | e <;> rw [e]
      · exact (hends d1 hd1).1
      · exact (hends d1 hd1).2
    have h2 : (L.findAsset S2).isSome = true := by
      rcases provides_end hp2 with e | e <;> rw [e]
      · exact (hends d2 hd2).1
      · exact (hends d2 hd2).2
    have := (isSub_iff L S1 S2 (hac S1)).2 ⟨h1, h2, htc.toRTC⟩
    rw [this] at h'; cases h'

/-! ## the closest common super asset and the source types -/

/-- what follows a name in `supers` are its ancestors -/
theorem supers_suffix (L : Lang) (t : String) (as bs : List String) (x : String)
    (h : supers L t = as ++ x :: bs) :
    (L.findAsset x).isSome = true ∧ ∀ y ∈ bs, RTC (Extends L) x y := by
  unfold supers at h
  obtain ⟨l1, l2', h1, _, h3⟩ := List.map_eq_append_iff.1 h
  obtain ⟨x0, l2, rfl, hx, h4⟩ := List.map_eq_cons_iff.1 h3
  have hx0 : x0 ∈ L.chain (L.assets.length + 1) t := by rw [h1]; simp
  have hd := (chain_elem L _ t x0 hx0).1
  rw [hx] at hd
  refine ⟨by rw [hd]; rfl, fun y hy => ?_⟩
  rw [← h4] at hy
  obtain ⟨y0, hy0, rfl⟩ := List.mem_map.1 hy
  rw [← hx]
  exact chain_suffix L _ t l1 l2 x0 h1 y0 hy0

/-- the closest common super asset is monotone in both arguments -/
theorem lca_mono (L : Lang) (hac : Acyclic L) {a b a' b' c : String} (h : lca L a b = some c)
    (ha : L.isSub a' a = true) (hb : L.isSub b' b = true) :
    ∃ c', lca L a' b' = some c' ∧ L.isSub c' c = true := by
  obtain ⟨h1, h2⟩ := lca_some h
  have ha' : c ∈ supers L a' := (isSub_iff_mem_supers L a' c).1 (isSub_trans L a' a c (hac a') ha h1)
  have hb' : c ∈ supers L b' := (isSub_iff_mem_supers L b' c).1 (isSub_trans L b' b c (hac b') hb h2)
  unfold lca
  cases hf : (supers L a').find? (fun x => (supers L b').contains x) with
  | none =>
    exfalso
    exact List.find?_eq_none.1 hf c ha' (by simpa using hb')
  | some c' =>
    refine ⟨c', rfl, ?_⟩
    obtain ⟨_, as, bs, hsplit, hnot⟩ := List.find?_eq_some_iff_append.1 hf
    obtain ⟨hc'd, hanc⟩ := supers_suffix L a' as bs c' hsplit
    rw [hsplit] at ha'
    have hcd := isSub_declared_right h1
    rcases List.mem_append.1 ha' with hm | hm
    · have := hnot c hm
      rw [List.contains_iff_mem.2 hb'] at this
      cases this
    · rcases List.mem_cons.1 hm with e | hm
      · rw [e]; exact isSub_refl L c' hc'd
      · exact (isSub_iff L c' c (hac c')).2 ⟨hc'd, hcd, hanc c hm⟩

/-! ## invariance of the static typing of step-free expressions in the source type -/

/-- no attack step, also not inside the definitions of the variables used -/
def StepFreeE (L : Lang) (selfOK : Expr → Prop) : Expr → Prop
  | .step _ => False
  | .field _ => True
  | .var v => ∀ t d, L.lookupVar t v = some d → selfOK d
  | .collect l r => StepFreeE L selfOK l ∧ StepFreeE L selfOK r
  | .union l r => StepFreeE L selfOK l ∧ StepFreeE L selfOK r
  | .inter l r => StepFreeE L selfOK l ∧ StepFreeE L selfOK r
  | .diff l r => StepFreeE L selfOK l ∧ StepFreeE L selfOK r
  | .sub _ e => StepFreeE L selfOK e
  | .trans e => StepFreeE L selfOK e

def StepFree (L : Lang) : Nat → Expr → Prop
  | 0 => fun _ => True
  | k+1 => StepFreeE L (StepFree L k)

/-- a field that an asset type has leads to the same target from every sub asset -/
theorem fieldTarget_sub (L : Lang) (nodes : List AssocDecl) (hac : Acyclic L) (hfu : FieldsUnique L nodes)
    {T' T f U : String} (hs : L.isSub T' T = true) (h : fieldTarget L nodes T f = some U) :
    fieldTarget L nodes T' f = some U := by
  obtain ⟨a, ha, S, hpa, hTS⟩ := fieldTarget_some h
  have hT'S := isSub_trans L T' T S (hac T') hs hTS
  cases hf : fieldTarget L nodes T' f with
  | none =>
    have := (fieldTarget_none_iff L nodes T' f).1 hf a ha S U hpa
    rw [hT'S] at this; cases this
  | some U' =>
    obtain ⟨a', ha', S', hpa', hT'S'⟩ := fieldTarget_some hf
    rw [hfu a' ha' a ha f S' U' S U T' hpa' hpa hT'S' hT'S]

theorem typeE_field_some {L : Lang} {nodes : List AssocDecl}
    {self : Expr → String → Except Err (Option (String × Option String))} {f T : String}
    {r : String × Option String} (h : typeE L nodes self (.field f) T = .ok (some r)) :
    fieldTarget L nodes T f = some r.1 ∧ r.2 = none := by
  simp only [typeE] at h
  cases hf : fieldTarget L nodes T f with
  | none => rw [hf] at h; cases h
  | some u => rw [hf] at h; cases h; exact ⟨rfl, rfl⟩

/-- **the static type of a step-free expression is the same from every sub asset of the source type** -/
theorem typeE_rigid (L : Lang) (nodes : List AssocDecl) (hac : Acyclic L)
    (hfu : FieldsUnique L nodes) (hns : NoShadow L)
    (self : Expr → String → Except Err (Option (String × Option String))) (selfFree : Expr → Prop)
    (hself : ∀ d T T' r, selfFree d → L.isSub T' T = true → self d T = .ok (some r) → self d T' = .ok (some r)) :
    ∀ e T T' r, StepFreeE L selfFree e → L.isSub T' T = true →
      typeE L nodes self e T = .ok (some r) → typeE L nodes self e T' = .ok (some r) := by
  intro e
  induction e with
  | step n => intro T T' r hf; cases hf
  | field f =>
    intro T T' r _ hs ht
    obtain ⟨h1, h2⟩ := typeE_field_some ht
    obtain ⟨U, st⟩ := r
    simp only at h1 h2
    subst h2
    simp only [typeE, fieldTarget_sub L nodes hac hfu hs h1, Option.map_some]
  | var v =>
    intro T T' r hf hs ht
    simp only [typeE] at ht ⊢
    cases hd : L.lookupVar T v with
    | none => rw [hd] at ht; cases ht
    | some d =>
      rw [hd] at ht
      rw [hns T' T v d hs hd]
      exact hself d T T' r (hf T d hd) hs ht
  | collect l r' ihl _ =>
    intro T T' r hf hs ht
    simp only [typeE] at ht ⊢
    obtain ⟨ta, hta, ht⟩ := (ebind_ok_iff _ _ _).1 ht
    cases ta with
    | none => cases ht
    | some p =>
      rw [ihl T T' p hf.1 hs hta]
      exact ht
  | union l r' ihl ihr =>
    intro T T' r hf hs ht
    simp only [typeE] at ht ⊢
    obtain ⟨ta, hta, ht⟩ := (ebind_ok_iff _ _ _).1 ht
    obtain ⟨tb, htb, ht⟩ := (ebind_ok_iff _ _ _).1 ht
    cases ta with
    | none => cases ht
    | some pa =>
      cases tb with
      | none => cases ht
      | some pb =>
        rw [ihl T T' pa hf.1 hs hta, ihr T T' pb hf.2 hs htb]
        exact ht
  | inter l r' ihl ihr =>
    intro T T' r hf hs ht
    simp only [typeE] at ht ⊢
    obtain ⟨ta, hta, ht⟩ := (ebind_ok_iff _ _ _).1 ht
    obtain ⟨tb, htb, ht⟩ := (ebind_ok_iff _ _ _).1 ht
    cases ta with
    | none => cases ht
    | some pa =>
      cases tb with
      | none => cases ht
      | some pb =>
        rw [ihl T T' pa hf.1 hs hta, ihr T T' pb hf.2 hs htb]
        exact ht
  | diff l r' ihl ihr =>
    intro T T' r hf hs ht
    simp only [typeE] at ht ⊢
    obtain ⟨ta, hta, ht⟩ := (ebind_ok_iff _ _ _).1 ht
    obtain ⟨tb, htb, ht⟩ := (ebind_ok_iff _ _ _).1 ht
    cases ta with
    | none => cases ht
    | some pa =>
      cases tb with
      | none => cases ht
      | some pb =>
        rw [ihl T T' pa hf.1 hs hta, ihr T T' pb hf.2 hs htb]
        exact ht
  | trans e ih =>
    intro T T' r hf hs ht
    simp only [typeE] at ht ⊢
    exact ih T T' r hf hs ht
  | sub s e ih =>
    intro T T' r hf hs ht
    simp only [typeE] at ht ⊢
    obtain ⟨te, hte, ht⟩ := (ebind_ok_iff _ _ _).1 ht
    cases te with
    | none => cases ht
    | some p =>
      rw [ih T T' p hf hs hte]
      exact ht

theorem typeF_rigid (L : Lang) (nodes : List AssocDecl) (hac : Acyclic L)
    (hfu : FieldsUnique L nodes) (hns : NoShadow L) :
    ∀ k e T T' r, StepFree L k e → L.isSub T' T = true →
      typeF L nodes k e T = .ok (some r) → typeF L nodes k e T' = .ok (some r) := by
  intro k
  induction k with
  | zero => intro e T T' r _ _ ht; simp [typeF] at ht
  | succ k ih =>
    intro e T T' r hf hs ht
    exact typeE_rigid L nodes hac hfu hns (typeF L nodes k) (StepFree L k)
      (fun d T T' r hd hs ht => ih d T T' r hd hs ht) e T T' r hf hs ht

/-! ## monotonicity of the static typing in the source type -/

/-- the operand of every subtype filter is step-free (also inside the definitions of the variables) -/
def SubGuardedE (L : Lang) (selfOK selfFree : Expr → Prop) : Expr → Prop
  | .step _ => True
  | .field _ => True
  | .var v => ∀ t d, L.lookupVar t v = some d → selfOK d
  | .collect l r => SubGuardedE L selfOK selfFree l ∧ SubGuardedE L selfOK selfFree r
  | .union l r => SubGuardedE L selfOK selfFree l ∧ SubGuardedE L selfOK selfFree r
  | .inter l r => SubGuardedE L selfOK selfFree l ∧ SubGuardedE L selfOK selfFree r
  | .diff l r => SubGuardedE L selfOK selfFree l ∧ SubGuardedE L selfOK selfFree r
  | .sub _ e => StepFreeE L selfFree e
  | .trans e => SubGuardedE L selfOK selfFree e

def SubGuarded (L : Lang) : Nat → Expr → Prop
  | 0 => fun _ => True
  | k+1 => SubGuardedE L (SubGuarded L k) (StepFree L k)

theorem provides_target_end {d : AssocDecl} {f S U : String} (h : Provides d f S U) :
    U = d.rightAsset ∨ U = d.leftAsset := by
  rcases h with ⟨_, _, e⟩ | ⟨_, _, e⟩
  · exact Or.inl e.symm
  · exact Or.inr e.symm

/-- **monotonicity of the static typing in the source type**, one layer: for an expression whose
subtype filters have step-free operands, `T' ≤ T` and `e` typed from `T` with target `U` imply that
`e` is typed from `T'`, with the same step name and a target `U' ≤ U` -/
theorem typeE_mono (L : Lang) (nodes : List AssocDecl) (hac : Acyclic L)
    (hfu : FieldsUnique L nodes) (hns : NoShadow L)
    (hends : ∀ d ∈ nodes, (L.findAsset d.leftAsset).isSome = true ∧ (L.findAsset d.rightAsset).isSome = true)
    (self : Expr → String → Except Err (Option (String × Option String)))
    (selfG selfFree : Expr → Prop)
    (hselfR : ∀ d T T' r, selfFree d → L.isSub T' T = true → self d T = .ok (some r) → self d T' = .ok (some r))
    (hselfM : ∀ d T T' U st, selfG d → L.isSub T' T = true → self d T = .ok (some (U, st)) →
      ∃ U', self d T' = .ok (some (U', st)) ∧ L.isSub U' U = true) :
    ∀ e T T' U st, SubGuardedE L selfG selfFree e → L.isSub T' T = true →
      typeE L nodes self e T = .ok (some (U, st)) →
      ∃ U', typeE L nodes self e T' = .ok (some (U', st)) ∧ L.isSub U' U = true := by
  intro e
  induction e with
  | step n =>
    intro T T' U st _ hs ht
    simp only [typeE] at ht ⊢
    cases ht
    exact ⟨T', rfl, hs⟩
  | field f =>
    intro T T' U st _ hs ht
    obtain ⟨h1, h2⟩ := typeE_field_some ht
    simp only at h1 h2
    subst h2
    refine ⟨U, by simp only [typeE, fieldTarget_sub L nodes hac hfu hs h1, Option.map_some], ?_⟩
    obtain ⟨a, ha, S, hpa, _⟩ := fieldTarget_some h1
    apply isSub_refl
    rcases provides_target_end hpa with e | e <;> rw [e]
    · exact (hends a ha).2
    · exact (hends a ha).1
  | var v =>
    intro T T' U st hg hs ht
    simp only [typeE] at ht ⊢
    cases hd : L.lookupVar T v with
    | none => rw [hd] at ht; cases ht
    | some d =>
      rw [hd] at ht
      rw [hns T' T v d hs hd]
      exact hselfM d T T' U st (hg T d hd) hs ht
  | collect l r' ihl ihr =>
    intro T T' U st hg hs ht
    simp only [typeE] at ht ⊢
    obtain ⟨ta, hta, ht⟩ := (ebind_ok_iff _ _ _).1 ht
    cases ta with
    | none => cases ht
    | some p =>
      obtain ⟨u, stl⟩ := p
      obtain ⟨u', hl', hu'⟩ := ihl T T' u stl hg.1 hs hta
      obtain ⟨U', hr', hU'⟩ := ihr u u' U st hg.2 hu' ht
      refine ⟨U', ?_, hU'⟩
      rw [hl']
      exact hr'
  | union l r' ihl ihr =>
    intro T T' U st hg hs ht
    simp only [typeE] at ht ⊢
    obtain ⟨ta, hta, ht⟩ := (ebind_ok_iff _ _ _).1 ht
    obtain ⟨tb, htb, ht⟩ := (ebind_ok_iff _ _ _).1 ht
    cases ta with
    | none => cases ht
    | some pa =>
      cases tb with
      | none => cases ht
      | some pb =>
        obtain ⟨ua, sa⟩ := pa
        obtain ⟨ub, sb⟩ := pb
        obtain ⟨ua', hl', hua'⟩ := ihl T T' ua sa hg.1 hs hta
        obtain ⟨ub', hr', hub'⟩ := ihr T T' ub sb hg.2 hs htb
        simp only at ht
        cases hl : lca L ua ub with
        | none => rw [hl] at ht; cases ht
        | some c =>
          rw [hl] at ht; cases ht
          obtain ⟨c', hc', hcc⟩ := lca_mono L hac hl hua' hub'
          refine ⟨c', ?_, hcc⟩
          rw [hl', hr']
          show Except.ok ((lca L ua' ub').map (fun c => (c, none))) = _
          rw [hc']; rfl
  | inter l r' ihl ihr =>
    intro T T' U st hg hs ht
    simp only [typeE] at ht ⊢
    obtain ⟨ta, hta, ht⟩ := (ebind_ok_iff _ _ _).1 ht
    obtain ⟨tb, htb, ht⟩ := (ebind_ok_iff _ _ _).1 ht
    cases ta with
    | none => cases ht
    | some pa =>
      cases tb with
      | none => cases ht
      | some pb =>
        obtain ⟨ua, sa⟩ := pa
        obtain ⟨ub, sb⟩ := pb
        obtain ⟨ua', hl', hua'⟩ := ihl T T' ua sa hg.1 hs hta
        obtain ⟨ub', hr', hub'⟩ := ihr T T' ub sb hg.2 hs htb
        simp only at ht
        cases hl : lca L ua ub with
        | none => rw [hl] at ht; cases ht
        | some c =>
          rw [hl] at ht; cases ht
          obtain ⟨c', hc', _⟩ := lca_mono L hac hl hua' hub'
          refine ⟨ua', ?_, hua'⟩
          rw [hl', hr']
          show Except.ok (if (lca L ua' ub').isSome then some (ua', none) else none) = _
          rw [hc']; rfl
  | diff l r' ihl ihr =>
    intro T T' U st hg hs ht
    simp only [typeE] at ht ⊢
    obtain ⟨ta, hta, ht⟩ := (ebind_ok_iff _ _ _).1 ht
    obtain ⟨tb, htb, ht⟩ := (ebind_ok_iff _ _ _).1 ht
    cases ta with
    | none => cases ht
    | some pa =>
      cases tb with
      | none => cases ht
      | some pb =>
        obtain ⟨ua, sa⟩ := pa
        obtain ⟨ub, sb⟩ := pb
        obtain ⟨ua', hl', hua'⟩ := ihl T T' ua sa hg.1 hs hta
        obtain ⟨ub', hr', hub'⟩ := ihr T T' ub sb hg.2 hs htb
        simp only at ht
        cases hl : lca L ua ub with
        | none => rw [hl] at ht; cases ht
        | some c =>
          rw [hl] at ht; cases ht
          obtain ⟨c', hc', _⟩ := lca_mono L hac hl hua' hub'
          refine ⟨ua', ?_, hua'⟩
          rw [hl', hr']
          show Except.ok (if (lca L ua' ub').isSome then some (ua', none) else none) = _
          rw [hc']; rfl
  | trans e ih =>
    intro T T' U st hg hs ht
    simp only [typeE] at ht ⊢
    exact ih T T' U st hg hs ht
  | sub s e _ =>
    intro T T' U st hg hs ht
    have ht' := typeE_rigid L nodes hac hfu hns self selfFree hselfR (.sub s e) T T' (U, st) hg hs ht
    refine ⟨U, ht', ?_⟩
    simp only [typeE] at ht
    obtain ⟨te, _, ht⟩ := (ebind_ok_iff _ _ _).1 ht
    cases te with
    | none => cases ht
    | some p =>
      simp only at ht
      split at ht
      · cases ht
      · rename_i hdecl
        split at ht
        · cases ht
          apply isSub_refl
          cases hfs : L.findAsset s with
          | none => rw [hfs] at hdecl; exact absurd rfl hdecl
          | some _ => rfl
        · cases ht

theorem typeF_mono (L : Lang) (nodes : List AssocDecl) (hac : Acyclic L)
    (hfu : FieldsUnique L nodes) (hns : NoShadow L)
    (hends : ∀ d ∈ nodes, (L.findAsset d.leftAsset).isSome = true ∧ (L.findAsset d.rightAsset).isSome = true) :
    ∀ k e T T' U st, SubGuarded L k e → L.isSub T' T = true →
      typeF L nodes k e T = .ok (some (U, st)) →
      ∃ U', typeF L nodes k e T' = .ok (some (U', st)) ∧ L.isSub U' U = true := by
  intro k
  induction k with
  | zero => intro e T T' U st _ _ ht; simp [typeF] at ht
  | succ k ih =>
    intro e T T' U st hg hs ht
    exact typeE_mono L nodes hac hfu hns hends (typeF L nodes k) (SubGuarded L k) (StepFree L k)
      (fun d T T' r hd hs ht => typeF_rigid L nodes hac hfu hns k d T T' r hd hs ht)
      (fun d T T' U st hd hs ht => ih d T T' U st hd hs ht) e T T' U st hg hs ht

/-! ## the side condition on transitive steps: downward closure, reduction to the single test -/

/-- for a step-free expression typed from `T`, the side condition at `T` implies the side condition
at every sub asset of `T` -/
theorem starTypedE_down (L : Lang) (nodes : List AssocDecl) (hac : Acyclic L)
    (hfu : FieldsUnique L nodes) (hns : NoShadow L)
    (self : Expr → String → Except Err (Option (String × Option String)))
    (selfOK : Expr → String → Prop) (selfFree : Expr → Prop)
    (hselfR : ∀ d T T' r, selfFree d → L.isSub T' T = true → self d T = .ok (some r) → self d T' = .ok (some r))
    (hselfD : ∀ d T T' r, selfFree d → L.isSub T' T = true → self d T = .ok (some r) →
      selfOK d T → selfOK d T') :
    ∀ e T T' r, StepFreeE L selfFree e → L.isSub T' T = true →
      typeE L nodes self e T = .ok (some r) →
      StarTypedE L nodes self selfOK e T → StarTypedE L nodes self selfOK e T' := by
  have rigid := typeE_rigid L nodes hac hfu hns self selfFree hselfR
  intro e
  induction e with
  | step n => intro T T' r hf; cases hf
  | field f => intro T T' r _ _ _ _; trivial
  | var v =>
    intro T T' r hf hs ht hwt d' hd'
    simp only [typeE] at ht
    cases hd : L.lookupVar T v with
    | none => rw [hd] at ht; cases ht
    | some d =>
      rw [hd] at ht
      rw [hns T' T v d hs hd] at hd'
      have e : d = d' := Option.some.inj hd'
      subst e
      exact hselfD d T T' r (hf T d hd) hs ht (hwt d hd)
  | collect l r' ihl _ =>
    intro T T' r hf hs ht hwt
    simp only [typeE] at ht
    obtain ⟨ta, hta, ht⟩ := (ebind_ok_iff _ _ _).1 ht
    cases ta with
    | none => cases ht
    | some p =>
      obtain ⟨u, stl⟩ := p
      refine ⟨ihl T T' (u, stl) hf.1 hs hta hwt.1, fun u' st' h' => ?_⟩
      rw [rigid l T T' (u, stl) hf.1 hs hta] at h'
      cases h'
      exact hwt.2 u stl hta
  | union l r' ihl ihr =>
    intro T T' r hf hs ht hwt
    simp only [typeE] at ht
    obtain ⟨ta, hta, ht⟩ := (ebind_ok_iff _ _ _).1 ht
    obtain ⟨tb, htb, ht⟩ := (ebind_ok_iff _ _ _).1 ht
    cases ta with
    | none => cases ht
    | some pa =>
      cases tb with
      | none => cases ht
      | some pb => exact ⟨ihl T T' pa hf.1 hs hta hwt.1, ihr T T' pb hf.2 hs htb hwt.2⟩
  | inter l r' ihl ihr =>
    intro T T' r hf hs ht hwt
    simp only [typeE] at ht
    obtain ⟨ta, hta, ht⟩ := (ebind_ok_iff _ _ _).1 ht
    obtain ⟨tb, htb, ht⟩ := (ebind_ok_iff _ _ _).1 ht
    cases ta with
    | none => cases ht
    | some pa =>
      cases tb with
      | none => cases ht
      | some pb => exact ⟨ihl T T' pa hf.1 hs hta hwt.1, ihr T T' pb hf.2 hs htb hwt.2⟩
  | diff l r' ihl ihr =>
    intro T T' r hf hs ht hwt
    simp only [typeE] at ht
    obtain ⟨ta, hta, ht⟩ := (ebind_ok_iff _ _ _).1 ht
    obtain ⟨tb, htb, ht⟩ := (ebind_ok_iff _ _ _).1 ht
    cases ta with
    | none => cases ht
    | some pa =>
      cases tb with
      | none => cases ht
      | some pb => exact ⟨ihl T T' pa hf.1 hs hta hwt.1, ihr T T' pb hf.2 hs htb hwt.2⟩
  | trans e ih =>
    intro T T' r hf hs ht hwt
    simp only [typeE] at ht
    refine ⟨ih T T' r hf hs ht hwt.1, fun U' st' h' => ?_⟩
    rw [rigid e T T' r hf hs ht] at h'
    cases h'
    exact hwt.2 U' st' ht
  | sub s e ih =>
    intro T T' r hf hs ht hwt
    simp only [typeE] at ht
    obtain ⟨te, hte, ht⟩ := (ebind_ok_iff _ _ _).1 ht
    cases te with
    | none => cases ht
    | some p => exact ih T T' p hf hs hte hwt

theorem starTyped_down (L : Lang) (nodes : List AssocDecl) (hac : Acyclic L)
    (hfu : FieldsUnique L nodes) (hns : NoShadow L) :
    ∀ k e T T' r, StepFree L k e → L.isSub T' T = true → typeF L nodes k e T = .ok (some r) →
      StarTyped L nodes k e T → StarTyped L nodes k e T' := by
  intro k
  induction k with
  | zero => intro e T T' r _ _ _ _; trivial
  | succ k ih =>
    intro e T T' r hf hs ht hwt
    exact starTypedE_down L nodes hac hfu hns (typeF L nodes k) (StarTyped L nodes k) (StepFree L k)
      (fun d T T' r hd hs ht => typeF_rigid L nodes hac hfu hns k d T T' r hd hs ht)
      (fun d T T' r hd hs ht hok => ih d T T' r hd hs ht hok) e T T' r hf hs ht hwt

/-- **the side condition for `e*` at `T` reduces to the single test of the MAL type checker**: `e`
(step-free, itself satisfying the side condition at `T`) leads from `T` to a sub asset of `T` -/
theorem starTyped_trans_of_test (L : Lang) (nodes : List AssocDecl) (hac : Acyclic L)
    (hfu : FieldsUnique L nodes) (hns : NoShadow L) (k : Nat) (e : Expr) (T U : String)
    (st : Option String) (hf : StepFree L k e) (hwt : StarTyped L nodes k e T)
    (ht : typeF L nodes k e T = .ok (some (U, st))) (hs : L.isSub U T = true) :
    StarTyped L nodes k (.trans e) T := by
  cases k with
  | zero => trivial
  | succ k =>
    refine ⟨hwt, fun U' st' h' => ?_⟩
    have ht' : typeE L nodes (typeF L nodes k) e T = .ok (some (U, st)) := ht
    rw [ht'] at h'
    cases h'
    exact ⟨starTyped_down L nodes hac hfu hns (k+1) e T U (U, st) hf hs ht hwt, U, st,
      typeF_rigid L nodes hac hfu hns (k+1) e T U (U, st) hf hs ht,
      isSub_refl L U (isSub_declared_left hs)⟩

/-- the side condition in the form of the MAL type checker: at every transitive step `e*` reached at
the asset type `T`, the operand `e` is step-free and, if typed from `T`, leads to a sub asset of `T` -/
def StarCheckE (L : Lang) (nodes : List AssocDecl)
    (self : Expr → String → Except Err (Option (String × Option String)))
    (selfOK : Expr → String → Prop) (selfFree : Expr → Prop) : Expr → String → Prop
  | .step _, _ => True
  | .field _, _ => True
  | .var v, T => ∀ d, L.lookupVar T v = some d → selfOK d T
  | .collect l r, T => StarCheckE L nodes self selfOK selfFree l T ∧
      ∀ u st, typeE L nodes self l T = .ok (some (u, st)) → StarCheckE L nodes self selfOK selfFree r u
  | .union l r, T => StarCheckE L nodes self selfOK selfFree l T ∧ StarCheckE L nodes self selfOK selfFree r T
  | .inter l r, T => StarCheckE L nodes self selfOK selfFree l T ∧ StarCheckE L nodes self selfOK selfFree r T
  | .diff l r, T => StarCheckE L nodes self selfOK selfFree l T ∧ StarCheckE L nodes self selfOK selfFree r T
  | .sub _ e, T => StarCheckE L nodes self selfOK selfFree e T
  | .trans e, T => StarCheckE L nodes self selfOK selfFree e T ∧ StepFreeE L selfFree e ∧
      ∀ U st, typeE L nodes self e T = .ok (some (U, st)) → L.isSub U T = true

def StarCheck (L : Lang) (nodes : List AssocDecl) : Nat → Expr → String → Prop
  | 0 => fun _ _ => True
  | k+1 => StarCheckE L nodes (typeF L nodes k) (StarCheck L nodes k) (StepFree L k)

theorem starTyped_of_starCheck (L : Lang) (nodes : List AssocDecl) (hac : Acyclic L)
    (hfu : FieldsUnique L nodes) (hns : NoShadow L) :
    ∀ k e T, StarCheck L nodes k e T → StarTyped L nodes k e T := by
  intro k
  induction k with
  | zero => intro e T _; trivial
  | succ k ihk =>
    intro e
    induction e with
    | step n => intro T _; trivial
    | field f => intro T _; trivial
    | var v => intro T h d hd; exact ihk d T (h d hd)
    | collect l r ihl ihr => intro T h; exact ⟨ihl T h.1, fun u st hu => ihr u (h.2 u st hu)⟩
    | union l r ihl ihr => intro T h; exact ⟨ihl T h.1, ihr T h.2⟩
    | inter l r ihl ihr => intro T h; exact ⟨ihl T h.1, ihr T h.2⟩
    | diff l r ihl ihr => intro T h; exact ⟨ihl T h.1, ihr T h.2⟩
    | sub s e ih => intro T h; exact ih T h
    | trans e ih =>
      intro T h
      have hwt : StarTyped L nodes (k+1) e T := ih T h.1
      cases ht : typeF L nodes (k+1) e T with
      | error err =>
        refine ⟨hwt, fun U st h' => ?_⟩
        have ht' : typeE L nodes (typeF L nodes k) e T = .error err := ht
        rw [ht'] at h'; cases h'
      | ok o =>
        cases o with
        | none =>
          refine ⟨hwt, fun U st h' => ?_⟩
          have ht' : typeE L nodes (typeF L nodes k) e T = .ok none := ht
          rw [ht'] at h'; cases h'
        | some p =>
          obtain ⟨U, st⟩ := p
          exact starTyped_trans_of_test L nodes hac hfu hns (k+1) e T U st h.2.1 hwt ht (h.2.2 U st ht)

/-! ## syntactic sufficient checks (expressions without variables) -/

/-- neither attack steps nor variables -/
def noStepNoVar : Expr → Bool
  | .step _ => false
  | .field _ => true
  | .var _ => false
  | .collect l r => noStepNoVar l && noStepNoVar r
  | .union l r => noStepNoVar l && noStepNoVar r
  | .inter l r => noStepNoVar l && noStepNoVar r
  | .diff l r => noStepNoVar l && noStepNoVar r
  | .sub _ e => noStepNoVar e
  | .trans e => noStepNoVar e

theorem stepFreeE_of_noStepNoVar (L : Lang) (selfOK : Expr → Prop) :
    ∀ e, noStepNoVar e = true → StepFreeE L selfOK e := by
  intro e
  induction e with
  | step _ => intro h; cases h
  | field _ => intro _; trivial
  | var _ => intro h; cases h
  | collect l r ihl ihr =>
    intro h; simp only [noStepNoVar, Bool.and_eq_true] at h; exact ⟨ihl h.1, ihr h.2⟩
  | union l r ihl ihr =>
    intro h; simp only [noStepNoVar, Bool.and_eq_true] at h; exact ⟨ihl h.1, ihr h.2⟩
  | inter l r ihl ihr =>
    intro h; simp only [noStepNoVar, Bool.and_eq_true] at h; exact ⟨ihl h.1, ihr h.2⟩
  | diff l r ihl ihr =>
    intro h; simp only [noStepNoVar, Bool.and_eq_true] at h; exact ⟨ihl h.1, ihr h.2⟩
  | sub _ e ih => intro h; exact ih h
  | trans e ih => intro h; exact ih h

theorem stepFree_of_noStepNoVar (L : Lang) (k : Nat) (e : Expr) (h : noStepNoVar e = true) :
    StepFree L k e := by
  cases k with
  | zero => trivial
  | succ k => exact stepFreeE_of_noStepNoVar L _ e h

/-- no variables, and no attack step below a subtype filter -/
def subGuardedNoVar : Expr → Bool
  | .step _ => true
  | .field _ => true
  | .var _ => false
  | .collect l r => subGuardedNoVar l && subGuardedNoVar r
  | .union l r => subGuardedNoVar l && subGuardedNoVar r
  | .inter l r => subGuardedNoVar l && subGuardedNoVar r
  | .diff l r => subGuardedNoVar l && subGuardedNoVar r
  | .sub _ e => noStepNoVar e
  | .trans e => subGuardedNoVar e

theorem subGuardedE_of_check (L : Lang) (selfOK selfFree : Expr → Prop) :
    ∀ e, subGuardedNoVar e = true → SubGuardedE L selfOK selfFree e := by
  intro e
  induction e with
  | step _ => intro _; trivial
  | field _ => intro _; trivial
  | var _ => intro h; cases h
  | collect l r ihl ihr =>
    intro h; simp only [subGuardedNoVar, Bool.and_eq_true] at h; exact ⟨ihl h.1, ihr h.2⟩
  | union l r ihl ihr =>
    intro h; simp only [subGuardedNoVar, Bool.and_eq_true] at h; exact ⟨ihl h.1, ihr h.2⟩
  | inter l r ihl ihr =>
    intro h; simp only [subGuardedNoVar, Bool.and_eq_true] at h; exact ⟨ihl h.1, ihr h.2⟩
  | diff l r ihl ihr =>
    intro h; simp only [subGuardedNoVar, Bool.and_eq_true] at h; exact ⟨ihl h.1, ihr h.2⟩
  | sub _ e _ => intro h; exact stepFreeE_of_noStepNoVar L _ e h
  | trans e ih => intro h; exact ih h

theorem subGuarded_of_check (L : Lang) (k : Nat) (e : Expr) (h : subGuardedNoVar e = true) :
    SubGuarded L k e := by
  cases k with
  | zero => trivial
  | succ k => exact subGuardedE_of_check L _ _ e h

/-! ## demo data for the non-vacuity examples of C15 (second part) -/
namespace Demo

/-- `A extends B extends A`, `C extends A` -/
def cycL : Lang :=
  { assets := [{ name := "A", superAsset := some "B" }, { name := "B", superAsset := some "A" },
               { name := "C", superAsset := some "A" }] }

/-- `Leaf extends Base`; `Base` declares the variable `hs`, `Leaf` declares `own` (no redeclaration) -/
def varL : Lang :=
  { assets := [
      { name := "Base", variables := [("hs", .field "hosts")] },
      { name := "Leaf", superAsset := some "Base", variables := [("own", .collect (.var "hs") (.field "apps"))] },
      { name := "Host" }],
    assocs := [runs] }

/-- … and a variant in which `Leaf` redeclares `hs` -/
def shadowL : Lang :=
  { assets := [
      { name := "Base", variables := [("hs", .field "hosts")] },
      { name := "Leaf", superAsset := some "Base", variables := [("hs", .collect (.field "hosts") (.field "apps"))] },
      { name := "Host" }],
    assocs := [runs] }

/-- one asset type that gets the field `f` twice, with different targets -/
def twoL : Lang :=
  { assets := [{ name := "A" }, { name := "B" }, { name := "C" }],
    assocs := [
      { name := "AB", leftAsset := "A", leftField := "ab", rightAsset := "B", rightField := "f" },
      { name := "AC", leftAsset := "A", leftField := "ac", rightAsset := "C", rightField := "f" }] }

end Demo

end MalVerif.LG
