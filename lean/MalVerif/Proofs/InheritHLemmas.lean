import MalVerif.Proofs.InheritLemmas
/-!
# Lemmas for C03: the fold over one level, locality of `Lang.chain`, and the
simulation of the pure fold by the heap-level resolver
-/
namespace MalVerif

/-! ## one level of the fold -/

theorem dGet_foldl_mergeStep_untouched (steps : List StepDecl) (acc : List (String × StepDecl))
    (k : String) (h : k ∉ steps.map (·.name)) : dGet (steps.foldl mergeStep acc) k = dGet acc k := by
  induction steps generalizing acc with
  | nil => rfl
  | cons s ss ih =>
    simp only [List.map_cons, List.mem_cons, not_or] at h
    rw [List.foldl_cons, ih _ h.2, dGet_mergeStep_other _ _ _ h.1]

theorem dGet_foldl_mergeStep_mem (steps : List StepDecl) (hnd : (steps.map (·.name)).Nodup)
    (acc : List (String × StepDecl)) (s : StepDecl) (hs : s ∈ steps) :
    dGet (steps.foldl mergeStep acc) s.name = some (mergeVal (dGet acc s.name) s) := by
  induction steps generalizing acc with
  | nil => simp at hs
  | cons s0 ss ih =>
    simp only [List.map_cons, List.nodup_cons] at hnd
    rw [List.foldl_cons]
    rcases List.mem_cons.1 hs with h | h
    · subst h
      rw [dGet_foldl_mergeStep_untouched _ _ _ hnd.1, dGet_mergeStep_same]
    · have hne : s.name ≠ s0.name := by
        intro he; apply hnd.1; rw [← he]; exact List.mem_map.2 ⟨s, h, rfl⟩
      rw [ih hnd.2 _ h, dGet_mergeStep_other _ _ _ hne]

theorem dKeys_foldl_mergeStep (steps : List StepDecl) (hnd : (steps.map (·.name)).Nodup)
    (acc : List (String × StepDecl)) :
    dKeys (steps.foldl mergeStep acc) =
      dKeys acc ++ (steps.map (·.name)).filter (fun n => decide (n ∉ dKeys acc)) := by
  induction steps generalizing acc with
  | nil => simp
  | cons s0 ss ih =>
    simp only [List.map_cons, List.nodup_cons] at hnd
    rw [List.foldl_cons, ih hnd.2, dKeys_mergeStep, List.map_cons, List.filter_cons]
    by_cases h : s0.name ∈ dKeys acc
    · simp [h]
    · simp only [h, if_false, not_false_eq_true, decide_true, if_true, List.append_assoc,
        List.cons_append, List.nil_append]
      congr 2
      apply List.filter_congr
      intro x hx
      have : x ≠ s0.name := by intro he; apply hnd.1; rw [← he]; exact hx
      simp [this]

/-! ## the chain depends on the declarations it visits only -/

/-- the chain computed with fuel `k` does not end because the fuel ran out -/
def Lang.chainOK (L : Lang) : Nat → String → Bool
  | 0, _ => false
  | f+1, t => match L.findAsset t with
    | none => true
    | some a => match a.superAsset with
      | some s => L.chainOK f s
      | none => true

/-- the names looked up while computing the chain (the type itself, its
ancestors, and a dangling `extends` target if there is one) -/
def Lang.chainNames (L : Lang) : Nat → String → List String
  | 0, _ => []
  | f+1, t => t :: match L.findAsset t with
    | none => []
    | some a => match a.superAsset with
      | some s => L.chainNames f s
      | none => []

theorem chain_fuel (L : Lang) : ∀ (k : Nat) (t : String), L.chainOK k t = true →
    ∀ k', k ≤ k' → L.chain k' t = L.chain k t ∧ L.chainOK k' t = true := by
  intro k
  induction k with
  | zero => intro t h; simp [Lang.chainOK] at h
  | succ f ih =>
    intro t h k' hk
    obtain ⟨f', rfl⟩ : ∃ f', k' = f' + 1 := ⟨k' - 1, by omega⟩
    have hf : f ≤ f' := by omega
    simp only [Lang.chainOK, Lang.chain] at h ⊢
    cases hfa : L.findAsset t with
    | none => simp
    | some a =>
      simp only [hfa] at h ⊢
      cases hsa : a.superAsset with
      | none => simp
      | some s =>
        simp only [hsa] at h ⊢
        have := ih s h f' hf
        simp [this.1, this.2]

theorem chain_agree (L L' : Lang) : ∀ (k : Nat) (t : String),
    (∀ n ∈ L.chainNames k t, L'.findAsset n = L.findAsset n) →
    L'.chain k t = L.chain k t ∧ L'.chainOK k t = L.chainOK k t ∧
      L'.chainNames k t = L.chainNames k t := by
  intro k
  induction k with
  | zero => intro t _; simp [Lang.chain, Lang.chainOK, Lang.chainNames]
  | succ f ih =>
    intro t h
    simp only [Lang.chainNames, List.mem_cons, forall_eq_or_imp] at h
    simp only [Lang.chain, Lang.chainOK, Lang.chainNames, h.1]
    cases hfa : L.findAsset t with
    | none => simp
    | some a =>
      simp only [hfa] at h ⊢
      cases hsa : a.superAsset with
      | none => simp
      | some s =>
        simp only [hsa] at h ⊢
        have := ih s h.2
        simp [this.1, this.2.1, this.2.2]

theorem findAsset_of_filter_eq (L L' : Lang) (C : List String)
    (h : L'.assets.filter (fun a => decide (a.name ∈ C)) = L.assets.filter (fun a => decide (a.name ∈ C)))
    (n : String) (hn : n ∈ C) : L'.findAsset n = L.findAsset n := by
  have key : ∀ l : List AssetDecl,
      l.find? (fun a => decide (a.name = n)) =
        (l.filter (fun a => decide (a.name ∈ C))).find? (fun a => decide (a.name = n)) := by
    intro l
    induction l with
    | nil => rfl
    | cons a l ih =>
      by_cases ha : a.name = n
      · subst ha
        simp [hn]
      · by_cases hc : a.name ∈ C
        · simp [hc, ha, ih]
        · simp [hc, ha, ih]
  unfold Lang.findAsset
  rw [key L'.assets, key L.assets, h]

/-! ## the store -/

theorem Store.read_congr {σ σ' : Store} {l : Nat} (h : σ'[l]? = σ[l]?) : σ'.read l = σ.read l := by
  unfold Store.read; rw [h]

theorem readStep_congr {σ σ' : Store} {s : StepH}
    (h : ∀ ov l, s.reaches = some (ov, l) → σ'.read l = σ.read l) : readStep σ' s = readStep σ s := by
  unfold readStep
  cases hr : s.reaches with
  | none => rfl
  | some r =>
    have := h r.1 r.2 (by rw [hr])
    simp [this]

/-- the accumulator's list objects: distinct keys, every location allocated
at or after `lo`, inside the store, and not shared between two entries -/
structure AccInv (lo : Nat) (σ : Store) (acc : List (String × StepH)) : Prop where
  nodup : (dKeys acc).Nodup
  bound : ∀ k s ov l, dGet acc k = some s → s.reaches = some (ov, l) → lo ≤ l ∧ l < σ.length
  inj : ∀ k k' s s' ov ov' l, dGet acc k = some s → dGet acc k' = some s' →
    s.reaches = some (ov, l) → s'.reaches = some (ov', l) → k = k'

/-- every list of the specification lives below `base` -/
def LangH.WF (LH : LangH) (base : Nat) : Prop :=
  ∀ a ∈ LH.assets, ∀ s ∈ a.steps, ∀ ov l, s.reaches = some (ov, l) → l < base

theorem accInv_nil (lo : Nat) (σ : Store) : AccInv lo σ [] :=
  ⟨by simp, by intro k s ov l h; simp at h, by intro k k' s s' ov ov' l h; simp at h⟩

theorem AccInv.mono {lo : Nat} {σ σ' : Store} {acc : List (String × StepH)} (h : AccInv lo σ acc)
    (hl : σ.length ≤ σ'.length) : AccInv lo σ' acc :=
  ⟨h.nodup, fun k s ov l h1 h2 => ⟨(h.bound k s ov l h1 h2).1, Nat.lt_of_lt_of_le (h.bound k s ov l h1 h2).2 hl⟩,
   h.inj⟩

theorem readAcc_frame {lo : Nat} {σ σ' : Store} {acc : List (String × StepH)} (hinv : AccInv lo σ acc)
    (hfr : ∀ l, lo ≤ l → l < σ.length → σ'[l]? = σ[l]?) : readAcc σ' acc = readAcc σ acc := by
  unfold readAcc
  apply List.map_congr_left
  intro e he
  have hg : dGet acc e.1 = some e.2 := dGet_of_mem hinv.nodup he
  rw [readStep_congr]
  intro ov l hr
  have := hinv.bound _ _ _ _ hg hr
  exact Store.read_congr (hfr l this.1 this.2)

theorem map_dSet {α β : Type} (f : α → β) (d : List (String × α)) (k : String) (v : α) :
    (dSet d k v).map (fun e => (e.1, f e.2)) = dSet (d.map (fun e => (e.1, f e.2))) k (f v) := by
  unfold dSet
  have : (d.map (fun e => (e.1, f e.2))).any (·.1 = k) = d.any (·.1 = k) := by
    simp [List.any_map, Function.comp_def]
  rw [this]
  by_cases h : d.any (·.1 = k) = true
  · rw [if_pos h, if_pos h, List.map_map, List.map_map]
    apply List.map_congr_left
    intro e _
    by_cases he : e.1 = k <;> simp [he]
  · rw [if_neg h, if_neg h]; simp

theorem readAcc_dSet (σ : Store) (acc : List (String × StepH)) (k : String) (c : StepH) :
    readAcc σ (dSet acc k c) = dSet (readAcc σ acc) k (readStep σ c) := map_dSet _ _ _ _

theorem dGet_readAcc (σ : Store) (acc : List (String × StepH)) (k : String) :
    dGet (readAcc σ acc) k = (dGet acc k).map (readStep σ) := dGet_mapVal _ _ _

/-- assignment of a step dictionary whose list object is fresh -/
theorem assign_sim {lo : Nat} {σ σ' : Store} {acc : List (String × StepH)} (hinv : AccInv lo σ acc)
    (hlo : lo ≤ σ.length) (hlen : σ.length ≤ σ'.length) (hfr : ∀ l < σ.length, σ'[l]? = σ[l]?)
    (k : String) (c : StepH) (hc : ∀ ov l, c.reaches = some (ov, l) → σ.length ≤ l ∧ l < σ'.length) :
    AccInv lo σ' (dSet acc k c) ∧
      readAcc σ' (dSet acc k c) = dSet (readAcc σ acc) k (readStep σ' c) := by
  refine ⟨⟨dKeys_nodup_dSet hinv.nodup k c, ?_, ?_⟩, ?_⟩
  · intro k1 s ov l hg hr
    by_cases hk : k1 = k
    · subst hk
      rw [dGet_dSet_same] at hg; cases hg
      have := hc ov l hr
      exact ⟨Nat.le_trans hlo this.1, this.2⟩
    · rw [dGet_dSet_other _ _ _ _ hk] at hg
      have := hinv.bound _ _ _ _ hg hr
      exact ⟨this.1, Nat.lt_of_lt_of_le this.2 hlen⟩
  · intro k1 k2 s s' ov ov' l hg hg' hr hr'
    by_cases hk1 : k1 = k <;> by_cases hk2 : k2 = k
    · rw [hk1, hk2]
    · subst hk1
      rw [dGet_dSet_same] at hg; cases hg
      rw [dGet_dSet_other _ _ _ _ hk2] at hg'
      have h1 := hc ov l hr
      have h2 := hinv.bound _ _ _ _ hg' hr'
      omega
    · subst hk2
      rw [dGet_dSet_same] at hg'; cases hg'
      rw [dGet_dSet_other _ _ _ _ hk1] at hg
      have h1 := hc ov' l hr'
      have h2 := hinv.bound _ _ _ _ hg hr
      omega
    · rw [dGet_dSet_other _ _ _ _ hk1] at hg
      rw [dGet_dSet_other _ _ _ _ hk2] at hg'
      exact hinv.inj _ _ _ _ _ _ _ hg hg' hr hr'
  · rw [readAcc_dSet, readAcc_frame hinv (fun l _ hl => hfr l hl)]

theorem deepcopyStep_spec (σ : Store) (s : StepH) :
    σ.length ≤ (deepcopyStep σ s).1.length ∧
    (∀ l < σ.length, (deepcopyStep σ s).1[l]? = σ[l]?) ∧
    readStep (deepcopyStep σ s).1 (deepcopyStep σ s).2 = readStep σ s ∧
    (∀ ov l, (deepcopyStep σ s).2.reaches = some (ov, l) →
      σ.length ≤ l ∧ l < (deepcopyStep σ s).1.length) := by
  unfold deepcopyStep
  cases hr : s.reaches with
  | none => simp [hr]
  | some r =>
    obtain ⟨ov, l⟩ := r
    simp only [Store.alloc]
    refine ⟨by simp, ?_, ?_, ?_⟩
    · intro l' hl'; exact List.getElem?_append_left hl'
    · simp [readStep, hr, Store.read]
    · intro ov' l' h
      simp at h
      simp [← h.2]

/-- the four-part statement of one simulated step -/
def StepSim (lo : Nat) (σ : Store) (r : Store × List (String × StepH))
    (pure : List (String × StepDecl)) : Prop :=
  AccInv lo r.1 r.2 ∧ σ.length ≤ r.1.length ∧ (∀ l < lo, r.1[l]? = σ[l]?) ∧ readAcc r.1 r.2 = pure

theorem mergeStepH_sim {base lo : Nat} {σ : Store} {acc : List (String × StepH)} (s : StepH)
    (hinv : AccInv lo σ acc) (hs : ∀ ov l, s.reaches = some (ov, l) → l < base)
    (_hb : base ≤ lo) (hlo : lo ≤ σ.length) :
    StepSim lo σ (mergeStepHG true (σ, acc) s) (mergeStep (readAcc σ acc) (readStep σ s)) := by
  have hname : (readStep σ s).name = s.name := rfl
  -- the two branches that store a deep copy
  have hcopy : StepSim lo σ ((deepcopyStep σ s).1, dSet acc s.name (deepcopyStep σ s).2)
      (dSet (readAcc σ acc) s.name (readStep σ s)) := by
    obtain ⟨h1, h2, h3, h4⟩ := deepcopyStep_spec σ s
    have := assign_sim hinv hlo h1 h2 s.name _ h4
    refine ⟨this.1, h1, fun l hl => h2 l (Nat.lt_of_lt_of_le hl hlo), ?_⟩
    rw [this.2, h3]
  unfold mergeStepHG mergeStep
  rw [dictGet_eq_dGet, hname, dGet_readAcc]
  cases hg : dGet acc s.name with
  | none => exact hcopy
  | some inh =>
    simp only [Option.map_some, dictSet_eq_dSet]
    cases hr : s.reaches with
    | none =>
      have : (readStep σ s).reaches = none := by simp [readStep, hr]
      simp only [this]
      exact ⟨hinv, Nat.le_refl _, fun _ _ => rfl, rfl⟩
    | some r =>
      obtain ⟨ov, l⟩ := r
      have hrs : (readStep σ s).reaches = some { overrides := ov, exprs := σ.read l } := by
        simp [readStep, hr]
      simp only [hrs]
      cases ov with
      | true =>
        simp only [if_true]
        exact hcopy
      | false =>
        simp only [Bool.false_eq_true, if_false]
        cases hir : inh.reaches with
        | none =>
          have hirs : (readStep σ inh).reaches = none := by simp [readStep, hir]
          simp only [hirs, List.nil_append, Store.alloc, if_true]
          have hfr : ∀ l' < σ.length, (σ ++ [σ.read l])[l']? = σ[l']? :=
            fun l' hl' => List.getElem?_append_left hl'
          have := assign_sim hinv hlo (σ' := σ ++ [σ.read l]) (by simp) hfr s.name
            { inh with reaches := some (false, σ.length) }
            (by intro ov' l' h; simp at h; simp [← h.2])
          refine ⟨this.1, by simp, fun l' hl' => hfr l' (Nat.lt_of_lt_of_le hl' hlo), ?_⟩
          rw [this.2]
          congr 1
          simp [readStep, Store.read]
        | some ir =>
          obtain ⟨iov, il⟩ := ir
          have hirs : (readStep σ inh).reaches = some { overrides := iov, exprs := σ.read il } := by
            simp [readStep, hir]
          simp only [hirs]
          have hil := hinv.bound _ _ _ _ hg hir
          have hl := hs _ _ hr
          have hlen : (σ.set il (σ.read il ++ σ.read l)).length = σ.length := List.length_set ..
          have hfr : ∀ l', l' ≠ il → (σ.set il (σ.read il ++ σ.read l))[l']? = σ[l']? := by
            intro l' hne
            exact List.getElem?_set_ne (fun h => hne h.symm)
          refine ⟨⟨hinv.nodup, ?_, hinv.inj⟩, by rw [hlen]; exact Nat.le_refl _,
            fun l' hl' => hfr l' (by omega), ?_⟩
          · intro k s' ov' l' h1 h2
            rw [hlen]; exact hinv.bound _ _ _ _ h1 h2
          · -- the in-place extension is seen through the one entry holding `il`
            have hkeys : dKeys (readAcc (σ.set il (σ.read il ++ σ.read l)) acc) = dKeys acc :=
              dKeys_mapVal _ _
            apply dict_ext
            · rw [hkeys, dKeys_dSet, readAcc, dKeys_mapVal, if_pos (mem_keys_of_dGet hg)]
            · rw [hkeys]; exact hinv.nodup
            · intro k _
              rw [dGet_readAcc]
              by_cases hk : k = s.name
              · subst hk
                rw [dGet_dSet_same, hg]
                simp only [Option.map_some, Option.some.injEq]
                simp [readStep, hir, Store.read, hil.2]
              · rw [dGet_dSet_other _ _ _ _ hk, dGet_readAcc]
                cases hg' : dGet acc k with
                | none => rfl
                | some s' =>
                  simp only [Option.map_some, Option.some.injEq]
                  apply readStep_congr
                  intro ov' l' hr'
                  apply Store.read_congr
                  apply hfr
                  intro he
                  subst he
                  exact hk (hinv.inj _ _ _ _ _ _ _ hg' hg hr' hir)

theorem foldl_mergeStepH_sim {base lo : Nat} (steps : List StepH)
    (hs : ∀ s ∈ steps, ∀ ov l, s.reaches = some (ov, l) → l < base) (hb : base ≤ lo) :
    ∀ {σ : Store} {acc : List (String × StepH)}, AccInv lo σ acc → lo ≤ σ.length →
    StepSim lo σ (steps.foldl (mergeStepHG true) (σ, acc))
      ((steps.map (readStep σ)).foldl mergeStep (readAcc σ acc)) := by
  induction steps with
  | nil => intro σ acc hinv _; exact ⟨hinv, Nat.le_refl _, fun _ _ => rfl, rfl⟩
  | cons s ss ih =>
    intro σ acc hinv hlo
    have h1 := mergeStepH_sim s hinv (hs s (by simp)) hb hlo
    obtain ⟨i1, l1, f1, v1⟩ := h1
    have h2 := ih (fun s' hs' => hs s' (List.mem_cons_of_mem _ hs')) i1 (Nat.le_trans hlo l1)
    obtain ⟨i2, l2, f2, v2⟩ := h2
    rw [List.foldl_cons, List.map_cons, List.foldl_cons]
    refine ⟨i2, Nat.le_trans l1 l2, fun l hl => (f2 l hl).trans (f1 l hl), ?_⟩
    rw [v2, v1]
    congr 1
    apply List.map_congr_left
    intro s' hs'
    apply readStep_congr
    intro ov l hr
    have := hs s' (List.mem_cons_of_mem _ hs') ov l hr
    exact Store.read_congr (f1 l (by omega))

theorem foldl_mergeStepH_sim_pair {base lo : Nat} (steps : List StepH)
    (hs : ∀ s ∈ steps, ∀ ov l, s.reaches = some (ov, l) → l < base) (hb : base ≤ lo)
    (st : Store × List (String × StepH)) (hinv : AccInv lo st.1 st.2) (hlo : lo ≤ st.1.length) :
    StepSim lo st.1 (steps.foldl (mergeStepHG true) st)
      ((steps.map (readStep st.1)).foldl mergeStep (readAcc st.1 st.2)) :=
  foldl_mergeStepH_sim steps hs hb hinv hlo

theorem readLang_findAsset (σ : Store) (LH : LangH) (t : String) :
    (readLang σ LH).findAsset t = (LH.findAsset t).map (readAsset σ) := by
  unfold Lang.findAsset LangH.findAsset readLang
  simp only [List.find?_map]
  rfl

theorem LangH.WF.of_find {LH : LangH} {base : Nat} (h : LH.WF base) {t : String} {a : AssetH}
    (ha : LH.findAsset t = some a) : ∀ s ∈ a.steps, ∀ ov l, s.reaches = some (ov, l) → l < base :=
  h a (List.mem_of_find?_eq_some ha)

theorem resolveHG_sim (LH : LangH) (base : Nat) (hwf : LH.WF base) :
    ∀ (fuel : Nat) (σ : Store) (t : String), base ≤ σ.length →
    StepSim σ.length σ (resolveHG true LH fuel σ t)
      (foldAssets ((readLang σ LH).chain fuel t).reverse []) := by
  intro fuel
  induction fuel with
  | zero =>
    intro σ t _
    exact ⟨accInv_nil _ _, Nat.le_refl _, fun _ _ => rfl, rfl⟩
  | succ f ih =>
    intro σ t hb
    simp only [resolveHG, Lang.chain, readLang_findAsset]
    cases hfa : LH.findAsset t with
    | none => exact ⟨accInv_nil _ _, Nat.le_refl _, fun _ _ => rfl, rfl⟩
    | some a =>
      simp only [Option.map_some]
      have hup : StepSim σ.length σ
          (match a.superAsset with
            | some s => resolveHG true LH f σ s
            | none => (σ, []))
          (foldAssets (match (readAsset σ a).superAsset with
            | some s => (readLang σ LH).chain f s
            | none => []).reverse []) := by
        have : (readAsset σ a).superAsset = a.superAsset := rfl
        rw [this]
        cases a.superAsset with
        | none => exact ⟨accInv_nil _ _, Nat.le_refl _, fun _ _ => rfl, rfl⟩
        | some s => exact ih σ s hb
      obtain ⟨i1, l1, f1, v1⟩ := hup
      have h2 := foldl_mergeStepH_sim_pair a.steps (hwf.of_find hfa) hb _ i1 l1
      obtain ⟨i2, l2, f2, v2⟩ := h2
      refine ⟨i2, Nat.le_trans l1 l2, fun l hl => (f2 l hl).trans (f1 l hl), v2.trans ?_⟩
      rw [v1, List.reverse_cons]
      unfold foldAssets
      rw [List.foldl_append]
      simp only [List.foldl_cons, List.foldl_nil]
      congr 1
      show _ = List.map (readStep σ) a.steps
      apply List.map_congr_left
      intro s' hs'
      apply readStep_congr
      intro ov l hr
      have := hwf.of_find hfa s' hs' ov l hr
      exact Store.read_congr (f1 l (by omega))

theorem readLang_frame {LH : LangH} {base : Nat} (hwf : LH.WF base) {σ σ' : Store}
    (hfr : ∀ l < base, σ'[l]? = σ[l]?) : readLang σ' LH = readLang σ LH := by
  unfold readLang
  congr 1
  apply List.map_congr_left
  intro a ha
  unfold readAsset
  congr 1
  apply List.map_congr_left
  intro s hs
  apply readStep_congr
  intro ov l hr
  exact Store.read_congr (hfr l (hwf a ha s hs ov l hr))

/-! ## loading -/

theorem loadSteps_spec : ∀ (ss : List StepDecl) (σ : Store),
    σ.length ≤ (loadSteps σ ss).1.length ∧
    (∀ l < σ.length, (loadSteps σ ss).1[l]? = σ[l]?) ∧
    (∀ s ∈ (loadSteps σ ss).2, ∀ ov l, s.reaches = some (ov, l) → l < (loadSteps σ ss).1.length) ∧
    (∀ σ' : Store, (∀ l < (loadSteps σ ss).1.length, σ'[l]? = (loadSteps σ ss).1[l]?) →
      (loadSteps σ ss).2.map (readStep σ') = ss) := by
  intro ss
  induction ss with
  | nil => intro σ; simp [loadSteps]
  | cons s ss ih =>
    intro σ
    simp only [loadSteps]
    cases hr : s.reaches with
    | none =>
      simp only
      obtain ⟨h1, h2, h3, h4⟩ := ih σ
      refine ⟨h1, h2, ?_, ?_⟩
      · intro s' hs'
        rcases List.mem_cons.1 hs' with h | h
        · subst h; intro ov l hh; simp at hh
        · exact h3 s' h
      · intro σ' hσ'
        rw [List.map_cons, h4 σ' hσ']
        congr 1
        cases s; simp_all [readStep]
    | some r =>
      simp only [Store.alloc]
      obtain ⟨h1, h2, h3, h4⟩ := ih (σ ++ [r.exprs])
      simp only [List.length_append, List.length_cons, List.length_nil] at h1 h2
      refine ⟨by omega, ?_, ?_, ?_⟩
      · intro l hl
        rw [h2 l (by omega)]; exact List.getElem?_append_left hl
      · intro s' hs'
        rcases List.mem_cons.1 hs' with h | h
        · subst h; intro ov l hh
          simp at hh; omega
        · exact h3 s' h
      · intro σ' hσ'
        rw [List.map_cons, h4 σ' hσ']
        congr 1
        have : σ'[σ.length]? = some r.exprs := by
          rw [hσ' σ.length (by omega), h2 σ.length (by omega)]
          simp
        cases s; cases r
        simp_all [readStep, Store.read]

theorem loadAssets_spec : ∀ (as : List AssetDecl) (σ : Store),
    σ.length ≤ (loadAssets σ as).1.length ∧
    (∀ l < σ.length, (loadAssets σ as).1[l]? = σ[l]?) ∧
    (∀ a ∈ (loadAssets σ as).2, ∀ s ∈ a.steps, ∀ ov l, s.reaches = some (ov, l) →
      l < (loadAssets σ as).1.length) ∧
    (∀ σ' : Store, (∀ l < (loadAssets σ as).1.length, σ'[l]? = (loadAssets σ as).1[l]?) →
      (loadAssets σ as).2.map (readAsset σ') = as) := by
  intro as
  induction as with
  | nil => intro σ; simp [loadAssets]
  | cons a as ih =>
    intro σ
    simp only [loadAssets]
    obtain ⟨s1, s2, s3, s4⟩ := loadSteps_spec a.steps σ
    obtain ⟨h1, h2, h3, h4⟩ := ih (loadSteps σ a.steps).1
    refine ⟨Nat.le_trans s1 h1, ?_, ?_, ?_⟩
    · intro l hl
      rw [h2 l (by omega), s2 l hl]
    · intro a' ha'
      rcases List.mem_cons.1 ha' with h | h
      · subst h
        intro s hs ov l hr
        exact Nat.lt_of_lt_of_le (s3 s hs ov l hr) h1
      · exact h3 a' h
    · intro σ' hσ'
      rw [List.map_cons, h4 σ' hσ']
      congr 1
      have := s4 σ' (fun l hl => by rw [hσ' l (by omega), h2 l hl])
      cases a
      simp_all [readAsset]

end MalVerif
