import MalVerif.Proofs.Fix
/-!
# The outer loops compute the greatest fixed point (helper lemmas for C08)
-/
namespace MalVerif.Apriori
open Kind

/-- the full equation system of the property: status nodes carry their own
constant, the others follow `F` -/
def Sys (g : G) (const : Nat → Bool) (v : Lab) (x : Nat) : Bool :=
  if g.kind x = constK then const x else F g v x

theorem cons_top (g : G) (x : Nat) : Cons g top x := by
  unfold Cons
  cases hk : g.kind x with
  | constK => exact Or.inl rfl
  | anyK =>
    right; unfold F; simp only [hk]
    by_cases h : g.parents x = []
    · simp [h, top]
    · simp only [h, if_false]
      cases hp : g.parents x with
      | nil => exact absurd hp h
      | cons a t => simp [top, eff]
  | allK =>
    right; unfold F; simp only [hk]
    simp [top, eff]

theorem inv1_top (g : G) : Inv1 g top := by
  intro x _ hx; simp [top] at hx

theorem cnt_le_length (ns : List Nat) (v : Lab) : cnt ns v ≤ ns.length := by
  unfold cnt; exact List.length_filter_le _ _

/-- `x` is excused from its equation for the moment: it has an ungated status parent `p` whose label is `false`
and which the outer loop has still to visit (it will then propagate from `p` and recompute `x`).  On a freshly
generated graph nobody is ever excused; after the reset loop of a repeated analysis the children of status
nodes that kept a `false` label are. -/
def Excused (g : G) (rest : List Nat) (v : Lab) (x : Nat) : Prop :=
  ∃ p, p ∈ g.parents x ∧ g.gate p = false ∧ g.kind p = constK ∧ v p = false ∧ p ∈ rest

/-- the invariant of the outer loop; `rest` = the nodes still to be visited -/
structure OInv (g : G) (const : Nat → Bool) (rest : List Nat) (v : Lab) : Prop where
  inv1 : Inv1 g v
  cons : ∀ x, Cons g v x ∨ Excused g rest v x
  bound : ∀ w, PostFix g w → (∀ x, g.kind x = constK → w x = true → const x = true) → le w v
  cst : ∀ x, g.kind x = constK → v x = true ∨ v x = const x

theorem OInv.mono {g : G} {const : Nat → Bool} {rest rest' : List Nat} {v : Lab}
    (h : OInv g const rest v) (hsub : ∀ x, x ∈ rest → x ∈ rest') : OInv g const rest' v :=
  ⟨h.inv1, fun x => (h.cons x).imp id (fun ⟨p, a, b, c, d, e⟩ => ⟨p, a, b, c, d, hsub p e⟩), h.bound, h.cst⟩

theorem OInv.cons_nil {g : G} {const : Nat → Bool} {v : Lab} (h : OInv g const [] v) (x : Nat) : Cons g v x := by
  rcases h.cons x with h | ⟨p, _, _, _, _, hp⟩
  · exact h
  · simp at hp

theorem oinv_top (g : G) (const : Nat → Bool) (rest : List Nat) : OInv g const rest top :=
  ⟨inv1_top g, fun x => Or.inl (cons_top g x), fun _ _ _ _ _ => rfl, fun _ _ => Or.inl rfl⟩

/-- one iteration of the outer loop -/
def ostep (g : G) (const : Nat → Bool) (fuel : Nat) (v : Lab) (n : Nat) : Lab :=
  if g.kind n = .constK then
    let v1 := upd v n (const n)
    if v1 n then v1 else prop g fuel v1 n
  else v

theorem calcLab_eq (g : G) (const : Nat → Bool) (fuel : Nat) (order : List Nat) (v0 : Lab) :
    calcLab g const fuel order v0 = order.foldl (ostep g const fuel) v0 := rfl

theorem le_upd_const {v : Lab} {n : Nat} {b : Bool} (h : v n = true ∨ v n = b) : le (upd v n b) v := by
  intro x hx
  by_cases hxn : x = n
  · subst hxn; rw [upd_same] at hx
    rcases h with h | h
    · exact h
    · rw [h]; exact hx
  · rwa [upd_other _ _ _ _ hxn] at hx

theorem ostep_inv (g : G) (hC : Conv g) (ns : List Nat) (hcl : ∀ p c, c ∈ g.children p → c ∈ ns)
    (const : Nat → Bool) (v : Lab) (n : Nat) (rest : List Nat) (h : OInv g const (n :: rest) v) :
    OInv g const rest (ostep g const (ns.length + 1) v n) ∧
    (g.kind n = constK → ostep g const (ns.length + 1) v n n = const n) ∧
    (∀ x, g.kind x = constK → v x = const x → ostep g const (ns.length + 1) v n x = const x) := by
  unfold ostep
  by_cases hk : g.kind n = constK
  · rw [if_pos hk]; simp only [upd_same]
    have hle : le (upd v n (const n)) v := le_upd_const (h.cst n hk)
    have hI1 : Inv1 g (upd v n (const n)) := by
      intro x hkx hx p hp
      have hxn : x ≠ n := by intro e; subst e; rw [hk] at hkx; exact Kind.noConfusion hkx
      rw [upd_other _ _ _ _ hxn] at hx
      exact eff_false_of_le hle (h.inv1 x hkx hx p hp)
    have hbound1 : ∀ w, PostFix g w → (∀ x, g.kind x = constK → w x = true → const x = true) →
        le w (upd v n (const n)) := by
      intro w hpf hc x hx
      by_cases hxn : x = n
      · subst hxn; rw [upd_same]; exact hc x hk hx
      · rw [upd_other _ _ _ _ hxn]; exact h.bound w hpf hc x hx
    have hcst1 : ∀ x, g.kind x = constK → upd v n (const n) x = true ∨ upd v n (const n) x = const x := by
      intro x hkx
      by_cases hxn : x = n
      · subst hxn; right; exact upd_same _ _ _
      · rw [upd_other _ _ _ _ hxn]; exact h.cst x hkx
    have hkeep1 : ∀ x, g.kind x = constK → v x = const x → upd v n (const n) x = const x := by
      intro x _ hv
      by_cases hxn : x = n
      · subst hxn; exact upd_same _ _ _
      · rw [upd_other _ _ _ _ hxn]; exact hv
    cases hcn : const n with
    | true =>
      have hvn : upd v n true n = true := upd_same _ _ _
      simp only [if_true]
      have hvt : v n = true := by
        rcases h.cst n hk with h1 | h1
        · exact h1
        · rw [hcn] at h1; exact h1
      have heq : upd v n true = v := by rw [← hvt]; exact upd_self v n
      rw [heq]
      refine ⟨⟨h.inv1, ?_, h.bound, h.cst⟩, fun _ => hvt, fun x _ hv => hv⟩
      intro x
      rcases h.cons x with hc | ⟨p, hp, hgp, hkp, hvp, hmem⟩
      · exact Or.inl hc
      · right
        refine ⟨p, hp, hgp, hkp, hvp, ?_⟩
        rcases List.mem_cons.1 hmem with e | e
        · subst e; rw [hvt] at hvp; exact Bool.noConfusion hvp
        · exact e
    | false =>
      have hvn : upd v n false n = false := upd_same _ _ _
      simp only [Bool.false_eq_true, if_false]
      rw [hcn] at hle hI1 hbound1 hcst1 hkeep1
      have hcnt : cnt ns (upd v n false) < ns.length + 1 := Nat.lt_succ_of_le (cnt_le_length _ _)
      have hm := (main g hC ns hcl (ns.length + 1)).1 (upd v n false) n hI1 hcnt (Or.inr hvn)
      have hcons : ∀ x, Cons g (prop g (ns.length + 1) (upd v n false) n) x ∨
          Excused g rest (prop g (ns.length + 1) (upd v n false) n) x := by
        intro x
        rcases h.cons x with hc | ⟨p, hp, hgp, hkp, hvp, hmem⟩
        · left
          apply hm.2
          by_cases hxn : x = n
          · subst hxn; exact Or.inl (Or.inl hk)
          · by_cases hgate : g.gate n = true
            · exact Or.inl (cons_upd_other n x _ hxn hc (Or.inl hgate))
            · by_cases hpar : n ∈ g.parents x
              · exact Or.inr ⟨by simpa using hgate, (hC x n).2 hpar⟩
              · exact Or.inl (cons_upd_other n x _ hxn hc (Or.inr hpar))
        · by_cases hpn : p = n
          · subst hpn
            left
            exact hm.2 x (Or.inr ⟨hgp, (hC x p).2 hp⟩)
          · right
            refine ⟨p, hp, hgp, hkp, ?_, ?_⟩
            · rw [hm.1.const p hkp, upd_other _ _ _ _ hpn]; exact hvp
            · rcases List.mem_cons.1 hmem with e | e
              · exact absurd e hpn
              · exact e
      refine ⟨⟨hm.1.inv, hcons, ?_, ?_⟩, ?_, ?_⟩
      · intro w hpf hc
        exact hm.1.gfp w (hbound1 w hpf hc) hpf
      · intro x hkx; rw [hm.1.const x hkx]; exact hcst1 x hkx
      · intro _; rw [hm.1.const n hk, hvn]
      · intro x hkx hv; rw [hm.1.const x hkx]; exact hkeep1 x hkx hv
  · rw [if_neg hk]
    refine ⟨⟨h.inv1, ?_, h.bound, h.cst⟩, fun hk' => absurd hk' hk, fun _ _ hv => hv⟩
    intro x
    rcases h.cons x with hc | ⟨p, hp, hgp, hkp, hvp, hmem⟩
    · exact Or.inl hc
    · right
      refine ⟨p, hp, hgp, hkp, hvp, ?_⟩
      rcases List.mem_cons.1 hmem with e | e
      · subst e; exact absurd hkp hk
      · exact e

theorem fold_inv (g : G) (hC : Conv g) (ns : List Nat) (hcl : ∀ p c, c ∈ g.children p → c ∈ ns)
    (const : Nat → Bool) (order : List Nat) (v : Lab) (h : OInv g const order v) :
    OInv g const [] (order.foldl (ostep g const (ns.length + 1)) v) ∧
    (∀ x, g.kind x = constK → (x ∈ order ∨ v x = const x) →
      order.foldl (ostep g const (ns.length + 1)) v x = const x) := by
  induction order generalizing v with
  | nil =>
    refine ⟨h, ?_⟩
    intro x _ hx
    rcases hx with hx | hx
    · simp at hx
    · exact hx
  | cons n rest ih =>
    simp only [List.foldl_cons]
    have hs := ostep_inv g hC ns hcl const v n rest h
    have hr := ih _ hs.1
    refine ⟨hr.1, ?_⟩
    intro x hkx hx
    apply hr.2 x hkx
    rcases hx with hx | hx
    · rcases List.mem_cons.1 hx with h0 | h0
      · subst h0; exact Or.inr (hs.2.1 hkx)
      · exact Or.inl h0
    · exact Or.inr (hs.2.2 x hkx hx)

/-- **Resumed runs of the second loop.**  Start the evaluation / propagation loop from any labelling satisfying
the outer invariant — in particular the one an earlier, possibly aborted, run left behind, or the one the reset
loop produces (`oinv_reset`): the result is the greatest fixed point. -/
theorem calc_gfp_from (g : G) (hC : Conv g) (ns : List Nat) (hcl : ∀ p c, c ∈ g.children p → c ∈ ns)
    (const : Nat → Bool) (order : List Nat) (v0 : Lab) (h0 : OInv g const order v0)
    (hall : ∀ x, g.kind x = constK → x ∈ order ∨ const x = true) :
    let v := calcLab g const (ns.length + 1) order v0
    (∀ x, v x = Sys g const v x) ∧
    (∀ w : Lab, (∀ x, w x = true → Sys g const w x = true) → le w v) := by
  intro v
  have hf := fold_inv g hC ns hcl const order v0 h0
  have hv : v = order.foldl (ostep g const (ns.length + 1)) v0 := calcLab_eq g const _ order v0
  rw [← hv] at hf
  constructor
  · intro x
    unfold Sys
    by_cases hk : g.kind x = constK
    · simp only [hk, if_true]
      apply hf.2 x hk
      rcases hall x hk with h | h
      · exact Or.inl h
      · right
        rcases h0.cst x hk with h1 | h1
        · rw [h1, h]
        · exact h1
    · simp only [hk, if_false]
      rcases hf.1.cons_nil x with h | h
      · exact absurd h hk
      · exact h
  · intro w hw
    apply hf.1.bound w
    · intro x hk hx
      have := hw x hx
      unfold Sys at this; simpa [hk] using this
    · intro x hk hx
      have := hw x hx
      unfold Sys at this; simpa [hk] using this

/-- **The second loop computes the greatest fixed point** of the equation system when started on default
labels, for every visiting order that reaches every status node whose constant is `false` (in particular for
every permutation of the node list). -/
theorem calc_gfp (g : G) (hC : Conv g) (ns : List Nat) (hcl : ∀ p c, c ∈ g.children p → c ∈ ns)
    (const : Nat → Bool) (order : List Nat)
    (hall : ∀ x, g.kind x = constK → x ∈ order ∨ const x = true) :
    let v := calcLab g const (ns.length + 1) order top
    (∀ x, v x = Sys g const v x) ∧
    (∀ w : Lab, (∀ x, w x = true → Sys g const w x = true) → le w v) :=
  calc_gfp_from g hC ns hcl const order top (oinv_top g const order) hall

/-- the labelling a (complete or aborted) run of the second loop leaves behind satisfies the outer invariant -/
theorem oinv_calcLab (g : G) (hC : Conv g) (ns : List Nat) (hcl : ∀ p c, c ∈ g.children p → c ∈ ns)
    (const : Nat → Bool) (pre rest : List Nat) : OInv g const rest (calcLab g const (ns.length + 1) pre top) := by
  rw [calcLab_eq]
  exact (fold_inv g hC ns hcl const pre top (oinv_top g const pre)).1.mono (fun _ h => by simp at h)

/-! ### the reset loop and the analysis started from arbitrary labels -/

theorem resetLab_spec (order : List Nat) (v0 : Lab) (x : Nat) :
    resetLab order v0 x = if x ∈ order then true else v0 x := by
  unfold resetLab
  induction order generalizing v0 with
  | nil => simp
  | cons n rest ih =>
    rw [List.foldl_cons, ih]
    by_cases hx : x ∈ rest
    · rw [if_pos hx, if_pos (List.mem_cons_of_mem _ hx)]
    · rw [if_neg hx]
      by_cases hxn : x = n
      · subst hxn; rw [upd_same, if_pos List.mem_cons_self]
      · rw [upd_other _ _ _ _ hxn, if_neg (by simp [hxn, hx])]

/-- after the reset loop every label is the default, whatever it was before -/
theorem resetLab_eq_top (order : List Nat) (v0 : Lab) (hres : ∀ x, x ∈ order ∨ v0 x = true) :
    resetLab order v0 = top := by
  apply Lab.ext; intro x; rw [resetLab_spec]
  split
  · rfl
  · rcases hres x with h | h
    · contradiction
    · exact h

/-- **`calculate_viability_and_necessity` from arbitrary labels** is the second loop from default labels -/
theorem calcAll_eq (g : G) (const : Nat → Bool) (fuel : Nat) (order : List Nat) (v0 : Lab)
    (hres : ∀ x, x ∈ order ∨ v0 x = true) :
    calcAll g const fuel order v0 = calcLab g const fuel order top := by
  unfold calcAll; rw [resetLab_eq_top order v0 hres]

/-- **`calculate_viability_and_necessity` from arbitrary labels** (reset loop + second loop): whatever labels
the visited nodes carry, the result is the greatest fixed point of the equation system of the *current* graph. -/
theorem calc_gfp_any (g : G) (hC : Conv g) (ns : List Nat) (hcl : ∀ p c, c ∈ g.children p → c ∈ ns)
    (const : Nat → Bool) (order : List Nat) (v0 : Lab)
    (hres : ∀ x, x ∈ order ∨ v0 x = true)
    (hall : ∀ x, g.kind x = constK → x ∈ order ∨ const x = true) :
    let v := calcAll g const (ns.length + 1) order v0
    (∀ x, v x = Sys g const v x) ∧
    (∀ w : Lab, (∀ x, w x = true → Sys g const w x = true) → le w v) := by
  rw [calcAll_eq g const _ order v0 hres]
  exact calc_gfp g hC ns hcl const order hall

/-! ### the intermediate version a3159ad (reset of the attack steps only): correct only without stale status labels -/

/-- **The named hypothesis of the `_partial` theorem about the guarded reset**: no status node carries the label
`false` while its current status says `true`.  (The guarded reset loop left status nodes alone and the second
loop only re-evaluates a status node when its turn comes: until then its children read the old label.)  It holds
on a freshly generated graph, for the labels an earlier run on the same statuses left behind, and after status
changes that only turn constants from `true` to `false`; `Props/C08.lean`
(`guarded_reset_variant_keeps_stale_status_label`) shows that it is needed. -/
def NoStaleStatus (g : G) (const : Nat → Bool) (v0 : Lab) : Prop :=
  ∀ x, g.kind x = constK → v0 x = true ∨ v0 x = const x

theorem resetLabGuarded_spec (g : G) (order : List Nat) (v0 : Lab) (x : Nat) :
    resetLabGuarded g order v0 x = if g.kind x ≠ constK ∧ x ∈ order then true else v0 x := by
  unfold resetLabGuarded
  induction order generalizing v0 with
  | nil => simp
  | cons n rest ih =>
    rw [List.foldl_cons, ih]
    by_cases hk : g.kind n = constK
    · rw [if_pos hk]
      by_cases hx : g.kind x ≠ constK ∧ x ∈ rest
      · rw [if_pos hx, if_pos ⟨hx.1, List.mem_cons_of_mem _ hx.2⟩]
      · rw [if_neg hx]
        have : ¬ (g.kind x ≠ constK ∧ x ∈ n :: rest) := by
          rintro ⟨h1, h2⟩
          rcases List.mem_cons.1 h2 with e | e
          · subst e; exact h1 hk
          · exact hx ⟨h1, e⟩
        rw [if_neg this]
    · rw [if_neg hk]
      by_cases hx : g.kind x ≠ constK ∧ x ∈ rest
      · rw [if_pos hx, if_pos ⟨hx.1, List.mem_cons_of_mem _ hx.2⟩]
      · rw [if_neg hx]
        by_cases hxn : x = n
        · subst hxn
          rw [upd_same, if_pos ⟨hk, List.mem_cons_self⟩]
        · rw [upd_other _ _ _ _ hxn]
          have : ¬ (g.kind x ≠ constK ∧ x ∈ n :: rest) := by
            rintro ⟨h1, h2⟩
            rcases List.mem_cons.1 h2 with e | e
            · exact hxn e
            · exact hx ⟨h1, e⟩
          rw [if_neg this]

/-- after the guarded reset loop the outer invariant holds — provided no status node carries a stale `false` -/
theorem oinv_resetGuarded (g : G) (const : Nat → Bool) (order : List Nat) (v0 : Lab)
    (hres : ∀ x, g.kind x ≠ constK → x ∈ order ∨ v0 x = true)
    (hcst : NoStaleStatus g const v0)
    (hall : ∀ x, g.kind x = constK → x ∈ order ∨ const x = true) :
    OInv g const order (resetLabGuarded g order v0) := by
  have hnc : ∀ x, g.kind x ≠ constK → resetLabGuarded g order v0 x = true := by
    intro x hk
    rw [resetLabGuarded_spec]
    by_cases hm : x ∈ order
    · rw [if_pos ⟨hk, hm⟩]
    · rw [if_neg (fun h => hm h.2)]
      rcases hres x hk with h | h
      · exact absurd h hm
      · exact h
  have hc : ∀ x, g.kind x = constK → resetLabGuarded g order v0 x = v0 x := by
    intro x hk
    rw [resetLabGuarded_spec, if_neg (fun h => h.1 hk)]
  -- a parent that is effectively false is an ungated status node with a `false` label, still to be visited
  have hpend : ∀ x p, p ∈ g.parents x → eff g (resetLabGuarded g order v0) p = false →
      Excused g order (resetLabGuarded g order v0) x := by
    intro x p hp he
    have hg : g.gate p = false := by
      cases hg : g.gate p with
      | false => rfl
      | true => simp [eff, hg] at he
    have hv : resetLabGuarded g order v0 p = false := by simpa [eff, hg] using he
    have hk : g.kind p = constK := by
      apply Classical.byContradiction; intro hk
      rw [hnc p hk] at hv; exact Bool.noConfusion hv
    refine ⟨p, hp, hg, hk, hv, ?_⟩
    rw [hc p hk] at hv
    rcases hall p hk with h | h
    · exact h
    · rcases hcst p hk with h1 | h1
      · rw [h1] at hv; exact Bool.noConfusion hv
      · rw [h1, h] at hv; exact Bool.noConfusion hv
  refine ⟨?_, ?_, ?_, ?_⟩
  · intro x hk hx
    rw [hnc x (by rw [hk]; exact fun h => Kind.noConfusion h)] at hx
    exact Bool.noConfusion hx
  · intro x
    by_cases hk : g.kind x = constK
    · exact Or.inl (Or.inl hk)
    · by_cases hF : F g (resetLabGuarded g order v0) x = true
      · left; right; rw [hnc x hk, hF]
      · right
        have hF' : F g (resetLabGuarded g order v0) x = false := by simpa using hF
        unfold F at hF'
        cases hkx : g.kind x with
        | constK => exact absurd hkx hk
        | anyK =>
          simp only [hkx] at hF'
          cases hps : g.parents x with
          | nil => simp [hps] at hF'
          | cons a t =>
            have ha : a ∈ g.parents x := by rw [hps]; simp
            apply hpend x a ha
            rw [hps] at hF'
            simp at hF'
            exact hF'.1
        | allK =>
          simp only [hkx] at hF'
          have : ∃ p ∈ g.parents x, eff g (resetLabGuarded g order v0) p = false := by
            simpa using hF'
          obtain ⟨p, hp, he⟩ := this
          exact hpend x p hp he
  · intro w _ hcw x hx
    by_cases hk : g.kind x = constK
    · rw [hc x hk]
      rcases hcst x hk with h | h
      · exact h
      · rw [h]; exact hcw x hk hx
    · exact hnc x hk
  · intro x hk; rw [hc x hk]; exact hcst x hk

/-- the intermediate version computed the greatest fixed point from arbitrary labels of the attack steps, but
only if no status node carried a stale `false` -/
theorem calcAllGuarded_gfp_partial (g : G) (hC : Conv g) (ns : List Nat) (hcl : ∀ p c, c ∈ g.children p → c ∈ ns)
    (const : Nat → Bool) (order : List Nat) (v0 : Lab)
    (hres : ∀ x, g.kind x ≠ constK → x ∈ order ∨ v0 x = true)
    (hcst : NoStaleStatus g const v0)
    (hall : ∀ x, g.kind x = constK → x ∈ order ∨ const x = true) :
    let v := calcAllGuarded g const (ns.length + 1) order v0
    (∀ x, v x = Sys g const v x) ∧
    (∀ w : Lab, (∀ x, w x = true → Sys g const w x = true) → le w v) :=
  calc_gfp_from g hC ns hcl const order _ (oinv_resetGuarded g const order v0 hres hcst hall) hall

/-- greatest post-fixed points are unique -/
theorem gfp_unique (S : Lab → Nat → Bool) (v v' : Lab)
    (h1 : ∀ x, v x = S v x) (h1' : ∀ x, v' x = S v' x)
    (h2 : ∀ w : Lab, (∀ x, w x = true → S w x = true) → le w v)
    (h2' : ∀ w : Lab, (∀ x, w x = true → S w x = true) → le w v') : v = v' := by
  have a : le v v' := h2' v (fun x hx => by rw [← h1 x]; exact hx)
  have b : le v' v := h2 v' (fun x hx => by rw [← h1' x]; exact hx)
  apply Lab.ext; intro x
  cases hv : v x with
  | true => exact (a x hv).symm
  | false =>
    cases hv' : v' x with
    | false => rfl
    | true => have := b x hv'; rw [hv] at this; exact this

/-- the equation system only depends on *which* nodes are parents, not on
the order or multiplicity in which they are stored -/
theorem Sys_congr (g g' : G) (const : Nat → Bool)
    (hk : ∀ x, g.kind x = g'.kind x) (hg : ∀ x, g.gate x = g'.gate x)
    (hp : ∀ x p, p ∈ g.parents x ↔ p ∈ g'.parents x) :
    Sys g const = Sys g' const := by
  funext v x
  have heff : eff g v = eff g' v := by funext p; simp [eff, hg]
  have hany : (g.parents x).any (eff g v) = (g'.parents x).any (eff g' v) := by
    rw [heff, Bool.eq_iff_iff]; simp only [List.any_eq_true]
    constructor <;> rintro ⟨p, hp1, hp2⟩
    · exact ⟨p, (hp x p).1 hp1, hp2⟩
    · exact ⟨p, (hp x p).2 hp1, hp2⟩
  have hall : (g.parents x).all (eff g v) = (g'.parents x).all (eff g' v) := by
    rw [heff, Bool.eq_iff_iff]; simp only [List.all_eq_true]
    constructor <;> intro h p hp1
    · exact h p ((hp x p).2 hp1)
    · exact h p ((hp x p).1 hp1)
  have hnil : (g.parents x = []) ↔ (g'.parents x = []) := by
    constructor <;> intro h
    · cases h' : g'.parents x with
      | nil => rfl
      | cons a t => have := (hp x a).2 (by rw [h']; simp); rw [h] at this; simp at this
    · cases h' : g.parents x with
      | nil => rfl
      | cons a t => have := (hp x a).1 (by rw [h']; simp); rw [h] at this; simp at this
  unfold Sys F
  rw [← hk x]
  cases g.kind x <;> simp [hany, hall, hnil]

end MalVerif.Apriori
