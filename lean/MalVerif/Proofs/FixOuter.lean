import MalVerif.Proofs.Fix
/-!
# The outer loop computes the greatest fixed point (helper lemmas for C08)
-/
namespace MalVerif.Apriori
open Kind

/-- the full equation system of the property: status nodes carry their own
constant, the others follow `F` -/
def Sys (g : G) (const : Nat → Bool) (v : Lab) (x : Nat) : Bool :=
  if g.kind x = constK then const x else F g v x

theorem cons_top (g : G) (x : Nat) : Cons g top x := by
  unfold Cons
  cases hk : g.kind x with
  | constK => exact Or.inl rfl
  | anyK =>
    right; unfold F; simp only [hk]
    by_cases h : g.parents x = []
    · simp [h, top]
    · simp only [h, if_false]
      cases hp : g.parents x with
      | nil => exact absurd hp h
      | cons a t => simp [top, eff]
  | allK =>
    right; unfold F; simp only [hk]
    simp [top, eff]

theorem inv1_top (g : G) : Inv1 g top := by
  intro x _ hx; simp [top] at hx

theorem cnt_le_length (ns : List Nat) (v : Lab) : cnt ns v ≤ ns.length := by
  unfold cnt; exact List.length_filter_le _ _

/-- the invariant of the outer loop -/
structure OInv (g : G) (const : Nat → Bool) (v : Lab) : Prop where
  inv1 : Inv1 g v
  cons : ∀ x, Cons g v x
  bound : ∀ w, PostFix g w → (∀ x, g.kind x = constK → w x = true → const x = true) → le w v
  cst : ∀ x, g.kind x = constK → v x = true ∨ v x = const x

theorem oinv_top (g : G) (const : Nat → Bool) : OInv g const top :=
  ⟨inv1_top g, cons_top g, fun _ _ _ _ _ => rfl, fun _ _ => Or.inl rfl⟩

/-- one iteration of the outer loop -/
def ostep (g : G) (const : Nat → Bool) (fuel : Nat) (v : Lab) (n : Nat) : Lab :=
  if g.kind n = .constK then
    let v1 := upd v n (const n)
    if v1 n then v1 else prop g fuel v1 n
  else v

theorem calcLab_eq (g : G) (const : Nat → Bool) (fuel : Nat) (order : List Nat) (v0 : Lab) :
    calcLab g const fuel order v0 = order.foldl (ostep g const fuel) v0 := rfl

theorem le_upd_const {v : Lab} {n : Nat} {b : Bool} (h : v n = true ∨ v n = b) : le (upd v n b) v := by
  intro x hx
  by_cases hxn : x = n
  · subst hxn; rw [upd_same] at hx
    rcases h with h | h
    · exact h
    · rw [h]; exact hx
  · rwa [upd_other _ _ _ _ hxn] at hx

theorem ostep_inv (g : G) (hC : Conv g) (ns : List Nat) (hcl : ∀ p c, c ∈ g.children p → c ∈ ns)
    (const : Nat → Bool) (v : Lab) (n : Nat) (h : OInv g const v) :
    OInv g const (ostep g const (ns.length + 1) v n) ∧
    (g.kind n = constK → ostep g const (ns.length + 1) v n n = const n) ∧
    (∀ x, g.kind x = constK → v x = const x → ostep g const (ns.length + 1) v n x = const x) := by
  unfold ostep
  by_cases hk : g.kind n = constK
  · rw [if_pos hk]; simp only [upd_same]
    have hle : le (upd v n (const n)) v := le_upd_const (h.cst n hk)
    have hI1 : Inv1 g (upd v n (const n)) := by
      intro x hkx hx p hp
      have hxn : x ≠ n := by intro e; subst e; rw [hk] at hkx; exact Kind.noConfusion hkx
      rw [upd_other _ _ _ _ hxn] at hx
      exact eff_false_of_le hle (h.inv1 x hkx hx p hp)
    have hbound1 : ∀ w, PostFix g w → (∀ x, g.kind x = constK → w x = true → const x = true) →
        le w (upd v n (const n)) := by
      intro w hpf hc x hx
      by_cases hxn : x = n
      · subst hxn; rw [upd_same]; exact hc x hk hx
      · rw [upd_other _ _ _ _ hxn]; exact h.bound w hpf hc x hx
    have hcst1 : ∀ x, g.kind x = constK → upd v n (const n) x = true ∨ upd v n (const n) x = const x := by
      intro x hkx
      by_cases hxn : x = n
      · subst hxn; right; exact upd_same _ _ _
      · rw [upd_other _ _ _ _ hxn]; exact h.cst x hkx
    have hkeep1 : ∀ x, g.kind x = constK → v x = const x → upd v n (const n) x = const x := by
      intro x _ hv
      by_cases hxn : x = n
      · subst hxn; exact upd_same _ _ _
      · rw [upd_other _ _ _ _ hxn]; exact hv
    cases hcn : const n with
    | true =>
      have hvn : upd v n true n = true := upd_same _ _ _
      simp only [if_true]
      have heq : upd v n true = v := by
        rcases h.cst n hk with h1 | h1
        · rw [← h1]; exact upd_self v n
        · rw [hcn] at h1; rw [← h1]; exact upd_self v n
      rw [heq]
      refine ⟨h, fun _ => ?_, fun x _ hv => hv⟩
      have := congrArg (fun w : Lab => w n) heq; simp only [upd_same] at this; rw [← this]
    | false =>
      have hvn : upd v n false n = false := upd_same _ _ _
      simp only [Bool.false_eq_true, if_false]
      rw [hcn] at hle hI1 hbound1 hcst1 hkeep1
      have hcnt : cnt ns (upd v n false) < ns.length + 1 := Nat.lt_succ_of_le (cnt_le_length _ _)
      have hm := (main g hC ns hcl (ns.length + 1)).1 (upd v n false) n hI1 hcnt (Or.inr hvn)
      have hcons : ∀ x, Cons g (prop g (ns.length + 1) (upd v n false) n) x := by
        intro x
        apply hm.2
        by_cases hxn : x = n
        · subst hxn; exact Or.inl (Or.inl hk)
        · by_cases hgate : g.gate n = true
          · exact Or.inl (cons_upd_other n x _ hxn (h.cons x) (Or.inl hgate))
          · by_cases hpar : n ∈ g.parents x
            · exact Or.inr ⟨by simpa using hgate, (hC x n).2 hpar⟩
            · exact Or.inl (cons_upd_other n x _ hxn (h.cons x) (Or.inr hpar))
      refine ⟨⟨hm.1.inv, hcons, ?_, ?_⟩, ?_, ?_⟩
      · intro w hpf hc
        exact hm.1.gfp w (hbound1 w hpf hc) hpf
      · intro x hkx; rw [hm.1.const x hkx]; exact hcst1 x hkx
      · intro _; rw [hm.1.const n hk, hvn]
      · intro x hkx hv; rw [hm.1.const x hkx]; exact hkeep1 x hkx hv
  · rw [if_neg hk]
    exact ⟨h, fun hk' => absurd hk' hk, fun _ _ hv => hv⟩

theorem fold_inv (g : G) (hC : Conv g) (ns : List Nat) (hcl : ∀ p c, c ∈ g.children p → c ∈ ns)
    (const : Nat → Bool) (order : List Nat) (v : Lab) (h : OInv g const v) :
    OInv g const (order.foldl (ostep g const (ns.length + 1)) v) ∧
    (∀ x, g.kind x = constK → (x ∈ order ∨ v x = const x) →
      order.foldl (ostep g const (ns.length + 1)) v x = const x) := by
  induction order generalizing v with
  | nil =>
    refine ⟨h, ?_⟩
    intro x _ hx
    rcases hx with hx | hx
    · simp at hx
    · exact hx
  | cons n rest ih =>
    simp only [List.foldl_cons]
    have hs := ostep_inv g hC ns hcl const v n h
    have hr := ih _ hs.1
    refine ⟨hr.1, ?_⟩
    intro x hkx hx
    apply hr.2 x hkx
    rcases hx with hx | hx
    · rcases List.mem_cons.1 hx with h0 | h0
      · subst h0; exact Or.inr (hs.2.1 hkx)
      · exact Or.inl h0
    · exact Or.inr (hs.2.2 x hkx hx)

/-- **The analysis computes the greatest fixed point** of the equation system,
for every visiting order that reaches every status node whose constant is
`false` (in particular for every permutation of the node list). -/
theorem calc_gfp (g : G) (hC : Conv g) (ns : List Nat) (hcl : ∀ p c, c ∈ g.children p → c ∈ ns)
    (const : Nat → Bool) (order : List Nat)
    (hall : ∀ x, g.kind x = constK → x ∈ order ∨ const x = true) :
    let v := calcLab g const (ns.length + 1) order top
    (∀ x, v x = Sys g const v x) ∧
    (∀ w : Lab, (∀ x, w x = true → Sys g const w x = true) → le w v) := by
  intro v
  have hf := fold_inv g hC ns hcl const order top (oinv_top g const)
  have hv : v = order.foldl (ostep g const (ns.length + 1)) top := rfl
  rw [← hv] at hf
  constructor
  · intro x
    unfold Sys
    by_cases hk : g.kind x = constK
    · simp only [hk, if_true]
      apply hf.2 x hk
      rcases hall x hk with h | h
      · exact Or.inl h
      · right; rw [h]; rfl
    · simp only [hk, if_false]
      rcases hf.1.cons x with h | h
      · exact absurd h hk
      · exact h
  · intro w hw
    apply hf.1.bound w
    · intro x hk hx
      have := hw x hx
      unfold Sys at this; simpa [hk] using this
    · intro x hk hx
      have := hw x hx
      unfold Sys at this; simpa [hk] using this

/-- **Resumed runs.**  Start the analysis from the labelling an earlier, possibly aborted, run left behind (any
labelling satisfying the outer invariant — in particular `calcLab … pre top` for a prefix `pre` of an earlier
visiting order): the result is again the greatest fixed point. -/
theorem calc_gfp_from (g : G) (hC : Conv g) (ns : List Nat) (hcl : ∀ p c, c ∈ g.children p → c ∈ ns)
    (const : Nat → Bool) (order : List Nat) (v0 : Lab) (h0 : OInv g const v0)
    (hall : ∀ x, g.kind x = constK → x ∈ order ∨ const x = true) :
    let v := calcLab g const (ns.length + 1) order v0
    (∀ x, v x = Sys g const v x) ∧
    (∀ w : Lab, (∀ x, w x = true → Sys g const w x = true) → le w v) := by
  intro v
  have hf := fold_inv g hC ns hcl const order v0 h0
  have hv : v = order.foldl (ostep g const (ns.length + 1)) v0 := calcLab_eq g const _ order v0
  rw [← hv] at hf
  constructor
  · intro x
    unfold Sys
    by_cases hk : g.kind x = constK
    · simp only [hk, if_true]
      apply hf.2 x hk
      rcases hall x hk with h | h
      · exact Or.inl h
      · right
        rcases h0.cst x hk with h1 | h1
        · rw [h1, h]
        · exact h1
    · simp only [hk, if_false]
      rcases hf.1.cons x with h | h
      · exact absurd h hk
      · exact h
  · intro w hw
    apply hf.1.bound w
    · intro x hk hx
      have := hw x hx
      unfold Sys at this; simpa [hk] using this
    · intro x hk hx
      have := hw x hx
      unfold Sys at this; simpa [hk] using this

/-- the labelling a (complete or aborted) run leaves behind satisfies the outer invariant -/
theorem oinv_calcLab (g : G) (hC : Conv g) (ns : List Nat) (hcl : ∀ p c, c ∈ g.children p → c ∈ ns)
    (const : Nat → Bool) (pre : List Nat) : OInv g const (calcLab g const (ns.length + 1) pre top) := by
  rw [calcLab_eq]
  exact (fold_inv g hC ns hcl const pre top (oinv_top g const)).1

/-- greatest post-fixed points are unique -/
theorem gfp_unique (S : Lab → Nat → Bool) (v v' : Lab)
    (h1 : ∀ x, v x = S v x) (h1' : ∀ x, v' x = S v' x)
    (h2 : ∀ w : Lab, (∀ x, w x = true → S w x = true) → le w v)
    (h2' : ∀ w : Lab, (∀ x, w x = true → S w x = true) → le w v') : v = v' := by
  have a : le v v' := h2' v (fun x hx => by rw [← h1 x]; exact hx)
  have b : le v' v := h2 v' (fun x hx => by rw [← h1' x]; exact hx)
  apply Lab.ext; intro x
  cases hv : v x with
  | true => exact (a x hv).symm
  | false =>
    cases hv' : v' x with
    | false => rfl
    | true => have := b x hv'; rw [hv] at this; exact this

/-- the equation system only depends on *which* nodes are parents, not on
the order or multiplicity in which they are stored -/
theorem Sys_congr (g g' : G) (const : Nat → Bool)
    (hk : ∀ x, g.kind x = g'.kind x) (hg : ∀ x, g.gate x = g'.gate x)
    (hp : ∀ x p, p ∈ g.parents x ↔ p ∈ g'.parents x) :
    Sys g const = Sys g' const := by
  funext v x
  have heff : eff g v = eff g' v := by funext p; simp [eff, hg]
  have hany : (g.parents x).any (eff g v) = (g'.parents x).any (eff g' v) := by
    rw [heff, Bool.eq_iff_iff]; simp only [List.any_eq_true]
    constructor <;> rintro ⟨p, hp1, hp2⟩
    · exact ⟨p, (hp x p).1 hp1, hp2⟩
    · exact ⟨p, (hp x p).2 hp1, hp2⟩
  have hall : (g.parents x).all (eff g v) = (g'.parents x).all (eff g' v) := by
    rw [heff, Bool.eq_iff_iff]; simp only [List.all_eq_true]
    constructor <;> intro h p hp1
    · exact h p ((hp x p).2 hp1)
    · exact h p ((hp x p).1 hp1)
  have hnil : (g.parents x = []) ↔ (g'.parents x = []) := by
    constructor <;> intro h
    · cases h' : g'.parents x with
      | nil => rfl
      | cons a t => have := (hp x a).2 (by rw [h']; simp); rw [h] at this; simp at this
    · cases h' : g.parents x with
      | nil => rfl
      | cons a t => have := (hp x a).1 (by rw [h']; simp); rw [h] at this; simp at this
  unfold Sys F
  rw [← hk x]
  cases g.kind x <;> simp [hany, hall, hnil]

end MalVerif.Apriori
