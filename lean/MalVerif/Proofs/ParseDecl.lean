import MalVerif.Proofs.ParseTtc
import Std.Data.String.ToNat
/-!
# Declarations: multiplicities, metas, tags, risk, steps, assets, associations, files
-/
namespace MalVerif.Mal
open MalVerif (Expr)

/-! ### strings -/

theorem dropWhile_all_false {α} (p : α → Bool) (l : List α) (h : ∀ x ∈ l, p x = false) : l.dropWhile p = l := by
  cases l with
  | nil => rfl
  | cons a l => simp [List.dropWhile, h a (by simp)]

/-- the string contains no double quote -/
def noQuote (v : String) : Prop := '"' ∉ v.toList

/-- `('"' + v + '"').strip('"') = v` -/
theorem stripQuotes_quote (v : String) (h : noQuote v) : stripQuotes (quote v) = v := by
  unfold stripQuotes quote
  have h1 : ("\"" ++ v ++ "\"").toList = '"' :: (v.toList ++ ['"']) := by
    simp [String.toList_append]
  rw [h1]
  have hp : ∀ x ∈ v.toList, (decide (x = '"')) = false := by
    intro x hx; simp; intro hq; subst hq; exact h hx
  have h2 : List.dropWhile (fun x => decide (x = '"')) ('"' :: (v.toList ++ ['"'])) =
      List.dropWhile (fun x => decide (x = '"')) (v.toList ++ ['"']) := by simp [List.dropWhile]
  rw [h2]
  cases hv : v.toList with
  | nil =>
    simp [List.dropWhile]
    rw [← String.ofList_toList (s := v), hv]
  | cons c cs =>
    have hc : decide (c = '"') = false := hp c (by rw [hv]; simp)
    have h3 : List.dropWhile (fun x => decide (x = '"')) (c :: cs ++ ['"']) = c :: cs ++ ['"'] := by
      simp [hc]
    rw [h3]
    have h4 : (c :: cs ++ ['"']).reverse = '"' :: (c :: cs).reverse := by simp
    rw [h4]
    have h5 : List.dropWhile (fun x => decide (x = '"')) ('"' :: (c :: cs).reverse) = (c :: cs).reverse := by
      simp only [List.dropWhile, decide_true]
      apply dropWhile_all_false
      intro x hx; rw [← hv] at hx; exact hp x (by simpa using hx)
    rw [h5, List.reverse_reverse, ← hv, String.ofList_toList]

/-! ### multiplicities -/

theorem atomTok_natTok (n : Nat) : atomTok (natTok n) = some (some n) := by
  simp only [atomTok, natTok]
  show Option.map some (Nat.repr n).toNat? = _
  rw [Nat.toNat?_repr]; rfl

theorem parseMult_single (x : Tok) (rest : List Tok) (hr : headP (· == .range) rest = false) :
    parseMult (x :: rest) = (atomTok x).map (fun lo => ((lo.getD 0, lo), rest)) := by
  unfold parseMult
  split
  · rename_i h; simp only [List.cons.injEq] at h; rw [h.2] at hr; simp [headP] at hr
  · rename_i h; simp only [List.cons.injEq] at h; obtain ⟨rfl, rfl⟩ := h; rfl
  · rename_i h; simp at h

theorem parseMult_range (x y : Tok) (rest : List Tok) (lo hi : Option Nat)
    (hx : atomTok x = some lo) (hy : atomTok y = some hi) :
    parseMult (x :: .range :: y :: rest) = some ((lo.getD 0, hi), rest) := by
  simp only [parseMult, hx, hy]

/-- the printed multiplicity parses back -/
theorem parseMult_prMult (lo : Nat) (hi : Option Nat) (rest : List Tok) (hr : headP (· == .range) rest = false) :
    parseMult (prMult lo hi ++ rest) = some ((lo, hi), rest) := by
  unfold prMult
  cases hi with
  | none =>
    simp only
    split
    · rename_i h; subst h
      simp only [List.cons_append, List.nil_append]
      rw [parseMult_single _ _ hr]; rfl
    · simp only [List.cons_append, List.nil_append]
      rw [parseMult_range _ _ _ (some lo) none (atomTok_natTok lo) rfl]; rfl
  | some h =>
    simp only
    split
    · rename_i he; subst he
      simp only [List.cons_append, List.nil_append]
      rw [parseMult_single _ _ hr, atomTok_natTok]; rfl
    · simp only [List.cons_append, List.nil_append]
      rw [parseMult_range _ _ _ (some lo) (some h) (atomTok_natTok lo) (atomTok_natTok h)]; rfl

/-! ### metas -/

def isIdTok : Tok → Bool
  | .id _ => true | _ => false

/-- does a meta (`ID INFO …`) start here -/
def metaStart : List Tok → Bool
  | .id _ :: .kwInfo :: _ => true
  | _ => false

theorem metaStart_of_headP (rest : List Tok) (h : headP isIdTok rest = false) : metaStart rest = false := by
  unfold metaStart
  split
  · simp [headP, isIdTok] at h
  · rfl

theorem parseMetas_stop (f : Nat) (m : Meta) (rest : List Tok) (hr : metaStart rest = false) :
    parseMetas f m rest = (m, rest) := by
  cases f with
  | zero => rfl
  | succ f =>
    unfold parseMetas
    split
    · simp [metaStart] at hr
    · rfl

/-- keys distinct, values without quotes -/
def WFMeta (m : Meta) : Prop := (m.map (·.1)).Nodup ∧ ∀ kv ∈ m, noQuote kv.2

theorem metaPut_new (d : Meta) (k v : String) (h : k ∉ d.map (·.1)) : metaPut d k v = d ++ [(k, v)] := by
  unfold metaPut
  rw [if_neg]
  simp only [List.any_eq_true, decide_eq_true_eq, not_exists, not_and]
  intro e he hk
  exact h (by simp only [List.mem_map]; exact ⟨e, he, hk⟩)

theorem parseMetas_prMetas (m : Meta) (f : Nat) (m0 : Meta) (rest : List Tok) (hf : m.length ≤ f)
    (hr : metaStart rest = false) (hw : ((m0 ++ m).map (·.1)).Nodup) (hq : ∀ kv ∈ m, noQuote kv.2) :
    parseMetas f m0 (prMetas m ++ rest) = (m0 ++ m, rest) := by
  induction m generalizing f m0 with
  | nil => simp only [prMetas, List.nil_append, List.append_nil]; exact parseMetas_stop f m0 rest hr
  | cons kv m ih =>
    obtain ⟨k, v⟩ := kv
    obtain ⟨f, rfl⟩ : ∃ g, f = g + 1 := ⟨f - 1, by simp at hf; omega⟩
    simp only [prMetas, List.cons_append]
    unfold parseMetas
    simp only
    rw [stripQuotes_quote v (hq (k, v) (by simp))]
    have hk : k ∉ m0.map (·.1) := by
      intro hk
      simp only [List.map_append, List.map_cons, List.nodup_append] at hw
      exact hw.2.2 k hk k (by simp) rfl
    rw [metaPut_new m0 k v hk, ih f (m0 ++ [(k, v)]) (by simpa using hf) (by simpa using hw)
      (fun kv h => hq kv (by simp [h]))]
    simp

theorem prMetas_length (m : Meta) : (prMetas m).length = 4 * m.length := by
  induction m with
  | nil => rfl
  | cons kv m ih => obtain ⟨k, v⟩ := kv; simp [prMetas, ih]; omega

/-! ### tags -/

theorem parseTags_prTags (ts : List String) (f : Nat) (acc : List String) (rest : List Tok) (hf : ts.length ≤ f)
    (hr : headP (· == .at) rest = false) : parseTags f acc (prTags ts ++ rest) = (acc ++ ts, rest) := by
  induction ts generalizing f acc with
  | nil =>
    simp only [prTags, List.nil_append, List.append_nil]
    cases f with
    | zero => rfl
    | succ f =>
      unfold parseTags
      split
      · simp [headP] at hr
      · rfl
  | cons t ts ih =>
    obtain ⟨f, rfl⟩ : ∃ g, f = g + 1 := ⟨f - 1, by simp at hf; omega⟩
    simp only [prTags, List.cons_append]
    unfold parseTags
    simp only
    rw [ih f _ (by simpa using hf)]
    simp

theorem prTags_length (ts : List String) : (prTags ts).length = 2 * ts.length := by
  induction ts with
  | nil => rfl
  | cons t ts ih => simp [prTags, ih]; omega

/-! ### risk -/

theorem parseCias_prCias (r : Bool × Bool × Bool) (hr : r ≠ (false, false, false)) (f : Nat) (rest : List Tok)
    (hf : 3 ≤ f) : parseCias f (false, false, false) (prCias r ++ rest) = some (r, rest) := by
  obtain ⟨f, rfl⟩ : ∃ g, f = g + 3 := ⟨f - 3, by omega⟩
  obtain ⟨c, i, a⟩ := r
  cases c <;> cases i <;> cases a <;> simp [prCias, parseCias, ciaTok, riskOr] at hr ⊢


/-! ### steps: the stages of `parseStep` -/
def ciasStage (f : Nat) (r1 : List Tok) : Option (Option (Bool × Bool × Bool) × List Tok) :=
  match r1 with
  | .lcurly :: r => (parseCias f (false, false, false) r).map (fun x => (some x.1, x.2))
  | _ => some (none, r1)

def ttcStage (f : Nat) (r2 : List Tok) : Option (Option TTC × List Tok) :=
  match r2 with
  | .lsquare :: r =>
    match parseTtcExpr f r with
    | some (e, .rsquare :: r') => some (some e, r')
    | _ => none
  | _ => some (none, r2)

def preStage (f : Nat) (r4 : List Tok) : Option (Option (List Expr) × List Tok) :=
  match r4 with
  | .requires :: r => (parseExprList f false r).map (fun x => (some x.1, x.2))
  | _ => some (none, r4)

def rchStage (f : Nat) (r5 : List Tok) : Option (Option (Bool × List Expr) × List Tok) :=
  match r5 with
  | .leadsto :: r => (parseExprList f true r).map (fun x => (some (true, x.1), x.2))
  | .inherits :: r => (parseExprList f true r).map (fun x => (some (false, x.1), x.2))
  | _ => some (none, r5)

theorem parseStep_eq (f : Nat) (t : Tok) (name : String) (rest : List Tok) :
    parseStep f (t :: .id name :: rest) =
      (stepType t).bind fun ty =>
        (ciasStage f (parseTags f [] rest).2).bind fun c =>
          (ttcStage f c.2).bind fun tt =>
            (preStage f (parseMetas f [] tt.2).2).bind fun pre =>
              (rchStage f pre.2).bind fun rch =>
                some ({ name := name, metaD := (parseMetas f [] tt.2).1, type := ty, tags := (parseTags f [] rest).1,
                        risk := c.1, ttc := tt.1, requires := pre.1, reaches := rch.1 }, rch.2) := by
  unfold parseStep
  cases h : stepType t with
  | none => simp only [h, Option.bind_none]
  | some ty =>
    simp only [h, Option.bind_some]
    split
    · rename_i h1
      have h1' : ciasStage f (parseTags f [] rest).2 = none := h1
      rw [h1']; rfl
    · rename_i risk r2 h1
      have h1' : ciasStage f (parseTags f [] rest).2 = some (risk, r2) := h1
      rw [h1']; simp only [Option.bind_some]
      split
      · rename_i h2
        have h2' : ttcStage f r2 = none := h2
        rw [h2']; rfl
      · rename_i tt r3 h2
        have h2' : ttcStage f r2 = some (tt, r3) := h2
        rw [h2']; simp only [Option.bind_some]
        split
        · rename_i h3
          have h3' : preStage f (parseMetas f [] r3).2 = none := h3
          rw [h3']; rfl
        · rename_i req r5 h3
          have h3' : preStage f (parseMetas f [] r3).2 = some (req, r5) := h3
          rw [h3']; simp only [Option.bind_some]
          split
          · rename_i h4
            have h4' : rchStage f r5 = none := h4
            rw [h4']; rfl
          · rename_i reaches r6 h4
            have h4' : rchStage f r5 = some (reaches, r6) := h4
            rw [h4']; rfl


/-- what may follow a step or a variable inside an asset: the next step, `let`, `}` — or nothing -/
def clauseEnd : List Tok → Bool
  | [] => true
  | t :: _ => endsClause t

theorem clauseEnd_dotAhead (ts : List Tok) (h : clauseEnd ts = true) : dotAhead ts = false := by
  cases ts with
  | nil => rfl
  | cons t r => cases t <;> simp_all [clauseEnd, endsClause, dotAhead]

theorem clauseEnd_headP (p : Tok → Bool) (hp : ∀ t, endsClause t = true → p t = false) (ts : List Tok)
    (h : clauseEnd ts = true) : headP p ts = false := by
  cases ts with
  | nil => rfl
  | cons t r => exact hp t h

theorem clauseEnd_contList (ts : List Tok) (h : clauseEnd ts = true) : headP contList ts = false :=
  clauseEnd_headP _ (by intro t ht; cases t <;> simp_all [endsClause, contList, contExpr, contParts, contPart]) ts h

theorem clauseEnd_contExpr (ts : List Tok) (h : clauseEnd ts = true) : headP contExpr ts = false :=
  headP_contExpr_of_contList ts (clauseEnd_contList ts h)

/-- the five step types -/
def wfStepType (ty : String) : Bool :=
  ty = "and" || ty = "or" || ty = "defense" || ty = "exist" || ty = "notExist"

theorem stepType_stepTok (ty : String) (h : wfStepType ty = true) : stepType (stepTok ty) = some ty := by
  simp only [wfStepType, Bool.or_eq_true, decide_eq_true_eq] at h
  rcases h with (((rfl | rfl) | rfl) | rfl) | rfl <;> simp [stepTok, stepType]

theorem endsClause_stepTok (ty : String) : endsClause (stepTok ty) = true := by
  unfold stepTok; repeat' split
  all_goals rfl

/-- expressions without attack steps are classified correctly outside reaches clauses -/
theorem clsList_false_of_noStep (d : Bool) (l : List Expr) (h : ∀ e ∈ l, noStep e = true) :
    clsList false d l = true := by
  induction l with
  | nil => rfl
  | cons e l ih =>
    cases l with
    | nil => exact cls_false_of_noStep d e (h e (by simp))
    | cons e' l =>
      simp only [clsList, Bool.and_eq_true]
      exact ⟨cls_false_of_noStep _ e (h e (by simp)), ih (fun x hx => h x (by simp [hx]))⟩

structure WFStep (s : CStep) : Prop where
  type : wfStepType s.type = true
  risk : s.risk ≠ some (false, false, false)
  ttc : ∀ t, s.ttc = some t → wfTtc t = true
  metaD : WFMeta s.metaD
  requires : ∀ l, s.requires = some l → l ≠ [] ∧ ∀ e ∈ l, noStep e = true
  reaches : ∀ o l, s.reaches = some (o, l) → l ≠ [] ∧ clsList true false l = true

theorem ciasStage_pr (r : Option (Bool × Bool × Bool)) (hr : r ≠ some (false, false, false)) (f : Nat)
    (X : List Tok) (hf : 3 ≤ f) (hX : headP (· == .lcurly) X = false) :
    ciasStage f (prRisk r ++ X) = some (r, X) := by
  cases r with
  | none =>
    simp only [prRisk, List.nil_append]
    unfold ciasStage
    split
    · simp [headP] at hX
    · rfl
  | some r =>
    simp only [prRisk, List.cons_append]
    unfold ciasStage
    simp only
    rw [parseCias_prCias r (fun h => hr (by rw [h])) f X hf]; rfl

theorem ttcStage_pr (t : Option TTC) (hw : ∀ t', t = some t' → wfTtc t' = true) (f : Nat) (X : List Tok)
    (hf : 2 * (prTtcOpt t).length ≤ f + 2) (hX : headP (· == .lsquare) X = false) :
    ttcStage f (prTtcOpt t ++ X) = some (t, X) := by
  cases t with
  | none =>
    simp only [prTtcOpt, List.nil_append]
    unfold ttcStage
    split
    · simp [headP] at hX
    · rfl
  | some t =>
    simp only [prTtcOpt, List.cons_append, List.append_assoc, List.length_cons, List.length_append,
      List.length_nil] at hf ⊢
    unfold ttcStage
    simp only
    rw [parseTtcExpr_prTtc t (hw t rfl) f _ rfl (by have : (prE t).length = (prTtc 0 false t).length := rfl; omega)]
    rfl

theorem preStage_pr (r : Option (List Expr)) (hw : ∀ l, r = some l → l ≠ [] ∧ ∀ e ∈ l, noStep e = true) (f : Nat)
    (X : List Tok) (hf : 2 * (prRequires r).length + 2 ≤ f) (hX : headP contList X = false)
    (hX' : headP (· == .requires) X = false) :
    preStage f (prRequires r ++ X) = some (r, X) := by
  cases r with
  | none =>
    simp only [prRequires, List.nil_append]
    unfold preStage
    split
    · simp [headP] at hX'
    · rfl
  | some l =>
    simp only [prRequires, List.cons_append, List.length_cons] at hf ⊢
    unfold preStage
    simp only
    rw [parseExprList_prExprList l (hw l rfl).1 f false X (clsList_false_of_noStep _ l (hw l rfl).2) hX (by omega)]
    rfl

theorem rchStage_pr (r : Option (Bool × List Expr)) (hw : ∀ o l, r = some (o, l) → l ≠ [] ∧ clsList true false l = true)
    (f : Nat) (X : List Tok) (hf : 2 * (prReaches r).length + 2 ≤ f) (hX : clauseEnd X = true) :
    rchStage f (prReaches r ++ X) = some (r, X) := by
  cases r with
  | none =>
    simp only [prReaches, List.nil_append]
    unfold rchStage
    split
    · simp [clauseEnd, endsClause] at hX
    · simp [clauseEnd, endsClause] at hX
    · rfl
  | some ol =>
    obtain ⟨o, l⟩ := ol
    have hc : clsList true (dotAhead X) l = true := by rw [clauseEnd_dotAhead X hX]; exact (hw o l rfl).2
    cases o with
    | true =>
      simp only [prReaches, List.cons_append, List.length_cons] at hf ⊢
      unfold rchStage
      simp only
      rw [parseExprList_prExprList l (hw _ l rfl).1 f true X hc (clauseEnd_contList X hX) (by omega)]
      rfl
    | false =>
      simp only [prReaches, List.cons_append, List.length_cons] at hf ⊢
      unfold rchStage
      simp only
      rw [parseExprList_prExprList l (hw _ l rfl).1 f true X hc (clauseEnd_contList X hX) (by omega)]
      rfl

/-! ### what the groups of a step start with -/

def heads (H : Tok → Bool) (X : List Tok) : Prop := ∀ t r, X = t :: r → H t = true

def H5 : Tok → Bool
  | .leadsto => true | .inherits => true | t => endsClause t
def H4 : Tok → Bool
  | .requires => true | t => H5 t
def H3 : Tok → Bool
  | .id _ => true | t => H4 t
def H2 : Tok → Bool
  | .lsquare => true | t => H3 t
def H1 : Tok → Bool
  | .lcurly => true | t => H2 t

theorem heads_append {H H' : Tok → Bool} {A X : List Tok} (hA : ∀ t r, A = t :: r → H' t = true)
    (hX : heads H X) (hsub : ∀ t, H t = true → H' t = true) : heads H' (A ++ X) := by
  cases A with
  | nil => intro t r h; exact hsub t (hX t r h)
  | cons x A => intro t r h; simp only [List.cons_append, List.cons.injEq] at h; rw [← h.1]; exact hA x A rfl

theorem headP_of_heads {H p : Tok → Bool} {X : List Tok} (hX : heads H X) (hp : ∀ t, H t = true → p t = false) :
    headP p X = false := by
  cases X with
  | nil => rfl
  | cons t r => exact hp t (hX t r rfl)

theorem heads_clauseEnd {X : List Tok} (h : clauseEnd X = true) : heads endsClause X := by
  intro t r hx; subst hx; exact h

theorem heads5 (r : Option (Bool × List Expr)) {X : List Tok} (h : clauseEnd X = true) : heads H5 (prReaches r ++ X) := by
  apply heads_append _ (heads_clauseEnd h)
  · intro t ht; cases t <;> simp_all [H5, endsClause]
  · intro t r' ht
    cases r with
    | none => simp [prReaches] at ht
    | some ol =>
      obtain ⟨o, l⟩ := ol
      cases o <;> simp only [prReaches, List.cons.injEq] at ht <;> rw [← ht.1] <;> rfl

theorem heads4 (r : Option (List Expr)) {X : List Tok} (h : heads H5 X) : heads H4 (prRequires r ++ X) := by
  apply heads_append _ h
  · intro t ht; cases t <;> simp_all [H4, H5]
  · intro t r' ht
    cases r with
    | none => simp [prRequires] at ht
    | some l => simp only [prRequires, List.cons.injEq] at ht; rw [← ht.1]; rfl

theorem heads3 (m : Meta) {X : List Tok} (h : heads H4 X) : heads H3 (prMetas m ++ X) := by
  apply heads_append _ h
  · intro t ht; cases t <;> simp_all [H3, H4]
  · intro t r' ht
    cases m with
    | nil => simp [prMetas] at ht
    | cons kv m => obtain ⟨k, v⟩ := kv; simp only [prMetas, List.cons.injEq] at ht; rw [← ht.1]; rfl

theorem heads2 (t : Option TTC) {X : List Tok} (h : heads H3 X) : heads H2 (prTtcOpt t ++ X) := by
  apply heads_append _ h
  · intro t ht; cases t <;> simp_all [H2, H3]
  · intro t' r' ht
    cases t with
    | none => simp [prTtcOpt] at ht
    | some t => simp only [prTtcOpt, List.cons.injEq] at ht; rw [← ht.1]; rfl

theorem heads1 (r : Option (Bool × Bool × Bool)) {X : List Tok} (h : heads H2 X) : heads H1 (prRisk r ++ X) := by
  apply heads_append _ h
  · intro t ht; cases t <;> simp_all [H1, H2]
  · intro t' r' ht
    cases r with
    | none => simp [prRisk] at ht
    | some r => simp only [prRisk, List.cons.injEq] at ht; rw [← ht.1]; rfl

/-- the printed step parses back -/
theorem parseStep_prStep (s : CStep) (hw : WFStep s) (f : Nat) (rest : List Tok) (hr : clauseEnd rest = true)
    (hf : 2 * (prStep s).length + 2 ≤ f) : parseStep f (prStep s ++ rest) = some (s, rest) := by
  have hl : (prStep s).length = 2 + ((prTags s.tags).length + ((prRisk s.risk).length + ((prTtcOpt s.ttc).length +
      ((prMetas s.metaD).length + ((prRequires s.requires).length + (prReaches s.reaches).length))))) := by
    simp only [prStep, List.length_cons, List.length_append]; omega
  have hlt := prTags_length s.tags
  have hlm := prMetas_length s.metaD
  have g5 := heads5 s.reaches hr
  have g4 := heads4 s.requires g5
  have g3 := heads3 s.metaD g4
  have g2 := heads2 s.ttc g3
  have g1 := heads1 s.risk g2
  simp only [prStep, List.cons_append, List.append_assoc]
  rw [parseStep_eq, stepType_stepTok s.type hw.type]
  simp only [Option.bind_some]
  rw [parseTags_prTags s.tags f [] _ (by omega)
    (headP_of_heads g1 (by intro t ht; cases t <;> simp_all [H1, H2, H3, H4, H5, endsClause]))]
  simp only [List.nil_append]
  rw [ciasStage_pr s.risk hw.risk f _ (by omega)
    (headP_of_heads g2 (by intro t ht; cases t <;> simp_all [H2, H3, H4, H5, endsClause]))]
  simp only [Option.bind_some]
  rw [ttcStage_pr s.ttc hw.ttc f _ (by omega)
    (headP_of_heads g3 (by intro t ht; cases t <;> simp_all [H3, H4, H5, endsClause]))]
  simp only [Option.bind_some]
  rw [parseMetas_prMetas s.metaD f [] _ (by omega)
    (metaStart_of_headP _ (headP_of_heads g4 (by intro t ht; cases t <;> simp_all [H4, H5, endsClause, isIdTok])))
    (by simpa using hw.metaD.1) hw.metaD.2]
  simp only [List.nil_append]
  rw [preStage_pr s.requires hw.requires f _ (by omega)
    (headP_of_heads g5 (by intro t ht; cases t <;> simp_all [H5, endsClause, contList, contExpr, contParts, contPart]))
    (headP_of_heads g5 (by intro t ht; cases t <;> simp_all [H5, endsClause]))]
  simp only [Option.bind_some]
  rw [rchStage_pr s.reaches hw.reaches f _ (by omega) hr]
  rfl


/-! ### asset bodies -/

theorem parseAssetBody_zero (vs : List (String × Expr)) (ss : List CStep) (ts : List Tok) :
    parseAssetBody 0 vs ss ts = none := by simp only [parseAssetBody]

theorem parseAssetBody_rcurly (f : Nat) (vs : List (String × Expr)) (ss : List CStep) (rest : List Tok) :
    parseAssetBody (f+1) vs ss (.rcurly :: rest) = some ((vs, ss), rest) := by simp only [parseAssetBody]

theorem parseAssetBody_let (f : Nat) (vs : List (String × Expr)) (ss : List CStep) (v : String) (rest : List Tok) :
    parseAssetBody (f+1) vs ss (.kwLet :: .id v :: .assign :: rest) =
      (parseExpr f false rest).bind (fun r => parseAssetBody f (vs ++ [(v, r.1)]) ss r.2) := by
  simp only [parseAssetBody]
  cases parseExpr f false rest <;> rfl

theorem parseAssetBody_step (f : Nat) (vs : List (String × Expr)) (ss : List CStep) (ts : List Tok)
    (h1 : ∀ r, ts ≠ .rcurly :: r) (h2 : ∀ v r, ts ≠ .kwLet :: .id v :: .assign :: r) :
    parseAssetBody (f+1) vs ss ts =
      (parseStep f ts).bind (fun r => parseAssetBody f vs (ss ++ [r.1]) r.2) := by
  rw [parseAssetBody.eq_def]
  simp only
  cases parseStep f ts <;> rfl

theorem clauseEnd_prSteps (ss : List CStep) (rest : List Tok) : clauseEnd (prSteps ss ++ .rcurly :: rest) = true := by
  cases ss with
  | nil => rfl
  | cons s ss => simp only [prSteps, prStep, List.cons_append, clauseEnd]; exact endsClause_stepTok _

theorem clauseEnd_prVars (vs : List (String × Expr)) (X : List Tok) (h : clauseEnd X = true) :
    clauseEnd (prVars vs ++ X) = true := by
  cases vs with
  | nil => exact h
  | cons ve vs => obtain ⟨v, e⟩ := ve; rfl

theorem parseAssetBody_prSteps (ss : List CStep) (hw : ∀ s ∈ ss, WFStep s) (f : Nat) (vs0 : List (String × Expr))
    (ss0 : List CStep) (rest : List Tok) (hf : 2 * (prSteps ss).length + 3 ≤ f) :
    parseAssetBody f vs0 ss0 (prSteps ss ++ .rcurly :: rest) = some ((vs0, ss0 ++ ss), rest) := by
  induction ss generalizing f ss0 with
  | nil =>
    obtain ⟨f, rfl⟩ : ∃ g, f = g + 1 := ⟨f - 1, by omega⟩
    simp only [prSteps, List.nil_append, List.append_nil]
    exact parseAssetBody_rcurly _ _ _ _
  | cons s ss ih =>
    obtain ⟨f, rfl⟩ : ∃ g, f = g + 1 := ⟨f - 1, by omega⟩
    simp only [prSteps, List.length_append] at hf
    have h2 : 2 ≤ (prStep s).length := by simp [prStep]
    simp only [prSteps, List.append_assoc]
    rw [parseAssetBody_step]
    · rw [parseStep_prStep s (hw s (by simp)) f _ (clauseEnd_prSteps ss rest) (by omega)]
      simp only [Option.bind_some]
      rw [ih (fun x hx => hw x (by simp [hx])) f _ (by omega)]
      simp
    · intro r h
      have := endsClause_stepTok s.type
      simp only [prStep, List.cons_append, List.cons.injEq] at h
      unfold stepTok at h; repeat' split at h
      all_goals simp at h
    · intro v r h
      simp only [prStep, List.cons_append, List.cons.injEq] at h
      unfold stepTok at h; repeat' split at h
      all_goals simp at h

theorem prVars_wf_tail {vs : List (String × Expr)} {v : String} {e : Expr}
    (h : ∀ x ∈ (v, e) :: vs, noStep x.2 = true) : ∀ x ∈ vs, noStep x.2 = true :=
  fun x hx => h x (by simp [hx])

theorem parseAssetBody_prVars (vs : List (String × Expr)) (hv : ∀ x ∈ vs, noStep x.2 = true)
    (ss : List CStep) (hw : ∀ s ∈ ss, WFStep s) (f : Nat) (vs0 : List (String × Expr)) (rest : List Tok)
    (hf : 2 * ((prVars vs).length + (prSteps ss).length) + 3 ≤ f) :
    parseAssetBody f vs0 [] (prVars vs ++ (prSteps ss ++ .rcurly :: rest)) = some ((vs0 ++ vs, ss), rest) := by
  induction vs generalizing f vs0 with
  | nil =>
    simp only [prVars, List.nil_append, List.append_nil]
    rw [parseAssetBody_prSteps ss hw f vs0 [] rest (by simp [prVars] at hf; omega)]
    simp
  | cons ve vs ih =>
    obtain ⟨v, e⟩ := ve
    obtain ⟨f, rfl⟩ : ∃ g, f = g + 1 := ⟨f - 1, by omega⟩
    simp only [prVars, List.length_cons, List.length_append] at hf
    have hlen : (pr0 e).length = (prExpr 0 false e).length := rfl
    simp only [prVars, List.cons_append, List.append_assoc]
    have hce := clauseEnd_prVars vs _ (clauseEnd_prSteps ss rest)
    rw [parseAssetBody_let, parseExpr_prExpr e f false _ (cls_false_of_noStep _ e (hv (v, e) (by simp)))
      (clauseEnd_contExpr _ hce) (by omega)]
    simp only [Option.bind_some]
    rw [ih (prVars_wf_tail hv) f _ (by omega)]
    simp

/-! ### assets -/

def assetHdr (ts : List Tok) : Option (Bool × String × List Tok) :=
  match ts with
  | .kwAbstract :: .kwAsset :: .id n :: rest => some (true, n, rest)
  | .kwAsset :: .id n :: rest => some (false, n, rest)
  | _ => none

def assetSup (r1 : List Tok) : Option String × List Tok :=
  match r1 with
  | .kwExtends :: .id s :: r => (some s, r)
  | _ => (none, r1)

def assetBodyStage (f : Nat) (cat : String) (abs : Bool) (name : String) (sup : Option String) (md : Meta)
    (r3 : List Tok) : P CAsset :=
  match r3 with
  | .lcurly :: r4 =>
    (parseAssetBody f [] [] r4).map (fun x =>
      ({ name := name, metaD := md, category := cat, isAbstract := abs, superAsset := sup,
         variables := x.1.1, steps := x.1.2 }, x.2))
  | _ => none

theorem parseAsset_eq (f : Nat) (cat : String) (ts : List Tok) :
    parseAsset f cat ts =
      (assetHdr ts).bind fun h =>
        assetBodyStage f cat h.1 h.2.1 (assetSup h.2.2).1 (parseMetas f [] (assetSup h.2.2).2).1
          (parseMetas f [] (assetSup h.2.2).2).2 := by
  unfold parseAsset
  simp only
  split
  · rename_i h
    have h' : assetHdr ts = none := h
    rw [h']; rfl
  · rename_i abs name r1 h
    have h' : assetHdr ts = some (abs, name, r1) := h
    rw [h']; rfl

structure WFAsset (a : CAsset) : Prop where
  metaD : WFMeta a.metaD
  variables : ∀ x ∈ a.variables, noStep x.2 = true
  steps : ∀ s ∈ a.steps, WFStep s

def prSuper (s : Option String) : List Tok :=
  match s with | some s => [.kwExtends, .id s] | none => []

theorem prAsset_eq (a : CAsset) :
    prAsset a = (if a.isAbstract then [.kwAbstract] else []) ++ .kwAsset :: .id a.name ::
      (prSuper a.superAsset ++ (prMetas a.metaD ++ .lcurly :: (prVars a.variables ++ (prSteps a.steps ++ [.rcurly])))) := by
  unfold prAsset prSuper
  cases a.superAsset <;> simp

theorem assetHdr_pr (abs : Bool) (name : String) (X : List Tok) :
    assetHdr ((if abs then [.kwAbstract] else []) ++ .kwAsset :: .id name :: X) = some (abs, name, X) := by
  cases abs <;> rfl

theorem assetSup_pr (s : Option String) (X : List Tok) (hX : headP (· == .kwExtends) X = false) :
    assetSup (prSuper s ++ X) = (s, X) := by
  cases s with
  | some s => rfl
  | none =>
    simp only [prSuper, List.nil_append]
    unfold assetSup
    split
    · simp [headP] at hX
    · rfl

theorem headP_prMetas_lcurly (p : Tok → Bool) (m : Meta) (X : List Tok) (h1 : ∀ s, p (.id s) = false)
    (h2 : p .lcurly = false) : headP p (prMetas m ++ .lcurly :: X) = false := by
  cases m with
  | nil => exact h2
  | cons kv m => obtain ⟨k, v⟩ := kv; exact h1 k

/-- the printed asset parses back -/
theorem parseAsset_prAsset (a : CAsset) (hw : WFAsset a) (f : Nat) (rest : List Tok)
    (hf : 2 * (prAsset a).length + 1 ≤ f) : parseAsset f a.category (prAsset a ++ rest) = some (a, rest) := by
  rw [prAsset_eq] at hf ⊢
  have hlm := prMetas_length a.metaD
  simp only [List.length_append, List.length_cons, List.length_nil] at hf
  simp only [List.append_assoc, List.cons_append, List.nil_append]
  rw [parseAsset_eq, assetHdr_pr]
  simp only [Option.bind_some]
  rw [assetSup_pr _ _ (headP_prMetas_lcurly _ _ _ (fun _ => rfl) rfl)]
  simp only
  rw [parseMetas_prMetas a.metaD f [] _ (by omega) rfl (by simpa using hw.metaD.1) hw.metaD.2]
  simp only [List.nil_append]
  unfold assetBodyStage
  simp only
  rw [parseAssetBody_prVars a.variables hw.variables a.steps hw.steps f [] rest (by omega)]
  rfl

/-! ### lists of assets -/

theorem parseAssets_zero (cat : String) (acc : List CAsset) (ts : List Tok) : parseAssets 0 cat acc ts = none := by
  simp only [parseAssets]

theorem parseAssets_rcurly (f : Nat) (cat : String) (acc : List CAsset) (rest : List Tok) :
    parseAssets (f+1) cat acc (.rcurly :: rest) = some (acc, rest) := by simp only [parseAssets]

theorem parseAssets_asset (f : Nat) (cat : String) (acc : List CAsset) (ts : List Tok) (h : ∀ r, ts ≠ .rcurly :: r) :
    parseAssets (f+1) cat acc ts =
      (parseAsset f cat ts).bind (fun r => parseAssets f cat (acc ++ [r.1]) r.2) := by
  rw [parseAssets.eq_def]
  simp only
  cases parseAsset f cat ts <;> rfl

theorem prAsset_length_pos (a : CAsset) : 4 ≤ (prAsset a).length := by
  rw [prAsset_eq]; simp; omega

theorem prAsset_head (a : CAsset) (X : List Tok) : ∀ r, prAsset a ++ X ≠ .rcurly :: r := by
  intro r h
  rw [prAsset_eq] at h
  cases hab : a.isAbstract <;> simp [hab] at h

theorem parseAssets_prAssets (as : List CAsset) (cat : String) (hc : ∀ a ∈ as, a.category = cat)
    (hw : ∀ a ∈ as, WFAsset a) (f : Nat) (acc : List CAsset) (rest : List Tok)
    (hf : 2 * (prAssets as).length + 3 ≤ f) :
    parseAssets f cat acc (prAssets as ++ .rcurly :: rest) = some (acc ++ as, rest) := by
  induction as generalizing f acc with
  | nil =>
    obtain ⟨f, rfl⟩ : ∃ g, f = g + 1 := ⟨f - 1, by omega⟩
    simp only [prAssets, List.nil_append, List.append_nil]
    exact parseAssets_rcurly _ _ _ _
  | cons a as ih =>
    obtain ⟨f, rfl⟩ : ∃ g, f = g + 1 := ⟨f - 1, by omega⟩
    simp only [prAssets, List.length_append] at hf
    have h4 := prAsset_length_pos a
    simp only [prAssets, List.append_assoc]
    rw [parseAssets_asset _ _ _ _ (prAsset_head a _), ← hc a (by simp),
      parseAsset_prAsset a (hw a (by simp)) f _ (by omega)]
    simp only [Option.bind_some]
    rw [hc a (by simp), ih (fun x hx => hc x (by simp [hx])) (fun x hx => hw x (by simp [hx])) f _ (by omega)]
    simp



/-! ### associations -/

def assocTail (f : Nat) (la lf : String) (lm : Nat × Option Nat) (name : String) (r2 : List Tok) : P CAssoc :=
  match parseMult r2 with
  | some (rm, .lsquare :: .id rf :: .rsquare :: .id ra :: r3) =>
    some ({ name := name, metaD := (parseMetas f [] r3).1, leftAsset := la, leftField := lf, leftMin := lm.1,
            leftMax := lm.2, rightAsset := ra, rightField := rf, rightMin := rm.1, rightMax := rm.2 },
          (parseMetas f [] r3).2)
  | _ => none

def assocMid (f : Nat) (la lf : String) (r1 : List Tok) : P CAssoc :=
  match parseMult r1 with
  | some (lm, .larrow :: .id name :: .rarrow :: r2) => assocTail f la lf lm name r2
  | _ => none

theorem parseAssociation_eq (f : Nat) (la lf : String) (r1 : List Tok) :
    parseAssociation f (.id la :: .lsquare :: .id lf :: .rsquare :: r1) = assocMid f la lf r1 := by
  unfold parseAssociation assocMid assocTail
  rfl

theorem parseAssociation_none (f : Nat) (ts : List Tok)
    (h : ∀ la lf r1, ts ≠ .id la :: .lsquare :: .id lf :: .rsquare :: r1) : parseAssociation f ts = none := by
  unfold parseAssociation
  split
  · exact absurd rfl (h _ _ _)
  · rfl

structure WFAssoc (a : CAssoc) : Prop where
  metaD : WFMeta a.metaD

/-- the printed association parses back; what follows is the next association or `}` -/
theorem parseAssociation_prAssoc (a : CAssoc) (hw : WFAssoc a) (f : Nat) (rest : List Tok)
    (hr : metaStart rest = false) (hf : a.metaD.length ≤ f) :
    parseAssociation f (prAssoc a ++ rest) = some (a, rest) := by
  simp only [prAssoc, List.cons_append, List.append_assoc]
  rw [parseAssociation_eq]
  unfold assocMid
  rw [parseMult_prMult _ _ _ rfl]
  simp only
  unfold assocTail
  rw [parseMult_prMult _ _ _ rfl]
  simp only
  rw [parseMetas_prMetas a.metaD f [] rest hf hr (by simpa using hw.metaD.1) hw.metaD.2]
  rfl

theorem parseAssociationsBody_zero (acc : List CAssoc) (ts : List Tok) : parseAssociationsBody 0 acc ts = none := by
  simp only [parseAssociationsBody]

theorem parseAssociationsBody_rcurly (f : Nat) (acc : List CAssoc) (rest : List Tok) :
    parseAssociationsBody (f+1) acc (.rcurly :: rest) = some (acc, rest) := by simp only [parseAssociationsBody]

theorem parseAssociationsBody_assoc (f : Nat) (acc : List CAssoc) (ts : List Tok) (h : ∀ r, ts ≠ .rcurly :: r) :
    parseAssociationsBody (f+1) acc ts =
      (parseAssociation f ts).bind (fun r => parseAssociationsBody f (acc ++ [r.1]) r.2) := by
  rw [parseAssociationsBody.eq_def]
  simp only
  cases parseAssociation f ts <;> rfl

theorem metaStart_prAssocs (as : List CAssoc) (rest : List Tok) : metaStart (prAssocs as ++ .rcurly :: rest) = false := by
  cases as with
  | nil => rfl
  | cons a as => rfl

theorem prAssoc_length (a : CAssoc) : 13 + 4 * a.metaD.length ≤ (prAssoc a).length := by
  have := prMetas_length a.metaD
  have h1 : ∀ lo hi, 1 ≤ (prMult lo hi).length := by
    intro lo hi; unfold prMult; cases hi <;> simp only <;> split <;> simp
  have := h1 a.leftMin a.leftMax
  have := h1 a.rightMin a.rightMax
  simp only [prAssoc, List.length_cons, List.length_append]
  omega

theorem parseAssociationsBody_prAssocs (as : List CAssoc) (hw : ∀ a ∈ as, WFAssoc a) (f : Nat)
    (acc : List CAssoc) (rest : List Tok) (hf : (prAssocs as).length + 1 ≤ f) :
    parseAssociationsBody f acc (prAssocs as ++ .rcurly :: rest) = some (acc ++ as, rest) := by
  induction as generalizing f acc with
  | nil =>
    obtain ⟨f, rfl⟩ : ∃ g, f = g + 1 := ⟨f - 1, by omega⟩
    simp only [prAssocs, List.nil_append, List.append_nil]
    exact parseAssociationsBody_rcurly _ _ _
  | cons a as ih =>
    obtain ⟨f, rfl⟩ : ∃ g, f = g + 1 := ⟨f - 1, by omega⟩
    simp only [prAssocs, List.length_append] at hf
    have h4 := prAssoc_length a
    simp only [prAssocs, List.append_assoc]
    rw [parseAssociationsBody_assoc _ _ _ (by intro r h; simp [prAssoc] at h),
      parseAssociation_prAssoc a (hw a (by simp)) f _ (metaStart_prAssocs as rest) (by omega)]
    simp only [Option.bind_some]
    rw [ih (fun x hx => hw x (by simp [hx])) f _ (by omega)]
    simp



/-! ### declarations -/

def catStage (f : Nat) (n : String) (md : Meta) (r1 : List Tok) : P Decl :=
  match r1 with
  | .lcurly :: r2 => (parseAssets f n [] r2).map (fun x => (.category n md x.1, x.2))
  | _ => none

theorem parseDecl_category (f : Nat) (n : String) (rest : List Tok) :
    parseDecl f (.kwCategory :: .id n :: rest) =
      catStage f n (parseMetas f [] rest).1 (parseMetas f [] rest).2 := by
  unfold parseDecl catStage
  rfl

theorem parseDecl_define (f : Nat) (k v : String) (rest : List Tok) :
    parseDecl f (.hash :: .id k :: .colon :: .str v :: rest) = some (.define k (stripQuotes v), rest) := by
  unfold parseDecl; rfl

theorem parseDecl_include (f : Nat) (p : String) (rest : List Tok) :
    parseDecl f (.kwInclude :: .str p :: rest) = some (.incl (stripQuotes p), rest) := by
  unfold parseDecl; rfl

theorem parseDecl_associations (f : Nat) (rest : List Tok) :
    parseDecl f (.kwAssociations :: .lcurly :: rest) =
      (parseAssociationsBody f [] rest).map (fun x => (.associations x.1, x.2)) := by
  unfold parseDecl; rfl

theorem parseDecls_zero (acc : List Decl) (ts : List Tok) : parseDecls 0 acc ts = none := by
  simp only [parseDecls]

theorem parseDecls_nil (f : Nat) (acc : List Decl) : parseDecls (f+1) acc [] = some acc := by
  simp only [parseDecls]

theorem parseDecls_stop (f : Nat) (acc : List Decl) (t : Tok) (ts : List Tok) (h : startsDecl t = false) :
    parseDecls (f+1) acc (t :: ts) = some acc := by
  simp only [parseDecls, h]; rfl

theorem parseDecls_cons (f : Nat) (acc : List Decl) (t : Tok) (ts : List Tok) (h : startsDecl t = true) :
    parseDecls (f+1) acc (t :: ts) = (parseDecl f (t :: ts)).bind (fun r => parseDecls f (acc ++ [r.1]) r.2) := by
  simp only [parseDecls, h, if_true]
  cases parseDecl f (t :: ts) <;> rfl

/-- the declarations a specification is printed as -/
def declsOf (s : CSpec) : List Decl :=
  s.defines.map (fun kv => Decl.define kv.1 kv.2) ++
    (s.categories.map (fun c => Decl.category c.1 c.2 (s.assets.filter (·.category = c.1))) ++
      (if s.associations = [] then [] else [Decl.associations s.associations]))

theorem parseDecls_prDefines (ds : List (String × String)) (hq : ∀ kv ∈ ds, noQuote kv.2) (f : Nat)
    (acc : List Decl) (Y : List Tok) (hf : ds.length ≤ f) :
    parseDecls f acc (prDefines ds ++ Y) =
      parseDecls (f - ds.length) (acc ++ ds.map (fun kv => Decl.define kv.1 kv.2)) Y := by
  induction ds generalizing f acc with
  | nil => simp [prDefines]
  | cons kv ds ih =>
    obtain ⟨k, v⟩ := kv
    obtain ⟨f, rfl⟩ : ∃ g, f = g + 1 := ⟨f - 1, by simp at hf; omega⟩
    simp only [prDefines, List.cons_append]
    rw [parseDecls_cons _ _ _ _ rfl, parseDecl_define, stripQuotes_quote v (hq (k, v) (by simp))]
    simp only [Option.bind_some]
    rw [ih (fun x hx => hq x (by simp [hx])) f _ (by simpa using hf)]
    simp

theorem prCategories_length (A : List CAsset) (cs : List (String × Meta)) :
    4 * cs.length ≤ (prCategories A cs).length := by
  induction cs with
  | nil => simp [prCategories]
  | cons c cs ih => obtain ⟨n, m⟩ := c; simp only [prCategories, List.length_cons, List.length_append]; omega

theorem parseDecls_prCategories (A : List CAsset) (hA : ∀ a ∈ A, WFAsset a) (cs : List (String × Meta))
    (hm : ∀ c ∈ cs, WFMeta c.2) (f : Nat) (acc : List Decl) (Y : List Tok)
    (hf : 2 * (prCategories A cs).length + 4 ≤ f) :
    parseDecls f acc (prCategories A cs ++ Y) =
      parseDecls (f - cs.length)
        (acc ++ cs.map (fun c => Decl.category c.1 c.2 (A.filter (·.category = c.1)))) Y := by
  induction cs generalizing f acc with
  | nil => simp [prCategories]
  | cons c cs ih =>
    obtain ⟨n, m⟩ := c
    obtain ⟨f, rfl⟩ : ∃ g, f = g + 1 := ⟨f - 1, by omega⟩
    simp only [prCategories, List.length_cons, List.length_append] at hf
    have hlm := prMetas_length m
    simp only [prCategories, List.cons_append, List.append_assoc]
    rw [parseDecls_cons _ _ _ _ rfl, parseDecl_category,
      parseMetas_prMetas m f [] _ (by omega) rfl (by simpa using (hm (n, m) (by simp)).1) (hm (n, m) (by simp)).2]
    unfold catStage
    simp only [List.nil_append]
    rw [parseAssets_prAssets (A.filter (·.category = n)) n (by intro a ha; simpa using (List.mem_filter.mp ha).2)
      (fun a ha => hA a (List.mem_filter.mp ha).1) f [] _ (by omega)]
    simp only [Option.map_some, Option.bind_some, List.nil_append]
    rw [ih (fun x hx => hm x (by simp [hx])) f _ (by omega)]
    simp

theorem parseDecls_assocBlock (as : List CAssoc) (hw : ∀ a ∈ as, WFAssoc a) (f : Nat) (acc : List Decl)
    (Y : List Tok) (hf : (prAssocs as).length + 1 ≤ f) :
    parseDecls (f+1) acc (.kwAssociations :: .lcurly :: (prAssocs as ++ .rcurly :: Y)) =
      parseDecls f (acc ++ [Decl.associations as]) Y := by
  rw [parseDecls_cons _ _ _ _ rfl, parseDecl_associations, parseAssociationsBody_prAssocs as hw f [] Y hf]
  simp

structure WFSpec (s : CSpec) : Prop where
  defKeys : (s.defines.map (·.1)).Nodup
  defVals : ∀ kv ∈ s.defines, noQuote kv.2
  /-- no two categories that are equal for Python's `==` (i.e. up to the order of their meta entries) -/
  catNodup : s.categories.Pairwise (fun a b => catEqv b a = false)
  catMeta : ∀ c ∈ s.categories, WFMeta c.2
  /-- no two assets that are equal for Python's `==` (up to the order of meta entries and the spelling of numbers) -/
  assetNodup : s.assets.Pairwise (fun a b => assetEqv b a = false)
  assetWF : ∀ a ∈ s.assets, WFAsset a
  /-- the assets are listed category by category, in the order of the categories -/
  grouped : s.assets = s.categories.flatMap (fun c => s.assets.filter (·.category = c.1))
  assocNodup : s.associations.Pairwise (fun a b => assocEqv b a = false)
  assocWF : ∀ a ∈ s.associations, WFAssoc a

theorem prDefines_length (ds : List (String × String)) : (prDefines ds).length = 4 * ds.length := by
  induction ds with
  | nil => rfl
  | cons kv ds ih => obtain ⟨k, v⟩ := kv; simp [prDefines, ih]; omega

/-- the first token of a non-empty printed specification starts a declaration -/
theorem prSpec_head (s : CSpec) (t : Tok) (r : List Tok) (h : prSpec s = t :: r) : startsDecl t = true := by
  unfold prSpec at h
  cases hd : s.defines with
  | cons kv ds => obtain ⟨k, v⟩ := kv; simp [hd, prDefines] at h; rw [← h.1]; rfl
  | nil =>
    cases hc : s.categories with
    | cons c cs => obtain ⟨n, m⟩ := c; simp [hd, hc, prDefines, prCategories] at h; rw [← h.1]; rfl
    | nil =>
      cases ha : s.associations with
      | cons a as => simp [hd, hc, ha, prDefines, prCategories] at h; rw [← h.1]; rfl
      | nil => simp [hd, hc, ha, prDefines, prCategories] at h

/-- nothing printed: no defines, categories, associations -/
theorem declsOf_of_prSpec_nil (s : CSpec) (h : prSpec s = []) : declsOf s = [] := by
  have hd : s.defines = [] := by
    cases hs : s.defines with
    | nil => rfl
    | cons kv ds => obtain ⟨k, v⟩ := kv; simp [prSpec, hs, prDefines] at h
  have hc : s.categories = [] := by
    cases hs : s.categories with
    | nil => rfl
    | cons c cs => obtain ⟨n, m⟩ := c; simp [prSpec, hd, hs, prDefines, prCategories] at h
  have ha : s.associations = [] := by
    cases hs : s.associations with
    | nil => rfl
    | cons a as => simp [prSpec, hd, hc, hs, prDefines, prCategories] at h
  simp [declsOf, hd, hc, ha]

/-- the printed specification parses to its declarations (the prefix parser of the grammar as written) -/
theorem parseMalPrefix_prSpec (s : CSpec) (hw : WFSpec s) : parseMalPrefix (prSpec s) = some (declsOf s) := by
  unfold parseMalPrefix
  split
  · rename_i h
    -- nothing printed: no defines, categories, associations
    have hd : s.defines = [] := by
      cases hs : s.defines with
      | nil => rfl
      | cons kv ds => obtain ⟨k, v⟩ := kv; simp [prSpec, hs, prDefines] at h
    have hc : s.categories = [] := by
      cases hs : s.categories with
      | nil => rfl
      | cons c cs => obtain ⟨n, m⟩ := c; simp [prSpec, hd, hs, prDefines, prCategories] at h
    have ha : s.associations = [] := by
      cases hs : s.associations with
      | nil => rfl
      | cons a as => simp [prSpec, hd, hc, hs, prDefines, prCategories] at h
    simp [declsOf, hd, hc, ha]
  · rename_i t r h
    have hst : startsDecl t = true := by
      unfold prSpec at h
      cases hd : s.defines with
      | cons kv ds => obtain ⟨k, v⟩ := kv; simp [hd, prDefines] at h; rw [← h.1]; rfl
      | nil =>
        cases hc : s.categories with
        | cons c cs => obtain ⟨n, m⟩ := c; simp [hd, hc, prDefines, prCategories] at h; rw [← h.1]; rfl
        | nil =>
          cases ha : s.associations with
          | cons a as => simp [hd, hc, ha, prDefines, prCategories] at h; rw [← h.1]; rfl
          | nil => simp [hd, hc, ha, prDefines, prCategories] at h
    rw [if_pos hst]
    have hl1 := prDefines_length s.defines
    have hl2 := prCategories_length s.assets s.categories
    unfold prSpec declsOf
    simp only [List.append_assoc]
    generalize hF : 2 * (prDefines s.defines ++ (prCategories s.assets s.categories ++
      if s.associations = [] then [] else
        Tok.kwAssociations :: Tok.lcurly :: (prAssocs s.associations ++ [Tok.rcurly]))).length + 8 = F
    simp only [List.length_append] at hF
    rw [parseDecls_prDefines s.defines hw.defVals F [] _ (by omega),
      parseDecls_prCategories s.assets hw.assetWF s.categories hw.catMeta _ _ _ (by omega)]
    by_cases ha : s.associations = []
    · simp only [ha, if_true, List.nil_append, List.append_nil]
      obtain ⟨g, hg⟩ : ∃ g, F - s.defines.length - s.categories.length = g + 1 :=
        ⟨F - s.defines.length - s.categories.length - 1, by omega⟩
      rw [hg, parseDecls_nil]
    · simp only [ha, if_false, List.nil_append] at hF ⊢
      simp only [List.length_cons, List.length_append, List.length_nil] at hF
      obtain ⟨g, hg⟩ : ∃ g, F - s.defines.length - s.categories.length = g + 2 :=
        ⟨F - s.defines.length - s.categories.length - 2, by omega⟩
      have : prAssocs s.associations ++ [Tok.rcurly] = prAssocs s.associations ++ Tok.rcurly :: [] := rfl
      rw [hg, this, parseDecls_assocBlock s.associations hw.assocWF (g+1) _ [] (by omega), parseDecls_nil]
      simp

/-! #### the same with the unconsumed tokens (`parseDeclsRest`, `parseMalRest`) and the compiler's `parseMal` -/

theorem parseDeclsRest_zero (acc : List Decl) (ts : List Tok) : parseDeclsRest 0 acc ts = none := by
  simp only [parseDeclsRest]

theorem parseDeclsRest_nil (f : Nat) (acc : List Decl) : parseDeclsRest (f+1) acc [] = some (acc, []) := by
  simp only [parseDeclsRest]

theorem parseDeclsRest_stop (f : Nat) (acc : List Decl) (t : Tok) (ts : List Tok) (h : startsDecl t = false) :
    parseDeclsRest (f+1) acc (t :: ts) = some (acc, t :: ts) := by
  simp only [parseDeclsRest, h]; rfl

theorem parseDeclsRest_cons (f : Nat) (acc : List Decl) (t : Tok) (ts : List Tok) (h : startsDecl t = true) :
    parseDeclsRest (f+1) acc (t :: ts) =
      (parseDecl f (t :: ts)).bind (fun r => parseDeclsRest f (acc ++ [r.1]) r.2) := by
  simp only [parseDeclsRest, h, if_true]
  cases parseDecl f (t :: ts) <;> rfl

/-- `parseDecls` is `parseDeclsRest` without the rest -/
theorem parseDecls_eq_rest (f : Nat) (acc : List Decl) (ts : List Tok) :
    parseDecls f acc ts = (parseDeclsRest f acc ts).map (·.1) := by
  induction f generalizing acc ts with
  | zero => rw [parseDecls_zero, parseDeclsRest_zero]; rfl
  | succ f ih =>
    cases ts with
    | nil => rw [parseDecls_nil, parseDeclsRest_nil]; rfl
    | cons t r =>
      cases hs : startsDecl t with
      | false => rw [parseDecls_stop _ _ _ _ hs, parseDeclsRest_stop _ _ _ _ hs]; rfl
      | true =>
        rw [parseDecls_cons _ _ _ _ hs, parseDeclsRest_cons _ _ _ _ hs]
        cases parseDecl f (t :: r) with
        | none => rfl
        | some x => simp only [Option.bind_some]; exact ih _ _

/-- the prefix parser is `parser.mal()` without looking at what is left in the stream -/
theorem parseMalPrefix_eq_rest (ts : List Tok) : parseMalPrefix ts = (parseMalRest ts).map (·.1) := by
  unfold parseMalPrefix parseMalRest
  cases ts with
  | nil => rfl
  | cons t r =>
    simp only
    split
    · exact parseDecls_eq_rest _ _ _
    · rfl

theorem parseDeclsRest_prDefines (ds : List (String × String)) (hq : ∀ kv ∈ ds, noQuote kv.2) (f : Nat)
    (acc : List Decl) (Y : List Tok) (hf : ds.length ≤ f) :
    parseDeclsRest f acc (prDefines ds ++ Y) =
      parseDeclsRest (f - ds.length) (acc ++ ds.map (fun kv => Decl.define kv.1 kv.2)) Y := by
  induction ds generalizing f acc with
  | nil => simp [prDefines]
  | cons kv ds ih =>
    obtain ⟨k, v⟩ := kv
    obtain ⟨f, rfl⟩ : ∃ g, f = g + 1 := ⟨f - 1, by simp at hf; omega⟩
    simp only [prDefines, List.cons_append]
    rw [parseDeclsRest_cons _ _ _ _ rfl, parseDecl_define, stripQuotes_quote v (hq (k, v) (by simp))]
    simp only [Option.bind_some]
    rw [ih (fun x hx => hq x (by simp [hx])) f _ (by simpa using hf)]
    simp

theorem parseDeclsRest_prCategories (A : List CAsset) (hA : ∀ a ∈ A, WFAsset a) (cs : List (String × Meta))
    (hm : ∀ c ∈ cs, WFMeta c.2) (f : Nat) (acc : List Decl) (Y : List Tok)
    (hf : 2 * (prCategories A cs).length + 4 ≤ f) :
    parseDeclsRest f acc (prCategories A cs ++ Y) =
      parseDeclsRest (f - cs.length)
        (acc ++ cs.map (fun c => Decl.category c.1 c.2 (A.filter (·.category = c.1)))) Y := by
  induction cs generalizing f acc with
  | nil => simp [prCategories]
  | cons c cs ih =>
    obtain ⟨n, m⟩ := c
    obtain ⟨f, rfl⟩ : ∃ g, f = g + 1 := ⟨f - 1, by omega⟩
    simp only [prCategories, List.length_cons, List.length_append] at hf
    have hlm := prMetas_length m
    simp only [prCategories, List.cons_append, List.append_assoc]
    rw [parseDeclsRest_cons _ _ _ _ rfl, parseDecl_category,
      parseMetas_prMetas m f [] _ (by omega) rfl (by simpa using (hm (n, m) (by simp)).1) (hm (n, m) (by simp)).2]
    unfold catStage
    simp only [List.nil_append]
    rw [parseAssets_prAssets (A.filter (·.category = n)) n (by intro a ha; simpa using (List.mem_filter.mp ha).2)
      (fun a ha => hA a (List.mem_filter.mp ha).1) f [] _ (by omega)]
    simp only [Option.map_some, Option.bind_some, List.nil_append]
    rw [ih (fun x hx => hm x (by simp [hx])) f _ (by omega)]
    simp

theorem parseDeclsRest_assocBlock (as : List CAssoc) (hw : ∀ a ∈ as, WFAssoc a) (f : Nat) (acc : List Decl)
    (Y : List Tok) (hf : (prAssocs as).length + 1 ≤ f) :
    parseDeclsRest (f+1) acc (.kwAssociations :: .lcurly :: (prAssocs as ++ .rcurly :: Y)) =
      parseDeclsRest f (acc ++ [Decl.associations as]) Y := by
  rw [parseDeclsRest_cons _ _ _ _ rfl, parseDecl_associations, parseAssociationsBody_prAssocs as hw f [] Y hf]
  simp

/-- `parser.mal()` on a printed specification: its declarations, and nothing is left in the stream -/
theorem parseMalRest_prSpec (s : CSpec) (hw : WFSpec s) : parseMalRest (prSpec s) = some (declsOf s, []) := by
  unfold parseMalRest
  split
  · rename_i h
    rw [declsOf_of_prSpec_nil s h]
  · rename_i t r h
    rw [if_pos (prSpec_head s t r h)]
    have hl1 := prDefines_length s.defines
    have hl2 := prCategories_length s.assets s.categories
    unfold prSpec declsOf
    simp only [List.append_assoc]
    generalize hF : 2 * (prDefines s.defines ++ (prCategories s.assets s.categories ++
      if s.associations = [] then [] else
        Tok.kwAssociations :: Tok.lcurly :: (prAssocs s.associations ++ [Tok.rcurly]))).length + 8 = F
    simp only [List.length_append] at hF
    rw [parseDeclsRest_prDefines s.defines hw.defVals F [] _ (by omega),
      parseDeclsRest_prCategories s.assets hw.assetWF s.categories hw.catMeta _ _ _ (by omega)]
    by_cases ha : s.associations = []
    · simp only [ha, if_true, List.nil_append, List.append_nil]
      obtain ⟨g, hg⟩ : ∃ g, F - s.defines.length - s.categories.length = g + 1 :=
        ⟨F - s.defines.length - s.categories.length - 1, by omega⟩
      rw [hg, parseDeclsRest_nil]
    · simp only [ha, if_false, List.nil_append] at hF ⊢
      simp only [List.length_cons, List.length_append, List.length_nil] at hF
      obtain ⟨g, hg⟩ : ∃ g, F - s.defines.length - s.categories.length = g + 2 :=
        ⟨F - s.defines.length - s.categories.length - 2, by omega⟩
      have : prAssocs s.associations ++ [Tok.rcurly] = prAssocs s.associations ++ Tok.rcurly :: [] := rfl
      rw [hg, this, parseDeclsRest_assocBlock s.associations hw.assocWF (g+1) _ [] (by omega), parseDeclsRest_nil]
      simp

/-- the compiler's verdict in terms of `parser.mal()` -/
theorem parseMal_eq_some_iff (ts : List Tok) (ds : List Decl) :
    parseMal ts = some ds ↔ parseMalRest ts = some (ds, []) := by
  unfold parseMal
  split
  · rename_i ds' h; rw [h]; simp
  · rename_i h
    constructor
    · intro h'; exact absurd h' (by simp)
    · intro h'; exact absurd h' (h ds)

/-- **the printed specification is consumed completely**: accepted by the compiler's verdict (with `EOF` check) -/
theorem parseMal_prSpec (s : CSpec) (hw : WFSpec s) : parseMal (prSpec s) = some (declsOf s) :=
  (parseMal_eq_some_iff _ _).mpr (parseMalRest_prSpec s hw)


/-! ### first-occurrence de-duplication -/

section Dedup
variable {α : Type} [DecidableEq α]

def dedupAux (acc l : List α) : List α :=
  l.foldl (fun acc x => if acc.contains x then acc else acc ++ [x]) acc

theorem dedup_eq_aux (l : List α) : dedup l = dedupAux [] l := rfl

theorem dedupAux_append (acc a b : List α) : dedupAux acc (a ++ b) = dedupAux (dedupAux acc a) b := by
  simp [dedupAux, List.foldl_append]

theorem dedupAux_cons (acc : List α) (x : α) (l : List α) :
    dedupAux acc (x :: l) = dedupAux (if x ∈ acc then acc else acc ++ [x]) l := by
  simp [dedupAux, List.foldl_cons]

theorem mem_dedupAux (acc l : List α) (y : α) : y ∈ dedupAux acc l ↔ y ∈ acc ∨ y ∈ l := by
  induction l generalizing acc with
  | nil => simp [dedupAux]
  | cons x l ih =>
    rw [dedupAux_cons, ih]
    by_cases hx : x ∈ acc
    · simp only [hx, if_true, List.mem_cons]
      constructor
      · rintro (h | h); exact .inl h; exact .inr (.inr h)
      · rintro (h | h | h); exact .inl h; exact .inl (h ▸ hx); exact .inr h
    · simp only [hx, if_false, List.mem_append, List.mem_cons, List.mem_nil_iff, or_false]
      constructor
      · rintro ((h | h) | h); exact .inl h; exact .inr (.inl h); exact .inr (.inr h)
      · rintro (h | h | h); exact .inl (.inl h); exact .inl (.inr h); exact .inr h

theorem mem_dedup (l : List α) (y : α) : y ∈ dedup l ↔ y ∈ l := by
  rw [dedup_eq_aux, mem_dedupAux]; simp

theorem nodup_dedupAux (acc l : List α) (h : acc.Nodup) : (dedupAux acc l).Nodup := by
  induction l generalizing acc with
  | nil => exact h
  | cons x l ih =>
    rw [dedupAux_cons]
    apply ih
    by_cases hx : x ∈ acc
    · simp only [hx, if_true]; exact h
    · simp only [hx, if_false]
      rw [List.nodup_append]
      exact ⟨h, by simp, by intro a ha b hb; simp at hb; subst hb; intro hab; subst hab; exact hx ha⟩

theorem nodup_dedup (l : List α) : (dedup l).Nodup := nodup_dedupAux [] l (by simp)

/-- nothing to remove -/
theorem dedupAux_of_nodup (acc l : List α) (h : (acc ++ l).Nodup) : dedupAux acc l = acc ++ l := by
  induction l generalizing acc with
  | nil => simp [dedupAux]
  | cons x l ih =>
    rw [dedupAux_cons]
    have hx : x ∉ acc := by
      intro hx
      rw [List.nodup_append] at h
      exact h.2.2 x hx x (by simp) rfl
    simp only [hx, if_false]
    rw [ih _ (by simpa using h)]
    simp

theorem dedup_of_nodup (l : List α) (h : l.Nodup) : dedup l = l := by
  rw [dedup_eq_aux, dedupAux_of_nodup [] l (by simpa using h)]; simp

/-- everything already there -/
theorem dedupAux_of_subset (acc l : List α) (h : ∀ y ∈ l, y ∈ acc) : dedupAux acc l = acc := by
  induction l with
  | nil => rfl
  | cons x l ih =>
    rw [dedupAux_cons]
    simp only [h x (by simp), if_true]
    exact ih (fun y hy => h y (by simp [hy]))

theorem dedup_idem (l : List α) : dedup (dedup l) = dedup l := dedup_of_nodup _ (nodup_dedup l)

/-- de-duplicating a part first changes nothing -/
theorem dedup_dedup_append (a b : List α) : dedup (dedup a ++ b) = dedup (a ++ b) := by
  rw [dedup_eq_aux, dedupAux_append, ← dedup_eq_aux, dedup_idem, dedup_eq_aux (a ++ b), dedupAux_append]
  rfl

/-- a repeated block changes nothing -/
theorem dedup_repeat (a x b : List α) : dedup (a ++ x ++ b ++ x) = dedup (a ++ x ++ b) := by
  rw [dedup_eq_aux, dedupAux_append, ← dedup_eq_aux]
  apply dedupAux_of_subset
  intro y hy
  rw [mem_dedup]; simp [hy]

end Dedup

/-! ### first-occurrence de-duplication with Python's `==` (`dedupBy`, what `visitMal` does) -/

section DedupBy
variable {α : Type} (r : α → α → Bool)

def dedupByAux (acc l : List α) : List α :=
  l.foldl (fun acc x => if acc.any (r x) then acc else acc ++ [x]) acc

theorem dedupBy_eq_aux (l : List α) : dedupBy r l = dedupByAux r [] l := rfl

theorem dedupByAux_append (acc a b : List α) : dedupByAux r acc (a ++ b) = dedupByAux r (dedupByAux r acc a) b := by
  simp [dedupByAux, List.foldl_append]

theorem dedupByAux_cons (acc : List α) (x : α) (l : List α) :
    dedupByAux r acc (x :: l) = dedupByAux r (if acc.any (r x) then acc else acc ++ [x]) l := by
  simp [dedupByAux, List.foldl_cons]

/-- nothing is invented: every element of the result was in the accumulator or in the list -/
theorem mem_dedupByAux (acc l : List α) (y : α) (h : y ∈ dedupByAux r acc l) : y ∈ acc ∨ y ∈ l := by
  induction l generalizing acc with
  | nil => exact .inl h
  | cons x l ih =>
    rw [dedupByAux_cons] at h
    rcases ih _ h with h | h
    · split at h
      · exact .inl h
      · rcases List.mem_append.mp h with h | h
        · exact .inl h
        · simp only [List.mem_cons, List.not_mem_nil, or_false] at h; exact .inr (h ▸ List.mem_cons_self)
    · exact .inr (List.mem_cons_of_mem _ h)

theorem mem_dedupBy (l : List α) (y : α) (h : y ∈ dedupBy r l) : y ∈ l := by
  rcases mem_dedupByAux r [] l y h with h | h
  · cases h
  · exact h

/-- the accumulator is kept (as a prefix) -/
theorem dedupByAux_prefix (acc l : List α) : ∃ t, dedupByAux r acc l = acc ++ t := by
  induction l generalizing acc with
  | nil => exact ⟨[], by simp [dedupByAux]⟩
  | cons x l ih =>
    rw [dedupByAux_cons]
    split
    · exact ih acc
    · obtain ⟨t, ht⟩ := ih (acc ++ [x])
      exact ⟨x :: t, by rw [ht]; simp⟩

/-- every element has a representative in the result (given that it equals itself) -/
theorem rep_dedupByAux (acc l : List α) (hrefl : ∀ y ∈ l, r y y = true) :
    (∀ y ∈ l, (dedupByAux r acc l).any (r y) = true) := by
  induction l generalizing acc with
  | nil => intro y hy; cases hy
  | cons x l ih =>
    intro y hy
    rw [dedupByAux_cons]
    rcases List.mem_cons.mp hy with rfl | hy
    · obtain ⟨t, ht⟩ := dedupByAux_prefix r (if acc.any (r y) then acc else acc ++ [y]) l
      rw [ht, List.any_append]
      split
      · rename_i h; simp [h]
      · simp [hrefl y List.mem_cons_self]
    · exact ih _ (fun z hz => hrefl z (List.mem_cons_of_mem _ hz)) y hy

/-- in the result no element equals an earlier one -/
theorem pairwise_dedupByAux (acc l : List α) (h : acc.Pairwise (fun a b => r b a = false)) :
    (dedupByAux r acc l).Pairwise (fun a b => r b a = false) := by
  induction l generalizing acc with
  | nil => exact h
  | cons x l ih =>
    rw [dedupByAux_cons]
    apply ih
    split
    · exact h
    · rename_i hx
      rw [List.pairwise_append]
      refine ⟨h, by simp, ?_⟩
      intro a ha b hb
      simp only [List.mem_cons, List.not_mem_nil, or_false] at hb
      subst hb
      simp only [List.any_eq_true, not_exists, not_and, Bool.not_eq_true] at hx
      exact hx a ha

theorem pairwise_dedupBy (l : List α) : (dedupBy r l).Pairwise (fun a b => r b a = false) :=
  pairwise_dedupByAux r [] l List.Pairwise.nil

/-- nothing to remove -/
theorem dedupByAux_of_pairwise (acc l : List α) (h : (acc ++ l).Pairwise (fun a b => r b a = false)) :
    dedupByAux r acc l = acc ++ l := by
  induction l generalizing acc with
  | nil => simp [dedupByAux]
  | cons x l ih =>
    rw [dedupByAux_cons]
    have hx : acc.any (r x) = false := by
      rw [List.pairwise_append] at h
      simp only [List.any_eq_false]
      intro a ha
      simpa using h.2.2 a ha x List.mem_cons_self
    simp only [hx, Bool.false_eq_true, if_false]
    rw [ih _ (by simpa using h)]
    simp

theorem dedupBy_of_pairwise (l : List α) (h : l.Pairwise (fun a b => r b a = false)) : dedupBy r l = l := by
  rw [dedupBy_eq_aux, dedupByAux_of_pairwise r [] l (by simpa using h)]; simp

/-- everything already represented -/
theorem dedupByAux_of_rep (acc l : List α) (h : ∀ y ∈ l, acc.any (r y) = true) : dedupByAux r acc l = acc := by
  induction l with
  | nil => rfl
  | cons x l ih =>
    rw [dedupByAux_cons]
    simp only [h x List.mem_cons_self, if_true]
    exact ih (fun y hy => h y (List.mem_cons_of_mem _ hy))

theorem dedupBy_idem (l : List α) : dedupBy r (dedupBy r l) = dedupBy r l :=
  dedupBy_of_pairwise r _ (pairwise_dedupBy r l)

/-- de-duplicating a part first (an included file is de-duplicated by its own `visitMal`) changes nothing -/
theorem dedupBy_dedupBy_append (a b : List α) : dedupBy r (dedupBy r a ++ b) = dedupBy r (a ++ b) := by
  rw [dedupBy_eq_aux, dedupByAux_append, ← dedupBy_eq_aux, dedupBy_idem, dedupBy_eq_aux r (a ++ b), dedupByAux_append]
  rfl

/-- a repeated block (a file included twice) changes nothing -/
theorem dedupBy_repeat (a x b : List α) (hrefl : ∀ y ∈ x, r y y = true) :
    dedupBy r (a ++ x ++ b ++ x) = dedupBy r (a ++ x ++ b) := by
  rw [dedupBy_eq_aux, dedupByAux_append, ← dedupBy_eq_aux]
  apply dedupByAux_of_rep
  intro y hy
  rw [dedupBy_eq_aux, List.append_assoc, dedupByAux_append, dedupByAux_append]
  obtain ⟨t, ht⟩ := dedupByAux_prefix r (dedupByAux r (dedupByAux r [] a) x) b
  rw [ht, List.any_append, rep_dedupByAux r _ x hrefl y hy]
  rfl

/-- the structural `dedup` is the special case of structural equality -/
theorem dedup_eq_dedupBy [DecidableEq α] (l : List α) : dedup l = dedupBy (fun a b => decide (b = a)) l := by
  unfold dedup dedupBy
  congr 1
  funext acc x
  have : acc.contains x = acc.any (fun b => decide (b = x)) := by
    induction acc with
    | nil => rfl
    | cons c cs ih =>
      rw [List.contains_cons, List.any_cons, ih]
      congr 1
      by_cases h : x = c
      · subst h; simp
      · have h' : ¬ c = x := fun e => h e.symm
        simp [h, h']
  rw [this]

end DedupBy

/-! ### assembling the specification (`visitMal`) -/

def assembleStep (inc : String → Option CSpec) (s : CSpec) (d : Decl) : Option CSpec :=
  match d with
  | .incl p => (inc p).map (mergeSpec s)
  | .define k v => some { s with defines := metaPut s.defines k v }
  | .category n md as => some { s with categories := s.categories ++ [(n, md)], assets := s.assets ++ as }
  | .associations l => some { s with associations := s.associations ++ l }

def finishSpec (s : CSpec) : CSpec :=
  { s with categories := dedupBy catEqv s.categories, assets := dedupBy assetEqv s.assets,
           associations := dedupBy assocEqv s.associations }

def assemble (inc : String → Option CSpec) (decls : List Decl) : Option CSpec :=
  (decls.foldlM (assembleStep inc) ({} : CSpec)).map finishSpec

theorem compileFile_zero (files : String → Option String) (name : String) : compileFile files 0 name = none := by
  simp only [compileFile]

theorem compileFile_succ (files : String → Option String) (f : Nat) (name : String) :
    compileFile files (f+1) name =
      (files name).bind fun src => (parseSource src).bind (assemble (compileFile files f)) := by
  rw [compileFile]
  cases files name with
  | none => rfl
  | some src =>
    simp only [Option.bind_some]
    cases parseSource src with
    | none => rfl
    | some decls => rfl

/-- a text that lexes completely is judged by its token list -/
theorem parseSource_of_lex {src : String} {ts : List Tok} (h : lex src = some ts) : parseSource src = parseMal ts := by
  simp [parseSource, h]

/-- a text that does not lex is rejected -/
theorem parseSource_of_lex_none {src : String} (h : lex src = none) : parseSource src = none := by
  simp [parseSource, h]

/-- the control flow of the on-demand token stream (`frontEnd`) ends in a specification exactly when `parseSource`
returns it: whichever of the three ways a text with a lexical error takes, it is an error -/
theorem frontEnd_accepts_iff (src : String) (ds : List Decl) :
    frontEnd src = .spec ds ↔ parseSource src = some ds := by
  unfold frontEnd
  cases hl : lex src with
  | none =>
    rw [parseSource_of_lex_none hl]
    simp only
    constructor
    · intro h; split at h <;> exact absurd h (by simp)
    · intro h; exact absurd h (by simp)
  | some ts =>
    rw [parseSource_of_lex hl, parseMal_eq_some_iff]
    simp only
    constructor
    · intro h
      split at h
      · exact absurd h (by simp)
      · rename_i ds' hp; simp only [FrontEnd.spec.injEq] at h; rw [hp, h]
      · exact absurd h (by simp)
    · intro h; rw [h]

theorem foldl_metaPut_nodup (ds d0 : List (String × String)) (h : ((d0 ++ ds).map (·.1)).Nodup) :
    ds.foldl (fun d kv => metaPut d kv.1 kv.2) d0 = d0 ++ ds := by
  induction ds generalizing d0 with
  | nil => simp
  | cons kv ds ih =>
    obtain ⟨k, v⟩ := kv
    have hk : k ∉ d0.map (·.1) := by
      intro hk
      simp only [List.map_append, List.map_cons, List.nodup_append] at h
      exact h.2.2 k hk k (by simp) rfl
    simp only [List.foldl_cons]
    rw [metaPut_new d0 k v hk, ih (d0 ++ [(k, v)]) (by simpa using h)]
    simp

theorem foldlM_defines (inc : String → Option CSpec) (ds : List (String × String)) (s0 : CSpec) :
    (ds.map (fun kv => Decl.define kv.1 kv.2)).foldlM (assembleStep inc) s0 =
      some { s0 with defines := ds.foldl (fun d kv => metaPut d kv.1 kv.2) s0.defines } := by
  induction ds generalizing s0 with
  | nil => rfl
  | cons kv ds ih =>
    simp only [List.map_cons, List.foldlM_cons, assembleStep, Option.bind_eq_bind, Option.bind_some, List.foldl_cons]
    rw [ih]

theorem foldlM_categories (inc : String → Option CSpec) (A : List CAsset) (cs : List (String × Meta)) (s0 : CSpec) :
    (cs.map (fun c => Decl.category c.1 c.2 (A.filter (·.category = c.1)))).foldlM (assembleStep inc) s0 =
      some { s0 with categories := s0.categories ++ cs,
                     assets := s0.assets ++ cs.flatMap (fun c => A.filter (·.category = c.1)) } := by
  induction cs generalizing s0 with
  | nil => simp
  | cons c cs ih =>
    simp only [List.map_cons, List.foldlM_cons, assembleStep, Option.bind_eq_bind, Option.bind_some]
    rw [ih]
    simp [List.flatMap_cons]

/-- assembling the declarations of a printed specification gives the specification -/
theorem assemble_declsOf (inc : String → Option CSpec) (s : CSpec) (hw : WFSpec s) :
    assemble inc (declsOf s) = some s := by
  unfold assemble declsOf
  rw [List.foldlM_append, foldlM_defines]
  simp only [Option.bind_eq_bind, Option.bind_some]
  rw [List.foldlM_append, foldlM_categories]
  simp only [Option.bind_eq_bind, Option.bind_some]
  rw [foldl_metaPut_nodup s.defines [] (by simpa using hw.defKeys)]
  have hfin : finishSpec ⟨s.defines, s.categories, s.assets, s.associations⟩ = s := by
    unfold finishSpec
    simp only [dedupBy_of_pairwise _ _ hw.catNodup, dedupBy_of_pairwise _ _ hw.assetNodup,
      dedupBy_of_pairwise _ _ hw.assocNodup]
  by_cases ha : s.associations = []
  · simp only [ha, if_true, List.foldlM_nil, Option.pure_def, Option.map_some, List.nil_append]
    rw [← hw.grouped]
    rw [ha] at hfin
    exact congrArg some hfin
  · simp only [ha, if_false, List.foldlM_cons, List.foldlM_nil, assembleStep, Option.bind_eq_bind, Option.bind_some,
      Option.pure_def, Option.map_some, List.nil_append]
    rw [← hw.grouped]
    exact congrArg some hfin

/-- `compile (print s) = s` at the level of tokens: a file whose tokens are the printed specification compiles to
the specification (whatever the other files are) -/
theorem compileFile_prSpec (files : String → Option String) (f : Nat) (name src : String) (s : CSpec)
    (hw : WFSpec s) (hfile : files name = some src) (hlex : lex src = some (prSpec s)) :
    compileFile files (f+1) name = some s := by
  rw [compileFile_succ, hfile]
  simp only [Option.bind_some, parseSource_of_lex hlex, parseMal_prSpec s hw]
  exact assemble_declsOf _ s hw



/-! ### single declarations -/

def prCategory (n : String) (m : Meta) (as : List CAsset) : List Tok :=
  .kwCategory :: .id n :: (prMetas m ++ .lcurly :: (prAssets as ++ [.rcurly]))

theorem parseDecl_prDefine (f : Nat) (k v : String) (hq : noQuote v) (rest : List Tok) :
    parseDecl f (prDefines [(k, v)] ++ rest) = some (.define k v, rest) := by
  simp only [prDefines, List.cons_append, List.nil_append]
  rw [parseDecl_define, stripQuotes_quote v hq]

theorem parseDecl_prCategory (n : String) (m : Meta) (as : List CAsset) (hm : WFMeta m)
    (hc : ∀ a ∈ as, a.category = n) (hw : ∀ a ∈ as, WFAsset a) (f : Nat) (rest : List Tok)
    (hf : 2 * (prCategory n m as).length + 1 ≤ f) :
    parseDecl f (prCategory n m as ++ rest) = some (.category n m as, rest) := by
  have hlm := prMetas_length m
  simp only [prCategory, List.length_cons, List.length_append, List.length_nil] at hf
  simp only [prCategory, List.cons_append, List.append_assoc, List.nil_append]
  rw [parseDecl_category, parseMetas_prMetas m f [] _ (by omega) rfl (by simpa using hm.1) hm.2]
  unfold catStage
  simp only [List.nil_append]
  rw [parseAssets_prAssets as n hc hw f [] rest (by omega)]
  rfl

theorem parseDecl_prAssociations (as : List CAssoc) (hw : ∀ a ∈ as, WFAssoc a) (f : Nat) (rest : List Tok)
    (hf : (prAssocs as).length + 1 ≤ f) :
    parseDecl f (.kwAssociations :: .lcurly :: (prAssocs as ++ .rcurly :: rest)) = some (.associations as, rest) := by
  rw [parseDecl_associations, parseAssociationsBody_prAssocs as hw f [] rest hf]
  rfl


/-! ### small well-formedness facts -/

theorem wfMeta_nil : WFMeta [] := ⟨by simp, by simp⟩
theorem wfMeta_one (k v : String) (h : noQuote v) : WFMeta [(k, v)] := ⟨by simp, by simpa using h⟩

/-- a step with nothing but a type and a name -/
theorem wfStep_plain (n ty : String) (h : wfStepType ty = true) : WFStep { name := n, type := ty } where
  type := h
  risk := by simp
  ttc := by simp
  metaD := wfMeta_nil
  requires := by simp
  reaches := by simp

end MalVerif.Mal
