import MalVerif.Proofs.AssembleInclude
import MalVerif.Props.C04
/-!
# Every item the compiler model produces equals itself under Python's `==`

`metaEqv` (the model of `==` on `meta` dictionaries) is not reflexive on arbitrary association lists: a list with a
repeated key is not a dictionary.  The parser builds every `meta` with `metaPut` from `[]`, hence with distinct keys,
so every category, asset and association of a compiled specification equals itself (`compileFile_refl`): the
hypothesis `hrefl` of `include_repeat` / `dedup_spec` (`Props/C04.lean`) always holds for what the compiler builds.
-/
namespace MalVerif.Mal
open MalVerif (Expr)

/-! ### the `meta` dictionaries of the parser have distinct keys -/

theorem parseMetas_keys_nodup (f : Nat) (m : Meta) (ts : List Tok) (h : (m.map (·.1)).Nodup) :
    ((parseMetas f m ts).1.map (·.1)).Nodup := by
  induction f generalizing m ts with
  | zero => simpa only [parseMetas] using h
  | succ f ih =>
    unfold parseMetas
    split
    · exact ih _ _ (metaPut_keys_nodup m _ _ h)
    · exact h

theorem metaEqv_parseMetas (f : Nat) (ts : List Tok) :
    metaEqv (parseMetas f [] ts).1 (parseMetas f [] ts).1 = true :=
  MalVerif.C04.metaEqv_refl _ (parseMetas_keys_nodup f [] ts (by simp))

/-! ### reflexivity of the component relations -/

theorem numEq_refl (a : String) : numEq a a = true := by simp [numEq]

theorem listEqv_refl {α} (r : α → α → Bool) (l : List α) (h : ∀ x ∈ l, r x x = true) : listEqv r l l = true := by
  induction l with
  | nil => rfl
  | cons a as ih =>
    simp only [listEqv, Bool.and_eq_true]
    exact ⟨h a List.mem_cons_self, ih (fun x hx => h x (List.mem_cons_of_mem _ hx))⟩

theorem optEqv_refl {α} (r : α → α → Bool) (o : Option α) (h : ∀ x, o = some x → r x x = true) :
    optEqv r o o = true := by
  cases o with
  | none => rfl
  | some a => exact h a rfl

theorem ttcEqv_refl (t : TTC) : ttcEqv t t = true := by
  induction t with
  | func n a => simp [ttcEqv, listEqv_refl numEq a (fun x _ => numEq_refl x)]
  | num v => simp [ttcEqv, numEq_refl]
  | bin o l r ihl ihr => simp [ttcEqv, ihl, ihr]

theorem stepEqv_refl_of (s : CStep) (h : metaEqv s.metaD s.metaD = true) : stepEqv s s = true := by
  simp [stepEqv, h, optEqv_refl ttcEqv s.ttc (fun x _ => ttcEqv_refl x)]

theorem assetEqv_refl_of (a : CAsset) (h : metaEqv a.metaD a.metaD = true)
    (hs : ∀ s ∈ a.steps, stepEqv s s = true) : assetEqv a a = true := by
  simp [assetEqv, h, listEqv_refl stepEqv a.steps hs]

theorem assocEqv_refl_of (a : CAssoc) (h : metaEqv a.metaD a.metaD = true) : assocEqv a a = true := by
  simp [assocEqv, h]

/-! ### the parser -/

theorem parseStep_refl (f : Nat) (ts : List Tok) (s : CStep) (rest : List Tok)
    (h : parseStep f ts = some (s, rest)) : stepEqv s s = true := by
  have key : ∀ t name r, parseStep f (t :: .id name :: r) = some (s, rest) → stepEqv s s = true := by
    intro t name r h
    rw [parseStep_eq] at h
    simp only [Option.bind_eq_some_iff] at h
    obtain ⟨ty, _, c, _, tt, _, pre, _, rch, _, h⟩ := h
    simp only [Option.some.injEq, Prod.mk.injEq] at h
    obtain ⟨rfl, _⟩ := h
    exact stepEqv_refl_of _ (metaEqv_parseMetas _ _)
  unfold parseStep at h
  split at h
  · rename_i t name r
    exact key t name r (by unfold parseStep; exact h)
  · exact absurd h (by simp)

theorem parseAssetBody_refl (f : Nat) (vs : List (String × Expr)) (ss : List CStep) (ts : List Tok)
    (r : List (String × Expr) × List CStep) (rest : List Tok) (hss : ∀ s ∈ ss, stepEqv s s = true)
    (h : parseAssetBody f vs ss ts = some (r, rest)) : ∀ s ∈ r.2, stepEqv s s = true := by
  induction f generalizing vs ss ts with
  | zero => simp [parseAssetBody] at h
  | succ f ih =>
    unfold parseAssetBody at h
    split at h
    · simp only [Option.some.injEq, Prod.mk.injEq] at h
      obtain ⟨rfl, _⟩ := h
      exact hss
    · split at h
      · exact ih _ _ _ hss h
      · exact absurd h (by simp)
    · split at h
      · rename_i s rest' hs
        refine ih _ _ _ ?_ h
        intro x hx
        rcases List.mem_append.mp hx with hx | hx
        · exact hss x hx
        · simp only [List.mem_singleton] at hx
          subst hx
          exact parseStep_refl _ _ _ _ hs
      · exact absurd h (by simp)

theorem parseAsset_refl (f : Nat) (cat : String) (ts : List Tok) (a : CAsset) (rest : List Tok)
    (h : parseAsset f cat ts = some (a, rest)) : assetEqv a a = true := by
  rw [parseAsset_eq] at h
  simp only [Option.bind_eq_some_iff] at h
  obtain ⟨hd, _, h⟩ := h
  unfold assetBodyStage at h
  split at h
  · simp only [Option.map_eq_some_iff, Prod.mk.injEq] at h
    obtain ⟨x, hx, rfl, _⟩ := h
    refine assetEqv_refl_of _ (metaEqv_parseMetas _ _) ?_
    exact parseAssetBody_refl _ _ _ _ x.1 x.2 (by simp) hx
  · exact absurd h (by simp)

theorem parseAssets_refl (f : Nat) (cat : String) (acc : List CAsset) (ts : List Tok) (r : List CAsset)
    (rest : List Tok) (hacc : ∀ a ∈ acc, assetEqv a a = true) (h : parseAssets f cat acc ts = some (r, rest)) :
    ∀ a ∈ r, assetEqv a a = true := by
  induction f generalizing acc ts with
  | zero => simp [parseAssets] at h
  | succ f ih =>
    unfold parseAssets at h
    split at h
    · simp only [Option.some.injEq, Prod.mk.injEq] at h
      obtain ⟨rfl, _⟩ := h
      exact hacc
    · split at h
      · rename_i a rest' ha
        refine ih _ _ ?_ h
        intro x hx
        rcases List.mem_append.mp hx with hx | hx
        · exact hacc x hx
        · simp only [List.mem_singleton] at hx
          subst hx
          exact parseAsset_refl _ _ _ _ _ ha
      · exact absurd h (by simp)

theorem parseAssociation_refl (f : Nat) (ts : List Tok) (a : CAssoc) (rest : List Tok)
    (h : parseAssociation f ts = some (a, rest)) : assocEqv a a = true := by
  unfold parseAssociation at h
  split at h
  · split at h
    · split at h
      · simp only [Option.some.injEq, Prod.mk.injEq] at h
        obtain ⟨rfl, _⟩ := h
        exact assocEqv_refl_of _ (metaEqv_parseMetas _ _)
      · exact absurd h (by simp)
    · exact absurd h (by simp)
  · exact absurd h (by simp)

theorem parseAssociationsBody_refl (f : Nat) (acc : List CAssoc) (ts : List Tok) (r : List CAssoc)
    (rest : List Tok) (hacc : ∀ a ∈ acc, assocEqv a a = true) (h : parseAssociationsBody f acc ts = some (r, rest)) :
    ∀ a ∈ r, assocEqv a a = true := by
  induction f generalizing acc ts with
  | zero => simp [parseAssociationsBody] at h
  | succ f ih =>
    unfold parseAssociationsBody at h
    split at h
    · simp only [Option.some.injEq, Prod.mk.injEq] at h
      obtain ⟨rfl, _⟩ := h
      exact hacc
    · split at h
      · rename_i a rest' ha
        refine ih _ _ ?_ h
        intro x hx
        rcases List.mem_append.mp hx with hx | hx
        · exact hacc x hx
        · simp only [List.mem_singleton] at hx
          subst hx
          exact parseAssociation_refl _ _ _ _ ha
      · exact absurd h (by simp)

/-- a declaration all of whose items equal themselves -/
def GoodDecl : Decl → Prop
  | .category n md as => catEqv (n, md) (n, md) = true ∧ ∀ a ∈ as, assetEqv a a = true
  | .associations l => ∀ a ∈ l, assocEqv a a = true
  | _ => True

theorem parseDecl_good (f : Nat) (ts : List Tok) (d : Decl) (rest : List Tok)
    (h : parseDecl f ts = some (d, rest)) : GoodDecl d := by
  unfold parseDecl at h
  split at h
  · simp only [Option.some.injEq, Prod.mk.injEq] at h
    obtain ⟨rfl, _⟩ := h
    trivial
  · simp only [Option.some.injEq, Prod.mk.injEq] at h
    obtain ⟨rfl, _⟩ := h
    trivial
  · rename_i n rest0
    have h' : parseDecl f (.kwCategory :: .id n :: rest0) = some (d, rest) := by unfold parseDecl; exact h
    rw [parseDecl_category] at h'
    unfold catStage at h'
    split at h'
    · simp only [Option.map_eq_some_iff, Prod.mk.injEq] at h'
      obtain ⟨x, hx, rfl, _⟩ := h'
      refine ⟨?_, parseAssets_refl _ _ _ _ x.1 x.2 (by simp) hx⟩
      simp [catEqv, metaEqv_parseMetas]
    · exact absurd h' (by simp)
  · simp only [Option.map_eq_some_iff, Prod.mk.injEq] at h
    obtain ⟨x, hx, rfl, _⟩ := h
    exact parseAssociationsBody_refl _ _ _ x.1 x.2 (by simp) hx
  · exact absurd h (by simp)

theorem parseDeclsRest_good (f : Nat) (acc : List Decl) (ts : List Tok) (r : List Decl) (rest : List Tok)
    (hacc : ∀ d ∈ acc, GoodDecl d) (h : parseDeclsRest f acc ts = some (r, rest)) : ∀ d ∈ r, GoodDecl d := by
  induction f generalizing acc ts with
  | zero => simp [parseDeclsRest] at h
  | succ f ih =>
    unfold parseDeclsRest at h
    split at h
    · simp only [Option.some.injEq, Prod.mk.injEq] at h
      obtain ⟨rfl, _⟩ := h
      exact hacc
    · split at h
      · split at h
        · rename_i d rest' hd
          refine ih _ _ ?_ h
          intro x hx
          rcases List.mem_append.mp hx with hx | hx
          · exact hacc x hx
          · simp only [List.mem_singleton] at hx
            subst hx
            exact parseDecl_good _ _ _ _ hd
        · exact absurd h (by simp)
      · simp only [Option.some.injEq, Prod.mk.injEq] at h
        obtain ⟨rfl, _⟩ := h
        exact hacc

theorem parseMal_good (ts : List Tok) (ds : List Decl) (h : parseMal ts = some ds) : ∀ d ∈ ds, GoodDecl d := by
  rw [parseMal_eq_some_iff] at h
  unfold parseMalRest at h
  split at h
  · simp only [Option.some.injEq, Prod.mk.injEq] at h
    obtain ⟨rfl, _⟩ := h
    simp
  · split at h
    · exact parseDeclsRest_good _ _ _ _ _ (by simp) h
    · exact absurd h (by simp)

theorem parseSource_good (src : String) (ds : List Decl) (h : parseSource src = some ds) :
    ∀ d ∈ ds, GoodDecl d := by
  unfold parseSource at h
  simp only [Option.bind_eq_some_iff] at h
  obtain ⟨ts, _, h⟩ := h
  exact parseMal_good ts ds h

/-! ### assembling -/

/-- a specification all of whose items equal themselves -/
def Good (s : CSpec) : Prop :=
  (∀ y ∈ s.categories, catEqv y y = true) ∧ (∀ y ∈ s.assets, assetEqv y y = true) ∧
  (∀ y ∈ s.associations, assocEqv y y = true)

theorem forall_mem_append {α} {p : α → Prop} {a b : List α} (ha : ∀ x ∈ a, p x) (hb : ∀ x ∈ b, p x) :
    ∀ x ∈ a ++ b, p x := by
  intro x hx
  rcases List.mem_append.mp hx with hx | hx
  · exact ha x hx
  · exact hb x hx

theorem assembleStep_good (inc : String → Option CSpec) (hinc : ∀ p sp, inc p = some sp → Good sp)
    (s s' : CSpec) (d : Decl) (hs : Good s) (hd : GoodDecl d) (h : assembleStep inc s d = some s') : Good s' := by
  cases d with
  | incl p =>
    simp only [assembleStep, Option.map_eq_some_iff] at h
    obtain ⟨sp, hsp, rfl⟩ := h
    have hg := hinc p sp hsp
    exact ⟨forall_mem_append hs.1 hg.1, forall_mem_append hs.2.1 hg.2.1, forall_mem_append hs.2.2 hg.2.2⟩
  | define k v =>
    simp only [assembleStep, Option.some.injEq] at h
    subst h
    exact hs
  | category n md as =>
    simp only [assembleStep, Option.some.injEq] at h
    subst h
    refine ⟨forall_mem_append hs.1 ?_, forall_mem_append hs.2.1 hd.2, hs.2.2⟩
    intro x hx
    simp only [List.mem_singleton] at hx
    subst hx
    exact hd.1
  | associations l =>
    simp only [assembleStep, Option.some.injEq] at h
    subst h
    exact ⟨hs.1, hs.2.1, forall_mem_append hs.2.2 hd⟩

theorem foldlM_assembleStep_good (inc : String → Option CSpec) (hinc : ∀ p sp, inc p = some sp → Good sp)
    (ds : List Decl) (hds : ∀ d ∈ ds, GoodDecl d) (s s' : CSpec) (hs : Good s)
    (h : ds.foldlM (assembleStep inc) s = some s') : Good s' := by
  induction ds generalizing s with
  | nil =>
    simp only [List.foldlM_nil] at h
    cases h
    exact hs
  | cons d ds ih =>
    simp only [List.foldlM_cons, Option.bind_eq_bind, Option.bind_eq_some_iff] at h
    obtain ⟨s1, h1, h⟩ := h
    exact ih (fun d hd => hds d (List.mem_cons_of_mem _ hd)) s1
      (assembleStep_good inc hinc s s1 d hs (hds d List.mem_cons_self) h1) h

theorem finishSpec_good (s : CSpec) (hs : Good s) : Good (finishSpec s) :=
  ⟨fun y hy => hs.1 y (mem_dedupBy _ _ y hy), fun y hy => hs.2.1 y (mem_dedupBy _ _ y hy),
   fun y hy => hs.2.2 y (mem_dedupBy _ _ y hy)⟩

theorem assemble_good (inc : String → Option CSpec) (hinc : ∀ p sp, inc p = some sp → Good sp)
    (ds : List Decl) (hds : ∀ d ∈ ds, GoodDecl d) (s : CSpec) (h : assemble inc ds = some s) : Good s := by
  unfold assemble at h
  simp only [Option.map_eq_some_iff] at h
  obtain ⟨s0, h0, rfl⟩ := h
  exact finishSpec_good s0 (foldlM_assembleStep_good inc hinc ds hds _ s0 ⟨by simp, by simp, by simp⟩ h0)

theorem compileFile_good (files : String → Option String) (f : Nat) (name : String) (s : CSpec)
    (h : compileFile files f name = some s) : Good s := by
  induction f generalizing name s with
  | zero => rw [compileFile_zero] at h; exact absurd h (by simp)
  | succ f ih =>
    rw [compileFile_succ] at h
    simp only [Option.bind_eq_some_iff] at h
    obtain ⟨src, _, ds, hds, h⟩ := h
    exact assemble_good _ (fun p sp hp => ih p sp hp) ds (parseSource_good src ds hds) s h

/-- **every item of a compiled specification equals itself under Python's `==`** -/
theorem compileFile_refl (files : String → Option String) (f : Nat) (name : String) (s : CSpec)
    (h : compileFile files f name = some s) :
    (∀ y ∈ s.categories, catEqv y y = true) ∧ (∀ y ∈ s.assets, assetEqv y y = true) ∧
    (∀ y ∈ s.associations, assocEqv y y = true) :=
  compileFile_good files f name s h

end MalVerif.Mal
