import MalVerif.Proofs.EvalSem
import MalVerif.Proofs.GenLemmas
/-!
# Helper lemmas for C01: the fuel of `eval` suffices for acyclic variable definitions

`eval` runs `evalF` with `L.varFuel` = (number of variable declarations) + 1 levels of variable
expansion.  A chain of nested expansions `e → d₁ → d₂ → …` (each `dᵢ₊₁` the definition, on some
asset type, of a variable occurring in `dᵢ`) consists of declared definitions; when a rank
decreases along it, the `dᵢ` are pairwise different, so there are at most as many as there are
declarations (pigeonhole): the fuel never runs out.

* `Lang.callees`, `Lang.depthLt`, `Lang.varsAcyclic` — the decidable check.
* `depthLt_of_rank` — the pigeonhole argument.
* `varsAcyclic_iff_rank` — the check is equivalent to the existence of a rank.
* `evalF_norec_depth`, `eval_norec_of_rank`, `eval_norec_of_check`.
* `genGraph_norec` — so generation never fails with `recursion`.
-/
namespace MalVerif

/-- all declared variable definitions, with multiplicity (one per declaration) -/
def Lang.allDefs (L : Lang) : List Expr := L.assets.flatMap (fun a => a.variables.map (·.2))

/-- the definitions one expansion step away from `e`: for every variable occurring in `e`, its
definition on every asset type of the language -/
def Lang.callees (L : Lang) (e : Expr) : List Expr :=
  e.vars.flatMap (fun v => L.assets.filterMap (fun a => L.lookupVar a.name v))

/-- `depthLt n e`: every chain of nested variable expansions starting at `e` has fewer than `n` links
(`e` can be evaluated with `n` levels of expansion) -/
def Lang.depthLt (L : Lang) : Nat → Expr → Bool
  | 0, _ => false
  | n+1, e => (L.callees e).all (L.depthLt n)

/-- **The acyclicity check**: every declared definition can be fully expanded within as many levels
as there are declarations.  (Iterates at most `|declarations|` times.) -/
def Lang.varsAcyclic (L : Lang) : Bool := L.allDefs.all (L.depthLt (L.varFuel - 1))

/-! ### counting -/

theorem sum_map_length_flatMap {α β} (f : α → List β) (l : List α) :
    (l.flatMap f).length = (l.map (fun a => (f a).length)).sum := by
  induction l with
  | nil => rfl
  | cons a l ih => simp only [List.flatMap_cons, List.length_append, List.map_cons, List.sum_cons, ih]

theorem allDefs_length (L : Lang) : L.allDefs.length + 1 = L.varFuel := by
  unfold Lang.allDefs Lang.varFuel
  rw [sum_map_length_flatMap]
  simp only [List.length_map]

/-! ### the callees are declared definitions -/

theorem lookupVar_assetName (L : Lang) (t v : String) (d : Expr) (h : L.lookupVar t v = some d) :
    ∃ a ∈ L.assets, L.lookupVar a.name v = some d := by
  cases hf : L.findAsset t with
  | none =>
    unfold Lang.lookupVar at h
    simp only [Lang.chain, hf, List.findSome?_nil] at h
    cases h
  | some a =>
    unfold Lang.findAsset at hf
    have h1 := List.mem_of_find?_eq_some hf
    have h2 := List.find?_some hf
    simp only [decide_eq_true_eq] at h2
    exact ⟨a, h1, by rw [h2]; exact h⟩

theorem mem_callees (L : Lang) (e d : Expr) :
    d ∈ L.callees e ↔ ∃ v ∈ e.vars, ∃ t, L.lookupVar t v = some d := by
  unfold Lang.callees
  simp only [List.mem_flatMap, List.mem_filterMap]
  constructor
  · rintro ⟨v, hv, a, _, h⟩; exact ⟨v, hv, a.name, h⟩
  · rintro ⟨v, hv, t, h⟩
    obtain ⟨a, ha, h'⟩ := lookupVar_assetName L t v d h
    exact ⟨v, hv, a, ha, h'⟩

theorem callees_sub_allDefs (L : Lang) (e d : Expr) (h : d ∈ L.callees e) : d ∈ L.allDefs := by
  obtain ⟨v, _, t, ht⟩ := (mem_callees L e d).1 h
  obtain ⟨a, ha, hv⟩ := lookupVar_mem L t v d ht
  unfold Lang.allDefs
  exact List.mem_flatMap.2 ⟨a, ha, List.mem_map.2 ⟨(v, d), hv, rfl⟩⟩

/-! ### `depthLt` -/

theorem depthLt_succ (L : Lang) (n : Nat) (e : Expr) :
    L.depthLt (n+1) e = true ↔ ∀ d ∈ L.callees e, L.depthLt n d = true := by
  simp only [Lang.depthLt, List.all_eq_true]

theorem depthLt_mono (L : Lang) : ∀ n e, L.depthLt n e = true → L.depthLt (n+1) e = true := by
  intro n
  induction n with
  | zero => intro e h; simp [Lang.depthLt] at h
  | succ n ih =>
    intro e h
    rw [depthLt_succ] at h ⊢
    exact fun d hd => ih d (h d hd)

theorem depthLt_le (L : Lang) (n k : Nat) (e : Expr) (h : L.depthLt n e = true) (hk : n ≤ k) :
    L.depthLt k e = true := by
  induction hk with
  | refl => exact h
  | step _ ih => exact depthLt_mono L _ e ih

/-- **Pigeonhole.**  `d` is a declared definition; `above` lists pairwise different declared
definitions of larger rank (the chain of expansions that led to `d`); if `n` and the length of the
chain together reach the number of declarations, `d` can be expanded with `n` levels. -/
theorem depthLt_of_rank_aux (L : Lang) (rank : Expr → Nat)
    (hr : ∀ e, ∀ v ∈ e.vars, ∀ t d, L.lookupVar t v = some d → rank d < rank e) :
    ∀ n d (above : List Expr), d ∈ L.allDefs → above.Nodup → (∀ a ∈ above, a ∈ L.allDefs) →
      (∀ a ∈ above, rank d < rank a) → L.allDefs.length ≤ n + above.length →
      L.depthLt n d = true := by
  intro n
  induction n with
  | zero =>
    intro d above hd hnd hsub hrk hlen
    -- `d :: above` are `above.length + 1` different declared definitions
    have hnd' : (d :: above).Nodup :=
      List.nodup_cons.2 ⟨fun h => Nat.lt_irrefl _ (hrk d h), hnd⟩
    have hsub' : ∀ a ∈ d :: above, a ∈ L.allDefs := by
      intro a ha
      rcases List.mem_cons.1 ha with e | ha
      · rw [e]; exact hd
      · exact hsub a ha
    have := (List.subperm_of_subset hnd' hsub').length_le
    simp only [List.length_cons] at this
    omega
  | succ n ih =>
    intro d above hd hnd hsub hrk hlen
    rw [depthLt_succ]
    intro d' hd'
    obtain ⟨v, hv, t, ht⟩ := (mem_callees L d d').1 hd'
    have hlt : rank d' < rank d := hr d v hv t d' ht
    refine ih d' (d :: above) (callees_sub_allDefs L d d' hd') ?_ ?_ ?_ ?_
    · exact List.nodup_cons.2 ⟨fun h => Nat.lt_irrefl _ (hrk d h), hnd⟩
    · intro a ha
      rcases List.mem_cons.1 ha with e | ha
      · rw [e]; exact hd
      · exact hsub a ha
    · intro a ha
      rcases List.mem_cons.1 ha with e | ha
      · rw [e]; exact hlt
      · exact Nat.lt_trans hlt (hrk a ha)
    · simp only [List.length_cons]; omega

/-- with a rank, every declared definition expands within `|declarations|` levels … -/
theorem depthLt_def_of_rank (L : Lang) (rank : Expr → Nat)
    (hr : ∀ e, ∀ v ∈ e.vars, ∀ t d, L.lookupVar t v = some d → rank d < rank e)
    (d : Expr) (hd : d ∈ L.allDefs) : L.depthLt (L.varFuel - 1) d = true := by
  refine depthLt_of_rank_aux L rank hr _ d [] hd List.nodup_nil (by simp) (by simp) ?_
  have := allDefs_length L
  simp only [List.length_nil]; omega

/-- … and every expression within `|declarations| + 1 = L.varFuel` levels -/
theorem depthLt_of_defs (L : Lang) (h : ∀ d ∈ L.allDefs, L.depthLt (L.varFuel - 1) d = true) (e : Expr) :
    L.depthLt L.varFuel e = true := by
  have hv : L.varFuel = (L.varFuel - 1) + 1 := by have := allDefs_length L; omega
  rw [hv, depthLt_succ]
  exact fun d hd => h d (callees_sub_allDefs L e d hd)

theorem depthLt_of_rank (L : Lang) (rank : Expr → Nat)
    (hr : ∀ e, ∀ v ∈ e.vars, ∀ t d, L.lookupVar t v = some d → rank d < rank e) (e : Expr) :
    L.depthLt L.varFuel e = true :=
  depthLt_of_defs L (depthLt_def_of_rank L rank hr) e

theorem depthLt_of_check (L : Lang) (h : L.varsAcyclic = true) (e : Expr) :
    L.depthLt L.varFuel e = true :=
  depthLt_of_defs L (by simpa [Lang.varsAcyclic, List.all_eq_true] using h) e

/-! ### the check is the existence of a rank -/

/-- the least `n ≤ k` with `depthLt n e` (`k` when there is none) -/
def Lang.depthUpTo (L : Lang) : Nat → Expr → Nat
  | 0, _ => 0
  | k+1, e => if L.depthLt (L.depthUpTo k e) e then L.depthUpTo k e else k+1

theorem depthUpTo_le (L : Lang) (e : Expr) : ∀ k, L.depthUpTo k e ≤ k := by
  intro k
  induction k with
  | zero => simp [Lang.depthUpTo]
  | succ k ih => simp only [Lang.depthUpTo]; split <;> omega

theorem depthUpTo_spec (L : Lang) (e : Expr) : ∀ k, L.depthLt k e = true →
    L.depthLt (L.depthUpTo k e) e = true := by
  intro k
  induction k with
  | zero => intro h; simp [Lang.depthLt] at h
  | succ k ih =>
    intro h
    simp only [Lang.depthUpTo]
    split
    · assumption
    · exact h

theorem depthUpTo_min (L : Lang) (e : Expr) : ∀ k n, L.depthLt n e = true → n ≤ k → L.depthUpTo k e ≤ n := by
  intro k
  induction k with
  | zero => intro n _ _; simp [Lang.depthUpTo]
  | succ k ih =>
    intro n hn hk
    simp only [Lang.depthUpTo]
    by_cases hnk : n ≤ k
    · have h1 := ih n hn hnk
      have h2 : L.depthLt (L.depthUpTo k e) e = true :=
        depthUpTo_spec L e k (depthLt_le L n k e hn hnk)
      rw [if_pos h2]; exact h1
    · split
      · have := depthUpTo_le L e k; omega
      · omega

/-- **The check is equivalent to the existence of a rank** that decreases from an expression to
the definition (on any asset type) of any variable occurring in it — the hypothesis of
`eval_terminates`. -/
theorem varsAcyclic_iff_rank (L : Lang) :
    L.varsAcyclic = true ↔
      ∃ rank : Expr → Nat, ∀ e, ∀ v ∈ e.vars, ∀ t d, L.lookupVar t v = some d → rank d < rank e := by
  constructor
  · intro h
    refine ⟨L.depthUpTo L.varFuel, ?_⟩
    intro e v hv t d hd
    have he := depthUpTo_spec L e _ (depthLt_of_check L h e)
    cases hk : L.depthUpTo L.varFuel e with
    | zero => rw [hk] at he; simp [Lang.depthLt] at he
    | succ k =>
      rw [hk, depthLt_succ] at he
      have hdk := he d ((mem_callees L e d).2 ⟨v, hv, t, hd⟩)
      have hle : k + 1 ≤ L.varFuel := by have := depthUpTo_le L e L.varFuel; omega
      have := depthUpTo_min L d L.varFuel k hdk (by omega)
      omega
  · rintro ⟨rank, hr⟩
    simp only [Lang.varsAcyclic, List.all_eq_true]
    exact depthLt_def_of_rank L rank hr

/-! ### termination from the depth bound -/

theorem evalF_norec_depth (L : Lang) (m : Inst) (hm : LinksClosed m) :
    ∀ f e, L.depthLt f e = true → ∀ xs, (∀ x ∈ xs, x ∈ m.ids) → evalF L m f e xs ≠ .error .recursion := by
  intro f
  induction f with
  | zero => intro e h; simp [Lang.depthLt] at h
  | succ f ih =>
    intro e he
    refine evalE_norec L m hm (evalF L m f) (fun d => L.depthLt f d = true) (fun d => evalF_sub L m hm f d)
      (fun d hd => ih d hd) e ?_
    intro v hv t d hd
    exact (depthLt_succ L f e).1 he d ((mem_callees L e d).2 ⟨v, hv, t, hd⟩)

theorem eval_norec_of_rank (L : Lang) (m : Inst) (hm : LinksClosed m) (rank : Expr → Nat)
    (hr : ∀ e, ∀ v ∈ e.vars, ∀ t d, L.lookupVar t v = some d → rank d < rank e)
    (e : Expr) (xs : List Int) (hxs : ∀ x ∈ xs, x ∈ m.ids) : eval L m e xs ≠ .error .recursion :=
  evalF_norec_depth L m hm L.varFuel e (depthLt_of_rank L rank hr e) xs hxs

theorem eval_norec_of_check (L : Lang) (m : Inst) (hm : LinksClosed m) (h : L.varsAcyclic = true)
    (e : Expr) (xs : List Int) (hxs : ∀ x ∈ xs, x ∈ m.ids) : eval L m e xs ≠ .error .recursion :=
  evalF_norec_depth L m hm L.varFuel e (depthLt_of_check L h e) xs hxs

/-! ### the generator -/

theorem foldlM_error {α β} (step : β → α → ER β) :
    ∀ (xs : List α) acc err, xs.foldlM step acc = .error err → ∃ x ∈ xs, ∃ a, step a x = .error err := by
  intro xs
  induction xs with
  | nil => intro acc err h; simp only [List.foldlM_nil] at h; cases h
  | cons x xs ih =>
    intro acc err h
    rw [List.foldlM_cons] at h
    rcases (bind_error_iff _ _ _).1 h with h | ⟨acc1, _, h⟩
    · exact ⟨x, List.mem_cons_self, acc, h⟩
    · obtain ⟨x', hx', a, ha⟩ := ih acc1 err h
      exact ⟨x', List.mem_cons_of_mem _ hx', a, ha⟩

theorem genNodesFrom_error (L : Lang) (m : Inst) (err : EvalErr) :
    ∀ specs i, genNodesFrom L m i specs = .error err →
      ∃ p ∈ specs, ∃ j, mkNode L m j p.1 p.2.1 p.2.2 = .error err := by
  intro specs
  induction specs with
  | nil => intro i h; simp only [genNodesFrom] at h; cases h
  | cons p rest ih =>
    intro i h
    obtain ⟨a, sn, d⟩ := p
    simp only [genNodesFrom] at h
    rcases (bind_error_iff _ _ _).1 h with h | ⟨n, _, h⟩
    · exact ⟨(a, sn, d), List.mem_cons_self, i, h⟩
    · rcases (bind_error_iff _ _ _).1 h with h | ⟨ns, _, h⟩
      · obtain ⟨p, hp, j, hj⟩ := ih (i+1) h
        exact ⟨p, List.mem_cons_of_mem _ hp, j, hj⟩
      · cases h

theorem mkNode_error_recursion (L : Lang) (m : Inst) (i : Nat) (a : IAsset) (sn : String) (d : StepDecl)
    (h : mkNode L m i a sn d = .error .recursion) : ∃ e, eval L m e [a.id] = .error .recursion := by
  unfold mkNode at h
  rcases (bind_error_iff _ _ _).1 h with h | ⟨ex, _, h⟩
  · unfold existStatus at h
    split at h
    · split at h
      · exact ⟨_, (map_error_iff _ _ _).1 h⟩
      · cases h
    · cases h
  · cases h

/-- the asset of a generated node is an asset of the model -/
theorem genNodes_asset_mem (L : Lang) (m : Inst) (ns : List GNode) (h : genNodes L m = .ok ns)
    (n : GNode) (hn : n ∈ ns) : n.asset ∈ m.ids := by
  obtain ⟨k, hk, rfl⟩ := List.getElem_of_mem hn
  obtain ⟨hl, hj⟩ := genNodesFrom_spec L m _ 0 ns h
  have hk' : k < (nodeSpecs L m).length := by omega
  have h1 := (mkNode_ok (hj k hk' hk)).2
  obtain ⟨a, ha, e, _, hp⟩ := mem_nodeSpecs.1 (List.getElem_mem hk')
  rw [h1, hp]
  exact List.mem_map.2 ⟨a, ha, rfl⟩

/-- if `eval` never fails with `recursion` from an asset of the model, neither does generation -/
theorem genGraph_norec (L : Lang) (m : Inst)
    (hev : ∀ e x, x ∈ m.ids → eval L m e [x] ≠ .error .recursion) :
    genGraph L m ≠ .error .recursion := by
  intro h
  unfold genGraph at h
  rcases (bind_error_iff _ _ _).1 h with h | ⟨ns, hns, h⟩
  · obtain ⟨p, hp, j, hj⟩ := genNodesFrom_error L m _ _ _ h
    obtain ⟨a, ha, _, _, rfl⟩ := mem_nodeSpecs.1 hp
    obtain ⟨e, he⟩ := mkNode_error_recursion L m j _ _ _ hj
    exact hev e a.id (List.mem_map.2 ⟨a, ha, rfl⟩) he
  · rcases (bind_error_iff _ _ _).1 h with h | ⟨es, _, h⟩
    · unfold genEdges at h
      obtain ⟨n, hn, acc, h⟩ := foldlM_error _ _ _ _ h
      obtain ⟨e, _, acc, h⟩ := foldlM_error _ _ _ _ h
      rcases (bind_error_iff _ _ _).1 h with h | ⟨r, _, h⟩
      · exact hev e n.asset (genNodes_asset_mem L m ns hns n hn) h
      · obtain ⟨y, _, acc, h⟩ := foldlM_error _ _ _ _ h
        split at h
        · cases h
        · split at h <;> cases h
    · cases h

/-! ### demo data: two chained variables, a `reaches` expression that ends in a variable call -/

namespace Demo

/-- `A` with `let v = next.w()`, `let w = next.compromise`, `access -> v()`; `B extends A`.
Two declarations: `varFuel = 3`. -/
def c01L2 : Lang :=
  { assets := [{ name := "A",
                 variables := [("v", .collect (.field "next") (.var "w")),
                               ("w", .collect (.field "next") (.step "compromise"))],
                 steps := [{ name := "access", type := "or",
                             reaches := some { overrides := true, exprs := [.var "v"] } },
                           { name := "compromise", type := "and" }] },
               { name := "B", superAsset := some "A" }] }

/-- `let v = w()`, `let w = next.v()`: cyclic -/
def c01Lcyc : Lang :=
  { assets := [{ name := "A",
                 variables := [("v", .var "w"), ("w", .collect (.field "next") (.var "v"))] },
               { name := "B", superAsset := some "A" }] }

end Demo

end MalVerif
