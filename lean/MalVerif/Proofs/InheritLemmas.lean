import MalVerif.Model.InheritH
/-!
# Lemmas about insertion-ordered dictionaries, `mergeStep`, `Lang.chain`
and the heap-level resolver (used by `Props/C03.lean`, `Props/C02.lean`)
-/
namespace MalVerif

/-! ## dictionaries -/

/-- the keys in insertion order -/
def dKeys {α : Type} (d : List (String × α)) : List String := d.map (·.1)

theorem dictSet_eq_dSet (d : List (String × StepDecl)) (k v) : dictSet d k v = dSet d k v := rfl
theorem dictGet_eq_dGet (d : List (String × StepDecl)) (k) : dictGet d k = dGet d k := rfl

section Dict
variable {α β : Type}

@[simp] theorem dKeys_nil : dKeys ([] : List (String × α)) = [] := rfl
@[simp] theorem dGet_nil (k : String) : dGet ([] : List (String × α)) k = none := rfl

theorem dGet_cons (e : String × α) (d : List (String × α)) (k : String) :
    dGet (e :: d) k = if e.1 = k then some e.2 else dGet d k := by
  unfold dGet
  by_cases h : e.1 = k <;> simp [h]

theorem any_key_iff (d : List (String × α)) (k : String) :
    d.any (·.1 = k) = true ↔ k ∈ dKeys d := by
  simp only [dKeys, List.any_eq_true, List.mem_map, decide_eq_true_eq]

theorem dGet_eq_none_iff (d : List (String × α)) (k : String) : dGet d k = none ↔ k ∉ dKeys d := by
  induction d with
  | nil => simp [dKeys]
  | cons e d ih =>
    rw [dGet_cons]
    by_cases h : e.1 = k
    · simp [h, dKeys]
    · have h' : ¬ k = e.1 := fun h'' => h h''.symm
      simp [h, h', ih, dKeys] at *

theorem dGet_isSome_iff (d : List (String × α)) (k : String) : (dGet d k).isSome ↔ k ∈ dKeys d := by
  have := dGet_eq_none_iff d k
  cases h : dGet d k with
  | none => simp [h] at this; simp [this]
  | some v =>
    simp only [Option.isSome_some, true_iff]
    apply Classical.byContradiction; intro hn
    rw [← dGet_eq_none_iff] at hn; rw [h] at hn; cases hn

theorem mem_keys_of_dGet {d : List (String × α)} {k : String} {v : α} (h : dGet d k = some v) :
    k ∈ dKeys d := by
  rw [← dGet_isSome_iff, h]; rfl

theorem mem_of_dGet {d : List (String × α)} {k : String} {v : α} (h : dGet d k = some v) :
    (k, v) ∈ d := by
  induction d with
  | nil => simp at h
  | cons e d ih =>
    rw [dGet_cons] at h
    by_cases hk : e.1 = k
    · simp [hk] at h
      have : e = (k, v) := by cases e; simp_all
      simp [this]
    · simp [hk] at h
      exact List.mem_cons_of_mem _ (ih h)

theorem dGet_of_mem {d : List (String × α)} (hnd : (dKeys d).Nodup) {k : String} {v : α}
    (h : (k, v) ∈ d) : dGet d k = some v := by
  induction d with
  | nil => simp at h
  | cons e d ih =>
    rw [dGet_cons]
    simp only [dKeys, List.map_cons, List.nodup_cons] at hnd
    rcases List.mem_cons.1 h with h | h
    · subst h; simp
    · have hne : ¬ e.1 = k := by
        intro hk; apply hnd.1; rw [hk]
        exact List.mem_map.2 ⟨(k, v), h, rfl⟩
      simp [hne]; exact ih hnd.2 h

/-- an entry is in the dictionary iff looking up its key gives its value -/
theorem mem_iff_dGet {d : List (String × α)} (hnd : (dKeys d).Nodup) (k : String) (v : α) :
    (k, v) ∈ d ↔ dGet d k = some v := ⟨dGet_of_mem hnd, mem_of_dGet⟩

theorem dKeys_dSet (d : List (String × α)) (k : String) (v : α) :
    dKeys (dSet d k v) = if k ∈ dKeys d then dKeys d else dKeys d ++ [k] := by
  unfold dSet
  by_cases h : d.any (·.1 = k) = true
  · have hk := (any_key_iff d k).1 h
    rw [if_pos h, if_pos hk]
    simp only [dKeys, List.map_map]
    apply List.map_congr_left
    intro e _
    by_cases he : e.1 = k <;> simp [he]
  · have hk : k ∉ dKeys d := fun hk => h ((any_key_iff d k).2 hk)
    rw [if_neg h, if_neg hk]
    simp [dKeys]

theorem dGet_map_if (d : List (String × α)) (k k' : String) (v : α) :
    dGet (d.map (fun e => if e.1 = k then (k, v) else e)) k' =
      if k' = k then (if k ∈ dKeys d then some v else none) else dGet d k' := by
  induction d with
  | nil => simp [dKeys]
  | cons e d ih =>
    rw [List.map_cons, dGet_cons, ih, dGet_cons]
    by_cases he : e.1 = k
    · by_cases hk : k' = k
      · subst hk; simp [he, dKeys]
      · have : ¬ k = k' := fun h => hk h.symm
        have : ¬ e.1 = k' := fun h => hk (h.symm.trans he)
        simp [*]
    · by_cases hk : k' = k
      · subst hk
        have : ¬ k' = e.1 := fun h => he h.symm
        have hm : k' ∈ dKeys (e :: d) ↔ k' ∈ dKeys d := by simp [dKeys, this]
        simp [he, hm]
      · simp [he, hk]

theorem dGet_append (d d' : List (String × α)) (k : String) :
    dGet (d ++ d') k = (dGet d k).or (dGet d' k) := by
  induction d with
  | nil => simp
  | cons e d ih =>
    rw [List.cons_append, dGet_cons, dGet_cons, ih]
    by_cases he : e.1 = k <;> simp [he]

theorem dGet_dSet_same (d : List (String × α)) (k : String) (v : α) : dGet (dSet d k v) k = some v := by
  unfold dSet
  by_cases h : d.any (·.1 = k) = true
  · rw [if_pos h, dGet_map_if]; simp [(any_key_iff d k).1 h]
  · have hk : k ∉ dKeys d := fun hk => h ((any_key_iff d k).2 hk)
    rw [if_neg h, dGet_append, (dGet_eq_none_iff d k).2 hk]
    simp [dGet_cons]

theorem dGet_dSet_other (d : List (String × α)) (k k' : String) (v : α) (hne : k' ≠ k) :
    dGet (dSet d k v) k' = dGet d k' := by
  unfold dSet
  by_cases h : d.any (·.1 = k) = true
  · rw [if_pos h, dGet_map_if]; simp [hne]
  · rw [if_neg h, dGet_append]
    have : ¬ k = k' := fun h => hne h.symm
    simp [dGet_cons, this]

theorem dKeys_nodup_dSet {d : List (String × α)} (h : (dKeys d).Nodup) (k : String) (v : α) :
    (dKeys (dSet d k v)).Nodup := by
  rw [dKeys_dSet]
  by_cases hk : k ∈ dKeys d
  · rw [if_pos hk]; exact h
  · rw [if_neg hk]
    rw [List.nodup_append]
    refine ⟨h, by simp, ?_⟩
    intro a ha b hb
    simp at hb; subst hb
    intro hab; subst hab; exact hk ha

theorem dKeys_mapVal (f : α → β) (d : List (String × α)) :
    dKeys (d.map (fun e => (e.1, f e.2))) = dKeys d := by
  simp [dKeys, List.map_map, Function.comp_def]

theorem dGet_mapVal (f : α → β) (d : List (String × α)) (k : String) :
    dGet (d.map (fun e => (e.1, f e.2))) k = (dGet d k).map f := by
  induction d with
  | nil => simp
  | cons e d ih =>
    rw [List.map_cons, dGet_cons, dGet_cons, ih]
    by_cases he : e.1 = k <;> simp [he]

/-- two dictionaries with the same keys (in order, no repetition) and the same
lookups are equal -/
theorem dict_ext {d d' : List (String × α)} (hk : dKeys d = dKeys d') (hnd : (dKeys d).Nodup)
    (hg : ∀ k ∈ dKeys d, dGet d k = dGet d' k) : d = d' := by
  induction d generalizing d' with
  | nil =>
    cases d' with
    | nil => rfl
    | cons e' d' => simp [dKeys] at hk
  | cons e d ih =>
    cases d' with
    | nil => simp [dKeys] at hk
    | cons e' d' =>
      simp only [dKeys, List.map_cons, List.cons.injEq] at hk
      simp only [dKeys, List.map_cons, List.nodup_cons] at hnd
      have h1 := hg e.1 (by simp [dKeys])
      rw [dGet_cons, dGet_cons] at h1
      simp [hk.1.symm] at h1
      have hee : e = e' := by
        cases e; cases e'; simp at hk h1 ⊢; exact ⟨hk.1, h1⟩
      subst hee
      congr 1
      apply ih hk.2 hnd.2
      intro k hkm
      have h2 := hg k (by simp [dKeys] at hkm ⊢; right; exact hkm)
      rw [dGet_cons, dGet_cons] at h2
      have : ¬ e.1 = k := by
        intro h; apply hnd.1; rw [h]; exact hkm
      simpa [this] using h2

end Dict

/-! ## `mergeStep` -/

/-- the entry stored under `s.name` after a redefinition `s`, given what was
inherited -/
def mergeVal (inh : Option StepDecl) (s : StepDecl) : StepDecl :=
  match inh with
  | none => s
  | some i =>
    match s.reaches with
    | none => i
    | some r =>
      if r.overrides then s
      else { i with reaches := some { overrides := (match i.reaches with
                                                     | some ir => ir.overrides | none => false),
                                       exprs := (match i.reaches with
                                                 | some ir => ir.exprs | none => []) ++ r.exprs } }

theorem dSet_self_of_dGet {α : Type} {d : List (String × α)} {k : String} {v : α}
    (h : dGet d k = some v) (hnd : (dKeys d).Nodup) : dSet d k v = d := by
  apply dict_ext
  · rw [dKeys_dSet, if_pos (mem_keys_of_dGet h)]
  · exact dKeys_nodup_dSet hnd k v
  · intro k' _
    by_cases hk : k' = k
    · subst hk; rw [dGet_dSet_same, h]
    · rw [dGet_dSet_other _ _ _ _ hk]

theorem dKeys_mergeStep (acc : List (String × StepDecl)) (s : StepDecl) :
    dKeys (mergeStep acc s) = if s.name ∈ dKeys acc then dKeys acc else dKeys acc ++ [s.name] := by
  unfold mergeStep
  rw [dictGet_eq_dGet]
  cases h : dGet acc s.name with
  | none =>
    have hk := (dGet_eq_none_iff acc s.name).1 h
    simp only [dictSet_eq_dSet, dKeys_dSet]
  | some inh =>
    have hk := mem_keys_of_dGet h
    simp only [dictSet_eq_dSet]
    cases s.reaches with
    | none => simp [hk]
    | some r =>
      simp only
      split <;> simp [dKeys_dSet, hk]

theorem dGet_mergeStep_other (acc : List (String × StepDecl)) (s : StepDecl) (k : String)
    (hne : k ≠ s.name) : dGet (mergeStep acc s) k = dGet acc k := by
  unfold mergeStep
  rw [dictGet_eq_dGet]
  cases dGet acc s.name with
  | none => simp only [dictSet_eq_dSet]; exact dGet_dSet_other _ _ _ _ hne
  | some inh =>
    simp only [dictSet_eq_dSet]
    cases s.reaches with
    | none => rfl
    | some r =>
      simp only
      split <;> exact dGet_dSet_other _ _ _ _ hne

theorem dGet_mergeStep_same (acc : List (String × StepDecl)) (s : StepDecl) :
    dGet (mergeStep acc s) s.name = some (mergeVal (dGet acc s.name) s) := by
  unfold mergeStep mergeVal
  rw [dictGet_eq_dGet]
  cases h : dGet acc s.name with
  | none => simp only [dictSet_eq_dSet]; exact dGet_dSet_same _ _ _
  | some inh =>
    simp only [dictSet_eq_dSet]
    cases s.reaches with
    | none => exact h
    | some r =>
      simp only
      split
      · exact dGet_dSet_same _ _ _
      · exact dGet_dSet_same _ _ _

theorem dKeys_nodup_mergeStep {acc : List (String × StepDecl)} (h : (dKeys acc).Nodup) (s : StepDecl) :
    (dKeys (mergeStep acc s)).Nodup := by
  have := dKeys_nodup_dSet h s.name s
  rw [dKeys_dSet] at this
  rw [dKeys_mergeStep]; exact this

/-- every entry is stored under the name it carries -/
def KeyIsName (d : List (String × StepDecl)) : Prop := ∀ k v, dGet d k = some v → v.name = k

theorem mergeVal_name (inh : Option StepDecl) (s : StepDecl) (h : ∀ i, inh = some i → i.name = s.name) :
    (mergeVal inh s).name = s.name := by
  unfold mergeVal
  cases inh with
  | none => rfl
  | some i =>
    have hi := h i rfl
    simp only
    cases s.reaches with
    | none => exact hi
    | some r => simp only; split <;> simp [hi]

theorem keyIsName_mergeStep {acc : List (String × StepDecl)} (h : KeyIsName acc) (s : StepDecl) :
    KeyIsName (mergeStep acc s) := by
  intro k v hv
  by_cases hk : k = s.name
  · subst hk
    rw [dGet_mergeStep_same] at hv
    cases hv
    exact mergeVal_name _ _ (fun i hi => h _ _ hi)
  · rw [dGet_mergeStep_other _ _ _ hk] at hv
    exact h k v hv

theorem dKeys_nodup_foldl_mergeStep (steps : List StepDecl) {acc : List (String × StepDecl)}
    (h : (dKeys acc).Nodup) : (dKeys (steps.foldl mergeStep acc)).Nodup := by
  induction steps generalizing acc with
  | nil => exact h
  | cons s ss ih => exact ih (dKeys_nodup_mergeStep h s)

theorem keyIsName_foldl_mergeStep (steps : List StepDecl) {acc : List (String × StepDecl)}
    (h : KeyIsName acc) : KeyIsName (steps.foldl mergeStep acc) := by
  induction steps generalizing acc with
  | nil => exact h
  | cons s ss ih => exact ih (keyIsName_mergeStep h s)

/-- the fold over a list of declarations (root first) -/
def foldAssets (as : List AssetDecl) (acc : List (String × StepDecl)) : List (String × StepDecl) :=
  as.foldl (fun acc a => a.steps.foldl mergeStep acc) acc

theorem foldSteps_eq (L : Lang) (t : String) :
    L.foldSteps t = foldAssets (L.chain (L.assets.length + 1) t).reverse [] := rfl

theorem foldAssets_inv (as : List AssetDecl) {acc : List (String × StepDecl)}
    (h : (dKeys acc).Nodup) (h' : KeyIsName acc) :
    (dKeys (foldAssets as acc)).Nodup ∧ KeyIsName (foldAssets as acc) := by
  unfold foldAssets
  induction as generalizing acc with
  | nil => exact ⟨h, h'⟩
  | cons a as ih =>
    exact ih (dKeys_nodup_foldl_mergeStep a.steps h) (keyIsName_foldl_mergeStep a.steps h')

/-- the keys of `L.foldSteps t` are pairwise distinct -/
theorem foldSteps_keys_nodup (L : Lang) (t : String) : ((L.foldSteps t).map (·.1)).Nodup :=
  (foldAssets_inv _ (acc := []) (by simp) (by intro k v h; simp at h)).1

/-- every entry of `L.foldSteps t` is keyed by the name of its declaration -/
theorem foldSteps_key_eq_name (L : Lang) (t : String) : ∀ e ∈ L.foldSteps t, e.2.name = e.1 := by
  intro e he
  have h := foldAssets_inv (L.chain (L.assets.length + 1) t).reverse (acc := []) (by simp)
    (by intro k v h; simp at h)
  exact h.2 e.1 e.2 (dGet_of_mem h.1 he)

end MalVerif
