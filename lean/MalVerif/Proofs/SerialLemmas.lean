import MalVerif.Model.Serial
import MalVerif.Proofs.MStateInv
import MalVerif.Proofs.InheritLemmas
import MalVerif.Props.C05
import MalVerif.Props.C06
import Std.Data.String.ToInt
/-!
# Lemmas about saving and loading an instance model (C07)

* the observation of a state that a file can carry (`assetView`, `assocView`, `attView`; references are replaced
  by ids) and the two equivalences `SameModel` (effective defense values) and `SameFile` (explicitly set
  non-default defense values: what `_to_dict` writes);
* `toDoc` is a function of the file observation (`toDoc_eq_docOf`), and under the coherence invariant it is the
  plain list of the entries (`toDoc_assets`, `toDoc_attackers`);
* `loadAsset`, `loadAssoc`, `loadAttacker` characterised by the ids they mention (`loadAsset_ok_of`,
  `loadAssoc_ok_of`, `loadAttacker_ok_of` and their converses);
* the three folds of `fromDoc` over the document written by `toDoc` (`load_toDoc`);
* loading does not depend on the order of the asset entries (`fromDoc_perm`).
-/
namespace MalVerif.Ser
open MalVerif.MS

/-! ## keys -/

/-- Python `int(str(n)) = n` -/
theorem toInt_toString (n : Int) : (toString n).toInt? = some n := Int.toInt?_repr n

theorem key_text_toInt (k : Key) (n : Int) (h : k.toInt? = some n) (hk : ∃ m, k = .i m) :
    (Key.s k.text).toInt? = some n := by
  obtain ⟨m, rfl⟩ := hk
  have : m = n := Option.some.inj h
  subst this
  exact toInt_toString m

/-- what a JSON file does to a key does not change the integer it stands for -/
theorem key_json (k : Key) : (Key.s k.text).toInt? = k.toInt? := by
  cases k with
  | i n => exact toInt_toString n
  | s t => rfl

theorem key_json_text (k : Key) : (Key.s k.text).text = k.text := rfl

/-! ## generic list lemmas -/

theorem mapM_option_eq_some {α β : Type} (f : α → Option β) (l : List α) (r : List β) :
    l.mapM f = some r ↔ l.map f = r.map some := by
  induction l generalizing r with
  | nil =>
    cases r with
    | nil => simp
    | cons b r => simp
  | cons a l ih =>
    rw [List.mapM_cons]
    cases hfa : f a with
    | none =>
      cases r with
      | nil => simp
      | cons b r => simp [hfa]
    | some b =>
      cases hl : l.mapM f with
      | none =>
        cases r with
        | nil => simp
        | cons b' r' =>
          simp only [List.map_cons, List.cons.injEq, hfa]
          constructor
          · intro h; cases h
          · intro ⟨_, h2⟩; rw [(ih r').2 h2] at hl; cases hl
      | some r0 =>
        have := (ih r0).1 hl
        cases r with
        | nil => simp
        | cons b' r' =>
          simp only [List.map_cons, List.cons.injEq, hfa, this]
          constructor
          · intro h
            have h : b :: r0 = b' :: r' := Option.some.inj h
            injection h with h1 h2
            subst h1; subst h2; exact ⟨rfl, rfl⟩
          · intro ⟨h1, h2⟩
            have h1 : b = b' := Option.some.inj h1
            subst h1
            have : r0 = r' := by
              have hinj : ∀ (x y : List β), x.map some = y.map some → x = y := by
                intro x
                induction x with
                | nil => intro y hy; cases y with
                  | nil => rfl
                  | cons _ _ => simp at hy
                | cons a x ihx => intro y hy; cases y with
                  | nil => simp at hy
                  | cons c y =>
                    simp only [List.map_cons, List.cons.injEq, Option.some.injEq] at hy
                    rw [hy.1, ihx y hy.2]
              exact hinj _ _ h2
            subst this; rfl

theorem mapM_option_of_forall {α β : Type} (f : α → Option β) (g : α → β) (l : List α)
    (h : ∀ x ∈ l, f x = some (g x)) : l.mapM f = some (l.map g) := by
  rw [mapM_option_eq_some, List.map_map]
  exact List.map_congr_left h

/-- `d[k] = v` for keys that are new appends -/
theorem foldl_dictPut {α β : Type} (key : α → Key) (val : α → β) (l : List α) (acc : List (Key × β))
    (h : (acc.map (·.1) ++ l.map key).Nodup) :
    l.foldl (fun d x => dictPut d (key x) (val x)) acc = acc ++ l.map (fun x => (key x, val x)) := by
  induction l generalizing acc with
  | nil => simp
  | cons x l ih =>
    rw [List.foldl_cons]
    have hx : acc.any (·.1 = key x) = false := by
      rw [List.any_eq_false]
      intro e he
      simp only [decide_eq_true_eq]
      intro hk
      rw [List.nodup_append] at h
      exact h.2.2 _ (List.mem_map.2 ⟨e, he, rfl⟩) _ (List.mem_map.2 ⟨x, List.mem_cons_self, rfl⟩) hk
    have hput : dictPut acc (key x) (val x) = acc ++ [(key x, val x)] := by
      unfold dictPut; rw [hx]; rfl
    rw [hput, ih]
    · simp
    · simpa [List.map_append, List.append_assoc] using h

/-! ## observations -/

/-- the value every defense of the asset's type has: the explicitly set value, or the class default -/
def effDefenses (L : Lang) (o : AssetObj) : List (String × String) :=
  (defensesOf L o.type).map (fun d => (d.1, ((o.defenses.find? (·.1 = d.1)).map (·.2)).getD d.2))

/-- what a file tells about an asset -/
structure AssetView where
  id : Int
  name : String
  type : String
  defenses : List (String × String)
  extras : String
  deriving DecidableEq, Repr
/-- what a file tells about an association: the members are given by their ids -/
structure AssocView where
  cls : String
  lf : String
  left : List Int
  rf : String
  right : List Int
  extras : String
  deriving DecidableEq, Repr
/-- what a file tells about an attacker: entry points as (asset id, attack steps) -/
structure AttView where
  id : Int
  name : String
  entry : List (Int × List String)
  deriving DecidableEq, Repr

def objView (L : Lang) (o : AssetObj) : AssetView := ⟨o.id, o.name, o.type, effDefenses L o, o.extras⟩
def objFileView (L : Lang) (o : AssetObj) : AssetView := ⟨o.id, o.name, o.type, nonDefault L o, o.extras⟩

def assetView (L : Lang) (s : St) (a : Nat) : AssetView := objView L (s.aobj a)
def assetFileView (L : Lang) (s : St) (a : Nat) : AssetView := objFileView L (s.aobj a)
def assocView (s : St) (l : Nat) : AssocView :=
  ⟨(s.lobj l).cls, (s.lobj l).lf, (s.lobj l).left.map (fun a => (s.aobj a).id), (s.lobj l).rf,
   (s.lobj l).right.map (fun a => (s.aobj a).id), (s.lobj l).extras⟩
def attView (s : St) (t : Nat) : AttView :=
  ⟨(s.tobj t).id, (s.tobj t).name, (s.tobj t).entry.map (fun ep => ((s.aobj ep.1).id, ep.2))⟩

/-- the two states show the same model: same assets (id, name, type, value of every defense, extras), same
associations (by member ids), same attackers (entry points by asset id), in the same order -/
structure SameModel (L : Lang) (s s' : St) : Prop where
  assets : s.assets.map (assetView L s) = s'.assets.map (assetView L s')
  assocs : s.associations.map (assocView s) = s'.associations.map (assocView s')
  attackers : s.attackers.map (attView s) = s'.attackers.map (attView s')

/-- the same, with the explicitly set non-default defense values (in the order they are stored) in place of the
value of every defense: exactly what `_to_dict` writes -/
structure SameFile (L : Lang) (s s' : St) : Prop where
  assets : s.assets.map (assetFileView L s) = s'.assets.map (assetFileView L s')
  assocs : s.associations.map (assocView s) = s'.associations.map (assocView s')
  attackers : s.attackers.map (attView s) = s'.attackers.map (attView s')

theorem SameModel.refl (L : Lang) (s : St) : SameModel L s s := ⟨rfl, rfl, rfl⟩
theorem SameModel.symm {L : Lang} {s s' : St} (h : SameModel L s s') : SameModel L s' s :=
  ⟨h.assets.symm, h.assocs.symm, h.attackers.symm⟩
theorem SameModel.trans {L : Lang} {s s' s'' : St} (h : SameModel L s s') (h' : SameModel L s' s'') :
    SameModel L s s'' := ⟨h.assets.trans h'.assets, h.assocs.trans h'.assocs, h.attackers.trans h'.attackers⟩
theorem SameFile.refl (L : Lang) (s : St) : SameFile L s s := ⟨rfl, rfl, rfl⟩
theorem SameFile.symm {L : Lang} {s s' : St} (h : SameFile L s s') : SameFile L s' s :=
  ⟨h.assets.symm, h.assocs.symm, h.attackers.symm⟩
theorem SameFile.trans {L : Lang} {s s' s'' : St} (h : SameFile L s s') (h' : SameFile L s' s'') :
    SameFile L s s'' := ⟨h.assets.trans h'.assets, h.assocs.trans h'.assocs, h.attackers.trans h'.attackers⟩

/-! ### hypotheses on the saved state that the coherence invariant does not contain -/

/-- attacker ids are pairwise distinct (`add_attacker` does not check this) -/
def AttIdsDistinct (s : St) : Prop := (s.attackers.map (fun t => (s.tobj t).id)).Nodup
/-- no attacker has the empty name (`add_attacker` replaces an empty name by `Attacker:<id>`) -/
def AttNamesNonempty (s : St) : Prop := ∀ t ∈ s.attackers, (s.tobj t).name.isEmpty = false
/-- no asset sets a defense twice (the explicitly set values are the keyword arguments of the pjs constructor) -/
def DefKeysDistinct (s : St) : Prop := ∀ a ∈ s.assets, ((s.aobj a).defenses.map (·.1)).Nodup
/-- the class an association names is the one the factory resolves the name to (class names can coincide, see C06) -/
def LinksResolve (L : Lang) (s : St) : Prop :=
  ∀ l ∈ s.associations, ∃ c, (assocClasses L).find? (·.cls = (s.lobj l).cls) = some c ∧ InstanceOf L s l c
/-- the generated association classes have pairwise distinct names -/
def ClassNamesDistinct (L : Lang) : Prop := ((assocClasses L).map (·.cls)).Nodup

theorem linksResolve_of_distinct {L : Lang} {s : St} (hd : ClassNamesDistinct L) (hv : Valid L s) :
    LinksResolve L s := by
  intro l hl
  obtain ⟨c, hc, hi⟩ := hv.links l hl
  refine ⟨c, ?_, hi⟩
  rw [find?_unique]
  · exact ⟨hc, by simp [hi.cls]⟩
  · intro x hx y hy px py
    simp only [decide_eq_true_eq] at px py
    exact inj_of_nodup_map (fun c : AssocClass => c.cls) (assocClasses L) hd x hx y hy (px.trans py.symm)

/-! ## `toDoc` is a function of the file observation -/

/-- the `extras` member is only written when there are extras -/
def exOpt (x : String) : Option String := if x = "{}" then none else some x

theorem exOpt_getD (x : String) : (exOpt x).getD "{}" = x := by
  unfold exOpt
  by_cases h : x = "{}"
  · rw [if_pos h, h]; rfl
  · rw [if_neg h]; rfl

/-- the document that shows the given assets, associations and attackers -/
def docOf (av : List AssetView) (lv : List AssocView) (tv : List AttView) : ModelDoc where
  assets := av.foldl (fun d v => dictPut d (.i v.id) (.full v.name v.type v.defenses (exOpt v.extras))) []
  associations := lv.map (fun v =>
    { cls := v.cls, lf := v.lf, left := v.left.map .i, rf := v.rf, right := v.right.map .i,
      extras := exOpt v.extras })
  attackers := tv.foldl (fun d v =>
    dictPut d (.i v.id) { name := v.name, entry := v.entry.foldl (fun e p => dictPut e (.i p.1) p.2) [] }) []

theorem toDoc_eq_docOf (L : Lang) (s : St) :
    toDoc L s = docOf (s.assets.map (assetFileView L s)) (s.associations.map (assocView s)) (s.attackers.map (attView s)) := by
  unfold toDoc docOf
  congr 1
  · rw [List.foldl_map]; rfl
  · rw [List.map_map]
    apply List.map_congr_left
    intro l _
    simp only [Function.comp, assocView, List.map_map, exOpt]
    rfl
  · rw [List.foldl_map]
    congr 1
    funext d t
    simp only [attView, List.foldl_map]

/-- saving depends only on the file observation -/
theorem toDoc_congr {L : Lang} {s s' : St} (h : SameFile L s s') : toDoc L s = toDoc L s' := by
  rw [toDoc_eq_docOf, toDoc_eq_docOf, h.assets, h.assocs, h.attackers]

/-! ## loading the assets -/

/-- the asset object an entry describes -/
def objOf (e : Key × AssetEntry) : AssetObj :=
  match e.2 with
  | .full nm ty defs ex => { id := e.1.toInt?.getD 0, name := nm, type := ty, defenses := defs, extras := ex.getD "{}" }
  | .shorthand ty => { id := e.1.toInt?.getD 0, name := ty ++ ":" ++ e.1.text, type := ty }

/-- the range check that is applied to the entry -/
def entryOk (defsOk : Key → Bool) (e : Key × AssetEntry) : Bool :=
  match e.2 with
  | .full _ _ _ _ => defsOk e.1
  | .shorthand _ => true

theorem objOf_assocs (e : Key × AssetEntry) : (objOf e).assocs = [] := by
  unfold objOf; split <;> rfl

/-- `loadAsset` as one call of `addAsset` -/
theorem loadAsset_eq (L : Lang) (defsOk : Key → Bool) (s : St) (e : Key × AssetEntry) :
    loadAsset L defsOk s e =
      match e.1.toInt? with
      | none => .error .valueError
      | some id => addAsset L s (objOf e).type (some (objOf e).name) (objOf e).defenses (entryOk defsOk e)
          (objOf e).extras (some id) true := by
  unfold loadAsset objOf entryOk
  cases e.1.toInt? with
  | none => rfl
  | some id => cases e.2 <;> rfl

/-- an entry with a new id and a new name is loaded as it is written -/
theorem loadAsset_ok_of (L : Lang) (defsOk : Key → Bool) (s : St) (e : Key × AssetEntry)
    (hk : e.1.toInt?.isSome = true) (hok : entryOk defsOk e = true)
    (hty : (L.findAsset (objOf e).type).isSome = true)
    (hdf : ∀ d ∈ (objOf e).defenses, ∃ v, (d.1, v) ∈ defensesOf L (objOf e).type)
    (hid : (objOf e).id ∉ s.assetIds) (hnm : (objOf e).name ∉ s.assetNames) :
    loadAsset L defsOk s e = .ok (addAssetSt s (objOf e)) := by
  rw [loadAsset_eq]
  obtain ⟨id, hid'⟩ := Option.isSome_iff_exists.1 hk
  have hidv : (objOf e).id = id := by
    unfold objOf; split <;> simp [hid']
  rw [hid', hok]
  dsimp only
  rw [hidv] at hid
  obtain ⟨s', hs'⟩ := addAsset_succeeds L s (objOf e).type (some (objOf e).name) (objOf e).defenses (objOf e).extras
    (some id) true hty hdf hid (fun _ _ _ => rfl)
  rw [hs']
  obtain ⟨rfl, _⟩ := addAsset_ok hs'
  congr 2
  have hn : chosenName s (objOf e).type (some (objOf e).name) id = (objOf e).name := by
    unfold chosenName
    dsimp only
    rw [if_neg (fun hc => hnm (List.contains_iff_mem.1 hc))]
  unfold newAsset
  rw [Option.getD_some, hn, ← hidv]
  have := objOf_assocs e
  cases ho : objOf e
  rw [ho] at this
  simp only at this
  subst this
  rfl

/-- what a successfully loaded entry says -/
theorem loadAsset_ok (L : Lang) (defsOk : Key → Bool) (s s' : St) (e : Key × AssetEntry)
    (h : loadAsset L defsOk s e = .ok s') :
    e.1.toInt?.isSome = true ∧ entryOk defsOk e = true ∧ (L.findAsset (objOf e).type).isSome = true ∧
    (∀ d ∈ (objOf e).defenses, ∃ v, (d.1, v) ∈ defensesOf L (objOf e).type) ∧ (objOf e).id ∉ s.assetIds := by
  rw [loadAsset_eq] at h
  cases hk : e.1.toInt? with
  | none => rw [hk] at h; cases h
  | some id =>
    rw [hk] at h
    dsimp only at h
    obtain ⟨_, h1, h2, h3, h4, _⟩ := addAsset_ok h
    have hidv : (objOf e).id = id := by
      unfold objOf; split <;> simp [hk]
    rw [hidv]
    exact ⟨rfl, h2, h1, h3, h4⟩

theorem addAssetSt_objs (s : St) (o : AssetObj) (h : Inv s) :
    (addAssetSt s o).assets.map (addAssetSt s o).aobj = s.assets.map s.aobj ++ [o] := by
  show (s.assets ++ [s.afresh]).map (fun x => if x = s.afresh then o else s.aobj x) = _
  rw [List.map_append]
  congr 1
  · apply List.map_congr_left
    intro x hx
    rw [if_neg (fun (e : x = s.afresh) => h.assets.fresh_not_mem (e ▸ hx))]
  · simp

/-- entries with pairwise distinct new ids and names are loaded one after the other as they are written -/
theorem loadAssets_ok (L : Lang) (defsOk : Key → Bool) (es : List (Key × AssetEntry)) (s : St) (h : Inv s)
    (hk : ∀ e ∈ es, e.1.toInt?.isSome = true) (hok : ∀ e ∈ es, entryOk defsOk e = true)
    (hty : ∀ e ∈ es, (L.findAsset (objOf e).type).isSome = true)
    (hdf : ∀ e ∈ es, ∀ d ∈ (objOf e).defenses, ∃ v, (d.1, v) ∈ defensesOf L (objOf e).type)
    (hid : (es.map (fun e => (objOf e).id)).Nodup) (hid' : ∀ e ∈ es, (objOf e).id ∉ s.assetIds)
    (hnm : (es.map (fun e => (objOf e).name)).Nodup) (hnm' : ∀ e ∈ es, (objOf e).name ∉ s.assetNames) :
    ∃ s', es.foldlM (loadAsset L defsOk) s = .ok s' ∧ Inv s' ∧
      s'.assets.map s'.aobj = s.assets.map s.aobj ++ es.map objOf ∧
      s'.associations = s.associations ∧ s'.attackers = s.attackers ∧ s'.lobj = s.lobj ∧ s'.tobj = s.tobj := by
  induction es generalizing s with
  | nil => exact ⟨s, rfl, h, by simp, rfl, rfl, rfl, rfl⟩
  | cons e es ih =>
    rw [List.foldlM_cons]
    have hm : e ∈ e :: es := List.mem_cons_self
    rw [loadAsset_ok_of L defsOk s e (hk e hm) (hok e hm) (hty e hm) (hdf e hm) (hid' e hm) (hnm' e hm)]
    rw [List.map_cons, List.nodup_cons] at hid hnm
    have hi1 := addAssetSt_inv s (objOf e) h (hid' e hm) (hnm' e hm) (objOf_assocs e)
    obtain ⟨s', h1, h2, h3, h4, h5, h6, h7⟩ := ih (addAssetSt s (objOf e)) hi1
      (fun x hx => hk x (List.mem_cons_of_mem _ hx)) (fun x hx => hok x (List.mem_cons_of_mem _ hx))
      (fun x hx => hty x (List.mem_cons_of_mem _ hx)) (fun x hx => hdf x (List.mem_cons_of_mem _ hx))
      hid.2
      (fun x hx hc => by
        rcases (mem_setAdd _ _ _).1 hc with hc | hc
        · exact hid' x (List.mem_cons_of_mem _ hx) hc
        · exact hid.1 (List.mem_map.2 ⟨x, hx, hc⟩))
      hnm.2
      (fun x hx hc => by
        rcases (mem_setAdd _ _ _).1 hc with hc | hc
        · exact hnm' x (List.mem_cons_of_mem _ hx) hc
        · exact hnm.1 (List.mem_map.2 ⟨x, hx, hc⟩))
    refine ⟨s', h1, h2, ?_, h4, h5, h6, h7⟩
    rw [h3, addAssetSt_objs s _ h, List.map_cons, List.append_assoc]
    rfl

/-! ## loading an association -/

/-- the data of the assets (everything but the back-references) is untouched -/
structure AFrame (s s' : St) : Prop where
  assets : s'.assets = s.assets
  id : ∀ x, (s'.aobj x).id = (s.aobj x).id
  name : ∀ x, (s'.aobj x).name = (s.aobj x).name
  type : ∀ x, (s'.aobj x).type = (s.aobj x).type
  defenses : ∀ x, (s'.aobj x).defenses = (s.aobj x).defenses
  extras : ∀ x, (s'.aobj x).extras = (s.aobj x).extras

theorem AFrame.refl (s : St) : AFrame s s := ⟨rfl, fun _ => rfl, fun _ => rfl, fun _ => rfl, fun _ => rfl, fun _ => rfl⟩
theorem AFrame.trans {s s' s'' : St} (h : AFrame s s') (h' : AFrame s' s'') : AFrame s s'' :=
  ⟨h'.assets.trans h.assets, fun x => (h'.id x).trans (h.id x), fun x => (h'.name x).trans (h.name x),
   fun x => (h'.type x).trans (h.type x), fun x => (h'.defenses x).trans (h.defenses x),
   fun x => (h'.extras x).trans (h.extras x)⟩

theorem AFrame.objView {s s' : St} (h : AFrame s s') (L : Lang) (x : Nat) : assetView L s' x = assetView L s x := by
  unfold assetView Ser.objView effDefenses
  rw [h.id, h.name, h.type, h.defenses, h.extras]
theorem AFrame.objFileView {s s' : St} (h : AFrame s s') (L : Lang) (x : Nat) :
    assetFileView L s' x = assetFileView L s x := by
  unfold assetFileView Ser.objFileView nonDefault
  rw [h.id, h.name, h.type, h.defenses, h.extras]
theorem AFrame.assetViews {s s' : St} (h : AFrame s s') (L : Lang) :
    s'.assets.map (assetView L s') = s.assets.map (assetView L s) := by
  rw [h.assets]; exact List.map_congr_left (fun x _ => h.objView L x)
theorem AFrame.assetFileViews {s s' : St} (h : AFrame s s') (L : Lang) :
    s'.assets.map (assetFileView L s') = s.assets.map (assetFileView L s) := by
  rw [h.assets]; exact List.map_congr_left (fun x _ => h.objFileView L x)
theorem AFrame.assocView {s s' : St} (h : AFrame s s') (l : Nat) (hl : s'.lobj l = s.lobj l) :
    assocView s' l = assocView s l := by
  unfold Ser.assocView
  rw [hl]
  simp only [h.id]
theorem AFrame.attView {s s' : St} (h : AFrame s s') (t : Nat) (ht : s'.tobj t = s.tobj t) :
    attView s' t = attView s t := by
  unfold Ser.attView
  rw [ht]
  simp only [h.id]

/-- the id of an asset that the lookup returns -/
theorem getAssetById_some {s : St} {i : Int} {a : Nat} (h : getAssetById s i = some a) :
    a ∈ s.assets ∧ (s.aobj a).id = i := by
  unfold getAssetById at h
  exact ⟨List.mem_of_find?_eq_some h, by simpa using List.find?_some h⟩

theorem getAssetById_exists {s : St} {i : Int} (h : ∃ a ∈ s.assets, (s.aobj a).id = i) :
    ∃ a, getAssetById s i = some a := by
  cases hg : getAssetById s i with
  | some a => exact ⟨a, rfl⟩
  | none =>
    obtain ⟨a, ha, e⟩ := h
    exact absurd e ((C05.getAssetById_none_iff s i).1 hg a ha)

/-- the reference of the asset with the given id -/
def refOf (s : St) (i : Int) : Nat := (getAssetById s i).getD 0

theorem refOf_spec {s : St} {i : Int} (h : ∃ a ∈ s.assets, (s.aobj a).id = i) :
    getAssetById s i = some (refOf s i) ∧ refOf s i ∈ s.assets ∧ (s.aobj (refOf s i)).id = i := by
  obtain ⟨a, ha⟩ := getAssetById_exists h
  have : refOf s i = a := by unfold refOf; rw [ha]; rfl
  rw [this]
  exact ⟨ha, getAssetById_some ha⟩

theorem mem_of_map_eq_map_some {α β : Type} {f : α → Option β} {ks : List α} {ids : List β}
    (h : ks.map f = ids.map some) {k : α} (hk : k ∈ ks) : ∃ i ∈ ids, f k = some i := by
  have : f k ∈ ids.map some := h ▸ List.mem_map.2 ⟨k, hk, rfl⟩
  obtain ⟨i, hi, e⟩ := List.mem_map.1 this
  exact ⟨i, hi, e.symm⟩

theorem map_getD_of_map_some {α β : Type} {f : α → Option β} {ks : List α} {ids : List β} (d : β)
    (h : ks.map f = ids.map some) : ks.map (fun k => (f k).getD d) = ids := by
  have : ks.map (fun k => (f k).getD d) = (ks.map f).map (fun o => o.getD d) := by rw [List.map_map]; rfl
  rw [this, h, List.map_map]
  have hc : ((fun o : Option β => o.getD d) ∘ some) = id := rfl
  rw [hc, List.map_id]

/-- keys that name assets of the model resolve to these assets -/
theorem resolveIds_of (s : St) (ks : List Key) (ids : List Int) (hk : ks.map Key.toInt? = ids.map some)
    (hex : ∀ i ∈ ids, ∃ a ∈ s.assets, (s.aobj a).id = i) :
    resolveIds s ks = some (ids.map (refOf s)) := by
  unfold resolveIds
  have h1 : ks.mapM (fun k => k.toInt?.bind (getAssetById s)) = some (ks.map (fun k => refOf s (k.toInt?.getD 0))) := by
    apply mapM_option_of_forall
    intro k hkm
    obtain ⟨i, hi, e⟩ := mem_of_map_eq_map_some hk hkm
    rw [e]
    exact (refOf_spec (hex i hi)).1
  rw [h1, ← map_getD_of_map_some 0 hk, List.map_map]
  rfl

/-- what resolved keys say -/
theorem resolveIds_some (s : St) (ks : List Key) (l : List Nat) (h : resolveIds s ks = some l) :
    ks.map Key.toInt? = (l.map (fun a => (s.aobj a).id)).map some ∧ ∀ a ∈ l, a ∈ s.assets := by
  unfold resolveIds at h
  rw [mapM_option_eq_some] at h
  induction ks generalizing l with
  | nil =>
    cases l with
    | nil => exact ⟨rfl, fun a ha => absurd ha List.not_mem_nil⟩
    | cons _ _ => simp at h
  | cons k ks ih =>
    cases l with
    | nil => simp at h
    | cons a l =>
      simp only [List.map_cons, List.cons.injEq] at h
      obtain ⟨h1, h2⟩ := h
      obtain ⟨e1, e2⟩ := ih l h2
      cases hk : k.toInt? with
      | none => rw [hk] at h1; cases h1
      | some i =>
        rw [hk] at h1
        have := getAssetById_some (show getAssetById s i = some a from h1)
        refine ⟨?_, ?_⟩
        · simp only [List.map_cons, List.cons.injEq]
          exact ⟨by rw [hk, this.2], e1⟩
        · intro x hx
          rcases List.mem_cons.1 hx with hx | hx
          · rw [hx]; exact this.1
          · exact e2 x hx

/-- the conditions under which an association entry is accepted, in terms of the ids it mentions -/
structure AssocLoadable (L : Lang) (s : St) (e : AssocEntry) (c : AssocClass) (lids rids : List Int) : Prop where
  left_keys : e.left.map Key.toInt? = lids.map some
  right_keys : e.right.map Key.toInt? = rids.map some
  found : (assocClasses L).find? (·.cls = e.cls) = some c
  lf : c.lf = e.lf
  rf : c.rf = e.rf
  left_type : ∀ i ∈ lids, ∃ a ∈ s.assets, (s.aobj a).id = i ∧ L.isSub (s.aobj a).type c.ltype = true
  right_type : ∀ i ∈ rids, ∃ a ∈ s.assets, (s.aobj a).id = i ∧ L.isSub (s.aobj a).type c.rtype = true
  left_count : okCount c.lmax lids.length = true
  right_count : okCount c.rmax rids.length = true
  left_nodup : lids.Nodup
  right_nodup : rids.Nodup
  fresh : ∀ l' ∈ s.associations, (s.lobj l').cls = e.cls → ∀ i ∈ lids, ∀ j ∈ rids,
    ¬ (i ∈ (s.lobj l').left.map (fun a => (s.aobj a).id) ∧ j ∈ (s.lobj l').right.map (fun a => (s.aobj a).id))

theorem updL_extras_inv (s : St) (r : Nat) (ex : String) (h : Inv s) :
    Inv (updL s r (fun o => { o with extras := ex })) := by
  have hl : ∀ l, ((updL s r (fun o => { o with extras := ex })).lobj l).left = (s.lobj l).left := by
    intro l; rw [updL_lobj]; split <;> rfl
  have hr : ∀ l, ((updL s r (fun o => { o with extras := ex })).lobj l).right = (s.lobj l).right := by
    intro l; rw [updL_lobj]; split <;> rfl
  have hc : ∀ l, ((updL s r (fun o => { o with extras := ex })).lobj l).cls = (s.lobj l).cls := by
    intro l; rw [updL_lobj]; split <;> rfl
  refine ⟨AssetsOK.congr (s := s) (h := h.assets) rfl (Nat.le_refl _) rfl rfl (Int.le_refl _) (fun _ _ => rfl) (fun _ _ => rfl),
    ?_, TtaOK.congr (s := s) (h := h.tta) rfl rfl (fun l _ => hc l),
    AttOK.congr (s := s) (h := h.att) (fun x hx => hx) rfl (Nat.le_refl _) (fun _ _ => rfl)⟩
  constructor
  · exact h.links.nodup
  · exact h.links.fresh
  · intro l hm a ha; rw [hl] at ha; exact h.links.left_live l hm a ha
  · intro l hm a ha; rw [hr] at ha; exact h.links.right_live l hm a ha
  · intro l hm; rw [hl]; exact h.links.left_nodup l hm
  · intro l hm; rw [hr]; exact h.links.right_nodup l hm
  · intro a ha l
    rw [hl, hr]
    exact h.links.mirror a ha l

theorem addAssocSt_aframe (s : St) (o : AssocObj) : AFrame s (addAssocSt s o) :=
  ⟨rfl, fun _ => rfl, fun _ => rfl, fun _ => rfl, fun _ => rfl, fun _ => rfl⟩

/-- the state after loading an association entry with the given extras -/
def withExtras (s' : St) (l : Nat) : Option String → St
  | some ex => updL s' l (fun o => { o with extras := ex })
  | none => s'

theorem withExtras_inv (s : St) (l : Nat) (ex : Option String) (h : Inv s) : Inv (withExtras s l ex) := by
  cases ex with
  | none => exact h
  | some ex => exact updL_extras_inv s l ex h

theorem withExtras_aframe (s : St) (l : Nat) (ex : Option String) : AFrame s (withExtras s l ex) := by
  cases ex <;> exact ⟨rfl, fun _ => rfl, fun _ => rfl, fun _ => rfl, fun _ => rfl, fun _ => rfl⟩

theorem withExtras_addAssocSt_lobj (s : St) (o : AssocObj) (ex : Option String) :
    (withExtras (addAssocSt s o) s.lfresh ex).lobj s.lfresh = { o with extras := ex.getD o.extras } := by
  cases ex with
  | none => show (if s.lfresh = s.lfresh then o else _) = _; rw [if_pos rfl]; rfl
  | some ex =>
    show (if s.lfresh = s.lfresh then _ else _) = _
    rw [if_pos rfl]
    show ({ (if s.lfresh = s.lfresh then o else _) with extras := ex } : AssocObj) = _
    rw [if_pos rfl]; rfl

theorem loadAssoc_eq (L : Lang) (s : St) (e : AssocEntry) (l r : List Nat) (c : AssocClass)
    (hl : resolveIds s e.left = some l) (hr : resolveIds s e.right = some r)
    (hc : (assocClasses L).find? (·.cls = e.cls) = some c) (hlf : c.lf = e.lf) (hrf : c.rf = e.rf) :
    loadAssoc L s e = match addAssociation L s e.cls l r with
      | .error er => .error er
      | .ok s' => .ok (withExtras s' s.lfresh e.extras) := by
  unfold loadAssoc
  rw [hl, hr]
  dsimp only
  rw [hc]
  dsimp only
  rw [if_pos ⟨hlf, hrf⟩]
  cases addAssociation L s e.cls l r with
  | error er => rfl
  | ok s' => cases e.extras <;> rfl

/-- an entry that satisfies the conditions is loaded: the model gets one more association, with the members
the ids name -/
theorem loadAssoc_ok_of (L : Lang) (s : St) (e : AssocEntry) (c : AssocClass) (lids rids : List Int) (h : Inv s)
    (ha : AssocLoadable L s e c lids rids) :
    ∃ s', loadAssoc L s e = .ok s' ∧ Inv s' ∧ AFrame s s' ∧
      s'.associations.map (assocView s') =
        s.associations.map (assocView s) ++ [⟨e.cls, e.lf, lids, e.rf, rids, e.extras.getD "{}"⟩] ∧
      s'.attackers = s.attackers ∧ s'.tobj = s.tobj := by
  have hlex : ∀ i ∈ lids, ∃ a ∈ s.assets, (s.aobj a).id = i := fun i hi =>
    let ⟨a, ha1, ha2, _⟩ := ha.left_type i hi; ⟨a, ha1, ha2⟩
  have hrex : ∀ i ∈ rids, ∃ a ∈ s.assets, (s.aobj a).id = i := fun i hi =>
    let ⟨a, ha1, ha2, _⟩ := ha.right_type i hi; ⟨a, ha1, ha2⟩
  have hl := resolveIds_of s e.left lids ha.left_keys hlex
  have hr := resolveIds_of s e.right rids ha.right_keys hrex
  rw [loadAssoc_eq L s e _ _ c hl hr ha.found ha.lf ha.rf]
  have hlid : (lids.map (refOf s)).map (fun a => (s.aobj a).id) = lids := by
    rw [List.map_map]
    conv => rhs; rw [← List.map_id lids]
    exact List.map_congr_left (fun i hi => (refOf_spec (hlex i hi)).2.2)
  have hrid : (rids.map (refOf s)).map (fun a => (s.aobj a).id) = rids := by
    rw [List.map_map]
    conv => rhs; rw [← List.map_id rids]
    exact List.map_congr_left (fun i hi => (refOf_spec (hrex i hi)).2.2)
  have hacc := C06.valid_accepted L s e.cls (lids.map (refOf s)) (rids.map (refOf s)) c h ha.found
    (by
      intro a ham
      obtain ⟨i, hi, rfl⟩ := List.mem_map.1 ham
      obtain ⟨a', ha1, ha2, ha3⟩ := ha.left_type i hi
      have hsp := refOf_spec (hlex i hi)
      rw [← h.assets.ids_inj a' ha1 _ hsp.2.1 (ha2.trans hsp.2.2.symm)]; exact ha3)
    (by
      intro a ham
      obtain ⟨i, hi, rfl⟩ := List.mem_map.1 ham
      obtain ⟨a', ha1, ha2, ha3⟩ := ha.right_type i hi
      have hsp := refOf_spec (hrex i hi)
      rw [← h.assets.ids_inj a' ha1 _ hsp.2.1 (ha2.trans hsp.2.2.symm)]; exact ha3)
    (by rw [List.length_map]; exact ha.left_count) (by rw [List.length_map]; exact ha.right_count)
    (by intro a ham; obtain ⟨i, hi, rfl⟩ := List.mem_map.1 ham; exact (refOf_spec (hlex i hi)).2.1)
    (by intro a ham; obtain ⟨i, hi, rfl⟩ := List.mem_map.1 ham; exact (refOf_spec (hrex i hi)).2.1)
    (nodup_of_map (fun a => (s.aobj a).id) _ (by rw [hlid]; exact ha.left_nodup))
    (nodup_of_map (fun a => (s.aobj a).id) _ (by rw [hrid]; exact ha.right_nodup))
    (by
      intro l' hl' hcls a ham b hbm ⟨hal, hbr⟩
      obtain ⟨i, hi, rfl⟩ := List.mem_map.1 ham
      obtain ⟨j, hj, rfl⟩ := List.mem_map.1 hbm
      apply ha.fresh l' hl' hcls i hi j hj
      exact ⟨List.mem_map.2 ⟨_, hal, (refOf_spec (hlex i hi)).2.2⟩, List.mem_map.2 ⟨_, hbr, (refOf_spec (hrex j hj)).2.2⟩⟩)
  obtain ⟨s1, hs1⟩ := hacc
  rw [hs1]
  dsimp only
  have hi1 := addAssociation_inv' h hs1
  obtain ⟨c', hacc', rfl⟩ := addAssociation_ok hs1
  have hcc : c' = c := Option.some.inj (hacc'.found.symm.trans ha.found)
  subst hcc
  refine ⟨_, rfl, withExtras_inv _ _ _ hi1, (addAssocSt_aframe s _).trans (withExtras_aframe _ _ _), ?_,
    by cases e.extras <;> rfl, by cases e.extras <;> rfl⟩
  have hfr := h.links.fresh_not_mem
  have hassoc : (withExtras (addAssocSt s { cls := e.cls, lf := c'.lf, rf := c'.rf, left := lids.map (refOf s), right := rids.map (refOf s) })
      s.lfresh e.extras).associations = s.associations ++ [s.lfresh] := by cases e.extras <;> rfl
  rw [hassoc, List.map_append]
  congr 1
  · apply List.map_congr_left
    intro l' hl'
    have hne : l' ≠ s.lfresh := fun e' => hfr (e' ▸ hl')
    apply AFrame.assocView ((addAssocSt_aframe s _).trans (withExtras_aframe _ _ _))
    cases e.extras with
    | none => show (if l' = s.lfresh then _ else s.lobj l') = _; rw [if_neg hne]
    | some ex =>
      show (if l' = s.lfresh then _ else (if l' = s.lfresh then _ else s.lobj l')) = _
      rw [if_neg hne, if_neg hne]
  · simp only [List.map_cons, List.map_nil, List.cons.injEq, and_true]
    have hf := (addAssocSt_aframe s
      { cls := e.cls, lf := c'.lf, rf := c'.rf, left := lids.map (refOf s), right := rids.map (refOf s) }).trans
        (withExtras_aframe _ s.lfresh e.extras)
    unfold Ser.assocView
    rw [withExtras_addAssocSt_lobj]
    simp only [hf.id]
    rw [hlid, hrid, ha.lf, ha.rf]

/-! ## loading an attacker -/

/-- the name `add_attacker` gives -/
def attName (n : String) (id : Int) : String := if n.isEmpty then "Attacker:" ++ toString id else n

/-- the entry points of an attacker entry, by reference -/
def entryRefs (s : St) (e : Key × AttackerEntry) : List (Nat × List String) :=
  e.2.entry.map (fun p => (refOf s (p.1.toInt?.getD 0), p.2))

/-- the state after loading an attacker entry -/
def loadAttackerSt (s : St) (e : Key × AttackerEntry) : St :=
  updT (addAttacker s (some e.2.name) (some (e.1.toInt?.getD 0))) s.tfresh (fun o => { o with entry := entryRefs s e })

theorem loadAttacker_ok_of (s : St) (e : Key × AttackerEntry) (hk : e.1.toInt?.isSome = true)
    (hex : ∀ p ∈ e.2.entry, ∃ i, p.1.toInt? = some i ∧ ∃ a ∈ s.assets, (s.aobj a).id = i) :
    loadAttacker s e = .ok (loadAttackerSt s e) := by
  unfold loadAttacker loadAttackerSt
  obtain ⟨id, hid⟩ := Option.isSome_iff_exists.1 hk
  rw [hid]
  dsimp only
  have h1 : e.2.entry.mapM (fun p => (p.1.toInt?.bind (getAssetById s)).map (fun a => (a, p.2))) = some (entryRefs s e) := by
    unfold entryRefs
    apply mapM_option_of_forall
    intro p hp
    obtain ⟨i, hi, hex'⟩ := hex p hp
    rw [hi]
    show Option.map _ (getAssetById s i) = _
    rw [(refOf_spec hex').1]
    rfl
  rw [h1]
  rfl

/-- what a successfully loaded attacker entry says -/
theorem loadAttacker_ok (s s' : St) (e : Key × AttackerEntry) (h : loadAttacker s e = .ok s') :
    e.1.toInt?.isSome = true ∧ ∀ p ∈ e.2.entry, ∃ i, p.1.toInt? = some i ∧ ∃ a ∈ s.assets, (s.aobj a).id = i := by
  unfold loadAttacker at h
  cases hk : e.1.toInt? with
  | none => rw [hk] at h; cases h
  | some id =>
    rw [hk] at h
    dsimp only at h
    refine ⟨rfl, ?_⟩
    cases hm : e.2.entry.mapM (fun p => (p.1.toInt?.bind (getAssetById s)).map (fun a => (a, p.2))) with
    | none => rw [hm] at h; cases h
    | some eps =>
      rw [mapM_option_eq_some] at hm
      intro p hp
      obtain ⟨x, _, hx⟩ := mem_of_map_eq_map_some hm hp
      cases hi : p.1.toInt? with
      | none => rw [hi] at hx; cases hx
      | some i =>
        rw [hi] at hx
        refine ⟨i, rfl, ?_⟩
        cases hg : getAssetById s i with
        | none =>
          have : (Option.map (fun a => (a, p.2)) (getAssetById s i)) = some x := hx
          rw [hg] at this; cases this
        | some a => exact ⟨a, getAssetById_some hg⟩

theorem loadAttackerSt_aframe (s : St) (e : Key × AttackerEntry) : AFrame s (loadAttackerSt s e) :=
  ⟨rfl, fun _ => rfl, fun _ => rfl, fun _ => rfl, fun _ => rfl, fun _ => rfl⟩

theorem loadAttackerSt_views (s : St) (e : Key × AttackerEntry) (hfr : ∀ t ∈ s.attackers, t < s.tfresh)
    (hex : ∀ p ∈ e.2.entry, ∃ i, p.1.toInt? = some i ∧ ∃ a ∈ s.assets, (s.aobj a).id = i) :
    (loadAttackerSt s e).attackers.map (attView (loadAttackerSt s e)) =
      s.attackers.map (attView s) ++
        [⟨e.1.toInt?.getD 0, attName e.2.name (e.1.toInt?.getD 0), e.2.entry.map (fun p => (p.1.toInt?.getD 0, p.2))⟩] := by
  show (s.attackers ++ [s.tfresh]).map _ = _
  rw [List.map_append]
  congr 1
  · apply List.map_congr_left
    intro t ht
    have hne : t ≠ s.tfresh := fun e' => Nat.lt_irrefl _ (e' ▸ hfr t ht)
    apply AFrame.attView (loadAttackerSt_aframe s e)
    show (if t = s.tfresh then _ else (if t = s.tfresh then _ else s.tobj t)) = _
    rw [if_neg hne, if_neg hne]
  · simp only [List.map_cons, List.map_nil, List.cons.injEq, and_true]
    unfold Ser.attView
    have hobj : (loadAttackerSt s e).tobj s.tfresh =
        { id := e.1.toInt?.getD 0, name := attName e.2.name (e.1.toInt?.getD 0), entry := entryRefs s e } := by
      unfold loadAttackerSt
      rw [updT_tobj, if_pos rfl]
      simp [addAttacker, attName]
    rw [hobj]
    simp only [(loadAttackerSt_aframe s e).id]
    congr 1
    unfold entryRefs
    rw [List.map_map]
    apply List.map_congr_left
    intro p hp
    obtain ⟨i, hi, hex'⟩ := hex p hp
    show ((s.aobj (refOf s (p.1.toInt?.getD 0))).id, p.2) = _
    rw [hi]
    show ((s.aobj (refOf s i)).id, p.2) = _
    rw [(refOf_spec hex').2.2]
    rfl

theorem loadAttackerSt_fresh (s : St) (e : Key × AttackerEntry) (hfr : ∀ t ∈ s.attackers, t < s.tfresh) :
    ∀ t ∈ (loadAttackerSt s e).attackers, t < (loadAttackerSt s e).tfresh := by
  intro t ht
  have ht : t ∈ s.attackers ++ [s.tfresh] := ht
  show t < s.tfresh + 1
  rcases mem_append_single.1 ht with ht | ht
  · exact Nat.lt_succ_of_lt (hfr t ht)
  · rw [ht]; exact Nat.lt_succ_self _

theorem loadAttackerSt_inv (s : St) (e : Key × AttackerEntry) (h : Inv s)
    (hex : ∀ p ∈ e.2.entry, ∃ i, p.1.toInt? = some i ∧ ∃ a ∈ s.assets, (s.aobj a).id = i)
    (hn : (e.2.entry.map (fun p => p.1.toInt?.getD 0)).Nodup) : Inv (loadAttackerSt s e) := by
  apply updT_entry_inv _ _ _ (addAttacker_inv' s _ _ h)
  · intro _ ep hep
    have hep : ep ∈ entryRefs s e := hep
    obtain ⟨p, hp, rfl⟩ := List.mem_map.1 hep
    obtain ⟨i, hi, hex'⟩ := hex p hp
    show refOf s (p.1.toInt?.getD 0) ∈ s.assets
    rw [hi]
    exact (refOf_spec hex').2.1
  · intro _
    show ((entryRefs s e).map (·.1)).Nodup
    apply nodup_of_map (fun a => (s.aobj a).id)
    have : ((entryRefs s e).map (·.1)).map (fun a => (s.aobj a).id) = e.2.entry.map (fun p => p.1.toInt?.getD 0) := by
      unfold entryRefs
      rw [List.map_map, List.map_map]
      apply List.map_congr_left
      intro p hp
      obtain ⟨i, hi, hex'⟩ := hex p hp
      show (s.aobj (refOf s (p.1.toInt?.getD 0))).id = _
      rw [hi]
      exact (refOf_spec hex').2.2
    rw [this]
    exact hn

/-! ## defense values -/

theorem defensesOf_keys_nodup (L : Lang) (t : String) : ((defensesOf L t).map (·.1)).Nodup := by
  unfold defensesOf
  rw [List.map_map]
  have : ((fun x : String × String => x.1) ∘ fun e : String × StepDecl => (e.1, if e.2.ttcName = some "Enabled" then "1.0" else "0.0")) =
      (fun e : String × StepDecl => e.1) := rfl
  rw [this]
  exact (foldSteps_keys_nodup L t).sublist (List.filter_sublist.map _)

/-- the asset object that is written to the file: only the non-default defense values -/
def normObj (L : Lang) (o : AssetObj) : AssetObj := { o with defenses := nonDefault L o, assocs := [] }

theorem nonDefault_normObj (L : Lang) (o : AssetObj) : nonDefault L (normObj L o) = nonDefault L o := by
  have : ∀ (p : String × String → Bool) (l : List (String × String)), (l.filter p).filter p = l.filter p := by
    intro p l; rw [List.filter_filter]; simp only [Bool.and_self]
  exact this _ _

theorem objFileView_normObj (L : Lang) (o : AssetObj) : objFileView L (normObj L o) = objFileView L o := by
  unfold objFileView
  rw [nonDefault_normObj]
  rfl

theorem find?_key_unique {β : Type} (l : List (String × β)) (hk : (l.map (·.1)).Nodup) (k : String) (x : String × β) :
    l.find? (·.1 = k) = some x ↔ x ∈ l ∧ x.1 = k := by
  rw [find?_unique]
  · simp only [decide_eq_true_eq]
  · intro a ha b hb pa pb
    simp only [decide_eq_true_eq] at pa pb
    exact inj_of_nodup_map (fun e : String × β => e.1) l hk a ha b hb (pa.trans pb.symm)

/-- leaving out the values that are the default does not change the value of any defense -/
theorem effDefenses_normObj (L : Lang) (o : AssetObj) (hk : (o.defenses.map (·.1)).Nodup) :
    effDefenses L (normObj L o) = effDefenses L o := by
  unfold effDefenses
  show (defensesOf L o.type).map _ = _
  apply List.map_congr_left
  intro d hd
  show (d.1, (((nonDefault L o).find? (·.1 = d.1)).map (·.2)).getD d.2) = _
  congr 1
  have hsub : (nonDefault L o).Sublist o.defenses := List.filter_sublist
  have hk' : ((nonDefault L o).map (·.1)).Nodup := hk.sublist (hsub.map _)
  cases hf : o.defenses.find? (·.1 = d.1) with
  | none =>
    have : (nonDefault L o).find? (·.1 = d.1) = none := by
      rw [List.find?_eq_none] at hf ⊢
      intro x hx; exact hf x (hsub.mem hx)
    rw [this]
  | some x =>
    obtain ⟨hx, hxk⟩ := (find?_key_unique _ hk d.1 x).1 hf
    by_cases hxn : x ∈ nonDefault L o
    · rw [(find?_key_unique _ hk' d.1 x).2 ⟨hxn, hxk⟩]
    · have hdef : x ∈ defensesOf L o.type := by
        unfold nonDefault at hxn
        rw [List.mem_filter] at hxn
        have : (defensesOf L o.type).any (fun e => e.1 = x.1 && e.2 = x.2) = true := by
          cases hb : (defensesOf L o.type).any (fun e => e.1 = x.1 && e.2 = x.2) with
          | true => rfl
          | false => exact absurd ⟨hx, by simp [hb]⟩ hxn
        obtain ⟨e, he, hee⟩ := List.any_eq_true.1 this
        simp only [Bool.and_eq_true, decide_eq_true_eq] at hee
        have : e = x := Prod.ext hee.1 hee.2
        rw [← this]; exact he
      have hdx : d = x := inj_of_nodup_map (fun e : String × String => e.1) _ (defensesOf_keys_nodup L o.type) d hd x hdef hxk.symm
      have : (nonDefault L o).find? (·.1 = d.1) = none := by
        rw [List.find?_eq_none]
        intro y hy
        simp only [decide_eq_true_eq]
        intro hyk
        have : y = x := inj_of_nodup_map (fun e : String × String => e.1) _ hk y (hsub.mem hy) x hx (hyk.trans hxk.symm)
        exact hxn (this ▸ hy)
      rw [this, hdx]
      rfl

theorem objView_normObj (L : Lang) (o : AssetObj) (hk : (o.defenses.map (·.1)).Nodup) :
    objView L (normObj L o) = objView L o := by
  unfold objView
  rw [effDefenses_normObj L o hk]
  rfl

/-! ## the document `toDoc` writes, entry by entry -/

def entryOfObj (L : Lang) (o : AssetObj) : Key × AssetEntry :=
  (.i o.id, .full o.name o.type (nonDefault L o) (exOpt o.extras))
def assocEntryOf (s : St) (l : Nat) : AssocEntry :=
  { cls := (s.lobj l).cls, lf := (s.lobj l).lf, left := (s.lobj l).left.map (fun a => .i (s.aobj a).id),
    rf := (s.lobj l).rf, right := (s.lobj l).right.map (fun a => .i (s.aobj a).id), extras := exOpt (s.lobj l).extras }
def attEntryOf (s : St) (t : Nat) : Key × AttackerEntry :=
  (.i (s.tobj t).id, { name := (s.tobj t).name, entry := (s.tobj t).entry.map (fun ep => (.i (s.aobj ep.1).id, ep.2)) })

theorem objOf_entryOfObj (L : Lang) (o : AssetObj) : objOf (entryOfObj L o) = normObj L o := by
  unfold objOf entryOfObj normObj
  dsimp only
  rw [exOpt_getD]
  rfl

theorem key_i_nodup {α : Type} (f : α → Int) (l : List α) (h : (l.map f).Nodup) : (l.map (fun x => Key.i (f x))).Nodup := by
  have : l.map (fun x => Key.i (f x)) = (l.map f).map Key.i := by rw [List.map_map]; rfl
  rw [this]
  exact nodup_map_of_inj Key.i _ h (fun a _ b _ e => Key.i.inj e)

theorem asset_ids_nodup {s : St} (h : Inv s) : (s.assets.map (fun a => (s.aobj a).id)).Nodup :=
  nodup_map_of_inj _ _ h.assets.nodup h.assets.ids_inj
theorem asset_names_nodup {s : St} (h : Inv s) : (s.assets.map (fun a => (s.aobj a).name)).Nodup :=
  nodup_map_of_inj _ _ h.assets.nodup h.assets.names_inj

theorem toDoc_assets (L : Lang) (s : St) (h : Inv s) :
    (toDoc L s).assets = s.assets.map (fun a => entryOfObj L (s.aobj a)) := by
  show s.assets.foldl (fun d a => dictPut d (.i (s.aobj a).id) _) [] = _
  rw [foldl_dictPut (fun a => Key.i (s.aobj a).id)]
  · rfl
  · exact key_i_nodup _ _ (asset_ids_nodup h)

theorem toDoc_associations (L : Lang) (s : St) : (toDoc L s).associations = s.associations.map (assocEntryOf s) := rfl

theorem entry_ids_nodup {s : St} (h : Inv s) {t : Nat} (ht : t ∈ s.attackers) :
    ((s.tobj t).entry.map (fun ep => (s.aobj ep.1).id)).Nodup := by
  have : (s.tobj t).entry.map (fun ep => (s.aobj ep.1).id) = ((s.tobj t).entry.map (·.1)).map (fun a => (s.aobj a).id) := by
    rw [List.map_map]; rfl
  rw [this]
  apply nodup_map_of_inj _ _ (h.att.entry_nodup t ht)
  intro a ha b hb e
  obtain ⟨ep, hep, rfl⟩ := List.mem_map.1 ha
  obtain ⟨ep', hep', rfl⟩ := List.mem_map.1 hb
  exact h.assets.ids_inj _ (h.att.entry_live t ht ep hep) _ (h.att.entry_live t ht ep' hep') e

theorem toDoc_attackers (L : Lang) (s : St) (h : Inv s) (hd : AttIdsDistinct s) :
    (toDoc L s).attackers = s.attackers.map (attEntryOf s) := by
  show s.attackers.foldl (fun d t => dictPut d (.i (s.tobj t).id) _) [] = _
  rw [foldl_dictPut (fun t => Key.i (s.tobj t).id)]
  · rw [List.nil_append]
    apply List.map_congr_left
    intro t ht
    unfold attEntryOf
    congr 2
    rw [foldl_dictPut (fun ep : Nat × List String => Key.i (s.aobj ep.1).id) (fun ep => ep.2)]
    · rfl
    · exact key_i_nodup _ _ (entry_ids_nodup h ht)
  · exact key_i_nodup _ _ hd

/-! ## loading the document that `toDoc` writes -/

/-- an asset of `s` is found again, by its id, in a state that shows the same assets -/
theorem exists_same_asset {L : Lang} {s s2 : St}
    (hv : s2.assets.map (assetFileView L s2) = s.assets.map (assetFileView L s)) {a : Nat} (ha : a ∈ s.assets) :
    ∃ a2 ∈ s2.assets, (s2.aobj a2).id = (s.aobj a).id ∧ (s2.aobj a2).type = (s.aobj a).type := by
  have : assetFileView L s a ∈ s2.assets.map (assetFileView L s2) := hv ▸ List.mem_map.2 ⟨a, ha, rfl⟩
  obtain ⟨a2, ha2, e⟩ := List.mem_map.1 this
  unfold assetFileView objFileView at e
  simp only [AssetView.mk.injEq] at e
  exact ⟨a2, ha2, e.1, e.2.2.1⟩

theorem fromDoc_eq (L : Lang) (defsOk : Key → Bool) (d : ModelDoc) (s1 s2 : St)
    (h1 : d.assets.foldlM (loadAsset L defsOk) ({} : St) = .ok s1)
    (h2 : d.associations.foldlM (loadAssoc L) s1 = .ok s2) :
    fromDoc L defsOk d = d.attackers.foldlM loadAttacker s2 := by
  unfold fromDoc
  rw [h1]
  show (d.associations.foldlM (loadAssoc L) s1 >>= fun s2 => d.attackers.foldlM loadAttacker s2) = _
  rw [h2]
  rfl

theorem assocView_eq (s : St) (l : Nat) :
    assocView s l = ⟨(assocEntryOf s l).cls, (assocEntryOf s l).lf, (s.lobj l).left.map (fun a => (s.aobj a).id),
      (assocEntryOf s l).rf, (s.lobj l).right.map (fun a => (s.aobj a).id), (assocEntryOf s l).extras.getD "{}"⟩ := by
  unfold assocView assocEntryOf
  dsimp only
  rw [exOpt_getD]

/-- the association fold over the entries written for the associations `suf`, started in a state that shows
the assets of `s` and the associations `pre` -/
theorem loadAssocs_toDoc (L : Lang) (s s1 : St) (h : Inv s) (hv : Valid L s) (hr : LinksResolve L s)
    (hviews : s1.assets.map (assetFileView L s1) = s.assets.map (assetFileView L s)) :
    ∀ (suf pre : List Nat) (s2 : St), s.associations = pre ++ suf → Inv s2 → AFrame s1 s2 →
      s2.associations.map (assocView s2) = pre.map (assocView s) → s2.attackers = s1.attackers → s2.tobj = s1.tobj →
      ∃ s3, (suf.map (assocEntryOf s)).foldlM (loadAssoc L) s2 = .ok s3 ∧ Inv s3 ∧ AFrame s1 s3 ∧
        s3.associations.map (assocView s3) = s.associations.map (assocView s) ∧ s3.attackers = s1.attackers ∧
        s3.tobj = s1.tobj := by
  intro suf
  induction suf with
  | nil =>
    intro pre s2 hsplit hi2 hf2 hlv hatt htobj
    rw [List.append_nil] at hsplit
    exact ⟨s2, rfl, hi2, hf2, by rw [hlv, hsplit], hatt, htobj⟩
  | cons l suf ih =>
    intro pre s2 hsplit hi2 hf2 hlv hatt htobj
    have hl : l ∈ s.associations := by rw [hsplit]; exact List.mem_append_right _ List.mem_cons_self
    have hnd : (pre ++ l :: suf).Nodup := hsplit ▸ h.links.nodup
    have hlpre : l ∉ pre := by
      intro hm
      rw [List.nodup_append] at hnd
      exact hnd.2.2 l hm l List.mem_cons_self rfl
    have hv2 : s2.assets.map (assetFileView L s2) = s.assets.map (assetFileView L s) := by
      rw [hf2.assetFileViews L, hviews]
    obtain ⟨c, hfound, hinst⟩ := hr l hl
    have hload : AssocLoadable L s2 (assocEntryOf s l) c ((s.lobj l).left.map (fun a => (s.aobj a).id))
        ((s.lobj l).right.map (fun a => (s.aobj a).id)) := by
      constructor
      · show ((s.lobj l).left.map _).map _ = _
        rw [List.map_map, List.map_map]; rfl
      · show ((s.lobj l).right.map _).map _ = _
        rw [List.map_map, List.map_map]; rfl
      · exact hfound
      · exact hinst.lf.symm
      · exact hinst.rf.symm
      · intro i hi
        obtain ⟨a, ha, rfl⟩ := List.mem_map.1 hi
        obtain ⟨a2, ha2, e1, e2⟩ := exists_same_asset hv2 (h.links.left_live l hl a ha)
        exact ⟨a2, ha2, e1, by rw [e2]; exact hinst.left_type a ha⟩
      · intro i hi
        obtain ⟨a, ha, rfl⟩ := List.mem_map.1 hi
        obtain ⟨a2, ha2, e1, e2⟩ := exists_same_asset hv2 (h.links.right_live l hl a ha)
        exact ⟨a2, ha2, e1, by rw [e2]; exact hinst.right_type a ha⟩
      · rw [List.length_map]; exact hinst.left_count
      · rw [List.length_map]; exact hinst.right_count
      · exact nodup_map_of_inj _ _ (h.links.left_nodup l hl)
          (fun a ha b hb e => h.assets.ids_inj a (h.links.left_live l hl a ha) b (h.links.left_live l hl b hb) e)
      · exact nodup_map_of_inj _ _ (h.links.right_nodup l hl)
          (fun a ha b hb e => h.assets.ids_inj a (h.links.right_live l hl a ha) b (h.links.right_live l hl b hb) e)
      · intro l' hl' hcls i hi j hj ⟨hil, hjr⟩
        have : assocView s2 l' ∈ pre.map (assocView s) := hlv ▸ List.mem_map.2 ⟨l', hl', rfl⟩
        obtain ⟨l0, hl0, e0⟩ := List.mem_map.1 this
        unfold assocView at e0
        simp only [AssocView.mk.injEq] at e0
        obtain ⟨ec, _, eleft, _, eright, _⟩ := e0
        have hl0' : l0 ∈ s.associations := by rw [hsplit]; exact List.mem_append_left _ hl0
        have hne : l ≠ l0 := fun e => hlpre (e ▸ hl0)
        rw [← eleft] at hil
        rw [← eright] at hjr
        obtain ⟨a, ha, ea⟩ := List.mem_map.1 hi
        obtain ⟨b, hb, eb⟩ := List.mem_map.1 hj
        obtain ⟨a', ha', ea'⟩ := List.mem_map.1 hil
        obtain ⟨b', hb', eb'⟩ := List.mem_map.1 hjr
        apply hv.no_dup_link l hl l0 hl0' hne
        · rw [ec, hcls]; rfl
        · exact ⟨a, ha, b, hb, a', ha', b', hb', ea.trans ea'.symm, eb.trans eb'.symm⟩
    obtain ⟨s', hs', hi', hf', hlv', hatt', htobj'⟩ := loadAssoc_ok_of L s2 _ c _ _ hi2 hload
    rw [List.map_cons, List.foldlM_cons, hs']
    have := ih (pre ++ [l]) s' (by rw [hsplit, List.append_assoc]; rfl) hi' (hf2.trans hf')
      (by rw [hlv', hlv, List.map_append, List.map_cons, List.map_nil, ← assocView_eq])
      (hatt'.trans hatt) (htobj'.trans htobj)
    exact this

theorem attView_eq (s : St) (t : Nat) (hn : (s.tobj t).name.isEmpty = false) :
    attView s t = ⟨(attEntryOf s t).1.toInt?.getD 0, attName (attEntryOf s t).2.name ((attEntryOf s t).1.toInt?.getD 0),
      (attEntryOf s t).2.entry.map (fun p => (p.1.toInt?.getD 0, p.2))⟩ := by
  unfold attView attEntryOf attName
  dsimp only
  rw [hn, List.map_map]
  rfl

/-- the attacker fold over the entries written for the attackers `suf` -/
theorem loadAttackers_toDoc (L : Lang) (s s1 : St) (h : Inv s) (hn : AttNamesNonempty s)
    (hviews : s1.assets.map (assetFileView L s1) = s.assets.map (assetFileView L s)) :
    ∀ (suf pre : List Nat) (s2 : St), s.attackers = pre ++ suf → Inv s2 → AFrame s1 s2 →
      s2.attackers.map (attView s2) = pre.map (attView s) →
      ∃ s3, (suf.map (attEntryOf s)).foldlM loadAttacker s2 = .ok s3 ∧ Inv s3 ∧ AFrame s1 s3 ∧
        s3.attackers.map (attView s3) = s.attackers.map (attView s) ∧
        s3.associations.map (assocView s3) = s2.associations.map (assocView s2) := by
  intro suf
  induction suf with
  | nil =>
    intro pre s2 hsplit hi2 hf2 htv
    rw [List.append_nil] at hsplit
    exact ⟨s2, rfl, hi2, hf2, by rw [htv, hsplit], rfl⟩
  | cons t suf ih =>
    intro pre s2 hsplit hi2 hf2 htv
    have ht : t ∈ s.attackers := by rw [hsplit]; exact List.mem_append_right _ List.mem_cons_self
    have hv2 : s2.assets.map (assetFileView L s2) = s.assets.map (assetFileView L s) := by
      rw [hf2.assetFileViews L, hviews]
    have hex : ∀ p ∈ (attEntryOf s t).2.entry, ∃ i, p.1.toInt? = some i ∧ ∃ a ∈ s2.assets, (s2.aobj a).id = i := by
      intro p hp
      obtain ⟨ep, hep, rfl⟩ := List.mem_map.1 hp
      obtain ⟨a2, ha2, e1, _⟩ := exists_same_asset hv2 (h.att.entry_live t ht ep hep)
      exact ⟨_, rfl, a2, ha2, e1⟩
    have hnd : ((attEntryOf s t).2.entry.map (fun p => p.1.toInt?.getD 0)).Nodup := by
      show (((s.tobj t).entry.map _).map _).Nodup
      rw [List.map_map]
      exact entry_ids_nodup h ht
    rw [List.map_cons, List.foldlM_cons, loadAttacker_ok_of s2 _ rfl hex]
    have hf' := loadAttackerSt_aframe s2 (attEntryOf s t)
    obtain ⟨s3, h1, h2, h3, h4, h5⟩ := ih (pre ++ [t]) (loadAttackerSt s2 (attEntryOf s t))
      (by rw [hsplit, List.append_assoc]; rfl) (loadAttackerSt_inv s2 _ hi2 hex hnd) (hf2.trans hf')
      (by rw [loadAttackerSt_views s2 _ hi2.att.fresh hex, htv, List.map_append, List.map_cons, List.map_nil,
            ← attView_eq s t (hn t ht)])
    refine ⟨s3, h1, h2, h3, h4, h5.trans ?_⟩
    show s2.associations.map _ = _
    exact List.map_congr_left (fun l _ => AFrame.assocView hf' l rfl)

/-- loading the document written for `s` succeeds and yields a coherent state that shows the same model -/
theorem load_toDoc (L : Lang) (s : St) (h : Inv s) (hv : Valid L s) (hr : LinksResolve L s) (hd : DefKeysDistinct s)
    (ha : AttIdsDistinct s) (hn : AttNamesNonempty s) :
    ∃ s', fromDoc L (fun _ => true) (toDoc L s) = .ok s' ∧ Inv s' ∧ SameFile L s' s ∧ SameModel L s' s := by
  -- assets
  obtain ⟨s1, h1, hi1, hobjs, hl1, ht1, _, _⟩ := loadAssets_ok L (fun _ => true) (toDoc L s).assets {} init_inv'
    (by rw [toDoc_assets L s h]; intro e he; obtain ⟨a, _, rfl⟩ := List.mem_map.1 he; rfl)
    (by rw [toDoc_assets L s h]; intro e he; obtain ⟨a, _, rfl⟩ := List.mem_map.1 he; rfl)
    (by
      rw [toDoc_assets L s h]; intro e he; obtain ⟨a, ha, rfl⟩ := List.mem_map.1 he
      rw [objOf_entryOfObj]; exact (hv.assets a ha).known)
    (by
      rw [toDoc_assets L s h]; intro e he; obtain ⟨a, ha, rfl⟩ := List.mem_map.1 he
      rw [objOf_entryOfObj]
      intro d hdm
      exact (hv.assets a ha).defenses d (List.mem_filter.1 hdm).1)
    (by
      rw [toDoc_assets L s h, List.map_map]
      have : ((fun e => (objOf e).id) ∘ fun a => entryOfObj L (s.aobj a)) = fun a => (s.aobj a).id := by
        funext a; show (objOf (entryOfObj L (s.aobj a))).id = _; rw [objOf_entryOfObj]; rfl
      rw [this]; exact asset_ids_nodup h)
    (fun _ _ hm => absurd hm List.not_mem_nil)
    (by
      rw [toDoc_assets L s h, List.map_map]
      have : ((fun e => (objOf e).name) ∘ fun a => entryOfObj L (s.aobj a)) = fun a => (s.aobj a).name := by
        funext a; show (objOf (entryOfObj L (s.aobj a))).name = _; rw [objOf_entryOfObj]; rfl
      rw [this]; exact asset_names_nodup h)
    (fun _ _ hm => absurd hm List.not_mem_nil)
  have hobjs : s1.assets.map s1.aobj = s.assets.map (fun a => normObj L (s.aobj a)) := by
    rw [hobjs, toDoc_assets L s h, List.map_map]
    show [] ++ _ = _
    rw [List.nil_append]
    exact List.map_congr_left (fun a _ => objOf_entryOfObj L (s.aobj a))
  have hfv : s1.assets.map (assetFileView L s1) = s.assets.map (assetFileView L s) := by
    have : s1.assets.map (assetFileView L s1) = (s1.assets.map s1.aobj).map (objFileView L) := by
      rw [List.map_map]; rfl
    rw [this, hobjs, List.map_map]
    exact List.map_congr_left (fun a _ => objFileView_normObj L (s.aobj a))
  have hev : s1.assets.map (assetView L s1) = s.assets.map (assetView L s) := by
    have : s1.assets.map (assetView L s1) = (s1.assets.map s1.aobj).map (objView L) := by
      rw [List.map_map]; rfl
    rw [this, hobjs, List.map_map]
    exact List.map_congr_left (fun a ha => objView_normObj L (s.aobj a) (hd a ha))
  -- associations
  obtain ⟨s2, h2, hi2, hf2, hlv2, ht2, _⟩ := loadAssocs_toDoc L s s1 h hv hr hfv s.associations [] s1 rfl hi1
    (AFrame.refl s1) (by rw [hl1]; rfl) rfl rfl
  -- attackers
  obtain ⟨s3, h3, hi3, hf3, htv3, hlv3⟩ := loadAttackers_toDoc L s s1 h hn hfv s.attackers [] s2 rfl hi2 hf2
    (by rw [ht2, ht1]; rfl)
  refine ⟨s3, ?_, hi3, ⟨?_, ?_, htv3⟩, ⟨?_, ?_, htv3⟩⟩
  · rw [fromDoc_eq L _ _ s1 s2 h1 (by rw [toDoc_associations]; exact h2), toDoc_attackers L s h ha]
    exact h3
  · rw [hf3.assetFileViews L, hfv]
  · rw [hlv3, hlv2]
  · rw [hf3.assetViews L, hev]
  · rw [hlv3, hlv2]

/-! ## a JSON file: every dictionary key comes back as a string -/

theorem loadAsset_json (L : Lang) (defsOk : Key → Bool) (s : St) (e : Key × AssetEntry) :
    loadAsset L defsOk s (.s e.1.text, e.2) = loadAsset L (fun k => defsOk (.s k.text)) s e := by
  unfold loadAsset
  show (match (Key.s e.1.text).toInt? with | none => _ | some id => _) = _
  rw [key_json]
  rfl

theorem loadAttacker_json (s : St) (e : Key × AttackerEntry) :
    loadAttacker s (.s e.1.text, { e.2 with entry := e.2.entry.map (fun p => (.s p.1.text, p.2)) }) = loadAttacker s e := by
  unfold loadAttacker
  show (match (Key.s e.1.text).toInt? with | none => _ | some id => _) = _
  rw [key_json]
  cases e.1.toInt? with
  | none => rfl
  | some id =>
    dsimp only
    rw [List.mapM_map]
    have : ((fun p : Key × List String => (p.1.toInt?.bind (getAssetById s)).map (fun a => (a, p.2))) ∘
        fun p : Key × List String => (Key.s p.1.text, p.2)) =
        fun p : Key × List String => (p.1.toInt?.bind (getAssetById s)).map (fun a => (a, p.2)) := by
      funext p
      show ((Key.s p.1.text).toInt?.bind (getAssetById s)).map _ = _
      rw [key_json]
    rw [this]

/-- loading what a JSON file gives back is loading the document that was written, with the range check asked
for the string key -/
theorem fromDoc_jsonRT (L : Lang) (defsOk : Key → Bool) (d : ModelDoc) :
    fromDoc L defsOk (jsonRT d) = fromDoc L (fun k => defsOk (.s k.text)) d := by
  unfold fromDoc jsonRT
  dsimp only
  simp only [List.foldlM_map]
  have h1 : (fun s (e : Key × AssetEntry) => loadAsset L defsOk s (Key.s e.1.text, e.2)) =
      loadAsset L (fun k => defsOk (.s k.text)) := by
    funext s e; exact loadAsset_json L defsOk s e
  have h2 : (fun s (e : Key × AttackerEntry) =>
      loadAttacker s (Key.s e.1.text, { e.2 with entry := e.2.entry.map (fun p => (Key.s p.1.text, p.2)) })) = loadAttacker := by
    funext s e; exact loadAttacker_json s e
  rw [h1]
  simp only [h2]

/-! ## loading does not depend on the order of the asset entries -/

/-- what an accepted association entry says -/
theorem loadAssoc_ok (L : Lang) (s s' : St) (e : AssocEntry) (h : Inv s) (hok : loadAssoc L s e = .ok s') :
    ∃ c lids rids, AssocLoadable L s e c lids rids := by
  unfold loadAssoc at hok
  cases hl : resolveIds s e.left with
  | none => rw [hl] at hok; cases hok
  | some l =>
    cases hr : resolveIds s e.right with
    | none => rw [hl, hr] at hok; cases hok
    | some r =>
      rw [hl, hr] at hok
      dsimp only at hok
      cases hc : (assocClasses L).find? (·.cls = e.cls) with
      | none => rw [hc] at hok; cases hok
      | some c =>
        rw [hc] at hok
        dsimp only at hok
        by_cases hf : c.lf = e.lf ∧ c.rf = e.rf
        · rw [if_pos hf] at hok
          cases ha : addAssociation L s e.cls l r with
          | error er => rw [ha] at hok; cases hok
          | ok s1 =>
            obtain ⟨c', hacc, _⟩ := addAssociation_ok ha
            have hcc : c' = c := Option.some.inj (hacc.found.symm.trans hc)
            subst hcc
            obtain ⟨hlk, hll⟩ := resolveIds_some s e.left l hl
            obtain ⟨hrk, hrl⟩ := resolveIds_some s e.right r hr
            refine ⟨c', l.map (fun a => (s.aobj a).id), r.map (fun a => (s.aobj a).id), ?_⟩
            constructor
            · exact hlk
            · exact hrk
            · exact hc
            · exact hf.1
            · exact hf.2
            · intro i hi
              obtain ⟨a, ha', rfl⟩ := List.mem_map.1 hi
              exact ⟨a, hll a ha', rfl, hacc.left_type a ha'⟩
            · intro i hi
              obtain ⟨a, ha', rfl⟩ := List.mem_map.1 hi
              exact ⟨a, hrl a ha', rfl, hacc.right_type a ha'⟩
            · rw [List.length_map]; exact hacc.left_count
            · rw [List.length_map]; exact hacc.right_count
            · exact nodup_map_of_inj _ _ hacc.left_nodup
                (fun a ha' b hb' e' => h.assets.ids_inj a (hll a ha') b (hll b hb') e')
            · exact nodup_map_of_inj _ _ hacc.right_nodup
                (fun a ha' b hb' e' => h.assets.ids_inj a (hrl a ha') b (hrl b hb') e')
            · intro l' hl' hcls i hi j hj ⟨hil, hjr⟩
              obtain ⟨a, ha', rfl⟩ := List.mem_map.1 hi
              obtain ⟨b, hb', rfl⟩ := List.mem_map.1 hj
              obtain ⟨a', ha'', ea⟩ := List.mem_map.1 hil
              obtain ⟨b', hb'', eb⟩ := List.mem_map.1 hjr
              have := assocExists_of_pair s e.cls a b l' a' b' ((h.tta.iff e.cls l').2 ⟨hl', hcls⟩) ha'' hb'' ea.symm eb.symm
              rw [hacc.fresh_pairs a ha' b hb'] at this
              cases this
        · rw [if_neg hf] at hok; cases hok

/-- the conditions only look at the ids and types of the assets and at the associations by member ids -/
theorem AssocLoadable.transfer {L : Lang} {s s' : St} {e : AssocEntry} {c : AssocClass} {lids rids : List Int}
    (ha : AssocLoadable L s e c lids rids)
    (hav : ∀ v, v ∈ s.assets.map (assetView L s) → v ∈ s'.assets.map (assetView L s'))
    (hlv : s'.associations.map (assocView s') = s.associations.map (assocView s)) :
    AssocLoadable L s' e c lids rids := by
  have hex : ∀ a ∈ s.assets, ∃ a' ∈ s'.assets, (s'.aobj a').id = (s.aobj a).id ∧ (s'.aobj a').type = (s.aobj a).type := by
    intro a ha'
    obtain ⟨a', ha'', e'⟩ := List.mem_map.1 (hav _ (List.mem_map.2 ⟨a, ha', rfl⟩))
    unfold assetView objView at e'
    simp only [AssetView.mk.injEq] at e'
    exact ⟨a', ha'', e'.1, e'.2.2.1⟩
  constructor
  · exact ha.left_keys
  · exact ha.right_keys
  · exact ha.found
  · exact ha.lf
  · exact ha.rf
  · intro i hi
    obtain ⟨a, h1, h2, h3⟩ := ha.left_type i hi
    obtain ⟨a', h1', h2', h3'⟩ := hex a h1
    exact ⟨a', h1', h2'.trans h2, by rw [h3']; exact h3⟩
  · intro i hi
    obtain ⟨a, h1, h2, h3⟩ := ha.right_type i hi
    obtain ⟨a', h1', h2', h3'⟩ := hex a h1
    exact ⟨a', h1', h2'.trans h2, by rw [h3']; exact h3⟩
  · exact ha.left_count
  · exact ha.right_count
  · exact ha.left_nodup
  · exact ha.right_nodup
  · intro l' hl' hcls i hi j hj ⟨hil, hjr⟩
    have : assocView s' l' ∈ s.associations.map (assocView s) := hlv ▸ List.mem_map.2 ⟨l', hl', rfl⟩
    obtain ⟨l0, hl0, e0⟩ := List.mem_map.1 this
    unfold assocView at e0
    simp only [AssocView.mk.injEq] at e0
    obtain ⟨ec, _, eleft, _, eright, _⟩ := e0
    apply ha.fresh l0 hl0 (ec.trans hcls) i hi j hj
    rw [eleft, eright]
    exact ⟨hil, hjr⟩

theorem fromDoc_ok {L : Lang} {defsOk : Key → Bool} {d : ModelDoc} {s : St} (h : fromDoc L defsOk d = .ok s) :
    ∃ s1 s2, d.assets.foldlM (loadAsset L defsOk) ({} : St) = .ok s1 ∧
      d.associations.foldlM (loadAssoc L) s1 = .ok s2 ∧ d.attackers.foldlM loadAttacker s2 = .ok s := by
  unfold fromDoc at h
  cases h1 : d.assets.foldlM (loadAsset L defsOk) ({} : St) with
  | error e => rw [h1] at h; cases h
  | ok s1 =>
    rw [h1] at h
    have h : (d.associations.foldlM (loadAssoc L) s1 >>= fun s2 => d.attackers.foldlM loadAttacker s2) = .ok s := h
    cases h2 : d.associations.foldlM (loadAssoc L) s1 with
    | error e => rw [h2] at h; cases h
    | ok s2 =>
      rw [h2] at h
      exact ⟨s1, s2, by first | exact h1 | rfl, h2, h⟩

/-- every entry of a successfully loaded asset section is well formed -/
theorem loadAssets_entries (L : Lang) (defsOk : Key → Bool) (es : List (Key × AssetEntry)) (s s' : St)
    (h : es.foldlM (loadAsset L defsOk) s = .ok s') :
    ∀ e ∈ es, e.1.toInt?.isSome = true ∧ entryOk defsOk e = true ∧ (L.findAsset (objOf e).type).isSome = true ∧
      (∀ d ∈ (objOf e).defenses, ∃ v, (d.1, v) ∈ defensesOf L (objOf e).type) := by
  induction es generalizing s with
  | nil => intro e he; exact absurd he List.not_mem_nil
  | cons e0 es ih =>
    rw [List.foldlM_cons] at h
    cases h0 : loadAsset L defsOk s e0 with
    | error er => rw [h0] at h; cases h
    | ok s0 =>
      rw [h0] at h
      obtain ⟨a1, a2, a3, a4, _⟩ := loadAsset_ok L defsOk s s0 e0 h0
      intro e he
      rcases List.mem_cons.1 he with he | he
      · rw [he]; exact ⟨a1, a2, a3, a4⟩
      · exact ih s0 h e he

/-- two states that show the same assets (in any order), associations and attackers -/
structure SameUpToAssetOrder (L : Lang) (s s' : St) : Prop where
  assets : (s.assets.map (assetView L s)).Perm (s'.assets.map (assetView L s'))
  assocs : s.associations.map (assocView s) = s'.associations.map (assocView s')
  attackers : s.attackers.map (attView s) = s'.attackers.map (attView s')

theorem SameModel.upToOrder {L : Lang} {s s' : St} (h : SameModel L s s') : SameUpToAssetOrder L s s' :=
  ⟨h.assets ▸ List.Perm.refl _, h.assocs, h.attackers⟩

/-- the association fold on two states that show the same model up to the order of the assets -/
theorem loadAssocs_sim (L : Lang) (es : List AssocEntry) :
    ∀ (s s' r : St), Inv s → Inv s' → SameUpToAssetOrder L s s' → s.attackers = [] → s'.attackers = [] →
      es.foldlM (loadAssoc L) s = .ok r →
      ∃ r', es.foldlM (loadAssoc L) s' = .ok r' ∧ Inv r ∧ Inv r' ∧ SameUpToAssetOrder L r r' ∧
        r.attackers = [] ∧ r'.attackers = [] := by
  induction es with
  | nil =>
    intro s s' r hi hi' hsim ht ht' hok
    have : s = r := by injection hok
    subst this
    exact ⟨s', rfl, hi, hi', hsim, ht, ht'⟩
  | cons e es ih =>
    intro s s' r hi hi' hsim ht ht' hok
    rw [List.foldlM_cons] at hok
    cases h0 : loadAssoc L s e with
    | error er => rw [h0] at hok; cases hok
    | ok s0 =>
      rw [h0] at hok
      obtain ⟨c, lids, rids, hload⟩ := loadAssoc_ok L s s0 e hi h0
      obtain ⟨s0x, hs0x, hi0, hf0, hlv0, hat0, _⟩ := loadAssoc_ok_of L s e c lids rids hi hload
      have : s0x = s0 := by rw [h0] at hs0x; injection hs0x with h; exact h.symm
      subst this
      have hload' := hload.transfer (s' := s') (fun v hv => (hsim.assets.mem_iff).1 hv) hsim.assocs.symm
      obtain ⟨s0', hs0', hi0', hf0', hlv0', hat0', _⟩ := loadAssoc_ok_of L s' e c lids rids hi' hload'
      rw [List.foldlM_cons, hs0']
      apply ih s0x s0' r hi0 hi0' ?_ (hat0.trans ht) (hat0'.trans ht') hok
      refine ⟨?_, ?_, ?_⟩
      · rw [hf0.assetViews L, hf0'.assetViews L]; exact hsim.assets
      · rw [hlv0, hlv0', hsim.assocs]
      · rw [hat0, hat0', ht, ht']; rfl

/-- attackers are below the fresh counter -/
def AttFresh (s : St) : Prop := ∀ t ∈ s.attackers, t < s.tfresh

theorem loadAttackers_sim (L : Lang) (es : List (Key × AttackerEntry)) :
    ∀ (s s' r : St), AttFresh s → AttFresh s' → SameUpToAssetOrder L s s' →
      es.foldlM loadAttacker s = .ok r →
      ∃ r', es.foldlM loadAttacker s' = .ok r' ∧ SameUpToAssetOrder L r r' := by
  induction es with
  | nil =>
    intro s s' r _ _ hsim hok
    have : s = r := by injection hok
    subst this
    exact ⟨s', rfl, hsim⟩
  | cons e es ih =>
    intro s s' r hfr hfr' hsim hok
    rw [List.foldlM_cons] at hok
    cases h0 : loadAttacker s e with
    | error er => rw [h0] at hok; cases hok
    | ok s0 =>
      rw [h0] at hok
      obtain ⟨hk, hex⟩ := loadAttacker_ok s s0 e h0
      have hs0 : s0 = loadAttackerSt s e := by
        rw [loadAttacker_ok_of s e hk hex] at h0; injection h0 with h; exact h.symm
      subst hs0
      have hex' : ∀ p ∈ e.2.entry, ∃ i, p.1.toInt? = some i ∧ ∃ a ∈ s'.assets, (s'.aobj a).id = i := by
        intro p hp
        obtain ⟨i, hi, a, ha, hai⟩ := hex p hp
        refine ⟨i, hi, ?_⟩
        obtain ⟨a', ha', e'⟩ := List.mem_map.1 ((hsim.assets.mem_iff).1 (List.mem_map.2 ⟨a, ha, rfl⟩))
        unfold assetView objView at e'
        simp only [AssetView.mk.injEq] at e'
        exact ⟨a', ha', e'.1.trans hai⟩
      rw [List.foldlM_cons, loadAttacker_ok_of s' e hk hex']
      apply ih _ _ r (loadAttackerSt_fresh s e hfr) (loadAttackerSt_fresh s' e hfr') ?_ hok
      refine ⟨?_, ?_, ?_⟩
      · rw [(loadAttackerSt_aframe s e).assetViews L, (loadAttackerSt_aframe s' e).assetViews L]; exact hsim.assets
      · have h1 : (loadAttackerSt s e).associations.map (assocView (loadAttackerSt s e)) = s.associations.map (assocView s) :=
          List.map_congr_left (fun l _ => AFrame.assocView (loadAttackerSt_aframe s e) l rfl)
        have h2 : (loadAttackerSt s' e).associations.map (assocView (loadAttackerSt s' e)) = s'.associations.map (assocView s') :=
          List.map_congr_left (fun l _ => AFrame.assocView (loadAttackerSt_aframe s' e) l rfl)
        rw [h1, h2]; exact hsim.assocs
      · rw [loadAttackerSt_views s e hfr hex, loadAttackerSt_views s' e hfr' hex', hsim.attackers]

/-- a document whose asset entries have pairwise distinct ids and names loads to the same model, up to the
order of the assets, whatever the order of the asset entries -/
theorem fromDoc_perm (L : Lang) (defsOk : Key → Bool) (d d' : ModelDoc) (hp : d.assets.Perm d'.assets)
    (hl : d'.associations = d.associations) (ht : d'.attackers = d.attackers)
    (hid : (d.assets.map (fun e => (objOf e).id)).Nodup) (hnm : (d.assets.map (fun e => (objOf e).name)).Nodup)
    (s : St) (hok : fromDoc L defsOk d = .ok s) :
    ∃ s', fromDoc L defsOk d' = .ok s' ∧ SameUpToAssetOrder L s s' := by
  obtain ⟨s1, s2, h1, h2, h3⟩ := fromDoc_ok hok
  have hent := loadAssets_entries L defsOk d.assets {} s1 h1
  obtain ⟨s1x, h1x, hi1, hobj1, hl1, ht1, _, _⟩ := loadAssets_ok L defsOk d.assets {} init_inv'
    (fun e he => (hent e he).1) (fun e he => (hent e he).2.1) (fun e he => (hent e he).2.2.1)
    (fun e he => (hent e he).2.2.2) hid (fun _ _ hm => absurd hm List.not_mem_nil) hnm
    (fun _ _ hm => absurd hm List.not_mem_nil)
  have : s1x = s1 := by rw [h1] at h1x; injection h1x with h; exact h.symm
  subst this
  have hent' : ∀ e ∈ d'.assets, _ := fun e he => hent e (hp.mem_iff.2 he)
  obtain ⟨s1', h1', hi1', hobj1', hl1', ht1', _, _⟩ := loadAssets_ok L defsOk d'.assets {} init_inv'
    (fun e he => (hent' e he).1) (fun e he => (hent' e he).2.1) (fun e he => (hent' e he).2.2.1)
    (fun e he => (hent' e he).2.2.2) ((hp.map _).nodup_iff.1 hid) (fun _ _ hm => absurd hm List.not_mem_nil)
    ((hp.map _).nodup_iff.1 hnm) (fun _ _ hm => absurd hm List.not_mem_nil)
  have hsim1 : SameUpToAssetOrder L s1x s1' := by
    refine ⟨?_, by rw [hl1, hl1']; rfl, by rw [ht1, ht1']; rfl⟩
    have e1 : s1x.assets.map (assetView L s1x) = (s1x.assets.map s1x.aobj).map (objView L) := by rw [List.map_map]; rfl
    have e2 : s1'.assets.map (assetView L s1') = (s1'.assets.map s1'.aobj).map (objView L) := by rw [List.map_map]; rfl
    rw [e1, e2, hobj1, hobj1']
    exact ((hp.map objOf).map (objView L))
  obtain ⟨s2', h2', hi2, hi2', hsim2, hat2, hat2'⟩ := loadAssocs_sim L d.associations s1x s1' s2 hi1 hi1' hsim1 ht1 ht1' h2
  obtain ⟨s', h3', hsim3⟩ := loadAttackers_sim L d.attackers s2 s2' s hi2.att.fresh hi2'.att.fresh hsim2 h3
  refine ⟨s', ?_, hsim3⟩
  rw [fromDoc_eq L defsOk d' s1' s2' h1' (by rw [hl]; exact h2'), ht]
  exact h3'

/-! ## the file observation determines the model observation -/

theorem objView_of_fileView (L : Lang) (o o' : AssetObj) (hk : (o.defenses.map (·.1)).Nodup)
    (hk' : (o'.defenses.map (·.1)).Nodup) (h : objFileView L o = objFileView L o') : objView L o = objView L o' := by
  rw [← objView_normObj L o hk, ← objView_normObj L o' hk']
  unfold objFileView at h
  simp only [AssetView.mk.injEq] at h
  obtain ⟨h1, h2, h3, h4, h5⟩ := h
  unfold objView effDefenses normObj
  simp only [h1, h2, h3, h4, h5]

theorem map_eq_of_map_eq {α β γ : Type} {l l' : List α} {f f' : α → β} {g g' : α → γ}
    (hg : ∀ a ∈ l, ∀ a' ∈ l', f a = f' a' → g a = g' a') (h : l.map f = l'.map f') : l.map g = l'.map g' := by
  induction l generalizing l' with
  | nil =>
    cases l' with
    | nil => rfl
    | cons _ _ => simp at h
  | cons a l ih =>
    cases l' with
    | nil => simp at h
    | cons a' l' =>
      simp only [List.map_cons, List.cons.injEq] at h ⊢
      exact ⟨hg a List.mem_cons_self a' List.mem_cons_self h.1,
        ih (fun x hx x' hx' => hg x (List.mem_cons_of_mem _ hx) x' (List.mem_cons_of_mem _ hx')) h.2⟩

/-- two states that write the same file show the same model -/
theorem sameModel_of_sameFile {L : Lang} {s s' : St} (h : SameFile L s s') (hd : DefKeysDistinct s)
    (hd' : DefKeysDistinct s') : SameModel L s s' := by
  refine ⟨?_, h.assocs, h.attackers⟩
  exact map_eq_of_map_eq (fun a ha a' ha' e => objView_of_fileView L _ _ (hd a ha) (hd' a' ha') e) h.assets

/-! ## decidability (for the examples) -/

theorem sameModel_iff (L : Lang) (s s' : St) : SameModel L s s' ↔
    (s.assets.map (assetView L s) = s'.assets.map (assetView L s') ∧
     s.associations.map (assocView s) = s'.associations.map (assocView s') ∧
     s.attackers.map (attView s) = s'.attackers.map (attView s')) :=
  ⟨fun h => ⟨h.1, h.2, h.3⟩, fun h => ⟨h.1, h.2.1, h.2.2⟩⟩
instance (L : Lang) (s s' : St) : Decidable (SameModel L s s') := decidable_of_iff _ (sameModel_iff L s s').symm

theorem sameFile_iff (L : Lang) (s s' : St) : SameFile L s s' ↔
    (s.assets.map (assetFileView L s) = s'.assets.map (assetFileView L s') ∧
     s.associations.map (assocView s) = s'.associations.map (assocView s') ∧
     s.attackers.map (attView s) = s'.attackers.map (attView s')) :=
  ⟨fun h => ⟨h.1, h.2, h.3⟩, fun h => ⟨h.1, h.2.1, h.2.2⟩⟩
instance (L : Lang) (s s' : St) : Decidable (SameFile L s s') := decidable_of_iff _ (sameFile_iff L s s').symm

/-- the load succeeds with a state that satisfies `p` -/
def LoadsTo (r : Except Err St) (p : St → Prop) : Prop :=
  match r with
  | .ok s => p s
  | .error _ => False

theorem loadsTo_iff (r : Except Err St) (p : St → Prop) : LoadsTo r p ↔ ∃ s, r = .ok s ∧ p s := by
  cases r with
  | ok s => exact ⟨fun h => ⟨s, rfl, h⟩, fun ⟨s', e, h⟩ => by injection e with e; exact e ▸ h⟩
  | error e => exact ⟨fun h => h.elim, fun ⟨_, e', _⟩ => by cases e'⟩

instance (r : Except Err St) (p : St → Prop) [DecidablePred p] : Decidable (LoadsTo r p) :=
  match r with
  | .ok s => inferInstanceAs (Decidable (p s))
  | .error _ => isFalse (fun h => h)

instance (s : St) : Decidable (AttIdsDistinct s) := inferInstanceAs (Decidable (List.Nodup _))
instance (s : St) : Decidable (AttNamesNonempty s) := inferInstanceAs (Decidable (∀ t ∈ s.attackers, _))
instance (s : St) : Decidable (DefKeysDistinct s) := inferInstanceAs (Decidable (∀ a ∈ s.assets, _))
instance (L : Lang) : Decidable (ClassNamesDistinct L) := inferInstanceAs (Decidable (List.Nodup _))

/-! ## the extra hypotheses hold after every history -/

/-- the defense values given to `add_asset` are keyword arguments of the constructor: no defense twice -/
def OpDefKeysDistinct : Op → Prop
  | .addAsset _ _ defs _ _ _ _ => (defs.map (·.1)).Nodup
  | _ => True

instance (op : Op) : Decidable (OpDefKeysDistinct op) := by
  cases op <;> unfold OpDefKeysDistinct <;> infer_instance

theorem _root_.MalVerif.MS.InstanceOf.congr {L : Lang} {s s' : St} {l : Nat} {c : AssocClass} (hi : InstanceOf L s l c)
    (hc : (s'.lobj l).cls = (s.lobj l).cls) (hlf : (s'.lobj l).lf = (s.lobj l).lf) (hrf : (s'.lobj l).rf = (s.lobj l).rf)
    (hls : (s'.lobj l).left.Sublist (s.lobj l).left) (hrs : (s'.lobj l).right.Sublist (s.lobj l).right)
    (hty : ∀ x, (x ∈ (s.lobj l).left ∨ x ∈ (s.lobj l).right) → (s'.aobj x).type = (s.aobj x).type) :
    InstanceOf L s' l c := by
  constructor
  · rw [hc]; exact hi.cls
  · rw [hlf]; exact hi.lf
  · rw [hrf]; exact hi.rf
  · intro a ha; rw [hty a (Or.inl (hls.mem ha))]; exact hi.left_type a (hls.mem ha)
  · intro a ha; rw [hty a (Or.inr (hrs.mem ha))]; exact hi.right_type a (hrs.mem ha)
  · exact okCount_mono _ hls.length_le hi.left_count
  · exact okCount_mono _ hrs.length_le hi.right_count

theorem LinksResolve.shrink {L : Lang} {s s' : St} (h : LinksResolve L s)
    (hL : ∀ l ∈ s'.associations, l ∈ s.associations)
    (hmem : ∀ l ∈ s.associations, ∀ x, (x ∈ (s.lobj l).left ∨ x ∈ (s.lobj l).right) → (s'.aobj x).type = (s.aobj x).type)
    (hobj : ∀ l ∈ s.associations, (s'.lobj l).cls = (s.lobj l).cls ∧ (s'.lobj l).lf = (s.lobj l).lf ∧
      (s'.lobj l).rf = (s.lobj l).rf ∧ (s'.lobj l).left.Sublist (s.lobj l).left ∧
      (s'.lobj l).right.Sublist (s.lobj l).right) : LinksResolve L s' := by
  intro l hl'
  have hl := hL l hl'
  obtain ⟨c, hc, hi⟩ := h l hl
  obtain ⟨e1, e2, e3, sl, sr⟩ := hobj l hl
  exact ⟨c, by rw [e1]; exact hc, hi.congr e1 e2 e3 sl sr (hmem l hl)⟩

theorem LinksResolve.of_lframe {L : Lang} {s s' : St} (hf : LFrame s s') (h : LinksResolve L s) : LinksResolve L s' :=
  h.shrink (fun _ hl => hf.links_sub.mem hl) (fun _ _ x _ => hf.atype x)
    (fun l _ => ⟨hf.cls l, hf.lf l, hf.rf l, hf.left_sub l, hf.right_sub l⟩)

theorem LinksResolve.of_same {L : Lang} {s s' : St} (hl : s'.associations = s.associations) (hao : s'.aobj = s.aobj)
    (hlo : s'.lobj = s.lobj) (h : LinksResolve L s) : LinksResolve L s' :=
  h.shrink (fun _ hm => hl ▸ hm) (fun _ _ x _ => by rw [hao])
    (fun l _ => by rw [hlo]; exact ⟨rfl, rfl, rfl, List.Sublist.refl _, List.Sublist.refl _⟩)

theorem DefKeysDistinct.shrink {s s' : St} (h : DefKeysDistinct s)
    (hA : ∀ a ∈ s'.assets, a ∈ s.assets ∧ (s'.aobj a).defenses = (s.aobj a).defenses) : DefKeysDistinct s' := by
  intro a ha
  rw [(hA a ha).2]; exact h a (hA a ha).1

theorem AttNamesNonempty.shrink {s s' : St} (h : AttNamesNonempty s)
    (hT : ∀ t ∈ s'.attackers, t ∈ s.attackers ∧ (s'.tobj t).name = (s.tobj t).name) : AttNamesNonempty s' := by
  intro t ht
  rw [(hT t ht).2]; exact h t (hT t ht).1

theorem iter_dropEntry_name (a : Nat) (n : Nat) (o : AttObj) : (iter (dropEntry a) n o).name = o.name := by
  induction n generalizing o with
  | zero => rfl
  | succ n ih => rw [iter_succ, ih]; rfl

theorem attacker_prefix_nonempty (x : String) : ("Attacker:" ++ x).isEmpty = false := by
  have h : 0 < ("Attacker:" ++ x).length := by
    rw [String.length_append]
    have : ("Attacker:" : String).length = 9 := by decide
    omega
  cases hb : ("Attacker:" ++ x).isEmpty with
  | false => rfl
  | true =>
    have : ("Attacker:" ++ x) = "" := by simp at hb
    rw [this] at h
    exact absurd h (by decide)

/-- every operation keeps the three properties -/
theorem runOp_saveable {L : Lang} {s s' : St} {op : Op} (h : Inv s) (hok : runOp L s op = .ok s') :
    (LinksResolve L s → LinksResolve L s') ∧ (OpDefKeysDistinct op → DefKeysDistinct s → DefKeysDistinct s') ∧
    (AttNamesNonempty s → AttNamesNonempty s') := by
  cases op with
  | addAsset ty nm defs ok ex id dup =>
    obtain ⟨rfl, _⟩ := addAsset_ok hok
    have hfr := h.assets.fresh_not_mem
    have hobj : ∀ x ∈ s.assets, (addAssetSt s (newAsset s ty nm defs ex id)).aobj x = s.aobj x := by
      intro x hx; show (if x = s.afresh then _ else s.aobj x) = _
      rw [if_neg (fun (e : x = s.afresh) => hfr (e ▸ hx))]
    refine ⟨fun hr => ?_, fun hop hd => ?_, fun hn => hn.shrink (fun t ht => ⟨ht, rfl⟩)⟩
    · refine hr.shrink (fun l hl => hl) ?_ ?_
      · intro l hl x hx
        rw [hobj x (hx.elim (h.links.left_live l hl x) (h.links.right_live l hl x))]
      · intro l _; exact ⟨rfl, rfl, rfl, List.Sublist.refl _, List.Sublist.refl _⟩
    · intro a ha
      rcases (mem_append_single (l := s.assets)).1 ha with ha | ha
      · rw [hobj a ha]; exact hd a ha
      · rw [ha]
        show ((if s.afresh = s.afresh then newAsset s ty nm defs ex id else s.aobj s.afresh).defenses.map (·.1)).Nodup
        rw [if_pos rfl]; exact hop
  | addAssociation cls left right =>
    obtain ⟨c, hacc, rfl⟩ := addAssociation_ok hok
    have hfr := h.links.fresh_not_mem
    refine ⟨fun hr => ?_, fun hop hd => hd.shrink (fun a ha => ⟨ha, rfl⟩), fun hn => hn.shrink (fun t ht => ⟨ht, rfl⟩)⟩
    intro l hl
    rcases (mem_append_single (l := s.associations)).1 hl with hl | hl
    · have hne : l ≠ s.lfresh := fun e => hfr (e ▸ hl)
      have hlo : (addAssocSt s { cls := cls, lf := c.lf, rf := c.rf, left := left, right := right }).lobj l = s.lobj l := by
        show (if l = s.lfresh then _ else s.lobj l) = _; rw [if_neg hne]
      obtain ⟨c', hc', hi⟩ := hr l hl
      refine ⟨c', by rw [hlo]; exact hc', hi.congr (by rw [hlo]) (by rw [hlo]) (by rw [hlo]) (by rw [hlo]; exact List.Sublist.refl _)
        (by rw [hlo]; exact List.Sublist.refl _) (fun _ _ => rfl)⟩
    · have hlo : (addAssocSt s { cls := cls, lf := c.lf, rf := c.rf, left := left, right := right }).lobj l =
          { cls := cls, lf := c.lf, rf := c.rf, left := left, right := right } := by
        rw [hl]; show (if s.lfresh = s.lfresh then _ else s.lobj s.lfresh) = _; rw [if_pos rfl]
      have hc : c.cls = cls := by simpa using List.find?_some hacc.found
      refine ⟨c, by rw [hlo]; exact hacc.found, ?_⟩
      constructor
      · rw [hlo]; exact hc.symm
      · rw [hlo]
      · rw [hlo]
      · rw [hlo]; exact hacc.left_type
      · rw [hlo]; exact hacc.right_type
      · rw [hlo]; exact hacc.left_count
      · rw [hlo]; exact hacc.right_count
  | removeAssociation l =>
    have hok : removeAssociation s l = .ok s' := hok
    rw [removeAssociation_eq] at hok
    by_cases hl : l ∈ s.associations
    · rw [if_pos hl] at hok; injection hok with hok; rw [← hok]
      have hf := removeAssocSt_lframe s l
      exact ⟨fun hr => hr.of_lframe hf, fun hop hd => hd.shrink (fun a ha => ⟨hf.assets ▸ ha, hf.adefs a⟩),
        fun hn => hn.shrink (fun t ht => ⟨hf.attackers ▸ ht, by rw [hf.tobj]⟩)⟩
    · rw [if_neg hl] at hok; cases hok
  | removeAssetFromAssociation a l =>
    have hf := removeAssetFromAssociation_lframe h hok
    exact ⟨fun hr => hr.of_lframe hf, fun hop hd => hd.shrink (fun a ha => ⟨hf.assets ▸ ha, hf.adefs a⟩),
      fun hn => hn.shrink (fun t ht => ⟨hf.attackers ▸ ht, by rw [hf.tobj]⟩)⟩
  | removeAsset a =>
    have hok : removeAsset s a = .ok s' := hok
    obtain ⟨_, s1, _, hf, _, rfl⟩ := removeAsset_ok_spec h hok
    refine ⟨fun hr => ?_, fun hop hd => ?_, fun hn => ?_⟩
    · exact (hr.of_lframe hf).of_same (finishRemove_associations s1 a) (finishRemove_aobj s1 a) (finishRemove_lobj s1 a)
    · apply hd.shrink
      intro x hx
      rw [finishRemove_assets] at hx
      rw [finishRemove_aobj]
      exact ⟨hf.assets ▸ List.mem_of_mem_erase hx, hf.adefs x⟩
    · apply hn.shrink
      intro t ht
      rw [finishRemove_attackers] at ht
      refine ⟨hf.attackers ▸ ht, ?_⟩
      rw [finishRemove_eq]
      show (iter (dropEntry a) _ (s1.tobj t)).name = _
      rw [iter_dropEntry_name, hf.tobj]
  | addAttacker nm id =>
    injection hok with hok; rw [← hok]
    refine ⟨fun hr => LinksResolve.of_same (s := s) rfl rfl rfl hr, fun hop hd => hd.shrink (fun a ha => ⟨ha, rfl⟩), fun hn => ?_⟩
    intro t ht
    have hfr := h.att.fresh_not_mem
    rcases (mem_append_single (l := s.attackers)).1 ht with ht | ht
    · have hne : t ≠ s.tfresh := fun e => hfr (e ▸ ht)
      show (if t = s.tfresh then _ else s.tobj t).name.isEmpty = false
      rw [if_neg hne]; exact hn t ht
    · rw [ht]
      show (if s.tfresh = s.tfresh then _ else s.tobj s.tfresh).name.isEmpty = false
      rw [if_pos rfl]
      cases nm with
      | none => exact attacker_prefix_nonempty _
      | some n =>
        show (if n.isEmpty then _ else n).isEmpty = false
        cases hb : n.isEmpty with
        | true => rw [if_pos rfl]; exact attacker_prefix_nonempty _
        | false => rw [if_neg (by simp)]; exact hb
  | removeAttacker t =>
    have hok : removeAttacker s t = .ok s' := hok
    rw [removeAttacker_ok_iff] at hok
    split at hok
    · injection hok with hok; rw [← hok]
      exact ⟨fun hr => LinksResolve.of_same (s := s) rfl rfl rfl hr, fun hop hd => hd.shrink (fun a ha => ⟨ha, rfl⟩),
        fun hn => hn.shrink (fun u hu => ⟨List.mem_of_mem_erase hu, rfl⟩)⟩
    · cases hok
  | addEntryPoint t a step =>
    injection hok with hok; rw [← hok]
    split
    · refine ⟨fun hr => LinksResolve.of_same (s := s) rfl rfl rfl hr, fun hop hd => hd.shrink (fun a ha => ⟨ha, rfl⟩),
        fun hn => hn.shrink (fun u hu => ⟨hu, ?_⟩)⟩
      unfold addEntryPoint
      rw [updT_tobj]
      split
      · split <;> rfl
      · rfl
    · exact ⟨id, fun _ => id, id⟩
  | removeEntryPoint t a step =>
    injection hok with hok; rw [← hok]
    split
    · refine ⟨fun hr => LinksResolve.of_same (s := s) rfl rfl rfl hr, fun hop hd => hd.shrink (fun a ha => ⟨ha, rfl⟩),
        fun hn => hn.shrink (fun u hu => ⟨hu, ?_⟩)⟩
      unfold removeEntryPoint
      rw [updT_tobj]
      split
      · split <;> rfl
      · rfl
    · exact ⟨id, fun _ => id, id⟩

theorem foldl_applyOp_saveable (L : Lang) (ops : List Op) (s : St) (h : Inv s) :
    (LinksResolve L s → LinksResolve L (ops.foldl (applyOp L) s)) ∧
    ((∀ op ∈ ops, OpDefKeysDistinct op) → DefKeysDistinct s → DefKeysDistinct (ops.foldl (applyOp L) s)) ∧
    (AttNamesNonempty s → AttNamesNonempty (ops.foldl (applyOp L) s)) := by
  induction ops generalizing s with
  | nil => exact ⟨id, fun _ => id, id⟩
  | cons op ops ih =>
    rw [List.foldl_cons]
    have hi := applyOp_inv' L s op h
    rcases applyOp_eq L s op with ⟨s', h1, h2⟩ | ⟨e, _, h2⟩
    · obtain ⟨a, b, c⟩ := runOp_saveable h h1
      rw [h2] at hi ⊢
      obtain ⟨a', b', c'⟩ := ih s' hi
      exact ⟨fun hr => a' (a hr),
        fun hops hd => b' (fun o ho => hops o (List.mem_cons_of_mem _ ho)) (b (hops op List.mem_cons_self) hd),
        fun hn => c' (c hn)⟩
    · rw [h2] at hi ⊢
      obtain ⟨a', b', c'⟩ := ih s hi
      exact ⟨a', fun hops hd => b' (fun o ho => hops o (List.mem_cons_of_mem _ ho)) hd, c'⟩

/-! ## states for the examples of C07 -/
namespace Sample
open MalVerif.MS.Demo

/-- an explicit id 5, then the explicit id 0 with extras, then a negative id; a non-default defense value
(`patched` is off by default) and an explicitly set default value (`hardened` is on by default); an association
with two members on one side; an attacker with two entry points -/
def ops : List Op := [
  .addAsset "Host" (some "h") [("patched", "1.0")] true "{}" (some 5) true,
  .addAsset "Net" none [] true "{\"x\": 1}" (some 0) true,
  .addAsset "Host" (some "g") [("hardened", "1.0")] true "{}" (some (-3)) true,
  .addAssociation "Link_Host_Net" [0, 2] [1],
  .addAttacker (some "eve") (some 9),
  .addEntryPoint 0 0 "access",
  .addEntryPoint 0 2 "access"]

def st : St := ops.foldl (applyOp lang) {}

/-- a hand-written file: ids in no particular order, id 0 last, a shorthand entry (`jsonRT handDoc` has the keys
`"7"`, `"-2"`, `"0"`, `"1"`) -/
def handDoc : ModelDoc :=
  { assets := [(.i 7, .full "h" "Host" [("patched", "1.0")] none), (.i (-2), .shorthand "Net"),
               (.i 0, .full "g" "Host" [] (some "{\"k\": []}"))],
    associations := [{ cls := "Link_Host_Net", lf := "hosts", left := [.i 0, .i 7], rf := "nets", right := [.i (-2)] }],
    attackers := [(.i 1, { name := "eve", entry := [(.i 0, ["access"])] })] }

/-- the same file with the asset entries in another order -/
def handDoc2 : ModelDoc := { handDoc with assets := [handDoc.assets[2]!, handDoc.assets[0]!, handDoc.assets[1]!] }

/-- two attackers with the same id -/
def dupAtt : St := [Op.addAttacker (some "a") (some 1), .addAttacker (some "b") (some 1)].foldl (applyOp lang) {}

/-- an attacker whose name is the empty string (not reachable through `add_attacker`) -/
def cexName : St := updT (addAttacker {} (some "x") (some 7)) 0 (fun o => { o with name := "" })

theorem cexName_inv : Inv cexName := by
  apply updT_entry_inv _ _ _ (addAttacker_inv' _ _ _ init_inv')
  · intro _ ep hep; exact absurd hep List.not_mem_nil
  · intro _; exact List.nodup_nil

theorem cexName_valid (L : Lang) : Valid L cexName := by
  refine ⟨?_, ?_, ?_, ?_, ?_⟩ <;> intro a ha <;> exact absurd ha List.not_mem_nil

/-- an asset that sets the defense `patched` (default 0) twice -/
def cexDef : St :=
  applyOp lang {} (.addAsset "Host" (some "h") [("patched", "0.0"), ("patched", "1.0")] true "{}" (some 1) true)

/-- two declarations get the same class name `A_X_Y`; the factory resolves the name to the first -/
def cexLang : Lang :=
  { assets := [{ name := "X" }, { name := "Y" }],
    assocs := [{ name := "A", leftAsset := "X", leftField := "f", rightAsset := "Y", rightField := "g" },
               { name := "A", leftAsset := "X", leftField := "p", rightAsset := "Y", rightField := "q" }] }
def cexLink0 : St :=
  [Op.addAsset "X" none [] true "{}" none true, .addAsset "Y" none [] true "{}" none true].foldl (applyOp cexLang) {}
/-- an association object of the second class (not reachable through `add_association`) -/
def cexLink : St := addAssocSt cexLink0 { cls := "A_X_Y", lf := "p", rf := "q", left := [0], right := [1] }

theorem cexLink_inv : Inv cexLink :=
  addAssocSt_inv _ _ (foldl_applyOp_inv _ _ _ init_inv') (by decide) (by decide) (by decide) (by decide)

theorem cexLink_valid : Valid cexLang cexLink := by
  have ha : ∀ a ∈ cexLink.assets, (cexLang.findAsset (cexLink.aobj a).type).isSome = true ∧ (cexLink.aobj a).defenses = [] := by
    decide
  have hl : cexLink.associations = [0] := by decide
  refine ⟨?_, ?_, ?_, ?_, ?_⟩
  · intro a ham
    refine ⟨(ha a ham).1, ?_⟩
    rw [(ha a ham).2]; intro d hd; exact absurd hd List.not_mem_nil
  · intro l hlm
    rw [hl, List.mem_singleton] at hlm
    subst hlm
    refine ⟨{ cls := "A_X_Y", lf := "p", ltype := "X", lmax := none, rf := "q", rtype := "Y", rmax := none }, by decide, ?_⟩
    constructor <;> decide
  · rw [hl]; decide
  · rw [hl]; decide
  · intro l hlm l' hlm' hne
    rw [hl, List.mem_singleton] at hlm hlm'
    exact absurd (hlm.trans hlm'.symm) hne

/-- the same model with the two defense values stored in the other order -/
def stA : St := applyOp lang {} (.addAsset "Host" (some "h") [("hardened", "0.0"), ("patched", "1.0")] true "{}" (some 1) true)
def stB : St := applyOp lang {} (.addAsset "Host" (some "h") [("patched", "1.0"), ("hardened", "0.0")] true "{}" (some 1) true)

end Sample

end MalVerif.Ser
