import MalVerif.Spec.MalGrammar
import MalVerif.Proofs.ParseDecl
/-!
# Soundness of the parser model: whatever a parsing function returns is the meaning of a grammatical prefix
-/
namespace MalVerif.Mal
open MalVerif (Expr)

/-! ### step expressions -/

theorem parseTypes_sound (f : Nat) (e : Expr) (ts : List Tok) :
    ∃ pre, ts = pre ++ (parseTypes f e ts).2 ∧ DTypes pre e (parseTypes f e ts).1 := by
  induction f generalizing e ts with
  | zero => exact ⟨[], rfl, .nil⟩
  | succ f ih =>
    unfold parseTypes
    split
    · rename_i t rest
      obtain ⟨pre, h1, h2⟩ := ih (.sub t e) rest
      exact ⟨.lsquare :: .id t :: .rsquare :: pre, by simp only [List.cons_append]; rw [← h1], .cons h2⟩
    · exact ⟨[], rfl, .nil⟩

theorem parseSuffix_sound (f : Nat) (e : Expr) (ts : List Tok) :
    ∃ pre, ts = pre ++ (parseSuffix f e ts).2 ∧ DSuffix pre e (parseSuffix f e ts).1 := by
  unfold parseSuffix
  split
  · rename_i rest
    obtain ⟨pre, h1, h2⟩ := parseTypes_sound f (.trans e) rest
    exact ⟨.star :: pre, by simp only [List.cons_append]; rw [← h1], .star h2⟩
  · obtain ⟨pre, h1, h2⟩ := parseTypes_sound f e ts
    exact ⟨pre, h1, .plain h2⟩

theorem setOp_sound {t : Tok} {op : Expr → Expr → Expr} (h : setOp t = some op) : DSetOp t op := by
  cases t <;> simp [setOp] at h <;> subst h
  · exact .diff
  · exact .inter
  · exact .union

theorem expr_sound (f : Nat) :
    (∀ reach ts e rest, parsePart f reach ts = some (e, rest) → ∃ pre, ts = pre ++ rest ∧ DPart reach pre rest e) ∧
    (∀ reach acc ts e rest, parsePartsLoop f reach acc ts = some (e, rest) → ∀ pre0, DParts reach pre0 ts acc →
      ∃ pre, ts = pre ++ rest ∧ DParts reach (pre0 ++ pre) rest e) ∧
    (∀ reach ts e rest, parseParts f reach ts = some (e, rest) → ∃ pre, ts = pre ++ rest ∧ DParts reach pre rest e) ∧
    (∀ reach acc ts e rest, parseExprLoop f reach acc ts = some (e, rest) → ∀ pre0, DExpr reach pre0 ts acc →
      ∃ pre, ts = pre ++ rest ∧ DExpr reach (pre0 ++ pre) rest e) ∧
    (∀ reach ts e rest, parseExpr f reach ts = some (e, rest) → ∃ pre, ts = pre ++ rest ∧ DExpr reach pre rest e) := by
  induction f with
  | zero =>
    refine ⟨?_, ?_, ?_, ?_, ?_⟩
    · intro reach ts e rest h; rw [parsePart_zero] at h; exact absurd h (by simp)
    · intro reach acc ts e rest h; rw [parsePartsLoop_zero] at h; exact absurd h (by simp)
    · intro reach ts e rest h; rw [parseParts_zero] at h; exact absurd h (by simp)
    · intro reach acc ts e rest h; rw [parseExprLoop_zero] at h; exact absurd h (by simp)
    · intro reach ts e rest h; rw [parseExpr_zero] at h; exact absurd h (by simp)
  | succ f ih =>
    obtain ⟨hP, hPL, hPs, hEL, hE⟩ := ih
    refine ⟨?_, ?_, ?_, ?_, ?_⟩
    · intro reach ts e rest h
      rw [parsePart_succ] at h
      cases ha : parseAtom f reach ts with
      | none => rw [ha] at h; exact absurd h (by simp)
      | some r =>
        obtain ⟨a, r'⟩ := r
        rw [ha] at h
        simp only [Option.map_some, Option.some.injEq] at h
        obtain ⟨suf, hs1, hs2⟩ := parseSuffix_sound f a r'
        rw [h] at hs1 hs2
        simp only at hs1 hs2
        unfold parseAtom at ha
        split at ha
        · split at ha
          · rename_i e0 rest1 he
            simp only [Option.some.injEq, Prod.mk.injEq] at ha
            obtain ⟨rfl, rfl⟩ := ha
            obtain ⟨pre, hp1, hp2⟩ := hE reach _ _ _ he
            subst hs1
            exact ⟨.lparen :: (pre ++ .rparen :: suf), by rw [hp1]; simp, .paren hp2 hs2⟩
          · exact absurd ha (by simp)
        · simp only [Option.some.injEq, Prod.mk.injEq] at ha
          obtain ⟨rfl, rfl⟩ := ha
          exact ⟨_ :: .lparen :: .rparen :: suf, by rw [hs1]; simp, .var hs2⟩
        · rename_i n rest0 _
          simp only [Option.some.injEq, Prod.mk.injEq] at ha
          obtain ⟨rfl, rfl⟩ := ha
          subst hs1
          exact ⟨.id n :: suf, by simp, .name hs2⟩
        · exact absurd ha (by simp)
    · intro reach acc ts e rest h pre0 hacc
      by_cases hd : ∃ r, ts = .dot :: r
      · obtain ⟨r, rfl⟩ := hd
        rw [parsePartsLoop_dot] at h
        cases hp : parsePart f reach r with
        | none => rw [hp] at h; exact absurd h (by simp)
        | some x =>
          obtain ⟨e1, r1⟩ := x
          rw [hp] at h
          simp only [Option.bind_some] at h
          obtain ⟨p1, rfl, hd1⟩ := hP _ _ _ _ hp
          obtain ⟨p2, rfl, hd2⟩ := hPL _ _ _ _ _ h (pre0 ++ .dot :: p1) (.dot hacc hd1)
          exact ⟨.dot :: (p1 ++ p2), by simp, by simpa using hd2⟩
      · rw [parsePartsLoop_stop _ _ _ _ (fun r hr => hd ⟨r, hr⟩)] at h
        simp only [Option.some.injEq, Prod.mk.injEq] at h
        obtain ⟨rfl, rfl⟩ := h
        exact ⟨[], by simp, by simpa using hacc⟩
    · intro reach ts e rest h
      rw [parseParts_succ] at h
      cases hp : parsePart f reach ts with
      | none => rw [hp] at h; exact absurd h (by simp)
      | some x =>
        obtain ⟨e1, r1⟩ := x
        rw [hp] at h
        simp only [Option.bind_some] at h
        obtain ⟨p1, rfl, hd1⟩ := hP _ _ _ _ hp
        obtain ⟨p2, rfl, hd2⟩ := hPL _ _ _ _ _ h p1 (.one hd1)
        exact ⟨p1 ++ p2, by simp, hd2⟩
    · intro reach acc ts e rest h pre0 hacc
      by_cases hd : ∃ t r op, ts = t :: r ∧ setOp t = some op
      · obtain ⟨t, r, op, rfl, hop⟩ := hd
        rw [parseExprLoop_op _ _ _ _ _ _ hop] at h
        cases hp : parseParts f reach r with
        | none => rw [hp] at h; exact absurd h (by simp)
        | some x =>
          obtain ⟨e1, r1⟩ := x
          rw [hp] at h
          simp only [Option.bind_some] at h
          obtain ⟨p1, rfl, hd1⟩ := hPs _ _ _ _ hp
          obtain ⟨p2, rfl, hd2⟩ := hEL _ _ _ _ _ h (pre0 ++ t :: p1) (.op hacc (setOp_sound hop) hd1)
          exact ⟨t :: (p1 ++ p2), by simp, by simpa using hd2⟩
      · rw [parseExprLoop_stop] at h
        · simp only [Option.some.injEq, Prod.mk.injEq] at h
          obtain ⟨rfl, rfl⟩ := h
          exact ⟨[], by simp, by simpa using hacc⟩
        · intro t r hr
          cases hs : setOp t with
          | none => rfl
          | some op => exact absurd ⟨t, r, op, hr, hs⟩ hd
    · intro reach ts e rest h
      rw [parseExpr_succ] at h
      cases hp : parseParts f reach ts with
      | none => rw [hp] at h; exact absurd h (by simp)
      | some x =>
        obtain ⟨e1, r1⟩ := x
        rw [hp] at h
        simp only [Option.bind_some] at h
        obtain ⟨p1, rfl, hd1⟩ := hPs _ _ _ _ hp
        obtain ⟨p2, rfl, hd2⟩ := hEL _ _ _ _ _ h p1 (.one hd1)
        exact ⟨p1 ++ p2, by simp, hd2⟩


theorem parseExprList_sound (f : Nat) (reach : Bool) (ts : List Tok) (l : List Expr) (rest : List Tok)
    (h : parseExprList f reach ts = some (l, rest)) : ∃ pre, ts = pre ++ rest ∧ DExprList reach pre rest l := by
  induction f generalizing ts l with
  | zero => rw [parseExprList_zero] at h; exact absurd h (by simp)
  | succ f ih =>
    cases he : parseExpr f reach ts with
    | none => rw [parseExprList_none he] at h; exact absurd h (by simp)
    | some x =>
      obtain ⟨e, r1⟩ := x
      obtain ⟨p1, rfl, hd1⟩ := (expr_sound f).2.2.2.2 _ _ _ _ he
      by_cases hc : ∃ r, r1 = .comma :: r
      · obtain ⟨r, rfl⟩ := hc
        rw [parseExprList_comma he] at h
        cases hl : parseExprList f reach r with
        | none => rw [hl] at h; exact absurd h (by simp)
        | some y =>
          obtain ⟨l', r2⟩ := y
          rw [hl] at h
          simp only [Option.map_some, Option.some.injEq, Prod.mk.injEq] at h
          obtain ⟨rfl, rfl⟩ := h
          obtain ⟨p2, rfl, hd2⟩ := ih _ _ hl
          exact ⟨p1 ++ .comma :: p2, by simp, .cons hd1 hd2⟩
      · rw [parseExprList_last he (fun r hr => hc ⟨r, hr⟩)] at h
        simp only [Option.some.injEq, Prod.mk.injEq] at h
        obtain ⟨rfl, rfl⟩ := h
        exact ⟨p1, rfl, .one hd1⟩

/-! ### TTC -/

theorem parseArgs_sound (f : Nat) (ts : List Tok) (ns : List String) (rest : List Tok)
    (h : parseArgs f ts = some (ns, rest)) : ∃ pre, ts = pre ++ rest ∧ DArgs pre ns := by
  induction f generalizing ts ns with
  | zero => simp [parseArgs] at h
  | succ f ih =>
    unfold parseArgs at h
    split at h
    · rename_i t r
      cases hn : numTok t with
      | none => simp [hn] at h
      | some n =>
        simp only [hn, Option.bind_some] at h
        cases hp : parseArgs f r with
        | none => simp [hp] at h
        | some x =>
          obtain ⟨ns', r'⟩ := x
          rw [hp] at h; simp only [Option.map_some, Option.some.injEq, Prod.mk.injEq] at h
          obtain ⟨rfl, rfl⟩ := h
          obtain ⟨p, rfl, hd⟩ := ih _ _ hp
          exact ⟨t :: .comma :: p, by simp, .cons hn hd⟩
    · rename_i t r
      cases hn : numTok t with
      | none => simp [hn] at h
      | some n =>
        simp only [hn, Option.map_some, Option.some.injEq, Prod.mk.injEq] at h
        obtain ⟨rfl, rfl⟩ := h
        exact ⟨[t, .rparen], by simp, .last hn⟩
    · exact absurd h (by simp)

theorem mulOp_sound {t : Tok} {op : String} (h : mulOp t = some op) : DMulOp t op := by
  cases t <;> simp [mulOp] at h <;> subst h
  · exact .mul
  · exact .div
theorem addOp_sound {t : Tok} {op : String} (h : addOp t = some op) : DAddOp t op := by
  cases t <;> simp [addOp] at h <;> subst h
  · exact .sub
  · exact .add

theorem ttc_sound (f : Nat) :
    (∀ ts t rest, parseTtcAtom f ts = some (t, rest) → ∃ pre, ts = pre ++ rest ∧ DTtcAtom pre t) ∧
    (∀ ts t rest, parseTtcFact f ts = some (t, rest) → ∃ pre, ts = pre ++ rest ∧ DTtcFact pre t) ∧
    (∀ acc ts t rest, parseTtcTermLoop f acc ts = some (t, rest) → ∀ pre0, DTtcTerm pre0 acc →
      ∃ pre, ts = pre ++ rest ∧ DTtcTerm (pre0 ++ pre) t) ∧
    (∀ ts t rest, parseTtcTerm f ts = some (t, rest) → ∃ pre, ts = pre ++ rest ∧ DTtcTerm pre t) ∧
    (∀ acc ts t rest, parseTtcExprLoop f acc ts = some (t, rest) → ∀ pre0, DTtcExpr pre0 acc →
      ∃ pre, ts = pre ++ rest ∧ DTtcExpr (pre0 ++ pre) t) ∧
    (∀ ts t rest, parseTtcExpr f ts = some (t, rest) → ∃ pre, ts = pre ++ rest ∧ DTtcExpr pre t) := by
  induction f with
  | zero =>
    refine ⟨?_, ?_, ?_, ?_, ?_, ?_⟩
    · intro ts t rest h; rw [parseTtcAtom_zero] at h; exact absurd h (by simp)
    · intro ts t rest h; rw [parseTtcFact_zero] at h; exact absurd h (by simp)
    · intro acc ts t rest h; rw [parseTtcTermLoop_zero] at h; exact absurd h (by simp)
    · intro ts t rest h; rw [parseTtcTerm_zero] at h; exact absurd h (by simp)
    · intro acc ts t rest h; rw [parseTtcExprLoop_zero] at h; exact absurd h (by simp)
    · intro ts t rest h; rw [parseTtcExpr_zero] at h; exact absurd h (by simp)
  | succ f ih =>
    obtain ⟨hA, hF, hTL, hT, hEL, hE⟩ := ih
    refine ⟨?_, ?_, ?_, ?_, ?_, ?_⟩
    · intro ts t rest h
      rw [parseTtcAtom_succ] at h
      unfold ttcAtomStep at h
      split at h
      · simp only [Option.some.injEq, Prod.mk.injEq] at h; obtain ⟨rfl, rfl⟩ := h
        exact ⟨[_, .lparen, .rparen], by simp, .distEmpty⟩
      · rename_i n r hne
        cases hp : parseArgs f r with
        | none => simp [hp] at h
        | some x =>
          obtain ⟨ns, r'⟩ := x
          rw [hp] at h; simp only [Option.map_some, Option.some.injEq, Prod.mk.injEq] at h
          obtain ⟨rfl, rfl⟩ := h
          obtain ⟨p, rfl, hd⟩ := parseArgs_sound _ _ _ _ hp
          exact ⟨.id n :: .lparen :: p, by simp, .dist hd⟩
      · simp only [Option.some.injEq, Prod.mk.injEq] at h; obtain ⟨rfl, rfl⟩ := h
        exact ⟨[_], by simp, .dist0⟩
      · split at h
        · rename_i e r' hp
          simp only [Option.some.injEq, Prod.mk.injEq] at h; obtain ⟨rfl, rfl⟩ := h
          obtain ⟨p, hp1, hd⟩ := hE _ _ _ hp
          exact ⟨.lparen :: (p ++ [.rparen]), by rw [hp1]; simp, .paren hd⟩
        · exact absurd h (by simp)
      · rename_i sv r
        simp only [Option.some.injEq, Prod.mk.injEq] at h; obtain ⟨rfl, rfl⟩ := h
        exact ⟨[.int sv], by simp, .num (tk := .int sv) rfl⟩
      · rename_i sv r
        simp only [Option.some.injEq, Prod.mk.injEq] at h; obtain ⟨rfl, rfl⟩ := h
        exact ⟨[.float sv], by simp, .num (tk := .float sv) rfl⟩
      · exact absurd h (by simp)
    · intro ts t rest h
      rw [parseTtcFact_succ] at h
      cases ha : parseTtcAtom f ts with
      | none => simp [ha] at h
      | some a =>
        obtain ⟨a1, a2⟩ := a
        rw [ha] at h
        simp only [Option.bind_some] at h
        obtain ⟨p1, rfl, hd1⟩ := hA _ _ _ ha
        by_cases hp : ∃ r, a2 = .power :: r
        · obtain ⟨r, rfl⟩ := hp
          rw [factTail_power] at h
          cases hx : parseTtcAtom f r with
          | none => simp [hx] at h
          | some x =>
            obtain ⟨b, r'⟩ := x
            rw [hx] at h; simp only [Option.map_some, Option.some.injEq, Prod.mk.injEq] at h
            obtain ⟨rfl, rfl⟩ := h
            obtain ⟨p2, rfl, hd2⟩ := hA _ _ _ hx
            exact ⟨p1 ++ .power :: p2, by simp, .pow hd1 hd2⟩
        · rw [factTail_stop _ _ _ (fun r hr => hp ⟨r, hr⟩)] at h
          simp only [Option.some.injEq, Prod.mk.injEq] at h; obtain ⟨rfl, rfl⟩ := h
          exact ⟨p1, rfl, .atom hd1⟩
    · intro acc ts t rest h pre0 hacc
      rcases mulOp_cases ts with ⟨tk, r', op, rfl, hop⟩ | hstop
      · rw [parseTtcTermLoop_op _ _ _ _ _ hop] at h
        cases hp : parseTtcFact f r' with
        | none => simp [hp] at h
        | some x =>
          obtain ⟨e1, r1⟩ := x
          rw [hp] at h
          simp only [Option.bind_some] at h
          obtain ⟨p1, rfl, hd1⟩ := hF _ _ _ hp
          obtain ⟨p2, rfl, hd2⟩ := hTL _ _ _ _ h (pre0 ++ tk :: p1) (.op hacc (mulOp_sound hop) hd1)
          exact ⟨tk :: (p1 ++ p2), by simp, by simpa using hd2⟩
      · rw [parseTtcTermLoop_stop _ _ _ hstop] at h
        simp only [Option.some.injEq, Prod.mk.injEq] at h; obtain ⟨rfl, rfl⟩ := h
        exact ⟨[], by simp, by simpa using hacc⟩
    · intro ts t rest h
      rw [parseTtcTerm_succ] at h
      cases hp : parseTtcFact f ts with
      | none => simp [hp] at h
      | some x =>
        obtain ⟨e1, r1⟩ := x
        rw [hp] at h
        simp only [Option.bind_some] at h
        obtain ⟨p1, rfl, hd1⟩ := hF _ _ _ hp
        obtain ⟨p2, rfl, hd2⟩ := hTL _ _ _ _ h p1 (.one hd1)
        exact ⟨p1 ++ p2, by simp, hd2⟩
    · intro acc ts t rest h pre0 hacc
      rcases addOp_cases ts with ⟨tk, r', op, rfl, hop⟩ | hstop
      · rw [parseTtcExprLoop_op _ _ _ _ _ hop] at h
        cases hp : parseTtcTerm f r' with
        | none => simp [hp] at h
        | some x =>
          obtain ⟨e1, r1⟩ := x
          rw [hp] at h
          simp only [Option.bind_some] at h
          obtain ⟨p1, rfl, hd1⟩ := hT _ _ _ hp
          obtain ⟨p2, rfl, hd2⟩ := hEL _ _ _ _ h (pre0 ++ tk :: p1) (.op hacc (addOp_sound hop) hd1)
          exact ⟨tk :: (p1 ++ p2), by simp, by simpa using hd2⟩
      · rw [parseTtcExprLoop_stop _ _ _ hstop] at h
        simp only [Option.some.injEq, Prod.mk.injEq] at h; obtain ⟨rfl, rfl⟩ := h
        exact ⟨[], by simp, by simpa using hacc⟩
    · intro ts t rest h
      rw [parseTtcExpr_succ] at h
      cases hp : parseTtcTerm f ts with
      | none => simp [hp] at h
      | some x =>
        obtain ⟨e1, r1⟩ := x
        rw [hp] at h
        simp only [Option.bind_some] at h
        obtain ⟨p1, rfl, hd1⟩ := hT _ _ _ hp
        obtain ⟨p2, rfl, hd2⟩ := hEL _ _ _ _ h p1 (.one hd1)
        exact ⟨p1 ++ p2, by simp, hd2⟩



/-! ### metas, tags, risk -/

theorem metaOf_cons (m : Meta) (k v : String) (kvs : List (String × String)) :
    metaOf m ((k, v) :: kvs) = metaOf (metaPut m k (stripQuotes v)) kvs := rfl

theorem parseMetas_sound (f : Nat) (m : Meta) (ts : List Tok) :
    ∃ pre kvs, ts = pre ++ (parseMetas f m ts).2 ∧ DMetas pre kvs ∧ (parseMetas f m ts).1 = metaOf m kvs := by
  induction f generalizing m ts with
  | zero => exact ⟨[], [], rfl, .nil, rfl⟩
  | succ f ih =>
    unfold parseMetas
    split
    · rename_i k v rest
      obtain ⟨pre, kvs, h1, h2, h3⟩ := ih (metaPut m k (stripQuotes v)) rest
      exact ⟨.id k :: .kwInfo :: .colon :: .str v :: pre, (k, v) :: kvs,
        by simp only [List.cons_append]; rw [← h1], .cons h2, by rw [h3, metaOf_cons]⟩
    · exact ⟨[], [], rfl, .nil, rfl⟩

theorem parseTags_sound (f : Nat) (acc : List String) (ts : List Tok) :
    ∃ pre tags, ts = pre ++ (parseTags f acc ts).2 ∧ DTags pre tags ∧ (parseTags f acc ts).1 = acc ++ tags := by
  induction f generalizing acc ts with
  | zero => exact ⟨[], [], rfl, .nil, by simp [parseTags]⟩
  | succ f ih =>
    unfold parseTags
    split
    · rename_i t rest
      obtain ⟨pre, tags, h1, h2, h3⟩ := ih (acc ++ [t]) rest
      exact ⟨.at :: .id t :: pre, t :: tags, by simp only [List.cons_append]; rw [← h1], .cons h2, by rw [h3]; simp⟩
    · exact ⟨[], [], rfl, .nil, by simp⟩

theorem parseCias_sound (f : Nat) (acc : Bool × Bool × Bool) (ts : List Tok) (r : Bool × Bool × Bool)
    (rest : List Tok) (h : parseCias f acc ts = some (r, rest)) :
    ∃ pre rs, ts = pre ++ rest ∧ DCias pre rs ∧ r = rs.foldl riskOr acc := by
  induction f generalizing acc ts with
  | zero => simp [parseCias] at h
  | succ f ih =>
    unfold parseCias at h
    split at h
    · rename_i t r'
      cases hc : ciaTok t with
      | none => simp [hc] at h
      | some c =>
        simp only [hc, Option.bind_some] at h
        obtain ⟨pre, rs, rfl, h2, h3⟩ := ih _ _ h
        exact ⟨t :: .comma :: pre, c :: rs, by simp, .cons hc h2, by rw [h3]; rfl⟩
    · rename_i t r'
      cases hc : ciaTok t with
      | none => simp [hc] at h
      | some c =>
        simp only [hc, Option.map_some, Option.some.injEq, Prod.mk.injEq] at h
        obtain ⟨rfl, rfl⟩ := h
        exact ⟨[t, .rcurly], [c], by simp, .last hc, rfl⟩
    · exact absurd h (by simp)

/-! ### steps -/

theorem ciasStage_sound (f : Nat) (r1 : List Tok) (risk : Option (Bool × Bool × Bool)) (r2 : List Tok)
    (h : ciasStage f r1 = some (risk, r2)) : ∃ pre, r1 = pre ++ r2 ∧ DRisk pre risk := by
  unfold ciasStage at h
  split at h
  · rename_i r
    cases hp : parseCias f (false, false, false) r with
    | none => simp [hp] at h
    | some x =>
      obtain ⟨c, r'⟩ := x
      rw [hp] at h; simp only [Option.map_some, Option.some.injEq, Prod.mk.injEq] at h
      obtain ⟨rfl, rfl⟩ := h
      obtain ⟨pre, rs, rfl, h2, rfl⟩ := parseCias_sound _ _ _ _ _ hp
      exact ⟨.lcurly :: pre, by simp, .some h2⟩
  · simp only [Option.some.injEq, Prod.mk.injEq] at h
    obtain ⟨rfl, rfl⟩ := h
    exact ⟨[], rfl, .none⟩

theorem ttcStage_sound (f : Nat) (r2 : List Tok) (tt : Option TTC) (r3 : List Tok)
    (h : ttcStage f r2 = some (tt, r3)) : ∃ pre, r2 = pre ++ r3 ∧ DTtcOpt pre tt := by
  unfold ttcStage at h
  split at h
  · split at h
    · rename_i e r' hp
      simp only [Option.some.injEq, Prod.mk.injEq] at h
      obtain ⟨rfl, rfl⟩ := h
      obtain ⟨pre, hp1, hd⟩ := (ttc_sound f).2.2.2.2.2 _ _ _ hp
      exact ⟨.lsquare :: (pre ++ [.rsquare]), by rw [hp1]; simp, .some hd⟩
    · exact absurd h (by simp)
  · simp only [Option.some.injEq, Prod.mk.injEq] at h
    obtain ⟨rfl, rfl⟩ := h
    exact ⟨[], rfl, .none⟩

theorem preStage_sound (f : Nat) (r4 : List Tok) (req : Option (List Expr)) (r5 : List Tok)
    (h : preStage f r4 = some (req, r5)) : ∃ pre, r4 = pre ++ r5 ∧ DReq pre r5 req := by
  unfold preStage at h
  split at h
  · rename_i r
    cases hp : parseExprList f false r with
    | none => simp [hp] at h
    | some x =>
      obtain ⟨l, r'⟩ := x
      rw [hp] at h; simp only [Option.map_some, Option.some.injEq, Prod.mk.injEq] at h
      obtain ⟨rfl, rfl⟩ := h
      obtain ⟨pre, rfl, hd⟩ := parseExprList_sound _ _ _ _ _ hp
      exact ⟨.requires :: pre, by simp, .some hd⟩
  · simp only [Option.some.injEq, Prod.mk.injEq] at h
    obtain ⟨rfl, rfl⟩ := h
    exact ⟨[], rfl, .none⟩

theorem rchStage_sound (f : Nat) (r5 : List Tok) (rch : Option (Bool × List Expr)) (r6 : List Tok)
    (h : rchStage f r5 = some (rch, r6)) : ∃ pre, r5 = pre ++ r6 ∧ DRch pre r6 rch := by
  unfold rchStage at h
  split at h
  · rename_i r
    cases hp : parseExprList f true r with
    | none => simp [hp] at h
    | some x =>
      obtain ⟨l, r'⟩ := x
      rw [hp] at h; simp only [Option.map_some, Option.some.injEq, Prod.mk.injEq] at h
      obtain ⟨rfl, rfl⟩ := h
      obtain ⟨pre, rfl, hd⟩ := parseExprList_sound _ _ _ _ _ hp
      exact ⟨.leadsto :: pre, by simp, .leadsto hd⟩
  · rename_i r
    cases hp : parseExprList f true r with
    | none => simp [hp] at h
    | some x =>
      obtain ⟨l, r'⟩ := x
      rw [hp] at h; simp only [Option.map_some, Option.some.injEq, Prod.mk.injEq] at h
      obtain ⟨rfl, rfl⟩ := h
      obtain ⟨pre, rfl, hd⟩ := parseExprList_sound _ _ _ _ _ hp
      exact ⟨.inherits :: pre, by simp, .inherits hd⟩
  · simp only [Option.some.injEq, Prod.mk.injEq] at h
    obtain ⟨rfl, rfl⟩ := h
    exact ⟨[], rfl, .none⟩

theorem parseStep_shape {f : Nat} {ts : List Tok} {r : CStep × List Tok} (h : parseStep f ts = some r) :
    ∃ t name rest0, ts = t :: .id name :: rest0 := by
  unfold parseStep at h
  split at h
  · exact ⟨_, _, _, rfl⟩
  · exact absurd h (by simp)

theorem parseStep_sound (f : Nat) (ts : List Tok) (s : CStep) (rest : List Tok)
    (h : parseStep f ts = some (s, rest)) : ∃ pre, ts = pre ++ rest ∧ DStep pre rest s := by
  obtain ⟨t, name, rest0, rfl⟩ := parseStep_shape h
  rw [parseStep_eq] at h
  cases hty : stepType t with
  | none => simp [hty] at h
  | some ty =>
    simp only [hty, Option.bind_some] at h
    obtain ⟨pTags, tags, ht1, ht2, ht3⟩ := parseTags_sound f [] rest0
    cases hc : ciasStage f (parseTags f [] rest0).2 with
    | none => simp [hc] at h
    | some c =>
      obtain ⟨risk, r2⟩ := c
      simp only [hc, Option.bind_some] at h
      obtain ⟨pRisk, hr1, hr2⟩ := ciasStage_sound _ _ _ _ hc
      cases htt : ttcStage f r2 with
      | none => simp [htt] at h
      | some x =>
        obtain ⟨tt, r3⟩ := x
        simp only [htt, Option.bind_some] at h
        obtain ⟨pTtc, hq1, hq2⟩ := ttcStage_sound _ _ _ _ htt
        obtain ⟨pMeta, kvs, hm1, hm2, hm3⟩ := parseMetas_sound f [] r3
        cases hpre : preStage f (parseMetas f [] r3).2 with
        | none => simp [hpre] at h
        | some y =>
          obtain ⟨req, r5⟩ := y
          simp only [hpre, Option.bind_some] at h
          obtain ⟨pReq, hp1, hp2⟩ := preStage_sound _ _ _ _ hpre
          cases hrch : rchStage f r5 with
          | none => simp [hrch] at h
          | some z =>
            obtain ⟨rch, r6⟩ := z
            simp only [hrch, Option.bind_some, Option.some.injEq, Prod.mk.injEq] at h
            obtain ⟨rfl, rfl⟩ := h
            obtain ⟨pRch, hc1, hc2⟩ := rchStage_sound _ _ _ _ hrch
            refine ⟨t :: .id name :: (pTags ++ (pRisk ++ (pTtc ++ (pMeta ++ (pReq ++ pRch))))), ?_, ?_⟩
            · simp only [List.cons_append, List.append_assoc]
              rw [← hc1, ← hp1, ← hm1, ← hq1, ← hr1, ← ht1]
            · rw [hm3, ht3, List.nil_append]
              subst hc1
              exact .mk hty ht2 hr2 hq2 hm2 hp2 hc2

/-! ### assets -/

theorem parseAssetBody_sound (f : Nat) (vs0 : List (String × Expr)) (ss0 : List CStep) (ts : List Tok)
    (vs' : List (String × Expr)) (ss' : List CStep) (rest : List Tok)
    (h : parseAssetBody f vs0 ss0 ts = some ((vs', ss'), rest)) :
    ∃ pre vs ss, ts = pre ++ rest ∧ vs' = vs0 ++ vs ∧ ss' = ss0 ++ ss ∧ DAssetBody pre rest vs ss := by
  induction f generalizing vs0 ss0 ts with
  | zero => rw [parseAssetBody_zero] at h; exact absurd h (by simp)
  | succ f ih =>
    by_cases h1 : ∃ r, ts = .rcurly :: r
    · obtain ⟨r, rfl⟩ := h1
      rw [parseAssetBody_rcurly] at h
      simp only [Option.some.injEq, Prod.mk.injEq] at h
      obtain ⟨⟨rfl, rfl⟩, rfl⟩ := h
      exact ⟨[.rcurly], [], [], by simp, by simp, by simp, .done⟩
    · by_cases h2 : ∃ v r, ts = .kwLet :: .id v :: .assign :: r
      · obtain ⟨v, r, rfl⟩ := h2
        rw [parseAssetBody_let] at h
        cases he : parseExpr f false r with
        | none => simp [he] at h
        | some x =>
          obtain ⟨e, r1⟩ := x
          simp only [he, Option.bind_some] at h
          obtain ⟨pe, rfl, hd1⟩ := (expr_sound f).2.2.2.2 _ _ _ _ he
          obtain ⟨pm, vs, ss, rfl, rfl, rfl, hd2⟩ := ih _ _ _ h
          exact ⟨.kwLet :: .id v :: .assign :: (pe ++ pm), (v, e) :: vs, ss, by simp, by simp, rfl, .var hd1 hd2⟩
      · rw [parseAssetBody_step _ _ _ _ (fun r hr => h1 ⟨r, hr⟩) (fun v r hr => h2 ⟨v, r, hr⟩)] at h
        cases hs : parseStep f ts with
        | none => simp [hs] at h
        | some x =>
          obtain ⟨s, r1⟩ := x
          simp only [hs, Option.bind_some] at h
          obtain ⟨ps, rfl, hd1⟩ := parseStep_sound _ _ _ _ hs
          obtain ⟨pm, vs, ss, rfl, rfl, rfl, hd2⟩ := ih _ _ _ h
          exact ⟨ps ++ pm, vs, s :: ss, by simp, rfl, by simp, .step hd1 hd2⟩

theorem assetHdr_sound {ts : List Tok} {abs : Bool} {name : String} {r1 : List Tok}
    (h : assetHdr ts = some (abs, name, r1)) :
    ∃ pAbs, ts = pAbs ++ .kwAsset :: .id name :: r1 ∧ (pAbs = [.kwAbstract] ∧ abs = true ∨ pAbs = [] ∧ abs = false) := by
  unfold assetHdr at h
  split at h
  · simp only [Option.some.injEq, Prod.mk.injEq] at h
    obtain ⟨rfl, rfl, rfl⟩ := h
    exact ⟨[.kwAbstract], rfl, .inl ⟨rfl, rfl⟩⟩
  · simp only [Option.some.injEq, Prod.mk.injEq] at h
    obtain ⟨rfl, rfl, rfl⟩ := h
    exact ⟨[], rfl, .inr ⟨rfl, rfl⟩⟩
  · exact absurd h (by simp)

theorem assetSup_sound (r1 : List Tok) :
    ∃ pSup, r1 = pSup ++ (assetSup r1).2 ∧
      ((∃ sn, pSup = [.kwExtends, .id sn] ∧ (assetSup r1).1 = some sn) ∨ pSup = [] ∧ (assetSup r1).1 = none) := by
  unfold assetSup
  split
  · rename_i sn r
    exact ⟨[.kwExtends, .id sn], rfl, .inl ⟨sn, rfl, rfl⟩⟩
  · exact ⟨[], rfl, .inr ⟨rfl, rfl⟩⟩

theorem parseAsset_sound (f : Nat) (cat : String) (ts : List Tok) (a : CAsset) (rest : List Tok)
    (h : parseAsset f cat ts = some (a, rest)) : ∃ pre, ts = pre ++ rest ∧ DAsset cat pre rest a := by
  rw [parseAsset_eq] at h
  cases hh : assetHdr ts with
  | none => simp [hh] at h
  | some x =>
    obtain ⟨abs, name, r1⟩ := x
    simp only [hh, Option.bind_some] at h
    obtain ⟨pAbs, rfl, habs⟩ := assetHdr_sound hh
    obtain ⟨pSup, hs1, hs2⟩ := assetSup_sound r1
    obtain ⟨pMeta, kvs, hm1, hm2, hm3⟩ := parseMetas_sound f [] (assetSup r1).2
    unfold assetBodyStage at h
    split at h
    · rename_i r4 hr3
      cases hb : parseAssetBody f [] [] r4 with
      | none => simp [hb] at h
      | some y =>
        obtain ⟨⟨vs, ss⟩, r5⟩ := y
        rw [hb] at h
        simp only [Option.map_some, Option.some.injEq, Prod.mk.injEq] at h
        obtain ⟨rfl, rfl⟩ := h
        obtain ⟨pBody, vs', ss', rfl, hv, hs, hd⟩ := parseAssetBody_sound _ _ _ _ _ _ _ hb
        simp only [List.nil_append] at hv hs
        subst hv hs
        refine ⟨pAbs ++ .kwAsset :: .id name :: (pSup ++ (pMeta ++ .lcurly :: pBody)), ?_, ?_⟩
        · simp only [List.append_assoc, List.cons_append]
          rw [← hr3, ← hm1, ← hs1]
        · rw [hm3]
          rcases hs2 with ⟨sn, hp, hv⟩ | ⟨hp, hv⟩
          · rw [hv]; exact .mk habs (.inl ⟨hp, rfl⟩) hm2 hd
          · rw [hv]; exact .mk (sn := "") habs (.inr ⟨hp, rfl⟩) hm2 hd
    · exact absurd h (by simp)

theorem parseAssets_sound (f : Nat) (cat : String) (acc : List CAsset) (ts : List Tok) (as' : List CAsset)
    (rest : List Tok) (h : parseAssets f cat acc ts = some (as', rest)) :
    ∃ pre as, ts = pre ++ rest ∧ as' = acc ++ as ∧ DAssets cat pre rest as := by
  induction f generalizing acc ts with
  | zero => rw [parseAssets_zero] at h; exact absurd h (by simp)
  | succ f ih =>
    by_cases h1 : ∃ r, ts = .rcurly :: r
    · obtain ⟨r, rfl⟩ := h1
      rw [parseAssets_rcurly] at h
      simp only [Option.some.injEq, Prod.mk.injEq] at h
      obtain ⟨rfl, rfl⟩ := h
      exact ⟨[.rcurly], [], by simp, by simp, .done⟩
    · rw [parseAssets_asset _ _ _ _ (fun r hr => h1 ⟨r, hr⟩)] at h
      cases ha : parseAsset f cat ts with
      | none => simp [ha] at h
      | some x =>
        obtain ⟨a, r1⟩ := x
        simp only [ha, Option.bind_some] at h
        obtain ⟨pa, rfl, hd1⟩ := parseAsset_sound _ _ _ _ _ ha
        obtain ⟨pm, as, rfl, rfl, hd2⟩ := ih _ _ h
        exact ⟨pa ++ pm, a :: as, by simp, by simp, .cons hd1 hd2⟩



/-! ### associations -/

theorem parseMult_sound (ts : List Tok) (m : Nat × Option Nat) (rest : List Tok)
    (h : parseMult ts = some (m, rest)) : ∃ pre, ts = pre ++ rest ∧ DMult pre m := by
  unfold parseMult at h
  split at h
  · rename_i x y r
    split at h
    · rename_i lo hi hx hy
      simp only [Option.some.injEq, Prod.mk.injEq] at h
      obtain ⟨rfl, rfl⟩ := h
      exact ⟨[x, .range, y], by simp, .range hx hy⟩
    · exact absurd h (by simp)
  · rename_i x r _
    cases hx : atomTok x with
    | none => simp [hx] at h
    | some lo =>
      simp only [hx, Option.map_some, Option.some.injEq, Prod.mk.injEq] at h
      obtain ⟨rfl, rfl⟩ := h
      exact ⟨[x], by simp, .one hx⟩
  · exact absurd h (by simp)

theorem parseAssociation_shape {f : Nat} {ts : List Tok} {r : CAssoc × List Tok} (h : parseAssociation f ts = some r) :
    ∃ la lf r1, ts = .id la :: .lsquare :: .id lf :: .rsquare :: r1 := by
  unfold parseAssociation at h
  split at h
  · exact ⟨_, _, _, rfl⟩
  · exact absurd h (by simp)

theorem parseAssociation_sound (f : Nat) (ts : List Tok) (a : CAssoc) (rest : List Tok)
    (h : parseAssociation f ts = some (a, rest)) : ∃ pre, ts = pre ++ rest ∧ DAssoc pre a := by
  obtain ⟨la, lf, r1, rfl⟩ := parseAssociation_shape h
  rw [parseAssociation_eq] at h
  unfold assocMid at h
  split at h
  · rename_i lm name r2 hm1
    obtain ⟨pl, rfl, hd1⟩ := parseMult_sound _ _ _ hm1
    unfold assocTail at h
    split at h
    · rename_i rm rf ra r3 hm2
      obtain ⟨pr, rfl, hd2⟩ := parseMult_sound _ _ _ hm2
      obtain ⟨pMeta, kvs, hk1, hk2, hk3⟩ := parseMetas_sound f [] r3
      simp only [Option.some.injEq, Prod.mk.injEq] at h
      obtain ⟨rfl, rfl⟩ := h
      refine ⟨.id la :: .lsquare :: .id lf :: .rsquare :: (pl ++ .larrow :: .id name :: .rarrow ::
                (pr ++ .lsquare :: .id rf :: .rsquare :: .id ra :: pMeta)), ?_, ?_⟩
      · simp only [List.cons_append, List.append_assoc]
        rw [← hk1]
      · rw [hk3]; exact .mk hd1 hd2 hk2
    · exact absurd h (by simp)
  · exact absurd h (by simp)

theorem parseAssociationsBody_sound (f : Nat) (acc : List CAssoc) (ts : List Tok) (as' : List CAssoc)
    (rest : List Tok) (h : parseAssociationsBody f acc ts = some (as', rest)) :
    ∃ pre as, ts = pre ++ rest ∧ as' = acc ++ as ∧ DAssocs pre as := by
  induction f generalizing acc ts with
  | zero => rw [parseAssociationsBody_zero] at h; exact absurd h (by simp)
  | succ f ih =>
    by_cases h1 : ∃ r, ts = .rcurly :: r
    · obtain ⟨r, rfl⟩ := h1
      rw [parseAssociationsBody_rcurly] at h
      simp only [Option.some.injEq, Prod.mk.injEq] at h
      obtain ⟨rfl, rfl⟩ := h
      exact ⟨[.rcurly], [], by simp, by simp, .done⟩
    · rw [parseAssociationsBody_assoc _ _ _ (fun r hr => h1 ⟨r, hr⟩)] at h
      cases ha : parseAssociation f ts with
      | none => simp [ha] at h
      | some x =>
        obtain ⟨a, r1⟩ := x
        simp only [ha, Option.bind_some] at h
        obtain ⟨pa, rfl, hd1⟩ := parseAssociation_sound _ _ _ _ ha
        obtain ⟨pm, as, rfl, rfl, hd2⟩ := ih _ _ h
        exact ⟨pa ++ pm, a :: as, by simp, by simp, .cons hd1 hd2⟩

/-! ### declarations -/

theorem parseDecl_sound (f : Nat) (ts : List Tok) (d : Decl) (rest : List Tok)
    (h : parseDecl f ts = some (d, rest)) : ∃ pre, ts = pre ++ rest ∧ DDecl pre rest d := by
  unfold parseDecl at h
  split at h
  · simp only [Option.some.injEq, Prod.mk.injEq] at h
    obtain ⟨rfl, rfl⟩ := h
    exact ⟨[.kwInclude, .str _], by simp, .incl⟩
  · simp only [Option.some.injEq, Prod.mk.injEq] at h
    obtain ⟨rfl, rfl⟩ := h
    exact ⟨[.hash, .id _, .colon, .str _], by simp, .define⟩
  · rename_i n r0
    obtain ⟨pMeta, kvs, hk1, hk2, hk3⟩ := parseMetas_sound f [] r0
    simp only at h
    split at h
    · rename_i r2 hr1
      cases hp : parseAssets f n [] r2 with
      | none => simp [hp] at h
      | some x =>
        obtain ⟨as, r3⟩ := x
        rw [hp] at h
        simp only [Option.map_some, Option.some.injEq, Prod.mk.injEq] at h
        obtain ⟨rfl, rfl⟩ := h
        obtain ⟨pa, as', rfl, has, hd⟩ := parseAssets_sound _ _ _ _ _ _ hp
        simp only [List.nil_append] at has
        subst has
        refine ⟨.kwCategory :: .id n :: (pMeta ++ .lcurly :: pa), ?_, ?_⟩
        · simp only [List.cons_append, List.append_assoc]
          rw [← hr1, ← hk1]
        · rw [hk3]; exact .category hk2 hd
    · exact absurd h (by simp)
  · rename_i r0
    cases hp : parseAssociationsBody f [] r0 with
    | none => simp [hp] at h
    | some x =>
      obtain ⟨as, r3⟩ := x
      rw [hp] at h
      simp only [Option.map_some, Option.some.injEq, Prod.mk.injEq] at h
      obtain ⟨rfl, rfl⟩ := h
      obtain ⟨pa, as', rfl, has, hd⟩ := parseAssociationsBody_sound _ _ _ _ _ hp
      simp only [List.nil_append] at has
      subst has
      exact ⟨.kwAssociations :: .lcurly :: pa, by simp, .associations hd⟩
  · exact absurd h (by simp)

/-- where the start rule stops: at the end of the input or at a token that cannot start a declaration -/
def StopsAt (rest : List Tok) : Prop := rest = [] ∨ ∃ t r, rest = t :: r ∧ startsDecl t = false

theorem parseDecls_sound (f : Nat) (acc : List Decl) (ts : List Tok) (ds : List Decl)
    (h : parseDecls f acc ts = some ds) :
    ∃ pre rest ds', ts = pre ++ rest ∧ ds = acc ++ ds' ∧ DDecls pre rest ds' ∧ StopsAt rest := by
  induction f generalizing acc ts with
  | zero => rw [parseDecls_zero] at h; exact absurd h (by simp)
  | succ f ih =>
    cases ts with
    | nil =>
      rw [parseDecls_nil] at h
      simp only [Option.some.injEq] at h; subst h
      exact ⟨[], [], [], rfl, by simp, .nil, .inl rfl⟩
    | cons t r =>
      cases hs : startsDecl t with
      | false =>
        rw [parseDecls_stop _ _ _ _ hs] at h
        simp only [Option.some.injEq] at h; subst h
        exact ⟨[], t :: r, [], rfl, by simp, .nil, .inr ⟨t, r, rfl, hs⟩⟩
      | true =>
        rw [parseDecls_cons _ _ _ _ hs] at h
        cases hd : parseDecl f (t :: r) with
        | none => simp [hd] at h
        | some x =>
          obtain ⟨d, r1⟩ := x
          simp only [hd, Option.bind_some] at h
          obtain ⟨p1, hp1, hd1⟩ := parseDecl_sound _ _ _ _ hd
          obtain ⟨p2, rest, ds', rfl, rfl, hd2, hst⟩ := ih _ _ h
          exact ⟨p1 ++ p2, rest, d :: ds', by rw [hp1]; simp, by simp, .cons hd1 hd2, hst⟩

/-- `mal: declaration+ | EOF` as written (no EOF after the declarations): what `parseMalPrefix` returns is the
meaning of a grammatical prefix, and it stops only where no declaration can start -/
theorem parseMalPrefix_sound (ts : List Tok) (ds : List Decl) (h : parseMalPrefix ts = some ds) :
    ∃ pre rest, ts = pre ++ rest ∧ DDecls pre rest ds ∧ StopsAt rest ∧ (ts ≠ [] → ds ≠ []) := by
  unfold parseMalPrefix at h
  split at h
  · simp only [Option.some.injEq] at h; subst h
    exact ⟨[], [], rfl, .nil, .inl rfl, fun h => absurd rfl h⟩
  · rename_i t r
    split at h
    · rename_i hs
      obtain ⟨pre, rest, ds', h1, h2, h3, h4⟩ := parseDecls_sound _ _ _ _ h
      simp only [List.nil_append] at h2; subst h2
      refine ⟨pre, rest, h1, h3, h4, fun _ hds => ?_⟩
      subst hds
      cases h3
      simp only [List.nil_append] at h1
      subst h1
      rcases h4 with h4 | ⟨t', r', h4, h5⟩
      · exact absurd h4 (by simp)
      · simp only [List.cons.injEq] at h4
        rw [← h4.1] at h5; rw [h5] at hs; exact absurd hs (by simp)
    · exact absurd h (by simp)


theorem parseDeclsRest_sound (f : Nat) (acc : List Decl) (ts : List Tok) (ds : List Decl) (rest : List Tok)
    (h : parseDeclsRest f acc ts = some (ds, rest)) :
    ∃ pre ds', ts = pre ++ rest ∧ ds = acc ++ ds' ∧ DDecls pre rest ds' ∧ StopsAt rest := by
  induction f generalizing acc ts with
  | zero => rw [parseDeclsRest_zero] at h; exact absurd h (by simp)
  | succ f ih =>
    cases ts with
    | nil =>
      rw [parseDeclsRest_nil] at h
      simp only [Option.some.injEq, Prod.mk.injEq] at h
      obtain ⟨rfl, rfl⟩ := h
      exact ⟨[], [], rfl, by simp, .nil, .inl rfl⟩
    | cons t r =>
      cases hs : startsDecl t with
      | false =>
        rw [parseDeclsRest_stop _ _ _ _ hs] at h
        simp only [Option.some.injEq, Prod.mk.injEq] at h
        obtain ⟨rfl, rfl⟩ := h
        exact ⟨[], [], rfl, by simp, .nil, .inr ⟨t, r, rfl, hs⟩⟩
      | true =>
        rw [parseDeclsRest_cons _ _ _ _ hs] at h
        cases hd : parseDecl f (t :: r) with
        | none => simp [hd] at h
        | some x =>
          obtain ⟨d, r1⟩ := x
          simp only [hd, Option.bind_some] at h
          obtain ⟨p1, hp1, hd1⟩ := parseDecl_sound _ _ _ _ hd
          obtain ⟨p2, ds', rfl, rfl, hd2, hst⟩ := ih _ _ h
          exact ⟨p1 ++ p2, d :: ds', by rw [hp1]; simp, by simp, .cons hd1 hd2, hst⟩

/-- a derivation by `declaration*` of the empty token list derives no declaration, and conversely -/
theorem ddecls_nil_iff {pre rest : List Tok} {ds : List Decl} (h : DDecls pre rest ds) : pre = [] ↔ ds = [] := by
  cases h with
  | nil => simp
  | @cons p1 p2 _ d ds' hd hds =>
    cases hd <;> simp

/-- `parser.mal()`: the declarations returned are the meaning of the prefix in front of `rest`, which is handed back
untouched; the parser stops only at the end of the input or at a token that cannot start a declaration -/
theorem parseMalRest_sound (ts : List Tok) (ds : List Decl) (rest : List Tok)
    (h : parseMalRest ts = some (ds, rest)) :
    ∃ pre, ts = pre ++ rest ∧ DDecls pre rest ds ∧ StopsAt rest ∧ (ts ≠ [] → ds ≠ []) := by
  unfold parseMalRest at h
  split at h
  · simp only [Option.some.injEq, Prod.mk.injEq] at h
    obtain ⟨rfl, rfl⟩ := h
    exact ⟨[], rfl, .nil, .inl rfl, fun h => absurd rfl h⟩
  · rename_i t r
    split at h
    · rename_i hs
      obtain ⟨pre, ds', h1, h2, h3, h4⟩ := parseDeclsRest_sound _ _ _ _ _ h
      simp only [List.nil_append] at h2; subst h2
      refine ⟨pre, h1, h3, h4, fun _ hds => ?_⟩
      have hpre : pre = [] := (ddecls_nil_iff h3).mpr hds
      subst hpre
      simp only [List.nil_append] at h1
      subst h1
      rcases h4 with h4 | ⟨t', r', h4, h5⟩
      · exact absurd h4 (by simp)
      · simp only [List.cons.injEq] at h4
        rw [← h4.1] at h5; rw [h5] at hs; exact absurd hs (by simp)
    · exact absurd h (by simp)

/-- **the compiler's verdict** (`parser.mal()` and then `EOF`): the WHOLE token list is derived by `declaration*`;
non-empty input gives at least one declaration -/
theorem parseMal_sound (ts : List Tok) (ds : List Decl) (h : parseMal ts = some ds) :
    DDecls ts [] ds ∧ (ts ≠ [] → ds ≠ []) := by
  obtain ⟨pre, h1, h2, _, h4⟩ := parseMalRest_sound ts ds [] ((parseMal_eq_some_iff ts ds).mp h)
  simp only [List.append_nil] at h1
  subst h1
  exact ⟨h2, h4⟩


/-! ### consumed prefixes of the remaining functions -/

theorem cutS_of {ts pre rest : List Tok} (h : ts = pre ++ rest) (hne : pre ≠ []) : CutS ts rest := ⟨pre, hne, h⟩

theorem parseExprList_cut (f : Nat) (reach : Bool) (ts : List Tok) (l : List Expr) (rest : List Tok)
    (h : parseExprList f reach ts = some (l, rest)) : CutS ts rest := by
  induction f generalizing ts l with
  | zero => rw [parseExprList_zero] at h; exact absurd h (by simp)
  | succ f ih =>
    cases he : parseExpr f reach ts with
    | none => rw [parseExprList_none he] at h; exact absurd h (by simp)
    | some x =>
      obtain ⟨e, r1⟩ := x
      have h1 := (expr_cut f).2.2.2.2 _ _ _ _ he
      by_cases hc : ∃ r, r1 = .comma :: r
      · obtain ⟨r, rfl⟩ := hc
        rw [parseExprList_comma he] at h
        cases hl : parseExprList f reach r with
        | none => rw [hl] at h; exact absurd h (by simp)
        | some y =>
          obtain ⟨l', r2⟩ := y
          rw [hl] at h
          simp only [Option.map_some, Option.some.injEq, Prod.mk.injEq] at h
          obtain ⟨rfl, rfl⟩ := h
          exact h1.trans ((CutS.one _ _).trans (ih _ _ hl))
      · rw [parseExprList_last he (fun r hr => hc ⟨r, hr⟩)] at h
        simp only [Option.some.injEq, Prod.mk.injEq] at h
        obtain ⟨rfl, rfl⟩ := h
        exact h1

theorem parseMetas_cut (f : Nat) (m : Meta) (ts : List Tok) : Cut ts (parseMetas f m ts).2 := by
  obtain ⟨pre, _, h, _, _⟩ := parseMetas_sound f m ts
  exact ⟨pre, h⟩

theorem parseTags_cut (f : Nat) (acc : List String) (ts : List Tok) : Cut ts (parseTags f acc ts).2 := by
  obtain ⟨pre, _, h, _, _⟩ := parseTags_sound f acc ts
  exact ⟨pre, h⟩

theorem parseCias_cut (f : Nat) (acc : Bool × Bool × Bool) (ts : List Tok) (r : Bool × Bool × Bool)
    (rest : List Tok) (h : parseCias f acc ts = some (r, rest)) : CutS ts rest := by
  obtain ⟨pre, rs, h1, h2, _⟩ := parseCias_sound f acc ts r rest h
  exact cutS_of h1 (by cases h2 <;> simp)

theorem parseStep_cut (f : Nat) (ts : List Tok) (s : CStep) (rest : List Tok)
    (h : parseStep f ts = some (s, rest)) : CutS ts rest := by
  obtain ⟨pre, h1, h2⟩ := parseStep_sound f ts s rest h
  exact cutS_of h1 (by cases h2; simp)

theorem DStep_ne_nil {pre rest : List Tok} {s : CStep} (h : DStep pre rest s) : pre ≠ [] := by cases h; simp

theorem parseAssetBody_cut (f : Nat) (vs0 : List (String × Expr)) (ss0 : List CStep) (ts : List Tok)
    (r : (List (String × Expr) × List CStep) × List Tok) (h : parseAssetBody f vs0 ss0 ts = some r) :
    CutS ts r.2 := by
  obtain ⟨⟨vs', ss'⟩, rest⟩ := r
  obtain ⟨pre, vs, ss, h1, _, _, h2⟩ := parseAssetBody_sound f vs0 ss0 ts vs' ss' rest h
  refine cutS_of h1 ?_
  cases h2 with
  | done => simp
  | var _ _ => simp
  | step hs _ => have := DStep_ne_nil hs; simp [this]

theorem DAsset_ne_nil {cat : String} {pre rest : List Tok} {a : CAsset} (h : DAsset cat pre rest a) : pre ≠ [] := by
  cases h; simp

theorem parseAsset_cut (f : Nat) (cat : String) (ts : List Tok) (a : CAsset) (rest : List Tok)
    (h : parseAsset f cat ts = some (a, rest)) : CutS ts rest := by
  obtain ⟨pre, h1, h2⟩ := parseAsset_sound f cat ts a rest h
  exact cutS_of h1 (DAsset_ne_nil h2)

theorem parseAssets_cut (f : Nat) (cat : String) (acc : List CAsset) (ts : List Tok) (as' : List CAsset)
    (rest : List Tok) (h : parseAssets f cat acc ts = some (as', rest)) : CutS ts rest := by
  obtain ⟨pre, as, h1, _, h2⟩ := parseAssets_sound f cat acc ts as' rest h
  refine cutS_of h1 ?_
  cases h2 with
  | done => simp
  | cons ha _ => have := DAsset_ne_nil ha; simp [this]

theorem parseMult_cut (ts : List Tok) (m : Nat × Option Nat) (rest : List Tok)
    (h : parseMult ts = some (m, rest)) : CutS ts rest := by
  obtain ⟨pre, h1, h2⟩ := parseMult_sound ts m rest h
  exact cutS_of h1 (by cases h2 <;> simp)

theorem DAssoc_ne_nil {pre : List Tok} {a : CAssoc} (h : DAssoc pre a) : pre ≠ [] := by cases h; simp

theorem parseAssociation_cut (f : Nat) (ts : List Tok) (a : CAssoc) (rest : List Tok)
    (h : parseAssociation f ts = some (a, rest)) : CutS ts rest := by
  obtain ⟨pre, h1, h2⟩ := parseAssociation_sound f ts a rest h
  exact cutS_of h1 (DAssoc_ne_nil h2)

theorem parseAssociationsBody_cut (f : Nat) (acc : List CAssoc) (ts : List Tok) (as' : List CAssoc)
    (rest : List Tok) (h : parseAssociationsBody f acc ts = some (as', rest)) : CutS ts rest := by
  obtain ⟨pre, as, h1, _, h2⟩ := parseAssociationsBody_sound f acc ts as' rest h
  refine cutS_of h1 ?_
  cases h2 with
  | done => simp
  | cons ha _ => have := DAssoc_ne_nil ha; simp [this]

theorem parseDecl_cut (f : Nat) (ts : List Tok) (d : Decl) (rest : List Tok)
    (h : parseDecl f ts = some (d, rest)) : CutS ts rest := by
  obtain ⟨pre, h1, h2⟩ := parseDecl_sound f ts d rest h
  exact cutS_of h1 (by cases h2 <;> simp)

/-! ### an error in an included file is an error of the whole -/

theorem foldlM_none_of_mem {α β : Type} (step : α → β → Option α) (l : List β) (d : β) (hd : d ∈ l)
    (hnone : ∀ s, step s d = none) (s0 : α) : l.foldlM step s0 = none := by
  induction l generalizing s0 with
  | nil => simp at hd
  | cons x l ih =>
    simp only [List.foldlM_cons, Option.bind_eq_bind]
    rcases List.mem_cons.mp hd with rfl | hd'
    · rw [hnone]; rfl
    · cases step s0 x with
      | none => rfl
      | some s1 => exact ih hd' s1

theorem compileFile_include_none (files : String → Option String) (f : Nat) (name src p : String)
    (decls : List Decl) (hfile : files name = some src) (hparse : parseSource src = some decls)
    (hinc : Decl.incl p ∈ decls) (hbad : compileFile files f p = none) :
    compileFile files (f+1) name = none := by
  rw [compileFile_succ, hfile]
  simp only [Option.bind_some, hparse]
  unfold assemble
  rw [foldlM_none_of_mem _ decls (.incl p) hinc (by intro s; simp [assembleStep, hbad])]
  rfl

/-- a file that does not lex or does not parse has no specification, at any depth -/
theorem compileFile_bad_file (files : String → Option String) (f : Nat) (name src : String)
    (hfile : files name = some src) (hbad : parseSource src = none) :
    compileFile files f name = none := by
  cases f with
  | zero => exact compileFile_zero _ _
  | succ f => rw [compileFile_succ, hfile]; simp [hbad]

theorem compileFile_missing_file (files : String → Option String) (f : Nat) (name : String)
    (hfile : files name = none) : compileFile files f name = none := by
  cases f with
  | zero => exact compileFile_zero _ _
  | succ f => rw [compileFile_succ, hfile]; rfl


end MalVerif.Mal
