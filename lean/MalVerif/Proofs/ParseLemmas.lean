import MalVerif.Model.Compiler.Printer
/-!
# The MAL parser model: unfolding lemmas, consumed prefixes

`parseAtom` is the first half of `parsePart` (the alternatives of `part` before `STAR? type*`), introduced for
the proofs only (`parsePart_succ`).  `Cut ts rest` / `CutS ts rest`: `rest` is what remains of `ts` after a
(non-empty) prefix was consumed.
-/
namespace MalVerif.Mal
open MalVerif (Expr)

/-! ### consumed prefixes -/

def Cut (ts rest : List Tok) : Prop := ∃ pre, ts = pre ++ rest
def CutS (ts rest : List Tok) : Prop := ∃ pre, pre ≠ [] ∧ ts = pre ++ rest

theorem Cut.refl (ts : List Tok) : Cut ts ts := ⟨[], rfl⟩
theorem CutS.cut {ts rest : List Tok} (h : CutS ts rest) : Cut ts rest := let ⟨p, _, e⟩ := h; ⟨p, e⟩
theorem Cut.trans {a b c : List Tok} (h1 : Cut a b) (h2 : Cut b c) : Cut a c := by
  obtain ⟨p, rfl⟩ := h1; obtain ⟨q, rfl⟩ := h2; exact ⟨p ++ q, by simp⟩
theorem CutS.trans_cut {a b c : List Tok} (h1 : CutS a b) (h2 : Cut b c) : CutS a c := by
  obtain ⟨p, hp, rfl⟩ := h1; obtain ⟨q, rfl⟩ := h2; exact ⟨p ++ q, by simp [hp], by simp⟩
theorem Cut.trans_cutS {a b c : List Tok} (h1 : Cut a b) (h2 : CutS b c) : CutS a c := by
  obtain ⟨p, rfl⟩ := h1; obtain ⟨q, hq, rfl⟩ := h2; exact ⟨p ++ q, by simp [hq], by simp⟩
theorem CutS.trans {a b c : List Tok} (h1 : CutS a b) (h2 : CutS b c) : CutS a c := h1.trans_cut h2.cut
theorem CutS.cons (t : Tok) {ts rest : List Tok} (h : Cut ts rest) : CutS (t :: ts) rest := by
  obtain ⟨p, rfl⟩ := h; exact ⟨t :: p, by simp, rfl⟩
theorem CutS.one (t : Tok) (ts : List Tok) : CutS (t :: ts) ts := CutS.cons t (Cut.refl ts)
theorem Cut.length_le {ts rest : List Tok} (h : Cut ts rest) : rest.length ≤ ts.length := by
  obtain ⟨p, rfl⟩ := h; simp
theorem CutS.length_lt {ts rest : List Tok} (h : CutS ts rest) : rest.length < ts.length := by
  obtain ⟨p, hp, rfl⟩ := h
  cases p with
  | nil => exact absurd rfl hp
  | cons x p => simp; omega

/-! ### `part` = atom, then suffix -/

/-- `LPAREN expr RPAREN | varsubst LPAREN RPAREN | ID` -/
def parseAtom (f : Nat) (reach : Bool) (ts : List Tok) : P Expr :=
  match ts with
  | .lparen :: rest =>
    match parseExpr f reach rest with
    | some (e, .rparen :: rest') => some (e, rest')
    | _ => none
  | .id n :: .lparen :: .rparen :: rest => some (.var n, rest)
  | .id n :: rest => some (if reach && !dotAhead rest then .step n else .field n, rest)
  | _ => none

theorem parsePart_zero (reach : Bool) (ts : List Tok) : parsePart 0 reach ts = none := by
  rw [parsePart.eq_def]

theorem parsePart_succ (f : Nat) (reach : Bool) (ts : List Tok) :
    parsePart (f+1) reach ts = (parseAtom f reach ts).map (fun r => parseSuffix f r.1 r.2) := by
  rw [parsePart.eq_def]
  unfold parseAtom
  simp only
  split
  · split <;> simp_all
  · rfl
  · simp_all
  · simp_all

theorem parsePartsLoop_zero (reach : Bool) (acc : Expr) (ts : List Tok) : parsePartsLoop 0 reach acc ts = none := by
  rw [parsePartsLoop.eq_def]

theorem parsePartsLoop_dot (f : Nat) (reach : Bool) (acc : Expr) (ts : List Tok) :
    parsePartsLoop (f+1) reach acc (.dot :: ts) =
      (parsePart f reach ts).bind (fun r => parsePartsLoop f reach (.collect acc r.1) r.2) := by
  rw [parsePartsLoop.eq_def]
  simp only
  cases parsePart f reach ts <;> rfl

theorem parsePartsLoop_stop (f : Nat) (reach : Bool) (acc : Expr) (ts : List Tok)
    (h : ∀ r, ts ≠ .dot :: r) : parsePartsLoop (f+1) reach acc ts = some (acc, ts) := by
  rw [parsePartsLoop.eq_def]
  simp only

theorem parseParts_zero (reach : Bool) (ts : List Tok) : parseParts 0 reach ts = none := by
  rw [parseParts.eq_def]

theorem parseParts_succ (f : Nat) (reach : Bool) (ts : List Tok) :
    parseParts (f+1) reach ts = (parsePart f reach ts).bind (fun r => parsePartsLoop f reach r.1 r.2) := by
  rw [parseParts.eq_def]
  simp only
  cases parsePart f reach ts <;> rfl

/-- the three set operators -/
def setOp : Tok → Option (Expr → Expr → Expr)
  | .union => some .union
  | .intersect => some .inter
  | .minus => some .diff
  | _ => none

theorem parseExprLoop_zero (reach : Bool) (acc : Expr) (ts : List Tok) : parseExprLoop 0 reach acc ts = none := by
  rw [parseExprLoop.eq_def]

theorem parseExprLoop_op (f : Nat) (reach : Bool) (acc : Expr) (t : Tok) (ts : List Tok) (op : Expr → Expr → Expr)
    (h : setOp t = some op) :
    parseExprLoop (f+1) reach acc (t :: ts) =
      (parseParts f reach ts).bind (fun r => parseExprLoop f reach (op acc r.1) r.2) := by
  rw [parseExprLoop.eq_def]
  cases t <;> simp [setOp] at h
  all_goals
    subst h
    simp only
    cases parseParts f reach ts <;> rfl

theorem parseExprLoop_stop (f : Nat) (reach : Bool) (acc : Expr) (ts : List Tok)
    (h : ∀ t r, ts = t :: r → setOp t = none) : parseExprLoop (f+1) reach acc ts = some (acc, ts) := by
  rw [parseExprLoop.eq_def]
  simp only
  split
  · exact absurd (h _ _ rfl) (by simp [setOp])
  · exact absurd (h _ _ rfl) (by simp [setOp])
  · exact absurd (h _ _ rfl) (by simp [setOp])
  · rfl

theorem parseExpr_zero (reach : Bool) (ts : List Tok) : parseExpr 0 reach ts = none := by
  rw [parseExpr.eq_def]

theorem parseExpr_succ (f : Nat) (reach : Bool) (ts : List Tok) :
    parseExpr (f+1) reach ts = (parseParts f reach ts).bind (fun r => parseExprLoop f reach r.1 r.2) := by
  rw [parseExpr.eq_def]
  simp only
  cases parseParts f reach ts <;> rfl

/-! ### every parsing function returns a suffix of its input (expressions) -/

theorem parseTypes_cut (f : Nat) (e : Expr) (ts : List Tok) : Cut ts (parseTypes f e ts).2 := by
  induction f generalizing e ts with
  | zero => exact Cut.refl _
  | succ f ih =>
    unfold parseTypes
    split
    · exact (CutS.cons _ (CutS.cons _ (CutS.cons _ (ih _ _)).cut).cut).cut
    · exact Cut.refl _

theorem parseSuffix_cut (f : Nat) (e : Expr) (ts : List Tok) : Cut ts (parseSuffix f e ts).2 := by
  unfold parseSuffix
  split
  · exact (CutS.cons _ (parseTypes_cut _ _ _)).cut
  · exact parseTypes_cut _ _ _

theorem parseAtom_cut {f : Nat} {reach : Bool}
    (hE : ∀ ts e rest, parseExpr f reach ts = some (e, rest) → CutS ts rest)
    {ts : List Tok} {e : Expr} {rest : List Tok} (h : parseAtom f reach ts = some (e, rest)) : CutS ts rest := by
  unfold parseAtom at h
  split at h
  · split at h
    · rename_i e' rest' he
      cases h
      exact CutS.cons _ ((hE _ _ _ he).trans (CutS.one _ _)).cut
    · exact absurd h (by simp)
  · cases h; exact CutS.cons _ (CutS.cons _ (CutS.one _ _).cut).cut
  · cases h; exact CutS.one _ _
  · exact absurd h (by simp)

theorem expr_cut (f : Nat) :
    (∀ reach ts e rest, parsePart f reach ts = some (e, rest) → CutS ts rest) ∧
    (∀ reach acc ts e rest, parsePartsLoop f reach acc ts = some (e, rest) → Cut ts rest) ∧
    (∀ reach ts e rest, parseParts f reach ts = some (e, rest) → CutS ts rest) ∧
    (∀ reach acc ts e rest, parseExprLoop f reach acc ts = some (e, rest) → Cut ts rest) ∧
    (∀ reach ts e rest, parseExpr f reach ts = some (e, rest) → CutS ts rest) := by
  induction f with
  | zero =>
    refine ⟨?_, ?_, ?_, ?_, ?_⟩
    · intro reach ts e rest h; rw [parsePart_zero] at h; exact absurd h (by simp)
    · intro reach acc ts e rest h; rw [parsePartsLoop_zero] at h; exact absurd h (by simp)
    · intro reach ts e rest h; rw [parseParts_zero] at h; exact absurd h (by simp)
    · intro reach acc ts e rest h; rw [parseExprLoop_zero] at h; exact absurd h (by simp)
    · intro reach ts e rest h; rw [parseExpr_zero] at h; exact absurd h (by simp)
  | succ f ih =>
    obtain ⟨hP, hPL, hPs, hEL, hE⟩ := ih
    refine ⟨?_, ?_, ?_, ?_, ?_⟩
    · intro reach ts e rest h
      rw [parsePart_succ] at h
      cases ha : parseAtom f reach ts with
      | none => rw [ha] at h; exact absurd h (by simp)
      | some r =>
        rw [ha] at h
        simp only [Option.map_some, Option.some.injEq] at h
        have h1 := parseAtom_cut (hE reach) (e := r.1) (rest := r.2) ha
        have h2 := parseSuffix_cut f r.1 r.2
        rw [h] at h2
        exact h1.trans_cut h2
    · intro reach acc ts e rest h
      by_cases hd : ∃ r, ts = .dot :: r
      · obtain ⟨r, rfl⟩ := hd
        rw [parsePartsLoop_dot] at h
        cases hp : parsePart f reach r with
        | none => rw [hp] at h; exact absurd h (by simp)
        | some x =>
          rw [hp] at h
          simp only [Option.bind_some] at h
          exact (CutS.cons _ ((hP _ _ x.1 x.2 hp).cut.trans (hPL _ _ _ _ _ h))).cut
      · rw [parsePartsLoop_stop _ _ _ _ (fun r hr => hd ⟨r, hr⟩)] at h
        cases h; exact Cut.refl _
    · intro reach ts e rest h
      rw [parseParts_succ] at h
      cases hp : parsePart f reach ts with
      | none => rw [hp] at h; exact absurd h (by simp)
      | some x =>
        rw [hp] at h
        simp only [Option.bind_some] at h
        exact (hP _ _ x.1 x.2 hp).trans_cut (hPL _ _ _ _ _ h)
    · intro reach acc ts e rest h
      by_cases hd : ∃ t r op, ts = t :: r ∧ setOp t = some op
      · obtain ⟨t, r, op, rfl, hop⟩ := hd
        rw [parseExprLoop_op _ _ _ _ _ _ hop] at h
        cases hp : parseParts f reach r with
        | none => rw [hp] at h; exact absurd h (by simp)
        | some x =>
          rw [hp] at h
          simp only [Option.bind_some] at h
          exact (CutS.cons _ ((hPs _ _ x.1 x.2 hp).cut.trans (hEL _ _ _ _ _ h))).cut
      · rw [parseExprLoop_stop] at h
        · cases h; exact Cut.refl _
        · intro t r hr
          cases hs : setOp t with
          | none => rfl
          | some op => exact absurd ⟨t, r, op, hr, hs⟩ hd
    · intro reach ts e rest h
      rw [parseExpr_succ] at h
      cases hp : parseParts f reach ts with
      | none => rw [hp] at h; exact absurd h (by simp)
      | some x =>
        rw [hp] at h
        simp only [Option.bind_some] at h
        exact (hPs _ _ x.1 x.2 hp).trans_cut (hEL _ _ _ _ _ h)

end MalVerif.Mal
