import MalVerif.Model.Apriori
/-!
# The propagation lemma (helper lemmas for C08)

`main`: one call of `prop` (= `propagate_*_from_node`) started at an
effectively-false node lowers the labelling, keeps every post-fixed point
that was below it below it, keeps `Inv1`, leaves status nodes alone and
re-establishes the equation `v x = F g v x` at every node it may have
disturbed.  Nothing is assumed about acyclicity; only that `children` and
`parents` are converse.
-/
namespace MalVerif.Apriori
open Kind


def Conv (g : G) : Prop := ∀ c p, c ∈ g.children p ↔ p ∈ g.parents c

def Inv1 (g : G) (v : Lab) : Prop :=
  ∀ x, g.kind x = anyK → v x = false → ∀ p ∈ g.parents x, eff g v p = false

def Cons (g : G) (v : Lab) (x : Nat) : Prop := g.kind x = constK ∨ v x = F g v x

def PostFix (g : G) (w : Lab) : Prop := ∀ x, g.kind x ≠ constK → w x = true → F g w x = true

def cnt (ns : List Nat) (v : Lab) : Nat := (ns.filter (fun x => v x)).length

theorem eff_mono {g : G} {w v : Lab} (h : le w v) (p : Nat) : eff g w p = true → eff g v p = true := by
  unfold eff; intro hp
  cases hg : g.gate p <;> simp [hg] at hp ⊢
  exact h p hp

theorem any_eff_mono {g : G} {w v : Lab} (h : le w v) (ps : List Nat) :
    ps.any (eff g w) = true → ps.any (eff g v) = true := by
  simp only [List.any_eq_true]
  rintro ⟨p, hp, hpe⟩; exact ⟨p, hp, eff_mono h p hpe⟩

theorem all_eff_mono {g : G} {w v : Lab} (h : le w v) (ps : List Nat) :
    ps.all (eff g w) = true → ps.all (eff g v) = true := by
  simp only [List.all_eq_true]
  intro hall p hp; exact eff_mono h p (hall p hp)

theorem upd_self (v : Lab) (c : Nat) : upd v c (v c) = v := by
  apply Lab.ext; intro y; show (if y = c then v c else v y) = v y; split <;> simp_all

theorem upd_same (v : Lab) (c : Nat) (b : Bool) : upd v c b c = b := by simp [upd]
theorem upd_other (v : Lab) (c x : Nat) (b : Bool) (h : x ≠ c) : upd v c b x = v x := by simp [upd, h]

/-- new ≤ old under Inv1 -/
theorem recompute_le {g : G} {v : Lab} (hI : Inv1 g v) (c : Nat) :
    recompute g v c = true → v c = true := by
  unfold recompute
  cases hk : g.kind c <;> simp
  · -- anyK
    intro p hp hpe
    cases hv : v c with
    | true => rfl
    | false => have := hI c hk hv p hp; simp [this] at hpe

theorem le_upd {g : G} {v : Lab} (hI : Inv1 g v) (c : Nat) : le (upd v c (recompute g v c)) v := by
  intro x hx
  by_cases h : x = c
  · subst h; rw [upd_same] at hx; exact recompute_le hI _ hx
  · rwa [upd_other _ _ _ _ h] at hx

theorem le_trans' {a b c : Lab} (h1 : le a b) (h2 : le b c) : le a c := fun x hx => h2 x (h1 x hx)
theorem le_refl' (a : Lab) : le a a := fun _ h => h

theorem eff_false_of_le {g : G} {w v : Lab} (h : le w v) {p : Nat} (hp : eff g v p = false) : eff g w p = false := by
  cases hw : eff g w p with
  | false => rfl
  | true => have := eff_mono h p hw; simp [this] at hp

theorem inv1_upd {g : G} {v : Lab} (hI : Inv1 g v) (c : Nat) : Inv1 g (upd v c (recompute g v c)) := by
  intro x hk hx p hp
  apply eff_false_of_le (le_upd hI c)
  by_cases h : x = c
  · subst h
    rw [upd_same] at hx
    unfold recompute at hx; simp [hk] at hx
    exact hx p hp
  · rw [upd_other _ _ _ _ h] at hx
    exact hI x hk hx p hp



/-- (B4) a post-fixed point below `v` stays below after the body's assignment -/
theorem postfix_upd {g : G} {v w : Lab} (hC : Conv g) (nd c : Nat) (hc : c ∈ g.children nd)
    (hnd : eff g v nd = false) (hw : le w v) (hpf : PostFix g w) :
    le w (upd v c (recompute g v c)) := by
  intro x hx
  by_cases h : x = c
  · subst h
    rw [upd_same]
    have hpar : nd ∈ g.parents x := (hC x nd).1 hc
    unfold recompute
    cases hk : g.kind x with
    | constK => simpa using hw x hx
    | anyK =>
      have := hpf x (by simp [hk]) hx
      unfold F at this; simp only [hk] at this
      have hne : g.parents x ≠ [] := by intro h0; rw [h0] at hpar; simp at hpar
      simp only [hne, if_false] at this
      simpa using any_eff_mono hw _ this
    | allK =>
      have := hpf x (by simp [hk]) hx
      unfold F at this; simp only [hk] at this
      have h2 := all_eff_mono hw _ this
      rw [List.all_eq_true] at h2
      have := h2 nd hpar
      simp [hnd] at this
  · rw [upd_other _ _ _ _ h]; exact hw x hx

/-- (B5) the assigned child is consistent afterwards -/
theorem cons_upd_self {g : G} {v : Lab} (hC : Conv g) (hI : Inv1 g v) (nd c : Nat)
    (hc : c ∈ g.children nd) (hnd : eff g v nd = false) :
    Cons g (upd v c (recompute g v c)) c := by
  have hpar : nd ∈ g.parents c := (hC c nd).1 hc
  have hle := le_upd hI c
  cases hk : g.kind c with
  | constK => exact Or.inl hk
  | allK =>
    right
    rw [upd_same]
    have : recompute g v c = false := by unfold recompute; simp [hk]
    rw [this]
    unfold F; simp only [hk]
    symm
    rw [Bool.eq_false_iff]
    intro hall
    rw [List.all_eq_true] at hall
    have h1 := hall nd hpar
    have h2 := eff_false_of_le hle hnd
    rw [this] at h2
    rw [h2] at h1
    exact Bool.noConfusion h1
  | anyK =>
    right
    rw [upd_same]
    have hne : g.parents c ≠ [] := by intro h0; rw [h0] at hpar; simp at hpar
    unfold F; simp only [hk, hne, if_false]
    cases hnew : recompute g v c with
    | true =>
      have hv := recompute_le hI c hnew
      have : upd v c true = v := by rw [← hv]; exact upd_self v c
      rw [this]
      unfold recompute at hnew; simp only [hk] at hnew
      exact hnew.symm
    | false =>
      symm
      rw [Bool.eq_false_iff]
      intro hany
      have h1 := any_eff_mono (by rw [← hnew]; exact hle) _ hany
      unfold recompute at hnew; simp only [hk] at hnew
      rw [hnew] at h1; simp at h1

theorem any_congr_mem {f g : Nat → Bool} (l : List Nat) (h : ∀ p ∈ l, f p = g p) : l.any f = l.any g := by
  induction l with
  | nil => rfl
  | cons a t ih => simp [List.any_cons, h a (by simp), ih (fun p hp => h p (by simp [hp]))]
theorem all_congr_mem {f g : Nat → Bool} (l : List Nat) (h : ∀ p ∈ l, f p = g p) : l.all f = l.all g := by
  induction l with
  | nil => rfl
  | cons a t ih => simp [List.all_cons, h a (by simp), ih (fun p hp => h p (by simp [hp]))]

/-- F only looks at `eff` of the parents -/
theorem F_congr {g : G} {v v' : Lab} (x : Nat) (hx : v' x = v x)
    (h : ∀ p ∈ g.parents x, eff g v' p = eff g v p) : F g v' x = F g v x := by
  unfold F
  have hany : (g.parents x).any (eff g v') = (g.parents x).any (eff g v) :=
    any_congr_mem _ h
  have hall : (g.parents x).all (eff g v') = (g.parents x).all (eff g v) :=
    all_congr_mem _ h
  cases g.kind x <;> simp [hany, hall, hx]

/-- (B6) other consistent nodes stay consistent unless they are children of an ungated changed node -/
theorem cons_upd_other {g : G} {v : Lab} (c x : Nat) (b : Bool) (hx : x ≠ c)
    (hcons : Cons g v x) (h : g.gate c = true ∨ c ∉ g.parents x) : Cons g (upd v c b) x := by
  rcases hcons with hk | hv
  · exact Or.inl hk
  · right
    rw [upd_other _ _ _ _ hx, hv]
    symm
    apply F_congr x (upd_other _ _ _ _ hx)
    intro p hp
    by_cases hpc : p = c
    · subst hpc
      rcases h with hg | hn
      · simp [eff, hg]
      · exact absurd hp hn
    · simp [eff, upd_other _ _ _ _ hpc]



structure Post (g : G) (v v' : Lab) : Prop where
  le : Apriori.le v' v
  inv : Inv1 g v'
  gfp : ∀ w, Apriori.le w v → PostFix g w → Apriori.le w v'
  const : ∀ x, g.kind x = constK → v' x = v x

theorem Post.refl {g : G} {v : Lab} (hI : Inv1 g v) : Post g v v :=
  ⟨le_refl' v, hI, fun _ h _ => h, fun _ _ => rfl⟩

theorem Post.trans {g : G} {v v1 v2 : Lab} (h1 : Post g v v1) (h2 : Post g v1 v2) : Post g v v2 :=
  ⟨le_trans' h2.le h1.le, h2.inv, fun w hw hpf => h2.gfp w (h1.gfp w hw hpf) hpf,
   fun x hk => by rw [h2.const x hk, h1.const x hk]⟩

theorem cnt_le_of_le (ns : List Nat) {v' v : Lab} (h : le v' v) : cnt ns v' ≤ cnt ns v := by
  unfold cnt
  induction ns with
  | nil => simp
  | cons a t ih =>
    simp only [List.filter_cons]
    cases hv' : v' a with
    | false =>
      cases hv : v a with
      | false => simpa using ih
      | true => simp only [Bool.false_eq_true, if_false, if_true, List.length_cons]; omega
    | true =>
      have hv := h a hv'
      simp only [hv, if_true, List.length_cons]; omega

theorem cnt_lt_of_flip (ns : List Nat) {v' v : Lab} (h : le v' v) (c : Nat) (hc : c ∈ ns)
    (h1 : v c = true) (h2 : v' c = false) : cnt ns v' < cnt ns v := by
  induction ns with
  | nil => simp at hc
  | cons a t ih =>
    have hle := cnt_le_of_le t h
    unfold cnt at *
    simp only [List.filter_cons]
    by_cases hac : a = c
    · subst hac
      simp only [h1, h2, Bool.false_eq_true, if_false, if_true, List.length_cons]; omega
    · have hc' : c ∈ t := by
        rcases List.mem_cons.1 hc with h0 | h0
        · exact absurd h0.symm hac
        · exact h0
      have := ih hc'
      cases hv' : v' a with
      | false =>
        cases hv : v a with
        | false => simpa using this
        | true => simp only [Bool.false_eq_true, if_false, if_true, List.length_cons]; omega
      | true =>
        have hv := h a hv'
        simp only [hv, if_true, List.length_cons]; omega

/-- the body's assignment as a `Post` step -/
theorem post_upd {g : G} {v : Lab} (hC : Conv g) (hI : Inv1 g v) (nd c : Nat)
    (hc : c ∈ g.children nd) (hnd : eff g v nd = false) :
    Post g v (upd v c (recompute g v c)) :=
  ⟨le_upd hI c, inv1_upd hI c, fun _ hw hpf => postfix_upd hC nd c hc hnd hw hpf,
   fun x hk => by
     by_cases h : x = c
     · subst h; rw [upd_same]; unfold recompute; simp [hk]
     · exact upd_other _ _ _ _ h⟩

theorem main (g : G) (hC : Conv g) (ns : List Nat) (hcl : ∀ p c, c ∈ g.children p → c ∈ ns) :
    ∀ f,
      (∀ v node, Inv1 g v → cnt ns v < f → (g.gate node = true ∨ v node = false) →
        Post g v (prop g f v node) ∧
        ∀ x, (Cons g v x ∨ (g.gate node = false ∧ x ∈ g.children node)) → Cons g (prop g f v node) x)
      ∧
      (∀ v nd cs, Inv1 g v → cnt ns v ≤ f → eff g v nd = false → (∀ c ∈ cs, c ∈ g.children nd) →
        Post g v (loop g f v cs) ∧
        ∀ x, (Cons g v x ∨ x ∈ cs) → Cons g (loop g f v cs) x) := by
  intro f
  induction f with
  | zero =>
    have hprop : ∀ v node, Inv1 g v → cnt ns v < 0 → (g.gate node = true ∨ v node = false) →
        Post g v (prop g 0 v node) ∧
        ∀ x, (Cons g v x ∨ (g.gate node = false ∧ x ∈ g.children node)) → Cons g (prop g 0 v node) x :=
      fun _ _ _ h _ => absurd h (Nat.not_lt_zero _)
    exact ⟨hprop, loop_part g hC ns hcl 0 hprop⟩
  | succ f ih =>
    have hprop : ∀ v node, Inv1 g v → cnt ns v < f + 1 → (g.gate node = true ∨ v node = false) →
        Post g v (prop g (f+1) v node) ∧
        ∀ x, (Cons g v x ∨ (g.gate node = false ∧ x ∈ g.children node)) → Cons g (prop g (f+1) v node) x := by
      intro v node hI hcnt hpre
      rw [prop]
      cases hg : g.gate node with
      | true =>
        simp only [if_true]
        refine ⟨Post.refl hI, ?_⟩
        intro x hx
        rcases hx with h | ⟨h, _⟩
        · exact h
        · exact Bool.noConfusion h
      | false =>
        simp only [Bool.false_eq_true, if_false]
        have hv : v node = false := by
          rcases hpre with h | h
          · rw [hg] at h; exact Bool.noConfusion h
          · exact h
        have heff : eff g v node = false := by simp [eff, hg, hv]
        have := ih.2 v node (g.children node) hI (Nat.le_of_lt_succ hcnt) heff (fun c hc => hc)
        refine ⟨this.1, ?_⟩
        intro x hx
        apply this.2
        rcases hx with h | ⟨_, h⟩
        · exact Or.inl h
        · exact Or.inr h
    exact ⟨hprop, loop_part g hC ns hcl (f+1) hprop⟩
where
  loop_part (g : G) (hC : Conv g) (ns : List Nat) (hcl : ∀ p c, c ∈ g.children p → c ∈ ns) (f : Nat)
      (hprop : ∀ v node, Inv1 g v → cnt ns v < f → (g.gate node = true ∨ v node = false) →
        Post g v (prop g f v node) ∧
        ∀ x, (Cons g v x ∨ (g.gate node = false ∧ x ∈ g.children node)) → Cons g (prop g f v node) x) :
      ∀ v nd cs, Inv1 g v → cnt ns v ≤ f → eff g v nd = false → (∀ c ∈ cs, c ∈ g.children nd) →
        Post g v (loop g f v cs) ∧
        ∀ x, (Cons g v x ∨ x ∈ cs) → Cons g (loop g f v cs) x := by
    intro v nd cs
    induction cs generalizing v with
    | nil =>
      intro hI _ _ _
      rw [loop]
      exact ⟨Post.refl hI, fun x hx => by rcases hx with h | h; exact h; simp at h⟩
    | cons c cs ihcs =>
      intro hI hcnt hnd hsub
      rw [loop]
      have hc : c ∈ g.children nd := hsub c (by simp)
      have hP1 := post_upd hC hI nd c hc hnd
      have hCc := cons_upd_self hC hI nd c hc hnd
      -- the state after the (possible) recursive call
      have key : ∃ v2, v2 = (if (recompute g v c != v c) = true then prop g f (upd v c (recompute g v c)) c
                              else upd v c (recompute g v c)) ∧
          Post g v v2 ∧ ∀ x, (Cons g v x ∨ x = c) → Cons g v2 x := by
        refine ⟨_, rfl, ?_⟩
        by_cases hch : (recompute g v c != v c) = true
        · simp only [hch, if_true]
          have hne : recompute g v c ≠ v c := by simpa using hch
          have hvc : v c = true := by
            cases h : v c with
            | true => rfl
            | false =>
              cases h2 : recompute g v c with
              | false => exact absurd (h2.trans h.symm) hne
              | true => have := recompute_le hI c h2; rw [h] at this; exact this
          have hnew : recompute g v c = false := by
            cases h2 : recompute g v c with
            | false => rfl
            | true => exact absurd (h2.trans hvc.symm) hne
          have hlt : cnt ns (upd v c (recompute g v c)) < f :=
            Nat.lt_of_lt_of_le
              (cnt_lt_of_flip ns hP1.le c (hcl nd c hc) hvc (by rw [upd_same]; exact hnew)) hcnt
          have hrec := hprop (upd v c (recompute g v c)) c hP1.inv hlt
            (Or.inr (by rw [upd_same]; exact hnew))
          refine ⟨hP1.trans hrec.1, ?_⟩
          intro x hx
          apply hrec.2
          rcases hx with hx | hx
          · by_cases hxc : x = c
            · subst hxc; exact Or.inl hCc
            · by_cases hgate : g.gate c = true
              · exact Or.inl (cons_upd_other c x _ hxc hx (Or.inl hgate))
              · by_cases hpar : c ∈ g.parents x
                · right
                  refine ⟨by simpa using hgate, (hC x c).2 hpar⟩
                · exact Or.inl (cons_upd_other c x _ hxc hx (Or.inr hpar))
          · subst hx; exact Or.inl hCc
        · simp only [hch]
          have heq : recompute g v c = v c := by
            cases h1 : recompute g v c <;> cases h2 : v c <;> simp [h1, h2] at hch ⊢
          refine ⟨hP1, ?_⟩
          intro x hx
          rcases hx with hx | hx
          · rw [heq, upd_self]; exact hx
          · subst hx; exact hCc
      obtain ⟨v2, hv2, hP2, hC2⟩ := key
      rw [← hv2]
      have hle2 : cnt ns v2 ≤ f := Nat.le_trans (cnt_le_of_le ns hP2.le) hcnt
      have hnd2 : eff g v2 nd = false := eff_false_of_le hP2.le hnd
      have hrest := ihcs v2 hP2.inv hle2 hnd2 (fun c' hc' => hsub c' (by simp [hc']))
      refine ⟨hP2.trans hrest.1, ?_⟩
      intro x hx
      apply hrest.2
      rcases hx with hx | hx
      · exact Or.inl (hC2 x (Or.inl hx))
      · rcases List.mem_cons.1 hx with h0 | h0
        · exact Or.inl (hC2 x (Or.inr h0))
        · exact Or.inr h0

end MalVerif.Apriori
