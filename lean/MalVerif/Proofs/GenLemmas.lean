import MalVerif.Model.Gen
import MalVerif.Proofs.InheritLemmas
/-!
# Lemmas about the first loop of attack-graph generation (used by `Props/C02.lean`)
-/
namespace MalVerif

/-! ## lists -/

/-- a function that is injective on the members of a duplicate-free list maps
it to a duplicate-free list -/
theorem nodup_map_of_inj_on {α β : Type} {f : α → β} {l : List α} (h : l.Nodup)
    (hinj : ∀ a ∈ l, ∀ b ∈ l, f a = f b → a = b) : (l.map f).Nodup := by
  unfold List.Nodup at *
  rw [List.pairwise_map]
  exact List.Pairwise.imp_of_mem (fun ha hb hne heq => hne (hinj _ ha _ hb heq)) h

/-- if the images are pairwise distinct, the function is injective on the members -/
theorem inj_on_of_nodup_map {α β : Type} {f : α → β} {l : List α} (h : (l.map f).Nodup) :
    ∀ a ∈ l, ∀ b ∈ l, f a = f b → a = b := by
  induction l with
  | nil => intro a ha; cases ha
  | cons x l ih =>
    rw [List.map_cons, List.nodup_cons] at h
    intro a ha b hb hab
    rcases List.mem_cons.1 ha with ha' | ha' <;> rcases List.mem_cons.1 hb with hb' | hb'
    · rw [ha', hb']
    · subst ha'
      have : f a ∈ l.map f := List.mem_map.2 ⟨b, hb', hab.symm⟩
      exact absurd this h.1
    · subst hb'
      have : f b ∈ l.map f := List.mem_map.2 ⟨a, ha', hab⟩
      exact absurd this h.1
    · exact ih h.2 a ha' b hb' hab

theorem nodup_of_nodup_map {α β : Type} {f : α → β} {l : List α} (h : (l.map f).Nodup) : l.Nodup := by
  unfold List.Nodup at *
  rw [List.pairwise_map] at h
  exact h.imp (fun hne heq => hne (congrArg f heq))

/-- composing with a function injective on the images keeps them distinct -/
theorem nodup_map_comp {α β γ : Type} {f : α → β} {g : β → γ} {l : List α} (h : (l.map f).Nodup)
    (hinj : ∀ a ∈ l, ∀ b ∈ l, g (f a) = g (f b) → f a = f b) : (l.map (fun a => g (f a))).Nodup := by
  have := nodup_map_of_inj_on (f := g) h (by
    intro x hx y hy hxy
    obtain ⟨a, ha, rfl⟩ := List.mem_map.1 hx
    obtain ⟨b, hb, rfl⟩ := List.mem_map.1 hy
    exact hinj a ha b hb hxy)
  simpa [List.map_map, Function.comp_def] using this

/-- pairs (key of the outer element, key of the inner element) of a dependent
product are distinct when outer keys are distinct and, for each outer element,
the inner keys are -/
theorem nodup_flatMap_pairs {α β κ κ' : Type} (l : List α) (f : α → List β) (key : α → κ) (g : β → κ')
    (hk : (l.map key).Nodup) (hg : ∀ a ∈ l, ((f a).map g).Nodup) :
    ((l.flatMap (fun a => (f a).map (fun e => (a, e)))).map (fun p => (key p.1, g p.2))).Nodup := by
  unfold List.Nodup at *
  rw [List.pairwise_map, List.pairwise_flatMap]
  rw [List.pairwise_map] at hk
  constructor
  · intro a ha
    rw [List.pairwise_map]
    have := hg a ha
    rw [List.pairwise_map] at this
    exact this.imp (fun hne heq => hne (by simpa using heq))
  · refine hk.imp ?_
    intro a b hne x hx y hy heq
    obtain ⟨e, _, rfl⟩ := List.mem_map.1 hx
    obtain ⟨e', _, rfl⟩ := List.mem_map.1 hy
    exact hne (by simpa using congrArg Prod.fst heq)

/-- splitting at the last occurrence of a separator is unambiguous -/
theorem split_last_unique {α : Type} (c : α) : ∀ (x x' y y' : List α),
    x ++ c :: y = x' ++ c :: y' → c ∉ y → c ∉ y' → x = x' ∧ y = y' := by
  intro x
  induction x with
  | nil =>
    intro x' y y' h hy hy'
    cases x' with
    | nil => simpa using h
    | cons a x' =>
      simp only [List.nil_append, List.cons_append, List.cons.injEq] at h
      exact absurd (h.2 ▸ List.mem_append_right x' (List.mem_cons_self)) hy
  | cons a x ih =>
    intro x' y y' h hy hy'
    cases x' with
    | nil =>
      simp only [List.nil_append, List.cons_append, List.cons.injEq] at h
      exact absurd (h.2 ▸ List.mem_append_right x (List.mem_cons_self)) hy'
    | cons b x' =>
      simp only [List.cons_append, List.cons.injEq] at h
      obtain ⟨h1, h2⟩ := ih x' y y' h.2 hy hy'
      exact ⟨by rw [h.1, h1], h2⟩

/-- `asset ':' step` determines both parts when the step name has no colon
(the asset name may contain colons) -/
theorem fullName_inj (a s b t : String) (h : a ++ ":" ++ s = b ++ ":" ++ t)
    (hs : ':' ∉ s.toList) (ht : ':' ∉ t.toList) : a = b ∧ s = t := by
  have h' := congrArg String.toList h
  simp only [String.toList_append, List.append_assoc] at h'
  have hc : ":".toList = [':'] := rfl
  rw [hc] at h'
  have := split_last_unique ':' a.toList b.toList s.toList t.toList (by simpa using h') hs ht
  exact ⟨String.toList_inj.1 this.1, String.toList_inj.1 this.2⟩

/-! ## `mkNode`, `genNodesFrom` -/

/-- everything `mkNode` stores -/
theorem mkNode_ok {L : Lang} {m : Inst} {i : Nat} {a : IAsset} {sn : String} {d : StepDecl} {n : GNode}
    (h : mkNode L m i a sn d = .ok n) :
    existStatus L m a d = .ok n.exist ∧
    n = { id := i, asset := a.id, assetName := a.name, step := sn, type := d.type,
          ttc := d.ttc, ttcName := d.ttcName, tags := d.tags, mitre := d.mitre,
          defense := if d.type = "defense" then
            some (((a.defenses.find? (·.1 = sn)).map (·.2)).getD (defaultDefense d)) else none,
          exist := n.exist,
          reaches := match d.reaches with | some r => r.exprs | none => [] } := by
  unfold mkNode at h
  cases he : existStatus L m a d with
  | error e => rw [he] at h; cases h
  | ok ex =>
    rw [he] at h
    have h' : n = _ := (Except.ok.inj h).symm
    subst h'
    exact ⟨rfl, rfl⟩

theorem genNodesFrom_nil (L : Lang) (m : Inst) (i : Nat) : genNodesFrom L m i [] = .ok [] := rfl

theorem genNodesFrom_cons_ok {L : Lang} {m : Inst} {i : Nat} {a : IAsset} {sn : String} {d : StepDecl}
    {rest : List (IAsset × String × StepDecl)} {ns : List GNode}
    (h : genNodesFrom L m i ((a, sn, d) :: rest) = .ok ns) :
    ∃ n ns', ns = n :: ns' ∧ mkNode L m i a sn d = .ok n ∧ genNodesFrom L m (i + 1) rest = .ok ns' := by
  rw [genNodesFrom] at h
  cases h1 : mkNode L m i a sn d with
  | error e => rw [h1] at h; cases h
  | ok n =>
    cases h2 : genNodesFrom L m (i + 1) rest with
    | error e => rw [h1, h2] at h; cases h
    | ok ns' =>
      rw [h1, h2] at h
      exact ⟨n, ns', (Except.ok.inj h).symm, rfl, rfl⟩

/-- the first loop: as many nodes as pairs, the `j`-th one built by `mkNode`
from the `j`-th pair with id `i + j` -/
theorem genNodesFrom_spec (L : Lang) (m : Inst) :
    ∀ (specs : List (IAsset × String × StepDecl)) (i : Nat) (ns : List GNode),
      genNodesFrom L m i specs = .ok ns →
      ns.length = specs.length ∧
      ∀ j (h : j < specs.length) (h' : j < ns.length),
        mkNode L m (i + j) specs[j].1 specs[j].2.1 specs[j].2.2 = .ok ns[j] := by
  intro specs
  induction specs with
  | nil =>
    intro i ns h
    rw [genNodesFrom_nil] at h
    cases h
    exact ⟨rfl, fun j h => absurd h (Nat.not_lt_zero j)⟩
  | cons p rest ih =>
    intro i ns h
    obtain ⟨a, sn, d⟩ := p
    obtain ⟨n, ns', rfl, h1, h2⟩ := genNodesFrom_cons_ok h
    obtain ⟨hl, hj⟩ := ih (i + 1) ns' h2
    refine ⟨by simp [hl], ?_⟩
    intro j h h'
    cases j with
    | zero => simpa using h1
    | succ j =>
      have := hj j (by simpa using h) (by simpa using h')
      simpa [Nat.add_assoc, Nat.add_comm 1 j] using this

/-- membership in `nodeSpecs` -/
theorem mem_nodeSpecs {L : Lang} {m : Inst} {p : IAsset × String × StepDecl} :
    p ∈ nodeSpecs L m ↔ ∃ a ∈ m.assets, ∃ e ∈ L.foldSteps a.type, p = (a, e.1, e.2) := by
  unfold nodeSpecs
  simp only [List.mem_flatMap, List.mem_map]
  constructor
  · rintro ⟨a, ha, e, he, rfl⟩; exact ⟨a, ha, e, he, rfl⟩
  · rintro ⟨a, ha, e, he, rfl⟩; exact ⟨a, ha, e, he, rfl⟩

/-- `nodeSpecs` as a dependent product, the shape `nodup_flatMap_pairs` expects -/
theorem nodeSpecs_eq (L : Lang) (m : Inst) :
    nodeSpecs L m =
      (m.assets.flatMap (fun a => (L.foldSteps a.type).map (fun e => (a, e)))).map
        (fun p => (p.1, p.2.1, p.2.2)) := by
  unfold nodeSpecs
  simp [List.map_flatMap, List.map_map, Function.comp_def]

/-- distinct asset keys give distinct (asset key, step name) pairs -/
theorem nodeSpecs_pairs_nodup {κ : Type} (L : Lang) (m : Inst) (key : IAsset → κ)
    (h : (m.assets.map key).Nodup) :
    ((nodeSpecs L m).map (fun p => (key p.1, p.2.1))).Nodup := by
  have := nodup_flatMap_pairs m.assets (fun a => L.foldSteps a.type) key (·.1) h
    (fun a _ => foldSteps_keys_nodup L a.type)
  rw [nodeSpecs_eq, List.map_map]
  exact this

end MalVerif
