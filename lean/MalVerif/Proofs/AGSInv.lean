import MalVerif.Spec.Consistent
/-!
# Helper lemmas for the structural invariant of the attack-graph state machine

The invariant `Consistent` itself, `link`, `Op`, `applyOp` are in `MalVerif/Spec/Consistent.lean`.  Here:

* lemmas on the association-list dictionaries `dget` / `dset` / `ddel`,
* `updN` / `updA` and folds of them, "erase `count` times = filter",
* frames (`Frame`, `KeepsData`) and congruence lemmas of the four parts of the invariant,
* per operation: the preservation lemma (primed names; the unprimed property-level
  statements are in `MalVerif/Props/C09.lean`, `C11.lean`, `C13.lean`) and a
  characterisation of the state afterwards (`RemovedNode`/`removeNode_spec`,
  `ra1_*` for `removeAttacker`, `addAttacker_ok`, `attach_spec`, `foldl_pruneStep`),
* histories (`applyOp_consistent`, `applyOp_namesExact`).
-/
namespace MalVerif.AGS
open MalVerif.AGraph

/-! ## dictionaries -/
section dict
variable {κ : Type} [DecidableEq κ]

theorem dget_nil (k : κ) : dget ([] : List (κ × Nat)) k = none := rfl

theorem dget_cons (e : κ × Nat) (d : List (κ × Nat)) (k : κ) :
    dget (e :: d) k = if e.1 = k then some e.2 else dget d k := by
  unfold dget
  by_cases h : e.1 = k <;> simp [h]

theorem dget_append_singleton_of_none (d : List (κ × Nat)) (k k' : κ) (v : Nat) (h : dget d k = none) :
    dget (d ++ [(k, v)]) k' = if k' = k then some v else dget d k' := by
  induction d with
  | nil =>
    rw [List.nil_append, dget_cons, dget_nil]
    by_cases hk : k' = k
    · simp [hk]
    · have : ¬ k = k' := fun e => hk e.symm
      simp [hk, this]
  | cons e d ih =>
    rw [dget_cons] at h
    by_cases he : e.1 = k
    · simp [he] at h
    · simp only [he, if_false] at h
      rw [List.cons_append, dget_cons, dget_cons, ih h]
      by_cases hk : e.1 = k'
      · have : ¬ k' = k := fun e' => he (hk.trans e')
        simp [hk, this]
      · simp [hk]

theorem dget_eq_none_of_any_false (d : List (κ × Nat)) (k : κ) (h : d.any (fun e => e.1 = k) = false) :
    dget d k = none := by
  induction d with
  | nil => rfl
  | cons e d ih =>
    rw [List.any_cons, Bool.or_eq_false_iff] at h
    rw [dget_cons, ih h.2]
    have : ¬ e.1 = k := by simpa using h.1
    simp [this]

theorem dget_map_replace (d : List (κ × Nat)) (k k' : κ) (v : Nat) :
    dget (d.map (fun e => if e.1 = k then (k, v) else e)) k' =
      if k' = k then (dget d k).map (fun _ => v) else dget d k' := by
  induction d with
  | nil => simp [dget_nil]
  | cons e d ih =>
    simp only [List.map_cons, dget_cons, ih]
    by_cases he : e.1 = k
    · by_cases hk : k' = k
      · simp [he, hk]
      · have : ¬ k = k' := fun e' => hk e'.symm
        simp [he, hk, this]
    · by_cases hk : k' = k
      · have : ¬ e.1 = k' := fun e' => he (e'.trans hk)
        simp [he, hk]
      · simp [he, hk]

theorem dget_isSome_of_any (d : List (κ × Nat)) (k : κ) (h : d.any (fun e => e.1 = k) = true) :
    (dget d k).isSome = true := by
  induction d with
  | nil => simp at h
  | cons e d ih =>
    rw [dget_cons]
    by_cases he : e.1 = k
    · simp [he]
    · rw [List.any_cons] at h
      simp only [he, decide_false, Bool.false_or] at h
      simp [he, ih h]

/-- reading a dictionary after a write -/
theorem dget_dset (d : List (κ × Nat)) (k k' : κ) (v : Nat) :
    dget (dset d k v) k' = if k' = k then some v else dget d k' := by
  unfold dset
  by_cases h : d.any (fun e => e.1 = k) = true
  · rw [if_pos h, dget_map_replace]
    by_cases hk : k' = k
    · have := dget_isSome_of_any d k h
      rw [Option.isSome_iff_exists] at this
      obtain ⟨a, ha⟩ := this
      simp [hk, ha]
    · simp [hk]
  · rw [if_neg h]
    exact dget_append_singleton_of_none d k k' v (dget_eq_none_of_any_false d k (Bool.eq_false_iff.2 h))

/-- reading a dictionary after a deletion -/
theorem dget_ddel (d : List (κ × Nat)) (k k' : κ) :
    dget (ddel d k) k' = if k' = k then none else dget d k' := by
  unfold ddel
  induction d with
  | nil => simp [dget_nil]
  | cons e d ih =>
    by_cases he : e.1 = k
    · rw [List.filter_cons_of_neg (by simp [he]), ih, dget_cons]
      by_cases hk : k' = k
      · simp [hk]
      · have : ¬ e.1 = k' := fun e' => hk (e'.symm.trans he)
        simp [hk, this]
    · rw [List.filter_cons_of_pos (by simp [he])]
      simp only [dget_cons, ih]
      by_cases hk : k' = k
      · have : ¬ e.1 = k' := fun e' => he (e'.trans hk)
        simp [hk, he]
      · simp [hk]

end dict

/-! ## `updN`, `updA` -/
section upd
variable (s : St) (r : Nat) (f : NodeObj → NodeObj) (g : AttObj → AttObj)

@[simp] theorem updN_nobj (x : Nat) : (updN s r f).nobj x = if x = r then f (s.nobj x) else s.nobj x := rfl
theorem updN_nobj_self : (updN s r f).nobj r = f (s.nobj r) := by simp
theorem updN_nobj_ne {x : Nat} (h : x ≠ r) : (updN s r f).nobj x = s.nobj x := by simp [h]
@[simp] theorem updN_aobj : (updN s r f).aobj = s.aobj := rfl
@[simp] theorem updN_nfresh : (updN s r f).nfresh = s.nfresh := rfl
@[simp] theorem updN_afresh : (updN s r f).afresh = s.afresh := rfl
@[simp] theorem updN_nodes : (updN s r f).nodes = s.nodes := rfl
@[simp] theorem updN_attackers : (updN s r f).attackers = s.attackers := rfl
@[simp] theorem updN_idIdx : (updN s r f).idIdx = s.idIdx := rfl
@[simp] theorem updN_nameIdx : (updN s r f).nameIdx = s.nameIdx := rfl
@[simp] theorem updN_attIdx : (updN s r f).attIdx = s.attIdx := rfl
@[simp] theorem updN_nextNode : (updN s r f).nextNode = s.nextNode := rfl
@[simp] theorem updN_nextAtt : (updN s r f).nextAtt = s.nextAtt := rfl

@[simp] theorem updA_aobj (x : Nat) : (updA s r g).aobj x = if x = r then g (s.aobj x) else s.aobj x := rfl
theorem updA_aobj_self : (updA s r g).aobj r = g (s.aobj r) := by simp
theorem updA_aobj_ne {x : Nat} (h : x ≠ r) : (updA s r g).aobj x = s.aobj x := by simp [h]
@[simp] theorem updA_nobj : (updA s r g).nobj = s.nobj := rfl
@[simp] theorem updA_nfresh : (updA s r g).nfresh = s.nfresh := rfl
@[simp] theorem updA_afresh : (updA s r g).afresh = s.afresh := rfl
@[simp] theorem updA_nodes : (updA s r g).nodes = s.nodes := rfl
@[simp] theorem updA_attackers : (updA s r g).attackers = s.attackers := rfl
@[simp] theorem updA_idIdx : (updA s r g).idIdx = s.idIdx := rfl
@[simp] theorem updA_nameIdx : (updA s r g).nameIdx = s.nameIdx := rfl
@[simp] theorem updA_attIdx : (updA s r g).attIdx = s.attIdx := rfl
@[simp] theorem updA_nextNode : (updA s r g).nextNode = s.nextNode := rfl
@[simp] theorem updA_nextAtt : (updA s r g).nextAtt = s.nextAtt := rfl
end upd

/-! ## iteration and folds of updates -/

/-- `f` applied `n` times -/
def iter {α : Type} (f : α → α) : Nat → α → α
  | 0, a => a
  | n + 1, a => iter f n (f a)

@[simp] theorem iter_zero {α : Type} (f : α → α) (a : α) : iter f 0 a = a := rfl
theorem iter_succ {α : Type} (f : α → α) (n : Nat) (a : α) : iter f (n + 1) a = iter f n (f a) := rfl

theorem foldl_inv {σ ι : Type} (P : σ → Prop) (f : σ → ι → σ) (l : List ι) (s : σ)
    (h : ∀ s x, x ∈ l → P s → P (f s x)) (h0 : P s) : P (l.foldl f s) := by
  induction l generalizing s with
  | nil => exact h0
  | cons x l ih =>
    rw [List.foldl_cons]
    exact ih _ (fun s y hy => h s y (List.mem_cons_of_mem _ hy)) (h s x List.mem_cons_self h0)

/-- a fold of one and the same update over a list of references -/
theorem foldl_updN (F : NodeObj → NodeObj) (l : List Nat) (s : St) :
    l.foldl (fun s c => updN s c F) s = { s with nobj := fun x => iter F (l.count x) (s.nobj x) } := by
  induction l generalizing s with
  | nil => rfl
  | cons c l ih =>
    rw [List.foldl_cons, ih]
    show ({ s with nobj := _ } : St) = _
    congr 1
    funext x
    by_cases h : x = c
    · subst h; simp [List.count_cons_self, iter_succ]
    · have : (c == x) = false := by simp [Ne.symm h]
      simp [h, List.count_cons, this]

theorem foldl_updA (G : AttObj → AttObj) (l : List Nat) (s : St) :
    l.foldl (fun s c => updA s c G) s = { s with aobj := fun x => iter G (l.count x) (s.aobj x) } := by
  induction l generalizing s with
  | nil => rfl
  | cons c l ih =>
    rw [List.foldl_cons, ih]
    show ({ s with aobj := _ } : St) = _
    congr 1
    funext x
    by_cases h : x = c
    · subst h; simp [List.count_cons_self, iter_succ]
    · have : (c == x) = false := by simp [Ne.symm h]
      simp [h, List.count_cons, this]

/-! ### erasing all occurrences -/

theorem filter_ne_erase (r : Nat) (l : List Nat) : (l.erase r).filter (· ≠ r) = l.filter (· ≠ r) := by
  induction l with
  | nil => rfl
  | cons x l ih =>
    by_cases h : x = r
    · subst h; simp
    · have : (x == r) = false := by simp [h]
      rw [List.erase_cons, this]
      simp only [Bool.false_eq_true, if_false, List.filter_cons, ih]

theorem iter_erase_eq_filter (r : Nat) (n : Nat) (l : List Nat) (h : l.count r = n) :
    iter (fun l => l.erase r) n l = l.filter (· ≠ r) := by
  induction n generalizing l with
  | zero =>
    rw [iter_zero]; symm
    rw [List.filter_eq_self]
    intro a ha
    have : r ∉ l := List.count_eq_zero.1 h
    simp only [decide_eq_true_eq]
    intro e; exact this (e ▸ ha)
  | succ n ih =>
    rw [iter_succ, ih, filter_ne_erase]
    rw [List.count_erase_self, h]; rfl

theorem count_filter_ne (r y : Nat) (l : List Nat) :
    (l.filter (· ≠ r)).count y = if y = r then 0 else l.count y := by
  by_cases h : y = r
  · subst h; simp [List.count_eq_zero]
  · rw [if_neg h, List.count_filter]; simp [h]

theorem mem_filter_ne (r y : Nat) (l : List Nat) : y ∈ l.filter (· ≠ r) ↔ y ∈ l ∧ y ≠ r := by
  simp [List.mem_filter]

theorem erase_eq_filter_of_nodup (r : Nat) (l : List Nat) (h : l.Nodup) : l.erase r = l.filter (· ≠ r) := by
  rw [h.erase_eq_filter]
  congr 1; funext x; by_cases h : x = r <;> simp [h]

theorem iter_eraseParents (r : Nat) (n : Nat) (o : NodeObj) :
    iter (fun x : NodeObj => { x with parents := x.parents.erase r }) n o =
      { o with parents := iter (fun l => l.erase r) n o.parents } := by
  induction n generalizing o with
  | zero => rfl
  | succ n ih => rw [iter_succ, ih]; rfl

theorem iter_eraseChildren (r : Nat) (n : Nat) (o : NodeObj) :
    iter (fun x : NodeObj => { x with children := x.children.erase r }) n o =
      { o with children := iter (fun l => l.erase r) n o.children } := by
  induction n generalizing o with
  | zero => rfl
  | succ n ih => rw [iter_succ, ih]; rfl

/-! ## frames: what an operation leaves untouched -/

/-- everything except the two object stores is unchanged -/
structure Frame (s s' : St) : Prop where
  nfresh : s'.nfresh = s.nfresh
  afresh : s'.afresh = s.afresh
  nodes : s'.nodes = s.nodes
  attackers : s'.attackers = s.attackers
  idIdx : s'.idIdx = s.idIdx
  nameIdx : s'.nameIdx = s.nameIdx
  attIdx : s'.attIdx = s.attIdx
  nextNode : s'.nextNode = s.nextNode
  nextAtt : s'.nextAtt = s.nextAtt

theorem Frame.refl (s : St) : Frame s s := ⟨rfl, rfl, rfl, rfl, rfl, rfl, rfl, rfl, rfl⟩
theorem Frame.trans {s s' s'' : St} (h : Frame s s') (h' : Frame s' s'') : Frame s s'' :=
  ⟨h'.nfresh.trans h.nfresh, h'.afresh.trans h.afresh, h'.nodes.trans h.nodes, h'.attackers.trans h.attackers,
   h'.idIdx.trans h.idIdx, h'.nameIdx.trans h.nameIdx, h'.attIdx.trans h.attIdx, h'.nextNode.trans h.nextNode,
   h'.nextAtt.trans h.nextAtt⟩
theorem Frame.updN (s : St) (r : Nat) (f : NodeObj → NodeObj) : Frame s (updN s r f) :=
  ⟨rfl, rfl, rfl, rfl, rfl, rfl, rfl, rfl, rfl⟩
theorem Frame.updA (s : St) (r : Nat) (f : AttObj → AttObj) : Frame s (updA s r f) :=
  ⟨rfl, rfl, rfl, rfl, rfl, rfl, rfl, rfl, rfl⟩
theorem Frame.foldl {ι : Type} (f : St → ι → St) (l : List ι) (s : St) (h : ∀ s x, Frame s (f s x)) :
    Frame s (l.foldl f s) := by
  induction l generalizing s with
  | nil => exact Frame.refl s
  | cons x l ih => exact (h s x).trans (ih _)

/-- the data fields of a node object (everything but the three reference lists) agree -/
structure SameData (o o' : NodeObj) : Prop where
  id : o'.id = o.id
  name : o'.name = o.name
  asset : o'.asset = o.asset
  type : o'.type = o.type
  viable : o'.viable = o.viable
  necessary : o'.necessary = o.necessary
  defOne : o'.defOne = o.defOne
  suppress : o'.suppress = o.suppress

theorem SameData.refl (o : NodeObj) : SameData o o := ⟨rfl, rfl, rfl, rfl, rfl, rfl, rfl, rfl⟩
theorem SameData.trans {o o' o'' : NodeObj} (h : SameData o o') (h' : SameData o' o'') : SameData o o'' :=
  ⟨h'.id.trans h.id, h'.name.trans h.name, h'.asset.trans h.asset, h'.type.trans h.type,
   h'.viable.trans h.viable, h'.necessary.trans h.necessary, h'.defOne.trans h.defOne, h'.suppress.trans h.suppress⟩

theorem fullName_congr {o o' : NodeObj} (hi : o'.id = o.id) (hn : o'.name = o.name) (ha : o'.asset = o.asset) :
    fullName o' = fullName o := by
  unfold fullName; rw [hi, hn, ha]
theorem SameData.fullName {o o' : NodeObj} (h : SameData o o') : fullName o' = fullName o :=
  fullName_congr h.id h.name h.asset
theorem SameData.prunable {o o' : NodeObj} (h : SameData o o') : prunable o' = prunable o := by
  unfold AGS.prunable; rw [h.type, h.viable, h.necessary]

/-- all node objects keep their data fields -/
def KeepsData (s s' : St) : Prop := ∀ x, SameData (s.nobj x) (s'.nobj x)
theorem KeepsData.refl (s : St) : KeepsData s s := fun _ => SameData.refl _
theorem KeepsData.trans {s s' s'' : St} (h : KeepsData s s') (h' : KeepsData s' s'') : KeepsData s s'' :=
  fun x => (h x).trans (h' x)
theorem KeepsData.updA (s : St) (r : Nat) (f : AttObj → AttObj) : KeepsData s (updA s r f) :=
  fun _ => SameData.refl _
theorem KeepsData.updN (s : St) (r : Nat) (f : NodeObj → NodeObj) (h : ∀ o, SameData o (f o)) :
    KeepsData s (updN s r f) := by
  intro x
  rw [updN_nobj]
  by_cases hx : x = r
  · rw [if_pos hx]; exact h _
  · rw [if_neg hx]; exact SameData.refl _
theorem KeepsData.foldl {ι : Type} (f : St → ι → St) (l : List ι) (s : St) (h : ∀ s x, KeepsData s (f s x)) :
    KeepsData s (l.foldl f s) := by
  induction l generalizing s with
  | nil => exact KeepsData.refl s
  | cons x l ih => exact (h s x).trans (ih _)

/-! ## congruence of the four parts of the invariant -/

theorem NodesOK.congr {s s' : St} (hn : s'.nodes = s.nodes) (hf : s'.nfresh = s.nfresh)
    (hc : ∀ x ∈ s.nodes, (s'.nobj x).children = (s.nobj x).children)
    (hp : ∀ x ∈ s.nodes, (s'.nobj x).parents = (s.nobj x).parents) (h : NodesOK s) : NodesOK s' := by
  constructor
  · rw [hn]; exact h.nodup
  · rw [hn, hf]; exact h.fresh
  · rw [hn]; intro p hpm c hcm; rw [hc p hpm] at hcm; exact h.children_mem p hpm c hcm
  · rw [hn]; intro c hcm p hpm; rw [hp c hcm] at hpm; exact h.parents_mem c hcm p hpm
  · rw [hn]; intro p hpm c hcm; rw [hc p hpm, hp c hcm]; exact h.mirror p hpm c hcm

theorem IdxOK.congr {s s' : St} (hn : s'.nodes = s.nodes) (hi : s'.idIdx = s.idIdx) (hm : s'.nameIdx = s.nameIdx)
    (hx : s'.nextNode = s.nextNode)
    (hid : ∀ x ∈ s.nodes, (s'.nobj x).id = (s.nobj x).id)
    (hfn : ∀ x ∈ s.nodes, fullName (s'.nobj x) = fullName (s.nobj x)) (h : IdxOK s) : IdxOK s' := by
  constructor
  · intro k r; rw [hi, hn, h.id_exact]
    constructor
    · intro ⟨a, b⟩; exact ⟨a, (hid r a).trans b⟩
    · intro ⟨a, b⟩; exact ⟨a, (hid r a).symm.trans b⟩
  · rw [hn, hx]; intro r hr; rw [hid r hr]; exact h.id_lt_next r hr
  · intro k r; rw [hm, hn]; intro hk
    have := h.name_sound k r hk
    exact ⟨this.1, (hfn r this.1).trans this.2⟩

theorem NamesExact.congr {s s' : St} (hn : s'.nodes = s.nodes) (hm : s'.nameIdx = s.nameIdx)
    (hfn : ∀ x ∈ s.nodes, fullName (s'.nobj x) = fullName (s.nobj x)) (h : NamesExact s) : NamesExact s' := by
  intro k r; rw [hm, hn, h k r]
  constructor
  · intro ⟨a, b⟩; exact ⟨a, (hfn r a).trans b⟩
  · intro ⟨a, b⟩; exact ⟨a, (hfn r a).symm.trans b⟩

theorem AttIdxOK.congr {s s' : St} (ha : s'.attackers = s.attackers) (hf : s'.afresh = s.afresh)
    (hi : s'.attIdx = s.attIdx) (hx : s'.nextAtt = s.nextAtt)
    (hid : ∀ a ∈ s.attackers, (s'.aobj a).id = (s.aobj a).id) (h : AttIdxOK s) : AttIdxOK s' := by
  constructor
  · rw [ha]; exact h.nodup
  · rw [ha, hf]; exact h.fresh
  · intro k r; rw [hi, ha, h.id_exact]
    constructor
    · intro ⟨a, b⟩; exact ⟨a, (hid r a).trans b⟩
    · intro ⟨a, b⟩; exact ⟨a, (hid r a).symm.trans b⟩
  · rw [ha, hx]; intro r hr; rw [hid r hr]; exact h.id_lt_next r hr

theorem CompOK.congr {s s' : St} (hn : s'.nodes = s.nodes) (ha : s'.attackers = s.attackers)
    (hc : ∀ x ∈ s.nodes, (s'.nobj x).compBy = (s.nobj x).compBy)
    (hr : ∀ a ∈ s.attackers, (s'.aobj a).reached = (s.aobj a).reached)
    (he : ∀ a ∈ s.attackers, (s'.aobj a).entry = (s.aobj a).entry) (h : CompOK s) : CompOK s' := by
  constructor
  · rw [ha, hn]; intro a ham; rw [hr a ham]; exact h.reached_mem a ham
  · rw [ha, hn]; intro a ham; rw [he a ham]; exact h.entry_mem a ham
  · rw [ha, hn]; intro n hnm; rw [hc n hnm]; exact h.compBy_mem n hnm
  · rw [ha]; intro a ham; rw [hr a ham]; exact h.reached_nodup a ham
  · rw [hn]; intro n hnm; rw [hc n hnm]; exact h.compBy_nodup n hnm
  · rw [ha, hn]; intro a ham n hnm; rw [hr a ham, hc n hnm]; exact h.mirror a ham n hnm

/-- a step that touches none of the reference lists, ids, full names keeps the invariant -/
theorem Consistent.of_frame {s s' : St} (hf : Frame s s')
    (hid : ∀ x, (s'.nobj x).id = (s.nobj x).id)
    (hfn : ∀ x, fullName (s'.nobj x) = fullName (s.nobj x))
    (hc : ∀ x, (s'.nobj x).children = (s.nobj x).children)
    (hp : ∀ x, (s'.nobj x).parents = (s.nobj x).parents)
    (hb : ∀ x, (s'.nobj x).compBy = (s.nobj x).compBy)
    (ha : s'.aobj = s.aobj) (h : Consistent s) : Consistent s' :=
  ⟨h.nodes.congr hf.nodes hf.nfresh (fun x _ => hc x) (fun x _ => hp x),
   h.idx.congr hf.nodes hf.idIdx hf.nameIdx hf.nextNode (fun x _ => hid x) (fun x _ => hfn x),
   h.attIdx.congr hf.attackers hf.afresh hf.attIdx hf.nextAtt (fun a _ => by rw [ha]),
   h.comp.congr hf.nodes hf.attackers (fun x _ => hb x) (fun a _ => by rw [ha]) (fun a _ => by rw [ha])⟩

/-! ## the empty graph -/
theorem init_consistent' : Consistent {} := by
  refine ⟨⟨List.nodup_nil, ?_, ?_, ?_, ?_⟩, ⟨?_, ?_, ?_⟩, ⟨List.nodup_nil, ?_, ?_, ?_⟩, ⟨?_, ?_, ?_, ?_, ?_, ?_⟩⟩
  all_goals first
    | (intro k r; simp [dget_nil]; done)
    | (intro r hr; simp at hr; done)
theorem init_namesExact : NamesExact {} := by
  intro k r; simp [dget_nil]

/-! ## `setLabels` -/
theorem setLabels_frame (s : St) (lab : List (Nat × Bool × Bool)) : Frame s (setLabels s lab) :=
  Frame.foldl _ _ _ (fun s x => Frame.updN s x.1 _)

theorem updN_labels_consistent (s : St) (r : Nat) (v n : Bool) (h : Consistent s) :
    Consistent (updN s r (fun o => { o with viable := v, necessary := n })) := by
  refine Consistent.of_frame (Frame.updN s r _) ?_ ?_ ?_ ?_ ?_ rfl h
  all_goals
    intro x
    rw [updN_nobj]
    split <;> rfl

theorem setLabels_consistent' (s : St) (lab : List (Nat × Bool × Bool)) (h : Consistent s) :
    Consistent (setLabels s lab) := by
  unfold setLabels
  refine foldl_inv Consistent _ lab s ?_ h
  intro s x _ hs
  exact updN_labels_consistent s x.1 x.2.1 x.2.2 hs

theorem setLabels_namesExact (s : St) (lab : List (Nat × Bool × Bool)) (h : NamesExact s) :
    NamesExact (setLabels s lab) := by
  unfold setLabels
  refine foldl_inv NamesExact _ lab s ?_ h
  intro s x _ hs
  obtain ⟨r, v, n⟩ := x
  refine NamesExact.congr (s := s) (s' := updN s r _) rfl rfl ?_ hs
  intro y _
  rw [updN_nobj]
  split <;> rfl

/-! ## `link` -/
section link
variable (s : St) (p c : Nat)

theorem link_frame : Frame s (link s p c) := (Frame.updN _ _ _).trans (Frame.updN _ _ _)
theorem link_aobj : (link s p c).aobj = s.aobj := rfl
theorem link_keepsData : KeepsData s (link s p c) := by
  intro x
  unfold link
  simp only [updN_nobj]
  split <;> split <;> exact ⟨rfl, rfl, rfl, rfl, rfl, rfl, rfl, rfl⟩

theorem link_children (x : Nat) :
    ((link s p c).nobj x).children = if x = p then (s.nobj x).children ++ [c] else (s.nobj x).children := by
  unfold link
  simp only [updN_nobj]
  split <;> split <;> rfl

theorem link_parents (x : Nat) :
    ((link s p c).nobj x).parents = if x = c then (s.nobj x).parents ++ [p] else (s.nobj x).parents := by
  unfold link
  simp only [updN_nobj]
  split <;> split <;> rfl

theorem link_compBy (x : Nat) : ((link s p c).nobj x).compBy = (s.nobj x).compBy := by
  unfold link
  simp only [updN_nobj]
  split <;> split <;> rfl

theorem link_count_children (x y : Nat) :
    ((link s p c).nobj x).children.count y = (s.nobj x).children.count y + if x = p ∧ y = c then 1 else 0 := by
  rw [link_children]
  by_cases h1 : x = p
  · rw [if_pos h1, List.count_append, List.count_singleton]
    by_cases h2 : y = c
    · simp [h1, h2]
    · have : ¬ c = y := fun e => h2 e.symm
      simp [h2, this]
  · simp [h1]

theorem link_count_parents (x y : Nat) :
    ((link s p c).nobj y).parents.count x = (s.nobj y).parents.count x + if x = p ∧ y = c then 1 else 0 := by
  rw [link_parents]
  by_cases h1 : y = c
  · rw [if_pos h1, List.count_append, List.count_singleton]
    by_cases h2 : x = p
    · simp [h1, h2]
    · have : ¬ p = x := fun e => h2 e.symm
      simp [h2, this]
  · simp [h1]

theorem link_nodesOK (h : NodesOK s) (hp : p ∈ s.nodes) (hc : c ∈ s.nodes) : NodesOK (link s p c) := by
  constructor
  · exact h.nodup
  · exact h.fresh
  · intro x hx y hy
    rw [link_children] at hy
    by_cases h1 : x = p
    · rw [if_pos h1, List.mem_append, List.mem_singleton] at hy
      rcases hy with hy | hy
      · exact h.children_mem x hx y hy
      · rw [hy]; exact hc
    · rw [if_neg h1] at hy; exact h.children_mem x hx y hy
  · intro x hx y hy
    rw [link_parents] at hy
    by_cases h1 : x = c
    · rw [if_pos h1, List.mem_append, List.mem_singleton] at hy
      rcases hy with hy | hy
      · exact h.parents_mem x hx y hy
      · rw [hy]; exact hp
    · rw [if_neg h1] at hy; exact h.parents_mem x hx y hy
  · intro x hx y hy
    rw [link_count_children, link_count_parents, h.mirror x hx y hy]

theorem link_consistent' (h : Consistent s) (hp : p ∈ s.nodes) (hc : c ∈ s.nodes) : Consistent (link s p c) :=
  have hf := link_frame s p c
  have hd := link_keepsData s p c
  ⟨link_nodesOK s p c h.nodes hp hc,
   h.idx.congr hf.nodes hf.idIdx hf.nameIdx hf.nextNode (fun x _ => (hd x).id) (fun x _ => (hd x).fullName),
   h.attIdx.congr hf.attackers hf.afresh hf.attIdx hf.nextAtt (fun _ _ => rfl),
   h.comp.congr hf.nodes hf.attackers (fun x _ => link_compBy s p c x) (fun _ _ => rfl) (fun _ _ => rfl)⟩

theorem link_namesExact (h : NamesExact s) : NamesExact (link s p c) :=
  NamesExact.congr (s := s) (s' := link s p c) rfl rfl (fun x _ => (link_keepsData s p c x).fullName) h
end link

/-! ## `compromise` and `undo` -/

/-- the effective branch of `compromise` -/
def compStep (s : St) (a n : Nat) : St :=
  updA (updN s n (fun o => { o with compBy := o.compBy ++ [a] })) a (fun o => { o with reached := o.reached ++ [n] })
/-- the effective branch of `undo` -/
def undoStep (s : St) (a n : Nat) : St :=
  updA (updN s n (fun o => { o with compBy := o.compBy.erase a })) a (fun o => { o with reached := o.reached.erase n })

theorem compromise_of_mem {s : St} {a n : Nat} (h : a ∈ (s.nobj n).compBy) : compromise s a n = s := by
  unfold compromise; simp [h]
theorem compromise_of_not_mem {s : St} {a n : Nat} (h : a ∉ (s.nobj n).compBy) :
    compromise s a n = compStep s a n := by
  unfold compromise compStep; simp [h]
theorem undo_of_not_mem {s : St} {a n : Nat} (h : a ∉ (s.nobj n).compBy) : undo s a n = s := by
  unfold undo; simp [h]
theorem undo_of_mem {s : St} {a n : Nat} (h : a ∈ (s.nobj n).compBy) : undo s a n = undoStep s a n := by
  unfold undo undoStep; simp [h]

theorem compromise_cases (s : St) (a n : Nat) : compromise s a n = s ∨ compromise s a n = compStep s a n := by
  by_cases h : a ∈ (s.nobj n).compBy
  · exact Or.inl (compromise_of_mem h)
  · exact Or.inr (compromise_of_not_mem h)
theorem undo_cases (s : St) (a n : Nat) : undo s a n = s ∨ undo s a n = undoStep s a n := by
  by_cases h : a ∈ (s.nobj n).compBy
  · exact Or.inr (undo_of_mem h)
  · exact Or.inl (undo_of_not_mem h)

section steps
variable (s : St) (a n : Nat)

theorem compStep_frame : Frame s (compStep s a n) := (Frame.updN _ _ _).trans (Frame.updA _ _ _)
theorem undoStep_frame : Frame s (undoStep s a n) := (Frame.updN _ _ _).trans (Frame.updA _ _ _)
theorem compStep_keepsData : KeepsData s (compStep s a n) := by
  intro x; unfold compStep; simp only [updA_nobj, updN_nobj]
  split <;> exact ⟨rfl, rfl, rfl, rfl, rfl, rfl, rfl, rfl⟩
theorem undoStep_keepsData : KeepsData s (undoStep s a n) := by
  intro x; unfold undoStep; simp only [updA_nobj, updN_nobj]
  split <;> exact ⟨rfl, rfl, rfl, rfl, rfl, rfl, rfl, rfl⟩

theorem compromise_frame : Frame s (compromise s a n) := by
  rcases compromise_cases s a n with h | h <;> rw [h]
  · exact Frame.refl s
  · exact compStep_frame s a n
theorem undo_frame : Frame s (undo s a n) := by
  rcases undo_cases s a n with h | h <;> rw [h]
  · exact Frame.refl s
  · exact undoStep_frame s a n
theorem compromise_keepsData : KeepsData s (compromise s a n) := by
  rcases compromise_cases s a n with h | h <;> rw [h]
  · exact KeepsData.refl s
  · exact compStep_keepsData s a n
theorem undo_keepsData : KeepsData s (undo s a n) := by
  rcases undo_cases s a n with h | h <;> rw [h]
  · exact KeepsData.refl s
  · exact undoStep_keepsData s a n

theorem compStep_children (x : Nat) : ((compStep s a n).nobj x).children = (s.nobj x).children := by
  unfold compStep; simp only [updA_nobj, updN_nobj]; split <;> rfl
theorem compStep_parents (x : Nat) : ((compStep s a n).nobj x).parents = (s.nobj x).parents := by
  unfold compStep; simp only [updA_nobj, updN_nobj]; split <;> rfl
theorem compStep_compBy (x : Nat) :
    ((compStep s a n).nobj x).compBy = if x = n then (s.nobj x).compBy ++ [a] else (s.nobj x).compBy := by
  unfold compStep; simp only [updA_nobj, updN_nobj]; split <;> rfl
theorem compStep_reached (x : Nat) :
    ((compStep s a n).aobj x).reached = if x = a then (s.aobj x).reached ++ [n] else (s.aobj x).reached := by
  unfold compStep; simp only [updA_aobj, updN_aobj]; split <;> rfl
theorem compStep_entry (x : Nat) : ((compStep s a n).aobj x).entry = (s.aobj x).entry := by
  unfold compStep; simp only [updA_aobj, updN_aobj]; split <;> rfl
theorem compStep_aid (x : Nat) : ((compStep s a n).aobj x).id = (s.aobj x).id := by
  unfold compStep; simp only [updA_aobj, updN_aobj]; split <;> rfl
theorem compStep_aname (x : Nat) : ((compStep s a n).aobj x).name = (s.aobj x).name := by
  unfold compStep; simp only [updA_aobj, updN_aobj]; split <;> rfl

theorem undoStep_children (x : Nat) : ((undoStep s a n).nobj x).children = (s.nobj x).children := by
  unfold undoStep; simp only [updA_nobj, updN_nobj]; split <;> rfl
theorem undoStep_parents (x : Nat) : ((undoStep s a n).nobj x).parents = (s.nobj x).parents := by
  unfold undoStep; simp only [updA_nobj, updN_nobj]; split <;> rfl
theorem undoStep_compBy (x : Nat) :
    ((undoStep s a n).nobj x).compBy = if x = n then (s.nobj x).compBy.erase a else (s.nobj x).compBy := by
  unfold undoStep; simp only [updA_nobj, updN_nobj]; split <;> rfl
theorem undoStep_reached (x : Nat) :
    ((undoStep s a n).aobj x).reached = if x = a then (s.aobj x).reached.erase n else (s.aobj x).reached := by
  unfold undoStep; simp only [updA_aobj, updN_aobj]; split <;> rfl
theorem undoStep_entry (x : Nat) : ((undoStep s a n).aobj x).entry = (s.aobj x).entry := by
  unfold undoStep; simp only [updA_aobj, updN_aobj]; split <;> rfl
theorem undoStep_aid (x : Nat) : ((undoStep s a n).aobj x).id = (s.aobj x).id := by
  unfold undoStep; simp only [updA_aobj, updN_aobj]; split <;> rfl
theorem undoStep_aname (x : Nat) : ((undoStep s a n).aobj x).name = (s.aobj x).name := by
  unfold undoStep; simp only [updA_aobj, updN_aobj]; split <;> rfl

theorem compStep_mem_reached (b m : Nat) :
    m ∈ ((compStep s a n).aobj b).reached ↔ (m ∈ (s.aobj b).reached ∨ (b = a ∧ m = n)) := by
  rw [compStep_reached]
  by_cases h : b = a
  · rw [if_pos h, List.mem_append, List.mem_singleton]; simp [h]
  · rw [if_neg h]; simp [h]
theorem compStep_mem_compBy (b m : Nat) :
    b ∈ ((compStep s a n).nobj m).compBy ↔ (b ∈ (s.nobj m).compBy ∨ (b = a ∧ m = n)) := by
  rw [compStep_compBy]
  by_cases h : m = n
  · rw [if_pos h, List.mem_append, List.mem_singleton]; simp [h]
  · rw [if_neg h]; simp [h]

theorem undoStep_mem_reached (b m : Nat) (hnd : (s.aobj a).reached.Nodup) :
    m ∈ ((undoStep s a n).aobj b).reached ↔ (m ∈ (s.aobj b).reached ∧ ¬ (b = a ∧ m = n)) := by
  rw [undoStep_reached]
  by_cases h : b = a
  · rw [if_pos h, h, hnd.mem_erase_iff]; simp [and_comm]
  · rw [if_neg h]; simp [h]
theorem undoStep_mem_compBy (b m : Nat) (hnd : (s.nobj n).compBy.Nodup) :
    b ∈ ((undoStep s a n).nobj m).compBy ↔ (b ∈ (s.nobj m).compBy ∧ ¬ (b = a ∧ m = n)) := by
  rw [undoStep_compBy]
  by_cases h : m = n
  · rw [if_pos h, h, hnd.mem_erase_iff]; simp [and_comm]
  · rw [if_neg h]; simp [h]

theorem compStep_compOK (h : CompOK s) (ha : a ∈ s.attackers) (hn : n ∈ s.nodes) (hnot : a ∉ (s.nobj n).compBy) :
    CompOK (compStep s a n) := by
  have hnr : n ∉ (s.aobj a).reached := fun hm => hnot ((h.mirror a ha n hn).1 hm)
  constructor
  · intro b hb m hm
    rcases (compStep_mem_reached s a n b m).1 hm with hm | ⟨_, hm⟩
    · exact h.reached_mem b hb m hm
    · rw [hm]; exact hn
  · intro b hb m hm
    rw [compStep_entry] at hm; exact h.entry_mem b hb m hm
  · intro m hm b hb
    rcases (compStep_mem_compBy s a n b m).1 hb with hb | ⟨hb, _⟩
    · exact h.compBy_mem m hm b hb
    · rw [hb]; exact ha
  · intro b hb
    rw [compStep_reached]
    by_cases hba : b = a
    · rw [if_pos hba, hba, List.nodup_append]
      refine ⟨h.reached_nodup a ha, (by simp), ?_⟩
      intro x hx y hy
      rw [List.mem_singleton] at hy
      intro e; exact hnr (hy ▸ e ▸ hx)
    · rw [if_neg hba]; exact h.reached_nodup b hb
  · intro m hm
    rw [compStep_compBy]
    by_cases hmn : m = n
    · rw [if_pos hmn, hmn, List.nodup_append]
      refine ⟨h.compBy_nodup n hn, (by simp), ?_⟩
      intro x hx y hy
      rw [List.mem_singleton] at hy
      intro e; exact hnot (hy ▸ e ▸ hx)
    · rw [if_neg hmn]; exact h.compBy_nodup m hm
  · intro b hb m hm
    rw [compStep_mem_reached, compStep_mem_compBy]
    exact or_congr (h.mirror b hb m hm) Iff.rfl

theorem undoStep_compOK (h : CompOK s) (ha : a ∈ s.attackers) (hn : n ∈ s.nodes) :
    CompOK (undoStep s a n) := by
  have nd1 := h.reached_nodup a ha
  have nd2 := h.compBy_nodup n hn
  constructor
  · intro b hb m hm
    exact h.reached_mem b hb m ((undoStep_mem_reached s a n b m nd1).1 hm).1
  · intro b hb m hm
    rw [undoStep_entry] at hm; exact h.entry_mem b hb m hm
  · intro m hm b hb
    exact h.compBy_mem m hm b ((undoStep_mem_compBy s a n b m nd2).1 hb).1
  · intro b hb
    rw [undoStep_reached]
    by_cases hba : b = a
    · rw [if_pos hba, hba]; exact nd1.erase n
    · rw [if_neg hba]; exact h.reached_nodup b hb
  · intro m hm
    rw [undoStep_compBy]
    by_cases hmn : m = n
    · rw [if_pos hmn, hmn]; exact nd2.erase a
    · rw [if_neg hmn]; exact h.compBy_nodup m hm
  · intro b hb m hm
    rw [undoStep_mem_reached s a n b m nd1, undoStep_mem_compBy s a n b m nd2]
    exact and_congr (h.mirror b hb m hm) Iff.rfl

theorem compStep_consistent (h : Consistent s) (ha : a ∈ s.attackers) (hn : n ∈ s.nodes)
    (hnot : a ∉ (s.nobj n).compBy) : Consistent (compStep s a n) :=
  have hf := compStep_frame s a n
  have hd := compStep_keepsData s a n
  ⟨h.nodes.congr hf.nodes hf.nfresh (fun x _ => compStep_children s a n x) (fun x _ => compStep_parents s a n x),
   h.idx.congr hf.nodes hf.idIdx hf.nameIdx hf.nextNode (fun x _ => (hd x).id) (fun x _ => (hd x).fullName),
   h.attIdx.congr hf.attackers hf.afresh hf.attIdx hf.nextAtt (fun x _ => compStep_aid s a n x),
   compStep_compOK s a n h.comp ha hn hnot⟩

theorem undoStep_consistent (h : Consistent s) (ha : a ∈ s.attackers) (hn : n ∈ s.nodes) :
    Consistent (undoStep s a n) :=
  have hf := undoStep_frame s a n
  have hd := undoStep_keepsData s a n
  ⟨h.nodes.congr hf.nodes hf.nfresh (fun x _ => undoStep_children s a n x) (fun x _ => undoStep_parents s a n x),
   h.idx.congr hf.nodes hf.idIdx hf.nameIdx hf.nextNode (fun x _ => (hd x).id) (fun x _ => (hd x).fullName),
   h.attIdx.congr hf.attackers hf.afresh hf.attIdx hf.nextAtt (fun x _ => undoStep_aid s a n x),
   undoStep_compOK s a n h.comp ha hn⟩

theorem compromise_consistent' (h : Consistent s) (ha : a ∈ s.attackers) (hn : n ∈ s.nodes) :
    Consistent (compromise s a n) := by
  by_cases hm : a ∈ (s.nobj n).compBy
  · rw [compromise_of_mem hm]; exact h
  · rw [compromise_of_not_mem hm]; exact compStep_consistent s a n h ha hn hm

theorem undo_consistent' (h : Consistent s) (ha : a ∈ s.attackers) (hn : n ∈ s.nodes) :
    Consistent (undo s a n) := by
  by_cases hm : a ∈ (s.nobj n).compBy
  · rw [undo_of_mem hm]; exact undoStep_consistent s a n h ha hn
  · rw [undo_of_not_mem hm]; exact h

theorem compromise_namesExact (h : NamesExact s) : NamesExact (compromise s a n) :=
  NamesExact.congr (s := s) (s' := compromise s a n) (compromise_frame s a n).nodes (compromise_frame s a n).nameIdx
    (fun x _ => (compromise_keepsData s a n x).fullName) h
theorem undo_namesExact (h : NamesExact s) : NamesExact (undo s a n) :=
  NamesExact.congr (s := s) (s' := undo s a n) (undo_frame s a n).nodes (undo_frame s a n).nameIdx
    (fun x _ => (undo_keepsData s a n x).fullName) h

end steps

/-! ## `addNode` -/

/-- the state after a successful `addNode` with the (given or generated) id `k` -/
def addNodeSt (s : St) (o : NodeObj) (k : Int) : St :=
  { s with
    nobj := fun x => if x = s.nfresh then { o with id := k } else s.nobj x
    nfresh := s.nfresh + 1
    nextNode := max (k + 1) s.nextNode
    nodes := s.nodes ++ [s.nfresh]
    idIdx := dset s.idIdx k s.nfresh
    nameIdx := dset s.nameIdx (fullName { o with id := k }) s.nfresh }

theorem addNode_eq (s : St) (o : NodeObj) (id : Option Int) :
    addNode s o id = if (dget s.idIdx (id.getD s.nextNode)).isSome then .error .valueError
      else .ok (addNodeSt s o (id.getD s.nextNode)) := rfl

theorem addNode_ok {s s' : St} {o : NodeObj} {id : Option Int} (h : addNode s o id = .ok s') :
    dget s.idIdx (id.getD s.nextNode) = none ∧ s' = addNodeSt s o (id.getD s.nextNode) := by
  rw [addNode_eq] at h
  by_cases hd : (dget s.idIdx (id.getD s.nextNode)).isSome = true
  · rw [if_pos hd] at h; cases h
  · rw [if_neg hd] at h
    injection h with h
    exact ⟨by simpa using hd, h.symm⟩

theorem addNode_error_of_used (s : St) (o : NodeObj) (id : Option Int)
    (h : (dget s.idIdx (id.getD s.nextNode)).isSome = true) : addNode s o id = .error .valueError := by
  rw [addNode_eq, if_pos h]

section addNode
variable (s : St) (o : NodeObj) (k : Int)

theorem addNodeSt_nobj_old (hs : NodesOK s) {x : Nat} (hx : x ∈ s.nodes) : (addNodeSt s o k).nobj x = s.nobj x := by
  have : x ≠ s.nfresh := Nat.ne_of_lt (hs.fresh x hx)
  show (if x = s.nfresh then _ else _) = _
  rw [if_neg this]
theorem addNodeSt_nobj_new : (addNodeSt s o k).nobj s.nfresh = { o with id := k } := by
  show (if s.nfresh = s.nfresh then _ else _) = _
  rw [if_pos rfl]
theorem fresh_not_mem (hs : NodesOK s) : s.nfresh ∉ s.nodes := fun h => Nat.lt_irrefl _ (hs.fresh _ h)

theorem addNodeSt_mem (x : Nat) : x ∈ (addNodeSt s o k).nodes ↔ (x ∈ s.nodes ∨ x = s.nfresh) := by
  show x ∈ s.nodes ++ [s.nfresh] ↔ _
  rw [List.mem_append, List.mem_singleton]

theorem addNodeSt_nodesOK (hs : NodesOK s) (hc : o.children = []) (hp : o.parents = []) :
    NodesOK (addNodeSt s o k) := by
  have hnew := addNodeSt_nobj_new s o k
  have hfr := fresh_not_mem s hs
  constructor
  · show (s.nodes ++ [s.nfresh]).Nodup
    rw [List.nodup_append]
    refine ⟨hs.nodup, by simp, ?_⟩
    intro x hx y hy e
    rw [List.mem_singleton] at hy
    exact hfr (hy ▸ e ▸ hx)
  · intro r hr
    rcases (addNodeSt_mem s o k r).1 hr with h | h
    · exact Nat.lt_succ_of_lt (hs.fresh r h)
    · rw [h]; exact Nat.lt_succ_self _
  · intro p hpm c hcm
    rcases (addNodeSt_mem s o k p).1 hpm with h | h
    · rw [addNodeSt_nobj_old s o k hs h] at hcm
      exact (addNodeSt_mem s o k c).2 (Or.inl (hs.children_mem p h c hcm))
    · rw [h, hnew] at hcm; rw [show ({ o with id := k } : NodeObj).children = [] from hc] at hcm; cases hcm
  · intro c hcm p hpm
    rcases (addNodeSt_mem s o k c).1 hcm with h | h
    · rw [addNodeSt_nobj_old s o k hs h] at hpm
      exact (addNodeSt_mem s o k p).2 (Or.inl (hs.parents_mem c h p hpm))
    · rw [h, hnew] at hpm; rw [show ({ o with id := k } : NodeObj).parents = [] from hp] at hpm; cases hpm
  · intro p hpm c hcm
    rcases (addNodeSt_mem s o k p).1 hpm with h1 | h1 <;> rcases (addNodeSt_mem s o k c).1 hcm with h2 | h2
    · rw [addNodeSt_nobj_old s o k hs h1, addNodeSt_nobj_old s o k hs h2]; exact hs.mirror p h1 c h2
    · rw [h2, addNodeSt_nobj_old s o k hs h1, hnew]
      rw [show ({ o with id := k } : NodeObj).parents = [] from hp, List.count_nil, List.count_eq_zero]
      exact fun hm => hfr (hs.children_mem p h1 _ hm)
    · rw [h1, addNodeSt_nobj_old s o k hs h2, hnew]
      rw [show ({ o with id := k } : NodeObj).children = [] from hc, List.count_nil]; symm
      rw [List.count_eq_zero]
      exact fun hm => hfr (hs.parents_mem c h2 _ hm)
    · rw [h1, h2, hnew]
      rw [show ({ o with id := k } : NodeObj).children = [] from hc,
          show ({ o with id := k } : NodeObj).parents = [] from hp]

theorem addNodeSt_idxOK (hs : NodesOK s) (hi : IdxOK s) (hk : dget s.idIdx k = none) : IdxOK (addNodeSt s o k) := by
  have hnew := addNodeSt_nobj_new s o k
  have hfr := fresh_not_mem s hs
  constructor
  · intro k' r
    show dget (dset s.idIdx k s.nfresh) k' = some r ↔ _
    rw [dget_dset, addNodeSt_mem]
    by_cases hkk : k' = k
    · rw [if_pos hkk]
      constructor
      · intro h; injection h with h
        rw [← h, hnew, hkk]; exact ⟨Or.inr rfl, rfl⟩
      · rintro ⟨h | h, h2⟩
        · rw [addNodeSt_nobj_old s o k hs h, hkk] at h2
          have := (hi.id_exact k r).2 ⟨h, h2⟩
          rw [hk] at this; cases this
        · rw [h]
    · rw [if_neg hkk, hi.id_exact]
      constructor
      · rintro ⟨h1, h2⟩
        exact ⟨Or.inl h1, by rw [addNodeSt_nobj_old s o k hs h1]; exact h2⟩
      · rintro ⟨h | h, h2⟩
        · exact ⟨h, by rw [addNodeSt_nobj_old s o k hs h] at h2; exact h2⟩
        · rw [h, hnew] at h2; exact absurd h2.symm hkk
  · intro r hr
    show _ < max (k + 1) s.nextNode
    rcases (addNodeSt_mem s o k r).1 hr with h | h
    · rw [addNodeSt_nobj_old s o k hs h]
      have := hi.id_lt_next r h
      omega
    · rw [h, hnew]
      show k < _
      omega
  · intro k' r
    show dget (dset s.nameIdx _ s.nfresh) k' = some r → _
    rw [dget_dset, addNodeSt_mem]
    by_cases hkk : k' = fullName { o with id := k }
    · rw [if_pos hkk]
      intro h; injection h with h
      rw [← h, hnew, hkk]; exact ⟨Or.inr rfl, rfl⟩
    · rw [if_neg hkk]
      intro h
      have := hi.name_sound k' r h
      exact ⟨Or.inl this.1, by rw [addNodeSt_nobj_old s o k hs this.1]; exact this.2⟩

theorem addNodeSt_namesExact (hs : NodesOK s) (hx : NamesExact s)
    (hk : dget s.nameIdx (fullName { o with id := k }) = none) : NamesExact (addNodeSt s o k) := by
  have hnew := addNodeSt_nobj_new s o k
  intro k' r
  show dget (dset s.nameIdx _ s.nfresh) k' = some r ↔ _
  rw [dget_dset, addNodeSt_mem]
  by_cases hkk : k' = fullName { o with id := k }
  · rw [if_pos hkk]
    constructor
    · intro h; injection h with h
      rw [← h, hnew, hkk]; exact ⟨Or.inr rfl, rfl⟩
    · rintro ⟨h | h, h2⟩
      · rw [addNodeSt_nobj_old s o k hs h, hkk] at h2
        have := (hx _ r).2 ⟨h, h2⟩
        rw [hk] at this; cases this
      · rw [h]
  · rw [if_neg hkk, hx]
    constructor
    · rintro ⟨h1, h2⟩
      exact ⟨Or.inl h1, by rw [addNodeSt_nobj_old s o k hs h1]; exact h2⟩
    · rintro ⟨h | h, h2⟩
      · exact ⟨h, by rw [addNodeSt_nobj_old s o k hs h] at h2; exact h2⟩
      · rw [h, hnew] at h2; exact absurd h2.symm hkk

theorem addNodeSt_compOK (hs : NodesOK s) (hc : CompOK s) (hb : o.compBy = []) : CompOK (addNodeSt s o k) := by
  have hnew := addNodeSt_nobj_new s o k
  have hfr := fresh_not_mem s hs
  have hcb : ((addNodeSt s o k).nobj s.nfresh).compBy = [] := by rw [hnew]; exact hb
  constructor
  · intro a ha n hn
    exact (addNodeSt_mem s o k n).2 (Or.inl (hc.reached_mem a ha n hn))
  · intro a ha n hn
    exact (addNodeSt_mem s o k n).2 (Or.inl (hc.entry_mem a ha n hn))
  · intro n hn a ha
    rcases (addNodeSt_mem s o k n).1 hn with h | h
    · rw [addNodeSt_nobj_old s o k hs h] at ha; exact hc.compBy_mem n h a ha
    · rw [h, hcb] at ha; cases ha
  · exact hc.reached_nodup
  · intro n hn
    rcases (addNodeSt_mem s o k n).1 hn with h | h
    · rw [addNodeSt_nobj_old s o k hs h]; exact hc.compBy_nodup n h
    · rw [h, hcb]; exact List.nodup_nil
  · intro a ha n hn
    rcases (addNodeSt_mem s o k n).1 hn with h | h
    · rw [addNodeSt_nobj_old s o k hs h]; exact hc.mirror a ha n h
    · rw [h, hcb]
      constructor
      · intro hm; exact absurd (hc.reached_mem a ha _ hm) hfr
      · intro hm; cases hm

theorem addNodeSt_consistent (h : Consistent s) (hk : dget s.idIdx k = none)
    (hc : o.children = []) (hp : o.parents = []) (hb : o.compBy = []) : Consistent (addNodeSt s o k) :=
  ⟨addNodeSt_nodesOK s o k h.nodes hc hp, addNodeSt_idxOK s o k h.nodes h.idx hk,
   AttIdxOK.congr (s := s) (s' := addNodeSt s o k) rfl rfl rfl rfl (fun _ _ => rfl) h.attIdx,
   addNodeSt_compOK s o k h.nodes h.comp hb⟩

end addNode

theorem addNode_consistent' {s s' : St} {o : NodeObj} {id : Option Int} (h : Consistent s)
    (hc : o.children = []) (hp : o.parents = []) (hb : o.compBy = []) (hok : addNode s o id = .ok s') :
    Consistent s' := by
  obtain ⟨hk, rfl⟩ := addNode_ok hok
  exact addNodeSt_consistent s o _ h hk hc hp hb

/-! ## `removeNode`: the four phases -/

def rn1 (s : St) (r : Nat) : St :=
  (s.nobj r).children.foldl (fun s c => updN s c (fun x => { x with parents := x.parents.erase r })) s
def rn2 (s : St) (r : Nat) : St :=
  ((rn1 s r).nobj r).parents.foldl (fun s p => updN s p (fun x => { x with children := x.children.erase r })) (rn1 s r)
def rn3 (s : St) (r : Nat) : St :=
  ((rn2 s r).nobj r).compBy.foldl (fun s a => undo s a r) (rn2 s r)
def rn4 (s : St) (r : Nat) : St :=
  (rn3 s r).attackers.foldl (fun s a => updA s a (fun x => { x with entry := x.entry.filter (· ≠ r) })) (rn3 s r)

theorem removeNode_eq (s : St) (r : Nat) :
    removeNode s r = { rn4 s r with nodes := (rn4 s r).nodes.erase r
                                    idIdx := ddel (rn4 s r).idIdx ((rn4 s r).nobj r).id
                                    nameIdx := ddel (rn4 s r).nameIdx (fullName ((rn4 s r).nobj r)) } := rfl

section rn
variable (s : St) (r : Nat)

theorem rn1_frame : Frame s (rn1 s r) := Frame.foldl _ _ _ (fun s x => Frame.updN s x _)
theorem rn2_frame : Frame s (rn2 s r) := (rn1_frame s r).trans (Frame.foldl _ _ _ (fun s x => Frame.updN s x _))
theorem rn3_frame : Frame s (rn3 s r) := (rn2_frame s r).trans (Frame.foldl _ _ _ (fun s x => undo_frame s x r))
theorem rn4_frame : Frame s (rn4 s r) := (rn3_frame s r).trans (Frame.foldl _ _ _ (fun s x => Frame.updA s x _))

theorem rn1_keepsData : KeepsData s (rn1 s r) :=
  KeepsData.foldl _ _ _ (fun s x => KeepsData.updN s x _ (fun _ => ⟨rfl, rfl, rfl, rfl, rfl, rfl, rfl, rfl⟩))
theorem rn2_keepsData : KeepsData s (rn2 s r) :=
  (rn1_keepsData s r).trans
    (KeepsData.foldl _ _ _ (fun s x => KeepsData.updN s x _ (fun _ => ⟨rfl, rfl, rfl, rfl, rfl, rfl, rfl, rfl⟩)))
theorem rn3_keepsData : KeepsData s (rn3 s r) :=
  (rn2_keepsData s r).trans (KeepsData.foldl _ _ _ (fun s x => undo_keepsData s x r))
theorem rn4_keepsData : KeepsData s (rn4 s r) :=
  (rn3_keepsData s r).trans (KeepsData.foldl _ _ _ (fun s x => KeepsData.updA s x _))
theorem removeNode_keepsData : KeepsData s (removeNode s r) := rn4_keepsData s r

theorem rn1_aobj : (rn1 s r).aobj = s.aobj := by unfold rn1; rw [foldl_updN]
theorem rn2_aobj : (rn2 s r).aobj = s.aobj := by unfold rn2; rw [foldl_updN]; exact rn1_aobj s r

theorem rn1_nobj (x : Nat) :
    (rn1 s r).nobj x = { s.nobj x with
      parents := iter (fun l => l.erase r) ((s.nobj r).children.count x) (s.nobj x).parents } := by
  unfold rn1; rw [foldl_updN]
  exact iter_eraseParents r _ _

theorem rn2_nobj (x : Nat) :
    (rn2 s r).nobj x = { (rn1 s r).nobj x with
      children := iter (fun l => l.erase r) (((rn1 s r).nobj r).parents.count x) ((rn1 s r).nobj x).children } := by
  unfold rn2; rw [foldl_updN]
  exact iter_eraseChildren r _ _

/-- phase 1: `r` disappears from the parent lists of the graph -/
theorem rn1_nobj_of_mem (hs : NodesOK s) (hr : r ∈ s.nodes) {x : Nat} (hx : x ∈ s.nodes) :
    (rn1 s r).nobj x = { s.nobj x with parents := (s.nobj x).parents.filter (· ≠ r) } := by
  rw [rn1_nobj, iter_erase_eq_filter]
  exact (hs.mirror r hr x hx).symm

/-- phase 2: `r` disappears from the child lists of the other nodes of the graph -/
theorem rn2_nobj_of_mem (hs : NodesOK s) (hr : r ∈ s.nodes) {x : Nat} (hx : x ∈ s.nodes) (hne : x ≠ r) :
    (rn2 s r).nobj x = { s.nobj x with parents := (s.nobj x).parents.filter (· ≠ r)
                                       children := (s.nobj x).children.filter (· ≠ r) } := by
  rw [rn2_nobj, rn1_nobj_of_mem s r hs hr hx, rn1_nobj_of_mem s r hs hr hr]
  show ({ s.nobj x with parents := _, children := iter _ _ (s.nobj x).children } : NodeObj) = _
  rw [iter_erase_eq_filter]
  show ((s.nobj x).children.count r) = ((s.nobj r).parents.filter (· ≠ r)).count x
  rw [count_filter_ne, if_neg hne]
  exact hs.mirror x hx r hr

theorem rn2_compBy (x : Nat) : ((rn2 s r).nobj x).compBy = (s.nobj x).compBy := by
  rw [rn2_nobj, rn1_nobj]

/-! ### a fold of `undo` over the attackers of one node -/
theorem undo_nobj_ne (s : St) (a n x : Nat) (h : x ≠ n) : (undo s a n).nobj x = s.nobj x := by
  rcases undo_cases s a n with e | e <;> rw [e]
  unfold undoStep; rw [updA_nobj, updN_nobj, if_neg h]

theorem foldl_undo_node_nobj (l : List Nat) (s : St) (x : Nat) (h : x ≠ r) :
    (l.foldl (fun s a => undo s a r) s).nobj x = s.nobj x := by
  induction l generalizing s with
  | nil => rfl
  | cons a l ih => rw [List.foldl_cons, ih, undo_nobj_ne _ _ _ _ h]

theorem foldl_undo_node_aobj (l : List Nat) (s : St) (hnd : l.Nodup) (hsub : ∀ a ∈ l, a ∈ (s.nobj r).compBy)
    (a : Nat) :
    (l.foldl (fun s a => undo s a r) s).aobj a =
      if a ∈ l then { s.aobj a with reached := (s.aobj a).reached.erase r } else s.aobj a := by
  induction l generalizing s with
  | nil => rfl
  | cons a0 l ih =>
    rw [List.nodup_cons] at hnd
    have h0 : a0 ∈ (s.nobj r).compBy := hsub a0 List.mem_cons_self
    rw [List.foldl_cons, undo_of_mem h0, ih _ hnd.2]
    · by_cases ha : a = a0
      · have : a ∉ l := ha ▸ hnd.1
        rw [if_neg this, if_pos (ha ▸ List.mem_cons_self)]
        unfold undoStep; rw [updA_aobj, if_pos ha]; rfl
      · have e : (undoStep s a0 r).aobj a = s.aobj a := by
          unfold undoStep; rw [updA_aobj, if_neg ha]; rfl
        rw [e]
        by_cases hl : a ∈ l
        · rw [if_pos hl, if_pos (List.mem_cons_of_mem _ hl)]
        · rw [if_neg hl, if_neg (by simp [ha, hl])]
    · intro b hb
      rw [undoStep_compBy, if_pos rfl]
      have : b ≠ a0 := fun e => hnd.1 (e ▸ hb)
      exact (List.mem_erase_of_ne this).2 (hsub b (List.mem_cons_of_mem _ hb))

theorem rn3_nobj_ne {x : Nat} (h : x ≠ r) : (rn3 s r).nobj x = (rn2 s r).nobj x :=
  foldl_undo_node_nobj r _ _ x h

/-- phase 3: `r` disappears from the `reached` lists of the attackers of the graph -/
theorem rn3_aobj_of_mem (hc : CompOK s) (hr : r ∈ s.nodes) {a : Nat} (ha : a ∈ s.attackers) :
    (rn3 s r).aobj a = { s.aobj a with reached := (s.aobj a).reached.filter (· ≠ r) } := by
  unfold rn3
  have hcb : ((rn2 s r).nobj r).compBy = (s.nobj r).compBy := rn2_compBy s r r
  rw [foldl_undo_node_aobj r _ _ (by rw [hcb]; exact hc.compBy_nodup r hr) (fun b hb => hb), hcb, rn2_aobj]
  by_cases hm : a ∈ (s.nobj r).compBy
  · rw [if_pos hm, erase_eq_filter_of_nodup r _ (hc.reached_nodup a ha)]
  · rw [if_neg hm]
    have hnr : r ∉ (s.aobj a).reached := fun h => hm ((hc.mirror a ha r hr).1 h)
    have : (s.aobj a).reached.filter (· ≠ r) = (s.aobj a).reached := by
      rw [List.filter_eq_self]; intro y hy
      simp only [decide_eq_true_eq]; intro e; exact hnr (e ▸ hy)
    rw [this]

theorem rn4_nobj : (rn4 s r).nobj = (rn3 s r).nobj := by unfold rn4; rw [foldl_updA]

/-- phase 4: `r` disappears from the entry points of the attackers of the graph -/
theorem rn4_aobj_of_mem (hc : CompOK s) (hai : AttIdxOK s) (hr : r ∈ s.nodes) {a : Nat} (ha : a ∈ s.attackers) :
    (rn4 s r).aobj a = { s.aobj a with reached := (s.aobj a).reached.filter (· ≠ r)
                                       entry := (s.aobj a).entry.filter (· ≠ r) } := by
  unfold rn4; rw [foldl_updA, (rn3_frame s r).attackers]
  show iter _ (s.attackers.count a) ((rn3 s r).aobj a) = _
  have : s.attackers.count a = 1 := by rw [hai.nodup.count, if_pos ha]
  rw [this, rn3_aobj_of_mem s r hc hr ha]
  rfl

end rn

/-- what `removeNode s r` leaves behind, relative to the state `s` before -/
structure RemovedNode (s : St) (r : Nat) (s' : St) : Prop where
  nodes : s'.nodes = s.nodes.erase r
  idIdx : s'.idIdx = ddel s.idIdx (s.nobj r).id
  nameIdx : s'.nameIdx = ddel s.nameIdx (fullName (s.nobj r))
  attackers : s'.attackers = s.attackers
  attIdx : s'.attIdx = s.attIdx
  nfresh : s'.nfresh = s.nfresh
  afresh : s'.afresh = s.afresh
  nextNode : s'.nextNode = s.nextNode
  nextAtt : s'.nextAtt = s.nextAtt
  data : KeepsData s s'
  nobj : ∀ x ∈ s.nodes, x ≠ r →
    s'.nobj x = { s.nobj x with parents := (s.nobj x).parents.filter (· ≠ r)
                                children := (s.nobj x).children.filter (· ≠ r) }
  aobj : ∀ a ∈ s.attackers,
    s'.aobj a = { s.aobj a with reached := (s.aobj a).reached.filter (· ≠ r)
                                entry := (s.aobj a).entry.filter (· ≠ r) }

theorem removeNode_spec (s : St) (r : Nat) (h : Consistent s) (hr : r ∈ s.nodes) :
    RemovedNode s r (removeNode s r) := by
  have hf := rn4_frame s r
  have hd := rn4_keepsData s r
  rw [removeNode_eq]
  constructor
  · show (rn4 s r).nodes.erase r = _; rw [hf.nodes]
  · show ddel (rn4 s r).idIdx _ = _; rw [hf.idIdx, (hd r).id]
  · show ddel (rn4 s r).nameIdx _ = _; rw [hf.nameIdx, (hd r).fullName]
  · exact hf.attackers
  · exact hf.attIdx
  · exact hf.nfresh
  · exact hf.afresh
  · exact hf.nextNode
  · exact hf.nextAtt
  · exact hd
  · intro x hx hne
    show (rn4 s r).nobj x = _
    rw [rn4_nobj, rn3_nobj_ne s r hne, rn2_nobj_of_mem s r h.nodes hr hx hne]
  · intro a ha
    exact rn4_aobj_of_mem s r h.comp h.attIdx hr ha

/-! ## `removeNode` keeps the invariant -/
section removed
variable {s s' : St} {r : Nat}

theorem RemovedNode.mem_nodes (hrm : RemovedNode s r s') (hs : NodesOK s) (x : Nat) :
    x ∈ s'.nodes ↔ (x ∈ s.nodes ∧ x ≠ r) := by
  rw [hrm.nodes, hs.nodup.mem_erase_iff, and_comm]

theorem RemovedNode.children (hrm : RemovedNode s r s') {x : Nat} (hx : x ∈ s.nodes) (hne : x ≠ r) :
    (s'.nobj x).children = (s.nobj x).children.filter (· ≠ r) := by rw [hrm.nobj x hx hne]
theorem RemovedNode.parents (hrm : RemovedNode s r s') {x : Nat} (hx : x ∈ s.nodes) (hne : x ≠ r) :
    (s'.nobj x).parents = (s.nobj x).parents.filter (· ≠ r) := by rw [hrm.nobj x hx hne]
theorem RemovedNode.compBy (hrm : RemovedNode s r s') {x : Nat} (hx : x ∈ s.nodes) (hne : x ≠ r) :
    (s'.nobj x).compBy = (s.nobj x).compBy := by rw [hrm.nobj x hx hne]
theorem RemovedNode.reached (hrm : RemovedNode s r s') {a : Nat} (ha : a ∈ s.attackers) :
    (s'.aobj a).reached = (s.aobj a).reached.filter (· ≠ r) := by rw [hrm.aobj a ha]
theorem RemovedNode.entry (hrm : RemovedNode s r s') {a : Nat} (ha : a ∈ s.attackers) :
    (s'.aobj a).entry = (s.aobj a).entry.filter (· ≠ r) := by rw [hrm.aobj a ha]
theorem RemovedNode.aid (hrm : RemovedNode s r s') {a : Nat} (ha : a ∈ s.attackers) :
    (s'.aobj a).id = (s.aobj a).id := by rw [hrm.aobj a ha]
theorem RemovedNode.aname (hrm : RemovedNode s r s') {a : Nat} (ha : a ∈ s.attackers) :
    (s'.aobj a).name = (s.aobj a).name := by rw [hrm.aobj a ha]

theorem RemovedNode.nodesOK (hrm : RemovedNode s r s') (hs : NodesOK s) : NodesOK s' := by
  constructor
  · rw [hrm.nodes]; exact hs.nodup.erase r
  · intro x hx; rw [hrm.nfresh]; exact hs.fresh x ((hrm.mem_nodes hs x).1 hx).1
  · intro p hp c hc
    obtain ⟨hp1, hp2⟩ := (hrm.mem_nodes hs p).1 hp
    rw [hrm.children hp1 hp2, mem_filter_ne] at hc
    exact (hrm.mem_nodes hs c).2 ⟨hs.children_mem p hp1 c hc.1, hc.2⟩
  · intro c hc p hp
    obtain ⟨hc1, hc2⟩ := (hrm.mem_nodes hs c).1 hc
    rw [hrm.parents hc1 hc2, mem_filter_ne] at hp
    exact (hrm.mem_nodes hs p).2 ⟨hs.parents_mem c hc1 p hp.1, hp.2⟩
  · intro p hp c hc
    obtain ⟨hp1, hp2⟩ := (hrm.mem_nodes hs p).1 hp
    obtain ⟨hc1, hc2⟩ := (hrm.mem_nodes hs c).1 hc
    rw [hrm.children hp1 hp2, hrm.parents hc1 hc2, count_filter_ne, count_filter_ne, if_neg hc2, if_neg hp2]
    exact hs.mirror p hp1 c hc1

theorem RemovedNode.idxOK (hrm : RemovedNode s r s') (hs : NodesOK s) (hi : IdxOK s) (hr : r ∈ s.nodes) :
    IdxOK s' := by
  constructor
  · intro k x
    rw [hrm.idIdx, dget_ddel, hrm.mem_nodes hs, (hrm.data x).id]
    by_cases hk : k = (s.nobj r).id
    · rw [if_pos hk]
      constructor
      · intro h; cases h
      · rintro ⟨⟨hx, hne⟩, hid⟩
        have h1 := (hi.id_exact k x).2 ⟨hx, hid⟩
        have h2 := (hi.id_exact k r).2 ⟨hr, hk.symm⟩
        rw [h1] at h2; injection h2 with h2; exact absurd h2 hne
    · rw [if_neg hk, hi.id_exact]
      constructor
      · rintro ⟨hx, hid⟩
        exact ⟨⟨hx, fun e => hk (by rw [← hid, e])⟩, hid⟩
      · rintro ⟨⟨hx, _⟩, hid⟩; exact ⟨hx, hid⟩
  · intro x hx
    rw [hrm.nextNode, (hrm.data x).id]; exact hi.id_lt_next x ((hrm.mem_nodes hs x).1 hx).1
  · intro k x
    rw [hrm.nameIdx, dget_ddel, hrm.mem_nodes hs, (hrm.data x).fullName]
    by_cases hk : k = fullName (s.nobj r)
    · rw [if_pos hk]; intro h; cases h
    · rw [if_neg hk]; intro h
      obtain ⟨hx, hfn⟩ := hi.name_sound k x h
      exact ⟨⟨hx, fun e => hk (by rw [← hfn, e])⟩, hfn⟩

theorem RemovedNode.namesExact (hrm : RemovedNode s r s') (hs : NodesOK s) (hx : NamesExact s) (hr : r ∈ s.nodes) :
    NamesExact s' := by
  intro k x
  rw [hrm.nameIdx, dget_ddel, hrm.mem_nodes hs, (hrm.data x).fullName]
  by_cases hk : k = fullName (s.nobj r)
  · rw [if_pos hk]
    constructor
    · intro h; cases h
    · rintro ⟨⟨hxm, hne⟩, hfn⟩
      have h1 := (hx k x).2 ⟨hxm, hfn⟩
      have h2 := (hx k r).2 ⟨hr, hk.symm⟩
      rw [h1] at h2; injection h2 with h2; exact absurd h2 hne
  · rw [if_neg hk, hx]
    constructor
    · rintro ⟨hxm, hfn⟩
      exact ⟨⟨hxm, fun e => hk (by rw [← hfn, e])⟩, hfn⟩
    · rintro ⟨⟨hxm, _⟩, hfn⟩; exact ⟨hxm, hfn⟩

theorem RemovedNode.attIdxOK (hrm : RemovedNode s r s') (ha : AttIdxOK s) : AttIdxOK s' :=
  ha.congr hrm.attackers hrm.afresh hrm.attIdx hrm.nextAtt (fun _ h => hrm.aid h)

theorem RemovedNode.compOK (hrm : RemovedNode s r s') (hs : NodesOK s) (hc : CompOK s) : CompOK s' := by
  constructor
  · intro a ha n hn
    rw [hrm.attackers] at ha
    rw [hrm.reached ha, mem_filter_ne] at hn
    exact (hrm.mem_nodes hs n).2 ⟨hc.reached_mem a ha n hn.1, hn.2⟩
  · intro a ha n hn
    rw [hrm.attackers] at ha
    rw [hrm.entry ha, mem_filter_ne] at hn
    exact (hrm.mem_nodes hs n).2 ⟨hc.entry_mem a ha n hn.1, hn.2⟩
  · intro n hn a ha
    obtain ⟨h1, h2⟩ := (hrm.mem_nodes hs n).1 hn
    rw [hrm.compBy h1 h2] at ha
    rw [hrm.attackers]; exact hc.compBy_mem n h1 a ha
  · intro a ha
    rw [hrm.attackers] at ha
    rw [hrm.reached ha]; exact (hc.reached_nodup a ha).filter _
  · intro n hn
    obtain ⟨h1, h2⟩ := (hrm.mem_nodes hs n).1 hn
    rw [hrm.compBy h1 h2]; exact hc.compBy_nodup n h1
  · intro a ha n hn
    rw [hrm.attackers] at ha
    obtain ⟨h1, h2⟩ := (hrm.mem_nodes hs n).1 hn
    rw [hrm.reached ha, hrm.compBy h1 h2, mem_filter_ne, ← hc.mirror a ha n h1]
    exact ⟨fun h => h.1, fun h => ⟨h, h2⟩⟩

theorem RemovedNode.consistent (hrm : RemovedNode s r s') (h : Consistent s) (hr : r ∈ s.nodes) : Consistent s' :=
  ⟨hrm.nodesOK h.nodes, hrm.idxOK h.nodes h.idx hr, hrm.attIdxOK h.attIdx, hrm.compOK h.nodes h.comp⟩

end removed

theorem removeNode_consistent' (s : St) (r : Nat) (h : Consistent s) (hr : r ∈ s.nodes) :
    Consistent (removeNode s r) :=
  (removeNode_spec s r h hr).consistent h hr

theorem removeNode_namesExact (s : St) (r : Nat) (h : Consistent s) (hx : NamesExact s) (hr : r ∈ s.nodes) :
    NamesExact (removeNode s r) :=
  (removeNode_spec s r h hr).namesExact h.nodes hx hr

/-! ## `removeAttacker` -/

def ra1 (s : St) (a : Nat) : St := (s.aobj a).reached.foldl (fun s n => undo s a n) s

theorem removeAttacker_eq (s : St) (a : Nat) :
    removeAttacker s a = { ra1 s a with attackers := (ra1 s a).attackers.erase a
                                        attIdx := ddel (ra1 s a).attIdx ((ra1 s a).aobj a).id } := rfl

theorem ra1_frame (s : St) (a : Nat) : Frame s (ra1 s a) := Frame.foldl _ _ _ (fun s x => undo_frame s a x)
theorem ra1_keepsData (s : St) (a : Nat) : KeepsData s (ra1 s a) :=
  KeepsData.foldl _ _ _ (fun s x => undo_keepsData s a x)

theorem undo_reached_mem {s : St} {a n : Nat} (h : CompOK s) (ha : a ∈ s.attackers) (hn : n ∈ s.nodes) (m : Nat) :
    m ∈ ((undo s a n).aobj a).reached ↔ (m ∈ (s.aobj a).reached ∧ m ≠ n) := by
  by_cases hm : a ∈ (s.nobj n).compBy
  · rw [undo_of_mem hm, undoStep_mem_reached s a n a m (h.reached_nodup a ha)]
    simp
  · rw [undo_of_not_mem hm]
    have : n ∉ (s.aobj a).reached := fun h' => hm ((h.mirror a ha n hn).1 h')
    exact ⟨fun h' => ⟨h', fun e => this (e ▸ h')⟩, fun h' => h'.1⟩

theorem foldl_undo_att (a : Nat) (l : List Nat) (s : St) (h : Consistent s) (ha : a ∈ s.attackers)
    (hl : ∀ n ∈ l, n ∈ s.nodes) :
    Consistent (l.foldl (fun s n => undo s a n) s) ∧
      ∀ m ∈ ((l.foldl (fun s n => undo s a n) s).aobj a).reached, m ∈ (s.aobj a).reached ∧ m ∉ l := by
  induction l generalizing s with
  | nil => exact ⟨h, fun m hm => ⟨hm, by simp⟩⟩
  | cons n l ih =>
    have hn : n ∈ s.nodes := hl n List.mem_cons_self
    have hf := undo_frame s a n
    have h1 := undo_consistent' s a n h ha hn
    rw [List.foldl_cons]
    obtain ⟨c, hm⟩ := ih (undo s a n) h1 (by rw [hf.attackers]; exact ha)
      (fun x hx => by rw [hf.nodes]; exact hl x (List.mem_cons_of_mem _ hx))
    refine ⟨c, fun m hmm => ?_⟩
    obtain ⟨h2, h3⟩ := hm m hmm
    obtain ⟨h4, h5⟩ := (undo_reached_mem h.comp ha hn m).1 h2
    exact ⟨h4, by simp [h5, h3]⟩

theorem ra1_consistent (s : St) (a : Nat) (h : Consistent s) (ha : a ∈ s.attackers) : Consistent (ra1 s a) :=
  (foldl_undo_att a _ s h ha (h.comp.reached_mem a ha)).1

theorem ra1_reached (s : St) (a : Nat) (h : Consistent s) (ha : a ∈ s.attackers) :
    ((ra1 s a).aobj a).reached = [] := by
  rw [List.eq_nil_iff_forall_not_mem]
  intro m hm
  have := (foldl_undo_att a _ s h ha (h.comp.reached_mem a ha)).2 m hm
  exact this.2 this.1

/-- after the undo loop no node of the graph is marked as compromised by `a` -/
theorem ra1_clean (s : St) (a : Nat) (h : Consistent s) (ha : a ∈ s.attackers) :
    ∀ n ∈ (ra1 s a).nodes, a ∉ ((ra1 s a).nobj n).compBy := by
  intro n hn hm
  have hc := ra1_consistent s a h ha
  have ha' : a ∈ (ra1 s a).attackers := by rw [(ra1_frame s a).attackers]; exact ha
  have := (hc.comp.mirror a ha' n hn).2 hm
  rw [ra1_reached s a h ha] at this
  cases this

/-- deleting an attacker that no node refers to -/
theorem dropAttacker_consistent (s : St) (a : Nat) (h : Consistent s) (ha : a ∈ s.attackers)
    (hclean : ∀ n ∈ s.nodes, a ∉ (s.nobj n).compBy) :
    Consistent { s with attackers := s.attackers.erase a, attIdx := ddel s.attIdx (s.aobj a).id } := by
  have hmem : ∀ b, b ∈ s.attackers.erase a ↔ (b ∈ s.attackers ∧ b ≠ a) := by
    intro b; rw [h.attIdx.nodup.mem_erase_iff, and_comm]
  refine ⟨NodesOK.congr (s := s) rfl rfl (fun _ _ => rfl) (fun _ _ => rfl) h.nodes,
    IdxOK.congr (s := s) rfl rfl rfl rfl (fun _ _ => rfl) (fun _ _ => rfl) h.idx, ?_, ?_⟩
  · constructor
    · exact h.attIdx.nodup.erase a
    · intro b hb; exact h.attIdx.fresh b ((hmem b).1 hb).1
    · intro k b
      show dget (ddel s.attIdx (s.aobj a).id) k = some b ↔ (b ∈ s.attackers.erase a ∧ (s.aobj b).id = k)
      rw [dget_ddel, hmem]
      by_cases hk : k = (s.aobj a).id
      · rw [if_pos hk]
        constructor
        · intro h'; cases h'
        · rintro ⟨⟨hb, hne⟩, hid⟩
          have h1 := (h.attIdx.id_exact k b).2 ⟨hb, hid⟩
          have h2 := (h.attIdx.id_exact k a).2 ⟨ha, hk.symm⟩
          rw [h1] at h2; injection h2 with h2; exact absurd h2 hne
      · rw [if_neg hk, h.attIdx.id_exact]
        constructor
        · rintro ⟨hb, hid⟩
          exact ⟨⟨hb, fun e => hk (by rw [← hid, e])⟩, hid⟩
        · rintro ⟨⟨hb, _⟩, hid⟩; exact ⟨hb, hid⟩
    · intro b hb; exact h.attIdx.id_lt_next b ((hmem b).1 hb).1
  · constructor
    · intro b hb; exact h.comp.reached_mem b ((hmem b).1 hb).1
    · intro b hb; exact h.comp.entry_mem b ((hmem b).1 hb).1
    · intro n hn b hb
      exact (hmem b).2 ⟨h.comp.compBy_mem n hn b hb, fun e => hclean n hn (e ▸ hb)⟩
    · intro b hb; exact h.comp.reached_nodup b ((hmem b).1 hb).1
    · exact h.comp.compBy_nodup
    · intro b hb; exact h.comp.mirror b ((hmem b).1 hb).1

theorem removeAttacker_consistent' (s : St) (a : Nat) (h : Consistent s) (ha : a ∈ s.attackers) :
    Consistent (removeAttacker s a) := by
  rw [removeAttacker_eq]
  exact dropAttacker_consistent (ra1 s a) a (ra1_consistent s a h ha)
    (by rw [(ra1_frame s a).attackers]; exact ha) (ra1_clean s a h ha)

theorem removeAttacker_nodes (s : St) (a : Nat) : (removeAttacker s a).nodes = s.nodes := (ra1_frame s a).nodes
theorem removeAttacker_nobj (s : St) (a : Nat) : (removeAttacker s a).nobj = (ra1 s a).nobj := rfl
theorem removeAttacker_attackers (s : St) (a : Nat) : (removeAttacker s a).attackers = s.attackers.erase a := by
  rw [removeAttacker_eq]; show (ra1 s a).attackers.erase a = _; rw [(ra1_frame s a).attackers]

theorem removeAttacker_namesExact (s : St) (a : Nat) (h : NamesExact s) : NamesExact (removeAttacker s a) :=
  NamesExact.congr (s := s) (s' := removeAttacker s a) (ra1_frame s a).nodes (ra1_frame s a).nameIdx
    (fun x _ => (ra1_keepsData s a x).fullName) h

/-! ## `addAttacker` -/

/-- the new attacker object is created (`s0` of the model) -/
def aaPre (s : St) (nm : String) (k : Int) : St :=
  { s with aobj := fun x => if x = s.afresh then { id := k, name := nm } else s.aobj x
           afresh := s.afresh + 1, nextAtt := max (k + 1) s.nextAtt }
def withAtt (s : St) (l : List Nat) (d : List (Int × Nat)) : St := { s with attackers := l, attIdx := d }
/-- … and registered in the graph (the model does this last; it commutes with the two loops) -/
def aaInit (s : St) (nm : String) (k : Int) : St :=
  withAtt (aaPre s nm k) (s.attackers ++ [s.afresh]) (dset s.attIdx k s.afresh)
def aaReach (a : Nat) (s : St) (i : Int) : St :=
  match getNodeById s i with | some n => compromise s a n | none => s
def aaEntry (a : Nat) (s : St) (i : Int) : St :=
  match getNodeById s i with | some n => updA s a (fun o => { o with entry := o.entry ++ [n] }) | none => s

theorem addAttacker_eq (s : St) (nm : String) (id : Option Int) (e r : List Int) :
    addAttacker s nm id e r =
      if (dget s.attIdx (id.getD s.nextAtt)).isSome then .error .valueError else
      if !(r.all (fun i => (getNodeById s i).isSome) && e.all (fun i => (getNodeById s i).isSome)) then
        .error .attackGraphException else
      let s2 := e.foldl (aaEntry s.afresh) (r.foldl (aaReach s.afresh) (aaPre s nm (id.getD s.nextAtt)))
      .ok (withAtt s2 (s2.attackers ++ [s.afresh]) (dset s2.attIdx (id.getD s.nextAtt) s.afresh)) := rfl

theorem aaReach_frame (a : Nat) (s : St) (i : Int) : Frame s (aaReach a s i) := by
  unfold aaReach; split
  · exact compromise_frame s a _
  · exact Frame.refl s
theorem aaEntry_frame (a : Nat) (s : St) (i : Int) : Frame s (aaEntry a s i) := by
  unfold aaEntry; split
  · exact Frame.updA s a _
  · exact Frame.refl s
theorem aaReach_keepsData (a : Nat) (s : St) (i : Int) : KeepsData s (aaReach a s i) := by
  unfold aaReach; split
  · exact compromise_keepsData s a _
  · exact KeepsData.refl s
theorem aaEntry_keepsData (a : Nat) (s : St) (i : Int) : KeepsData s (aaEntry a s i) := by
  unfold aaEntry; split
  · exact KeepsData.updA s a _
  · exact KeepsData.refl s

theorem compromise_withAtt (s : St) (a n : Nat) (l : List Nat) (d : List (Int × Nat)) :
    compromise (withAtt s l d) a n = withAtt (compromise s a n) l d := by
  by_cases h : a ∈ (s.nobj n).compBy
  · rw [compromise_of_mem h, compromise_of_mem (s := withAtt s l d) h]
  · rw [compromise_of_not_mem h, compromise_of_not_mem (s := withAtt s l d) h]; rfl

theorem aaReach_withAtt (a : Nat) (s : St) (i : Int) (l : List Nat) (d : List (Int × Nat)) :
    aaReach a (withAtt s l d) i = withAtt (aaReach a s i) l d := by
  unfold aaReach
  show (match getNodeById s i with | some n => compromise (withAtt s l d) a n | none => withAtt s l d) = _
  split
  · exact compromise_withAtt s a _ l d
  · rfl
theorem aaEntry_withAtt (a : Nat) (s : St) (i : Int) (l : List Nat) (d : List (Int × Nat)) :
    aaEntry a (withAtt s l d) i = withAtt (aaEntry a s i) l d := by
  unfold aaEntry
  show (match getNodeById s i with
    | some n => updA (withAtt s l d) a (fun o => { o with entry := o.entry ++ [n] }) | none => withAtt s l d) = _
  split <;> rfl

theorem foldl_comm {σ ι : Type} (f : σ → ι → σ) (g : σ → σ) (hc : ∀ s i, f (g s) i = g (f s i)) (l : List ι) (s : σ) :
    l.foldl f (g s) = g (l.foldl f s) := by
  induction l generalizing s with
  | nil => rfl
  | cons x l ih => rw [List.foldl_cons, List.foldl_cons, hc, ih]

theorem addAttacker_ok {s s' : St} {nm : String} {id : Option Int} {e r : List Int}
    (h : addAttacker s nm id e r = .ok s') :
    dget s.attIdx (id.getD s.nextAtt) = none ∧
      s' = e.foldl (aaEntry s.afresh) (r.foldl (aaReach s.afresh) (aaInit s nm (id.getD s.nextAtt))) := by
  rw [addAttacker_eq] at h
  by_cases hd : (dget s.attIdx (id.getD s.nextAtt)).isSome = true
  · rw [if_pos hd] at h; cases h
  · rw [if_neg hd] at h
    split at h
    · cases h
    · injection h with h
      refine ⟨by simpa using hd, ?_⟩
      rw [← h]
      have hf : Frame (aaPre s nm (id.getD s.nextAtt))
          (e.foldl (aaEntry s.afresh) (r.foldl (aaReach s.afresh) (aaPre s nm (id.getD s.nextAtt)))) :=
        (Frame.foldl _ _ _ (aaReach_frame s.afresh)).trans (Frame.foldl _ _ _ (aaEntry_frame s.afresh))
      show withAtt _ (_ ++ _) (dset _ _ _) = _
      rw [hf.attackers, hf.attIdx]
      unfold aaInit
      rw [foldl_comm _ (fun s => withAtt s _ _) (fun t i => aaReach_withAtt s.afresh t i _ _),
          foldl_comm _ (fun s => withAtt s _ _) (fun t i => aaEntry_withAtt s.afresh t i _ _)]
      rfl

theorem addAttacker_error_of_used (s : St) (nm : String) (id : Option Int) (e r : List Int)
    (h : (dget s.attIdx (id.getD s.nextAtt)).isSome = true) : addAttacker s nm id e r = .error .valueError := by
  rw [addAttacker_eq, if_pos h]

section aaInit
variable (s : St) (nm : String) (k : Int)

theorem aaInit_aobj_old (hs : AttIdxOK s) {x : Nat} (hx : x ∈ s.attackers) : (aaInit s nm k).aobj x = s.aobj x := by
  have : x ≠ s.afresh := Nat.ne_of_lt (hs.fresh x hx)
  show (if x = s.afresh then _ else _) = _
  rw [if_neg this]
theorem aaInit_aobj_new : (aaInit s nm k).aobj s.afresh = { id := k, name := nm } := by
  show (if s.afresh = s.afresh then _ else _) = _
  rw [if_pos rfl]
theorem afresh_not_mem (hs : AttIdxOK s) : s.afresh ∉ s.attackers := fun h => Nat.lt_irrefl _ (hs.fresh _ h)
theorem aaInit_mem (x : Nat) : x ∈ (aaInit s nm k).attackers ↔ (x ∈ s.attackers ∨ x = s.afresh) := by
  show x ∈ s.attackers ++ [s.afresh] ↔ _
  rw [List.mem_append, List.mem_singleton]

theorem aaInit_attIdxOK (hs : AttIdxOK s) (hk : dget s.attIdx k = none) : AttIdxOK (aaInit s nm k) := by
  have hnew := aaInit_aobj_new s nm k
  have hfr := afresh_not_mem s hs
  constructor
  · show (s.attackers ++ [s.afresh]).Nodup
    rw [List.nodup_append]
    refine ⟨hs.nodup, by simp, ?_⟩
    intro x hx y hy e
    rw [List.mem_singleton] at hy
    exact hfr (hy ▸ e ▸ hx)
  · intro r hr
    rcases (aaInit_mem s nm k r).1 hr with h | h
    · exact Nat.lt_succ_of_lt (hs.fresh r h)
    · rw [h]; exact Nat.lt_succ_self _
  · intro k' r
    show dget (dset s.attIdx k s.afresh) k' = some r ↔ _
    rw [dget_dset, aaInit_mem]
    by_cases hkk : k' = k
    · rw [if_pos hkk]
      constructor
      · intro h; injection h with h
        rw [← h, hnew, hkk]; exact ⟨Or.inr rfl, rfl⟩
      · rintro ⟨h | h, h2⟩
        · rw [aaInit_aobj_old s nm k hs h, hkk] at h2
          have := (hs.id_exact k r).2 ⟨h, h2⟩
          rw [hk] at this; cases this
        · rw [h]
    · rw [if_neg hkk, hs.id_exact]
      constructor
      · rintro ⟨h1, h2⟩
        exact ⟨Or.inl h1, by rw [aaInit_aobj_old s nm k hs h1]; exact h2⟩
      · rintro ⟨h | h, h2⟩
        · exact ⟨h, by rw [aaInit_aobj_old s nm k hs h] at h2; exact h2⟩
        · rw [h, hnew] at h2; exact absurd h2.symm hkk
  · intro r hr
    show _ < max (k + 1) s.nextAtt
    rcases (aaInit_mem s nm k r).1 hr with h | h
    · rw [aaInit_aobj_old s nm k hs h]
      have := hs.id_lt_next r h
      omega
    · rw [h, hnew]
      show k < _
      omega

theorem aaInit_compOK (hs : AttIdxOK s) (hc : CompOK s) : CompOK (aaInit s nm k) := by
  have hnew := aaInit_aobj_new s nm k
  have hfr := afresh_not_mem s hs
  constructor
  · intro a ha n hn
    rcases (aaInit_mem s nm k a).1 ha with h | h
    · rw [aaInit_aobj_old s nm k hs h] at hn; exact hc.reached_mem a h n hn
    · rw [h, hnew] at hn; cases hn
  · intro a ha n hn
    rcases (aaInit_mem s nm k a).1 ha with h | h
    · rw [aaInit_aobj_old s nm k hs h] at hn; exact hc.entry_mem a h n hn
    · rw [h, hnew] at hn; cases hn
  · intro n hn a ha
    exact (aaInit_mem s nm k a).2 (Or.inl (hc.compBy_mem n hn a ha))
  · intro a ha
    rcases (aaInit_mem s nm k a).1 ha with h | h
    · rw [aaInit_aobj_old s nm k hs h]; exact hc.reached_nodup a h
    · rw [h, hnew]; exact List.nodup_nil
  · exact hc.compBy_nodup
  · intro a ha n hn
    rcases (aaInit_mem s nm k a).1 ha with h | h
    · rw [aaInit_aobj_old s nm k hs h]; exact hc.mirror a h n hn
    · rw [h, hnew]
      constructor
      · intro hm; cases hm
      · intro hm; exact absurd (hc.compBy_mem n hn _ hm) hfr

theorem aaInit_consistent (h : Consistent s) (hk : dget s.attIdx k = none) : Consistent (aaInit s nm k) :=
  ⟨NodesOK.congr (s := s) (s' := aaInit s nm k) rfl rfl (fun _ _ => rfl) (fun _ _ => rfl) h.nodes,
   IdxOK.congr (s := s) (s' := aaInit s nm k) rfl rfl rfl rfl (fun _ _ => rfl) (fun _ _ => rfl) h.idx,
   aaInit_attIdxOK s nm k h.attIdx hk, aaInit_compOK s nm k h.attIdx h.comp⟩

end aaInit

/-- overwriting the entry points of an attacker with nodes of the graph -/
theorem updA_entry_consistent (s : St) (a : Nat) (g : AttObj → List Nat) (h : Consistent s)
    (hg : ∀ n ∈ g (s.aobj a), n ∈ s.nodes) : Consistent (updA s a (fun o => { o with entry := g o })) := by
  have hr : ∀ b, ((updA s a (fun o => { o with entry := g o })).aobj b).reached = (s.aobj b).reached := by
    intro b; rw [updA_aobj]; split <;> rfl
  have hi : ∀ b, ((updA s a (fun o => { o with entry := g o })).aobj b).id = (s.aobj b).id := by
    intro b; rw [updA_aobj]; split <;> rfl
  refine ⟨NodesOK.congr (s := s) rfl rfl (fun _ _ => rfl) (fun _ _ => rfl) h.nodes,
    IdxOK.congr (s := s) rfl rfl rfl rfl (fun _ _ => rfl) (fun _ _ => rfl) h.idx,
    AttIdxOK.congr (s := s) rfl rfl rfl rfl (fun b _ => hi b) h.attIdx, ?_⟩
  constructor
  · intro b hb; rw [hr]; exact h.comp.reached_mem b hb
  · intro b hb n hn
    rw [updA_aobj] at hn
    by_cases hba : b = a
    · rw [if_pos hba, hba] at hn; exact hg n hn
    · rw [if_neg hba] at hn; exact h.comp.entry_mem b hb n hn
  · exact h.comp.compBy_mem
  · intro b hb; rw [hr]; exact h.comp.reached_nodup b hb
  · exact h.comp.compBy_nodup
  · intro b hb n hn; rw [hr]; exact h.comp.mirror b hb n hn

theorem aaReach_consistent (a : Nat) (s : St) (i : Int) (h : Consistent s) (ha : a ∈ s.attackers) :
    Consistent (aaReach a s i) := by
  unfold aaReach; split
  · next n hn => exact compromise_consistent' s a n h ha ((h.idx.id_exact i n).1 hn).1
  · exact h
theorem aaEntry_consistent (a : Nat) (s : St) (i : Int) (h : Consistent s) (ha : a ∈ s.attackers) :
    Consistent (aaEntry a s i) := by
  unfold aaEntry; split
  · next n hn =>
    refine updA_entry_consistent s a (fun o => o.entry ++ [n]) h ?_
    intro m hm
    rw [List.mem_append, List.mem_singleton] at hm
    rcases hm with hm | hm
    · exact h.comp.entry_mem a ha m hm
    · rw [hm]; exact ((h.idx.id_exact i n).1 hn).1
  · exact h

theorem addAttacker_consistent' {s s' : St} {nm : String} {id : Option Int} {e r : List Int} (h : Consistent s)
    (hok : addAttacker s nm id e r = .ok s') : Consistent s' := by
  obtain ⟨hk, rfl⟩ := addAttacker_ok hok
  have h0 := aaInit_consistent s nm _ h hk
  have ha0 : s.afresh ∈ (aaInit s nm (id.getD s.nextAtt)).attackers := (aaInit_mem s nm _ _).2 (Or.inr rfl)
  have h1 : Consistent (r.foldl (aaReach s.afresh) (aaInit s nm (id.getD s.nextAtt))) ∧
      s.afresh ∈ (r.foldl (aaReach s.afresh) (aaInit s nm (id.getD s.nextAtt))).attackers :=
    foldl_inv (fun t => Consistent t ∧ s.afresh ∈ t.attackers) _ r _
      (fun t i _ ht => ⟨aaReach_consistent _ t i ht.1 ht.2, by rw [(aaReach_frame _ t i).attackers]; exact ht.2⟩)
      ⟨h0, ha0⟩
  exact (foldl_inv (fun t => Consistent t ∧ s.afresh ∈ t.attackers) _ e _
      (fun t i _ ht => ⟨aaEntry_consistent _ t i ht.1 ht.2, by rw [(aaEntry_frame _ t i).attackers]; exact ht.2⟩)
      h1).1

theorem addAttacker_frameN {s s' : St} {nm : String} {id : Option Int} {e r : List Int}
    (hok : addAttacker s nm id e r = .ok s') :
    s'.nodes = s.nodes ∧ s'.nameIdx = s.nameIdx ∧ s'.idIdx = s.idIdx ∧ KeepsData s s' := by
  obtain ⟨_, rfl⟩ := addAttacker_ok hok
  have hf : Frame (aaInit s nm (id.getD s.nextAtt))
      (e.foldl (aaEntry s.afresh) (r.foldl (aaReach s.afresh) (aaInit s nm (id.getD s.nextAtt)))) :=
    (Frame.foldl _ _ _ (aaReach_frame s.afresh)).trans (Frame.foldl _ _ _ (aaEntry_frame s.afresh))
  have hd : KeepsData (aaInit s nm (id.getD s.nextAtt))
      (e.foldl (aaEntry s.afresh) (r.foldl (aaReach s.afresh) (aaInit s nm (id.getD s.nextAtt)))) :=
    (KeepsData.foldl _ _ _ (aaReach_keepsData s.afresh)).trans (KeepsData.foldl _ _ _ (aaEntry_keepsData s.afresh))
  exact ⟨hf.nodes, hf.nameIdx, hf.idIdx, hd⟩

theorem addAttacker_namesExact {s s' : St} {nm : String} {id : Option Int} {e r : List Int} (h : NamesExact s)
    (hok : addAttacker s nm id e r = .ok s') : NamesExact s' := by
  obtain ⟨h1, h2, _, h4⟩ := addAttacker_frameN hok
  exact NamesExact.congr h1 h2 (fun x _ => (h4 x).fullName) h

/-! ## `attach` -/

def atReach (a : Nat) (s : St) (fn : String) : St :=
  match getNodeByName s fn with | some n => compromise s a n | none => s
/-- one round of `attach` -/
def attachStep (s : St) (x : String × List String) : Except Err St := do
  let s1 ← addAttacker s x.1 none [] []
  pure (updA (x.2.foldl (atReach s.afresh) s1) s.afresh (fun o => { o with entry := o.reached }))
/-- the state after a successful round -/
def attachSt (s : St) (x : String × List String) : St :=
  updA (x.2.foldl (atReach s.afresh) (aaInit s x.1 s.nextAtt)) s.afresh (fun o => { o with entry := o.reached })

theorem attach_eq (s : St) (atts : List (String × List String)) : attach s atts = atts.foldlM attachStep s := rfl
theorem attach_nil (s : St) : attach s [] = .ok s := rfl
theorem attach_cons (s : St) (x : String × List String) (atts : List (String × List String)) :
    attach s (x :: atts) = (attachStep s x >>= fun s1 => attach s1 atts) := by
  rw [attach_eq, List.foldlM_cons]; rfl

theorem attachStep_ok {s s' : St} {x : String × List String} (h : attachStep s x = .ok s') :
    dget s.attIdx s.nextAtt = none ∧ s' = attachSt s x := by
  unfold attachStep at h
  cases h1 : addAttacker s x.1 none [] [] with
  | error e => rw [h1] at h; cases h
  | ok s1 =>
    rw [h1] at h
    obtain ⟨hk, hs1⟩ := addAttacker_ok h1
    injection h with h
    refine ⟨hk, ?_⟩
    rw [← h, hs1]; rfl

theorem attach_cons_ok {s s' : St} {x : String × List String} {atts : List (String × List String)}
    (h : attach s (x :: atts) = .ok s') :
    dget s.attIdx s.nextAtt = none ∧ attach (attachSt s x) atts = .ok s' := by
  rw [attach_cons] at h
  cases h1 : attachStep s x with
  | error e => rw [h1] at h; cases h
  | ok s1 =>
    rw [h1] at h
    obtain ⟨hk, rfl⟩ := attachStep_ok h1
    exact ⟨hk, h⟩

theorem atReach_frame (a : Nat) (s : St) (fn : String) : Frame s (atReach a s fn) := by
  unfold atReach; split
  · exact compromise_frame s a _
  · exact Frame.refl s
theorem atReach_keepsData (a : Nat) (s : St) (fn : String) : KeepsData s (atReach a s fn) := by
  unfold atReach; split
  · exact compromise_keepsData s a _
  · exact KeepsData.refl s
theorem atReach_consistent (a : Nat) (s : St) (fn : String) (h : Consistent s) (ha : a ∈ s.attackers) :
    Consistent (atReach a s fn) := by
  unfold atReach; split
  · next n hn => exact compromise_consistent' s a n h ha (h.idx.name_sound fn n hn).1
  · exact h

theorem aaInit_frameN (s : St) (nm : String) (k : Int) :
    (aaInit s nm k).nodes = s.nodes ∧ (aaInit s nm k).nameIdx = s.nameIdx ∧ (aaInit s nm k).idIdx = s.idIdx ∧
      (aaInit s nm k).nobj = s.nobj ∧ (aaInit s nm k).afresh = s.afresh + 1 ∧
      (aaInit s nm k).attackers = s.attackers ++ [s.afresh] ∧ (aaInit s nm k).nextAtt = max (k + 1) s.nextAtt :=
  ⟨rfl, rfl, rfl, rfl, rfl, rfl, rfl⟩

section attachSt
variable (s : St) (x : String × List String)

theorem attachSt_frame : Frame (aaInit s x.1 s.nextAtt) (attachSt s x) :=
  (Frame.foldl _ _ _ (atReach_frame s.afresh)).trans (Frame.updA _ _ _)
theorem attachSt_keepsData : KeepsData s (attachSt s x) :=
  KeepsData.trans (s' := aaInit s x.1 s.nextAtt) (fun _ => SameData.refl _)
    ((KeepsData.foldl _ _ _ (atReach_keepsData s.afresh)).trans (KeepsData.updA _ _ _))

theorem attachSt_consistent (h : Consistent s) (hk : dget s.attIdx s.nextAtt = none) : Consistent (attachSt s x) := by
  have h0 := aaInit_consistent s x.1 _ h hk
  have ha0 : s.afresh ∈ (aaInit s x.1 s.nextAtt).attackers := (aaInit_mem s x.1 _ _).2 (Or.inr rfl)
  have h1 := foldl_inv (fun t => Consistent t ∧ s.afresh ∈ t.attackers) _ x.2 _
      (fun t i _ ht => ⟨atReach_consistent _ t i ht.1 ht.2, by rw [(atReach_frame _ t i).attackers]; exact ht.2⟩)
      ⟨h0, ha0⟩
  exact updA_entry_consistent _ _ (fun o => o.reached) h1.1 (h1.1.comp.reached_mem _ h1.2)

end attachSt

theorem attach_consistent' (atts : List (String × List String)) (s s' : St) (h : Consistent s)
    (hok : attach s atts = .ok s') : Consistent s' := by
  induction atts generalizing s with
  | nil => rw [attach_nil] at hok; injection hok with hok; exact hok ▸ h
  | cons x atts ih =>
    obtain ⟨hk, h2⟩ := attach_cons_ok hok
    exact ih _ (attachSt_consistent s x h hk) h2

theorem attach_frameN (atts : List (String × List String)) (s s' : St) (hok : attach s atts = .ok s') :
    s'.nodes = s.nodes ∧ s'.nameIdx = s.nameIdx ∧ s'.idIdx = s.idIdx ∧ KeepsData s s' := by
  induction atts generalizing s with
  | nil => rw [attach_nil] at hok; injection hok with hok; subst hok; exact ⟨rfl, rfl, rfl, KeepsData.refl _⟩
  | cons x atts ih =>
    obtain ⟨_, h2⟩ := attach_cons_ok hok
    obtain ⟨i1, i2, i3, i4⟩ := ih _ h2
    have hf := attachSt_frame s x
    exact ⟨i1.trans hf.nodes, i2.trans hf.nameIdx, i3.trans hf.idIdx, (attachSt_keepsData s x).trans i4⟩

theorem attach_namesExact (atts : List (String × List String)) (s s' : St) (h : NamesExact s)
    (hok : attach s atts = .ok s') : NamesExact s' := by
  obtain ⟨h1, h2, _, h4⟩ := attach_frameN atts s s' hok
  exact NamesExact.congr h1 h2 (fun x _ => (h4 x).fullName) h

/-! ### what `attach` builds -/

theorem compromise_aobj_ne (s : St) (a n b : Nat) (h : b ≠ a) : (compromise s a n).aobj b = s.aobj b := by
  rcases compromise_cases s a n with e | e <;> rw [e]
  unfold compStep; rw [updA_aobj, if_neg h]; rfl
theorem compromise_aobj_data (s : St) (a n b : Nat) :
    ((compromise s a n).aobj b).id = (s.aobj b).id ∧ ((compromise s a n).aobj b).name = (s.aobj b).name ∧
      ((compromise s a n).aobj b).entry = (s.aobj b).entry := by
  rcases compromise_cases s a n with e | e <;> rw [e]
  · exact ⟨rfl, rfl, rfl⟩
  · exact ⟨compStep_aid s a n b, compStep_aname s a n b, compStep_entry s a n b⟩

theorem compromise_reached_mem {s : St} {a n : Nat} (h : CompOK s) (ha : a ∈ s.attackers) (hn : n ∈ s.nodes)
    (m : Nat) : m ∈ ((compromise s a n).aobj a).reached ↔ (m ∈ (s.aobj a).reached ∨ m = n) := by
  by_cases hm : a ∈ (s.nobj n).compBy
  · rw [compromise_of_mem hm]
    have : n ∈ (s.aobj a).reached := (h.mirror a ha n hn).2 hm
    exact ⟨Or.inl, fun h' => h'.elim id (fun e => e ▸ this)⟩
  · rw [compromise_of_not_mem hm, compStep_mem_reached]; simp

theorem foldl_atReach_aobj_ne (a : Nat) (l : List String) (s : St) (b : Nat) (h : b ≠ a) :
    ((l.foldl (atReach a) s).aobj b) = s.aobj b := by
  induction l generalizing s with
  | nil => rfl
  | cons fn l ih =>
    rw [List.foldl_cons, ih]
    unfold atReach; split
    · exact compromise_aobj_ne s a _ b h
    · rfl

theorem foldl_atReach_data (a : Nat) (l : List String) (s : St) (b : Nat) :
    ((l.foldl (atReach a) s).aobj b).id = (s.aobj b).id ∧ ((l.foldl (atReach a) s).aobj b).name = (s.aobj b).name := by
  induction l generalizing s with
  | nil => exact ⟨rfl, rfl⟩
  | cons fn l ih =>
    rw [List.foldl_cons]
    obtain ⟨i1, i2⟩ := ih (atReach a s fn)
    rw [i1, i2]
    unfold atReach; split
    · exact ⟨(compromise_aobj_data s a _ b).1, (compromise_aobj_data s a _ b).2.1⟩
    · exact ⟨rfl, rfl⟩

theorem foldl_atReach_reached (a : Nat) (l : List String) (s : St) (h : Consistent s) (ha : a ∈ s.attackers)
    (m : Nat) :
    m ∈ ((l.foldl (atReach a) s).aobj a).reached ↔
      (m ∈ (s.aobj a).reached ∨ ∃ fn ∈ l, getNodeByName s fn = some m) := by
  induction l generalizing s with
  | nil => simp
  | cons fn l ih =>
    have hf := atReach_frame a s fn
    have hgn : ∀ k, getNodeByName (atReach a s fn) k = getNodeByName s k := by
      intro k; unfold getNodeByName; rw [hf.nameIdx]
    rw [List.foldl_cons, ih _ (atReach_consistent a s fn h ha) (by rw [hf.attackers]; exact ha)]
    simp only [hgn, List.mem_cons, exists_eq_or_imp]
    have : m ∈ ((atReach a s fn).aobj a).reached ↔ (m ∈ (s.aobj a).reached ∨ getNodeByName s fn = some m) := by
      unfold atReach; split
      · next n hn =>
        rw [compromise_reached_mem h.comp ha (h.idx.name_sound fn n hn).1, hn]
        constructor
        · rintro (h' | h'); exact Or.inl h'; exact Or.inr (by rw [h'])
        · rintro (h' | h'); exact Or.inl h'; injection h' with h'; exact Or.inr h'.symm
      · next hn => rw [hn]; simp
    rw [this, or_assoc]

/-- the attacker object built by one round of `attach` -/
theorem attachSt_new (s : St) (x : String × List String) (h : Consistent s) (hk : dget s.attIdx s.nextAtt = none) :
    ((attachSt s x).aobj s.afresh).name = x.1 ∧ ((attachSt s x).aobj s.afresh).id = s.nextAtt ∧
      ((attachSt s x).aobj s.afresh).entry = ((attachSt s x).aobj s.afresh).reached ∧
      ∀ n, n ∈ ((attachSt s x).aobj s.afresh).reached ↔ ∃ fn ∈ x.2, getNodeByName s fn = some n := by
  have h0 := aaInit_consistent s x.1 _ h hk
  have ha0 : s.afresh ∈ (aaInit s x.1 s.nextAtt).attackers := (aaInit_mem s x.1 _ _).2 (Or.inr rfl)
  have hnew := aaInit_aobj_new s x.1 s.nextAtt
  have e : (attachSt s x).aobj s.afresh =
      { (x.2.foldl (atReach s.afresh) (aaInit s x.1 s.nextAtt)).aobj s.afresh with
        entry := ((x.2.foldl (atReach s.afresh) (aaInit s x.1 s.nextAtt)).aobj s.afresh).reached } := by
    unfold attachSt; rw [updA_aobj, if_pos rfl]
  obtain ⟨d1, d2⟩ := foldl_atReach_data s.afresh x.2 (aaInit s x.1 s.nextAtt) s.afresh
  rw [e]
  refine ⟨by show _ = x.1; rw [d2, hnew], by show _ = s.nextAtt; rw [d1, hnew], rfl, ?_⟩
  intro n
  show n ∈ ((x.2.foldl (atReach s.afresh) (aaInit s x.1 s.nextAtt)).aobj s.afresh).reached ↔ _
  rw [foldl_atReach_reached _ _ _ h0 ha0, hnew]
  simp only [List.not_mem_nil, false_or]
  rfl

theorem attachSt_old (s : St) (x : String × List String) (b : Nat) (hb : b ≠ s.afresh) :
    (attachSt s x).aobj b = s.aobj b := by
  unfold attachSt
  rw [updA_aobj, if_neg hb, foldl_atReach_aobj_ne _ _ _ _ hb]
  show (if b = s.afresh then _ else _) = _
  rw [if_neg hb]

/-- `attach` appends one attacker per entry, in order; each gets the given name,
its entry points equal its reached steps, and these are exactly the nodes found
under the given full names -/
theorem attach_spec (atts : List (String × List String)) (s s' : St) (h : Consistent s)
    (hok : attach s atts = .ok s') :
    s'.attackers = s.attackers ++ List.range' s.afresh atts.length ∧
    s'.afresh = s.afresh + atts.length ∧
    (∀ b, b < s.afresh → s'.aobj b = s.aobj b) ∧
    ∀ i (hi : i < atts.length),
      (s'.aobj (s.afresh + i)).name = atts[i].1 ∧
      (s'.aobj (s.afresh + i)).id = s.nextAtt + i ∧
      (s'.aobj (s.afresh + i)).entry = (s'.aobj (s.afresh + i)).reached ∧
      ∀ n, n ∈ (s'.aobj (s.afresh + i)).reached ↔ ∃ fn ∈ atts[i].2, getNodeByName s fn = some n := by
  induction atts generalizing s with
  | nil =>
    rw [attach_nil] at hok; injection hok with hok; subst hok
    exact ⟨by simp, rfl, fun _ _ => rfl, fun i hi => absurd hi (Nat.not_lt_zero i)⟩
  | cons x atts ih =>
    obtain ⟨hk, h2⟩ := attach_cons_ok hok
    have hc1 := attachSt_consistent s x h hk
    have hf := attachSt_frame s x
    obtain ⟨i1, i2, i3, i4⟩ := ih _ hc1 h2
    have haf : (attachSt s x).afresh = s.afresh + 1 := hf.afresh
    have hat : (attachSt s x).attackers = s.attackers ++ [s.afresh] := hf.attackers
    have hnx : (attachSt s x).nextAtt = s.nextAtt + 1 := by
      rw [hf.nextAtt]; show max (s.nextAtt + 1) s.nextAtt = _; omega
    have hgn : ∀ k, getNodeByName (attachSt s x) k = getNodeByName s k := by
      intro k; unfold getNodeByName; rw [hf.nameIdx]; rfl
    refine ⟨?_, ?_, ?_, ?_⟩
    · rw [i1, hat, haf, List.length_cons, List.range'_succ, List.append_assoc]; rfl
    · rw [i2, haf, List.length_cons]; omega
    · intro b hb
      rw [i3 b (by rw [haf]; omega), attachSt_old s x b (Nat.ne_of_lt hb)]
    · intro i hi
      cases i with
      | zero =>
        rw [Nat.add_zero, i3 _ (by rw [haf]; omega)]
        have := attachSt_new s x h hk
        simpa using this
      | succ i =>
        have hi' : i < atts.length := by simpa using hi
        have := i4 i hi'
        rw [haf, hnx] at this
        have e1 : s.afresh + (i + 1) = s.afresh + 1 + i := by omega
        have e2 : s.nextAtt + ((i + 1 : Nat) : Int) = s.nextAtt + 1 + (i : Int) := by omega
        rw [e1, e2]
        simpa [hgn] using this

/-! ## `prune` -/

def pruneStep (s : St) (r : Nat) : St := if prunable (s.nobj r) then removeNode s r else s
theorem prune_eq (s : St) : prune s = s.nodes.foldl pruneStep s := rfl

theorem pruneStep_keepsData (s : St) (r : Nat) : KeepsData s (pruneStep s r) := by
  unfold pruneStep; split
  · exact removeNode_keepsData s r
  · exact KeepsData.refl s

theorem foldl_pruneStep (l : List Nat) (s : St) (h : Consistent s) (hnd : l.Nodup) (hl : ∀ r ∈ l, r ∈ s.nodes) :
    Consistent (l.foldl pruneStep s) ∧ KeepsData s (l.foldl pruneStep s) ∧
      (NamesExact s → NamesExact (l.foldl pruneStep s)) ∧
      (l.foldl pruneStep s).nodes = s.nodes.filter (fun x => !(decide (x ∈ l) && prunable (s.nobj x))) := by
  induction l generalizing s with
  | nil =>
    refine ⟨h, KeepsData.refl s, id, ?_⟩
    symm; rw [List.foldl_nil, List.filter_eq_self]
    intro a _; simp
  | cons r l ih =>
    rw [List.nodup_cons] at hnd
    have hr : r ∈ s.nodes := hl r List.mem_cons_self
    rw [List.foldl_cons]
    by_cases hp : prunable (s.nobj r) = true
    · have e : pruneStep s r = removeNode s r := by unfold pruneStep; rw [if_pos hp]
      have hspec := removeNode_spec s r h hr
      have hd := removeNode_keepsData s r
      rw [e]
      obtain ⟨i1, i2, i3, i4⟩ := ih (removeNode s r) (removeNode_consistent' s r h hr) hnd.2 (by
        intro x hx
        rw [hspec.nodes]
        exact (List.mem_erase_of_ne (fun (e' : x = r) => hnd.1 (e' ▸ hx))).2 (hl x (List.mem_cons_of_mem _ hx)))
      refine ⟨i1, hd.trans i2, fun hx => i3 (removeNode_namesExact s r h hx hr), ?_⟩
      rw [i4, hspec.nodes, erase_eq_filter_of_nodup r _ h.nodes.nodup, List.filter_filter]
      apply List.filter_congr
      intro x _
      rw [(hd x).prunable]
      by_cases hxr : x = r
      · subst hxr; simp [hp]
      · simp [hxr]
    · have e : pruneStep s r = s := by unfold pruneStep; rw [if_neg hp]
      rw [e]
      obtain ⟨i1, i2, i3, i4⟩ := ih s h hnd.2 (fun x hx => hl x (List.mem_cons_of_mem _ hx))
      refine ⟨i1, i2, i3, ?_⟩
      rw [i4]
      apply List.filter_congr
      intro x _
      by_cases hxr : x = r
      · subst hxr; simp [hp]
      · simp [hxr]

theorem prune_consistent' (s : St) (h : Consistent s) : Consistent (prune s) :=
  (foldl_pruneStep s.nodes s h h.nodes.nodup (fun _ hr => hr)).1
theorem prune_keepsData (s : St) : KeepsData s (prune s) :=
  KeepsData.foldl _ _ _ pruneStep_keepsData
theorem prune_namesExact (s : St) (h : Consistent s) (hx : NamesExact s) : NamesExact (prune s) :=
  (foldl_pruneStep s.nodes s h h.nodes.nodup (fun _ hr => hr)).2.2.1 hx
theorem prune_nodes' (s : St) (h : Consistent s) :
    (prune s).nodes = s.nodes.filter (fun r => !prunable (s.nobj r)) := by
  rw [prune_eq, (foldl_pruneStep s.nodes s h h.nodes.nodup (fun _ hr => hr)).2.2.2]
  apply List.filter_congr
  intro x hx
  simp [hx]

/-! ## histories -/

theorem detached_children (o : NodeObj) : o.detached.children = [] := rfl
theorem detached_parents (o : NodeObj) : o.detached.parents = [] := rfl
theorem detached_compBy (o : NodeObj) : o.detached.compBy = [] := rfl

/-! ### an object that is already part of the graph is rejected (b653290) -/

theorem addNodeObj_eq (s : St) (r : Nat) (id : Option Int) :
    addNodeObj s r id =
      if dget s.idIdx (s.nobj r).id = some r then .error .valueError else
      if (dget s.idIdx (id.getD s.nextNode)).isSome then .error .valueError else
      .ok { s with
        nobj := fun x => if x = r then { s.nobj r with id := id.getD s.nextNode } else s.nobj x
        nextNode := max (id.getD s.nextNode + 1) s.nextNode
        nodes := s.nodes ++ [r]
        idIdx := dset s.idIdx (id.getD s.nextNode) r
        nameIdx := dset s.nameIdx (fullName { s.nobj r with id := id.getD s.nextNode }) r } := rfl

/-- `add_node` of a node of the graph raises `ValueError`, whatever id is asked for -/
theorem addNodeObj_member_rejected (s : St) (r : Nat) (id : Option Int) (h : Consistent s) (hr : r ∈ s.nodes) :
    addNodeObj s r id = .error .valueError := by
  rw [addNodeObj_eq, if_pos ((h.idx.id_exact _ r).2 ⟨hr, rfl⟩)]

/-- `add_node` raises nothing but `ValueError` -/
theorem addNodeObj_error (s : St) (r : Nat) (id : Option Int) (e : Err) (h : addNodeObj s r id = .error e) :
    e = .valueError := by
  rw [addNodeObj_eq] at h
  split at h
  · cases h; rfl
  · split at h
    · cases h; rfl
    · cases h

/-- `add_attacker` of an attacker of the graph raises `ValueError`, whatever id / node ids are given -/
theorem addAttackerObj_member_rejected (s : St) (a : Nat) (id : Option Int) (e r : List Int) (h : Consistent s)
    (ha : a ∈ s.attackers) : addAttackerObj s a id e r = .error .valueError := by
  unfold addAttackerObj
  rw [if_pos ((h.attIdx.id_exact _ a).2 ⟨ha, rfl⟩)]

theorem applyOp_addNodeObj (s : St) (r : Nat) (id : Option Int) (h : Consistent s) :
    applyOp s (.addNodeObj r id) = s := by
  show (if r ∈ s.nodes then okOr s (addNodeObj s r id) else s) = s
  split
  · next hr => rw [addNodeObj_member_rejected s r id h hr]; rfl
  · rfl

theorem applyOp_addAttackerObj (s : St) (a : Nat) (id : Option Int) (e r : List Int) (h : Consistent s) :
    applyOp s (.addAttackerObj a id e r) = s := by
  show (if a ∈ s.attackers then okOr s (addAttackerObj s a id e r) else s) = s
  split
  · next ha => rw [addAttackerObj_member_rejected s a id e r h ha]; rfl
  · rfl

theorem applyOp_consistent (s : St) (op : Op) (h : Consistent s) : Consistent (applyOp s op) := by
  cases op with
  | addNode o id =>
    show Consistent (okOr s (addNode s o.detached id))
    cases hr : addNode s o.detached id with
    | error e => exact h
    | ok s' => exact addNode_consistent' h rfl rfl rfl hr
  | link p c =>
    show Consistent (if p ∈ s.nodes ∧ c ∈ s.nodes then link s p c else s)
    split
    · next hpc => exact link_consistent' s p c h hpc.1 hpc.2
    · exact h
  | removeNode r =>
    show Consistent (if r ∈ s.nodes then removeNode s r else s)
    split
    · next hr => exact removeNode_consistent' s r h hr
    · exact h
  | addAttacker nm id e r =>
    show Consistent (okOr s (addAttacker s nm id e r))
    cases hr : addAttacker s nm id e r with
    | error e => exact h
    | ok s' => exact addAttacker_consistent' h hr
  | removeAttacker a =>
    show Consistent (if a ∈ s.attackers then removeAttacker s a else s)
    split
    · next ha => exact removeAttacker_consistent' s a h ha
    · exact h
  | compromise a n =>
    show Consistent (if a ∈ s.attackers ∧ n ∈ s.nodes then compromise s a n else s)
    split
    · next han => exact compromise_consistent' s a n h han.1 han.2
    · exact h
  | undo a n =>
    show Consistent (if a ∈ s.attackers ∧ n ∈ s.nodes then undo s a n else s)
    split
    · next han => exact undo_consistent' s a n h han.1 han.2
    · exact h
  | attach atts =>
    show Consistent (okOr s (attach s atts))
    cases hr : attach s atts with
    | error e => exact h
    | ok s' => exact attach_consistent' atts s s' h hr
  | setLabels lab => exact setLabels_consistent' s lab h
  | prune => exact prune_consistent' s h
  | addNodeObj r id => rw [applyOp_addNodeObj s r id h]; exact h
  | addAttackerObj a id e r => rw [applyOp_addAttackerObj s a id e r h]; exact h

theorem applyOp_namesExact (s : St) (op : Op) (h : Consistent s) (hx : NamesExact s) (hop : op.nameFresh s) :
    NamesExact (applyOp s op) := by
  cases op with
  | addNode o id =>
    show NamesExact (okOr s (addNode s o.detached id))
    cases hr : addNode s o.detached id with
    | error e => exact hx
    | ok s' =>
      obtain ⟨_, rfl⟩ := addNode_ok hr
      exact addNodeSt_namesExact s o.detached _ h.nodes hx hop
  | link p c =>
    show NamesExact (if p ∈ s.nodes ∧ c ∈ s.nodes then link s p c else s)
    split
    · exact link_namesExact s p c hx
    · exact hx
  | removeNode r =>
    show NamesExact (if r ∈ s.nodes then removeNode s r else s)
    split
    · next hr => exact removeNode_namesExact s r h hx hr
    · exact hx
  | addAttacker nm id e r =>
    show NamesExact (okOr s (addAttacker s nm id e r))
    cases hr : addAttacker s nm id e r with
    | error e => exact hx
    | ok s' => exact addAttacker_namesExact hx hr
  | removeAttacker a =>
    show NamesExact (if a ∈ s.attackers then removeAttacker s a else s)
    split
    · exact removeAttacker_namesExact s a hx
    · exact hx
  | compromise a n =>
    show NamesExact (if a ∈ s.attackers ∧ n ∈ s.nodes then compromise s a n else s)
    split
    · exact compromise_namesExact s a n hx
    · exact hx
  | undo a n =>
    show NamesExact (if a ∈ s.attackers ∧ n ∈ s.nodes then undo s a n else s)
    split
    · exact undo_namesExact s a n hx
    · exact hx
  | attach atts =>
    show NamesExact (okOr s (attach s atts))
    cases hr : attach s atts with
    | error e => exact hx
    | ok s' => exact attach_namesExact atts s s' hx hr
  | setLabels lab => exact setLabels_namesExact s lab hx
  | prune => exact prune_namesExact s h hx
  | addNodeObj r id => rw [applyOp_addNodeObj s r id h]; exact hx
  | addAttackerObj a id e r => rw [applyOp_addAttackerObj s a id e r h]; exact hx

theorem foldl_applyOp_consistent (ops : List Op) (s : St) (h : Consistent s) : Consistent (ops.foldl applyOp s) :=
  foldl_inv Consistent applyOp ops s (fun s op _ hs => applyOp_consistent s op hs) h

theorem foldl_applyOp_namesExact (ops : List Op) (s : St) (h : Consistent s) (hx : NamesExact s)
    (hf : namesFresh s ops) : NamesExact (ops.foldl applyOp s) := by
  induction ops generalizing s with
  | nil => exact hx
  | cons op ops ih =>
    exact ih _ (applyOp_consistent s op h) (applyOp_namesExact s op h hx hf.1) hf.2

theorem NamesExact.distinct {s : St} (h : NamesExact s) : NamesDistinct s := by
  intro r hr r' hr' e
  have h1 := (h _ r).2 ⟨hr, rfl⟩
  have h2 := (h _ r').2 ⟨hr', rfl⟩
  rw [e, h2] at h1
  injection h1 with h1; exact h1.symm

theorem IdxOK.ids_unique {s : St} (h : IdxOK s) {r r' : Nat} (hr : r ∈ s.nodes) (hr' : r' ∈ s.nodes)
    (e : (s.nobj r).id = (s.nobj r').id) : r = r' := by
  have h1 := (h.id_exact _ r).2 ⟨hr, rfl⟩
  have h2 := (h.id_exact _ r').2 ⟨hr', rfl⟩
  rw [e, h2] at h1
  injection h1 with h1; exact h1.symm

theorem AttIdxOK.ids_unique {s : St} (h : AttIdxOK s) {a a' : Nat} (ha : a ∈ s.attackers) (ha' : a' ∈ s.attackers)
    (e : (s.aobj a).id = (s.aobj a').id) : a = a' := by
  have h1 := (h.id_exact _ a).2 ⟨ha, rfl⟩
  have h2 := (h.id_exact _ a').2 ⟨ha', rfl⟩
  rw [e, h2] at h1
  injection h1 with h1; exact h1.symm

/-! ## small concrete histories used by the `example`s of the Props files -/
namespace Demo
/-- two linked nodes, one of them compromised by an attacker -/
def c09Ops : List Op :=
  [.addNode { name := "a", asset := some "h" } none, .addNode { name := "b", asset := some "h" } none,
   .link 0 1, .addAttacker "eve" none [0] [0, 1], .undo 0 1]
/-- the second `add_node` overwrites the name entry of the first, `remove_node` deletes it -/
def staleNameOps : List Op :=
  [.addNode { name := "a", asset := some "h" } none, .addNode { name := "a", asset := some "h" } none, .removeNode 1]
def c11Ops : List Op :=
  [.addNode { name := "a", asset := some "h" } none, .addNode { name := "b", asset := some "h" } none,
   .link 0 1, .addAttacker "eve" none [0] [0, 1], .attach [("mallory", ["h:b", "h:zzz", "h:b"])]]
def c13Ops : List Op :=
  [.addNode { name := "a", asset := some "h" } none, .addNode { name := "b", asset := some "h", type := .and } none,
   .addNode { name := "c", asset := some "h", type := .defense } none,
   .link 0 1, .link 1 2, .link 0 2, .addAttacker "eve" none [1] [0, 1],
   .setLabels [(1, false, true), (2, false, false)]]
end Demo

end MalVerif.AGS
