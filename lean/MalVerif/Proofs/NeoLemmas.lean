import MalVerif.Model.Neo4j
import MalVerif.Proofs.LegacyLemmas
/-!
# Lemmas about the Neo4j ingestion (C19)

* a relationship set built by repeated `addRel` is the duplicate-free list of what was added (`mem_foldl_setIns`,
  `nodup_foldl_setIns`); the relationships of `ingestModel` / `ingestGraph` as such folds over flat lists;
* `pos`: the position of a live asset in the node list, injective under the coherence invariant;
* `queryPairs` spelled out (`mem_queryPairs`);
* `getModel` over `ingestModel s`: the asset phase (`getModelAssets_ingest`), the frame of the relationship phase
  (`pairStep_aframe`), the relationship phase row by row (`pairStep_proper`, `pairStep_mixed`, `pairFold`) and the
  reconstruction theorem `getModel_ingest`.
-/
namespace MalVerif.Neo
open MalVerif.MS MalVerif.Ser MalVerif.Legacy

/-! ## sets as duplicate-free lists -/

/-- insertion into a set kept as a duplicate-free list -/
def setIns {α : Type} [BEq α] (rs : List α) (r : α) : List α := if rs.contains r then rs else rs ++ [r]

theorem addRel_eq_setIns (rs : List DbRel) (r : DbRel) : addRel rs r = setIns rs r := rfl

theorem mem_setIns {α : Type} [BEq α] [LawfulBEq α] (l : List α) (x y : α) : y ∈ setIns l x ↔ y ∈ l ∨ y = x := by
  unfold setIns
  split
  · next h =>
    constructor
    · exact Or.inl
    · rintro (h' | h')
      · exact h'
      · rw [h']; exact List.contains_iff_mem.1 h
  · rw [List.mem_append, List.mem_singleton]

theorem setIns_nodup {α : Type} [BEq α] [LawfulBEq α] (l : List α) (x : α) (h : l.Nodup) : (setIns l x).Nodup := by
  unfold setIns
  split
  · exact h
  · next hc => exact nodup_append_single h (fun hm => hc (List.contains_iff_mem.2 hm))

theorem mem_foldl_setIns {α : Type} [BEq α] [LawfulBEq α] (l : List α) (rs : List α) (r : α) :
    r ∈ l.foldl setIns rs ↔ r ∈ rs ∨ r ∈ l := by
  induction l generalizing rs with
  | nil => simp
  | cons x l ih =>
    rw [List.foldl_cons, ih, mem_setIns, List.mem_cons]
    constructor
    · rintro ((h | h) | h)
      · exact Or.inl h
      · exact Or.inr (Or.inl h)
      · exact Or.inr (Or.inr h)
    · rintro (h | h | h)
      · exact Or.inl (Or.inl h)
      · exact Or.inl (Or.inr h)
      · exact Or.inr h

theorem nodup_foldl_setIns {α : Type} [BEq α] [LawfulBEq α] (l : List α) (rs : List α) (h : rs.Nodup) :
    (l.foldl setIns rs).Nodup := by
  induction l generalizing rs with
  | nil => exact h
  | cons x l ih => exact ih _ (setIns_nodup _ _ h)

/-! ## `ingest_model` -/

/-- the position of an asset in the node list -/
def pos (s : St) (a : Nat) : Nat := (s.assets.idxOf? a).getD 0

/-- the node sent for an asset -/
def nodeOf (s : St) (a : Nat) : DbNode :=
  { label := (s.aobj a).type, name := (s.aobj a).name, assetId := toString (s.aobj a).id, type := (s.aobj a).type }

theorem ingestModel_nodes (s : St) : (ingestModel s).nodes = s.assets.map (nodeOf s) := rfl

/-- the two relationships sent for a pair of linked assets -/
def relsOfLink (s : St) (l : Nat) : List DbRel :=
  (s.lobj l).left.flatMap fun x => (s.lobj l).right.flatMap fun y =>
    [⟨pos s x, (s.lobj l).lf, pos s y⟩, ⟨pos s y, (s.lobj l).rf, pos s x⟩]

theorem ingestModel_rels (s : St) :
    (ingestModel s).rels = (s.associations.flatMap (relsOfLink s)).foldl setIns [] := by
  unfold relsOfLink
  rw [List.foldl_flatMap]
  show s.associations.foldl _ [] = _
  congr 1
  funext rs l
  show List.foldl _ rs (s.lobj l).left = _
  rw [List.foldl_flatMap]
  congr 1
  funext rs x
  rw [List.foldl_flatMap]
  rfl

theorem mem_relsOfLink (s : St) (l : Nat) (r : DbRel) : r ∈ relsOfLink s l ↔
    ∃ x ∈ (s.lobj l).left, ∃ y ∈ (s.lobj l).right,
      r = ⟨pos s x, (s.lobj l).lf, pos s y⟩ ∨ r = ⟨pos s y, (s.lobj l).rf, pos s x⟩ := by
  unfold relsOfLink
  simp only [List.mem_flatMap, List.mem_cons, List.not_mem_nil, or_false]

theorem mem_ingestModel_rels (s : St) (r : DbRel) : r ∈ (ingestModel s).rels ↔
    ∃ l ∈ s.associations, ∃ x ∈ (s.lobj l).left, ∃ y ∈ (s.lobj l).right,
      r = ⟨pos s x, (s.lobj l).lf, pos s y⟩ ∨ r = ⟨pos s y, (s.lobj l).rf, pos s x⟩ := by
  rw [ingestModel_rels, mem_foldl_setIns, List.mem_flatMap]
  simp only [List.not_mem_nil, false_or, mem_relsOfLink]

theorem ingestModel_rels_nodup (s : St) : (ingestModel s).rels.Nodup := by
  rw [ingestModel_rels]; exact nodup_foldl_setIns _ _ List.nodup_nil

theorem pos_lt {s : St} {a : Nat} (ha : a ∈ s.assets) : pos s a < s.assets.length := by
  unfold pos
  cases h : s.assets.idxOf? a with
  | none => exact absurd ha (List.idxOf?_eq_none_iff.1 h)
  | some i => obtain ⟨hi, _⟩ := List.idxOf?_eq_some_iff.1 h; exact hi

theorem getElem_pos {s : St} {a : Nat} (ha : a ∈ s.assets) : s.assets[pos s a]'(pos_lt ha) = a := by
  have : ∀ i, s.assets.idxOf? a = some i → ∀ h : i < s.assets.length, s.assets[i] = a := by
    intro i h hi
    obtain ⟨_, e, _⟩ := List.idxOf?_eq_some_iff.1 h
    exact e
  cases h : s.assets.idxOf? a with
  | none => exact absurd ha (List.idxOf?_eq_none_iff.1 h)
  | some i =>
    have hp : pos s a = i := by unfold pos; rw [h]; rfl
    have hi : i < s.assets.length := hp ▸ pos_lt ha
    simp only [hp]
    exact this i h hi

/-- distinct live assets have distinct positions -/
theorem pos_inj {s : St} {a b : Nat} (ha : a ∈ s.assets) (hb : b ∈ s.assets) (h : pos s a = pos s b) : a = b := by
  rw [← getElem_pos ha, ← getElem_pos hb]
  simp only [h]

/-- the node at the position of a live asset is the node of that asset -/
theorem node_at_pos {s : St} {a : Nat} (ha : a ∈ s.assets) : (ingestModel s).nodes[pos s a]? = some (nodeOf s a) := by
  rw [ingestModel_nodes, List.getElem?_map, List.getElem?_eq_getElem (pos_lt ha), getElem_pos ha]
  rfl

theorem toString_int_inj {m n : Int} (h : toString m = toString n) : m = n := by
  have := toInt_toString m
  rw [h, toInt_toString] at this
  exact (Option.some.inj this).symm

/-! ## `ingest_attack_graph` -/

def gpos (g : AGS.St) (r : Nat) : Nat := (g.nodes.idxOf? r).getD 0

theorem ingestGraph_rels (tn : AGraph.NType → String) (g : AGS.St) :
    (ingestGraph tn g).rels =
      (g.nodes.flatMap fun r => (g.nobj r).children.map fun c => (gpos g r, gpos g c)).foldl setIns [] := by
  rw [List.foldl_flatMap]
  show g.nodes.foldl _ [] = _
  congr 1
  funext rs r
  rw [List.foldl_map]
  rfl

/-! ## the second query -/

theorem mem_queryPairs (g : Sub) (a : Nat) (f h : String) (b : Nat) : (a, f, h, b) ∈ queryPairs g ↔
    ∃ r1 ∈ g.rels, ∃ r2 ∈ g.rels, r1 ≠ r2 ∧ r1 = ⟨a, f, b⟩ ∧ r2 = ⟨b, h, a⟩ := by
  unfold queryPairs
  simp only [List.mem_flatMap, List.mem_map, List.mem_filter, Bool.and_eq_true, decide_eq_true_eq, Prod.mk.injEq,
    ne_eq]
  constructor
  · rintro ⟨r1, h1, r2, ⟨h2, ⟨e1, e2⟩, hne⟩, rfl, rfl, rfl, rfl⟩
    refine ⟨r1, h1, r2, h2, fun e => hne e.symm, rfl, ?_⟩
    cases r2; simp_all
  · rintro ⟨r1, h1, r2, h2, hne, rfl, rfl⟩
    exact ⟨_, h1, _, ⟨h2, ⟨rfl, rfl⟩, fun e => hne e.symm⟩, rfl, rfl, rfl, rfl⟩

/-! ## `get_model`: the two loops -/

/-- one round of the asset loop of `get_model` -/
def assetStepN (L : Lang) (s : St) (n : DbNode) : Except Err St :=
  match n.assetId.toInt? with
  | none => .error .valueError
  | some id =>
    if n.type = "Attacker" then .ok (addAttacker s none (some id))
    else addAsset L s n.type (some n.name) [] true "{}" (some id) true

/-- `ensure`: add the binary link unless the model has it -/
def ensurePair (L : Lang) (s : St) (cls : String) (x y : Nat) : Except Err St :=
  if assocExists s cls x y then .ok s else addAssociation L s cls [x] [y]

/-- one round of the relationship loop of `get_model`, given the two asset ids read from the nodes of the row -/
def pairBody (L : Lang) (nodes : List AssocDecl) (s : St) (row : Nat × String × String × Nat)
    (lid? rid? : Option Int) : Except Err St :=
  match lid?, rid? with
  | some lid, some rid =>
    if row.2.1 = "firstSteps" || row.2.2.1 = "firstSteps" then
      match getAttackerById s (if row.2.1 = "firstSteps" then (rid, lid, row.2.2.1) else (lid, rid, row.2.1)).1,
            getAssetById s (if row.2.1 = "firstSteps" then (rid, lid, row.2.2.1) else (lid, rid, row.2.1)).2.1 with
      | some t, some x => .ok (updT s t (fun o => { o with entry := o.entry ++
          [(x, [(if row.2.1 = "firstSteps" then (rid, lid, row.2.2.1) else (lid, rid, row.2.1)).2.2])] }))
      | _, _ => .error .lookupError
    else
      match getAssetById s lid, getAssetById s rid with
      | some la, some ra =>
        match LG.lookupAssoc L nodes row.2.1 row.2.2.1 (s.aobj la).type (s.aobj ra).type with
        | .ok (some d) =>
          if d.leftField = row.2.1 then ensurePair L s (className L d) la ra else ensurePair L s (className L d) ra la
        | .ok none => .ok s
        | .error _ => .error .lookupError
      | _, _ => .error .lookupError
  | _, _ => .error .valueError

def pairStep (L : Lang) (nodes : List AssocDecl) (g : Sub) (s : St) (row : Nat × String × String × Nat) : Except Err St :=
  pairBody L nodes s row ((g.nodes[row.1]?).bind (·.assetId.toInt?)) ((g.nodes[row.2.2.2]?).bind (·.assetId.toInt?))

theorem getModel_eq (L : Lang) (nodes : List AssocDecl) (g : Sub) :
    getModel L nodes g =
      ((queryAssets g).foldlM (fun s e => assetStepN L s e.2) ({} : St) >>= fun s1 =>
        (queryPairs g).foldlM (pairStep L nodes g) s1) := by
  rfl

theorem queryAssets_snd (g : Sub) : (queryAssets g).map (·.2) = g.nodes := by
  unfold queryAssets
  apply List.ext_getElem?
  intro i
  rw [List.getElem?_map]
  by_cases hi : i < g.nodes.length
  · have : ((List.range g.nodes.length).zip g.nodes)[i]? = some (i, g.nodes[i]) := by
      rw [List.getElem?_zip_eq_some]
      exact ⟨List.getElem?_range hi, List.getElem?_eq_getElem hi⟩
    rw [this, List.getElem?_eq_getElem hi]; rfl
  · have h1 : g.nodes[i]? = none := List.getElem?_eq_none (Nat.le_of_not_lt hi)
    have h2 : ((List.range g.nodes.length).zip g.nodes)[i]? = none := by
      apply List.getElem?_eq_none
      rw [List.length_zip, List.length_range, Nat.min_self]
      exact Nat.le_of_not_lt hi
    rw [h1, h2]; rfl

theorem assetLoop_eq (L : Lang) (g : Sub) (s : St) :
    (queryAssets g).foldlM (fun s e => assetStepN L s e.2) s = g.nodes.foldlM (assetStepN L) s := by
  have := foldlM_map' (assetStepN L) (fun e : Nat × DbNode => e.2) (queryAssets g) s
  rw [queryAssets_snd] at this
  exact this.symm

/-- the asset object `get_model` rebuilds: no defense values, no extras -/
def bareObj (o : AssetObj) : AssetObj := { id := o.id, name := o.name, type := o.type }
def bareEntry (o : AssetObj) : Key × AssetEntry := (.i o.id, .full o.name o.type [] none)

theorem assetStepN_node (L : Lang) (s s1 : St) (a : Nat) (hna : (s.aobj a).type ≠ "Attacker") :
    assetStepN L s1 (nodeOf s a) = loadAsset L (fun _ => true) s1 (bareEntry (s.aobj a)) := by
  unfold assetStepN nodeOf
  dsimp only
  rw [toInt_toString]
  dsimp only
  rw [if_neg hna]
  rfl

/-- the asset loop over what `ingest_model` sent -/
theorem getModelAssets_ingest (L : Lang) (s : St) (h : Inv s)
    (hk : ∀ a ∈ s.assets, (L.findAsset (s.aobj a).type).isSome = true)
    (hna : ∀ a ∈ s.assets, (s.aobj a).type ≠ "Attacker") :
    ∃ s1, (ingestModel s).nodes.foldlM (assetStepN L) ({} : St) = .ok s1 ∧ Inv s1 ∧
      s1.assets.map s1.aobj = s.assets.map (fun a => bareObj (s.aobj a)) ∧ s1.associations = [] ∧ s1.attackers = [] := by
  obtain ⟨s1, h1, hi1, hobjs, hl1, ht1, _, _⟩ := loadAssets_ok L (fun _ => true)
    (s.assets.map (fun a => bareEntry (s.aobj a))) {} init_inv'
    (by intro e he; obtain ⟨a, _, rfl⟩ := List.mem_map.1 he; rfl)
    (by intro e he; obtain ⟨a, _, rfl⟩ := List.mem_map.1 he; rfl)
    (by intro e he; obtain ⟨a, ham, rfl⟩ := List.mem_map.1 he; exact hk a ham)
    (by intro e he; obtain ⟨a, ham, rfl⟩ := List.mem_map.1 he; intro d hd; exact absurd hd List.not_mem_nil)
    (by rw [List.map_map]; exact asset_ids_nodup h)
    (fun _ _ hm => absurd hm List.not_mem_nil)
    (by rw [List.map_map]; exact asset_names_nodup h)
    (fun _ _ hm => absurd hm List.not_mem_nil)
  refine ⟨s1, ?_, hi1, ?_, hl1, ht1⟩
  · rw [ingestModel_nodes, foldlM_map',
      foldlM_congr_mem _ (fun s1 a => loadAsset L (fun _ => true) s1 (bareEntry (s.aobj a))) s.assets
        (fun a ham s1 => assetStepN_node L s s1 a (hna a ham)),
      ← foldlM_map' (loadAsset L (fun _ => true)) (fun a => bareEntry (s.aobj a))]
    exact h1
  · rw [hobjs, List.map_map]; rfl

/-! ### the frame of the relationship loop -/

theorem foldlM_rel {α : Type} (R : St → St → Prop) (hrefl : ∀ s, R s s) (htrans : ∀ a b c, R a b → R b c → R a c)
    (f : St → α → Except Err St) (hf : ∀ s x s', f s x = .ok s' → R s s') (l : List α) (s s' : St)
    (h : l.foldlM f s = .ok s') : R s s' := by
  induction l generalizing s with
  | nil => injection h with h; exact h ▸ hrefl s
  | cons x l ih =>
    rw [List.foldlM_cons] at h
    cases hx : f s x with
    | error e => rw [hx] at h; cases h
    | ok s1 => rw [hx] at h; exact htrans _ _ _ (hf s x s1 hx) (ih s1 h)

theorem ensurePair_aframe {L : Lang} {s s' : St} {cls : String} {x y : Nat} (h : ensurePair L s cls x y = .ok s') :
    AFrame s s' := by
  unfold ensurePair at h
  split at h
  · injection h with h; exact h ▸ AFrame.refl s
  · obtain ⟨c, _, rfl⟩ := addAssociation_ok h
    exact addAssocSt_aframe s _

theorem pairStep_aframe {L : Lang} {nodes : List AssocDecl} {g : Sub} {s s' : St} {row : Nat × String × String × Nat}
    (h : pairStep L nodes g s row = .ok s') : AFrame s s' := by
  unfold pairStep pairBody at h
  split at h
  · split at h
    · split at h
      · injection h with h
        exact h ▸ ⟨rfl, fun _ => rfl, fun _ => rfl, fun _ => rfl, fun _ => rfl, fun _ => rfl⟩
      · cases h
    · split at h
      · split at h
        · split at h
          · exact ensurePair_aframe h
          · exact ensurePair_aframe h
        · injection h with h; exact h ▸ AFrame.refl s
        · cases h
      · cases h
  · cases h

/-! ## `get_model`: the relationship loop over what `ingest_model` sent -/

/-- the two fields of a link have different names -/
def FieldsDiffer (s : St) : Prop := ∀ l ∈ s.associations, (s.lobj l).lf ≠ (s.lobj l).rf
instance (s : St) : Decidable (FieldsDiffer s) := inferInstanceAs (Decidable (∀ l ∈ s.associations, _))

/-- `u -[f]-> w` is one of the relationships sent: `u`, `w` are the two ends of a pair of a link and `f` is the
field in which `w` is seen from `u`'s side of the record (the left field for a left member) -/
def HalfEdge (s : St) (u : Nat) (f : String) (w : Nat) : Prop :=
  ∃ l ∈ s.associations, (u ∈ (s.lobj l).left ∧ f = (s.lobj l).lf ∧ w ∈ (s.lobj l).right) ∨
    (u ∈ (s.lobj l).right ∧ f = (s.lobj l).rf ∧ w ∈ (s.lobj l).left)

/-- the row `(u, f, g, w)` of the second query is the pair of relationships of ONE link -/
def ProperRow (s : St) (u : Nat) (f g : String) (w : Nat) : Prop :=
  ∃ l ∈ s.associations, (u ∈ (s.lobj l).left ∧ w ∈ (s.lobj l).right ∧ f = (s.lobj l).lf ∧ g = (s.lobj l).rf) ∨
    (u ∈ (s.lobj l).right ∧ w ∈ (s.lobj l).left ∧ f = (s.lobj l).rf ∧ g = (s.lobj l).lf)

/-- the converse of `PairsResolve`: a row that pairs the relationship of one link with the opposite relationship
of another link, and is not the pair of relationships of any link, is matched by no declaration -/
def NoMixedMatch (L : Lang) (nodes : List AssocDecl) (s : St) : Prop :=
  ∀ u f w g, HalfEdge s u f w → HalfEdge s w g u → ¬ ProperRow s u f g w →
    LG.lookupAssoc L nodes f g (s.aobj u).type (s.aobj w).type = .ok none

def pairOf (s : St) (l x y : Nat) : Pair :=
  ⟨(s.lobj l).cls, (s.lobj l).lf, (s.lobj l).rf, (s.aobj x).id, (s.aobj y).id⟩

theorem pairOf_mem {s : St} {l x y : Nat} (hl : l ∈ s.associations) (hx : x ∈ (s.lobj l).left)
    (hy : y ∈ (s.lobj l).right) : pairOf s l x y ∈ pairsOf s := (mem_pairsOf s _).2 ⟨l, hl, x, hx, y, hy, rfl⟩

/-- the two rows the second query returns for a pair of a link -/
def RowFor (s : St) (l x y : Nat) (row : Nat × String × String × Nat) : Prop :=
  row = (pos s x, (s.lobj l).lf, (s.lobj l).rf, pos s y) ∨ row = (pos s y, (s.lobj l).rf, (s.lobj l).lf, pos s x)

/-- the invariant of the relationship loop: a coherent model that has the assets of `s` (by id and type) and some of
the pairwise links of `s`, none twice -/
structure J (s s' : St) : Prop where
  inv : Inv s'
  same : SameIdType s s'
  sub : ∀ v ∈ s'.associations.map (assocView s'), v ∈ (pairsOf s).map Pair.view
  nodup : (s'.associations.map (assocView s')).Nodup

theorem lookupAssoc_symm (L : Lang) (nodes : List AssocDecl) (f1 f2 t1 t2 : String) :
    LG.lookupAssoc L nodes f1 f2 t1 t2 = LG.lookupAssoc L nodes f2 f1 t2 t1 := by
  unfold LG.lookupAssoc
  rw [Bool.or_comm (L.findAsset t1).isNone]
  have : (fun (a : AssocDecl) =>
      (decide (a.leftField = f1) && decide (a.rightField = f2) && L.isSub t1 a.leftAsset && L.isSub t2 a.rightAsset) ||
      (decide (a.leftField = f2) && decide (a.rightField = f1) && L.isSub t2 a.leftAsset && L.isSub t1 a.rightAsset)) =
    (fun (a : AssocDecl) =>
      (decide (a.leftField = f2) && decide (a.rightField = f1) && L.isSub t2 a.leftAsset && L.isSub t1 a.rightAsset) ||
      (decide (a.leftField = f1) && decide (a.rightField = f2) && L.isSub t1 a.leftAsset && L.isSub t2 a.rightAsset)) := by
    funext a; rw [Bool.or_comm]
  rw [this]

theorem loadAssoc_pair_entry (L : Lang) (s2 : St) (p : Pair) (la ra : Nat) (c : AssocClass)
    (hla : getAssetById s2 p.i = some la) (hra : getAssetById s2 p.j = some ra)
    (hfound : (assocClasses L).find? (·.cls = p.cls) = some c) (hclf : c.lf = p.lf) (hcrf : c.rf = p.rf) :
    loadAssoc L s2 p.entry = addAssociation L s2 p.cls [la] [ra] := by
  rw [loadAssoc_eq L s2 p.entry [la] [ra] c (resolveIds_single hla) (resolveIds_single hra) hfound hclf hcrf]
  show (match addAssociation L s2 p.cls [la] [ra] with
    | .error er => (Except.error er : Except Err St) | .ok s' => Except.ok (withExtras s' s2.lfresh none)) = _
  cases addAssociation L s2 p.cls [la] [ra] <;> rfl

/-- `ensurePair` for a pair of a link of `s`: the link is there afterwards, exactly once -/
theorem ensurePair_spec (L : Lang) (nodes : List AssocDecl) (s s' : St) (h : Inv s) (hv : Valid L s)
    (hr : PairsResolve L nodes s) (hj : J s s') (l x y : Nat) (hl : l ∈ s.associations) (hx : x ∈ (s.lobj l).left)
    (hy : y ∈ (s.lobj l).right) (x' y' : Nat) (hx' : getAssetById s' (s.aobj x).id = some x')
    (hy' : getAssetById s' (s.aobj y).id = some y') :
    ∃ s'', ensurePair L s' (s.lobj l).cls x' y' = .ok s'' ∧ J s s'' ∧
      (∀ v ∈ s'.associations.map (assocView s'), v ∈ s''.associations.map (assocView s'')) ∧
      (pairOf s l x y).view ∈ s''.associations.map (assocView s'') := by
  obtain ⟨hx'm, hx'id⟩ := getAssetById_some hx'
  obtain ⟨hy'm, hy'id⟩ := getAssetById_some hy'
  have hp := pairOf_mem hl hx hy
  unfold ensurePair
  by_cases hex : assocExists s' (s.lobj l).cls x' y' = true
  · rw [if_pos hex]
    refine ⟨s', rfl, hj, fun v hv => hv, ?_⟩
    unfold assocExists at hex
    obtain ⟨l', hl', hc⟩ := List.any_eq_true.1 hex
    rw [Bool.and_eq_true, List.contains_iff_mem, List.contains_iff_mem] at hc
    obtain ⟨hl'm, hl'c⟩ := (hj.inv.tta.iff _ _).1 hl'
    have hvm : assocView s' l' ∈ s'.associations.map (assocView s') := List.mem_map.2 ⟨l', hl'm, rfl⟩
    obtain ⟨p', hp', e0⟩ := List.mem_map.1 (hj.sub _ hvm)
    have e0' := e0
    unfold assocView Pair.view at e0
    simp only [AssocView.mk.injEq] at e0
    obtain ⟨ec, _, eleft, _, eright, _⟩ := e0
    have h1 := hc.1; have h2 := hc.2
    rw [← eleft, List.mem_singleton] at h1
    rw [← eright, List.mem_singleton] at h2
    have hk : p'.key = (pairOf s l x y).key := by
      unfold Pair.key pairOf
      rw [ec, hl'c, ← h1, ← h2, hx'id, hy'id]
    have : p' = pairOf s l x y := inj_of_nodup_map Pair.key _ (pairKeys_nodup h hv) p' hp' _ hp hk
    rw [← this, e0']; exact hvm
  · rw [if_neg hex]
    obtain ⟨d, hd, hdl, hfound, hinst⟩ := hr l hl x hx y hy
    have hcls : className L d = (s.lobj l).cls := hinst.cls.symm
    have hfound' : (assocClasses L).find? (·.cls = (s.lobj l).cls) = some (classOf L d) := by rw [← hcls]; exact hfound
    obtain ⟨x2, hx2, ex1, ex2⟩ := hj.same x (h.links.left_live l hl x hx)
    obtain ⟨y2, hy2, ey1, ey2⟩ := hj.same y (h.links.right_live l hl y hy)
    have ex : x2 = x' := hj.inv.assets.ids_inj x2 hx2 x' hx'm (ex1.trans hx'id.symm)
    have ey : y2 = y' := hj.inv.assets.ids_inj y2 hy2 y' hy'm (ey1.trans hy'id.symm)
    subst ex; subst ey
    have hload : AssocLoadable L s' (pairOf s l x y).entry (classOf L d) [(s.aobj x).id] [(s.aobj y).id] := by
      constructor
      · rfl
      · rfl
      · exact hfound'
      · exact hinst.lf.symm
      · exact hinst.rf.symm
      · intro i hi
        rw [List.mem_singleton] at hi; subst hi
        exact ⟨x2, hx2, ex1, by rw [ex2]; exact hinst.left_type x hx⟩
      · intro i hi
        rw [List.mem_singleton] at hi; subst hi
        exact ⟨y2, hy2, ey1, by rw [ey2]; exact hinst.right_type y hy⟩
      · exact okCount_mono _ (List.length_pos_of_mem hx) hinst.left_count
      · exact okCount_mono _ (List.length_pos_of_mem hy) hinst.right_count
      · exact nodup_single _
      · exact nodup_single _
      · intro l' hl' hc' i hi j hj' ⟨hil, hjr⟩
        rw [List.mem_singleton] at hi hj'
        subst hi; subst hj'
        apply hex
        obtain ⟨a', ha', ea⟩ := List.mem_map.1 hil
        obtain ⟨b', hb', eb⟩ := List.mem_map.1 hjr
        exact assocExists_of_pair s' _ x2 y2 l' a' b' ((hj.inv.tta.iff _ _).2 ⟨hl', hc'⟩) ha' hb'
          (ex1.trans ea.symm) (ey1.trans eb.symm)
    obtain ⟨s'', hs'', hi'', hf'', hlv'', _, _⟩ := loadAssoc_ok_of L s' _ (classOf L d) _ _ hj.inv hload
    rw [loadAssoc_pair_entry L s' (pairOf s l x y) x2 y2 (classOf L d) hx' hy' hfound' hinst.lf.symm hinst.rf.symm] at hs''
    have hview : (⟨(pairOf s l x y).entry.cls, (pairOf s l x y).entry.lf, [(s.aobj x).id], (pairOf s l x y).entry.rf,
        [(s.aobj y).id], (pairOf s l x y).entry.extras.getD "{}"⟩ : AssocView) = (pairOf s l x y).view := rfl
    rw [hview] at hlv''
    have hnew : (pairOf s l x y).view ∉ s'.associations.map (assocView s') := by
      intro hm
      obtain ⟨l', hl', e0⟩ := List.mem_map.1 hm
      unfold assocView Pair.view pairOf at e0
      simp only [AssocView.mk.injEq] at e0
      obtain ⟨ec, _, eleft, _, eright, _⟩ := e0
      have h1 : (s.aobj x).id ∈ (s'.lobj l').left.map (fun a => (s'.aobj a).id) := by rw [eleft]; exact List.mem_cons_self
      have h2 : (s.aobj y).id ∈ (s'.lobj l').right.map (fun a => (s'.aobj a).id) := by rw [eright]; exact List.mem_cons_self
      obtain ⟨a', ha', ea⟩ := List.mem_map.1 h1
      obtain ⟨b', hb', eb⟩ := List.mem_map.1 h2
      exact hex (assocExists_of_pair s' _ x2 y2 l' a' b' ((hj.inv.tta.iff _ _).2 ⟨hl', ec⟩) ha' hb'
        (ex1.trans ea.symm) (ey1.trans eb.symm))
    refine ⟨s'', hs'', ⟨hi'', hj.same.of_aframe hf'', ?_, ?_⟩, ?_, ?_⟩
    · intro v hvm
      rw [hlv''] at hvm
      rcases mem_append_single.1 hvm with hvm | hvm
      · exact hj.sub v hvm
      · rw [hvm]; exact List.mem_map.2 ⟨_, hp, rfl⟩
    · rw [hlv'']; exact nodup_append_single hj.nodup hnew
    · intro v hvm; rw [hlv'']; exact List.mem_append_left _ hvm
    · rw [hlv'']; exact mem_append_single.2 (Or.inr rfl)

/-- a round of the relationship loop on a row between two live assets, up to the lookup -/
theorem pairStep_live (L : Lang) (nodes : List AssocDecl) (s s' : St) (u w : Nat) (hu : u ∈ s.assets)
    (hw : w ∈ s.assets) (f g : String) (hf : f ≠ "firstSteps") (hg : g ≠ "firstSteps") (u' w' : Nat)
    (hu' : getAssetById s' (s.aobj u).id = some u') (hw' : getAssetById s' (s.aobj w).id = some w') :
    pairStep L nodes (ingestModel s) s' (pos s u, f, g, pos s w) =
      match LG.lookupAssoc L nodes f g (s'.aobj u').type (s'.aobj w').type with
      | .ok (some d) =>
        if d.leftField = f then ensurePair L s' (className L d) u' w' else ensurePair L s' (className L d) w' u'
      | .ok none => .ok s'
      | .error _ => .error .lookupError := by
  unfold pairStep
  dsimp only
  rw [node_at_pos hu, node_at_pos hw]
  have e1 : (some (nodeOf s u)).bind (·.assetId.toInt?) = some (s.aobj u).id := toInt_toString _
  have e2 : (some (nodeOf s w)).bind (·.assetId.toInt?) = some (s.aobj w).id := toInt_toString _
  rw [e1, e2]
  unfold pairBody
  dsimp only
  have hfs : (decide (f = "firstSteps") || decide (g = "firstSteps")) = false := by simp [hf, hg]
  rw [hfs]
  rw [if_neg (by simp), hu', hw']

/-- the asset of the current model with the id of an asset of `s` -/
theorem J.find {s s' : St} (hj : J s s') {a : Nat} (ha : a ∈ s.assets) :
    ∃ a', getAssetById s' (s.aobj a).id = some a' ∧ (s'.aobj a').type = (s.aobj a).type := by
  obtain ⟨a1, h1, h2, h3⟩ := hj.same a ha
  exact ⟨a1, (C05.getAssetById_iff s' hj.inv _ a1).2 ⟨h1, h2⟩, h3⟩

/-- a row that is the pair of relationships of one link: the link is there afterwards -/
theorem pairStep_proper (L : Lang) (nodes : List AssocDecl) (s s' : St) (h : Inv s) (hv : Valid L s)
    (hr : PairsResolve L nodes s) (hfs : NoFirstSteps s) (hfd : FieldsDiffer s) (hj : J s s') (l x y : Nat)
    (hl : l ∈ s.associations) (hx : x ∈ (s.lobj l).left) (hy : y ∈ (s.lobj l).right)
    (row : Nat × String × String × Nat) (hrow : RowFor s l x y row) :
    ∃ s'', pairStep L nodes (ingestModel s) s' row = .ok s'' ∧ J s s'' ∧
      (∀ v ∈ s'.associations.map (assocView s'), v ∈ s''.associations.map (assocView s'')) ∧
      (pairOf s l x y).view ∈ s''.associations.map (assocView s'') := by
  have hxl := h.links.left_live l hl x hx
  have hyl := h.links.right_live l hl y hy
  obtain ⟨x', hx', tx⟩ := hj.find hxl
  obtain ⟨y', hy', ty⟩ := hj.find hyl
  obtain ⟨d, hd, hdl, _, hinst⟩ := hr l hl x hx y hy
  have hcls : className L d = (s.lobj l).cls := hinst.cls.symm
  have hspec := ensurePair_spec L nodes s s' h hv hr hj l x y hl hx hy x' y' hx' hy'
  rcases hrow with rfl | rfl
  · rw [pairStep_live L nodes s s' x y hxl hyl _ _ (hfs l hl).1 (hfs l hl).2 x' y' hx' hy', tx, ty, hd]
    dsimp only
    rw [if_pos hdl, hcls]
    exact hspec
  · rw [pairStep_live L nodes s s' y x hyl hxl _ _ (hfs l hl).2 (hfs l hl).1 y' x' hy' hx', tx, ty,
      lookupAssoc_symm, hd]
    dsimp only
    rw [if_neg (fun e => hfd l hl (hdl.symm.trans e)), hcls]
    exact hspec

/-- a row that no declaration matches is skipped -/
theorem pairStep_mixed (L : Lang) (nodes : List AssocDecl) (s s' : St) (hj : J s s') (u w : Nat) (hu : u ∈ s.assets)
    (hw : w ∈ s.assets) (f g : String) (hf : f ≠ "firstSteps") (hg : g ≠ "firstSteps")
    (hlook : LG.lookupAssoc L nodes f g (s.aobj u).type (s.aobj w).type = .ok none) :
    pairStep L nodes (ingestModel s) s' (pos s u, f, g, pos s w) = .ok s' := by
  obtain ⟨u', hu', tu⟩ := hj.find hu
  obtain ⟨w', hw', tw⟩ := hj.find hw
  rw [pairStep_live L nodes s s' u w hu hw f g hf hg u' w' hu' hw', tu, tw, hlook]

/-- what is known about a row of the second query -/
def RowOk (L : Lang) (nodes : List AssocDecl) (s : St) (row : Nat × String × String × Nat) : Prop :=
  (∃ l ∈ s.associations, ∃ x ∈ (s.lobj l).left, ∃ y ∈ (s.lobj l).right, RowFor s l x y row) ∨
  (∃ u ∈ s.assets, ∃ w ∈ s.assets, ∃ f g, row = (pos s u, f, g, pos s w) ∧ f ≠ "firstSteps" ∧ g ≠ "firstSteps" ∧
    LG.lookupAssoc L nodes f g (s.aobj u).type (s.aobj w).type = .ok none)

/-- the relationship loop -/
theorem pairFold (L : Lang) (nodes : List AssocDecl) (s : St) (h : Inv s) (hv : Valid L s)
    (hr : PairsResolve L nodes s) (hfs : NoFirstSteps s) (hfd : FieldsDiffer s)
    (rows : List (Nat × String × String × Nat)) (hrows : ∀ row ∈ rows, RowOk L nodes s row) (s' : St) (hj : J s s') :
    ∃ s'', rows.foldlM (pairStep L nodes (ingestModel s)) s' = .ok s'' ∧ J s s'' ∧
      (∀ v ∈ s'.associations.map (assocView s'), v ∈ s''.associations.map (assocView s'')) ∧
      ∀ row ∈ rows, ∀ l ∈ s.associations, ∀ x ∈ (s.lobj l).left, ∀ y ∈ (s.lobj l).right, RowFor s l x y row →
        (pairOf s l x y).view ∈ s''.associations.map (assocView s'') := by
  induction rows generalizing s' with
  | nil => exact ⟨s', rfl, hj, fun v hv => hv, fun row hrow => absurd hrow List.not_mem_nil⟩
  | cons row rows ih =>
    have hstep : ∃ s1, pairStep L nodes (ingestModel s) s' row = .ok s1 ∧ J s s1 ∧
        (∀ v ∈ s'.associations.map (assocView s'), v ∈ s1.associations.map (assocView s1)) := by
      rcases hrows row List.mem_cons_self with ⟨l, hl, x, hx, y, hy, hrow⟩ | ⟨u, hu, w, hw, f, g, rfl, hf, hg, hlook⟩
      · obtain ⟨s1, e1, e2, e3, _⟩ := pairStep_proper L nodes s s' h hv hr hfs hfd hj l x y hl hx hy row hrow
        exact ⟨s1, e1, e2, e3⟩
      · exact ⟨s', pairStep_mixed L nodes s s' hj u w hu hw f g hf hg hlook, hj, fun v hv => hv⟩
    obtain ⟨s1, e1, hj1, hmono1⟩ := hstep
    obtain ⟨s'', e2, hj2, hmono2, hall⟩ := ih (fun r hr' => hrows r (List.mem_cons_of_mem _ hr')) s1 hj1
    refine ⟨s'', ?_, hj2, fun v hv => hmono2 v (hmono1 v hv), ?_⟩
    · rw [List.foldlM_cons, e1]; exact e2
    · intro r hr' l hl x hx y hy hrow
      rcases List.mem_cons.1 hr' with rfl | hr'
      · obtain ⟨s1', e1', _, _, hin⟩ := pairStep_proper L nodes s s' h hv hr hfs hfd hj l x y hl hx hy r hrow
        rw [e1] at e1'
        injection e1' with e1'
        subst e1'
        exact hmono2 _ hin
      · exact hall r hr' l hl x hx y hy hrow

/-- a relationship that was sent is a half edge between two live assets -/
theorem rel_halfEdge {s : St} (h : Inv s) {r : DbRel} (hr : r ∈ (ingestModel s).rels) :
    ∃ u ∈ s.assets, ∃ w ∈ s.assets, r = ⟨pos s u, r.type, pos s w⟩ ∧ HalfEdge s u r.type w := by
  obtain ⟨l, hl, x, hx, y, hy, e | e⟩ := (mem_ingestModel_rels s r).1 hr
  · exact ⟨x, h.links.left_live l hl x hx, y, h.links.right_live l hl y hy, by rw [e], l, hl,
      Or.inl ⟨hx, by rw [e], hy⟩⟩
  · exact ⟨y, h.links.right_live l hl y hy, x, h.links.left_live l hl x hx, by rw [e], l, hl,
      Or.inr ⟨hy, by rw [e], hx⟩⟩

theorem halfEdge_ne_firstSteps {s : St} (hfs : NoFirstSteps s) {u w : Nat} {f : String} (h : HalfEdge s u f w) :
    f ≠ "firstSteps" := by
  obtain ⟨l, hl, ⟨_, e, _⟩ | ⟨_, e, _⟩⟩ := h
  · rw [e]; exact (hfs l hl).1
  · rw [e]; exact (hfs l hl).2

/-- every row of the second query over what was sent is of one of the two kinds -/
theorem rows_ok (L : Lang) (nodes : List AssocDecl) (s : St) (h : Inv s) (hfs : NoFirstSteps s)
    (hm : NoMixedMatch L nodes s) : ∀ row ∈ queryPairs (ingestModel s), RowOk L nodes s row := by
  intro row hrow
  obtain ⟨a, f, g, b⟩ := row
  obtain ⟨r1, h1, r2, h2, _, rfl, rfl⟩ := (mem_queryPairs _ a f g b).1 hrow
  obtain ⟨u, hu, w, hw, e1, he1⟩ := rel_halfEdge h h1
  obtain ⟨w2, hw2, u2, hu2, e2, he2⟩ := rel_halfEdge h h2
  simp only [DbRel.mk.injEq, true_and] at e1 e2
  obtain ⟨rfl, rfl⟩ := e1
  have ew : w2 = w := pos_inj hw2 hw e2.1.symm
  have eu : u2 = u := pos_inj hu2 hu e2.2.symm
  subst ew; subst eu
  by_cases hp : ProperRow s u2 f g w2
  · left
    obtain ⟨l, hl, ⟨hx, hy, rfl, rfl⟩ | ⟨hy, hx, rfl, rfl⟩⟩ := hp
    · exact ⟨l, hl, u2, hx, w2, hy, Or.inl rfl⟩
    · exact ⟨l, hl, w2, hx, u2, hy, Or.inr rfl⟩
  · right
    exact ⟨u2, hu, w2, hw, f, g, rfl, halfEdge_ne_firstSteps hfs he1, halfEdge_ne_firstSteps hfs he2,
      hm u2 f w2 g he1 he2 hp⟩

/-- the row of a pair of a link is returned by the second query -/
theorem row_mem (s : St) (hfd : FieldsDiffer s) (l x y : Nat) (hl : l ∈ s.associations) (hx : x ∈ (s.lobj l).left)
    (hy : y ∈ (s.lobj l).right) :
    (pos s x, (s.lobj l).lf, (s.lobj l).rf, pos s y) ∈ queryPairs (ingestModel s) := by
  rw [mem_queryPairs]
  refine ⟨_, (mem_ingestModel_rels s _).2 ⟨l, hl, x, hx, y, hy, Or.inl rfl⟩, _,
    (mem_ingestModel_rels s _).2 ⟨l, hl, x, hx, y, hy, Or.inr rfl⟩, ?_, rfl, rfl⟩
  intro e
  injection e with _ e _
  exact hfd l hl e

/-- reading back what `ingest_model` sent: the assets (no defense values, no extras), and exactly the pairwise
expansion of the links, each once -/
theorem getModel_ingest (L : Lang) (nodes : List AssocDecl) (s : St) (h : Inv s) (hv : Valid L s)
    (hna : ∀ a ∈ s.assets, (s.aobj a).type ≠ "Attacker") (hr : PairsResolve L nodes s) (hm : NoMixedMatch L nodes s)
    (hfs : NoFirstSteps s) (hfd : FieldsDiffer s) :
    ∃ s', getModel L nodes (ingestModel s) = .ok s' ∧ Inv s' ∧
      s'.assets.map (assetView L s') = s.assets.map (fun a => objView L (bareObj (s.aobj a))) ∧
      (∀ v, v ∈ s'.associations.map (assocView s') ↔ v ∈ (pairsOf s).map Pair.view) ∧
      (s'.associations.map (assocView s')).Nodup ∧ s'.attackers = [] := by
  obtain ⟨s1, h1, hi1, hobjs, hl1, ht1⟩ := getModelAssets_ingest L s h (fun a ha => (hv.assets a ha).known) hna
  have hsame : SameIdType s s1 := by
    intro a ham
    have : bareObj (s.aobj a) ∈ s1.assets.map s1.aobj := hobjs ▸ List.mem_map.2 ⟨a, ham, rfl⟩
    obtain ⟨a1, ha1, e⟩ := List.mem_map.1 this
    exact ⟨a1, ha1, by rw [e]; rfl, by rw [e]; rfl⟩
  have hj1 : J s s1 := ⟨hi1, hsame, by rw [hl1]; intro v hv; exact absurd hv List.not_mem_nil, by rw [hl1]; exact List.nodup_nil⟩
  obtain ⟨s2, h2, hj2, _, hall⟩ := pairFold L nodes s h hv hr hfs hfd (queryPairs (ingestModel s))
    (rows_ok L nodes s h hfs hm) s1 hj1
  have hframe : AFrame s1 s2 := foldlM_rel AFrame AFrame.refl (fun _ _ _ => AFrame.trans) _
    (fun _ _ _ => pairStep_aframe) _ _ _ h2
  have hatt : s2.attackers = s1.attackers := by
    refine foldlM_rel (fun a b => b.attackers = a.attackers) (fun _ => rfl) (fun _ _ _ h1 h2 => h2.trans h1) _ ?_ _ _ _ h2
    intro a row b hab
    unfold pairStep pairBody at hab
    split at hab
    · split at hab
      · split at hab
        · injection hab with hab; rw [← hab]; rfl
        · cases hab
      · split at hab
        · have hens : ∀ cls x y, ensurePair L a cls x y = .ok b → b.attackers = a.attackers := by
            intro cls x y he
            unfold ensurePair at he
            split at he
            · injection he with he; rw [he]
            · obtain ⟨c, _, rfl⟩ := addAssociation_ok he; rfl
          split at hab
          · split at hab
            · exact hens _ _ _ hab
            · exact hens _ _ _ hab
          · injection hab with hab; rw [hab]
          · cases hab
        · cases hab
    · cases hab
  refine ⟨s2, ?_, hj2.inv, ?_, ?_, hj2.nodup, by rw [hatt, ht1]⟩
  · rw [getModel_eq, assetLoop_eq, h1]; exact h2
  · rw [hframe.assetViews L]
    have : s1.assets.map (assetView L s1) = (s1.assets.map s1.aobj).map (objView L) := by rw [List.map_map]; rfl
    rw [this, hobjs, List.map_map]; rfl
  · intro v
    constructor
    · exact hj2.sub v
    · intro hvm
      obtain ⟨p, hp, rfl⟩ := List.mem_map.1 hvm
      obtain ⟨l, hl, x, hx, y, hy, rfl⟩ := (mem_pairsOf s p).1 hp
      exact hall _ (row_mem s hfd l x y hl hx hy) l hl x hx y hy (Or.inl rfl)

/-- the assets of a successfully read-back model, whatever the relationship loop did -/
theorem getModel_assets_of_ok (L : Lang) (nodes : List AssocDecl) (s s' : St) (h : Inv s)
    (hk : ∀ a ∈ s.assets, (L.findAsset (s.aobj a).type).isSome = true)
    (hna : ∀ a ∈ s.assets, (s.aobj a).type ≠ "Attacker") (hload : getModel L nodes (ingestModel s) = .ok s') :
    s'.assets.map (assetView L s') = s.assets.map (fun a => objView L (bareObj (s.aobj a))) ∧
    s'.assets.map (assetFileView L s') = s.assets.map (fun a => objFileView L (bareObj (s.aobj a))) := by
  obtain ⟨s1, h1, _, hobjs, _, _⟩ := getModelAssets_ingest L s h hk hna
  rw [getModel_eq, assetLoop_eq, h1] at hload
  have hframe : AFrame s1 s' := foldlM_rel AFrame AFrame.refl (fun _ _ _ => AFrame.trans) _
    (fun _ _ _ => pairStep_aframe) _ _ _ hload
  constructor
  · rw [hframe.assetViews L]
    have : s1.assets.map (assetView L s1) = (s1.assets.map s1.aobj).map (objView L) := by rw [List.map_map]; rfl
    rw [this, hobjs, List.map_map]; rfl
  · rw [hframe.assetFileViews L]
    have : s1.assets.map (assetFileView L s1) = (s1.assets.map s1.aobj).map (objFileView L) := by rw [List.map_map]; rfl
    rw [this, hobjs, List.map_map]; rfl

theorem effDefenses_bare (L : Lang) (o : AssetObj) : effDefenses L (bareObj o) = defensesOf L o.type := by
  unfold effDefenses bareObj
  show (defensesOf L o.type).map _ = _
  conv => rhs; rw [← List.map_id (defensesOf L o.type)]
  apply List.map_congr_left
  intro d _
  rfl

theorem objView_bare (L : Lang) (o : AssetObj) :
    objView L (bareObj o) = ⟨o.id, o.name, o.type, defensesOf L o.type, "{}"⟩ := by
  unfold objView
  rw [effDefenses_bare]
  rfl

/-! ## when the two resolution hypotheses hold: every field name belongs to one declaration -/

/-- no two association ends of the language graph share a field name -/
structure FieldsUnique (nodes : List AssocDecl) : Prop where
  lr : ∀ d ∈ nodes, d.leftField ≠ d.rightField
  uniq : ∀ d ∈ nodes, ∀ d' ∈ nodes,
    (d.leftField = d'.leftField ∨ d.leftField = d'.rightField ∨ d.rightField = d'.leftField ∨
      d.rightField = d'.rightField) → d = d'

theorem fieldsIdentify_of_unique {L : Lang} {nodes : List AssocDecl} (hn : ∀ a ∈ L.assocs, a ∈ nodes)
    (hu : FieldsUnique nodes) : FieldsIdentify L nodes :=
  ⟨hn, fun d hd d' hd' h => hu.uniq d hd d' hd' (h.elim (fun h => Or.inl h.1) (fun h => Or.inr (Or.inl h.1)))⟩

theorem fieldsDiffer_of_unique {L : Lang} {nodes : List AssocDecl} {s : St} (hn : ∀ a ∈ L.assocs, a ∈ nodes)
    (hu : FieldsUnique nodes) (hv : Valid L s) : FieldsDiffer s := by
  intro l hl
  obtain ⟨c, hc, hi⟩ := hv.links l hl
  obtain ⟨a, ha, rfl⟩ := (C06.mem_assocClasses L c).1 hc
  rw [hi.lf, hi.rf]
  exact hu.lr a (hn a ha)

theorem noMixedMatch_of_unique {L : Lang} {nodes : List AssocDecl} {s : St} (hn : ∀ a ∈ L.assocs, a ∈ nodes)
    (hu : FieldsUnique nodes) (hv : Valid L s) (h : Inv s) : NoMixedMatch L nodes s := by
  intro u f w g he1 he2 hnp
  obtain ⟨l, hl, hcase⟩ := he1
  obtain ⟨l2, hl2, hcase2⟩ := he2
  have hul : u ∈ s.assets := by
    rcases hcase with ⟨hx, _, _⟩ | ⟨hx, _, _⟩
    · exact h.links.left_live l hl u hx
    · exact h.links.right_live l hl u hx
  have hwl : w ∈ s.assets := by
    rcases hcase with ⟨_, _, hy⟩ | ⟨_, _, hy⟩
    · exact h.links.right_live l hl w hy
    · exact h.links.left_live l hl w hy
  rw [lookupAssoc_known L nodes _ _ _ _ (hv.assets u hul).known (hv.assets w hwl).known]
  congr 1
  rw [List.find?_eq_none]
  intro d hd hmatch
  simp only [Bool.or_eq_true, Bool.and_eq_true, decide_eq_true_eq] at hmatch
  obtain ⟨c, hc, hi⟩ := hv.links l hl
  obtain ⟨a, ha, rfl⟩ := (C06.mem_assocClasses L c).1 hc
  have han := hn a ha
  have hlf : (s.lobj l).lf = a.leftField := hi.lf
  have hrf : (s.lobj l).rf = a.rightField := hi.rf
  apply hnp
  refine ⟨l, hl, ?_⟩
  rcases hcase with ⟨hx, ef, hy⟩ | ⟨hx, ef, hy⟩
  · -- `f` is the left field of `a`
    have hda : d = a := by
      rcases hmatch with hm | hm
      · exact hu.uniq d hd a han (Or.inl (hm.1.1.1.trans (ef.trans hlf)))
      · exact hu.uniq d hd a han (Or.inr (Or.inr (Or.inl (hm.1.1.2.trans (ef.trans hlf)))))
    subst hda
    rcases hmatch with hm | hm
    · exact Or.inl ⟨hx, hy, ef, by rw [hrf]; exact hm.1.1.2.symm⟩
    · exact absurd (hlf.symm.trans (ef.symm.trans hm.1.1.2.symm)).symm (by
        intro e; exact hu.lr d hd (e.symm ▸ rfl))
  · -- `f` is the right field of `a`
    have hda : d = a := by
      rcases hmatch with hm | hm
      · exact hu.uniq d hd a han (Or.inr (Or.inl (hm.1.1.1.trans (ef.trans hrf))))
      · exact hu.uniq d hd a han (Or.inr (Or.inr (Or.inr (hm.1.1.2.trans (ef.trans hrf)))))
    subst hda
    rcases hmatch with hm | hm
    · exact absurd (hm.1.1.1.trans (ef.trans hrf)) (hu.lr d hd)
    · exact Or.inr ⟨hx, hy, ef, by rw [hlf]; exact hm.1.1.1.symm⟩

/-! ## a form of `get_model ∘ ingest_model` that the kernel can evaluate -/

/-- `get_model` over what `ingest_model` sent, with the asset ids taken from the model instead of being parsed back
from their decimal text (`key_roundtrip`) -/
def getModelK (L : Lang) (nodes : List AssocDecl) (s : St) : Except Err St :=
  (s.assets.foldlM (fun s1 a =>
      if (s.aobj a).type = "Attacker" then .ok (addAttacker s1 none (some (s.aobj a).id))
      else addAsset L s1 (s.aobj a).type (some (s.aobj a).name) [] true "{}" (some (s.aobj a).id) true) ({} : St)) >>= fun s1 =>
    (queryPairs (ingestModel s)).foldlM (fun s' row => pairBody L nodes s' row
      ((s.assets[row.1]?).map (fun a => (s.aobj a).id)) ((s.assets[row.2.2.2]?).map (fun a => (s.aobj a).id))) s1

theorem node_id_at (s : St) (i : Nat) :
    ((ingestModel s).nodes[i]?).bind (·.assetId.toInt?) = (s.assets[i]?).map (fun a => (s.aobj a).id) := by
  rw [ingestModel_nodes, List.getElem?_map]
  cases s.assets[i]? with
  | none => rfl
  | some a => exact toInt_toString _

theorem getModel_eq_K (L : Lang) (nodes : List AssocDecl) (s : St) :
    getModel L nodes (ingestModel s) = getModelK L nodes s := by
  rw [getModel_eq, assetLoop_eq, ingestModel_nodes, foldlM_map']
  unfold getModelK
  congr 1
  · congr 1
    funext s1 a
    unfold assetStepN nodeOf
    dsimp only
    rw [toInt_toString]
  · funext s1
    congr 1
    funext s' row
    unfold pairStep
    rw [node_id_at, node_id_at]

/-! ## a small language and models for the non-vacuity examples -/
namespace Sample

/-- two associations between `Host` and `Net`, and one from `Host` to `Host` -/
def lang : Lang :=
  { assets := [
      { name := "Host", steps := [{ name := "patched", type := "defense" }, { name := "access", type := "or" }] },
      { name := "Net", steps := [{ name := "reach", type := "or" }] }],
    assocs := [
      { name := "NetCon", leftAsset := "Host", leftField := "hosts", rightAsset := "Net", rightField := "nets" },
      { name := "Admin", leftAsset := "Host", leftField := "admins", rightAsset := "Net", rightField := "managed" },
      { name := "Peer", leftAsset := "Host", leftField := "peers", rightAsset := "Host", rightField := "peerOf" }] }

/-- `h` (id 5, a non-default defense value), `g` (id -2), `n` (id 0); `h` and `g` are peers of each other (the same
association in both directions), `h` is its own peer (a self-link), `h` and `n` are linked by two different
associations, and a link with two left members -/
def ops : List Op := [
  .addAsset "Host" (some "h") [("patched", "1.0")] true "{}" (some 5) true,
  .addAsset "Host" (some "g") [] true "{}" (some (-2)) true,
  .addAsset "Net" (some "n") [] true "{}" (some 0) true,
  .addAssociation "Peer" [0] [1],
  .addAssociation "Peer" [1] [0],
  .addAssociation "Peer" [0] [0],
  .addAssociation "NetCon" [0, 1] [2],
  .addAssociation "Admin" [0] [2]]

def st : St := ops.foldl (applyOp lang) {}

/-- a language in which the two fields of an association have the same name -/
def symLang : Lang :=
  { assets := [{ name := "Host" }],
    assocs := [{ name := "Peer", leftAsset := "Host", leftField := "peers", rightAsset := "Host", rightField := "peers" }] }

def symSt : St := [Op.addAsset "Host" (some "a") [] true "{}" (some 1) true,
  .addAsset "Host" (some "b") [] true "{}" (some 2) true, .addAssociation "Peer" [0] [1]].foldl (applyOp symLang) {}

/-- a third declaration `Mix` whose fields are the left field of `A` and the right field of `B` -/
def mixLang : Lang :=
  { assets := [{ name := "X" }, { name := "Y" }],
    assocs := [
      { name := "A", leftAsset := "X", leftField := "f", rightAsset := "Y", rightField := "g" },
      { name := "B", leftAsset := "X", leftField := "f2", rightAsset := "Y", rightField := "g2" },
      { name := "Mix", leftAsset := "X", leftField := "f", rightAsset := "Y", rightField := "g2" }] }

def mixSt : St := [Op.addAsset "X" (some "x") [] true "{}" (some 1) true,
  .addAsset "Y" (some "y") [] true "{}" (some 2) true, .addAssociation "A" [0] [1],
  .addAssociation "B" [0] [1]].foldl (applyOp mixLang) {}

/-- an attack graph with three steps; the first has two children and is listed as a child twice -/
def graph : AGS.St :=
  { nobj := fun r => match r with
      | 0 => { id := 10, name := "access", asset := some "h", children := [1, 2, 1] }
      | 1 => { id := 11, name := "reach", asset := some "n", children := [2], ttc := "{\"x\": 1}" }
      | _ => { id := 12, name := "patched", type := .defense, defense := some "1.0", children := [] },
    nodes := [0, 1, 2], nfresh := 3 }

end Sample

end MalVerif.Neo
