import MalVerif.Spec.ModelInv
/-!
# Helper lemmas for the coherence invariant of the instance-model state machine

The invariant `Inv`, `Op`, `applyOp`, `Valid` are in `MalVerif/Spec/ModelInv.lean`.  Here:

* generic lemmas: `freshName`, `eraseDups`, the `ttaAdd` / `ttaDel` / `ttaGet` dictionary, `setAdd`,
* projections / frames of `updA`, `updL`, `updT` and folds of them,
* congruence lemmas of the four parts of the invariant, the frame `LFrame` of the
  association-removing operations,
* per operation: a characterisation of the state afterwards (`addAssetSt`, `addAssocSt`,
  `removeAssocSt`, `rafaSt`, `finishRemove`) and the preservation lemma,
* histories (`applyOp_inv'`, `applyOp_valid'`),
* the generated classes: `className`, `classOf`, `className_inj` (and the counterexamples `Demo.cex1`, `Demo.cex2`).

The property-level statements are in `MalVerif/Props/C05.lean` and `C06.lean`.
-/
namespace MalVerif.MS

/-! # Part 1: generic lemmas -/

/-! ## freshName -/

theorem countP_lt_of_imp {α : Type} (p q : α → Bool) (l : List α) (a : α) (ha : a ∈ l)
    (hpq : ∀ x, p x = true → q x = true) (hq : q a = true) (hp : p a = false) :
    l.countP p < l.countP q := by
  induction l with
  | nil => simp at ha
  | cons b l ih =>
    have hmono : l.countP p ≤ l.countP q := List.countP_mono_left (fun x _ => hpq x)
    rcases List.mem_cons.1 ha with rfl | hm
    · rw [List.countP_cons_of_neg (by simp [hp]), List.countP_cons_of_pos hq]
      omega
    · have := ih hm
      by_cases hb : p b = true
      · rw [List.countP_cons_of_pos hb, List.countP_cons_of_pos (hpq b hb)]
        omega
      · rw [List.countP_cons_of_neg hb]
        by_cases hb' : q b = true
        · rw [List.countP_cons_of_pos hb']; omega
        · rw [List.countP_cons_of_neg hb']; omega

theorem freshName_not_mem_aux (taken : List String) (sfx : String) (hs : 0 < sfx.length) (k : Nat) :
    ∀ n : String, taken.countP (fun x => decide (n.length ≤ x.length)) < k → freshName taken sfx k n ∉ taken := by
  induction k with
  | zero => intro n h; omega
  | succ k ih =>
    intro n h
    unfold freshName
    by_cases hn : n ∈ taken
    · have hc : taken.contains n = true := by simpa using hn
      rw [if_pos hc]
      apply ih
      have hlt : taken.countP (fun x => decide ((n ++ sfx).length ≤ x.length)) <
          taken.countP (fun x => decide (n.length ≤ x.length)) := by
        apply countP_lt_of_imp _ _ taken n hn
        · intro x hx
          simp only [decide_eq_true_eq, String.length_append] at hx ⊢
          omega
        · simp
        · simp only [decide_eq_false_iff_not, String.length_append]
          omega
      omega
    · have hc : ¬ taken.contains n = true := by simpa using hn
      rw [if_neg hc]
      exact hn

-- each suffixing makes the name strictly longer, so `taken.length + 1` rounds suffice
theorem freshName_not_mem (taken : List String) (sfx : String) (hs : 0 < sfx.length) (k : Nat) (n : String)
    (hk : taken.length < k) : freshName taken sfx k n ∉ taken := by
  apply freshName_not_mem_aux taken sfx hs k n
  have := List.countP_le_length (p := fun x : String => decide (n.length ≤ x.length)) (l := taken)
  omega

theorem sfx_length_pos (i : Int) : 0 < (":" ++ toString i).length := by
  rw [String.length_append]
  have : (":" : String).length = 1 := by decide
  omega

/-! ## eraseDups -/

theorem eraseDups_aux {α : Type} [BEq α] [LawfulBEq α] (n : Nat) :
    ∀ l : List α, l.length ≤ n →
      l.eraseDups.length ≤ l.length ∧ (l.eraseDups.length = l.length → l.Nodup) := by
  induction n with
  | zero =>
    intro l hl
    have : l = [] := List.eq_nil_of_length_eq_zero (by omega)
    subst this
    simp
  | succ n ih =>
    intro l hl
    cases l with
    | nil => simp
    | cons a as =>
      rw [List.eraseDups_cons]
      have hf := List.length_filter_le (fun b => !b == a) as
      simp only [List.length_cons] at hl ⊢
      have ih1 := ih (as.filter (fun b => !b == a)) (by omega)
      refine ⟨by omega, fun heq => ?_⟩
      have hlen : (as.filter (fun b => !b == a)).length = as.length := by omega
      have hall := List.length_filter_eq_length_iff.1 hlen
      have hself : as.filter (fun b => !b == a) = as := List.filter_eq_self.2 hall
      rw [hself] at ih1 heq
      rw [List.nodup_cons]
      refine ⟨fun hmem => ?_, ih1.2 (by omega)⟩
      have := hall a hmem
      simp at this

theorem eraseDups_length_le {α : Type} [BEq α] [LawfulBEq α] (l : List α) : l.eraseDups.length ≤ l.length :=
  (eraseDups_aux l.length l (Nat.le_refl _)).1

theorem nodup_of_eraseDups_length {α : Type} [BEq α] [LawfulBEq α] (l : List α)
    (h : l.eraseDups.length = l.length) : l.Nodup :=
  (eraseDups_aux l.length l (Nat.le_refl _)).2 h

theorem eraseDups_of_nodup {α : Type} [BEq α] [LawfulBEq α] (l : List α) (h : l.Nodup) : l.eraseDups = l := by
  induction l with
  | nil => simp
  | cons a as ih =>
    rw [List.nodup_cons] at h
    have hself : as.filter (fun b => !b == a) = as := by
      apply List.filter_eq_self.2
      intro b hb
      have : ¬ b = a := fun e => h.1 (e ▸ hb)
      simp [this]
    rw [List.eraseDups_cons, hself, ih h.2]

theorem nodup_of_map {α β : Type} (f : α → β) (l : List α) (h : (l.map f).Nodup) : l.Nodup := by
  rw [List.nodup_iff_pairwise_ne] at h ⊢
  exact List.Pairwise.of_map f (fun a b hab e => hab (congrArg f e)) h

theorem nodup_map_of_inj {α β : Type} (f : α → β) (l : List α) (hl : l.Nodup)
    (hf : ∀ a ∈ l, ∀ b ∈ l, f a = f b → a = b) : (l.map f).Nodup := by
  rw [List.nodup_iff_pairwise_ne] at hl ⊢
  rw [List.pairwise_map]
  exact List.Pairwise.imp_of_mem (fun {a b} ha hb hab e => hab (hf a ha b hb e)) hl

/-- the check `len(field) > len({a.name for a in field})` of `_validate_association` -/
theorem nodup_of_map_eraseDups {α β : Type} [BEq β] [LawfulBEq β] (f : α → β) (l : List α)
    (h : ((l.map f).eraseDups.length == l.length) = true) : (l.map f).Nodup ∧ l.Nodup := by
  have h1 : (l.map f).eraseDups.length = (l.map f).length := by
    rw [List.length_map]; exact eq_of_beq h
  have h2 := nodup_of_eraseDups_length _ h1
  exact ⟨h2, nodup_of_map f l h2⟩

theorem map_eraseDups_of_inj {α β : Type} [BEq β] [LawfulBEq β] (f : α → β) (l : List α) (hl : l.Nodup)
    (hf : ∀ a ∈ l, ∀ b ∈ l, f a = f b → a = b) : ((l.map f).eraseDups.length == l.length) = true := by
  rw [eraseDups_of_nodup _ (nodup_map_of_inj f l hl hf), List.length_map]
  exact beq_self_eq_true _

/-! ## the type → associations dictionary -/

theorem ttaGet_nil (c : String) : ttaGet [] c = [] := rfl

theorem ttaGet_cons (e : String × List Nat) (d : List (String × List Nat)) (c : String) :
    ttaGet (e :: d) c = if e.1 = c then e.2 else ttaGet d c := by
  unfold ttaGet
  by_cases h : e.1 = c <;> simp [h]

theorem ttaGet_eq_nil_of_not_key (d : List (String × List Nat)) (c : String) (h : c ∉ d.map (·.1)) : ttaGet d c = [] := by
  induction d with
  | nil => rfl
  | cons e d ih =>
    rw [List.map_cons, List.mem_cons, not_or] at h
    rw [ttaGet_cons, if_neg (fun e' => h.1 e'.symm), ih h.2]

/-- an entry is what `ttaGet` returns for its key, when keys are distinct -/
theorem ttaGet_of_mem (d : List (String × List Nat)) (hk : (d.map (·.1)).Nodup) (e : String × List Nat) (he : e ∈ d) :
    ttaGet d e.1 = e.2 := by
  induction d with
  | nil => simp at he
  | cons x d ih =>
    rw [List.map_cons, List.nodup_cons] at hk
    rw [ttaGet_cons]
    rcases List.mem_cons.1 he with rfl | hm
    · simp
    · have : ¬ x.1 = e.1 := fun h => hk.1 (h ▸ List.mem_map_of_mem hm)
      rw [if_neg this, ih hk.2 hm]

theorem any_key_iff (d : List (String × List Nat)) (k : String) :
    d.any (fun e => decide (e.1 = k)) = true ↔ k ∈ d.map (·.1) := by
  simp only [List.any_eq_true, decide_eq_true_eq, List.mem_map]

/-- keys are unchanged by rewriting the values stored under `k` -/
theorem map_upd_keys (g : List Nat → List Nat) (d : List (String × List Nat)) (k : String) :
    (d.map (fun e => if e.1 = k then (k, g e.2) else e)).map (·.1) = d.map (·.1) := by
  induction d with
  | nil => rfl
  | cons e d ih =>
    simp only [List.map_cons, ih]
    by_cases h : e.1 = k <;> simp [h]

theorem ttaGet_map_upd (g : List Nat → List Nat) (d : List (String × List Nat)) (k c : String) :
    ttaGet (d.map (fun e => if e.1 = k then (k, g e.2) else e)) c =
      if c = k then (if k ∈ d.map (·.1) then g (ttaGet d k) else []) else ttaGet d c := by
  induction d with
  | nil => simp [ttaGet_nil]
  | cons e d ih =>
    simp only [List.map_cons, ttaGet_cons, ih, List.mem_cons]
    by_cases he : e.1 = k
    · by_cases hc : c = k
      · simp [he, hc]
      · have : ¬ k = c := fun e' => hc e'.symm
        simp [he, hc, this]
    · have he' : ¬ k = e.1 := fun e' => he e'.symm
      by_cases hc : c = k
      · subst hc
        simp only [he, if_false, if_true]
        have hor : (c = e.1 ∨ c ∈ List.map (fun x => x.fst) d) ↔ c ∈ List.map (fun x => x.fst) d := by
          simp only [he', false_or]
        simp only [hor]
      · simp [he, hc]

theorem ttaGet_append_singleton (d : List (String × List Nat)) (k : String) (v : List Nat) (c : String)
    (h : k ∉ d.map (·.1)) : ttaGet (d ++ [(k, v)]) c = if c = k then v else ttaGet d c := by
  induction d with
  | nil =>
    rw [List.nil_append, ttaGet_cons, ttaGet_nil]
    by_cases hc : c = k
    · simp [hc]
    · have : ¬ k = c := fun e => hc e.symm
      simp [hc, this]
  | cons e d ih =>
    rw [List.map_cons, List.mem_cons, not_or] at h
    rw [List.cons_append, ttaGet_cons, ttaGet_cons, ih h.2]
    by_cases he : e.1 = c
    · have : ¬ c = k := fun e' => h.1 (he.trans e').symm
      simp [he, this]
    · simp [he]

theorem ttaGet_ttaAdd (d : List (String × List Nat)) (k : String) (l : Nat) (c : String) :
    ttaGet (ttaAdd d k l) c = if c = k then ttaGet d k ++ [l] else ttaGet d c := by
  unfold ttaAdd
  by_cases h : d.any (fun e => decide (e.1 = k)) = true
  · rw [if_pos h, ttaGet_map_upd (fun v => v ++ [l]), if_pos ((any_key_iff d k).1 h)]
  · rw [if_neg h]
    have hk : k ∉ d.map (·.1) := fun hm => h ((any_key_iff d k).2 hm)
    rw [ttaGet_append_singleton d k [l] c hk, ttaGet_eq_nil_of_not_key d k hk, List.nil_append]

theorem ttaAdd_keys (d : List (String × List Nat)) (k : String) (l : Nat) (hk : (d.map (·.1)).Nodup) :
    ((ttaAdd d k l).map (·.1)).Nodup := by
  unfold ttaAdd
  by_cases h : d.any (fun e => decide (e.1 = k)) = true
  · rw [if_pos h, map_upd_keys (fun v => v ++ [l])]; exact hk
  · rw [if_neg h]
    have hk' : k ∉ d.map (·.1) := fun hm => h ((any_key_iff d k).2 hm)
    rw [List.map_append, List.nodup_append]
    refine ⟨hk, by simp, ?_⟩
    intro a ha b hb e
    simp only [List.map_cons, List.map_nil, List.mem_singleton] at hb
    exact hk' (hb ▸ e ▸ ha)

theorem ttaAdd_nonempty (d : List (String × List Nat)) (k : String) (l : Nat) (hn : ∀ e ∈ d, e.2 ≠ []) :
    ∀ e ∈ ttaAdd d k l, e.2 ≠ [] := by
  intro e he
  unfold ttaAdd at he
  by_cases h : d.any (fun e => decide (e.1 = k)) = true
  · rw [if_pos h, List.mem_map] at he
    obtain ⟨x, hx, rfl⟩ := he
    by_cases hxk : x.1 = k
    · simp [hxk]
    · simp only [hxk, if_false]; exact hn x hx
  · rw [if_neg h, List.mem_append, List.mem_singleton] at he
    rcases he with he | rfl
    · exact hn e he
    · simp

theorem ttaDel_nil (k : String) (l : Nat) : ttaDel [] k l = [] := rfl

theorem ttaDel_cons (e : String × List Nat) (d : List (String × List Nat)) (k : String) (l : Nat) :
    ttaDel (e :: d) k l =
      if e.1 = k then (if (e.2.erase l).isEmpty then ttaDel d k l else (k, e.2.erase l) :: ttaDel d k l)
      else e :: ttaDel d k l := by
  unfold ttaDel
  by_cases he : e.1 = k
  · by_cases hx : (e.2.erase l).isEmpty = true
    · simp [he, hx]
    · simp [he, hx]
  · simp [he]

theorem ttaDel_keys_sublist (d : List (String × List Nat)) (k : String) (l : Nat) :
    ((ttaDel d k l).map (·.1)).Sublist (d.map (·.1)) := by
  induction d with
  | nil => simp [ttaDel_nil]
  | cons e d ih =>
    rw [ttaDel_cons, List.map_cons]
    by_cases he : e.1 = k
    · rw [if_pos he]
      by_cases hx : (e.2.erase l).isEmpty = true
      · rw [if_pos hx]; exact List.Sublist.cons _ ih
      · rw [if_neg hx, List.map_cons, he]; exact List.Sublist.cons_cons _ ih
    · rw [if_neg he, List.map_cons]; exact List.Sublist.cons_cons _ ih

theorem ttaGet_ttaDel (d : List (String × List Nat)) (k : String) (l : Nat) (c : String) (hk : (d.map (·.1)).Nodup) :
    ttaGet (ttaDel d k l) c = if c = k then (ttaGet d k).erase l else ttaGet d c := by
  induction d with
  | nil => simp [ttaDel_nil, ttaGet_nil]
  | cons e d ih =>
    rw [List.map_cons, List.nodup_cons] at hk
    have ih := ih hk.2
    rw [ttaDel_cons]
    by_cases he : e.1 = k
    · have hnk : k ∉ d.map (·.1) := he ▸ hk.1
      have hget : ttaGet d k = [] := ttaGet_eq_nil_of_not_key d k hnk
      rw [if_pos he, ttaGet_cons e d k, if_pos he, ttaGet_cons e d c]
      by_cases hc : c = k
      · rw [if_pos hc]
        by_cases hx : (e.2.erase l).isEmpty = true
        · rw [if_pos hx, ih, if_pos hc, hget]
          simpa using hx.symm
        · rw [if_neg hx, ttaGet_cons, if_pos hc.symm]
      · have hec : ¬ e.1 = c := fun e' => hc (e'.symm.trans he)
        have hkc : ¬ k = c := fun e' => hc e'.symm
        rw [if_neg hc, if_neg hec]
        by_cases hx : (e.2.erase l).isEmpty = true
        · rw [if_pos hx, ih, if_neg hc]
        · rw [if_neg hx, ttaGet_cons, if_neg hkc, ih, if_neg hc]
    · rw [if_neg he, ttaGet_cons, ih, ttaGet_cons e d k, if_neg he, ttaGet_cons e d c]
      by_cases hc : c = k
      · subst hc
        simp [he]
      · simp [hc]

theorem ttaDel_keys (d : List (String × List Nat)) (k : String) (l : Nat) (hk : (d.map (·.1)).Nodup) :
    ((ttaDel d k l).map (·.1)).Nodup :=
  List.Nodup.sublist (ttaDel_keys_sublist d k l) hk

theorem ttaDel_nonempty (d : List (String × List Nat)) (k : String) (l : Nat) (hn : ∀ e ∈ d, e.2 ≠ []) :
    ∀ e ∈ ttaDel d k l, e.2 ≠ [] := by
  induction d with
  | nil => intro e he; simp [ttaDel_nil] at he
  | cons x d ih =>
    have ih := ih (fun e he => hn e (List.mem_cons_of_mem _ he))
    intro e he
    rw [ttaDel_cons] at he
    by_cases hx : x.1 = k
    · rw [if_pos hx] at he
      by_cases hy : (x.2.erase l).isEmpty = true
      · rw [if_pos hy] at he; exact ih e he
      · rw [if_neg hy] at he
        rcases List.mem_cons.1 he with rfl | hm
        · simpa using hy
        · exact ih e hm
    · rw [if_neg hx] at he
      rcases List.mem_cons.1 he with rfl | hm
      · exact hn _ List.mem_cons_self
      · exact ih e hm

/-! ## setAdd -/

theorem mem_setAdd {α : Type} [DecidableEq α] (l : List α) (x y : α) : y ∈ setAdd l x ↔ y ∈ l ∨ y = x := by
  unfold setAdd
  by_cases h : l.contains x = true
  · rw [if_pos h]
    have hx : x ∈ l := by simpa using h
    constructor
    · exact Or.inl
    · rintro (h' | rfl)
      · exact h'
      · exact hx
  · rw [if_neg h, List.mem_append, List.mem_singleton]

theorem setAdd_nodup {α : Type} [DecidableEq α] (l : List α) (x : α) (h : l.Nodup) : (setAdd l x).Nodup := by
  unfold setAdd
  by_cases hc : l.contains x = true
  · rw [if_pos hc]; exact h
  · rw [if_neg hc]
    have hx : x ∉ l := by simpa using hc
    rw [List.nodup_append]
    refine ⟨h, by simp, ?_⟩
    intro a ha b hb e
    rw [List.mem_singleton] at hb
    exact hx (hb ▸ e ▸ ha)

/-! # Part 2: the state machine -/

/-! ## `updA`, `updL`, `updT` -/
section upd
variable (s : St) (r : Nat) (f : AssetObj → AssetObj) (g : AssocObj → AssocObj) (k : AttObj → AttObj)

@[simp] theorem updA_aobj (x : Nat) : (updA s r f).aobj x = if x = r then f (s.aobj x) else s.aobj x := rfl
@[simp] theorem updA_lobj : (updA s r f).lobj = s.lobj := rfl
@[simp] theorem updA_tobj : (updA s r f).tobj = s.tobj := rfl
@[simp] theorem updA_afresh : (updA s r f).afresh = s.afresh := rfl
@[simp] theorem updA_lfresh : (updA s r f).lfresh = s.lfresh := rfl
@[simp] theorem updA_tfresh : (updA s r f).tfresh = s.tfresh := rfl
@[simp] theorem updA_assets : (updA s r f).assets = s.assets := rfl
@[simp] theorem updA_associations : (updA s r f).associations = s.associations := rfl
@[simp] theorem updA_attackers : (updA s r f).attackers = s.attackers := rfl
@[simp] theorem updA_assetIds : (updA s r f).assetIds = s.assetIds := rfl
@[simp] theorem updA_assetNames : (updA s r f).assetNames = s.assetNames := rfl
@[simp] theorem updA_typeToAssoc : (updA s r f).typeToAssoc = s.typeToAssoc := rfl
@[simp] theorem updA_nextId : (updA s r f).nextId = s.nextId := rfl

@[simp] theorem updL_lobj (x : Nat) : (updL s r g).lobj x = if x = r then g (s.lobj x) else s.lobj x := rfl
@[simp] theorem updL_aobj : (updL s r g).aobj = s.aobj := rfl
@[simp] theorem updL_tobj : (updL s r g).tobj = s.tobj := rfl
@[simp] theorem updL_afresh : (updL s r g).afresh = s.afresh := rfl
@[simp] theorem updL_lfresh : (updL s r g).lfresh = s.lfresh := rfl
@[simp] theorem updL_tfresh : (updL s r g).tfresh = s.tfresh := rfl
@[simp] theorem updL_assets : (updL s r g).assets = s.assets := rfl
@[simp] theorem updL_associations : (updL s r g).associations = s.associations := rfl
@[simp] theorem updL_attackers : (updL s r g).attackers = s.attackers := rfl
@[simp] theorem updL_assetIds : (updL s r g).assetIds = s.assetIds := rfl
@[simp] theorem updL_assetNames : (updL s r g).assetNames = s.assetNames := rfl
@[simp] theorem updL_typeToAssoc : (updL s r g).typeToAssoc = s.typeToAssoc := rfl
@[simp] theorem updL_nextId : (updL s r g).nextId = s.nextId := rfl

@[simp] theorem updT_tobj (x : Nat) : (updT s r k).tobj x = if x = r then k (s.tobj x) else s.tobj x := rfl
@[simp] theorem updT_aobj : (updT s r k).aobj = s.aobj := rfl
@[simp] theorem updT_lobj : (updT s r k).lobj = s.lobj := rfl
@[simp] theorem updT_afresh : (updT s r k).afresh = s.afresh := rfl
@[simp] theorem updT_lfresh : (updT s r k).lfresh = s.lfresh := rfl
@[simp] theorem updT_tfresh : (updT s r k).tfresh = s.tfresh := rfl
@[simp] theorem updT_assets : (updT s r k).assets = s.assets := rfl
@[simp] theorem updT_associations : (updT s r k).associations = s.associations := rfl
@[simp] theorem updT_attackers : (updT s r k).attackers = s.attackers := rfl
@[simp] theorem updT_assetIds : (updT s r k).assetIds = s.assetIds := rfl
@[simp] theorem updT_assetNames : (updT s r k).assetNames = s.assetNames := rfl
@[simp] theorem updT_typeToAssoc : (updT s r k).typeToAssoc = s.typeToAssoc := rfl
@[simp] theorem updT_nextId : (updT s r k).nextId = s.nextId := rfl
end upd

/-! ## iteration and folds of updates -/

/-- `f` applied `n` times -/
def iter {α : Type} (f : α → α) : Nat → α → α
  | 0, a => a
  | n + 1, a => iter f n (f a)

@[simp] theorem iter_zero {α : Type} (f : α → α) (a : α) : iter f 0 a = a := rfl
theorem iter_succ {α : Type} (f : α → α) (n : Nat) (a : α) : iter f (n + 1) a = iter f n (f a) := rfl

theorem iter_add {α : Type} (f : α → α) (m n : Nat) (a : α) : iter f (m + n) a = iter f n (iter f m a) := by
  induction m generalizing a with
  | zero => simp
  | succ m ih => rw [Nat.add_right_comm, iter_succ, ih, iter_succ]

/-- a fold of one and the same update over a list of references -/
theorem foldl_updA (F : AssetObj → AssetObj) (l : List Nat) (s : St) :
    l.foldl (fun s c => updA s c F) s = { s with aobj := fun x => iter F (l.count x) (s.aobj x) } := by
  induction l generalizing s with
  | nil => rfl
  | cons c l ih =>
    rw [List.foldl_cons, ih]
    show ({ s with aobj := _ } : St) = _
    congr 1
    funext x
    by_cases h : x = c
    · subst h; simp [List.count_cons_self, iter_succ]
    · have : (c == x) = false := by simp [Ne.symm h]
      simp [h, List.count_cons, this]

theorem foldl_updT (F : AttObj → AttObj) (l : List Nat) (s : St) :
    l.foldl (fun s c => updT s c F) s = { s with tobj := fun x => iter F (l.count x) (s.tobj x) } := by
  induction l generalizing s with
  | nil => rfl
  | cons c l ih =>
    rw [List.foldl_cons, ih]
    show ({ s with tobj := _ } : St) = _
    congr 1
    funext x
    by_cases h : x = c
    · subst h; simp [List.count_cons_self, iter_succ]
    · have : (c == x) = false := by simp [Ne.symm h]
      simp [h, List.count_cons, this]

theorem iter_appendAssoc (l : Nat) (n : Nat) (o : AssetObj) :
    iter (fun o : AssetObj => { o with assocs := o.assocs ++ [l] }) n o =
      { o with assocs := o.assocs ++ List.replicate n l } := by
  induction n generalizing o with
  | zero => simp
  | succ n ih =>
    rw [iter_succ, ih]
    simp [List.replicate_succ]

theorem iter_eraseAssoc (l : Nat) (n : Nat) (o : AssetObj) :
    iter (fun x : AssetObj => { x with assocs := x.assocs.erase l }) n o =
      { o with assocs := iter (fun xs => xs.erase l) n o.assocs } := by
  induction n generalizing o with
  | zero => rfl
  | succ n ih => rw [iter_succ, ih]; rfl

theorem count_iter_erase (l l' : Nat) (n : Nat) (xs : List Nat) :
    (iter (fun xs => xs.erase l) n xs).count l' = if l' = l then xs.count l - n else xs.count l' := by
  induction n generalizing xs with
  | zero => by_cases h : l' = l <;> simp [h]
  | succ n ih =>
    rw [iter_succ, ih]
    by_cases h : l' = l
    · rw [if_pos h, if_pos h, List.count_erase_self]; omega
    · rw [if_neg h, if_neg h, List.count_erase_of_ne h]

theorem iter_erase_sublist (l : Nat) (n : Nat) (xs : List Nat) : (iter (fun xs => xs.erase l) n xs).Sublist xs := by
  induction n generalizing xs with
  | zero => exact List.Sublist.refl _
  | succ n ih => rw [iter_succ]; exact (ih _).trans List.erase_sublist

theorem nodup_single {α : Type} (a : α) : [a].Nodup := by simp

/-! ## congruence of the four parts of the invariant -/

theorem AssetsOK.congr {s s' : St} (ha : s'.assets = s.assets) (hf : s.afresh ≤ s'.afresh)
    (hi : s'.assetIds = s.assetIds) (hn : s'.assetNames = s.assetNames) (hx : s.nextId ≤ s'.nextId)
    (hid : ∀ x ∈ s.assets, (s'.aobj x).id = (s.aobj x).id)
    (hnm : ∀ x ∈ s.assets, (s'.aobj x).name = (s.aobj x).name) (h : AssetsOK s) : AssetsOK s' := by
  constructor
  · rw [ha]; exact h.nodup
  · rw [ha]; intro a hm; exact Nat.lt_of_lt_of_le (h.fresh a hm) hf
  · rw [ha]; intro a hm b hb; rw [hid a hm, hid b hb]; exact h.ids_inj a hm b hb
  · rw [ha]; intro a hm b hb; rw [hnm a hm, hnm b hb]; exact h.names_inj a hm b hb
  · intro i; rw [hi, ha, h.ids_exact]
    constructor
    · intro ⟨a, hm, e⟩; exact ⟨a, hm, (hid a hm).trans e⟩
    · intro ⟨a, hm, e⟩; exact ⟨a, hm, (hid a hm).symm.trans e⟩
  · rw [hi]; exact h.ids_nodup
  · intro n; rw [hn, ha, h.names_exact]
    constructor
    · intro ⟨a, hm, e⟩; exact ⟨a, hm, (hnm a hm).trans e⟩
    · intro ⟨a, hm, e⟩; exact ⟨a, hm, (hnm a hm).symm.trans e⟩
  · rw [hn]; exact h.names_nodup
  · rw [ha]; intro a hm; rw [hid a hm]; exact Int.lt_of_lt_of_le (h.id_lt_next a hm) hx

theorem LinksOK.congr {s s' : St} (ha : s'.assets = s.assets) (hl : s'.associations = s.associations)
    (hf : s.lfresh ≤ s'.lfresh) (ho : ∀ l ∈ s.associations, s'.lobj l = s.lobj l)
    (hb : ∀ x ∈ s.assets, (s'.aobj x).assocs = (s.aobj x).assocs) (h : LinksOK s) : LinksOK s' := by
  constructor
  · rw [hl]; exact h.nodup
  · rw [hl]; intro l hm; exact Nat.lt_of_lt_of_le (h.fresh l hm) hf
  · rw [hl, ha]; intro l hm; rw [ho l hm]; exact h.left_live l hm
  · rw [hl, ha]; intro l hm; rw [ho l hm]; exact h.right_live l hm
  · rw [hl]; intro l hm; rw [ho l hm]; exact h.left_nodup l hm
  · rw [hl]; intro l hm; rw [ho l hm]; exact h.right_nodup l hm
  · rw [ha, hl]; intro a hm l; rw [hb a hm, h.mirror a hm l]
    by_cases hm' : l ∈ s.associations
    · rw [if_pos hm', if_pos hm', ho l hm']
    · rw [if_neg hm', if_neg hm']

theorem TtaOK.congr {s s' : St} (ht : s'.typeToAssoc = s.typeToAssoc) (hl : s'.associations = s.associations)
    (hc : ∀ l ∈ s.associations, (s'.lobj l).cls = (s.lobj l).cls) (h : TtaOK s) : TtaOK s' := by
  constructor
  · intro c l; rw [ht, hl, h.iff]
    constructor
    · intro ⟨a, b⟩; exact ⟨a, (hc l a).trans b⟩
    · intro ⟨a, b⟩; exact ⟨a, (hc l a).symm.trans b⟩
  · rw [ht]; exact h.groups_nodup
  · rw [ht]; exact h.nonempty
  · rw [ht]; exact h.keys

theorem AttOK.congr {s s' : St} (ha : ∀ x ∈ s.assets, x ∈ s'.assets) (ht : s'.attackers = s.attackers)
    (hf : s.tfresh ≤ s'.tfresh) (ho : ∀ t ∈ s.attackers, (s'.tobj t).entry = (s.tobj t).entry)
    (h : AttOK s) : AttOK s' := by
  constructor
  · rw [ht]; exact h.nodup
  · rw [ht]; intro t hm; exact Nat.lt_of_lt_of_le (h.fresh t hm) hf
  · rw [ht]; intro t hm ep hep; rw [ho t hm] at hep; exact ha _ (h.entry_live t hm ep hep)
  · rw [ht]; intro t hm; rw [ho t hm]; exact h.entry_nodup t hm

theorem AssetsOK.fresh_not_mem {s : St} (h : AssetsOK s) : s.afresh ∉ s.assets :=
  fun hm => Nat.lt_irrefl _ (h.fresh _ hm)
theorem LinksOK.fresh_not_mem {s : St} (h : LinksOK s) : s.lfresh ∉ s.associations :=
  fun hm => Nat.lt_irrefl _ (h.fresh _ hm)
theorem AttOK.fresh_not_mem {s : St} (h : AttOK s) : s.tfresh ∉ s.attackers :=
  fun hm => Nat.lt_irrefl _ (h.fresh _ hm)

/-- membership of an asset in a live association, read off the back-references -/
theorem LinksOK.mem_assocs_iff {s : St} (h : LinksOK s) {a : Nat} (ha : a ∈ s.assets) (l : Nat) :
    l ∈ (s.aobj a).assocs ↔ l ∈ s.associations ∧ (a ∈ (s.lobj l).left ∨ a ∈ (s.lobj l).right) := by
  rw [← List.count_pos_iff, h.mirror a ha l]
  by_cases hm : l ∈ s.associations
  · rw [if_pos hm, ← List.count_pos_iff (a := a), ← List.count_pos_iff (a := a)]
    constructor
    · intro hp; exact ⟨hm, by omega⟩
    · intro ⟨_, hp⟩; omega
  · rw [if_neg hm]
    constructor
    · intro hp; exact absurd hp (Nat.lt_irrefl 0)
    · intro ⟨hm', _⟩; exact absurd hm' hm

/-! ## the empty model -/

theorem init_inv' : Inv {} := by
  refine ⟨⟨List.nodup_nil, ?_, ?_, ?_, ?_, List.nodup_nil, ?_, List.nodup_nil, ?_⟩,
          ⟨List.nodup_nil, ?_, ?_, ?_, ?_, ?_, ?_⟩, ⟨?_, ?_, ?_, List.nodup_nil⟩, ⟨List.nodup_nil, ?_, ?_, ?_⟩⟩
  all_goals first
    | (intro a ha; exact absurd ha List.not_mem_nil)
    | (intro i; constructor
       · intro hi; exact absurd hi List.not_mem_nil
       · intro ⟨a, ha, _⟩; exact absurd ha List.not_mem_nil)
    | (intro c l; constructor
       · intro hi; exact absurd hi List.not_mem_nil
       · intro ⟨ha, _⟩; exact absurd ha List.not_mem_nil)
    | (intro c; exact List.nodup_nil)

/-! ## attackers and entry points -/

theorem addAttacker_inv' (s : St) (nm : Option String) (id : Option Int) (h : Inv s) : Inv (addAttacker s nm id) := by
  refine ⟨AssetsOK.congr (s := s) (h := h.assets) rfl (Nat.le_refl _) rfl rfl (Int.le_max_right _ _) (fun _ _ => rfl) (fun _ _ => rfl),
          LinksOK.congr (s := s) (h := h.links) rfl rfl (Nat.le_refl _) (fun _ _ => rfl) (fun _ _ => rfl),
          TtaOK.congr (s := s) (h := h.tta) rfl rfl (fun _ _ => rfl), ?_⟩
  have hfr := h.att.fresh_not_mem
  constructor
  · show (s.attackers ++ [s.tfresh]).Nodup
    rw [List.nodup_append]
    refine ⟨h.att.nodup, nodup_single _, ?_⟩
    intro a ha b hb
    rw [List.mem_singleton] at hb
    intro e; exact hfr (hb ▸ e ▸ ha)
  · intro t ht
    show t < s.tfresh + 1
    have ht' : t ∈ s.attackers ++ [s.tfresh] := ht
    rw [List.mem_append, List.mem_singleton] at ht'
    rcases ht' with ht' | ht'
    · exact Nat.lt_succ_of_lt (h.att.fresh t ht')
    · rw [ht']; exact Nat.lt_succ_self _
  · intro t ht ep hep
    have ht' : t ∈ s.attackers ++ [s.tfresh] := ht
    have hep' : ep ∈ ((if t = s.tfresh then ({ id := id.getD s.nextId, name := _ } : AttObj) else s.tobj t)).entry := hep
    show ep.1 ∈ s.assets
    rw [List.mem_append, List.mem_singleton] at ht'
    by_cases e : t = s.tfresh
    · rw [if_pos e] at hep'; exact absurd hep' List.not_mem_nil
    · rw [if_neg e] at hep'
      rcases ht' with ht' | ht'
      · exact h.att.entry_live t ht' ep hep'
      · exact absurd ht' e
  · intro t ht
    have ht' : t ∈ s.attackers ++ [s.tfresh] := ht
    show (((if t = s.tfresh then ({ id := id.getD s.nextId, name := _ } : AttObj) else s.tobj t)).entry.map (·.1)).Nodup
    rw [List.mem_append, List.mem_singleton] at ht'
    by_cases e : t = s.tfresh
    · rw [if_pos e]; exact List.nodup_nil
    · rw [if_neg e]
      rcases ht' with ht' | ht'
      · exact h.att.entry_nodup t ht'
      · exact absurd ht' e

theorem removeAttacker_ok_iff (s : St) (t : Nat) :
    removeAttacker s t = (if t ∈ s.attackers then .ok { s with attackers := s.attackers.erase t } else .error .valueError) := by
  unfold removeAttacker
  by_cases h : t ∈ s.attackers <;> simp [h]

theorem removeAttacker_inv' {s s' : St} {t : Nat} (h : Inv s) (hok : removeAttacker s t = .ok s') : Inv s' := by
  rw [removeAttacker_ok_iff] at hok
  by_cases hm : t ∈ s.attackers
  · rw [if_pos hm] at hok
    cases hok
    refine ⟨AssetsOK.congr (s := s) (h := h.assets) rfl (Nat.le_refl _) rfl rfl (Int.le_refl _) (fun _ _ => rfl) (fun _ _ => rfl),
            LinksOK.congr (s := s) (h := h.links) rfl rfl (Nat.le_refl _) (fun _ _ => rfl) (fun _ _ => rfl),
            TtaOK.congr (s := s) (h := h.tta) rfl rfl (fun _ _ => rfl), ?_⟩
    constructor
    · exact h.att.nodup.erase t
    · intro x hx; exact h.att.fresh x (List.mem_of_mem_erase hx)
    · intro x hx; exact h.att.entry_live x (List.mem_of_mem_erase hx)
    · intro x hx; exact h.att.entry_nodup x (List.mem_of_mem_erase hx)
  · rw [if_neg hm] at hok; cases hok

/-- an update of the entry points of one attacker -/
theorem updT_entry_inv (s : St) (t : Nat) (F : AttObj → AttObj) (h : Inv s)
    (hl : t ∈ s.attackers → ∀ ep ∈ (F (s.tobj t)).entry, ep.1 ∈ s.assets)
    (hn : t ∈ s.attackers → ((F (s.tobj t)).entry.map (·.1)).Nodup) : Inv (updT s t F) := by
  refine ⟨AssetsOK.congr (s := s) (h := h.assets) rfl (Nat.le_refl _) rfl rfl (Int.le_refl _) (fun _ _ => rfl) (fun _ _ => rfl),
          LinksOK.congr (s := s) (h := h.links) rfl rfl (Nat.le_refl _) (fun _ _ => rfl) (fun _ _ => rfl),
          TtaOK.congr (s := s) (h := h.tta) rfl rfl (fun _ _ => rfl), ?_⟩
  constructor
  · exact h.att.nodup
  · exact h.att.fresh
  · intro x hx ep hep
    rw [updT_tobj] at hep
    by_cases e : x = t
    · rw [if_pos e] at hep; subst e; exact hl hx ep hep
    · rw [if_neg e] at hep; exact h.att.entry_live x hx ep hep
  · intro x hx
    rw [updT_tobj]
    by_cases e : x = t
    · rw [if_pos e]; subst e; exact hn hx
    · rw [if_neg e]; exact h.att.entry_nodup x hx

theorem map_fst_addStep (e : List (Nat × List String)) (a : Nat) (step : String) :
    (e.map (fun ep => if ep.1 = a ∧ !ep.2.contains step then (a, ep.2 ++ [step]) else ep)).map (·.1) = e.map (·.1) := by
  rw [List.map_map]
  apply List.map_congr_left
  intro ep _
  show (if ep.1 = a ∧ (!ep.2.contains step) = true then (a, ep.2 ++ [step]) else ep).1 = ep.1
  split
  · next hc => exact hc.1.symm
  · rfl

theorem map_fst_delStep (e : List (Nat × List String)) (a : Nat) (step : String) :
    (e.map (fun ep => if ep.1 = a then (a, ep.2.erase step) else ep)).map (·.1) = e.map (·.1) := by
  rw [List.map_map]
  apply List.map_congr_left
  intro ep _
  show (if ep.1 = a then (a, ep.2.erase step) else ep).1 = ep.1
  split
  · next hc => exact hc.symm
  · rfl

theorem mem_map_fst {α β : Type} {e : List (α × β)} {ep : α × β} (h : ep ∈ e) : ep.1 ∈ e.map (·.1) :=
  List.mem_map.2 ⟨ep, h, rfl⟩

theorem addEntryPoint_inv' (s : St) (t a : Nat) (step : String) (h : Inv s) (ha : a ∈ s.assets) :
    Inv (addEntryPoint s t a step) := by
  unfold addEntryPoint
  apply updT_entry_inv s t _ h
  · intro ht ep hep
    cases hf : (s.tobj t).entry.find? (·.1 = a) with
    | some x =>
      simp only [hf] at hep
      have : ep.1 ∈ (s.tobj t).entry.map (·.1) := by rw [← map_fst_addStep _ a step]; exact mem_map_fst hep
      obtain ⟨ep', hep', e⟩ := List.mem_map.1 this
      rw [← e]; exact h.att.entry_live t ht ep' hep'
    | none =>
      simp only [hf] at hep
      rw [List.mem_append, List.mem_singleton] at hep
      rcases hep with hep | hep
      · exact h.att.entry_live t ht ep hep
      · rw [hep]; exact ha
  · intro ht
    cases hf : (s.tobj t).entry.find? (·.1 = a) with
    | some x =>
      dsimp only
      rw [map_fst_addStep]; exact h.att.entry_nodup t ht
    | none =>
      dsimp only
      rw [List.map_append, List.nodup_append]
      refine ⟨h.att.entry_nodup t ht, nodup_single _, ?_⟩
      intro x hx y hy
      rw [List.map_singleton, List.mem_singleton] at hy
      obtain ⟨ep, hep, e⟩ := List.mem_map.1 hx
      have := List.find?_eq_none.1 hf ep hep
      intro e'
      apply this
      simp only [decide_eq_true_eq]
      rw [e, e', hy]

theorem removeEntryPoint_inv' (s : St) (t a : Nat) (step : String) (h : Inv s) :
    Inv (removeEntryPoint s t a step) := by
  unfold removeEntryPoint
  apply updT_entry_inv s t _ h
  · intro ht ep hep
    cases hf : (s.tobj t).entry.find? (·.1 = a) with
    | some x =>
      simp only [hf] at hep
      have hep := (List.mem_filter.1 hep).1
      have : ep.1 ∈ (s.tobj t).entry.map (·.1) := by rw [← map_fst_delStep _ a step]; exact mem_map_fst hep
      obtain ⟨ep', hep', e⟩ := List.mem_map.1 this
      rw [← e]; exact h.att.entry_live t ht ep' hep'
    | none =>
      simp only [hf] at hep
      exact h.att.entry_live t ht ep hep
  · intro ht
    cases hf : (s.tobj t).entry.find? (·.1 = a) with
    | some x =>
      dsimp only
      apply List.Nodup.sublist (List.Sublist.map _ List.filter_sublist)
      rw [map_fst_delStep]; exact h.att.entry_nodup t ht
    | none =>
      dsimp only
      exact h.att.entry_nodup t ht

/-! ## `add_asset` -/

/-- the state after a successful `add_asset` of the object `o` -/
def addAssetSt (s : St) (o : AssetObj) : St :=
  { s with
    aobj := fun x => if x = s.afresh then o else s.aobj x
    afresh := s.afresh + 1
    assetIds := setAdd s.assetIds o.id
    nextId := max (o.id + 1) s.nextId
    assetNames := setAdd s.assetNames o.name
    assets := s.assets ++ [s.afresh] }

/-- the name `add_asset` gives to the asset -/
def chosenName (s : St) (type : String) (name : Option String) (newId : Int) : String :=
  match name with
  | none => freshName s.assetNames (":" ++ toString newId) (s.assetNames.length + 1) (type ++ (":" ++ toString newId))
  | some n =>
    if s.assetNames.contains n then
      freshName s.assetNames (":" ++ toString newId) (s.assetNames.length + 1) (n ++ (":" ++ toString newId))
    else n

/-- the duplicate-name rejection of `add_asset` -/
def dupRejected (s : St) (name : Option String) (allowDup : Bool) : Bool :=
  match name with
  | some n => s.assetNames.contains n && !allowDup
  | none => false

/-- the asset object `add_asset` stores -/
def newAsset (s : St) (type : String) (name : Option String) (defs : List (String × String)) (extras : String)
    (assetId : Option Int) : AssetObj :=
  { id := assetId.getD s.nextId, name := chosenName s type name (assetId.getD s.nextId), type := type,
    defenses := defs, extras := extras }

theorem addAsset_eq (L : Lang) (s : St) (type : String) (name : Option String) (defs : List (String × String))
    (defsOk : Bool) (extras : String) (assetId : Option Int) (allowDup : Bool) :
    addAsset L s type name defs defsOk extras assetId allowDup =
      if (L.findAsset type).isNone then .error .lookupError else
      if !defsOk || !(defs.all (fun d => (defensesOf L type).any (·.1 = d.1))) then .error .validation else
      if s.assetIds.contains (assetId.getD s.nextId) then .error .valueError else
      if dupRejected s name allowDup then .error .valueError else
      .ok (addAssetSt s (newAsset s type name defs extras assetId)) := by
  cases name <;> rfl

/-- what a successful `add_asset` tells -/
theorem addAsset_ok {L : Lang} {s s' : St} {type : String} {name : Option String} {defs : List (String × String)}
    {defsOk : Bool} {extras : String} {assetId : Option Int} {allowDup : Bool}
    (hok : addAsset L s type name defs defsOk extras assetId allowDup = .ok s') :
    s' = addAssetSt s (newAsset s type name defs extras assetId) ∧ (L.findAsset type).isSome = true ∧ defsOk = true ∧
      (∀ d ∈ defs, ∃ v, (d.1, v) ∈ defensesOf L type) ∧ assetId.getD s.nextId ∉ s.assetIds ∧
      dupRejected s name allowDup = false := by
  rw [addAsset_eq] at hok
  split at hok
  · cases hok
  next h1 =>
  split at hok
  · cases hok
  next h2 =>
  split at hok
  · cases hok
  next h3 =>
  split at hok
  · cases hok
  next h4 =>
  cases hok
  refine ⟨rfl, ?_, ?_, ?_, ?_, ?_⟩
  · cases hf : L.findAsset type with
    | none => rw [hf] at h1; exact absurd rfl h1
    | some x => rfl
  · cases defsOk with
    | true => rfl
    | false => exact absurd rfl h2
  · intro d hd
    have : defs.all (fun d => (defensesOf L type).any (·.1 = d.1)) = true := by
      cases hb : defs.all (fun d => (defensesOf L type).any (·.1 = d.1)) with
      | true => rfl
      | false => rw [hb] at h2; simp at h2
    have := List.all_eq_true.1 this d hd
    obtain ⟨e, he, hk⟩ := List.any_eq_true.1 this
    refine ⟨e.2, ?_⟩
    have hk : e.1 = d.1 := by simpa using hk
    rw [← hk]; exact he
  · intro hm; exact h3 (List.contains_iff_mem.2 hm)
  · cases hb : dupRejected s name allowDup with
    | true => exact absurd hb h4
    | false => rfl

theorem chosenName_not_mem (s : St) (type : String) (name : Option String) (newId : Int) :
    chosenName s type name newId ∉ s.assetNames := by
  unfold chosenName
  cases name with
  | none => exact freshName_not_mem _ _ (sfx_length_pos newId) _ _ (Nat.lt_succ_self _)
  | some n =>
    dsimp only
    split
    · exact freshName_not_mem _ _ (sfx_length_pos newId) _ _ (Nat.lt_succ_self _)
    · next h => intro hm; exact h (List.contains_iff_mem.2 hm)

theorem mem_append_single {α : Type} {l : List α} {x a : α} : a ∈ l ++ [x] ↔ a ∈ l ∨ a = x := by
  rw [List.mem_append, List.mem_singleton]

theorem nodup_append_single {α : Type} {l : List α} {x : α} (h : l.Nodup) (hx : x ∉ l) : (l ++ [x]).Nodup := by
  rw [List.nodup_append]
  refine ⟨h, nodup_single _, ?_⟩
  intro a ha b hb
  rw [List.mem_singleton] at hb
  intro e; exact hx (hb ▸ e ▸ ha)

theorem addAssetSt_inv (s : St) (o : AssetObj) (h : Inv s) (hid : o.id ∉ s.assetIds) (hnm : o.name ∉ s.assetNames)
    (hb : o.assocs = []) : Inv (addAssetSt s o) := by
  have hfr := h.assets.fresh_not_mem
  have hne : ∀ x ∈ s.assets, x ≠ s.afresh := fun x hx e => hfr (e ▸ hx)
  have hobj : ∀ x ∈ s.assets, (addAssetSt s o).aobj x = s.aobj x := by
    intro x hx; show (if x = s.afresh then o else s.aobj x) = _; rw [if_neg (hne x hx)]
  have hnew : (addAssetSt s o).aobj s.afresh = o := by
    show (if s.afresh = s.afresh then o else s.aobj s.afresh) = _; rw [if_pos rfl]
  have hmem : ∀ x, x ∈ (addAssetSt s o).assets ↔ x ∈ s.assets ∨ x = s.afresh := fun x => mem_append_single
  refine ⟨?_, ?_, TtaOK.congr (s := s) (h := h.tta) rfl rfl (fun _ _ => rfl),
          AttOK.congr (s := s) (h := h.att) (fun x hx => (hmem x).2 (Or.inl hx)) rfl (Nat.le_refl _) (fun _ _ => rfl)⟩
  · constructor
    · exact nodup_append_single h.assets.nodup hfr
    · intro a ha
      show a < s.afresh + 1
      rcases (hmem a).1 ha with ha | ha
      · exact Nat.lt_succ_of_lt (h.assets.fresh a ha)
      · rw [ha]; exact Nat.lt_succ_self _
    · intro a ha b hb'
      rcases (hmem a).1 ha with ha | ha <;> rcases (hmem b).1 hb' with hb' | hb'
      · rw [hobj a ha, hobj b hb']; exact h.assets.ids_inj a ha b hb'
      · rw [hobj a ha, hb', hnew]; intro e
        exact absurd ((h.assets.ids_exact o.id).2 ⟨a, ha, e⟩) hid
      · rw [hobj b hb', ha, hnew]; intro e
        exact absurd ((h.assets.ids_exact o.id).2 ⟨b, hb', e.symm⟩) hid
      · intro _; rw [ha, hb']
    · intro a ha b hb'
      rcases (hmem a).1 ha with ha | ha <;> rcases (hmem b).1 hb' with hb' | hb'
      · rw [hobj a ha, hobj b hb']; exact h.assets.names_inj a ha b hb'
      · rw [hobj a ha, hb', hnew]; intro e
        exact absurd ((h.assets.names_exact o.name).2 ⟨a, ha, e⟩) hnm
      · rw [hobj b hb', ha, hnew]; intro e
        exact absurd ((h.assets.names_exact o.name).2 ⟨b, hb', e.symm⟩) hnm
      · intro _; rw [ha, hb']
    · intro i
      show i ∈ setAdd s.assetIds o.id ↔ _
      rw [mem_setAdd, h.assets.ids_exact]
      constructor
      · rintro (⟨a, ha, e⟩ | e)
        · exact ⟨a, (hmem a).2 (Or.inl ha), by rw [hobj a ha]; exact e⟩
        · exact ⟨s.afresh, (hmem _).2 (Or.inr rfl), by rw [hnew]; exact e.symm⟩
      · rintro ⟨a, ha, e⟩
        rcases (hmem a).1 ha with ha | ha
        · rw [hobj a ha] at e; exact Or.inl ⟨a, ha, e⟩
        · rw [ha, hnew] at e; exact Or.inr e.symm
    · exact setAdd_nodup _ _ h.assets.ids_nodup
    · intro n
      show n ∈ setAdd s.assetNames o.name ↔ _
      rw [mem_setAdd, h.assets.names_exact]
      constructor
      · rintro (⟨a, ha, e⟩ | e)
        · exact ⟨a, (hmem a).2 (Or.inl ha), by rw [hobj a ha]; exact e⟩
        · exact ⟨s.afresh, (hmem _).2 (Or.inr rfl), by rw [hnew]; exact e.symm⟩
      · rintro ⟨a, ha, e⟩
        rcases (hmem a).1 ha with ha | ha
        · rw [hobj a ha] at e; exact Or.inl ⟨a, ha, e⟩
        · rw [ha, hnew] at e; exact Or.inr e.symm
    · exact setAdd_nodup _ _ h.assets.names_nodup
    · intro a ha
      show _ < max (o.id + 1) s.nextId
      rcases (hmem a).1 ha with ha | ha
      · rw [hobj a ha]; exact Int.lt_of_lt_of_le (h.assets.id_lt_next a ha) (Int.le_max_right _ _)
      · rw [ha, hnew]; exact Int.lt_of_lt_of_le (Int.lt_succ _) (Int.le_max_left _ _)
  · constructor
    · exact h.links.nodup
    · exact h.links.fresh
    · intro l hl a ha; exact (hmem a).2 (Or.inl (h.links.left_live l hl a ha))
    · intro l hl a ha; exact (hmem a).2 (Or.inl (h.links.right_live l hl a ha))
    · exact h.links.left_nodup
    · exact h.links.right_nodup
    · intro a ha l
      show _ = if l ∈ s.associations then (s.lobj l).left.count a + (s.lobj l).right.count a else 0
      rcases (hmem a).1 ha with ha | ha
      · rw [hobj a ha]; exact h.links.mirror a ha l
      · rw [ha, hnew, hb, List.count_nil]
        by_cases hl : l ∈ s.associations
        · rw [if_pos hl, List.count_eq_zero_of_not_mem (fun hm => hfr (h.links.left_live l hl _ hm)),
            List.count_eq_zero_of_not_mem (fun hm => hfr (h.links.right_live l hl _ hm))]
        · rw [if_neg hl]

theorem addAsset_inv' {L : Lang} {s s' : St} {type : String} {name : Option String} {defs : List (String × String)}
    {defsOk : Bool} {extras : String} {assetId : Option Int} {allowDup : Bool} (h : Inv s)
    (hok : addAsset L s type name defs defsOk extras assetId allowDup = .ok s') : Inv s' := by
  obtain ⟨rfl, _, _, _, hid, _⟩ := addAsset_ok hok
  exact addAssetSt_inv s _ h hid (chosenName_not_mem s type name _) rfl

/-! ## `add_association` -/

/-- the state after a successful `add_association` of the object `o` -/
def addAssocSt (s : St) (o : AssocObj) : St :=
  { s with
    lobj := fun x => if x = s.lfresh then o else s.lobj x
    lfresh := s.lfresh + 1
    aobj := fun x => { s.aobj x with
      assocs := (s.aobj x).assocs ++ List.replicate ((o.left ++ o.right).count x) s.lfresh }
    associations := s.associations ++ [s.lfresh]
    typeToAssoc := ttaAdd s.typeToAssoc o.cls s.lfresh }

theorem foldl_appendAssoc (l : Nat) (xs : List Nat) (s : St) :
    xs.foldl (fun s a => updA s a (fun o => { o with assocs := o.assocs ++ [l] })) s =
      { s with aobj := fun x => { s.aobj x with assocs := (s.aobj x).assocs ++ List.replicate (xs.count x) l } } := by
  rw [foldl_updA]
  congr 1
  funext x
  rw [iter_appendAssoc]

/-- the checks of the pjs constructor and of `_validate_association`, as propositions -/
structure AssocAccepted (L : Lang) (s : St) (c : AssocClass) (cls : String) (left right : List Nat) : Prop where
  found : (assocClasses L).find? (·.cls = cls) = some c
  left_type : ∀ a ∈ left, L.isSub (s.aobj a).type c.ltype = true
  left_count : okCount c.lmax left.length = true
  right_type : ∀ a ∈ right, L.isSub (s.aobj a).type c.rtype = true
  right_count : okCount c.rmax right.length = true
  left_live : ∀ a ∈ left, a ∈ s.assets
  right_live : ∀ a ∈ right, a ∈ s.assets
  left_names : (left.map (fun a => (s.aobj a).name)).Nodup
  right_names : (right.map (fun a => (s.aobj a).name)).Nodup
  fresh_pairs : ∀ a ∈ left, ∀ b ∈ right, assocExists s cls a b = false

theorem addAssociation_ok {L : Lang} {s s' : St} {cls : String} {left right : List Nat}
    (hok : addAssociation L s cls left right = .ok s') :
    ∃ c, AssocAccepted L s c cls left right ∧
      s' = addAssocSt s { cls := cls, lf := c.lf, rf := c.rf, left := left, right := right } := by
  unfold addAssociation at hok
  split at hok
  · cases hok
  next c hc =>
  split at hok
  · cases hok
  next h1 =>
  split at hok
  · cases hok
  next h2 =>
  split at hok
  · cases hok
  next h3 =>
  split at hok
  · cases hok
  next h4 =>
  split at hok
  · cases hok
  next h5 =>
  split at hok
  · cases hok
  next h6 =>
  refine ⟨c, ?_, ?_⟩
  · simp only [Bool.not_eq_false, Bool.and_eq_true, List.all_eq_true, okMember,
      Bool.not_eq_eq_eq_not, Bool.not_true] at h1 h2 h3 h4 h5 h6
    refine ⟨hc, h1.1.1.1, h1.1.1.2, h1.1.2, h1.2, fun a ha => List.contains_iff_mem.1 (h2 a ha),
      fun a ha => List.contains_iff_mem.1 (h4 a ha), (nodup_of_map_eraseDups _ _ h3).1, (nodup_of_map_eraseDups _ _ h5).1, ?_⟩
    intro a ha b hb
    cases he : assocExists s cls a b with
    | false => rfl
    | true =>
      exfalso; apply h6
      exact List.any_eq_true.2 ⟨a, ha, List.any_eq_true.2 ⟨b, hb, he⟩⟩
  · injection hok with hok
    rw [← hok, foldl_appendAssoc]
    rfl

theorem count_append_replicate (xs : List Nat) (n l l' : Nat) :
    (xs ++ List.replicate n l).count l' = xs.count l' + if l' = l then n else 0 := by
  rw [List.count_append, List.count_replicate]
  by_cases h : l' = l
  · subst h; simp
  · have : (l == l') = false := by simp [Ne.symm h]
    simp [h, this]

theorem addAssocSt_inv (s : St) (o : AssocObj) (h : Inv s) (hl : ∀ a ∈ o.left, a ∈ s.assets)
    (hr : ∀ a ∈ o.right, a ∈ s.assets) (hln : o.left.Nodup) (hrn : o.right.Nodup) : Inv (addAssocSt s o) := by
  have hfr := h.links.fresh_not_mem
  have hne : ∀ x ∈ s.associations, x ≠ s.lfresh := fun x hx e => hfr (e ▸ hx)
  have hobj : ∀ x ∈ s.associations, (addAssocSt s o).lobj x = s.lobj x := by
    intro x hx; show (if x = s.lfresh then o else s.lobj x) = _; rw [if_neg (hne x hx)]
  have hnew : (addAssocSt s o).lobj s.lfresh = o := by
    show (if s.lfresh = s.lfresh then o else s.lobj s.lfresh) = _; rw [if_pos rfl]
  have hmem : ∀ x, x ∈ (addAssocSt s o).associations ↔ x ∈ s.associations ∨ x = s.lfresh := fun x => mem_append_single
  refine ⟨AssetsOK.congr (s := s) (h := h.assets) rfl (Nat.le_refl _) rfl rfl (Int.le_refl _) (fun _ _ => rfl) (fun _ _ => rfl),
          ?_, ?_, AttOK.congr (s := s) (h := h.att) (fun x hx => hx) rfl (Nat.le_refl _) (fun _ _ => rfl)⟩
  · constructor
    · exact nodup_append_single h.links.nodup hfr
    · intro l hl'
      show l < s.lfresh + 1
      rcases (hmem l).1 hl' with hl' | hl'
      · exact Nat.lt_succ_of_lt (h.links.fresh l hl')
      · rw [hl']; exact Nat.lt_succ_self _
    · intro l hl' a ha
      show a ∈ s.assets
      rcases (hmem l).1 hl' with hl' | hl'
      · rw [hobj l hl'] at ha; exact h.links.left_live l hl' a ha
      · rw [hl', hnew] at ha; exact hl a ha
    · intro l hl' a ha
      show a ∈ s.assets
      rcases (hmem l).1 hl' with hl' | hl'
      · rw [hobj l hl'] at ha; exact h.links.right_live l hl' a ha
      · rw [hl', hnew] at ha; exact hr a ha
    · intro l hl'
      rcases (hmem l).1 hl' with hl' | hl'
      · rw [hobj l hl']; exact h.links.left_nodup l hl'
      · rw [hl', hnew]; exact hln
    · intro l hl'
      rcases (hmem l).1 hl' with hl' | hl'
      · rw [hobj l hl']; exact h.links.right_nodup l hl'
      · rw [hl', hnew]; exact hrn
    · intro a ha l
      have ha' : a ∈ s.assets := ha
      show ((s.aobj a).assocs ++ List.replicate ((o.left ++ o.right).count a) s.lfresh).count l =
        if l ∈ s.associations ++ [s.lfresh] then ((addAssocSt s o).lobj l).left.count a + ((addAssocSt s o).lobj l).right.count a else 0
      rw [count_append_replicate, h.links.mirror a ha' l]
      by_cases e : l = s.lfresh
      · rw [e, if_neg hfr, if_pos rfl, if_pos (mem_append_single.2 (Or.inr rfl)), hnew, List.count_append, Nat.zero_add]
      · rw [if_neg e, Nat.add_zero]
        by_cases hm : l ∈ s.associations
        · rw [if_pos hm, if_pos (mem_append_single.2 (Or.inl hm)), hobj l hm]
        · rw [if_neg hm, if_neg (fun hm' => (mem_append_single.1 hm').elim hm e)]
  · constructor
    · intro c l
      show l ∈ ttaGet (ttaAdd s.typeToAssoc o.cls s.lfresh) c ↔ l ∈ s.associations ++ [s.lfresh] ∧ ((addAssocSt s o).lobj l).cls = c
      rw [ttaGet_ttaAdd, mem_append_single]
      by_cases e : l = s.lfresh
      · rw [e, hnew]
        by_cases hc : c = o.cls
        · rw [if_pos hc]
          exact ⟨fun _ => ⟨Or.inr rfl, hc.symm⟩, fun _ => mem_append_single.2 (Or.inr rfl)⟩
        · rw [if_neg hc, h.tta.iff]
          exact ⟨fun hm => absurd hm.1 hfr, fun hm => absurd hm.2.symm hc⟩
      · have hcl : ((addAssocSt s o).lobj l).cls = (s.lobj l).cls := by
          show (if l = s.lfresh then o else s.lobj l).cls = _; rw [if_neg e]
        rw [hcl]
        by_cases hc : c = o.cls
        · rw [if_pos hc, mem_append_single, h.tta.iff, hc]
          exact ⟨fun hm => hm.elim (fun hm => ⟨Or.inl hm.1, hm.2⟩) (fun hm => absurd hm e),
                 fun hm => Or.inl ⟨hm.1.elim id (fun hm => absurd hm e), hm.2⟩⟩
        · rw [if_neg hc, h.tta.iff]
          exact ⟨fun hm => ⟨Or.inl hm.1, hm.2⟩, fun hm => ⟨hm.1.elim id (fun hm => absurd hm e), hm.2⟩⟩
    · intro c
      show (ttaGet (ttaAdd s.typeToAssoc o.cls s.lfresh) c).Nodup
      rw [ttaGet_ttaAdd]
      by_cases hc : c = o.cls
      · rw [if_pos hc]
        exact nodup_append_single (h.tta.groups_nodup _) (fun hm => hfr ((h.tta.iff _ _).1 hm).1)
      · rw [if_neg hc]; exact h.tta.groups_nodup c
    · exact ttaAdd_nonempty _ _ _ h.tta.nonempty
    · exact ttaAdd_keys _ _ _ h.tta.keys

theorem AssocAccepted.left_nodup {L : Lang} {s : St} {c : AssocClass} {cls : String} {left right : List Nat}
    (h : AssocAccepted L s c cls left right) : left.Nodup := nodup_of_map _ _ h.left_names
theorem AssocAccepted.right_nodup {L : Lang} {s : St} {c : AssocClass} {cls : String} {left right : List Nat}
    (h : AssocAccepted L s c cls left right) : right.Nodup := nodup_of_map _ _ h.right_names

theorem addAssociation_inv' {L : Lang} {s s' : St} {cls : String} {left right : List Nat} (h : Inv s)
    (hok : addAssociation L s cls left right = .ok s') : Inv s' := by
  obtain ⟨c, hacc, rfl⟩ := addAssociation_ok hok
  exact addAssocSt_inv s _ h hacc.left_live hacc.right_live hacc.left_nodup hacc.right_nodup

/-! ## the frame of the association-removing operations -/

/-- what `remove_association` / `remove_asset_from_association` leave untouched, and what only shrinks -/
structure LFrame (s s' : St) : Prop where
  assets : s'.assets = s.assets
  attackers : s'.attackers = s.attackers
  tobj : s'.tobj = s.tobj
  afresh : s'.afresh = s.afresh
  lfresh : s'.lfresh = s.lfresh
  tfresh : s'.tfresh = s.tfresh
  assetIds : s'.assetIds = s.assetIds
  assetNames : s'.assetNames = s.assetNames
  nextId : s'.nextId = s.nextId
  aid : ∀ x, (s'.aobj x).id = (s.aobj x).id
  aname : ∀ x, (s'.aobj x).name = (s.aobj x).name
  atype : ∀ x, (s'.aobj x).type = (s.aobj x).type
  adefs : ∀ x, (s'.aobj x).defenses = (s.aobj x).defenses
  assocs_sub : ∀ x, (s'.aobj x).assocs.Sublist (s.aobj x).assocs
  links_sub : s'.associations.Sublist s.associations
  cls : ∀ l, (s'.lobj l).cls = (s.lobj l).cls
  lf : ∀ l, (s'.lobj l).lf = (s.lobj l).lf
  rf : ∀ l, (s'.lobj l).rf = (s.lobj l).rf
  left_sub : ∀ l, (s'.lobj l).left.Sublist (s.lobj l).left
  right_sub : ∀ l, (s'.lobj l).right.Sublist (s.lobj l).right

theorem LFrame.refl (s : St) : LFrame s s :=
  ⟨rfl, rfl, rfl, rfl, rfl, rfl, rfl, rfl, rfl, fun _ => rfl, fun _ => rfl, fun _ => rfl, fun _ => rfl,
   fun _ => List.Sublist.refl _, List.Sublist.refl _, fun _ => rfl, fun _ => rfl, fun _ => rfl,
   fun _ => List.Sublist.refl _, fun _ => List.Sublist.refl _⟩

theorem LFrame.trans {s s' s'' : St} (h : LFrame s s') (h' : LFrame s' s'') : LFrame s s'' :=
  ⟨h'.assets.trans h.assets, h'.attackers.trans h.attackers, h'.tobj.trans h.tobj, h'.afresh.trans h.afresh,
   h'.lfresh.trans h.lfresh, h'.tfresh.trans h.tfresh, h'.assetIds.trans h.assetIds, h'.assetNames.trans h.assetNames,
   h'.nextId.trans h.nextId, fun x => (h'.aid x).trans (h.aid x), fun x => (h'.aname x).trans (h.aname x),
   fun x => (h'.atype x).trans (h.atype x), fun x => (h'.adefs x).trans (h.adefs x),
   fun x => (h'.assocs_sub x).trans (h.assocs_sub x), h'.links_sub.trans h.links_sub,
   fun l => (h'.cls l).trans (h.cls l), fun l => (h'.lf l).trans (h.lf l), fun l => (h'.rf l).trans (h.rf l),
   fun l => (h'.left_sub l).trans (h.left_sub l), fun l => (h'.right_sub l).trans (h.right_sub l)⟩

/-! ## `remove_association` -/

/-- the state after a successful `remove_association` -/
def removeAssocSt (s : St) (l : Nat) : St :=
  { s with
    aobj := fun x => { s.aobj x with
      assocs := iter (fun xs => xs.erase l) ((s.lobj l).left.count x + (s.lobj l).right.count x) (s.aobj x).assocs }
    associations := s.associations.erase l
    typeToAssoc := ttaDel s.typeToAssoc (s.lobj l).cls l }

theorem removeAssociation_eq (s : St) (l : Nat) :
    removeAssociation s l = if l ∈ s.associations then .ok (removeAssocSt s l) else .error .lookupError := by
  unfold removeAssociation
  by_cases h : l ∈ s.associations
  · rw [if_pos h, if_neg (by simp [h])]
    dsimp only
    rw [foldl_updA, foldl_updA]
    unfold removeAssocSt
    congr 2
    funext x
    dsimp only
    rw [← iter_add, iter_eraseAssoc]
  · rw [if_neg h, if_pos (by simp [h])]

theorem removeAssocSt_lframe (s : St) (l : Nat) : LFrame s (removeAssocSt s l) :=
  ⟨rfl, rfl, rfl, rfl, rfl, rfl, rfl, rfl, rfl, fun _ => rfl, fun _ => rfl, fun _ => rfl, fun _ => rfl,
   fun _ => iter_erase_sublist _ _ _, List.erase_sublist, fun _ => rfl, fun _ => rfl, fun _ => rfl,
   fun _ => List.Sublist.refl _, fun _ => List.Sublist.refl _⟩

theorem removeAssocSt_inv (s : St) (l : Nat) (h : Inv s) (hl : l ∈ s.associations) : Inv (removeAssocSt s l) := by
  refine ⟨AssetsOK.congr (s := s) (h := h.assets) rfl (Nat.le_refl _) rfl rfl (Int.le_refl _) (fun _ _ => rfl) (fun _ _ => rfl),
          ?_, ?_, AttOK.congr (s := s) (h := h.att) (fun x hx => hx) rfl (Nat.le_refl _) (fun _ _ => rfl)⟩
  · constructor
    · exact h.links.nodup.erase l
    · intro l' hl'; exact h.links.fresh l' (List.mem_of_mem_erase hl')
    · intro l' hl'; exact h.links.left_live l' (List.mem_of_mem_erase hl')
    · intro l' hl'; exact h.links.right_live l' (List.mem_of_mem_erase hl')
    · intro l' hl'; exact h.links.left_nodup l' (List.mem_of_mem_erase hl')
    · intro l' hl'; exact h.links.right_nodup l' (List.mem_of_mem_erase hl')
    · intro a ha l'
      have ha' : a ∈ s.assets := ha
      show (iter (fun xs => xs.erase l) ((s.lobj l).left.count a + (s.lobj l).right.count a) (s.aobj a).assocs).count l' =
        if l' ∈ s.associations.erase l then (s.lobj l').left.count a + (s.lobj l').right.count a else 0
      rw [count_iter_erase]
      by_cases e : l' = l
      · rw [if_pos e, h.links.mirror a ha' l, if_pos hl, Nat.sub_self,
          if_neg (by rw [e, h.links.nodup.mem_erase_iff]; exact fun hm => hm.1 rfl)]
      · rw [if_neg e, h.links.mirror a ha' l']
        by_cases hm : l' ∈ s.associations
        · rw [if_pos hm, if_pos ((List.mem_erase_of_ne e).2 hm)]
        · rw [if_neg hm, if_neg (fun hm' => hm (List.mem_of_mem_erase hm'))]
  · constructor
    · intro c l'
      show l' ∈ ttaGet (ttaDel s.typeToAssoc (s.lobj l).cls l) c ↔ l' ∈ s.associations.erase l ∧ (s.lobj l').cls = c
      rw [ttaGet_ttaDel _ _ _ _ h.tta.keys, h.links.nodup.mem_erase_iff]
      by_cases hc : c = (s.lobj l).cls
      · rw [if_pos hc, (h.tta.groups_nodup _).mem_erase_iff, h.tta.iff, hc]
        exact ⟨fun hm => ⟨⟨hm.1, hm.2.1⟩, hm.2.2⟩, fun hm => ⟨hm.1.1, hm.1.2, hm.2⟩⟩
      · rw [if_neg hc, h.tta.iff]
        exact ⟨fun hm => ⟨⟨fun e => hc (by rw [← hm.2, e]), hm.1⟩, hm.2⟩, fun hm => ⟨hm.1.2, hm.2⟩⟩
    · intro c
      show (ttaGet (ttaDel s.typeToAssoc (s.lobj l).cls l) c).Nodup
      rw [ttaGet_ttaDel _ _ _ _ h.tta.keys]
      by_cases hc : c = (s.lobj l).cls
      · rw [if_pos hc]; exact (h.tta.groups_nodup _).erase l
      · rw [if_neg hc]; exact h.tta.groups_nodup c
    · exact ttaDel_nonempty _ _ _ h.tta.nonempty
    · exact ttaDel_keys _ _ _ h.tta.keys

theorem removeAssociation_inv' {s s' : St} {l : Nat} (h : Inv s) (hok : removeAssociation s l = .ok s') : Inv s' := by
  rw [removeAssociation_eq] at hok
  by_cases hl : l ∈ s.associations
  · rw [if_pos hl] at hok; cases hok; exact removeAssocSt_inv s l h hl
  · rw [if_neg hl] at hok; cases hok

/-! ## `remove_asset_from_association` -/

/-- the state after `remove_asset_from_association` when the association survives -/
def rafaSt (s : St) (a l : Nat) : St :=
  updA (updL s l (fun o => { o with left := o.left.erase a, right := o.right.erase a })) a
    (fun x => { x with assocs := x.assocs.filter (· ≠ l) })

theorem not_mem_erase_self_of_nodup {l : List Nat} {a : Nat} (h : l.Nodup) : a ∉ l.erase a := by
  rw [h.mem_erase_iff]; exact fun hm => hm.1 rfl

/-- what a successful `remove_asset_from_association` tells -/
theorem rafa_ok {s s' : St} {a l : Nat} (h : LinksOK s) (hok : removeAssetFromAssociation s a l = .ok s') :
    a ∈ s.assets ∧ l ∈ s.associations ∧ (a ∈ (s.lobj l).left ∨ a ∈ (s.lobj l).right) ∧
      (s' = removeAssocSt s l ∨ s' = rafaSt s a l) := by
  unfold removeAssetFromAssociation at hok
  split at hok
  · cases hok
  next h1 =>
  split at hok
  · cases hok
  next h2 =>
  have ha : a ∈ s.assets := by simpa using h1
  have hl : l ∈ s.associations := by simpa using h2
  dsimp only at hok
  split at hok
  · next h3 =>
    rw [removeAssociation_eq, if_pos hl] at hok
    injection hok with hok
    refine ⟨ha, hl, ?_, Or.inl hok.symm⟩
    simp only [Bool.or_eq_true, Bool.and_eq_true, List.contains_iff_mem] at h3
    exact h3.elim (fun x => Or.inl x.1) (fun x => Or.inr x.1)
  next h3 =>
  split at hok
  · cases hok
  next h4 =>
  refine ⟨ha, hl, ?_, Or.inr ?_⟩
  · have h4 : ¬ a ∈ (s.lobj l).left → a ∈ (s.lobj l).right := by simpa using h4
    exact Classical.or_iff_not_imp_left.2 h4
  · split at hok
    · injection hok with hok; exact hok.symm
    · next h5 =>
      exfalso; apply h5
      have e1 : ((updL s l fun o => { o with left := o.left.erase a, right := o.right.erase a }).lobj l).left
          = (s.lobj l).left.erase a := by simp
      have e2 : ((updL s l fun o => { o with left := o.left.erase a, right := o.right.erase a }).lobj l).right
          = (s.lobj l).right.erase a := by simp
      rw [e1, e2]
      have n1 := not_mem_erase_self_of_nodup (a := a) (h.left_nodup l hl)
      have n2 := not_mem_erase_self_of_nodup (a := a) (h.right_nodup l hl)
      simp [n1, n2]

theorem rafa_succeeds {s : St} {a l : Nat} (ha : a ∈ s.assets) (hl : l ∈ s.associations)
    (hm : a ∈ (s.lobj l).left ∨ a ∈ (s.lobj l).right) : ∃ s', removeAssetFromAssociation s a l = .ok s' := by
  unfold removeAssetFromAssociation
  rw [if_neg (by simp [ha]), if_neg (by simp [hl])]
  dsimp only
  split
  · rw [removeAssociation_eq, if_pos hl]; exact ⟨_, rfl⟩
  · rw [if_neg (by simpa using Classical.or_iff_not_imp_left.1 hm)]
    split <;> exact ⟨_, rfl⟩

theorem count_filter_ne (r y : Nat) (l : List Nat) :
    (l.filter (· ≠ r)).count y = if y = r then 0 else l.count y := by
  by_cases h : y = r
  · subst h; simp [List.count_eq_zero]
  · rw [if_neg h, List.count_filter]; simp [h]

theorem rafaSt_lframe (s : St) (a l : Nat) : LFrame s (rafaSt s a l) := by
  refine ⟨rfl, rfl, rfl, rfl, rfl, rfl, rfl, rfl, rfl, ?_, ?_, ?_, ?_, ?_, List.Sublist.refl _, ?_, ?_, ?_, ?_, ?_⟩
  all_goals intro x
  all_goals unfold rafaSt
  all_goals simp only [updA_aobj, updL_aobj, updA_lobj, updL_lobj]
  all_goals split
  all_goals first
    | rfl
    | exact List.Sublist.refl _
    | exact List.filter_sublist
    | exact List.erase_sublist

theorem rafaSt_inv (s : St) (a l : Nat) (h : Inv s) (hl : l ∈ s.associations) : Inv (rafaSt s a l) := by
  have hobjA : ∀ x, x ≠ a → (rafaSt s a l).aobj x = s.aobj x := by
    intro x hx; unfold rafaSt; simp [hx]
  have hobjL : ∀ x, x ≠ l → (rafaSt s a l).lobj x = s.lobj x := by
    intro x hx; unfold rafaSt; simp [hx]
  have hA : (rafaSt s a l).aobj a = { s.aobj a with assocs := (s.aobj a).assocs.filter (· ≠ l) } := by
    unfold rafaSt; simp
  have hL : (rafaSt s a l).lobj l = { s.lobj l with left := (s.lobj l).left.erase a, right := (s.lobj l).right.erase a } := by
    unfold rafaSt; simp
  have hid : ∀ x, ((rafaSt s a l).aobj x).id = (s.aobj x).id := (rafaSt_lframe s a l).aid
  have hnm : ∀ x, ((rafaSt s a l).aobj x).name = (s.aobj x).name := (rafaSt_lframe s a l).aname
  refine ⟨AssetsOK.congr (s := s) (h := h.assets) rfl (Nat.le_refl _) rfl rfl (Int.le_refl _) (fun x _ => hid x) (fun x _ => hnm x),
          ?_, TtaOK.congr (s := s) (h := h.tta) rfl rfl (fun x _ => (rafaSt_lframe s a l).cls x),
          AttOK.congr (s := s) (h := h.att) (fun x hx => hx) rfl (Nat.le_refl _) (fun _ _ => rfl)⟩
  constructor
  · exact h.links.nodup
  · exact h.links.fresh
  · intro l' hl' x hx
    exact h.links.left_live l' hl' x (((rafaSt_lframe s a l).left_sub l').mem hx)
  · intro l' hl' x hx
    exact h.links.right_live l' hl' x (((rafaSt_lframe s a l).right_sub l').mem hx)
  · intro l' hl'
    exact (h.links.left_nodup l' hl').sublist ((rafaSt_lframe s a l).left_sub l')
  · intro l' hl'
    exact (h.links.right_nodup l' hl').sublist ((rafaSt_lframe s a l).right_sub l')
  · intro x hx l'
    have hx' : x ∈ s.assets := hx
    show ((rafaSt s a l).aobj x).assocs.count l' =
      if l' ∈ s.associations then ((rafaSt s a l).lobj l').left.count x + ((rafaSt s a l).lobj l').right.count x else 0
    by_cases ex : x = a
    · subst ex
      rw [hA]
      show ((s.aobj x).assocs.filter (· ≠ l)).count l' = _
      rw [count_filter_ne]
      by_cases el : l' = l
      · subst el
        rw [if_pos rfl, if_pos hl, hL]
        show 0 = ((s.lobj l').left.erase x).count x + ((s.lobj l').right.erase x).count x
        rw [List.count_eq_zero_of_not_mem (not_mem_erase_self_of_nodup (h.links.left_nodup l' hl)),
          List.count_eq_zero_of_not_mem (not_mem_erase_self_of_nodup (h.links.right_nodup l' hl))]
      · rw [if_neg el, hobjL l' el]; exact h.links.mirror x hx' l'
    · rw [hobjA x ex, h.links.mirror x hx' l']
      by_cases el : l' = l
      · subst el
        rw [hL]
        show _ = if l' ∈ s.associations then ((s.lobj l').left.erase a).count x + ((s.lobj l').right.erase a).count x else 0
        rw [List.count_erase_of_ne ex, List.count_erase_of_ne ex]
      · rw [hobjL l' el]

theorem removeAssetFromAssociation_inv' {s s' : St} {a l : Nat} (h : Inv s)
    (hok : removeAssetFromAssociation s a l = .ok s') : Inv s' := by
  obtain ⟨_, hl, _, hs | hs⟩ := rafa_ok h.links hok
  · rw [hs]; exact removeAssocSt_inv s l h hl
  · rw [hs]; exact rafaSt_inv s a l h hl

theorem removeAssetFromAssociation_lframe {s s' : St} {a l : Nat} (h : Inv s)
    (hok : removeAssetFromAssociation s a l = .ok s') : LFrame s s' := by
  obtain ⟨_, hl, _, hs | hs⟩ := rafa_ok h.links hok
  · rw [hs]; exact removeAssocSt_lframe s l
  · rw [hs]; exact rafaSt_lframe s a l

/-- after a successful `remove_asset_from_association` the asset no longer lists the association -/
theorem rafa_not_listed {s s' : St} {a l : Nat} (h : Inv s)
    (hok : removeAssetFromAssociation s a l = .ok s') : l ∉ (s'.aobj a).assocs := by
  obtain ⟨ha, hl, _, hs | hs⟩ := rafa_ok h.links hok
  · have hi := removeAssocSt_inv s l h hl
    rw [hs]
    intro hm
    have := ((hi.links.mem_assocs_iff (a := a) ha l).1 hm).1
    exact not_mem_erase_self_of_nodup h.links.nodup this
  · rw [hs]
    unfold rafaSt
    simp

/-! ## `remove_asset` -/

/-- the loop body of `remove_asset` over `list(asset.associations)` -/
def raStep (a : Nat) (s : St) (l : Nat) : Except Err St :=
  if (s.aobj a).assocs.contains l then removeAssetFromAssociation s a l else pure s

/-- dropping the entry point tuple of asset `a` -/
def dropEntry (a : Nat) (o : AttObj) : AttObj :=
  { o with entry := match o.entry.find? (·.1 = a) with
                    | some ep => o.entry.erase ep | none => o.entry }

/-- the part of `remove_asset` after the associations have been handled -/
def finishRemove (s1 : St) (a : Nat) : St :=
  let s2 := s1.attackers.foldl (fun s t => updT s t (dropEntry a)) s1
  { s2 with assets := s2.assets.erase a
            assetIds := s2.assetIds.erase (s2.aobj a).id
            assetNames := s2.assetNames.erase (s2.aobj a).name }

theorem removeAsset_eq (s : St) (a : Nat) :
    removeAsset s a = if a ∈ s.assets then
      ((s.aobj a).assocs.foldlM (raStep a) s) >>= fun s1 => pure (finishRemove s1 a)
    else .error .lookupError := by
  unfold removeAsset
  by_cases h : a ∈ s.assets
  · rw [if_pos h, if_neg (by simp [h])]; rfl
  · rw [if_neg h, if_pos (by simp [h])]

theorem raStep_ok (a : Nat) (s : St) (l : Nat) (h : Inv s) (ha : a ∈ s.assets) :
    ∃ s', raStep a s l = .ok s' ∧ Inv s' ∧ LFrame s s' ∧ l ∉ (s'.aobj a).assocs := by
  unfold raStep
  by_cases hm : l ∈ (s.aobj a).assocs
  · rw [if_pos (List.contains_iff_mem.2 hm)]
    obtain ⟨hl, hmem⟩ := (h.links.mem_assocs_iff ha l).1 hm
    obtain ⟨s', hs'⟩ := rafa_succeeds ha hl hmem
    exact ⟨s', hs', removeAssetFromAssociation_inv' h hs', removeAssetFromAssociation_lframe h hs', rafa_not_listed h hs'⟩
  · rw [if_neg (fun hc => hm (List.contains_iff_mem.1 hc))]
    exact ⟨s, rfl, h, LFrame.refl s, hm⟩

/-- the loop of `remove_asset` cannot raise; afterwards the asset lists none of the associations it went through -/
theorem raLoop (a : Nat) (xs : List Nat) : ∀ s, Inv s → a ∈ s.assets →
    ∃ s1, xs.foldlM (raStep a) s = .ok s1 ∧ Inv s1 ∧ LFrame s s1 ∧ ∀ l ∈ xs, l ∉ (s1.aobj a).assocs := by
  induction xs with
  | nil => intro s h _; exact ⟨s, rfl, h, LFrame.refl s, fun _ hl => absurd hl List.not_mem_nil⟩
  | cons x xs ih =>
    intro s h ha
    obtain ⟨s', hs', hi', hf', hx'⟩ := raStep_ok a s x h ha
    obtain ⟨s1, hs1, hi1, hf1, hx1⟩ := ih s' hi' (hf'.assets ▸ ha)
    refine ⟨s1, ?_, hi1, hf'.trans hf1, ?_⟩
    · rw [List.foldlM_cons, hs']; exact hs1
    · intro l hl
      rcases List.mem_cons.1 hl with e | hl
      · rw [e]; exact fun hm => hx' ((hf1.assocs_sub a).mem hm)
      · exact hx1 l hl

theorem raLoop_all (a : Nat) (s : St) (h : Inv s) (ha : a ∈ s.assets) :
    ∃ s1, (s.aobj a).assocs.foldlM (raStep a) s = .ok s1 ∧ Inv s1 ∧ LFrame s s1 ∧ (s1.aobj a).assocs = [] := by
  obtain ⟨s1, hs1, hi1, hf1, hx1⟩ := raLoop a (s.aobj a).assocs s h ha
  refine ⟨s1, hs1, hi1, hf1, ?_⟩
  rw [List.eq_nil_iff_forall_not_mem]
  intro l hl
  exact hx1 l ((hf1.assocs_sub a).mem hl) hl

theorem inj_of_nodup_map {α β : Type} (f : α → β) (l : List α) (h : (l.map f).Nodup) :
    ∀ x ∈ l, ∀ y ∈ l, f x = f y → x = y := by
  induction l with
  | nil => intro x hx; exact absurd hx List.not_mem_nil
  | cons a l ih =>
    rw [List.map_cons, List.nodup_cons] at h
    intro x hx y hy e
    rcases List.mem_cons.1 hx with hx | hx <;> rcases List.mem_cons.1 hy with hy | hy
    · rw [hx, hy]
    · exfalso; apply h.1; rw [← hx, e]; exact List.mem_map.2 ⟨y, hy, rfl⟩
    · exfalso; apply h.1; rw [← hy, ← e]; exact List.mem_map.2 ⟨x, hx, rfl⟩
    · exact ih h.2 x hx y hy e

theorem dropEntry_spec (a : Nat) (o : AttObj) (hn : (o.entry.map (·.1)).Nodup) :
    (dropEntry a o).entry.Sublist o.entry ∧ ∀ ep ∈ (dropEntry a o).entry, ep.1 ≠ a := by
  unfold dropEntry
  cases hf : o.entry.find? (·.1 = a) with
  | none =>
    refine ⟨List.Sublist.refl _, ?_⟩
    intro ep hep
    simpa using List.find?_eq_none.1 hf ep hep
  | some ep0 =>
    refine ⟨List.erase_sublist, ?_⟩
    intro ep hep e
    have h0 : ep0.1 = a := by simpa using List.find?_some hf
    have hm0 : ep0 ∈ o.entry := List.mem_of_find?_eq_some hf
    have hnd : o.entry.Nodup := nodup_of_map _ _ hn
    have hep' : ep ∈ o.entry.erase ep0 := hep
    rw [hnd.mem_erase_iff] at hep'
    exact hep'.1 (inj_of_nodup_map _ _ hn ep hep'.2 ep0 hm0 (e.trans h0.symm))

theorem finishRemove_eq (s1 : St) (a : Nat) :
    finishRemove s1 a = { s1 with
      tobj := fun x => iter (dropEntry a) (s1.attackers.count x) (s1.tobj x)
      assets := s1.assets.erase a
      assetIds := s1.assetIds.erase (s1.aobj a).id
      assetNames := s1.assetNames.erase (s1.aobj a).name } := by
  unfold finishRemove
  rw [foldl_updT]

theorem finishRemove_inv (s : St) (a : Nat) (h : Inv s) (ha : a ∈ s.assets) (hb : (s.aobj a).assocs = []) :
    Inv (finishRemove s a) := by
  rw [finishRemove_eq]
  have hnm : ∀ l ∈ s.associations, a ∉ (s.lobj l).left ∧ a ∉ (s.lobj l).right := by
    intro l hl
    have : ¬ (l ∈ s.associations ∧ (a ∈ (s.lobj l).left ∨ a ∈ (s.lobj l).right)) := by
      intro hc
      have := (h.links.mem_assocs_iff ha l).2 hc
      rw [hb] at this; exact absurd this List.not_mem_nil
    exact ⟨fun hm => this ⟨hl, Or.inl hm⟩, fun hm => this ⟨hl, Or.inr hm⟩⟩
  have hT : ∀ t ∈ s.attackers, iter (dropEntry a) (s.attackers.count t) (s.tobj t) = dropEntry a (s.tobj t) := by
    intro t ht
    rw [h.att.nodup.count, if_pos ht]; rfl
  refine ⟨?_, ?_, TtaOK.congr (s := s) (h := h.tta) rfl rfl (fun _ _ => rfl), ?_⟩
  · constructor
    · exact h.assets.nodup.erase a
    · intro x hx; exact h.assets.fresh x (List.mem_of_mem_erase hx)
    · intro x hx y hy; exact h.assets.ids_inj x (List.mem_of_mem_erase hx) y (List.mem_of_mem_erase hy)
    · intro x hx y hy; exact h.assets.names_inj x (List.mem_of_mem_erase hx) y (List.mem_of_mem_erase hy)
    · intro i
      show i ∈ s.assetIds.erase (s.aobj a).id ↔ ∃ b ∈ s.assets.erase a, (s.aobj b).id = i
      rw [h.assets.ids_nodup.mem_erase_iff, h.assets.ids_exact]
      constructor
      · rintro ⟨hne, b, hb', e⟩
        exact ⟨b, (List.mem_erase_of_ne (fun eb => hne (by rw [← e, eb]))).2 hb', e⟩
      · rintro ⟨b, hb', e⟩
        rw [h.assets.nodup.mem_erase_iff] at hb'
        exact ⟨fun e' => hb'.1 (h.assets.ids_inj b hb'.2 a ha (e.trans e')), b, hb'.2, e⟩
    · exact h.assets.ids_nodup.erase _
    · intro n
      show n ∈ s.assetNames.erase (s.aobj a).name ↔ ∃ b ∈ s.assets.erase a, (s.aobj b).name = n
      rw [h.assets.names_nodup.mem_erase_iff, h.assets.names_exact]
      constructor
      · rintro ⟨hne, b, hb', e⟩
        exact ⟨b, (List.mem_erase_of_ne (fun eb => hne (by rw [← e, eb]))).2 hb', e⟩
      · rintro ⟨b, hb', e⟩
        rw [h.assets.nodup.mem_erase_iff] at hb'
        exact ⟨fun e' => hb'.1 (h.assets.names_inj b hb'.2 a ha (e.trans e')), b, hb'.2, e⟩
    · exact h.assets.names_nodup.erase _
    · intro x hx; exact h.assets.id_lt_next x (List.mem_of_mem_erase hx)
  · constructor
    · exact h.links.nodup
    · exact h.links.fresh
    · intro l hl x hx
      exact (List.mem_erase_of_ne (fun (e : x = a) => (hnm l hl).1 (e ▸ hx))).2 (h.links.left_live l hl x hx)
    · intro l hl x hx
      exact (List.mem_erase_of_ne (fun (e : x = a) => (hnm l hl).2 (e ▸ hx))).2 (h.links.right_live l hl x hx)
    · exact h.links.left_nodup
    · exact h.links.right_nodup
    · intro x hx l; exact h.links.mirror x (List.mem_of_mem_erase hx) l
  · constructor
    · exact h.att.nodup
    · exact h.att.fresh
    · intro t ht ep hep
      have ht' : t ∈ s.attackers := ht
      have hep' : ep ∈ (iter (dropEntry a) (s.attackers.count t) (s.tobj t)).entry := hep
      rw [hT t ht'] at hep'
      obtain ⟨hsub, hne⟩ := dropEntry_spec a (s.tobj t) (h.att.entry_nodup t ht')
      exact (List.mem_erase_of_ne (hne ep hep')).2 (h.att.entry_live t ht' ep (hsub.mem hep'))
    · intro t ht
      have ht' : t ∈ s.attackers := ht
      show ((iter (dropEntry a) (s.attackers.count t) (s.tobj t)).entry.map (·.1)).Nodup
      rw [hT t ht']
      obtain ⟨hsub, _⟩ := dropEntry_spec a (s.tobj t) (h.att.entry_nodup t ht')
      exact (h.att.entry_nodup t ht').sublist (hsub.map _)

/-- `remove_asset` of a live asset succeeds; the state afterwards -/
theorem removeAsset_spec (s : St) (a : Nat) (h : Inv s) (ha : a ∈ s.assets) :
    ∃ s1, Inv s1 ∧ LFrame s s1 ∧ (s1.aobj a).assocs = [] ∧ removeAsset s a = .ok (finishRemove s1 a) := by
  obtain ⟨s1, hs1, hi1, hf1, hb1⟩ := raLoop_all a s h ha
  refine ⟨s1, hi1, hf1, hb1, ?_⟩
  rw [removeAsset_eq, if_pos ha, hs1]; rfl

theorem removeAsset_inv' {s s' : St} {a : Nat} (h : Inv s) (hok : removeAsset s a = .ok s') : Inv s' := by
  by_cases ha : a ∈ s.assets
  · obtain ⟨s1, hi1, hf1, hb1, he⟩ := removeAsset_spec s a h ha
    rw [he] at hok; injection hok with hok
    rw [← hok]; exact finishRemove_inv s1 a hi1 (hf1.assets ▸ ha) hb1
  · rw [removeAsset_eq, if_neg ha] at hok; cases hok

/-! ## histories -/

theorem except_cases (r : Except Err St) : (∃ s', r = .ok s') ∨ (∃ e, r = .error e) := by
  cases r with
  | ok s' => exact Or.inl ⟨s', rfl⟩
  | error e => exact Or.inr ⟨e, rfl⟩

theorem runOp_inv {L : Lang} {s s' : St} {op : Op} (h : Inv s) (hok : runOp L s op = .ok s') : Inv s' := by
  cases op with
  | addAsset ty nm defs ok ex id dup => exact addAsset_inv' h hok
  | addAssociation cls left right => exact addAssociation_inv' h hok
  | removeAssociation l => exact removeAssociation_inv' h hok
  | removeAssetFromAssociation a l => exact removeAssetFromAssociation_inv' h hok
  | removeAsset a => exact removeAsset_inv' h hok
  | addAttacker nm id => injection hok with hok; rw [← hok]; exact addAttacker_inv' s nm id h
  | removeAttacker t => exact removeAttacker_inv' h hok
  | addEntryPoint t a step =>
    injection hok with hok; rw [← hok]
    split
    · next hc => exact addEntryPoint_inv' s t a step h hc.2
    · exact h
  | removeEntryPoint t a step =>
    injection hok with hok; rw [← hok]
    split
    · exact removeEntryPoint_inv' s t a step h
    · exact h

theorem applyOp_eq (L : Lang) (s : St) (op : Op) :
    (∃ s', runOp L s op = .ok s' ∧ applyOp L s op = s') ∨ (∃ e, runOp L s op = .error e ∧ applyOp L s op = s) := by
  unfold applyOp
  rcases except_cases (runOp L s op) with ⟨s', h⟩ | ⟨e, h⟩
  · exact Or.inl ⟨s', h, by rw [h]; rfl⟩
  · exact Or.inr ⟨e, h, by rw [h]; rfl⟩

theorem applyOp_inv' (L : Lang) (s : St) (op : Op) (h : Inv s) : Inv (applyOp L s op) := by
  rcases applyOp_eq L s op with ⟨s', h1, h2⟩ | ⟨e, _, h2⟩
  · rw [h2]; exact runOp_inv h h1
  · rw [h2]; exact h

theorem foldl_applyOp_inv (L : Lang) (ops : List Op) (s : St) (h : Inv s) : Inv (ops.foldl (applyOp L) s) := by
  induction ops generalizing s with
  | nil => exact h
  | cons op ops ih => exact ih _ (applyOp_inv' L s op h)

/-! ## validity against the language -/

theorem okCount_mono (k : Option Nat) {m n : Nat} (hmn : m ≤ n) (h : okCount k n = true) : okCount k m = true := by
  cases k with
  | none => rfl
  | some k =>
    have : n ≤ k := by simpa [okCount] using h
    have : m ≤ k := Nat.le_trans hmn this
    simpa [okCount] using this

theorem init_valid' (L : Lang) : Valid L {} := by
  refine ⟨?_, ?_, ?_, ?_, ?_⟩ <;> intro a ha <;> exact absurd ha List.not_mem_nil

/-- nothing is added; members, types, ids only shrink / stay -/
theorem Valid.shrink {L : Lang} {s s' : St} (h : Valid L s)
    (hVA : ∀ a ∈ s'.assets, ValidAsset L s' a)
    (hL : ∀ l ∈ s'.associations, l ∈ s.associations)
    (hmem : ∀ l ∈ s.associations, ∀ x, (x ∈ (s.lobj l).left ∨ x ∈ (s.lobj l).right) →
      (s'.aobj x).type = (s.aobj x).type ∧ (s'.aobj x).id = (s.aobj x).id)
    (hobj : ∀ l ∈ s.associations, (s'.lobj l).cls = (s.lobj l).cls ∧ (s'.lobj l).lf = (s.lobj l).lf ∧
      (s'.lobj l).rf = (s.lobj l).rf ∧ (s'.lobj l).left.Sublist (s.lobj l).left ∧
      (s'.lobj l).right.Sublist (s.lobj l).right) : Valid L s' := by
  refine ⟨hVA, ?_, ?_, ?_, ?_⟩
  · intro l hl'
    have hl := hL l hl'
    obtain ⟨c, hc, hi⟩ := h.links l hl
    obtain ⟨e1, e2, e3, sl, sr⟩ := hobj l hl
    refine ⟨c, hc, ?_⟩
    constructor
    · rw [e1]; exact hi.cls
    · rw [e2]; exact hi.lf
    · rw [e3]; exact hi.rf
    · intro a ha; rw [(hmem l hl a (Or.inl (sl.mem ha))).1]; exact hi.left_type a (sl.mem ha)
    · intro a ha; rw [(hmem l hl a (Or.inr (sr.mem ha))).1]; exact hi.right_type a (sr.mem ha)
    · exact okCount_mono _ sl.length_le hi.left_count
    · exact okCount_mono _ sr.length_le hi.right_count
  · intro l hl'
    exact (h.left_nodup l (hL l hl')).sublist (hobj l (hL l hl')).2.2.2.1
  · intro l hl'
    exact (h.right_nodup l (hL l hl')).sublist (hobj l (hL l hl')).2.2.2.2
  · intro l hl l' hl' hne hcls
    have hl0 := hL l hl
    have hl0' := hL l' hl'
    rw [(hobj l hl0).1, (hobj l' hl0').1] at hcls
    intro ⟨a, ha, b, hb, a', ha', b', hb', e1, e2⟩
    have ma := (hobj l hl0).2.2.2.1.mem ha
    have mb := (hobj l hl0).2.2.2.2.mem hb
    have ma' := (hobj l' hl0').2.2.2.1.mem ha'
    have mb' := (hobj l' hl0').2.2.2.2.mem hb'
    apply h.no_dup_link l hl0 l' hl0' hne hcls
    refine ⟨a, ma, b, mb, a', ma', b', mb', ?_, ?_⟩
    · rw [← (hmem l hl0 a (Or.inl ma)).2, ← (hmem l' hl0' a' (Or.inl ma')).2]; exact e1
    · rw [← (hmem l hl0 b (Or.inr mb)).2, ← (hmem l' hl0' b' (Or.inr mb')).2]; exact e2

theorem ValidAsset.congr {L : Lang} {s s' : St} {a : Nat} (ht : (s'.aobj a).type = (s.aobj a).type)
    (hd : (s'.aobj a).defenses = (s.aobj a).defenses) (h : ValidAsset L s a) : ValidAsset L s' a := by
  constructor
  · rw [ht]; exact h.known
  · rw [hd, ht]; exact h.defenses

theorem Valid.of_lframe {L : Lang} {s s' : St} (hf : LFrame s s') (h : Valid L s) : Valid L s' := by
  apply h.shrink
  · intro a ha; rw [hf.assets] at ha
    exact (h.assets a ha).congr (hf.atype a) (hf.adefs a)
  · intro l hl; exact hf.links_sub.mem hl
  · intro l _ x _; exact ⟨hf.atype x, hf.aid x⟩
  · intro l _; exact ⟨hf.cls l, hf.lf l, hf.rf l, hf.left_sub l, hf.right_sub l⟩

/-- an operation that touches neither assets nor associations -/
theorem Valid.of_same {L : Lang} {s s' : St} (ha : s'.assets = s.assets) (hl : s'.associations = s.associations)
    (hao : s'.aobj = s.aobj) (hlo : s'.lobj = s.lobj) (h : Valid L s) : Valid L s' := by
  apply h.shrink
  · intro a hm; rw [ha] at hm
    exact (h.assets a hm).congr (by rw [hao]) (by rw [hao])
  · intro l hm; rw [hl] at hm; exact hm
  · intro l _ x _; rw [hao]; exact ⟨rfl, rfl⟩
  · intro l _; rw [hlo]; exact ⟨rfl, rfl, rfl, List.Sublist.refl _, List.Sublist.refl _⟩

theorem addAssetSt_valid {L : Lang} (s : St) (o : AssetObj) (h : Inv s) (hv : Valid L s)
    (hk : (L.findAsset o.type).isSome = true) (hd : ∀ d ∈ o.defenses, ∃ v, (d.1, v) ∈ defensesOf L o.type) :
    Valid L (addAssetSt s o) := by
  have hfr := h.assets.fresh_not_mem
  have hobj : ∀ x ∈ s.assets, (addAssetSt s o).aobj x = s.aobj x := by
    intro x hx; show (if x = s.afresh then o else s.aobj x) = _
    rw [if_neg (fun (e : x = s.afresh) => hfr (e ▸ hx))]
  have hnew : (addAssetSt s o).aobj s.afresh = o := by
    show (if s.afresh = s.afresh then o else s.aobj s.afresh) = _; rw [if_pos rfl]
  apply hv.shrink
  · intro a ha
    rcases (mem_append_single (l := s.assets)).1 ha with ha | ha
    · exact (hv.assets a ha).congr (by rw [hobj a ha]) (by rw [hobj a ha])
    · rw [ha]; constructor
      · rw [hnew]; exact hk
      · rw [hnew]; exact hd
  · intro l hl; exact hl
  · intro l hl x hx
    have : x ∈ s.assets := hx.elim (h.links.left_live l hl x) (h.links.right_live l hl x)
    rw [hobj x this]; exact ⟨rfl, rfl⟩
  · intro l _; exact ⟨rfl, rfl, rfl, List.Sublist.refl _, List.Sublist.refl _⟩

theorem assocExists_of_pair (s : St) (cls : String) (a b l' a' b' : Nat) (hl' : l' ∈ ttaGet s.typeToAssoc cls)
    (ha' : a' ∈ (s.lobj l').left) (hb' : b' ∈ (s.lobj l').right) (ea : (s.aobj a).id = (s.aobj a').id)
    (eb : (s.aobj b).id = (s.aobj b').id) : assocExists s cls a b = true := by
  unfold assocExists
  rw [List.any_eq_true]
  refine ⟨l', hl', ?_⟩
  rw [Bool.and_eq_true, List.contains_iff_mem, List.contains_iff_mem]
  exact ⟨List.mem_map.2 ⟨a', ha', ea.symm⟩, List.mem_map.2 ⟨b', hb', eb.symm⟩⟩

theorem addAssocSt_valid {L : Lang} (s : St) (c : AssocClass) (cls : String) (left right : List Nat) (h : Inv s)
    (hv : Valid L s) (hacc : AssocAccepted L s c cls left right) :
    Valid L (addAssocSt s { cls := cls, lf := c.lf, rf := c.rf, left := left, right := right }) := by
  have hfr := h.links.fresh_not_mem
  have hobj : ∀ x ∈ s.associations, (addAssocSt s { cls := cls, lf := c.lf, rf := c.rf, left := left, right := right }).lobj x = s.lobj x := by
    intro x hx; show (if x = s.lfresh then _ else s.lobj x) = _
    rw [if_neg (fun (e : x = s.lfresh) => hfr (e ▸ hx))]
  have hnew : (addAssocSt s { cls := cls, lf := c.lf, rf := c.rf, left := left, right := right }).lobj s.lfresh =
      { cls := cls, lf := c.lf, rf := c.rf, left := left, right := right } := by
    show (if s.lfresh = s.lfresh then _ else s.lobj s.lfresh) = _; rw [if_pos rfl]
  have hc : c.cls = cls := by simpa using List.find?_some hacc.found
  have hcm : c ∈ assocClasses L := List.mem_of_find?_eq_some hacc.found
  -- a pair shared between the new association and an old one of the same class contradicts the duplicate check
  have hpair : ∀ l' ∈ s.associations, (s.lobj l').cls = cls → ∀ a ∈ left, ∀ b ∈ right, ∀ a' ∈ (s.lobj l').left,
      ∀ b' ∈ (s.lobj l').right, (s.aobj a).id = (s.aobj a').id → (s.aobj b).id = (s.aobj b').id → False := by
    intro l' hl' hcl a ha b hb a' ha' b' hb' ea eb
    have := assocExists_of_pair s cls a b l' a' b' ((h.tta.iff cls l').2 ⟨hl', hcl⟩) ha' hb' ea eb
    rw [hacc.fresh_pairs a ha b hb] at this; cases this
  refine ⟨?_, ?_, ?_, ?_, ?_⟩
  · intro a ha
    exact ValidAsset.congr (s := s) (h := hv.assets a ha) rfl rfl
  · intro l hl
    rcases (mem_append_single (l := s.associations)).1 hl with hl | hl
    · obtain ⟨c', hc', hi⟩ := hv.links l hl
      refine ⟨c', hc', ?_⟩
      constructor
      · rw [hobj l hl]; exact hi.cls
      · rw [hobj l hl]; exact hi.lf
      · rw [hobj l hl]; exact hi.rf
      · rw [hobj l hl]; exact hi.left_type
      · rw [hobj l hl]; exact hi.right_type
      · rw [hobj l hl]; exact hi.left_count
      · rw [hobj l hl]; exact hi.right_count
    · refine ⟨c, hcm, ?_⟩
      rw [hl]
      constructor
      · rw [hnew]; exact hc.symm
      · rw [hnew]
      · rw [hnew]
      · rw [hnew]; exact hacc.left_type
      · rw [hnew]; exact hacc.right_type
      · rw [hnew]; exact hacc.left_count
      · rw [hnew]; exact hacc.right_count
  · intro l hl
    rcases (mem_append_single (l := s.associations)).1 hl with hl | hl
    · rw [hobj l hl]; exact hv.left_nodup l hl
    · rw [hl, hnew]; exact hacc.left_nodup
  · intro l hl
    rcases (mem_append_single (l := s.associations)).1 hl with hl | hl
    · rw [hobj l hl]; exact hv.right_nodup l hl
    · rw [hl, hnew]; exact hacc.right_nodup
  · intro l hl l' hl' hne hcls
    rcases (mem_append_single (l := s.associations)).1 hl with hl | hl <;>
      rcases (mem_append_single (l := s.associations)).1 hl' with hl' | hl'
    · rw [hobj l hl, hobj l' hl'] at hcls
      intro ⟨a, ha, b, hb, a', ha', b', hb', e1, e2⟩
      rw [hobj l hl] at ha hb
      rw [hobj l' hl'] at ha' hb'
      exact hv.no_dup_link l hl l' hl' hne hcls ⟨a, ha, b, hb, a', ha', b', hb', e1, e2⟩
    · rw [hobj l hl, hl', hnew] at hcls
      intro ⟨a, ha, b, hb, a', ha', b', hb', e1, e2⟩
      rw [hobj l hl] at ha hb
      rw [hl', hnew] at ha' hb'
      exact hpair l hl hcls a' ha' b' hb' a ha b hb e1.symm e2.symm
    · rw [hobj l' hl', hl, hnew] at hcls
      intro ⟨a, ha, b, hb, a', ha', b', hb', e1, e2⟩
      rw [hobj l' hl'] at ha' hb'
      rw [hl, hnew] at ha hb
      exact hpair l' hl' hcls.symm a ha b hb a' ha' b' hb' e1 e2
    · exact absurd (hl.trans hl'.symm) hne

theorem finishRemove_valid {L : Lang} (s : St) (a : Nat) (hv : Valid L s) : Valid L (finishRemove s a) := by
  rw [finishRemove_eq]
  apply hv.shrink
  · intro x hx
    exact ValidAsset.congr (s := s) (h := hv.assets x (List.mem_of_mem_erase hx)) rfl rfl
  · intro l hl; exact hl
  · intro l _ x _; exact ⟨rfl, rfl⟩
  · intro l _; exact ⟨rfl, rfl, rfl, List.Sublist.refl _, List.Sublist.refl _⟩

theorem runOp_valid {L : Lang} {s s' : St} {op : Op} (h : Inv s) (hv : Valid L s)
    (hok : runOp L s op = .ok s') : Valid L s' := by
  cases op with
  | addAsset ty nm defs ok ex id dup =>
    obtain ⟨rfl, hk, _, hd, _, _⟩ := addAsset_ok hok
    exact addAssetSt_valid s _ h hv hk hd
  | addAssociation cls left right =>
    obtain ⟨c, hacc, rfl⟩ := addAssociation_ok hok
    exact addAssocSt_valid s c cls left right h hv hacc
  | removeAssociation l =>
    have hok : removeAssociation s l = .ok s' := hok
    rw [removeAssociation_eq] at hok
    by_cases hl : l ∈ s.associations
    · rw [if_pos hl] at hok; injection hok with hok; rw [← hok]
      exact hv.of_lframe (removeAssocSt_lframe s l)
    · rw [if_neg hl] at hok; cases hok
  | removeAssetFromAssociation a l => exact hv.of_lframe (removeAssetFromAssociation_lframe h hok)
  | removeAsset a =>
    have hok : removeAsset s a = .ok s' := hok
    by_cases ha : a ∈ s.assets
    · obtain ⟨s1, _, hf1, _, he⟩ := removeAsset_spec s a h ha
      rw [he] at hok; injection hok with hok
      rw [← hok]; exact finishRemove_valid s1 a (hv.of_lframe hf1)
    · rw [removeAsset_eq, if_neg ha] at hok; cases hok
  | addAttacker nm id => injection hok with hok; rw [← hok]; exact Valid.of_same (s := s) (h := hv) rfl rfl rfl rfl
  | removeAttacker t =>
    have hok : removeAttacker s t = .ok s' := hok
    rw [removeAttacker_ok_iff] at hok
    split at hok
    · injection hok with hok; rw [← hok]; exact Valid.of_same (s := s) (h := hv) rfl rfl rfl rfl
    · cases hok
  | addEntryPoint t a step =>
    injection hok with hok; rw [← hok]
    split
    · exact Valid.of_same (s := s) (h := hv) rfl rfl rfl rfl
    · exact hv
  | removeEntryPoint t a step =>
    injection hok with hok; rw [← hok]
    split
    · exact Valid.of_same (s := s) (h := hv) rfl rfl rfl rfl
    · exact hv

theorem applyOp_valid' (L : Lang) (s : St) (op : Op) (h : Inv s) (hv : Valid L s) : Valid L (applyOp L s op) := by
  rcases applyOp_eq L s op with ⟨s', h1, h2⟩ | ⟨e, _, h2⟩
  · rw [h2]; exact runOp_valid h hv h1
  · rw [h2]; exact hv

theorem foldl_applyOp_valid (L : Lang) (ops : List Op) (s : St) (h : Inv s) (hv : Valid L s) :
    Valid L (ops.foldl (applyOp L) s) := by
  induction ops generalizing s with
  | nil => exact hv
  | cons op ops ih => exact ih _ (applyOp_inv' L s op h) (applyOp_valid' L s op h hv)

/-! ## projections of the characterised states (for the property-level statements) -/

theorem finishRemove_assets (s : St) (a : Nat) : (finishRemove s a).assets = s.assets.erase a := by rw [finishRemove_eq]
theorem finishRemove_assetIds (s : St) (a : Nat) : (finishRemove s a).assetIds = s.assetIds.erase (s.aobj a).id := by
  rw [finishRemove_eq]
theorem finishRemove_assetNames (s : St) (a : Nat) :
    (finishRemove s a).assetNames = s.assetNames.erase (s.aobj a).name := by rw [finishRemove_eq]
theorem finishRemove_aobj (s : St) (a : Nat) : (finishRemove s a).aobj = s.aobj := by rw [finishRemove_eq]
theorem finishRemove_lobj (s : St) (a : Nat) : (finishRemove s a).lobj = s.lobj := by rw [finishRemove_eq]
theorem finishRemove_associations (s : St) (a : Nat) : (finishRemove s a).associations = s.associations := by
  rw [finishRemove_eq]
theorem finishRemove_attackers (s : St) (a : Nat) : (finishRemove s a).attackers = s.attackers := by rw [finishRemove_eq]

/-- what a successful `remove_asset` tells -/
theorem removeAsset_ok_spec {s s' : St} {a : Nat} (h : Inv s) (hok : removeAsset s a = .ok s') :
    a ∈ s.assets ∧ ∃ s1, Inv s1 ∧ LFrame s s1 ∧ (s1.aobj a).assocs = [] ∧ s' = finishRemove s1 a := by
  by_cases ha : a ∈ s.assets
  · obtain ⟨s1, hi1, hf1, hb1, he⟩ := removeAsset_spec s a h ha
    rw [he] at hok; injection hok with hok
    exact ⟨ha, s1, hi1, hf1, hb1, hok.symm⟩
  · rw [removeAsset_eq, if_neg ha] at hok; cases hok

theorem addAsset_succeeds (L : Lang) (s : St) (ty : String) (nm : Option String) (defs : List (String × String))
    (ex : String) (id : Option Int) (dup : Bool) (hty : (L.findAsset ty).isSome = true)
    (hdefs : ∀ d ∈ defs, ∃ v, (d.1, v) ∈ defensesOf L ty) (hid : id.getD s.nextId ∉ s.assetIds)
    (hname : ∀ n, nm = some n → n ∈ s.assetNames → dup = true) :
    ∃ s', addAsset L s ty nm defs true ex id dup = .ok s' := by
  rw [addAsset_eq]
  have h1 : (L.findAsset ty).isNone = false := by
    cases hf : L.findAsset ty with
    | none => rw [hf] at hty; cases hty
    | some x => rfl
  have h2 : defs.all (fun d => (defensesOf L ty).any (·.1 = d.1)) = true := by
    rw [List.all_eq_true]
    intro d hd
    obtain ⟨v, hv⟩ := hdefs d hd
    rw [List.any_eq_true]
    exact ⟨(d.1, v), hv, by simp⟩
  have h3 : s.assetIds.contains (id.getD s.nextId) = false := by
    cases hc : s.assetIds.contains (id.getD s.nextId) with
    | false => rfl
    | true => exact absurd (List.contains_iff_mem.1 hc) hid
  have h4 : dupRejected s nm dup = false := by
    unfold dupRejected
    cases nm with
    | none => rfl
    | some n =>
      dsimp only
      cases hc : s.assetNames.contains n with
      | false => rfl
      | true => rw [hname n rfl (List.contains_iff_mem.1 hc)]; rfl
  rw [h1, h2, h3, h4]
  exact ⟨_, rfl⟩

theorem nextId_not_reserved {s : St} (h : Inv s) : s.nextId ∉ s.assetIds := by
  intro hm
  obtain ⟨a, ha, e⟩ := (h.assets.ids_exact _).1 hm
  have := h.assets.id_lt_next a ha
  rw [e] at this; exact Int.lt_irrefl _ this

theorem find?_unique {α : Type} (p : α → Bool) (l : List α) (a : α)
    (hu : ∀ x ∈ l, ∀ y ∈ l, p x = true → p y = true → x = y) :
    l.find? p = some a ↔ a ∈ l ∧ p a = true := by
  constructor
  · intro hf; exact ⟨List.mem_of_find?_eq_some hf, List.find?_some hf⟩
  · intro ⟨ha, hp⟩
    cases hf : l.find? p with
    | none => exact absurd hp (List.find?_eq_none.1 hf a ha)
    | some b => rw [hu b (List.mem_of_find?_eq_some hf) a ha (List.find?_some hf) hp]

/-! # Part 3: the generated classes -/

/-- the class name `_generate_associations` gives to a declaration -/
def className (L : Lang) (a : AssocDecl) : String :=
  if (L.assocs.filter (·.name = a.name)).length > 1 then a.name ++ "_" ++ a.leftAsset ++ "_" ++ a.rightAsset else a.name

/-- the class generated for a declaration -/
def classOf (L : Lang) (a : AssocDecl) : AssocClass :=
  { cls := className L a, lf := a.leftField, ltype := a.leftAsset, lmax := a.leftMax,
    rf := a.rightField, rtype := a.rightAsset, rmax := a.rightMax }

theorem assocClasses_eq_map (L : Lang) : assocClasses L = L.assocs.map (classOf L) := rfl

theorem assocClasses_length (L : Lang) : (assocClasses L).length = L.assocs.length := by
  rw [assocClasses_eq_map, List.length_map]

theorem assocClasses_getElem (L : Lang) (i : Nat) (h : i < L.assocs.length) :
    (assocClasses L)[i]'(by rw [assocClasses_length]; exact h) = classOf L L.assocs[i] := by
  simp [assocClasses_eq_map]

/-- if no name is declared twice the classes are named by the declarations' names -/
theorem className_of_unique (L : Lang) (a : AssocDecl) (h : (L.assocs.filter (·.name = a.name)).length ≤ 1) :
    className L a = a.name := by
  unfold className
  rw [if_neg (by omega)]

/-- the defenses a generated asset class has, with their defaults -/
theorem mem_defensesOf (L : Lang) (t d v : String) :
    (d, v) ∈ defensesOf L t ↔ ∃ decl, (d, decl) ∈ L.foldSteps t ∧ decl.type = "defense" ∧
      v = (if decl.ttcName = some "Enabled" then "1.0" else "0.0") := by
  unfold defensesOf
  simp only [List.mem_map, List.mem_filter]
  constructor
  · rintro ⟨⟨d', decl⟩, ⟨hm, ht⟩, he⟩
    simp only [Prod.mk.injEq] at he
    obtain ⟨rfl, rfl⟩ := he
    exact ⟨decl, hm, by simpa using ht, rfl⟩
  · rintro ⟨decl, hm, ht, rfl⟩
    exact ⟨(d, decl), ⟨hm, by simpa using ht⟩, rfl⟩

/-- a name / asset name without underscore -/
def NoUnderscore (s : String) : Prop := '_' ∉ s.toList

/-! ### list lemmas -/

/-- a list is split uniquely at the first occurrence of an element -/
theorem split_first_unique {α : Type _} {c : α} :
    ∀ {l₁ l₂ r₁ r₂ : List α}, l₁ ++ c :: r₁ = l₂ ++ c :: r₂ → c ∉ l₁ → c ∉ l₂ → l₁ = l₂ ∧ r₁ = r₂ := by
  intro l₁
  induction l₁ with
  | nil =>
    intro l₂ r₁ r₂ h _ h2
    cases l₂ with
    | nil => simpa using h
    | cons y l₂ =>
      simp only [List.nil_append, List.cons_append, List.cons.injEq] at h
      exact absurd (h.1 ▸ List.mem_cons_self) h2
  | cons x l₁ ih =>
    intro l₂ r₁ r₂ h h1 h2
    cases l₂ with
    | nil =>
      simp only [List.nil_append, List.cons_append, List.cons.injEq] at h
      exact absurd (h.1 ▸ List.mem_cons_self) h1
    | cons y l₂ =>
      simp only [List.cons_append, List.cons.injEq] at h
      have := ih h.2 (fun hm => h1 (List.mem_cons_of_mem _ hm)) (fun hm => h2 (List.mem_cons_of_mem _ hm))
      exact ⟨by rw [h.1, this.1], this.2⟩

/-- two distinct members satisfying `p` make the filtered list longer than one -/
theorem filter_length_gt_one {α : Type _} (p : α → Bool) (l : List α) (a b : α)
    (ha : a ∈ l) (hb : b ∈ l) (hab : a ≠ b) (pa : p a = true) (pb : p b = true) :
    (l.filter p).length > 1 := by
  have ma : a ∈ l.filter p := List.mem_filter.2 ⟨ha, pa⟩
  have mb : b ∈ l.filter p := List.mem_filter.2 ⟨hb, pb⟩
  match hm : l.filter p with
  | [] => rw [hm] at ma; cases ma
  | [x] =>
    rw [hm] at ma mb
    simp only [List.mem_singleton] at ma mb
    exact absurd (ma.trans mb.symm) hab
  | _ :: _ :: _ => simp

/-! ### injectivity of the class naming -/

theorem toList_underscore : ("_" : String).toList = ['_'] := by decide

/-- the characters of a composed class name -/
theorem toList_composed (n l r : String) :
    (n ++ "_" ++ l ++ "_" ++ r).toList = n.toList ++ '_' :: (l.toList ++ '_' :: r.toList) := by
  simp [String.toList_append, toList_underscore]

/-- two declarations that differ in `(name, leftAsset, rightAsset)` get different class names, provided no
association name and no left asset name contains an underscore (the right asset name may) -/
theorem className_inj (L : Lang) (hn : ∀ a ∈ L.assocs, NoUnderscore a.name ∧ NoUnderscore a.leftAsset)
    (a b : AssocDecl) (ha : a ∈ L.assocs) (hb : b ∈ L.assocs)
    (hne : (a.name, a.leftAsset, a.rightAsset) ≠ (b.name, b.leftAsset, b.rightAsset)) :
    className L a ≠ className L b := by
  intro heq
  have hab : a ≠ b := fun h => hne (by rw [h])
  obtain ⟨han, hal⟩ := hn a ha
  obtain ⟨hbn, hbl⟩ := hn b hb
  unfold NoUnderscore at han hal hbn hbl
  unfold className at heq
  by_cases da : (L.assocs.filter (·.name = a.name)).length > 1 <;>
    by_cases db : (L.assocs.filter (·.name = b.name)).length > 1
  · -- both composed: split at the first underscore, then at the next
    rw [if_pos da, if_pos db] at heq
    have h := congrArg String.toList heq
    rw [toList_composed, toList_composed] at h
    obtain ⟨h1, h2⟩ := split_first_unique h han hbn
    obtain ⟨h3, h4⟩ := split_first_unique h2 hal hbl
    apply hne
    rw [String.toList_inj.1 h1, String.toList_inj.1 h3, String.toList_inj.1 h4]
  · -- `b.name` has no underscore, the composed name of `a` has one
    rw [if_pos da, if_neg db] at heq
    have h := congrArg String.toList heq
    rw [toList_composed] at h
    apply hbn
    rw [← h]
    simp
  · rw [if_neg da, if_pos db] at heq
    have h := congrArg String.toList heq
    rw [toList_composed] at h
    apply han
    rw [h]
    simp
  · -- both plain: the same name would be declared twice
    rw [if_neg da, if_neg db] at heq
    apply da
    exact filter_length_gt_one _ L.assocs a b ha hb hab (by simp) (by simp [heq])

/-! ### the two hypotheses are necessary -/
namespace Demo

/-- an association name with an underscore colliding with a composed name -/
def cex1 : Lang :=
  { assocs := [{ name := "A", leftAsset := "X", leftField := "f", rightAsset := "Y", rightField := "g" },
               { name := "A", leftAsset := "X", leftField := "f", rightAsset := "Z", rightField := "g" },
               { name := "A_X_Y", leftAsset := "P", leftField := "f", rightAsset := "Q", rightField := "g" }] }

/-- a left asset name with an underscore: `A_X_Y_Z` parses two ways -/
def cex2 : Lang :=
  { assocs := [{ name := "A", leftAsset := "X_Y", leftField := "f", rightAsset := "Z", rightField := "g" },
               { name := "A", leftAsset := "X", leftField := "f", rightAsset := "Y_Z", rightField := "g" }] }

example : ∃ a ∈ cex1.assocs, ∃ b ∈ cex1.assocs,
    (a.name, a.leftAsset, a.rightAsset) ≠ (b.name, b.leftAsset, b.rightAsset) ∧
    className cex1 a = className cex1 b := by decide

example : ∃ a ∈ cex2.assocs, ∃ b ∈ cex2.assocs,
    (a.name, a.leftAsset, a.rightAsset) ≠ (b.name, b.leftAsset, b.rightAsset) ∧
    className cex2 a = className cex2 b := by decide

/-- in `cex1` only the left asset hypothesis holds, in `cex2` only the name hypothesis -/
example : (∀ a ∈ cex1.assocs, NoUnderscore a.leftAsset) ∧ ¬ (∀ a ∈ cex1.assocs, NoUnderscore a.name) := by
  unfold NoUnderscore; decide
example : (∀ a ∈ cex2.assocs, NoUnderscore a.name) ∧ ¬ (∀ a ∈ cex2.assocs, NoUnderscore a.leftAsset) := by
  unfold NoUnderscore; decide

end Demo

end MalVerif.MS
