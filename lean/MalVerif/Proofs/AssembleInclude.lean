import MalVerif.Proofs.ParseDecl
/-!
# File-level `include` theorems for the assembling fold (`assemble`, the model of `visitMal`)

* `assemble_noIncl` — without `include` the include function is irrelevant;
* `assemble_include_first` — a leading `include p` can be replaced by the declarations of the included file;
* `assemble_include_repeat` — including a file a second time at the end adds nothing to the three lists
  (the defines may change: see the example at the end).

The work horse is `foldlM_assembleStep_core`: the fold over the declarations only *appends* to the three lists and
develops the defines independently of them.
-/
namespace MalVerif.Mal

/-! ### no `include` -/

/-- a declaration list without `include` assembles independently of the include function -/
def noIncl : Decl → Bool | .incl _ => false | _ => true

theorem foldlM_noIncl (inc inc' : String → Option CSpec) (ds : List Decl) (h : ∀ d ∈ ds, noIncl d = true)
    (s0 : CSpec) : ds.foldlM (assembleStep inc) s0 = ds.foldlM (assembleStep inc') s0 := by
  induction ds generalizing s0 with
  | nil => rfl
  | cons d ds ih =>
    have hd : assembleStep inc s0 d = assembleStep inc' s0 d := by
      cases d with
      | incl p => exact absurd (h _ List.mem_cons_self) (by simp [noIncl])
      | _ => rfl
    simp only [List.foldlM_cons, hd]
    cases assembleStep inc' s0 d with
    | none => rfl
    | some s1 =>
      simp only [Option.bind_eq_bind, Option.bind_some]
      exact ih (fun d hd => h d (List.mem_cons_of_mem _ hd)) s1

theorem assemble_noIncl (inc inc' : String → Option CSpec) (ds : List Decl) (h : ∀ d ∈ ds, noIncl d = true) :
    assemble inc ds = assemble inc' ds := by
  unfold assemble
  rw [foldlM_noIncl inc inc' ds h]

/-! ### the fold only appends to the three lists -/

/-- the part of a specification the further fold depends on: the defines -/
def specCore (s : CSpec) : CSpec := { defines := s.defines }

/-- put the lists of `s0` in front of those of `e`, keep the defines of `e` -/
def specPrep (s0 e : CSpec) : CSpec :=
  { defines := e.defines, categories := s0.categories ++ e.categories, assets := s0.assets ++ e.assets,
    associations := s0.associations ++ e.associations }

theorem specCore_specPrep (s0 e : CSpec) : specCore (specPrep s0 e) = specCore e := rfl

theorem specPrep_specPrep (s0 s1 e : CSpec) : specPrep s0 (specPrep s1 e) = specPrep (specPrep s0 s1) e := by
  simp [specPrep, List.append_assoc]

theorem assembleStep_core (inc : String → Option CSpec) (s0 : CSpec) (d : Decl) :
    assembleStep inc s0 d = (assembleStep inc (specCore s0) d).map (specPrep s0) := by
  cases d with
  | incl p =>
    simp only [assembleStep]
    cases inc p with
    | none => rfl
    | some sp => simp [mergeSpec, specPrep, specCore]
  | define k v => simp [assembleStep, specPrep, specCore]
  | category n md as => simp [assembleStep, specPrep, specCore]
  | associations l => simp [assembleStep, specPrep, specCore]

/-- **the fold only appends**: folding from `s0` is folding from its defines alone and putting the lists of `s0` in
front afterwards; in particular it fails iff the fold from the defines alone fails -/
theorem foldlM_assembleStep_core (inc : String → Option CSpec) (ds : List Decl) (s0 : CSpec) :
    ds.foldlM (assembleStep inc) s0 = (ds.foldlM (assembleStep inc) (specCore s0)).map (specPrep s0) := by
  induction ds generalizing s0 with
  | nil =>
    simp only [List.foldlM_nil]
    show some s0 = some (specPrep s0 (specCore s0))
    simp [specPrep, specCore]
  | cons d ds ih =>
    simp only [List.foldlM_cons]
    rw [assembleStep_core inc s0 d]
    cases assembleStep inc (specCore s0) d with
    | none => rfl
    | some s1 =>
      simp only [Option.map_some, Option.bind_eq_bind, Option.bind_some]
      rw [ih (specPrep s0 s1), ih s1, specCore_specPrep, Option.map_map]
      congr 1
      funext e
      exact (specPrep_specPrep s0 s1 e).symm

/-- two start specifications with the same defines: the same extra `e` is appended -/
theorem foldlM_assembleStep_congr (inc : String → Option CSpec) (ds : List Decl) (s0 s0' : CSpec)
    (h : s0.defines = s0'.defines) :
    ∃ r : Option CSpec, ds.foldlM (assembleStep inc) s0 = r.map (specPrep s0) ∧
      ds.foldlM (assembleStep inc) s0' = r.map (specPrep s0') := by
  refine ⟨ds.foldlM (assembleStep inc) (specCore s0), foldlM_assembleStep_core inc ds s0, ?_⟩
  rw [foldlM_assembleStep_core inc ds s0']
  simp only [specCore, h]

/-! ### the keys of the defines stay distinct -/

theorem metaPut_keys_nodup (d : Meta) (k v : String) (h : (d.map (·.1)).Nodup) :
    ((metaPut d k v).map (·.1)).Nodup := by
  by_cases hk : k ∈ d.map (·.1)
  · have hany : d.any (·.1 = k) = true := by
      simp only [List.mem_map] at hk
      obtain ⟨e, he, hek⟩ := hk
      simp only [List.any_eq_true, decide_eq_true_eq]
      exact ⟨e, he, hek⟩
    unfold metaPut
    simp only [hany, if_true, List.map_map]
    have : d.map ((·.1) ∘ fun e => if e.1 = k then (k, v) else e) = d.map (·.1) := by
      apply List.map_congr_left
      intro e _
      simp only [Function.comp]
      split
      · rename_i hh; exact hh.symm
      · rfl
    rw [this]; exact h
  · rw [metaPut_new d k v hk]
    simp only [List.map_append, List.map_cons, List.map_nil]
    rw [List.nodup_append]
    refine ⟨h, by simp, ?_⟩
    intro a ha b hb
    simp only [List.mem_cons, List.not_mem_nil, or_false] at hb
    subst hb
    intro hab; subst hab; exact hk ha

theorem foldl_metaPut_keys_nodup (l : List (String × String)) (d : Meta) (h : (d.map (·.1)).Nodup) :
    ((l.foldl (fun d e => metaPut d e.1 e.2) d).map (·.1)).Nodup := by
  induction l generalizing d with
  | nil => exact h
  | cons e l ih => exact ih _ (metaPut_keys_nodup d e.1 e.2 h)

theorem assembleStep_keys_nodup (inc : String → Option CSpec) (s0 s : CSpec) (d : Decl)
    (hs : assembleStep inc s0 d = some s) (h : (s0.defines.map (·.1)).Nodup) : (s.defines.map (·.1)).Nodup := by
  cases d with
  | incl p =>
    simp only [assembleStep] at hs
    cases hp : inc p with
    | none => rw [hp] at hs; cases hs
    | some sp =>
      rw [hp] at hs
      simp only [Option.map_some, Option.some.injEq] at hs
      subst hs
      exact foldl_metaPut_keys_nodup sp.defines s0.defines h
  | define k v =>
    simp only [assembleStep, Option.some.injEq] at hs
    subst hs
    exact metaPut_keys_nodup s0.defines k v h
  | category n md as =>
    simp only [assembleStep, Option.some.injEq] at hs
    subst hs; exact h
  | associations l =>
    simp only [assembleStep, Option.some.injEq] at hs
    subst hs; exact h

/-- the defines of every folded specification have distinct keys -/
theorem foldlM_keys_nodup (inc : String → Option CSpec) (ds : List Decl) (s0 s : CSpec)
    (hs : ds.foldlM (assembleStep inc) s0 = some s) (h : (s0.defines.map (·.1)).Nodup) :
    (s.defines.map (·.1)).Nodup := by
  induction ds generalizing s0 with
  | nil =>
    simp only [List.foldlM_nil] at hs
    cases hs; exact h
  | cons d ds ih =>
    simp only [List.foldlM_cons] at hs
    cases h1 : assembleStep inc s0 d with
    | none => rw [h1] at hs; cases hs
    | some s1 =>
      rw [h1] at hs
      simp only [Option.bind_eq_bind, Option.bind_some] at hs
      exact ih s1 hs (assembleStep_keys_nodup inc s0 s1 d h1 h)

theorem mergeSpec_empty_defines (x : CSpec) (h : (x.defines.map (·.1)).Nodup) :
    (mergeSpec {} x).defines = x.defines := by
  show x.defines.foldl (fun d e => metaPut d e.1 e.2) [] = x.defines
  rw [foldl_metaPut_nodup x.defines [] (by simpa using h)]
  simp

/-! ### include flattening at file level -/

/-- **include flattening at file level**: a file that starts with `include p`, where the included file's declarations
`dsP` assemble to what `inc p` returns, assembles to the same specification as the file with `dsP` in place of the
`include` -/
theorem assemble_include_first (inc : String → Option CSpec) (p : String) (dsP ds : List Decl)
    (h : inc p = assemble inc dsP) : assemble inc (.incl p :: ds) = assemble inc (dsP ++ ds) := by
  unfold assemble at h ⊢
  rw [List.foldlM_append, List.foldlM_cons]
  simp only [assembleStep, h]
  cases hraw : dsP.foldlM (assembleStep inc) ({} : CSpec) with
  | none => rfl
  | some raw =>
    simp only [Option.map_some, Option.bind_eq_bind, Option.bind_some]
    have hnd : (raw.defines.map (·.1)).Nodup := foldlM_keys_nodup inc dsP {} raw hraw (by simp)
    have hdef : (mergeSpec {} (finishSpec raw)).defines = raw.defines :=
      mergeSpec_empty_defines (finishSpec raw) hnd
    obtain ⟨r, h1, h2⟩ := foldlM_assembleStep_congr inc ds (mergeSpec {} (finishSpec raw)) raw hdef
    rw [h1, h2]
    cases r with
    | none => rfl
    | some e =>
      simp only [Option.map_some, Option.some.injEq]
      simp only [finishSpec, specPrep, mergeSpec, List.nil_append, dedupBy_dedupBy_append]

/-! ### a repeated include -/

/-- **a repeated include contributes nothing to the three lists**: including `p` a second time at the end of the file
leaves categories, assets and associations unchanged (given that the items of the included specification equal
themselves under the respective relation — true for every value Python builds); the defines may differ (see example) -/
theorem assemble_include_repeat (inc : String → Option CSpec) (p : String) (sp : CSpec) (ds1 ds2 : List Decl)
    (hp : inc p = some sp)
    (hc : ∀ y ∈ sp.categories, catEqv y y = true) (ha : ∀ y ∈ sp.assets, assetEqv y y = true)
    (hs : ∀ y ∈ sp.associations, assocEqv y y = true) :
    match assemble inc (ds1 ++ .incl p :: ds2), assemble inc (ds1 ++ .incl p :: ds2 ++ [.incl p]) with
    | some s, some s' => s'.categories = s.categories ∧ s'.assets = s.assets ∧ s'.associations = s.associations
    | none, none => True
    | _, _ => False := by
  unfold assemble
  simp only [List.foldlM_append, List.foldlM_cons,List.foldlM_nil, assembleStep, hp, Option.map_some, Option.bind_eq_bind,
    Option.bind_some]
  cases h1 : ds1.foldlM (assembleStep inc) ({} : CSpec) with
  | none => simp
  | some s1 =>
    simp only [Option.bind_some]
    rw [foldlM_assembleStep_core inc ds2 (mergeSpec s1 sp)]
    cases ds2.foldlM (assembleStep inc) (specCore (mergeSpec s1 sp)) with
    | none => simp
    | some e =>
      simp only [Option.map_some, Option.bind_some, Option.pure_def]
      simp only [finishSpec, mergeSpec, specPrep]
      exact ⟨dedupBy_repeat catEqv _ _ _ hc, dedupBy_repeat assetEqv _ _ _ ha, dedupBy_repeat assocEqv _ _ _ hs⟩

/-- the defines CAN differ: `k` is redefined after the first include, the second include sets it back -/
example :
    let inc : String → Option CSpec := fun _ => some { defines := [("k", "1")] }
    (assemble inc ([] ++ .incl "p" :: [.define "k" "2"])).map (·.defines) = some [("k", "2")] ∧
    (assemble inc ([] ++ .incl "p" :: [.define "k" "2"] ++ [.incl "p"])).map (·.defines) = some [("k", "1")] := by
  decide

end MalVerif.Mal
