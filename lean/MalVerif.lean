import MalVerif.Model.Apriori
import MalVerif.Model.AGraph
import MalVerif.Model.JsonUtil
import MalVerif.Proofs.Fix
import MalVerif.Proofs.FixOuter
import MalVerif.Props.C08
