import MalVerif.Model.JsonUtil
import MalVerif.Model.AGraph
open Lean MalVerif

namespace Drv

def parseNType (s : String) : R AGraph.NType :=
  match s with
  | "or" => pure .or | "and" => pure .and | "defense" => pure .defense
  | "exist" => pure .exist | "notExist" => pure .notExist
  | _ => throw s!"bad node type {s}"

def parseANode (j : Json) : R AGraph.ANode := do
  pure { type := ← parseNType (← jfield jstr j "type"),
         children := ← jfield (jlist jnat) j "children",
         parents := ← jfield (jlist jnat) j "parents",
         defOne := ← jfield jbool j "defOne",
         defZero := ← jfield jbool j "defZero",
         exist := ← jfield jbool j "exist",
         gate := ← jfield jbool j "gate" }

def opApriori (j : Json) : R Json := do
  let g ← jfield (jlist parseANode) j "nodes"
  let order ← jfield (jlist jnat) j "order"
  let v := AGraph.calcViab g order
  let n := AGraph.calcNec g order
  let idx := List.range g.length
  pure <| jO [("viable", jsonOfList jB (idx.map v)), ("necessary", jsonOfList jB (idx.map n))]

def dispatch (j : Json) : R Json := do
  let op ← jfield jstr j "op"
  match op with
  | "apriori" => opApriori j
  | _ => throw "bad-op"

def handle (line : String) : String :=
  match Json.parse line with
  | .error e => (jO [("error", jS s!"parse: {e}")]).compress
  | .ok j =>
    let c := jgetD j "case" Json.null
    match dispatch j with
    | .ok r => (jO [("case", c), ("model", r)]).compress
    | .error e => (jO [("case", c), ("error", jS e)]).compress

end Drv

partial def mainLoop (h : IO.FS.Stream) (out : IO.FS.Stream) : IO Unit := do
  let line ← h.getLine
  if line.isEmpty then return ()
  if line.trimAscii.isEmpty then mainLoop h out else
  out.putStrLn (Drv.handle line)
  mainLoop h out

def main : IO Unit := do
  let i ← IO.getStdin
  let o ← IO.getStdout
  mainLoop i o
  o.flush
