import MalVerif.Model.JsonUtil
import MalVerif.Model.AGraph
import MalVerif.Model.AGS
import MalVerif.Model.Query
open Lean MalVerif

namespace Drv

def parseNType (s : String) : R AGraph.NType :=
  match s with
  | "or" => pure .or | "and" => pure .and | "defense" => pure .defense
  | "exist" => pure .exist | "notExist" => pure .notExist
  | _ => throw s!"bad node type {s}"

def parseANode (j : Json) : R AGraph.ANode := do
  pure { type := ← parseNType (← jfield jstr j "type"),
         children := ← jfield (jlist jnat) j "children",
         parents := ← jfield (jlist jnat) j "parents",
         defOne := ← jfield jbool j "defOne",
         defZero := ← jfield jbool j "defZero",
         exist := ← jfield jbool j "exist",
         gate := ← jfield jbool j "gate" }

def opApriori (j : Json) : R Json := do
  let g ← jfield (jlist parseANode) j "nodes"
  let order ← jfield (jlist jnat) j "order"
  let v := AGraph.calcViab g order
  let n := AGraph.calcNec g order
  let idx := List.range g.length
  pure <| jO [("viable", jsonOfList jB (idx.map v)), ("necessary", jsonOfList jB (idx.map n))]


/-! ### attack-graph histories (C09, C11, C12, C13) -/
open AGS in
def obsSt (s : St) : Json :=
  let nid (r : Nat) : Json := jI (s.nobj r).id
  let aid (a : Nat) : Json := jI (s.aobj a).id
  jO [("nodes", jsonOfList (fun r =>
          let o := s.nobj r
          Json.arr #[jI o.id, jS (fullName o), jsonOfList nid o.children, jsonOfList nid o.parents,
                     jsonOfList aid o.compBy, jB o.viable, jB o.necessary]) s.nodes),
      ("attackers", jsonOfList (fun a =>
          let o := s.aobj a
          Json.arr #[jI o.id, jS o.name, jsonOfList nid o.entry, jsonOfList nid o.reached]) s.attackers),
      ("idIdx", jsonOfList (fun (e : Int × Nat) => Json.arr #[jI e.1, nid e.2]) s.idIdx),
      ("nameIdx", jsonOfList (fun (e : String × Nat) => Json.arr #[jS e.1, nid e.2]) s.nameIdx),
      ("attIdx", jsonOfList (fun (e : Int × Nat) => Json.arr #[jI e.1, aid e.2]) s.attIdx),
      ("next", Json.arr #[jI s.nextNode, jI s.nextAtt])]

def errName : AGS.Err → String
  | .valueError => "ValueError" | .attackGraphException => "AttackGraphException" | .lookupError => "LookupError"

open AGS in
def agStep (s : St) (j : Json) : R (St × Json × Json) := do
  let k ← jfield jstr j "k"
  let ok (s' : St) (out : Json := Json.null) : R (St × Json × Json) := pure (s', Json.null, out)
  let refs (l : List Nat) : Json := jsonOfList (fun r => jI (s.nobj r).id) l
  match k with
  | "add_node" =>
    let o : NodeObj := { name := ← jfield jstr j "name", asset := ← jfieldOpt jstr j "asset",
                         type := ← parseNType (← jfield jstr j "type"),
                         viable := ← jfield jbool j "viable", necessary := ← jfield jbool j "necessary",
                         defOne := ← jfield jbool j "defOne", suppress := ← jfield jbool j "suppress" }
    match addNode s o (← jfieldOpt jint j "id") with
    | .ok s' => ok s'
    | .error e => pure (s, jS (errName e), Json.null)
  | "link" =>
    let p ← jfield jnat j "p"; let c ← jfield jnat j "c"
    ok (updN (updN s p (fun o => { o with children := o.children ++ [c] })) c (fun o => { o with parents := o.parents ++ [p] }))
  | "remove_node" => ok (removeNode s (← jfield jnat j "n"))
  | "add_attacker" =>
    match addAttacker s (← jfield jstr j "name") (← jfieldOpt jint j "id") (← jfield (jlist jint) j "entry")
            (← jfield (jlist jint) j "reached") with
    | .ok s' => ok s'
    | .error e => pure (s, jS (errName e), Json.null)
  | "remove_attacker" => ok (removeAttacker s (← jfield jnat j "a"))
  | "compromise" => ok (compromise s (← jfield jnat j "a") (← jfield jnat j "n"))
  | "undo" => ok (undo s (← jfield jnat j "a") (← jfield jnat j "n"))
  | "attach" =>
    let atts ← jfield (jlist (fun e => do
      let l ← jarr e
      match l with
      | [nm, eps] => pure ((← jstr nm), (← jlist jstr eps))
      | _ => throw "bad attach entry")) j "atts"
    match attach s atts with
    | .ok s' => ok s'
    | .error e => pure (s, jS (errName e), Json.null)
  | "set_labels" =>
    let labs ← jfield (jlist (fun e => do
      let l ← jarr e
      match l with
      | [r, v, n] => pure ((← jnat r), (← jbool v), (← jbool n))
      | _ => throw "bad label entry")) j "labels"
    ok (setLabels s labs)
  | "prune" => ok (prune s)
  | "trav" => ok s (jB (trav s (← jfield jnat j "a") (← jfield jnat j "n")))
  | "surface" => ok s (refs (surface s (← jfield jnat j "a")))
  | "update_surface" =>
    ok s (refs (updateSurface s (← jfield jnat j "a") (← jfield (jlist jnat) j "cur") (← jfield (jlist jnat) j "nodes")))
  | "defense_surface" => ok s (refs (defenseSurface s))
  | "enabled_defenses" => ok s (refs (enabledDefenses s))
  | "lookup" =>
    let ids ← jfield (jlist jint) j "ids"
    let names ← jfield (jlist jstr) j "names"
    let aids ← jfield (jlist jint) j "aids"
    let f (o : Option Nat) : Json := match o with | some r => jI (s.nobj r).id | none => Json.null
    let fa (o : Option Nat) : Json := match o with | some r => jI (s.aobj r).id | none => Json.null
    ok s (jO [("ids", jsonOfList (fun i => f (getNodeById s i)) ids),
              ("names", jsonOfList (fun n => f (getNodeByName s n)) names),
              ("aids", jsonOfList (fun i => fa (getAttackerById s i)) aids)])
  | _ => throw s!"bad ag op {k}"

def opAgHist (j : Json) : R Json := do
  let ops ← jfield jarr j "ops"
  let mut s : AGS.St := {}
  let mut outs : Array Json := #[]
  for o in ops do
    let (s', err, out) ← agStep s o
    s := s'
    outs := outs.push (jO [("err", err), ("out", out), ("obs", obsSt s)])
  pure (Json.arr outs)

def dispatch (j : Json) : R Json := do
  let op ← jfield jstr j "op"
  match op with
  | "apriori" => opApriori j
  | "ag_hist" => opAgHist j
  | _ => throw "bad-op"

def handle (line : String) : String :=
  match Json.parse line with
  | .error e => (jO [("error", jS s!"parse: {e}")]).compress
  | .ok j =>
    let c := jgetD j "case" Json.null
    match dispatch j with
    | .ok r => (jO [("case", c), ("model", r)]).compress
    | .error e => (jO [("case", c), ("error", jS e)]).compress

end Drv

partial def mainLoop (h : IO.FS.Stream) (out : IO.FS.Stream) : IO Unit := do
  let line ← h.getLine
  if line.isEmpty then return ()
  if line.trimAscii.isEmpty then mainLoop h out else
  out.putStrLn (Drv.handle line)
  mainLoop h out

def main : IO Unit := do
  let i ← IO.getStdin
  let o ← IO.getStdout
  mainLoop i o
  o.flush
