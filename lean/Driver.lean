import MalVerif.Model.JsonUtil
import MalVerif.Model.AGraph
import MalVerif.Model.AGS
import MalVerif.Model.Query
import MalVerif.Model.Gen
import MalVerif.Model.MState
import MalVerif.Model.Serial
import MalVerif.Model.AGSerial
import MalVerif.Model.Compiler.Parser
import MalVerif.Model.LangGraph
import MalVerif.Model.Legacy
import MalVerif.Model.Neo4j
import MalVerif.Py.AbsVisitor
import MalVerif.Py.Gen.Apriori
import MalVerif.Py.Gen.NodeDelegates
import MalVerif.Py.Gen.Query
import MalVerif.Py.Gen.Attach
import MalVerif.Py.GenAgSerial.CopyGraph
import MalVerif.Py.GenAgSerial.FromDict
import MalVerif.Py.GenAgSerial.ToDictGraph
import MalVerif.Py.AbsAgSerial
import MalVerif.Py.GenModel.Assets
import MalVerif.Py.GenModel.Assoc
import MalVerif.Py.AbsModel
import MalVerif.Py.GenLang.Attacks
import MalVerif.Py.AbsLang
import MalVerif.Py.GenWrapper.Wrapper
import MalVerif.Py.GenLegacy.Updater
import MalVerif.Py.GenLegacy.Securicad
import MalVerif.Py.GenLang.Assocs
import MalVerif.Py.AbsLangGraph
import MalVerif.Py.GenNeo4j.IngestModel
import MalVerif.Py.GenNeo4j.IngestGraph
import MalVerif.Py.GenNeo4j.GetModel
import MalVerif.Py.GenMSerial.ToDict
import MalVerif.Py.GenMSerial.FromDict
import MalVerif.Py.GenLang.Assets
import MalVerif.Py.GenLang.Assocs
import MalVerif.Py.GenLang.Vars
import MalVerif.Py.GenLangType.Typing
import MalVerif.Py.GenLangType.Build
import MalVerif.Py.AbsLangGraph
import MalVerif.Py.GenClasses.Factory
import MalVerif.Py.AbsClasses
open Lean MalVerif

namespace Drv

def parseNType (s : String) : R AGraph.NType :=
  match s with
  | "or" => pure .or | "and" => pure .and | "defense" => pure .defense
  | "exist" => pure .exist | "notExist" => pure .notExist
  | _ => throw s!"bad node type {s}"

def parseANode (j : Json) : R AGraph.ANode := do
  pure { type := ← parseNType (← jfield jstr j "type"),
         children := ← jfield (jlist jnat) j "children",
         parents := ← jfield (jlist jnat) j "parents",
         defOne := ← jfield jbool j "defOne",
         defZero := ← jfield jbool j "defZero",
         exist := ← jfield jbool j "exist",
         ttcSet := ← jfield jbool j "ttcSet",
         ttcName := ← jfieldOpt jstr j "ttcName" }

def opApriori (j : Json) : R Json := do
  let g ← jfield (jlist parseANode) j "nodes"
  let order ← jfield (jlist jnat) j "order"
  -- labels the nodes carry when the analysis is called (absent: a freshly generated graph)
  let v0 := (← jfieldOpt (jlist jbool) j "viable0").getD []
  let n0 := (← jfieldOpt (jlist jbool) j "necessary0").getD []
  let v := AGraph.calcViabFrom g order (AGraph.labOfList v0)
  let n := AGraph.calcNecFrom g order (AGraph.labOfList n0)
  let idx := List.range g.length
  pure <| jO [("viable", jsonOfList jB (idx.map v)), ("necessary", jsonOfList jB (idx.map n))]


def ntypeName : AGraph.NType → String
  | .or => "or" | .and => "and" | .defense => "defense" | .exist => "exist" | .notExist => "notExist"
def jOptS' (o : Option String) : Json := match o with | some s => jS s | none => Json.null
def jOptB' (o : Option Bool) : Json := match o with | some s => jB s | none => Json.null

/-! ### attack-graph histories (C09, C11, C12, C13) -/
open AGS in
def obsSt (s : St) : Json :=
  let nid (r : Nat) : Json := jI (s.nobj r).id
  let aid (a : Nat) : Json := jI (s.aobj a).id
  jO [("nodes", jsonOfList (fun r =>
          let o := s.nobj r
          Json.arr #[jI o.id, jS (fullName o), jsonOfList nid o.children, jsonOfList nid o.parents,
                     jsonOfList aid o.compBy, jB o.viable, jB o.necessary,
                     Json.arr #[jS o.name, jS (ntypeName o.type),
                                jS o.ttc, jOptS' o.defense, jOptB' o.exist, jOptS' o.mitre, jsonOfList jS o.tags, jS o.extras,
                                jOptS' o.asset]]) s.nodes),
      ("attackers", jsonOfList (fun a =>
          let o := s.aobj a
          Json.arr #[jI o.id, jS o.name, jsonOfList nid o.entry, jsonOfList nid o.reached]) s.attackers),
      ("idIdx", jsonOfList (fun (e : Int × Nat) => Json.arr #[jI e.1, nid e.2]) s.idIdx),
      ("nameIdx", jsonOfList (fun (e : String × Nat) => Json.arr #[jS e.1, nid e.2]) s.nameIdx),
      ("attIdx", jsonOfList (fun (e : Int × Nat) => Json.arr #[jI e.1, aid e.2]) s.attIdx),
      ("next", Json.arr #[jI s.nextNode, jI s.nextAtt])]

def errName : AGS.Err → String
  | .valueError => "ValueError" | .attackGraphException => "AttackGraphException" | .lookupError => "LookupError"

open AGS in
def agStep (s : St) (j : Json) : R (St × Json × Json) := do
  let k ← jfield jstr j "k"
  let ok (s' : St) (out : Json := Json.null) : R (St × Json × Json) := pure (s', Json.null, out)
  let refs (l : List Nat) : Json := jsonOfList (fun r => jI (s.nobj r).id) l
  match k with
  | "add_node" =>
    let o : NodeObj := { name := ← jfield jstr j "name", asset := ← jfieldOpt jstr j "asset",
                         type := ← parseNType (← jfield jstr j "type"),
                         viable := ← jfield jbool j "viable", necessary := ← jfield jbool j "necessary",
                         defOne := ← jfield jbool j "defOne", suppress := ← jfield jbool j "suppress",
                         ttc := (← jfieldOpt jstr j "ttc").getD "null", defense := ← jfieldOpt jstr j "defense",
                         exist := ← jfieldOpt jbool j "exist", mitre := ← jfieldOpt jstr j "mitre",
                         tags := (← jfieldOpt (jlist jstr) j "tags").getD [], extras := (← jfieldOpt jstr j "extras").getD "{}" }
    match addNode s o (← jfieldOpt jint j "id") with
    | .ok s' => ok s'
    | .error e => pure (s, jS (errName e), Json.null)
  | "link" =>
    let p ← jfield jnat j "p"; let c ← jfield jnat j "c"
    ok (updN (updN s p (fun o => { o with children := o.children ++ [c] })) c (fun o => { o with parents := o.parents ++ [p] }))
  | "remove_node" => ok (removeNode s (← jfield jnat j "n"))
  | "add_attacker" =>
    match addAttacker s (← jfield jstr j "name") (← jfieldOpt jint j "id") (← jfield (jlist jint) j "entry")
            (← jfield (jlist jint) j "reached") with
    | .ok s' => ok s'
    | .error e => pure (s, jS (errName e), Json.null)
  | "add_node_again" =>
    -- `add_node` called with a node object that exists already (handle `n`)
    match addNodeObj s (← jfield jnat j "n") (← jfieldOpt jint j "id") with
    | .ok s' => ok s'
    | .error e => pure (s, jS (errName e), Json.null)
  | "add_attacker_again" =>
    match addAttackerObj s (← jfield jnat j "a") (← jfieldOpt jint j "id") (← jfield (jlist jint) j "entry")
            (← jfield (jlist jint) j "reached") with
    | .ok s' => ok s'
    | .error e => pure (s, jS (errName e), Json.null)
  | "remove_attacker" => ok (removeAttacker s (← jfield jnat j "a"))
  | "compromise" => ok (compromise s (← jfield jnat j "a") (← jfield jnat j "n"))
  | "undo" => ok (undo s (← jfield jnat j "a") (← jfield jnat j "n"))
  | "attach" =>
    let atts ← jfield (jlist (fun e => do
      let l ← jarr e
      match l with
      | [nm, eps] => pure ((← jstr nm), (← jlist jstr eps))
      | _ => throw "bad attach entry")) j "atts"
    match attach s atts with
    | .ok s' => ok s'
    | .error e => pure (s, jS (errName e), Json.null)
  | "set_labels" =>
    let labs ← jfield (jlist (fun e => do
      let l ← jarr e
      match l with
      | [r, v, n] => pure ((← jnat r), (← jbool v), (← jbool n))
      | _ => throw "bad label entry")) j "labels"
    ok (setLabels s labs)
  | "prune" => ok (prune s)
  | "touch" =>
    let n ← jfield jnat j "n"
    match (← jfield jstr j "field") with
    | "tags" => ok (updN s n (fun o => { o with tags := o.tags ++ ["touched"] }))
    | "extras" => let t ← jfield jstr j "new"; ok (updN s n (fun o => { o with extras := t }))
    | "ttc" => let t ← jfield jstr j "new"; ok (updN s n (fun o => { o with ttc := t }))
    | f => throw s!"bad touch field {f}"
  | "trav" => ok s (jB (trav s (← jfield jnat j "a") (← jfield jnat j "n")))
  | "surface" => ok s (refs (surface s (← jfield jnat j "a")))
  | "update_surface" =>
    ok s (refs (updateSurface s (← jfield jnat j "a") (← jfield (jlist jnat) j "cur") (← jfield (jlist jnat) j "nodes")))
  | "defense_surface" => ok s (refs (defenseSurface s))
  | "enabled_defenses" => ok s (refs (enabledDefenses s))
  | "lookup" =>
    let ids ← jfield (jlist jint) j "ids"
    let names ← jfield (jlist jstr) j "names"
    let aids ← jfield (jlist jint) j "aids"
    let f (o : Option Nat) : Json := match o with | some r => jI (s.nobj r).id | none => Json.null
    let fa (o : Option Nat) : Json := match o with | some r => jI (s.aobj r).id | none => Json.null
    ok s (jO [("ids", jsonOfList (fun i => f (getNodeById s i)) ids),
              ("names", jsonOfList (fun n => f (getNodeByName s n)) names),
              ("aids", jsonOfList (fun i => fa (getAttackerById s i)) aids)])
  | _ => throw s!"bad ag op {k}"

def opAgHist (j : Json) : R Json := do
  let ops ← jfield jarr j "ops"
  let mut s : AGS.St := {}
  let mut other : Option AGS.St := none      -- the other side of a deep copy
  let mut outs : Array Json := #[]
  for o in ops do
    let k ← jfield jstr o "k"
    let mut err := Json.null
    let mut out := Json.null
    if k == "save_load" then
      let d := AGS.toDoc s
      let d' := if (← jfield jstr o "fmt") == "json" then AGS.jsonRT d else AGS.yamlRT d
      let withModel ← jfield jbool o "withModel"
      match AGS.fromDoc withModel (fun _ => true) d' with
      | .ok s' => s := s'
      | .error e => err := jS (errName e)
    else if k == "deepcopy" then
      other := some s
      s := AGS.deepcopy s
    else if k == "switch" then
      match other with
      | some t =>
        let cur := s
        s := AGS.viewIn t cur
        other := some cur
      | none => throw "switch without deepcopy"
    else
      let (s', e, ou) ← agStep s o
      s := s'; err := e; out := ou
    let oo : Json := match other with | some t => obsSt (AGS.viewIn t s) | none => Json.null
    outs := outs.push (jO [("err", err), ("out", out), ("obs", obsSt s), ("other", oo)])
  pure (Json.arr outs)


/-! ### languages, instance models, generation (C01, C02, C03, C15, C16) -/

partial def parseExpr (j : Json) : R Expr := do
  let t ← jfield jstr j "type"
  match t with
  | "attackStep" => pure (.step (← jfield jstr j "name"))
  | "field" => pure (.field (← jfield jstr j "name"))
  | "variable" => pure (.var (← jfield jstr j "name"))
  | "collect" => pure (.collect (← parseExpr (← jget j "lhs")) (← parseExpr (← jget j "rhs")))
  | "union" => pure (.union (← parseExpr (← jget j "lhs")) (← parseExpr (← jget j "rhs")))
  | "intersection" => pure (.inter (← parseExpr (← jget j "lhs")) (← parseExpr (← jget j "rhs")))
  | "difference" => pure (.diff (← parseExpr (← jget j "lhs")) (← parseExpr (← jget j "rhs")))
  | "transitive" => pure (.trans (← parseExpr (← jget j "stepExpression")))
  | "subType" => pure (.sub (← jfield jstr j "subType") (← parseExpr (← jget j "stepExpression")))
  | _ => throw s!"bad expr type {t}"

def exprToJson : Expr → Json
  | .step n => jO [("type", jS "attackStep"), ("name", jS n)]
  | .field n => jO [("type", jS "field"), ("name", jS n)]
  | .var n => jO [("type", jS "variable"), ("name", jS n)]
  | .collect l r => jO [("type", jS "collect"), ("lhs", exprToJson l), ("rhs", exprToJson r)]
  | .union l r => jO [("type", jS "union"), ("lhs", exprToJson l), ("rhs", exprToJson r)]
  | .inter l r => jO [("type", jS "intersection"), ("lhs", exprToJson l), ("rhs", exprToJson r)]
  | .diff l r => jO [("type", jS "difference"), ("lhs", exprToJson l), ("rhs", exprToJson r)]
  | .trans e => jO [("type", jS "transitive"), ("stepExpression", exprToJson e)]
  | .sub t e => jO [("type", jS "subType"), ("subType", jS t), ("stepExpression", exprToJson e)]

def parseReaches (j : Json) : R Reaches := do
  pure { overrides := ← jfield jbool j "overrides", exprs := ← jfield (jlist parseExpr) j "exprs" }

def parseStep (j : Json) : R StepDecl := do
  pure { name := ← jfield jstr j "name", type := ← jfield jstr j "type", tags := ← jfield (jlist jstr) j "tags",
         ttc := ← jfield jstr j "ttc", ttcName := ← jfieldOpt jstr j "ttcName", metaTxt := ← jfield jstr j "meta",
         mitre := ← jfieldOpt jstr j "mitre", risk := ← jfield jstr j "risk",
         requires := ← jfieldOpt (jlist parseExpr) j "requires", reaches := ← jfieldOpt parseReaches j "reaches" }

def parseVar (j : Json) : R (String × Expr) := do
  match (← jarr j) with
  | [n, e] => pure ((← jstr n), (← parseExpr e))
  | _ => throw "bad variable"

def parseAsset (j : Json) : R AssetDecl := do
  pure { name := ← jfield jstr j "name", superAsset := ← jfieldOpt jstr j "superAsset",
         isAbstract := ← jfield jbool j "isAbstract", variables := ← jfield (jlist parseVar) j "variables",
         steps := ← jfield (jlist parseStep) j "steps", metaTxt := ← jfield jstr j "meta",
         category := ← jfield jstr j "category" }

def parseAssoc (j : Json) : R AssocDecl := do
  pure { name := ← jfield jstr j "name", leftAsset := ← jfield jstr j "leftAsset", leftField := ← jfield jstr j "leftField",
         leftMin := ← jfield jnat j "leftMin", leftMax := ← jfieldOpt jnat j "leftMax",
         rightAsset := ← jfield jstr j "rightAsset", rightField := ← jfield jstr j "rightField",
         rightMin := ← jfield jnat j "rightMin", rightMax := ← jfieldOpt jnat j "rightMax", metaTxt := ← jfield jstr j "meta" }

def parseLang (j : Json) : R Lang := do
  pure { assets := ← jfield (jlist parseAsset) j "assets", assocs := ← jfield (jlist parseAssoc) j "assocs" }

def parseIAsset (j : Json) : R IAsset := do
  let defs ← jfield (jlist (fun e => do
    match (← jarr e) with
    | [k, v] => pure ((← jstr k), (← jstr v))
    | _ => throw "bad defense")) j "defenses"
  pure { id := ← jfield jint j "id", name := ← jfield jstr j "name", type := ← jfield jstr j "type", defenses := defs }

def parseILink (j : Json) : R ILink := do
  pure { cls := ← jfield jstr j "cls", lf := ← jfield jstr j "lf", rf := ← jfield jstr j "rf",
         left := ← jfield (jlist jint) j "left", right := ← jfield (jlist jint) j "right" }

def parseInst (j : Json) : R Inst := do
  pure { assets := ← jfield (jlist parseIAsset) j "assets", links := ← jfield (jlist parseILink) j "links" }

def evalErrName : EvalErr → String
  | .recursion => "Recursion" | .noVariable => "LanguageGraphException" | .mixedVariable => "MixedVariable"
  | .lookup => "LookupError" | .noTarget => "AttackGraphStepExpressionError"

def jOptS (o : Option String) : Json := match o with | some s => jS s | none => Json.null
def jOptB (o : Option Bool) : Json := match o with | some s => jB s | none => Json.null

def stepToJson (d : StepDecl) : Json :=
  jO [("name", jS d.name), ("type", jS d.type), ("tags", jsonOfList jS d.tags), ("ttc", jS d.ttc),
      ("meta", jS d.metaTxt), ("risk", jS d.risk),
      ("requires", match d.requires with | some l => jsonOfList exprToJson l | none => Json.null),
      ("reaches", match d.reaches with
        | some r => jO [("overrides", jB r.overrides), ("exprs", jsonOfList exprToJson r.exprs)]
        | none => Json.null)]

/-- C03: the steps every asset type exposes -/
def opResolve (j : Json) : R Json := do
  let L ← parseLang (← jget j "lang")
  let types ← jfield (jlist jstr) j "types"
  pure <| jsonOfList (fun t => jsonOfList (fun (e : String × StepDecl) =>
      Json.arr #[jS e.1, stepToJson e.2]) (L.foldSteps t)) types

/-- C01 / C02 / C16: generate the attack graph -/
def opGen (j : Json) : R Json := do
  let L ← parseLang (← jget j "lang")
  let m ← parseInst (← jget j "inst")
  match genGraph L m with
  | .error e => pure (jO [("error", jS (evalErrName e))])
  | .ok (ns, es) =>
    pure <| jO [("nodes", jsonOfList (fun (n : GNode) => jO [("id", jN n.id), ("full_name", jS n.fullName),
                  ("asset", jS n.assetName), ("name", jS n.step), ("type", jS n.type), ("ttc", jS n.ttc),
                  ("tags", jsonOfList jS n.tags), ("mitre", jOptS n.mitre), ("defense", jOptS n.defense),
                  ("exist", jOptB n.exist)]) ns),
                ("edges", jsonOfList (fun (e : Nat × Nat) => Json.arr #[jN e.1, jN e.2]) es)]

/-- C01 localisation: evaluate one expression from a set of source assets -/
def opEval (j : Json) : R Json := do
  let L ← parseLang (← jget j "lang")
  let m ← parseInst (← jget j "inst")
  let e ← parseExpr (← jget j "expr")
  let xs ← jfield (jlist jint) j "sources"
  match eval L m e xs with
  | .error er => pure (jO [("error", jS (evalErrName er))])
  | .ok r => pure (jO [("targets", jsonOfList jI r.1), ("step", jOptS r.2)])


/-! ### instance-model histories (C05, C06, C07) -/
open MS in
def obsM (L : Lang) (s : St) : Json :=
  let aid (a : Nat) : Json := jI (s.aobj a).id
  let lpos (l : Nat) : Json := match s.associations.idxOf? l with | some i => jN i | none => jI (-1)
  jO [("assets", jsonOfList (fun a =>
          let o := s.aobj a
          let dflt := defensesOf L o.type
          let nd := o.defenses.filter (fun d => !(dflt.any (fun e => e.1 = d.1 && e.2 = d.2)))
          Json.arr #[jI o.id, jS o.name, jS o.type,
                     jsonOfList (fun (d : String × String) => Json.arr #[jS d.1, jS d.2]) nd,
                     jS o.extras, jsonOfList lpos o.assocs]) s.assets),
      ("associations", jsonOfList (fun l =>
          let o := s.lobj l
          Json.arr #[jS o.cls, jS o.lf, jsonOfList aid o.left, jS o.rf, jsonOfList aid o.right, jS o.extras]) s.associations),
      ("attackers", jsonOfList (fun t =>
          let o := s.tobj t
          Json.arr #[jI o.id, jS o.name, jsonOfList (fun (ep : Nat × List String) =>
              Json.arr #[aid ep.1, jsonOfList jS ep.2]) o.entry]) s.attackers),
      ("assetIds", jsonOfList jI s.assetIds), ("assetNames", jsonOfList jS s.assetNames),
      ("tta", jsonOfList (fun (e : String × List Nat) => Json.arr #[jS e.1, jsonOfList lpos e.2]) s.typeToAssoc),
      ("nextId", jI s.nextId)]

def mErrName : MS.Err → String
  | .valueError => "ValueError" | .lookupError => "LookupError" | .duplicateAssociation => "DuplicateModelAssociationError"
  | .modelAssociation => "ModelAssociationException" | .validation => "ValidationError"

open MS in
def mStep (L : Lang) (s : St) (j : Json) : R (St × Json × Json) := do
  let k ← jfield jstr j "k"
  let ok (s' : St) (out : Json := Json.null) : R (St × Json × Json) := pure (s', Json.null, out)
  let res (r : Except Err St) : R (St × Json × Json) :=
    match r with | .ok s' => pure (s', Json.null, Json.null) | .error e => pure (s, jS (mErrName e), Json.null)
  match k with
  | "add_asset" =>
    let defs ← jfield (jlist (fun e => do
      match (← jarr e) with
      | [a, b] => pure ((← jstr a), (← jstr b))
      | _ => throw "bad defense")) j "defenses"
    res (addAsset L s (← jfield jstr j "type") (← jfieldOpt jstr j "name") defs (← jfield jbool j "defsOk")
          (← jfield jstr j "extras") (← jfieldOpt jint j "id") (← jfield jbool j "allowDup"))
  | "remove_asset" => res (removeAsset s (← jfield jnat j "a"))
  | "remove_asset_from_association" => res (removeAssetFromAssociation s (← jfield jnat j "a") (← jfield jnat j "l"))
  | "add_association" => res (addAssociation L s (← jfield jstr j "cls") (← jfield (jlist jnat) j "left") (← jfield (jlist jnat) j "right"))
  | "remove_association" => res (removeAssociation s (← jfield jnat j "l"))
  | "set_assoc_extras" =>
    let l ← jfield jnat j "l"
    let ex ← jfield jstr j "extras"
    ok (updL s l (fun o => { o with extras := ex }))
  | "add_attacker" => ok (addAttacker s (← jfieldOpt jstr j "name") (← jfieldOpt jint j "id"))
  | "remove_attacker" => res (removeAttacker s (← jfield jnat j "t"))
  | "add_entry_point" => ok (addEntryPoint s (← jfield jnat j "t") (← jfield jnat j "a") (← jfield jstr j "step"))
  | "remove_entry_point" => ok (removeEntryPoint s (← jfield jnat j "t") (← jfield jnat j "a") (← jfield jstr j "step"))
  | "lookup" =>
    let ids ← jfield (jlist jint) j "ids"
    let names ← jfield (jlist jstr) j "names"
    let nb ← jfield (jlist (fun e => do
      match (← jarr e) with
      | [a, f] => pure ((← jnat a), (← jstr f))
      | _ => throw "bad nb")) j "nbrs"
    let f (o : Option Nat) : Json := match o with | some r => jI (s.aobj r).id | none => Json.null
    let ft (o : Option Nat) : Json := match o with | some r => jI (s.tobj r).id | none => Json.null
    ok s (jO [("ids", jsonOfList (fun i => f (getAssetById s i)) ids),
              ("names", jsonOfList (fun n => f (getAssetByName s n)) names),
              ("aids", jsonOfList (fun i => ft (getAttackerById s i)) ids),
              ("nbrs", jsonOfList (fun (e : Nat × String) => jsonOfList (fun r => jI (s.aobj r).id) (neighbours s e.1 e.2)) nb)])
  | _ => throw s!"bad model op {k}"

def opModelHist (j : Json) : R Json := do
  let L ← parseLang (← jget j "lang")
  let ops ← jfield jarr j "ops"
  let mut s : MS.St := {}
  let mut outs : Array Json := #[]
  for o in ops do
    let (s', err, out) ← mStep L s o
    s := s'
    outs := outs.push (jO [("err", err), ("out", out), ("obs", obsM L s)])
  pure (Json.arr outs)


/-! ### saving / loading instance models (C07) -/
open Ser in
def keyToJson : Key → Json
  | .i n => jI n | .s t => jS t
open Ser in
def parseKey (j : Json) : R Key :=
  match j with
  | .str t => pure (.s t)
  | _ => do pure (.i (← jint j))

open Ser in
def docToJson (d : ModelDoc) : Json :=
  let pair (a : String × String) : Json := Json.arr #[jS a.1, jS a.2]
  jO [("assets", jsonOfList (fun (e : Key × AssetEntry) => Json.arr #[keyToJson e.1,
          match e.2 with
          | .full n t ds ex => jO [("name", jS n), ("type", jS t), ("defenses", jsonOfList pair ds), ("extras", jOptS ex)]
          | .shorthand t => jS t]) d.assets),
      ("associations", jsonOfList (fun (a : AssocEntry) => jO [("cls", jS a.cls), ("lf", jS a.lf),
          ("left", jsonOfList keyToJson a.left), ("rf", jS a.rf), ("right", jsonOfList keyToJson a.right),
          ("extras", jOptS a.extras)]) d.associations),
      ("attackers", jsonOfList (fun (e : Key × AttackerEntry) => Json.arr #[keyToJson e.1,
          jO [("name", jS e.2.name), ("entry", jsonOfList (fun (p : Key × List String) =>
              Json.arr #[keyToJson p.1, jsonOfList jS p.2]) e.2.entry)]]) d.attackers)]

open Ser in
def parseDoc (j : Json) : R ModelDoc := do
  let assets ← jfield (jlist (fun e => do
    match (← jarr e) with
    | [k, v] =>
      let key ← parseKey k
      match v with
      | .str t => pure (key, AssetEntry.shorthand t)
      | _ =>
        let ds ← jfield (jlist (fun d => do
          match (← jarr d) with
          | [a, b] => pure ((← jstr a), (← jstr b))
          | _ => throw "bad defense")) v "defenses"
        pure (key, AssetEntry.full (← jfield jstr v "name") (← jfield jstr v "type") ds (← jfieldOpt jstr v "extras"))
    | _ => throw "bad asset entry")) j "assets"
  let assocs ← jfield (jlist (fun a => do
    pure ({ cls := ← jfield jstr a "cls", lf := ← jfield jstr a "lf", left := ← jfield (jlist parseKey) a "left",
            rf := ← jfield jstr a "rf", right := ← jfield (jlist parseKey) a "right",
            extras := ← jfieldOpt jstr a "extras" } : AssocEntry))) j "associations"
  let atts ← jfield (jlist (fun e => do
    match (← jarr e) with
    | [k, v] =>
      let entry ← jfield (jlist (fun p => do
        match (← jarr p) with
        | [a, st] => pure ((← parseKey a), (← jlist jstr st))
        | _ => throw "bad entry point")) v "entry"
      pure ((← parseKey k), ({ name := ← jfield jstr v "name", entry := entry } : AttackerEntry))
    | _ => throw "bad attacker entry")) j "attackers"
  pure { assets := assets, associations := assocs, attackers := atts }

def runModelOps (L : Lang) (ops : List Json) : R MS.St := do
  let mut s : MS.St := {}
  for o in ops do
    let (s', _, _) ← mStep L s o
    s := s'
  pure s

/-- build a model by a history, save it, pass it through the file layer, load it, save again -/
def opSerModel (j : Json) : R Json := do
  let L ← parseLang (← jget j "lang")
  let ops ← jfield jarr j "ops"
  let fmt ← jfield jstr j "fmt"
  let s ← runModelOps L ops
  let d := Ser.toDoc L s
  let d' := if fmt = "json" then Ser.jsonRT d else Ser.yamlRT d
  match Ser.fromDoc L (fun _ => true) d' with
  | .error e => pure (jO [("doc", docToJson d), ("error", jS (mErrName e)), ("orig", obsM L s)])
  | .ok s' => pure (jO [("doc", docToJson d), ("orig", obsM L s), ("loaded", obsM L s'), ("resaved", docToJson (Ser.toDoc L s'))])

/-- load a hand-written document -/
def opLoadDoc (j : Json) : R Json := do
  let L ← parseLang (← jget j "lang")
  let d ← parseDoc (← jget j "doc")
  let bad ← jfield (jlist parseKey) j "badDefenses"
  match Ser.fromDoc L (fun k => !bad.contains k) d with
  | .error e => pure (jO [("error", jS (mErrName e))])
  | .ok s => pure (jO [("loaded", obsM L s), ("resaved", docToJson (Ser.toDoc L s))])


/-- C06: the generated classes -/
def opClasses (j : Json) : R Json := do
  let L ← parseLang (← jget j "lang")
  let on (o : Option Nat) : Json := match o with | some n => jN n | none => Json.null
  pure <| jO [("assets", jsonOfList (fun (a : AssetDecl) => Json.arr #[jS a.name,
                 jsonOfList (fun (d : String × String) => Json.arr #[jS d.1, jS d.2]) (MS.defensesOf L a.name)]) L.assets),
              ("assocs", jsonOfList (fun (c : MS.AssocClass) => Json.arr #[jS c.cls, jS c.lf, jS c.ltype, on c.lmax,
                 jS c.rf, jS c.rtype, on c.rmax]) (MS.assocClasses L))]


/-! ### the MAL compiler (C04, C17) -/
open Mal in
def ttcToJson : TTC → Json
  | .func n args => jO [("type", jS "function"), ("name", jS n), ("arguments", jsonOfList jS args)]
  | .num v => jO [("type", jS "number"), ("value", jS v)]
  | .bin op l r => jO [("type", jS op), ("lhs", ttcToJson l), ("rhs", ttcToJson r)]

open Mal in
def cspecToJson (s : CSpec) : Json :=
  let metaJ (m : Meta) : Json := jO (m.map (fun e => (e.1, jS e.2)))
  let on (o : Option Nat) : Json := match o with | some n => jN n | none => Json.null
  jO [("formatVersion", jS "1.0.0"),
      ("defines", jO (s.defines.map (fun e => (e.1, jS e.2)))),
      ("categories", jsonOfList (fun (c : String × Meta) => jO [("name", jS c.1), ("meta", metaJ c.2)]) s.categories),
      ("assets", jsonOfList (fun (a : CAsset) => jO [("name", jS a.name), ("meta", metaJ a.metaD), ("category", jS a.category),
          ("isAbstract", jB a.isAbstract), ("superAsset", jOptS a.superAsset),
          ("variables", jsonOfList (fun (v : String × Expr) => jO [("name", jS v.1), ("stepExpression", exprToJson v.2)]) a.variables),
          ("attackSteps", jsonOfList (fun (st : CStep) => jO [("name", jS st.name), ("meta", metaJ st.metaD), ("type", jS st.type),
              ("tags", jsonOfList jS st.tags),
              ("risk", match st.risk with
                | some (c, i, a) => jO [("isConfidentiality", jB c), ("isIntegrity", jB i), ("isAvailability", jB a)]
                | none => Json.null),
              ("ttc", match st.ttc with | some t => ttcToJson t | none => Json.null),
              ("requires", match st.requires with
                | some l => jO [("overrides", jB true), ("stepExpressions", jsonOfList exprToJson l)] | none => Json.null),
              ("reaches", match st.reaches with
                | some (o, l) => jO [("overrides", jB o), ("stepExpressions", jsonOfList exprToJson l)] | none => Json.null)]) a.steps)]) s.assets),
      ("associations", jsonOfList (fun (a : CAssoc) => jO [("name", jS a.name), ("meta", metaJ a.metaD),
          ("leftAsset", jS a.leftAsset), ("leftField", jS a.leftField),
          ("leftMultiplicity", jO [("min", jN a.leftMin), ("max", on a.leftMax)]),
          ("rightAsset", jS a.rightAsset), ("rightField", jS a.rightField),
          ("rightMultiplicity", jO [("min", jN a.rightMin), ("max", on a.rightMax)])]) s.associations)]

def tokName (t : Mal.Tok) : String :=
  match t with
  | .str r => "STRING:" ++ r | .int s => "INT:" ++ s | .float s => "FLOAT:" ++ s | .id s => "ID:" ++ s
  | .kwAbstract => "ABSTRACT" | .kwAsset => "ASSET" | .kwAssociations => "ASSOCIATIONS" | .kwExtends => "EXTENDS"
  | .kwInclude => "INCLUDE" | .kwCategory => "CATEGORY" | .kwInfo => "INFO" | .kwLet => "LET"
  | .exists_ => "EXISTS" | .c => "C" | .i => "I" | .a => "A"
  | .lparen => "LPAREN" | .rparen => "RPAREN" | .lcurly => "LCURLY" | .rcurly => "RCURLY" | .hash => "HASH"
  | .colon => "COLON" | .larrow => "LARROW" | .rarrow => "RARROW" | .lsquare => "LSQUARE" | .rsquare => "RSQUARE"
  | .star => "STAR" | .assign => "ASSIGN" | .minus => "MINUS" | .intersect => "INTERSECT" | .union => "UNION"
  | .range => "RANGE" | .dot => "DOT" | .and_ => "AND" | .or_ => "OR" | .notExists => "NOTEXISTS" | .at => "AT"
  | .requires => "REQUIRES" | .inherits => "INHERITS" | .leadsto => "LEADSTO" | .comma => "COMMA" | .plus => "PLUS"
  | .divide => "DIVIDE" | .power => "POWER"

/-- compile a set of files: `files` = [[name, text] …], `root` = the file to start from -/
def opCompile (j : Json) : R Json := do
  let files ← jfield (jlist (fun e => do
    match (← jarr e) with
    | [n, t] => pure ((← jstr n), (← jstr t))
    | _ => throw "bad file")) j "files"
  let root ← jfield jstr j "root"
  let look (n : String) : Option String := (files.find? (·.1 = n)).map (·.2)
  match Mal.compileFile look 16 root with
  | some s => pure (jO [("spec", cspecToJson s)])
  | none => pure (jO [("error", jS "syntax")])

def opLex (j : Json) : R Json := do
  let src ← jfield jstr j "src"
  match Mal.lex src with
  | some ts => pure (jO [("tokens", jsonOfList (fun t => jS (tokName t)) ts)])
  | none => pure (jO [("error", jS "lexer")])


/-! ### the language graph (C15) -/
def lgErrName : LG.Err → String
  | .superAssetNotFound => "LanguageGraphSuperAssetNotFoundError" | .association => "LanguageGraphAssociationError"
  | .stepExpression => "LanguageGraphStepExpressionError" | .language => "LanguageGraphException" | .lookup => "LookupError"

def opLangGraph (j : Json) : R Json := do
  let L ← parseLang (← jget j "lang")
  let quads ← jfield (jlist (fun e => do
    match (← jarr e) with
    | [a, b, c, d] => pure ((← jstr a), (← jstr b), (← jstr c), (← jstr d))
    | _ => throw "bad quad")) j "lookups"
  match LG.generate L with
  | .error e => pure (jO [("error", jS (lgErrName e))])
  | .ok g =>
    let names := L.assets.map (·.name)
    let assocJ (a : AssocDecl) : Json := Json.arr #[jS a.name, jS a.leftField, jS a.rightField]
    pure <| jO [
      ("assets", jsonOfList (fun (a : AssetDecl) => Json.arr #[jS a.name,
          jsonOfList assocJ (LG.assocsOf L g.assocs a.name),
          jsonOfList (fun (e : String × StepDecl) => jS e.1) (L.foldSteps a.name),
          jsonOfList jS (match a.superAsset with | some s => [s] | none => []),
          jsonOfList jS ((L.assets.filter (fun b => b.superAsset = some a.name)).map (·.name))]) L.assets),
      ("assocs", jsonOfList (fun (a : AssocDecl) => Json.arr #[jS a.name, jS a.leftAsset, jS a.leftField, jS a.rightAsset, jS a.rightField]) g.assocs),
      ("links", jsonOfList (fun (l : LG.Link) => Json.arr #[jS l.srcAsset, jS l.srcStep, jS l.dstAsset, jS l.dstStep]) g.links),
      ("isSub", jsonOfList (fun t => jsonOfList (fun u => jB (L.isSub t u)) names) names),
      ("lookups", jsonOfList (fun (q : String × String × String × String) =>
          match LG.lookupAssoc L g.assocs q.1 q.2.1 q.2.2.1 q.2.2.2 with
          | .ok (some a) => Json.arr #[jS a.name, jS a.leftField, jS a.rightField]
          | .ok none => Json.null
          | .error _ => jS "LookupError") quads)]


/-! ### legacy loaders (C18) -/
open Legacy in
def oldDocToJson (d : OldDoc) : Json :=
  let pair (a : String × String) : Json := Json.arr #[jS a.1, jS a.2]
  jO [("assets", jsonOfList (fun (e : Ser.Key × OldAssetEntry) => Json.arr #[keyToJson e.1,
          match e.2 with
          | .full n t ds => jO [("name", jS n), ("metaconcept", jS t), ("defenses", jsonOfList pair ds)]
          | .shorthand t => jS t]) d.assets),
      ("associations", jsonOfList (fun (a : OldAssoc) => jO [("metaconcept", jS a.metaconcept), ("lf", jS a.lf),
          ("left", jsonOfList keyToJson a.left), ("rf", jS a.rf), ("right", jsonOfList keyToJson a.right)]) d.associations),
      ("attackers", jsonOfList (fun (e : Ser.Key × Ser.AttackerEntry) => Json.arr #[keyToJson e.1,
          jO [("name", jS e.2.name), ("entry", jsonOfList (fun (p : Ser.Key × List String) =>
              Json.arr #[keyToJson p.1, jsonOfList jS p.2]) e.2.entry)]]) d.attackers)]

open Legacy in
def scadDocToJson (d : ScadDoc) : Json :=
  jO [("objects", jsonOfList (fun (o : ScadObject) => jO [("id", jI o.id), ("name", jS o.name), ("metaConcept", jS o.metaConcept),
          ("defenses", jsonOfList (fun (x : String × String) => Json.arr #[jS x.1, jS x.2]) o.defenses)]) d.objects),
      ("associations", jsonOfList (fun (a : ScadAssoc) => jO [("sourceObject", jI a.sourceObject), ("targetObject", jI a.targetObject),
          ("sourceProperty", jS a.sourceProperty), ("targetProperty", jS a.targetProperty)]) d.associations)]

/-- build a model by a history; emit it in a legacy layout; load that with the model of the legacy loader -/
def opLegacy (j : Json) : R Json := do
  let L ← parseLang (← jget j "lang")
  let ops ← jfield jarr j "ops"
  let which ← jfield jstr j "which"
  let s ← runModelOps L ops
  let native := match Ser.fromDoc L (fun _ => true) (Ser.toDoc L s) with | .ok s' => obsM L s' | .error e => jS (mErrName e)
  if which == "old" then
    let d := Legacy.emitOld (Ser.jsonRT (Ser.toDoc L s))
    let loaded := match Legacy.loadOld L (fun _ => true) d with | .ok s' => obsM L s' | .error e => jS (mErrName e)
    pure (jO [("doc", oldDocToJson d), ("loaded", loaded), ("native", native)])
  else
    match LG.generate L with
    | .error e => pure (jO [("error", jS (lgErrName e))])
    | .ok g =>
      let d := Legacy.emitScad L s
      let loaded := match Legacy.loadScad L g.assocs (fun _ => true) d with | .ok s' => obsM L s' | .error e => jS (mErrName e)
      pure (jO [("doc", scadDocToJson d), ("loaded", loaded), ("native", native)])


/-! ### Neo4j ingestion (C19) -/
def opNeo4jModel (j : Json) : R Json := do
  let L ← parseLang (← jget j "lang")
  let ops ← jfield jarr j "ops"
  let s ← runModelOps L ops
  let g := Neo.ingestModel s
  let sub := jO [("nodes", jsonOfList (fun (n : Neo.DbNode) => Json.arr #[jS n.label, jS n.name, jS n.assetId, jS n.type]) g.nodes),
                 ("rels", jsonOfList (fun (r : Neo.DbRel) => Json.arr #[jN r.src, jS r.type, jN r.dst]) g.rels)]
  match LG.generate L with
  | .error e => pure (jO [("sub", sub), ("error", jS (lgErrName e))])
  | .ok lg =>
    let back := match Neo.getModel L lg.assocs g with | .ok s' => obsM L s' | .error e => jS (mErrName e)
    pure (jO [("sub", sub), ("back", back), ("orig", obsM L s)])

def opNeo4jGraph (j : Json) : R Json := do
  let ops ← jfield jarr j "ops"
  let mut s : AGS.St := {}
  for o in ops do
    let (s', _, _) ← agStep s o
    s := s'
  let g := Neo.ingestGraph ntypeName s
  pure (jO [("nodes", jsonOfList (fun (n : Neo.StepNode) => Json.arr #[jS n.label, jS n.name, jS n.fullName, jS n.type, jS n.ttc,
                jB n.necessary, jB n.viable, jsonOfList jS n.compBy, jOptS n.defense]) g.nodes),
            ("rels", jsonOfList (fun (r : Nat × Nat) => Json.arr #[jN r.1, jN r.2]) g.rels)])

/-! ### the parse tree of the model's tree builder and the *translated* visitor on it (C04, visitor domain) -/
open MalVerif.Py.Visitor in
mutual
def ptToJson : PT → Json
  | .tok t x i => Json.arr #[jS t, jS x, jN i]
  | .rule n cs => Json.arr (#[jS n] ++ (ptListToJson cs).toArray)
def ptListToJson : List PT → List Json
  | [] => []
  | c :: cs => ptToJson c :: ptListToJson cs
end

open MalVerif.Py.Visitor in
mutual
def vToJson : V → Json
  | .none => Json.null
  | .unbound => jS "<unbound>"
  | .bool b => jB b
  | .int i => jI i
  | .num t => jS t
  | .str s => jS s
  | .list l => Json.arr (vListToJson l).toArray
  | .tuple l => Json.arr (vListToJson l).toArray
  | .dict d => jO (vDictToJson d)
  | .ctx .. => jS "<ctx>"
  | .token .. => jS "<token>"
def vListToJson : List V → List Json
  | [] => []
  | v :: vs => vToJson v :: vListToJson vs
def vDictToJson : List (String × V) → List (String × Json)
  | [] => []
  | (k, v) :: r => (k, vToJson v) :: vDictToJson r
end

/-- the parse tree the model's tree builder makes of a source text (every token must be consumed) -/
def opTree (j : Json) : R Json := do
  let src ← jfield jstr j "src"
  match Mal.lex src with
  | none => pure (jO [("error", jS "lexer")])
  | some ts =>
    match Mal.treeMalRest ts with
    | some (t, []) => pure (jO [("tree", ptToJson t)])
    | _ => pure (jO [("error", jS "syntax")])

/-- compile a set of files with the translated visitor on the model's trees -/
def opVisit (j : Json) : R Json := do
  let files ← jfield (jlist (fun e => do
    match (← jarr e) with
    | [n, t] => pure ((← jstr n), (← jstr t))
    | _ => throw "bad file")) j "files"
  let root ← jfield jstr j "root"
  let look (n : String) : Option String := (files.find? (·.1 = n)).map (·.2)
  match MalVerif.Py.Visitor.compileGen look 16 (.str root) with
  | .ok v => pure (jO [("spec", vToJson v)])
  | .error e => pure (jO [("error", jS (reprStr e))])

/-! ### the GENERATED code, executed (`genexec`): the same histories / lookups as `ag_hist`, `model_hist`, `resolve`, run with
the definitions of `Py/Gen*/*.lean` on the heaps of the preludes.  Everything below is glue (parsing the operation,
allocating the object the Python caller constructs, reading the observables); it takes no decision of its own: whether an
operation raises, and what the heap is afterwards, is what the generated function returns.  A raising operation leaves the
heap as it was before the call (the `Except` monad drops the heap; what CPython leaves behind after an exception is
checked by the oracle of the correspondence, not here). -/
namespace GenX
open MalVerif.Py

def pyErrName : PyErr → String
  | .valueError => "ValueError" | .attackGraphException => "AttackGraphException" | .lookupError => "LookupError"
  | .assertionError => "AssertionError" | .keyError => "KeyError" | .languageGraphException => "LanguageGraphException"
  | .recursionError => "RecursionError" | .nonTermination => "NonTermination"
  | .attackGraphStepExpressionError => "AttackGraphStepExpressionError" | .other => "OtherError"

/-- a `ttc` dictionary from its canonical JSON text (`null` = `None`): the value under `name` as the string it is, every
other value as compressed JSON text (the convention of `PyDictS`) -/
def ttcOfText (t : String) : R (Option PyDictS) := do
  match Json.parse t with
  | .error e => throw s!"bad ttc text: {e}"
  | .ok .null => pure none
  | .ok j =>
    let kvs ← jpairs j
    pure (some (kvs.map (fun (k, v) => (k, match k, v with | "name", .str x => x | _, _ => v.compress))))

def ttcToText (d : Option PyDictS) : String :=
  match d with
  | none => "null"
  | some l => "{" ++ ",".intercalate (l.map (fun (k, v) => (jS k).compress ++ ":" ++ (if k == "name" then (jS v).compress else v))) ++ "}"

/-- constant-time object stores (the heap updates of the generated code build chains of closures) -/
def normH (s : H) : H :=
  let na := (Array.range s.nfresh).map s.n
  let aa := (Array.range s.afresh).map s.a
  { s with n := fun r => na.getD r {}, a := fun r => aa.getD r {} }

def graphOf (s : H) : PyGraph :=
  { nodes := s.nodes, attackers := s.attackers, _id_to_node := s._id_to_node, _full_name_to_node := s._full_name_to_node,
    _id_to_attacker := s._id_to_attacker, next_node_id := s.next_node_id, next_attacker_id := s.next_attacker_id }

def jOptI (o : Option Int) : Json := match o with | some i => jI i | none => Json.null

def obsH (s : H) : Json :=
  let nid (r : Nat) : Json := jOptI (s.n r).id
  let aid (a : Nat) : Json := jOptI (s.a a).id
  jO [("nodes", jsonOfList (fun r =>
          let o := s.n r
          Json.arr #[nid r, jS (Gen.node_full_name s r), jsonOfList nid o.children, jsonOfList nid o.parents,
                     jsonOfList aid o.compromised_by, jB o.is_viable, jB o.is_necessary,
                     Json.arr #[jS o.name, jS o.type, jS (ttcToText o.ttc), Drv.jOptS' (o.defense_status.map (·.text)),
                                Drv.jOptB' o.existence_status, Drv.jOptS' o.mitre_info, jsonOfList jS o.tags, jS o.extras,
                                Drv.jOptS' (o.asset.map (·.name))]]) s.nodes),
      ("attackers", jsonOfList (fun a =>
          let o := s.a a
          Json.arr #[aid a, jS o.name, jsonOfList nid o.entry_points, jsonOfList nid o.reached_attack_steps]) s.attackers),
      ("idIdx", jsonOfList (fun (e : Int × Nat) => Json.arr #[jI e.1, nid e.2]) s._id_to_node),
      ("nameIdx", jsonOfList (fun (e : String × Nat) => Json.arr #[jS e.1, nid e.2]) s._full_name_to_node),
      ("attIdx", jsonOfList (fun (e : Int × Nat) => Json.arr #[jI e.1, aid e.2]) s._id_to_attacker),
      ("next", Json.arr #[jI s.next_node_id, jI s.next_attacker_id])]

def assetOfName (nm : String) : PyAssetObj := { id := 0, name := nm }

/-- the model entry points `[(asset, [steps])]` the harness builds from full names `asset:step` (grouped by asset,
first occurrence first; the split is at the LAST colon) -/
def groupEps (eps : List String) : List (PyAssetObj × List String) :=
  let split (fn : String) : String × String :=
    let parts := fn.splitOn ":"
    (":".intercalate parts.dropLast, parts.getLast!)
  let d := eps.foldl (fun (acc : List (String × List String)) fn =>
    let (a, st) := split fn
    dictSet acc a ((dictGet acc a).getD [] ++ [st])) []
  d.map (fun e => (assetOfName e.1, e.2))

def dummyEnv : EvalEnv :=
  { get_associated_assets_by_field_name := fun _ _ => [], _get_variable_for_asset_type_by_name := fun _ _ => .error .other,
    get_asset_by_name := fun _ => none, is_subasset_of := fun _ _ => false, whileFuel := 0, evalFuel := 0 }

def agStepGen (s : H) (j : Json) : R (H × Json × Json) := do
  let k ← jfield jstr j "k"
  let ok (s' : H) (out : Json := Json.null) : R (H × Json × Json) := pure (s', Json.null, out)
  let res (r : Except PyErr H) : R (H × Json × Json) :=
    match r with | .ok s' => pure (s', Json.null, Json.null) | .error e => pure (s, jS (pyErrName e), Json.null)
  let refs (l : List Nat) : Json := jsonOfList (fun r => jOptI (s.n r).id) l
  match k with
  | "add_node" =>
    let type ← jfield jstr j "type"
    let defOne ← jfield jbool j "defOne"
    let suppress ← jfield jbool j "suppress"
    let bare := (← jfieldOpt jbool j "bare") == some true      -- a defense whose status was never set
    let defense := match (← jfieldOpt jstr j "defense") with
      | some d => some d
      | none => if type == "defense" && !bare then some (if defOne then "1.0" else "0.5") else none
    let tags := match (← jfieldOpt (jlist jstr) j "tags") with
      | some t => t
      | none => if suppress then ["suppress"] else []
    let o : PyNode := { type := type, name := ← jfield jstr j "name", ttc := ← ttcOfText ((← jfieldOpt jstr j "ttc").getD "null"),
                        asset := (← jfieldOpt jstr j "asset").map assetOfName,
                        defense_status := defense.map pyFloatOfStr, existence_status := ← jfieldOpt jbool j "exist",
                        is_viable := ← jfield jbool j "viable", is_necessary := ← jfield jbool j "necessary",
                        mitre_info := ← jfieldOpt jstr j "mitre", tags := tags, extras := (← jfieldOpt jstr j "extras").getD "{}" }
    let (s1, r) := s.allocN o
    res (Gen.graph_add_node s1 r (← jfieldOpt jint j "id"))
  | "link" =>
    let p ← jfield jnat j "p"; let c ← jfield jnat j "c"
    let s1 := s.setN p { s.n p with children := (s.n p).children ++ [c] }
    ok (s1.setN c { s1.n c with parents := (s1.n c).parents ++ [p] })
  | "link1" =>
    let p ← jfield jnat j "p"; let c ← jfield jnat j "c"
    if (← jfield jstr j "side") == "child" then ok (s.setN p { s.n p with children := (s.n p).children ++ [c] })
    else ok (s.setN c { s.n c with parents := (s.n c).parents ++ [p] })
  | "remove_node" => res (Gen.graph_remove_node s (← jfield jnat j "n"))
  | "add_attacker" =>
    let (s1, a) := s.allocA { name := ← jfield jstr j "name", entry_points := [], reached_attack_steps := [] }
    res (Gen.graph_add_attacker s1 a (← jfieldOpt jint j "id") (← jfield (jlist jint) j "entry") (← jfield (jlist jint) j "reached"))
  | "add_node_again" => res (Gen.graph_add_node s (← jfield jnat j "n") (← jfieldOpt jint j "id"))
  | "add_attacker_again" =>
    res (Gen.graph_add_attacker s (← jfield jnat j "a") (← jfieldOpt jint j "id") (← jfield (jlist jint) j "entry")
          (← jfield (jlist jint) j "reached"))
  | "remove_attacker" => res (Gen.graph_remove_attacker s (← jfield jnat j "a"))
  | "compromise" =>
    let a ← jfield jnat j "a"; let n ← jfield jnat j "n"
    if (← jfieldOpt jstr j "side") == some "node" then ok (Gen.node_compromise s n a) else ok (Gen.attacker_compromise s a n)
  | "undo" =>
    let a ← jfield jnat j "a"; let n ← jfield jnat j "n"
    if (← jfieldOpt jstr j "side") == some "node" then res (Gen.node_undo_compromise s n a) else res (Gen.attacker_undo_compromise s a n)
  | "attach" =>
    let atts ← jfield (jlist (fun e => do
      let l ← jarr e
      match l with
      | [nm, eps] => pure ({ name := some (← jstr nm), entry_points := groupEps (← jlist jstr eps) } : PyAttackerInfo)
      | _ => throw "bad attach entry")) j "atts"
    res (Gen.graph_attach_attackers s { dummyEnv with has_model := true, attackers := atts })
  | "set_labels" =>
    let labs ← jfield (jlist (fun e => do
      let l ← jarr e
      match l with
      | [r, v, n] => pure ((← jnat r), (← jbool v), (← jbool n))
      | _ => throw "bad label entry")) j "labels"
    ok (labs.foldl (fun s (r, v, n) => s.setN r { s.n r with is_viable := v, is_necessary := n }) s)
  | "prune" => res (Gen.prune_unviable_and_unnecessary_nodes s)
  | "calculate" => res (Gen.calculate_viability_and_necessity s)
  | "touch" =>
    let n ← jfield jnat j "n"
    match (← jfield jstr j "field") with
    | "tags" => ok (s.setN n { s.n n with tags := (s.n n).tags ++ ["touched"] })
    | "extras" => let t ← jfield jstr j "new"; ok (s.setN n { s.n n with extras := t })
    | "ttc" => let t ← jfield jstr j "new"; ok (s.setN n { s.n n with ttc := ← ttcOfText t })
    | f => throw s!"bad touch field {f}"
  | "trav" => ok s (jB (Gen.is_node_traversable_by_attacker s (← jfield jnat j "n") (← jfield jnat j "a")))
  | "surface" => ok s (refs (Gen.get_attack_surface s (← jfield jnat j "a")))
  | "update_surface" =>
    ok s (refs (Gen.update_attack_surface_add_nodes s (← jfield jnat j "a") (← jfield (jlist jnat) j "cur") (← jfield (jlist jnat) j "nodes")))
  | "defense_surface" => ok s (refs (Gen.get_defense_surface s))
  | "enabled_defenses" => ok s (refs (Gen.get_enabled_defenses s))
  | "lookup" =>
    let ids ← jfield (jlist jint) j "ids"
    let names ← jfield (jlist jstr) j "names"
    let aids ← jfield (jlist jint) j "aids"
    let f (o : Option Nat) : Json := match o with | some r => jOptI (s.n r).id | none => Json.null
    let fa (o : Option Nat) : Json := match o with | some r => jOptI (s.a r).id | none => Json.null
    ok s (jO [("ids", jsonOfList (fun i => f (Gen.graph_get_node_by_id s i)) ids),
              ("names", jsonOfList (fun n => f (Gen.graph_get_node_by_full_name s n)) names),
              ("aids", jsonOfList (fun i => fa (Gen.graph_get_attacker_by_id s i)) aids)])
  | _ => throw s!"bad ag op {k}"

/-- `save_to_file` + `load_from_file` with the generated `_to_dict` / `_from_dict`; the file layer in between is the
modelled `jsonRTpy` / `yamlRTpy`; the loaded graph lives in a new heap whose references start at 0 -/
def saveLoadGen (s : H) (fmt : String) (withModel : Bool) : Except PyErr H := do
  let d ← Gen.graph__to_dict (s.attackers.length + 2) s
  let d' := if fmt == "json" then jsonRTpy d else yamlRTpy d
  let model : Option PyModel := if withModel then some { get_asset_by_name := fun nm => some (assetOfName nm) } else none
  let (s', aux) ← Gen.graph__from_dict {} d' model
  pure { s' with nfresh := aux.nfresh, afresh := aux.afresh }

/-- `copy.deepcopy(graph)`: the copy becomes the current graph, the original the other one (same object stores) -/
def deepcopyGen (s : H) : Except PyErr (H × PyGraph) := do
  let (g2, (s', aux, _)) ← Gen.graph___deepcopy__ (s, { nfresh := s.nfresh, afresh := s.afresh }, {})
  pure (({ s' with nfresh := aux.nfresh, afresh := aux.afresh } : H).withGraph g2, graphOf s)

def opGenAgHist (j : Json) : R Json := do
  let ops ← jfield jarr j "ops"
  let mut s : H := {}
  let mut other : Option PyGraph := none
  let mut outs : Array Json := #[]
  for o in ops do
    let k ← jfield jstr o "k"
    let mut err := Json.null
    let mut out := Json.null
    if k == "save_load" then
      match saveLoadGen s (← jfield jstr o "fmt") (← jfield jbool o "withModel") with
      | .ok s' => s := s'; other := none
      | .error e => err := jS (pyErrName e)
    else if k == "deepcopy" then
      match deepcopyGen s with
      | .ok (s', og) => s := s'; other := some og
      | .error e => err := jS (pyErrName e)
    else if k == "switch" then
      match other with
      | some t =>
        let cur := graphOf s
        s := s.withGraph t
        other := some cur
      | none => throw "switch without deepcopy"
    else
      let (s', e, ou) ← agStepGen s o
      s := s'; err := e; out := ou
    s := normH s
    let oo : Json := match other with | some t => obsH (s.withGraph t) | none => Json.null
    outs := outs.push (jO [("err", err), ("out", out), ("obs", obsH s), ("other", oo)])
  pure (Json.arr outs)

/-! #### `apriori`: the generated `calculate_viability_and_necessity` on the graph of the `apriori` op -/
def opGenApriori (j : Json) : R Json := do
  let g ← jfield (jlist Drv.parseANode) j "nodes"
  let order ← jfield (jlist jnat) j "order"
  let v0 := (← jfieldOpt (jlist jbool) j "viable0").getD []
  let n0 := (← jfieldOpt (jlist jbool) j "necessary0").getD []
  let arr := g.toArray
  let node (i : Nat) : PyNode :=
    match arr[i]? with
    | none => {}
    | some o =>
      { type := Drv.ntypeName o.type, name := s!"n{i}", id := some (Int.ofNat i), children := o.children, parents := o.parents,
        defense_status := if o.type == .defense then some (pyFloatOfStr (if o.defOne then "1.0" else if o.defZero then "0.0" else "0.5")) else none,
        existence_status := if o.type == .exist || o.type == .notExist then some o.exist else none,
        ttc := if o.ttcSet then some (match o.ttcName with | some n => [("name", n)] | none => [("type", "\"function\"")]) else none,
        is_viable := v0.getD i true, is_necessary := n0.getD i true }
  let s : H := { n := node, nfresh := g.length, nodes := order }
  match Gen.calculate_viability_and_necessity s with
  | .error e => pure (jO [("error", jS (pyErrName e))])
  | .ok s' =>
    let idx := List.range g.length
    pure <| jO [("viable", jsonOfList jB (idx.map (fun i => (s'.n i).is_viable))),
                ("necessary", jsonOfList jB (idx.map (fun i => (s'.n i).is_necessary)))]

end GenX

/-! #### instance-model histories with the generated `model_*` / `attachment_*` functions -/
namespace GenXM
open MalVerif.PyM

def pyErrName : PyErr → String
  | .valueError => "ValueError" | .lookupError => "LookupError" | .duplicateModelAssociationError => "DuplicateModelAssociationError"
  | .modelAssociationException => "ModelAssociationException" | .keyError => "KeyError" | .attributeError => "AttributeError"
  | .assertionError => "AssertionError" | .nonTermination => "NonTermination" | .recursionError => "RecursionError" | .other => "OtherError"

def normH (s : H) : H :=
  let aa := (Array.range s.afresh).map s.a
  let la := (Array.range s.lfresh).map s.l
  let ta := (Array.range s.tfresh).map s.t
  let ea := (Array.range s.efresh).map s.e
  { s with a := fun r => aa.getD r {}, l := fun r => la.getD r {}, t := fun r => ta.getD r {}, e := fun r => ea.getD r {} }

/-- python_jsonschema_objects `==` (a parameter of the translation): `as_dict()` of both objects is compared.  For an asset
that lists no association this is the comparison of its scalar properties; the dictionary of an asset that lists
associations contains those (and through them the asset again: CPython ends in `RecursionError`) — then, and for
association objects, only an object is equal to itself. -/
def envOf (s : H) : ModelEnv :=
  { eqA := fun x y =>
      let p := s.a x; let q := s.a y
      p.associations.isEmpty && q.associations.isEmpty && p.id == q.id && p.name == q.name && p.type == q.type &&
      p.defenses == q.defenses && p.extras == q.extras
    eqL := fun _ _ => false
    whileFuel := s.asset_names.length + 2 }

def mStepGen (L : Lang) (s : H) (j : Json) : R (H × Json × Json) := do
  let k ← jfield jstr j "k"
  let env := envOf s
  let ok (s' : H) (out : Json := Json.null) : R (H × Json × Json) := pure (s', Json.null, out)
  let bad (e : String) : R (H × Json × Json) := pure (s, jS e, Json.null)
  let res (r : Except PyErr H) : R (H × Json × Json) :=
    match r with | .ok s' => pure (s', Json.null, Json.null) | .error e => pure (s, jS (pyErrName e), Json.null)
  match k with
  | "add_asset" =>
    let defs ← jfield (jlist (fun e => do
      match (← jarr e) with
      | [a, b] => pure ((← jstr a), (← jstr b))
      | _ => throw "bad defense")) j "defenses"
    let ty ← jfield jstr j "type"
    let ex ← jfield jstr j "extras"
    -- the guards of the pjs class constructor (not part of `model.py`; the modelled functions of the `model` domain)
    if (L.findAsset ty).isNone then bad "LookupError" else
    if !(← jfield jbool j "defsOk") || !(defs.all (fun d => (MS.defensesOf L ty).any (·.1 = d.1))) then bad "ValidationError" else
    let o : PyAsset := { type := ty, name := ← jfieldOpt jstr j "name", defenses := defs, extras := if ex == "{}" then none else some ex }
    res (Gen.model_add_asset (newAssetObj s o) env s.afresh (← jfieldOpt jint j "id") (← jfield jbool j "allowDup"))
  | "remove_asset" => res (Gen.model_remove_asset s env (← jfield jnat j "a"))
  | "remove_asset_from_association" => res (Gen.model_remove_asset_from_association s env (← jfield jnat j "a") (← jfield jnat j "l"))
  | "add_association" =>
    let cls ← jfield jstr j "cls"
    let left ← jfield (jlist jnat) j "left"
    let right ← jfield (jlist jnat) j "right"
    match (MS.assocClasses L).find? (·.cls = cls) with
    | none => bad "LookupError"
    | some c =>
      if !(left.all (fun a => MS.okMember L c.ltype (s.a a).type) && MS.okCount c.lmax left.length &&
           right.all (fun a => MS.okMember L c.rtype (s.a a).type) && MS.okCount c.rmax right.length) then bad "ValidationError" else
      if h : c.lf ≠ c.rf then
        res (Gen.model_add_association (newAssocObj s { cls := cls, lf := c.lf, rf := c.rf, left := left, right := right, distinct := h })
               env s.lfresh)
      else pure (s, jS "skip:one-field-association-class", Json.null)
  | "remove_association" => res (Gen.model_remove_association s env (← jfield jnat j "l"))
  | "set_assoc_extras" =>
    let l ← jfield jnat j "l"
    let ex ← jfield jstr j "extras"
    ok (s.setL l { s.l l with extras := some ex })
  | "add_attacker" =>
    ok (Gen.model_add_attacker (newAttObj s { name := ← jfieldOpt jstr j "name" }) env s.tfresh (← jfieldOpt jint j "id"))
  | "remove_attacker" => res (Gen.model_remove_attacker s env (← jfield jnat j "t"))
  | "add_entry_point" => ok (Gen.attachment_add_entry_point s env (← jfield jnat j "t") (← jfield jnat j "a") (← jfield jstr j "step"))
  | "remove_entry_point" => res (Gen.attachment_remove_entry_point s env (← jfield jnat j "t") (← jfield jnat j "a") (← jfield jstr j "step"))
  | "lookup" =>
    let ids ← jfield (jlist jint) j "ids"
    let names ← jfield (jlist jstr) j "names"
    let nb ← jfield (jlist (fun e => do
      match (← jarr e) with
      | [a, f] => pure ((← jnat a), (← jstr f))
      | _ => throw "bad nb")) j "nbrs"
    let f (o : Option Nat) : Json := match o with | some r => jI (attrInt (s.a r).id) | none => Json.null
    let ft (o : Option Nat) : Json := match o with | some r => jI (optIntGet (s.t r).id) | none => Json.null
    ok s (jO [("ids", jsonOfList (fun i => f (Gen.model_get_asset_by_id s env i)) ids),
              ("names", jsonOfList (fun n => f (Gen.model_get_asset_by_name s env n)) names),
              ("aids", jsonOfList (fun i => ft (Gen.model_get_attacker_by_id s env i)) ids),
              ("nbrs", jsonOfList (fun (e : Nat × String) =>
                  match Gen.model_get_associated_assets_by_field_name s env e.1 e.2 with
                  | .ok l => jsonOfList (fun r => jI (attrInt (s.a r).id)) l
                  | .error er => jS (pyErrName er)) nb)])
  | _ => throw s!"bad model op {k}"

def opGenModelHist (j : Json) : R Json := do
  let L ← Drv.parseLang (← jget j "lang")
  let ops ← jfield jarr j "ops"
  let mut s : H := { name := "hist" }
  let mut outs : Array Json := #[]
  for o in ops do
    let (s', err, out) ← mStepGen L s o
    s := normH s'
    outs := outs.push (jO [("err", err), ("out", out), ("obs", Drv.obsM L (abs s))])
  pure (Json.arr outs)

end GenXM

/-! #### `_get_attacks_for_asset_type` of `Py/GenLang` -/
namespace GenXL
open MalVerif.Py MalVerif.Py.LSpec

def langToJson (L : Lang) : Json :=
  jsonOfList (fun (a : AssetDecl) => Json.arr #[jS a.name, Drv.jOptS a.superAsset, jsonOfList Drv.stepToJson a.steps,
    jsonOfList (fun (st : StepDecl) => Json.arr #[Drv.jOptS st.ttcName, Drv.jOptS st.mitre]) a.steps]) L.assets

/-- the queries `types` (a sequence, types may repeat) asked one after the other of ONE specification heap, as the real
object is asked; after the last one the specification read back from the heap is compared with the one loaded -/
def opGenResolve (j : Json) : R Json := do
  let L ← Drv.parseLang (← jget j "lang")
  let types ← jfield (jlist jstr) j "types"
  let s0 := loadPy L
  let mut s := s0
  let mut outs : Array Json := #[]
  for t in types do
    match GenLang.lg__get_attacks_for_asset_type (pyFuelL s) s t with
    | .error e => outs := outs.push (jO [("error", jS (GenX.pyErrName e))])
    | .ok (s', acc) =>
      s := s'
      outs := outs.push (jsonOfList (fun (e : String × StepDecl) => Json.arr #[jS e.1, Drv.stepToJson e.2]) (absAnswer s acc))
  pure (jO [("answers", Json.arr outs),
            ("specUnchanged", jB ((langToJson (absLang s)).compress == (langToJson (absLang s0)).compress)),
            ("loadedIsInput", jB ((langToJson (absLang s0)).compress == (langToJson L).compress))])

end GenXL

/-! #### graph generation (`genexec2`): `AttackGraph(lang_graph, model)` / `create_attack_graph` of the GENERATED code.
The language graph is the generated `lg__generate_graph` on the specification heap `loadPy L` (`PyW.newLanguageGraph`), the
model heap is built by the generated `model_add_asset` / `model_add_association` (as `langgen.build_model` builds the real
one) or — mode `wrapper` — by the generated `model__from_dict` inside the generated `create_attack_graph`, the graph by the
generated `graph___init__` in the environment `PyW.evalEnvOf` of the two heaps (every callee the generated function of its
domain). -/
namespace GenXW
open MalVerif.Py

def wErrName : PyW.WErr → String
  | .badZipFile => "BadZipFile" | .fileError => "FileError" | .valueError => "ValueError" | .keyError => "KeyError"
  | .typeError => "TypeError" | .systemExit c => s!"SystemExit({c})"
  | .lang e => GenX.pyErrName e | .model e => GenXM.pyErrName e | .graph e => GenX.pyErrName e

/-- `langgen.build_model`: one pjs object per asset (constructor + `setattr` of the defenses: allocation), `add_asset(obj,
asset_id=id)`; one association object per link, its two fields set to the asset objects, `add_association` -/
def buildModelApi (m : Inst) (names0 : Option (List (Option String)) := none) : Except String PyM.H := do
  let mut s : PyM.H := { name := "m" }
  for (a, k) in m.assets.zipIdx do
    -- `names0`: the names the objects are CONSTRUCTED with (`None`: `cls()`); `add_asset` then chooses the final name
    let nm : Option String := match names0 with | some l => (l.getD k (some a.name)) | none => some a.name
    let o : PyM.PyAsset := { type := a.type, name := nm, defenses := a.defenses }
    match PyM.Gen.model_add_asset (PyM.newAssetObj s o) (GenXM.envOf s) s.afresh (some a.id) true with
    | .ok s' => s := GenXM.normH s'
    | .error e => throw (GenXM.pyErrName e)
  -- `byid[i]`: the object built for the (last) asset with that id = its position in the list
  let refOf (i : Int) : Except String Nat :=
    match (m.assets.zipIdx.filter (fun e => e.1.id == i)).getLast? with
    | some e => pure e.2
    | none => throw "KeyError"
  for l in m.links do
    let left ← l.left.mapM refOf
    let right ← l.right.mapM refOf
    if h : l.lf ≠ l.rf then
      match PyM.Gen.model_add_association (PyM.newAssocObj s { cls := l.cls, lf := l.lf, rf := l.rf, left := left, right := right, distinct := h })
              (GenXM.envOf s) s.lfresh with
      | .ok s' => s := GenXM.normH s'
      | .error e => throw (GenXM.pyErrName e)
    else throw "skip:one-field-association-class"
  pure s

/-- the attackers of the payload `[id, name, [[asset id, [steps]]]]`, added with the generated `model_add_attacker` -/
def addAttackers (s0 : PyM.H) (m : Inst) (atts : List (Int × String × List (Int × List String))) : Except String PyM.H := do
  let mut s := s0
  for (i, nm, eps) in atts do
    s := PyM.newAttObj s { name := some nm }
    let t := s.tfresh - 1
    for (aid, steps) in eps do
      match (m.assets.zipIdx.filter (fun e => e.1.id == aid)).getLast? with
      | none => throw "KeyError"
      | some e =>
        for st in steps do
          s := PyM.Gen.attachment_add_entry_point s (GenXM.envOf s) t e.2 st
    s := GenXM.normH (PyM.Gen.model_add_attacker s (GenXM.envOf s) t (some i))
  pure s

/-- the document `Model._to_dict` writes for this model, as `json.load` reads it back (keys of `assets` / `attackers` are
strings) -/
def docOfInst (m : Inst) (atts : List (Int × String × List (Int × List String))) : PyM.PyDoc :=
  let k (i : Int) : Ser.Key := .s (toString i)
  { metadata := some { name := some "m", langVersion := some "", langID := some "", malVersion := some "0.1.0-SNAPSHOT",
                       MAL_Toolbox_Version_hyphen := some "", info := some "Created by the mal-toolbox model python module." }
    assets := some (m.assets.map (fun a => (k a.id, .dict { name := some a.name, type := some a.type, defenses := some a.defenses })))
    associations := some (m.links.map (fun l => [(l.cls, .fields [(l.lf, PyM.targetsOfInts l.left), (l.rf, PyM.targetsOfInts l.right)])]))
    attackers := some (atts.map (fun (i, nm, eps) =>
      (k i, { name := some nm, entry_points := some (eps.map (fun (a, sts) => (k a, { attack_steps := some sts }))) }))) }

/-- the `ttc` of a generated node: a step dictionary of the specification heap is read through `Py.ttcDict` (W5), which keeps
the canonical JSON text of the whole value under the pseudo-key `<json>` -/
def ttcText (d : Option PyDictS) : String :=
  match d with
  | some l => (match l.find? (·.1 == "<json>") with | some e => e.2 | none => GenX.ttcToText d)
  | none => "null"

def obsGraph (s : H) : Json :=
  let nid (r : Nat) : Json := GenX.jOptI (s.n r).id
  let aid (a : Nat) : Json := GenX.jOptI (s.a a).id
  jO [("nodes", jsonOfList (fun r =>
          let o := s.n r
          jO [("id", nid r), ("full_name", jS (Gen.node_full_name s r)), ("asset", Drv.jOptS (o.asset.map (·.name))),
              ("name", jS o.name), ("type", jS o.type), ("ttc", jS (ttcText o.ttc)), ("tags", jsonOfList jS o.tags),
              ("mitre", Drv.jOptS o.mitre_info), ("defense", Drv.jOptS (o.defense_status.map (·.text))),
              ("exist", Drv.jOptB o.existence_status), ("viable", jB o.is_viable), ("necessary", jB o.is_necessary),
              ("children", jsonOfList nid o.children), ("parents", jsonOfList nid o.parents),
              ("compromised_by", jsonOfList aid o.compromised_by), ("extras", jS o.extras)]) s.nodes),
      ("edges", Json.arr (s.nodes.flatMap (fun r => (s.n r).children.map (fun c => Json.arr #[nid r, nid c]))).toArray),
      ("parent_edges", Json.arr (s.nodes.flatMap (fun r => (s.n r).parents.map (fun p => Json.arr #[nid p, nid r]))).toArray),
      ("attackers", jsonOfList (fun a =>
          let o := s.a a
          jO [("id", aid a), ("name", jS o.name), ("entry_points", jsonOfList nid o.entry_points),
              ("reached", jsonOfList nid o.reached_attack_steps)]) s.attackers),
      ("idIdx", jsonOfList (fun (e : Int × Nat) => Json.arr #[jI e.1, nid e.2]) s._id_to_node),
      ("nameIdx", jsonOfList (fun (e : String × Nat) => Json.arr #[jS e.1, nid e.2]) s._full_name_to_node),
      ("next", Json.arr #[jI s.next_node_id, jI s.next_attacker_id])]

def parseAtts (j : Json) : R (List (Int × String × List (Int × List String))) := do
  match (← jfieldOpt jarr j "attackers") with
  | none => pure []
  | some l => l.mapM (fun e => do
      match (← jarr e) with
      | [i, nm, eps] =>
        let eps ← (← jarr eps).mapM (fun ep => do
          match (← jarr ep) with
          | [a, sts] => pure ((← jint a), (← jlist jstr sts))
          | _ => throw "bad entry point")
        pure ((← jint i), (← jstr nm), eps)
      | _ => throw "bad attacker")

/-- op `gen_generate {lang, inst, attackers?, mode?, attach?, calc?, lookups?}` -/
def opGenGenerate (j : Json) : R Json := do
  let L ← Drv.parseLang (← jget j "lang")
  let m ← Drv.parseInst (← jget j "inst")
  let atts ← parseAtts j
  let mode := (← jfieldOpt jstr j "mode").getD "api"
  let attach := (← jfieldOpt jbool j "attach").getD false
  let ana := (← jfieldOpt jbool j "calc").getD false
  let again := (← jfieldOpt jnat j "again").getD 0
  let names0 ← jfieldOpt (jlist (fun x => match x with | .null => pure none | _ => do pure (some (← jstr x)))) j "names0"
  let lf := (← jfieldOpt jstr j "lang_file").getD "lang.mar"
  let mf := (← jfieldOpt jstr j "model_file").getD "model.json"
  let spec := LSpec.loadPy L
  let doc := docOfInst m atts
  let w0 : PyW.WEnv :=
    { read_mar := fun p => if p == "lang.mar" then .ok spec else .error .badZipFile
      compile_mal := fun p => if p == "lang.mal" then .ok spec else .error .fileError
      load_yaml := fun p => if p == "model.yml" then .ok doc else .error .fileError
      load_json := fun p => if p == "model.json" then .ok doc else .error .fileError
      evalFuel := 1000, recLimit := 1000 }
  let r : Except String PyW.WGraph :=
    if mode == "wrapper" then
      match PyW.Gen.create_attack_graph w0 lf mf attach ana with
      | .ok g => .ok g
      | .error e => .error (wErrName e)
    else do
      let mh ← buildModelApi m names0
      let mh ← addAttackers mh m atts
      let w := { w0 with menv := GenXM.envOf mh }
      let run : Except PyW.WErr PyW.WGraph := do
        let lg ← PyW.newLanguageGraph w spec
        let mut g ← PyW.newAttackGraph w lg mh
        -- `again = k`: k further `AttackGraph(lang_graph, model)` in the same process: the node store is the one the earlier
        -- graphs left (their objects stay), the language graph is the one the earlier graph kept; the LAST graph is returned
        for _ in List.range again do
          g ← PyW.newAttackGraph { w with gstore := GenX.normH g.h } g.lang_graph mh
        if attach then g ← PyW.agAttachAttackers w g
        if ana then g ← PyW.agCalculate w g
        pure g
      match run with
      | .ok g => .ok g
      | .error e => .error (wErrName e)
  match r with
  | .error e => pure (jO [("error", jS e)])
  | .ok g =>
    let s := GenX.normH g.h
    let ids := (← jfieldOpt (jlist jint) j "ids").getD []
    let names := (← jfieldOpt (jlist jstr) j "names").getD []
    let f (o : Option Nat) : Json := match o with | some r => GenX.jOptI (s.n r).id | none => Json.null
    pure (jO [("graph", obsGraph s),
              ("lookups", jO [("ids", jsonOfList (fun i => f (Gen.graph_get_node_by_id s i)) ids),
                              ("names", jsonOfList (fun n => f (Gen.graph_get_node_by_full_name s n)) names)])])

end GenXW
/-! #### the legacy loaders of `Py/GenLegacy` on the documents the harness wrote (C18) -/
namespace GenXLeg
open MalVerif.PyM MalVerif.PyLeg

def lErrName : LErr → String
  | .py e => GenXM.pyErrName e | .validation => "ValidationError" | .typeError => "TypeError" | .unmodelled => "unmodelled"

/-- what `json.loads` / `yaml.safe_load` returned, as the harness sends it: `null`, `true`/`false`, a string, a list, and
tagged `{"i": "<decimal>"}` (int, any size), `{"f": "<repr>"}` (float, canonical text), `{"d": [[key, value], …]}` (dict in
insertion order; keys `str` / `int` as in the file) -/
partial def parsePyJ (j : Json) : R PyJ :=
  match j with
  | .null => pure .null
  | .bool b => pure (.bool b)
  | .str t => pure (.str t)
  | .arr a => do pure (.list (← a.toList.mapM parsePyJ))
  | .num _ => throw "untagged number in a document"
  | .obj _ =>
    match j.getObjVal? "i", j.getObjVal? "f", j.getObjVal? "d" with
    | .ok v, _, _ => do
      match (← jstr v).toInt? with
      | some i => pure (.int i)
      | none => throw "bad int text"
    | _, .ok v, _ => do pure (.num (← jstr v))
    | _, _, .ok v => do
      let kvs ← (← jarr v).mapM (fun e => do
        match (← jarr e) with
        | [k, x] =>
          match jKey (← parsePyJ k) with
          | some key => pure (key, (← parsePyJ x))
          | none => throw "dictionary key that is neither str nor int"
        | _ => throw "bad dictionary entry")
      pure (.dict kvs)
    | _, _, _ => throw "bad document value"

/-- one layer of the file boundary: the document that layer returns for the file, or the class of what it raises -/
def parseLayer (j : Json) (k : String) : R (Except LErr PyJ) :=
  match j.getObjVal? k with
  | .error _ => pure (.error (.py .other))
  | .ok v =>
    match v.getObjVal? "raises" with
    | .ok e => do pure (.error (if (← jstr e) == "ValueError" then .py .valueError else .py .other))
    | .error _ => do pure (.ok (← parsePyJ v))

def parseScad (j : Json) : R Legacy.ScadDoc := do
  let objects ← jfield (jlist (fun o => do
    let defs ← jfield (jlist (fun e => do
      match (← jarr e) with
      | [a, b] => pure ((← jstr a), (← jstr b))
      | _ => throw "bad evidence")) o "defenses"
    pure ({ id := ← jfield jint o "id", name := ← jfield jstr o "name", metaConcept := ← jfield jstr o "metaConcept",
            defenses := defs } : Legacy.ScadObject))) j "objects"
  let assocs ← jfield (jlist (fun a => do
    pure ({ sourceObject := ← jfield jint a "sourceObject", targetObject := ← jfield jint a "targetObject",
            sourceProperty := ← jfield jstr a "sourceProperty", targetProperty := ← jfield jstr a "targetProperty" } : Legacy.ScadAssoc))) j "associations"
  pure { objects := objects, associations := assocs }

/-- the `LanguageGraph` object handed to the securiCAD loader: the heap `heapOfLang L nodes` (`Py/AbsLangGraph.lean`), asked
with the GENERATED `get_association_by_fields_and_assets` of `Py/GenLang/Assocs.lean` -/
def lgView (L : Lang) (nodes : List AssocDecl) : LangGraphView :=
  let gh := MalVerif.Py.LSpec.heapOfLang L nodes
  { get_association_by_fields_and_assets := fun f1 f2 t1 t2 =>
      match MalVerif.Py.GenLang.lg_get_association_by_fields_and_assets gh f1 f2 t1 t2 with
      | .ok (some c) => .ok (some (MalVerif.Py.LSpec.declOf gh c))
      | .ok none => .ok none
      | .error .lookupError => .error (.py .lookupError)
      | .error .nonTermination => .error (.py .nonTermination)
      | .error _ => .error (.py .other) }

def render (L : Lang) (r : Except LErr (Option H)) : Json :=
  match r with
  | .error e => jO [("error", jS (lErrName e))]
  | .ok none => jO [("none", jB true)]
  | .ok (some s) => let s := GenXM.normH s; jO [("loaded", Drv.obsM L (abs s)), ("name", jS s.name)]

/-- `which = "old"`: `load_model_from_older_version(file, factory, version)` on the file whose content the two layers of the
boundary return as `json` / `yaml`; `which = "scad"`: `load_model_from_scad_archive(file, lang_graph, factory)` on the parsed
archive `eom`.  Parameters of the translation: pjs `==` relates no two different objects (assets of one model differ in `id`),
`whileFuel` = number of entries + 2, `floatOk` = not listed in `badFloats` (the range check as the real library made it). -/
def opGenLegacy (j : Json) : R Json := do
  let L ← Drv.parseLang (← jget j "lang")
  let which ← jfield jstr j "which"
  let file ← jfield jstr j "file"
  let bad := (← jfieldOpt (jlist jstr) j "badFloats").getD []
  let fac : Factory := { L := L, floatOk := fun t => !bad.contains t }
  let absent {α : Type} : String → Except LErr α := fun _ => .error (.py .other)
  if which == "old" then
    let js ← parseLayer j "json"
    let ys ← parseLayer j "yaml"
    let version ← jfield jstr j "version"
    let size (d : Except LErr PyJ) : Nat := match d with
      | .ok (.dict m) => (match lookupKey m (.s "assets") with | some (.dict a) => a.length | _ => 0)
      | _ => 0
    let files : Files := { json := fun f => if f == file then js else absent f, yaml := fun f => if f == file then ys else absent f, eom := absent }
    let env : ModelEnv := { eqA := fun _ _ => false, eqL := fun _ _ => false, whileFuel := max (size js) (size ys) + 2 }
    pure (render L ((Gen.updater_load_model_from_older_version files env file fac version).map some))
  else
    let d ← parseScad (← jget j "eom")
    match LG.generate L with
    | .error e => pure (jO [("skip", jS (Drv.lgErrName e))])
    | .ok g =>
      let files : Files := { json := absent, yaml := absent, eom := fun f => if f == file then .ok d else absent f }
      let env : ModelEnv := { eqA := fun _ _ => false, eqL := fun _ _ => false, whileFuel := d.objects.length + 2 }
      pure (render L (Gen.securicad_load_model_from_scad_archive files env file (lgView L g.assocs) fac))

end GenXLeg

/-! #### the Neo4j ingestor of `Py/GenNeo4j` on the recording database of the prelude (C19) -/
namespace GenXNeo
open MalVerif.PyN

/-- the recorded database: every stored node with all labels and all properties (in the order of the keyword arguments),
every stored relationship between positions, in stored order -/
def dbToJson (db : Db) : Json :=
  jO [("nodes", jsonOfList (fun (n : NeoNode) => jO [("labels", jsonOfList jS n.labels),
          ("props", jsonOfList (fun (e : String × String) => Json.arr #[jS e.1, jS e.2]) n.props)]) db.nodes),
      ("rels", jsonOfList (fun (r : DbRel) => Json.arr #[jN r.src, jS r.type, jN r.dst]) db.rels)]

/-- the language side of `get_model` (parameters of the translation): the `LanguageGraph` object is `heapOfLang L nodes` asked
with the GENERATED `get_association_by_fields_and_assets` (`GenXLeg.lgView`), `get_association_by_signature` and the class
namespace are the conventions of `PreludeLegacy` (`facAssocBySignature`, `MS.assocClasses`) -/
def neoEnv (L : Lang) (nodes : List AssocDecl) (menv : PyM.ModelEnv) : NeoEnv :=
  let lg := GenXLeg.lgView L nodes
  let fac : PyLeg.Factory := { L := L, floatOk := fun _ => true }
  let cv {α : Type} (r : Except PyLeg.LErr α) : Except PyM.PyErr α :=
    match r with | .ok a => .ok a | .error (.py e) => .error e | .error _ => .error .other
  { menv := menv
    get_association_by_fields_and_assets := fun f1 f2 t1 t2 =>
      match cv (lg.get_association_by_fields_and_assets f1 f2 t1 t2) with
      | .ok (some d) => .ok (some { name := d.name, left_field := ⟨⟨d.leftAsset⟩, d.leftField⟩, right_field := ⟨⟨d.rightAsset⟩, d.rightField⟩ })
      | .ok none => .ok none
      | .error e => .error e
    get_association_by_signature := fun n l r => cv (PyLeg.facAssocBySignature fac n l r)
    ns_has := fun t => (L.findAsset t).isSome || (MS.assocClasses L).any (·.cls = t)
    ns_new_asset := fun t n => if (L.findAsset t).isSome then .ok { type := t, name := some n } else .error .attributeError
    ns_new_assoc := fun c =>
      match (MS.assocClasses L).find? (·.cls = c) with
      | some k => if h : k.lf ≠ k.rf then .ok { cls := c, lf := k.lf, rf := k.rf, distinct := h } else .error .other
      | none => .error .attributeError }

/-- the model built by the history (generated `model_*` functions, as `gen_model_hist`), `ingest_model(model, …, delete=True)`
into the empty recording database, then `get_model(…)` over what was stored -/
def opGenNeo4jModel (j : Json) : R Json := do
  let L ← Drv.parseLang (← jget j "lang")
  let ops ← jfield jarr j "ops"
  let mut s : PyM.H := { name := "hist" }
  for o in ops do
    let (s', err, _) ← GenXM.mStepGen L s o
    if let .str e := err then
      if e.startsWith "skip:" then return jO [("skip", jS e)]
    s := GenXM.normH s'
  match Gen.ingest_model {} s "uri" "u" "p" "db" true with
  | .error e => pure (jO [("error", jS (GenXM.pyErrName e))])
  | .ok w =>
    let sub := dbToJson w.db
    match LG.generate L with
    | .error e => pure (jO [("sub", sub), ("objs", jN w.objs.length), ("back", jO [("skip", jS (Drv.lgErrName e))])])
    | .ok lg =>
      let menv : PyM.ModelEnv := { eqA := fun _ _ => false, eqL := fun _ _ => false, whileFuel := w.db.nodes.length + 2 }
      let back := match Gen.get_model w (neoEnv L lg.assocs menv) "uri" "u" "p" "db" with
        | .ok s' => let s' := GenXM.normH s'; jO [("loaded", Drv.obsM L (PyM.abs s')), ("name", jS s'.name)]
        | .error e => jO [("error", jS (GenXM.pyErrName e))]
      pure (jO [("sub", sub), ("objs", jN w.objs.length), ("back", back)])

/-- the attack graph built by the history (generated functions, as `gen_ag_hist`), `ingest_attack_graph(graph, …, delete=True)` -/
def opGenNeo4jGraph (j : Json) : R Json := do
  let ops ← jfield jarr j "ops"
  let mut s : MalVerif.Py.H := {}
  for o in ops do
    let (s', _, _) ← GenX.agStepGen s o
    s := GenX.normH s'
  match Gen.ingest_attack_graph {} s "uri" "u" "p" "db" true with
  | .error e => pure (jO [("error", jS (GenX.pyErrName e))])
  | .ok w => pure (jO [("sub", dbToJson w.db), ("objs", jN w.objs.length)])

end GenXNeo
/-! #### `genexec2` / serialisers (tag `serial`): the documents of the generated `graph__to_dict` and the generated
`graph__from_dict` on REAL documents (notes/NOTES_genexec2_serial.md).  Ordered rendering of Python values (Lean's `Json`
objects sort their keys): a dictionary is `["d", [[key, value], …]]` (keys: JSON numbers for `int`, strings for `str`), a
list `["l", […]]`, a `ttc` dictionary `["t", [[key, text], …]]` (the `PyDictS` convention: the value under `name` is the
string itself, every other value its compressed JSON text), a non-empty `extras` dictionary `["j", canonical JSON text]`. -/
namespace GenXS
open MalVerif.Ser (Key)
section AG
open MalVerif.Py

def jKey : Key → Json | .i n => jI n | .s t => jS t
def jD (kvs : List (Json × Json)) : Json :=
  Json.arr #[jS "d", Json.arr (kvs.map (fun (e : Json × Json) => Json.arr #[e.1, e.2])).toArray]

def atomToJson : PyAtom → Json
  | .none => Json.null
  | .int i => jI i
  | .str t => jS t
  | .strs l => Json.arr #[jS "l", jsonOfList jS l]
  | .idmap d => jD (d.map (fun e => (jKey e.1, jS e.2)))
  | .dictS d => Json.arr #[jS "t", jsonOfList (fun (e : String × String) => Json.arr #[jS e.1, jS e.2]) d]
  | .json t => Json.arr #[jS "j", jS t]

def dictAToJson (d : PyDictA) : Json := jD (d.map (fun e => (jS e.1, atomToJson e.2)))
def docToJson (d : PyDoc) : Json := jD (d.map (fun top => (jS top.1, jD (top.2.map (fun e => (jS e.1, dictAToJson e.2))))))

/-- what the generated `AttackGraph._to_dict` returns for the graph of the heap (or the class of the exception) -/
def toDictJson (s : H) : Json :=
  match Gen.graph__to_dict (s.attackers.length + 2) s with
  | .ok d => docToJson d
  | .error e => jO [("error", jS (GenX.pyErrName e))]

/-- `gen_ag_todict {ops, pos}`: the history of `gen_ag_hist` replayed with the same glue (`GenX.agStepGen`, `saveLoadGen`,
`deepcopyGen`); BEFORE every step whose index is listed in `pos` (and after the last step when `pos` lists `len(ops)`): the
document of the generated `_to_dict` for the current graph and for the other side of a deep copy -/
def opGenAgTodict (j : Json) : R Json := do
  let ops ← jfield jarr j "ops"
  let pos ← jfield (jlist jnat) j "pos"
  let mut s : H := {}
  let mut other : Option PyGraph := none
  let mut outs : Array Json := #[]
  let snap (p : Nat) (s : H) (other : Option PyGraph) : Json :=
    jO [("pos", jN p), ("doc", toDictJson s),
        ("other", match other with | some t => toDictJson (s.withGraph t) | none => Json.null)]
  let mut i := 0
  for o in ops do
    if pos.contains i then outs := outs.push (snap i s other)
    let k ← jfield jstr o "k"
    if k == "save_load" then
      match GenX.saveLoadGen s (← jfield jstr o "fmt") (← jfield jbool o "withModel") with
      | .ok s' => s := s'; other := none
      | .error _ => pure ()
    else if k == "deepcopy" then
      match GenX.deepcopyGen s with
      | .ok (s', og) => s := s'; other := some og
      | .error _ => pure ()
    else if k == "switch" then
      match other with
      | some t =>
        let cur := GenX.graphOf s
        s := s.withGraph t
        other := some cur
      | none => throw "switch without deepcopy"
    else
      let (s', _, _) ← GenX.agStepGen s o
      s := s'
    s := GenX.normH s
    i := i + 1
  if pos.contains i then outs := outs.push (snap i s other)
  pure (Json.arr outs)

def parsePairs {α β} (fk : Json → R α) (fv : Json → R β) (j : Json) : R (List (α × β)) :=
  jlist (fun e => do
    match (← jarr e) with
    | [k, v] => pure ((← fk k), (← fv v))
    | _ => throw "bad pair") j

def parseKey (j : Json) : R Key :=
  match j with
  | .str t => pure (.s t)
  | _ => do pure (.i (← jint j))

/-- a value of a node / attacker dictionary of a REAL document (ordered rendering above); Python values that `PyAtom`
cannot express (floats, booleans, nested lists …) are refused -/
def parseAtom (j : Json) : R PyAtom :=
  match j with
  | .null => pure .none
  | .str t => pure (.str t)
  | .num _ => do pure (.int (← jint j))
  | .arr #[.str "l", l] => do pure (.strs (← jlist jstr l))
  | .arr #[.str "d", d] => do pure (.idmap (← parsePairs parseKey jstr d))
  | .arr #[.str "t", d] => do pure (.dictS (← parsePairs jstr jstr d))
  | .arr #[.str "j", .str t] => pure (.json t)
  | _ => throw s!"value not representable as PyAtom: {j.compress}"

def parseD {α} (f : Json → R α) (j : Json) : R (List (String × α)) :=
  match j with
  | .arr #[.str "d", d] => parsePairs jstr f d
  | _ => throw "dictionary expected"

def parseDoc (j : Json) : R PyDoc := parseD (parseD (parseD parseAtom)) j

/-- `gen_ag_fromdict {doc, withModel}`: the generated `AttackGraph._from_dict` on a document as the REAL file layer
returned it; the loaded heap is observed like a step of `gen_ag_hist`, and saved again with the generated `_to_dict` -/
def opGenAgFromdict (j : Json) : R Json := do
  let d ← parseDoc (← jget j "doc")
  let model : Option PyModel :=
    if (← jfield jbool j "withModel") then some { get_asset_by_name := fun nm => some (GenX.assetOfName nm) } else none
  match Gen.graph__from_dict {} d model with
  | .error e => pure (jO [("err", jS (GenX.pyErrName e))])
  | .ok (s', aux) =>
    let s := GenX.normH { s' with nfresh := aux.nfresh, afresh := aux.afresh }
    pure (jO [("err", Json.null), ("obs", GenX.obsH s), ("resaved", toDictJson s)])

end AG

/-! ##### instance models (`Py/GenMSerial`): `model__to_dict` on the heap built from the payload of `ser_model`, `model__from_dict`
on REAL documents.  Rendering as above; additionally `["r", [[key, value], …]]` is a dictionary with a FIXED key set, which
the prelude represents as a record: the order of its keys is not represented by the translation (the glue lists the fields
that are present in the order of the structure declaration; the harness compares such a dictionary as a set of items),
and `["f", text]` is a `float` (its canonical text). -/
namespace M
open MalVerif.PyM

def jR (kvs : List (String × Option Json)) : Json :=
  Json.arr #[jS "r", Json.arr (kvs.filterMap (fun (e : String × Option Json) => e.2.map (fun v => Json.arr #[jS e.1, v]))).toArray]
def jF (t : String) : Json := Json.arr #[jS "f", jS t]
def jJ (t : String) : Json := Json.arr #[jS "j", jS t]
def jL (l : List Json) : Json := Json.arr #[jS "l", Json.arr l.toArray]

def assetVToJson : PyAssetV → Json
  | .str t => jS t
  | .dict d => jR [("name", d.name.map jS), ("type", d.type.map jS),
                   ("defenses", d.defenses.map (fun ds => jD (ds.map (fun e => (jS e.1, jF e.2))))), ("extras", d.extras.map jJ)]
def targetsToJson : PyTargets → Json
  | .list l => jL (l.map jKey)
  | .one k => jKey k
def assocVToJson : PyAssocV → Json
  | .fields d => jD (d.map (fun e => (jS e.1, targetsToJson e.2)))
  | .json t => jJ t
def attDToJson (d : PyAttD) : Json :=
  jR [("name", d.name.map jS),
      ("entry_points", d.entry_points.map (fun eps => jD (eps.map (fun e =>
          (jKey e.1, jR [("attack_steps", e.2.attack_steps.map (fun l => jL (l.map jS)))])))))]
def metaToJson (m : PyMeta) : Json :=
  jR [("name", m.name.map jS), ("langVersion", m.langVersion.map jS), ("langID", m.langID.map jS), ("malVersion", m.malVersion.map jS),
      ("MAL-Toolbox Version", m.MAL_Toolbox_Version_hyphen.map jS), ("MAL Toolbox Version", m.MAL_Toolbox_Version_space.map jS),
      ("info", m.info.map jS)]
def docToJson (d : PyDoc) : Json :=
  jR [("metadata", d.metadata.map metaToJson),
      ("assets", d.assets.map (fun l => jD (l.map (fun e => (jKey e.1, assetVToJson e.2))))),
      ("associations", d.associations.map (fun l => jL (l.map (fun a => jD (a.map (fun e => (jS e.1, assocVToJson e.2))))))),
      ("attackers", d.attackers.map (fun l => jD (l.map (fun e => (jKey e.1, attDToJson e.2)))))]

/-- the pjs range check of a defense value (`number`, minimum 0, maximum 1) on the canonical text of a float -/
def floatOk (t : String) : Bool :=
  match Json.parse t with
  | .ok (.num n) => decide (0 ≤ n.mantissa) && decide (n.mantissa ≤ (10 : Int) ^ n.exponent)
  | _ => false

/-- `meta` = [lang_graph.metadata['version'], lang_graph.metadata['id'], maltoolbox.__version__] -/
def senvOf (L : Lang) (m : ModelEnv) (j : Json) : R SEnv := do
  match (← jfield (jlist jstr) j "meta") with
  | [v, i, t] => pure { model := m, lang := L, floatOk := floatOk, lang_version := v, lang_id := i, toolbox_version := t }
  | _ => throw "bad meta"

def toDictJson (s : H) (env : SEnv) : Json :=
  match Gen.model__to_dict s env with
  | .ok d => docToJson d
  | .error e => jO [("error", jS (GenXM.pyErrName e))]

/-- `gen_ser_model {lang, ops, meta}`: the payload of `ser_model`; the heap is built by the generated mutators (the glue of
`gen_model_hist`), then the generated `Model._to_dict` -/
def opGenSerModel (j : Json) : R Json := do
  let L ← Drv.parseLang (← jget j "lang")
  let ops ← jfield jarr j "ops"
  let mut s : H := { name := "hist" }
  for o in ops do
    let (s', err, _) ← GenXM.mStepGen L s o
    match err with
    | .str e => if e.startsWith "skip:" then return jO [("skip", jS e)]
    | _ => pure ()
    s := GenXM.normH s'
  let env ← senvOf L (GenXM.envOf s) j
  pure (jO [("doc", toDictJson s env), ("obs", Drv.obsM L (abs s))])

def unrep {α} (what : String) : R α := throw s!"unrepresentable: {what}"

/-- the items of a dictionary `["d", [[k, v], …]]` -/
def items (what : String) (j : Json) : R (List (Json × Json)) :=
  match j with
  | .arr #[.str "d", d] => GenXS.parsePairs pure pure d
  | _ => unrep s!"{what}: dictionary expected, got {j.compress}"
def field (kvs : List (Json × Json)) (k : String) : Option Json :=
  (kvs.find? (fun e => match e.1 with | .str t => t == k | _ => false)).map (·.2)
def optField {α} (kvs : List (Json × Json)) (k : String) (f : Json → R α) : R (Option α) :=
  match field kvs k with | some v => some <$> f v | none => pure none
def pStr (what : String) (j : Json) : R String :=
  match j with | .str t => pure t | _ => unrep s!"{what}: str expected, got {j.compress}"
def pKey (what : String) (j : Json) : R Key :=
  match j with
  | .str t => pure (.s t)
  | .num n => if n.exponent == 0 then pure (.i n.mantissa) else unrep s!"{what}: key {j.compress}"
  | _ => unrep s!"{what}: key {j.compress}"
def pJsonText (what : String) (j : Json) : R String :=
  match j with | .arr #[.str "j", .str t] => pure t | _ => unrep s!"{what}: extras dictionary expected, got {j.compress}"
def pList {α} (what : String) (f : Json → R α) (j : Json) : R (List α) :=
  match j with | .arr #[.str "l", l] => jlist f l | _ => unrep s!"{what}: list expected, got {j.compress}"

def pAssetV (j : Json) : R PyAssetV :=
  match j with
  | .str t => pure (.str t)
  | _ => do
    let kvs ← items "asset entry" j
    pure (.dict { name := ← optField kvs "name" (pStr "asset name"), type := ← optField kvs "type" (pStr "asset type"),
                  defenses := ← optField kvs "defenses" (fun d => do
                    (← items "defenses" d).mapM (fun e => do
                      let v ← match e.2 with
                        | .arr #[.str "f", .str t] => pure t
                        | x => unrep s!"defense value {x.compress}"
                      pure ((← pStr "defense name" e.1), v))),
                  extras := ← optField kvs "extras" (pJsonText "asset extras") })
def pTargets (j : Json) : R PyTargets :=
  match j with
  | .arr #[.str "l", l] => do pure (.list (← jlist (pKey "association member") l))
  | _ => do pure (.one (← pKey "association member" j))
def pAssocV (j : Json) : R PyAssocV :=
  match j with
  | .arr #[.str "j", .str t] => pure (.json t)
  | _ => do pure (.fields (← (← items "association fields" j).mapM (fun e => do pure ((← pStr "field name" e.1), (← pTargets e.2)))))
def pAttD (j : Json) : R PyAttD := do
  let kvs ← items "attacker entry" j
  pure { name := ← optField kvs "name" (pStr "attacker name"),
         entry_points := ← optField kvs "entry_points" (fun d => do
           (← items "entry_points" d).mapM (fun e => do
             let ep ← items "entry point" e.2
             pure ((← pKey "entry point" e.1),
                   ({ attack_steps := ← optField ep "attack_steps" (pList "attack_steps" (pStr "attack step")) } : PyEpD)))) }
def pMeta (j : Json) : R PyMeta := do
  let kvs ← items "metadata" j
  let f (k : String) := optField kvs k (pStr s!"metadata {k}")
  pure { name := ← f "name", langVersion := ← f "langVersion", langID := ← f "langID", malVersion := ← f "malVersion",
         MAL_Toolbox_Version_hyphen := ← f "MAL-Toolbox Version", MAL_Toolbox_Version_space := ← f "MAL Toolbox Version", info := ← f "info" }
def pDoc (j : Json) : R PyDoc := do
  let kvs ← items "document" j
  pure { metadata := ← optField kvs "metadata" pMeta,
         assets := ← optField kvs "assets" (fun d => do (← items "assets" d).mapM (fun e => do pure ((← pKey "asset id" e.1), (← pAssetV e.2)))),
         associations := ← optField kvs "associations" (pList "associations" (fun a => do
           (← items "association entry" a).mapM (fun e => do pure ((← pStr "association key" e.1), (← pAssocV e.2))))),
         attackers := ← optField kvs "attackers" (fun d => do (← items "attackers" d).mapM (fun e => do pure ((← pKey "attacker id" e.1), (← pAttD e.2)))) }

/-- `gen_load_doc {lang, doc, meta}`: the generated `Model._from_dict` on a document as the REAL file layer returned it (or
a hand-edited one).  pjs `==` (parameter `ModelEnv`): identity — inside `_from_dict` it is asked only of assets of the one
model under construction, whose ids are pairwise distinct.  A document with a value the prelude types cannot hold is
answered `unrepresentable: …` (not an error of the generated code). -/
def opGenLoadDoc (j : Json) : R Json := do
  let L ← Drv.parseLang (← jget j "lang")
  let d ← pDoc (← jget j "doc")
  let env ← senvOf L { eqA := fun _ _ => false, eqL := fun _ _ => false, whileFuel := (d.assets.getD []).length + 2 } j
  match Gen.model__from_dict {} env d with
  | .error e => pure (jO [("err", jS (GenXM.pyErrName e))])
  | .ok s' =>
    let s := GenXM.normH s'
    pure (jO [("err", Json.null), ("name", jS s.name), ("loaded", Drv.obsM L (abs s)),
              ("resaved", toDictJson s { env with model := GenXM.envOf s })])

end M

end GenXS
/-! #### `_generate_graph` of `Py/GenLangType` and the lookups of `Py/GenLang` (C15) -/
namespace GenXG
open MalVerif.Py MalVerif.Py.LSpec MalVerif.Py.LType

/-- the classes of `languagegraph.py` behind the labels of prelude convention 11 of `PreludeLangType` (raised by the
construction); everything else as in `GenX.pyErrName` -/
def errName : PyErr → String
  | .lookupError => "LanguageGraphSuperAssetNotFoundError"
  | .attackGraphException => "LanguageGraphAssociationError"
  | .attackGraphStepExpressionError => "LanguageGraphStepExpressionError"
  | .languageGraphException => "LanguageGraphException"
  | e => GenX.pyErrName e

/-- constant-time object stores (the heap updates of the generated code build chains of closures; pure representation change) -/
def normT (s : TH) : TH :=
  let aa := (Array.range s.nextA).map s.g.asset
  let ca := (Array.range s.nextC).map s.g.assoc
  let sa := (Array.range s.nextA).map s.asteps
  let da := (Array.range s.nextA).map s.adesc
  let dc := (Array.range s.nextC).map s.cdesc
  { s with g := { s.g with asset := fun r => aa.getD r {}, assoc := fun r => ca.getD r {} },
           asteps := fun r => sa.getD r [], adesc := fun r => da.getD r "{}", cdesc := fun r => dc.getD r "{}" }

/-- an object reference as its position in the list of the language graph that holds the objects of its kind
(`LanguageGraph.assets` / `.associations` / `.attack_steps`); `-1`: not in that list -/
def idxJ (l : List Nat) (r : Nat) : Json := match l.idxOf? r with | some i => jN i | none => jI (-1)

/-- a `DependencyChain` object, attribute by attribute: `[type, next_link, fieldname, association, left_chain,
right_chain, subtype]` -/
partial def chainJ (s : TH) : PyDepChain → Json
  | .mk t n f a l r st =>
    let o (x : Option PyDepChain) : Json := match x with | some c => chainJ s c | none => Json.null
    Json.arr #[jS t, o n, jS f, (match a with | some c => idxJ s.g.associations c | none => Json.null), o l, o r,
               (match st with | some x => idxJ s.g.assets x | none => Json.null)]

/-- the heap `_generate_graph` leaves, read off object by object (no abstraction: lists in their order, the
`children` / `parents` dictionaries in insertion order with their lists and dependency chains) -/
def graphJ (s : TH) : Json :=
  let aidx := idxJ s.g.assets
  let cidx := idxJ s.g.associations
  let tidx := idxJ s.attack_steps
  let store := absStore s.spec
  let linkJ (d : List (String × List (GSRef × Option PyDepChain))) : Json :=
    jsonOfList (fun (e : String × List (GSRef × Option PyDepChain)) => Json.arr #[jS e.1,
      jsonOfList (fun (p : GSRef × Option PyDepChain) =>
        Json.arr #[tidx p.1, match p.2 with | some c => chainJ s c | none => Json.null]) e.2]) d
  let fJ (f : PyLGField) : Json :=
    Json.arr #[aidx f.asset, jS f.fieldname, jI f.minimum, (if f.maximum < 0 then Json.null else jI f.maximum)]
  jO [("assets", jsonOfList (fun r =>
          let o := s.g.asset r
          Json.arr #[Drv.jOptS o.name, Drv.jOptB o.is_abstract, jS (s.adesc r), jsonOfList cidx o.associations,
                     jsonOfList tidx (s.asteps r), jsonOfList aidx o.super_assets, jsonOfList aidx o.sub_assets]) s.g.assets),
      ("assocs", jsonOfList (fun c =>
          let o := s.g.assoc c
          Json.arr #[jS o.name, fJ o.left_field, fJ o.right_field, jS (s.cdesc c)]) s.g.associations),
      ("steps", jsonOfList (fun t =>
          let o := s.gstep t
          Json.arr #[jS o.name, jS o.type, aidx o.asset, jS o.ttc, jS o.description,
                     (match o.attributes with
                      | some r => Drv.stepToJson (readStep store (absStep s.spec r))
                      | none => Json.null),
                     linkJ o.children, linkJ o.parents]) s.attack_steps)]

def jExc {α} (f : α → Json) (x : Except PyErr α) : Json :=
  match x with | .ok v => f v | .error e => jO [("error", jS (GenX.pyErrName e))]

def jOptRef (l : List Nat) (x : Option Nat) : Json := match x with | some r => idxJ l r | none => Json.null

/-- `LanguageGraph(spec)` = the GENERATED `lg__generate_graph` on a heap that holds nothing but the loaded specification
(`PreludeWrapper` W3: `newLanguageGraph`; `runBuild` of `Py/AbsLangType`), then the GENERATED lookups of `Py/GenLang` (and the two helpers of
`Py/GenLangType/Typing`) asked of the heap it returned -/
def opGenLangGraph (j : Json) : R Json := do
  let L ← Drv.parseLang (← jget j "lang")
  let recLimit := (← jfieldOpt jnat j "recLimit").getD 1000
  let quads := (← jfieldOpt (jlist (fun e => do
    match (← jarr e) with
    | [a, b, c, d] => pure ((← jstr a), (← jstr b), (← jstr c), (← jstr d))
    | _ => throw "bad quad")) j "lookups").getD []
  let byname := (← jfieldOpt (jlist jstr) j "byname").getD []
  let vars := (← jfieldOpt (jlist (fun e => do
    match (← jarr e) with
    | [a, b] => pure ((← jstr a), (← jstr b))
    | _ => throw "bad variable query")) j "vars").getD []
  let aq := (← jfieldOpt (jlist (fun e => do
    match (← jarr e) with
    | [a, b, c] => pure ((← jnat a), (← jstr b), (← jnat c))
    | _ => throw "bad association query")) j "aq").getD []
  let common := (← jfieldOpt (jlist (fun e => do
    match (← jarr e) with
    | [a, b] => pure ((← jnat a), (← jnat b))
    | _ => throw "bad pair")) j "common").getD []
  let wantQ := (← jfieldOpt jbool j "queries").getD false
  match GenLangType.lg__generate_graph (TH.init (loadPy L) recLimit) with
  | .error e => pure (jO [("error", jS (errName e))])
  | .ok s1 =>
    let s := normT s1
    let g := s.g
    let aidx := idxJ g.assets
    let refs (l : List Nat) : Json := jsonOfList aidx l
    let base : List (String × Json) :=
      [("graph", graphJ s),
       ("specUnchanged", jB ((GenXL.langToJson (absLang s.spec)).compress == (GenXL.langToJson L).compress))]
    if !wantQ then pure (jO base) else
    let aAt (i : Nat) : Nat := g.assets.getD i g.assets.length
    let cAt (i : Nat) : Nat := g.associations.getD i g.associations.length
    pure <| jO (base ++ [
      ("isSub", jsonOfList (fun a => jsonOfList (fun b => jExc jB (GenLang.lgasset_is_subasset_of g a b)) g.assets) g.assets),
      ("isSubNone", jsonOfList (fun a => jExc jB (GenLangType.lgasset_is_subasset_of s a none)) g.assets),
      ("supers", jsonOfList (fun a => jExc refs (GenLang.lgasset_get_all_superassets g a)) g.assets),
      ("subs", jsonOfList (fun a => jExc refs (GenLang.lgasset_get_all_subassets g a)) g.assets),
      ("lookups", jsonOfList (fun (q : String × String × String × String) =>
          jExc (jOptRef g.associations) (GenLang.lg_get_association_by_fields_and_assets g q.1 q.2.1 q.2.2.1 q.2.2.2)) quads),
      ("byname", jsonOfList (fun n => jOptRef g.assets (GenLang.lg_get_asset_by_name g n)) byname),
      ("vars", jsonOfList (fun (q : String × String) =>
          jExc (fun (v : PyVarObj) => match v with
                 | .expr e => jO [("expr", Drv.exprToJson (exprOfPy e))]
                 | .var v => jO [("var", jS v.name)]
                 | .none => Json.null)
            (GenLang.lg__get_variable_for_asset_type_by_name (pyFuelL s.spec) s.spec q.1 q.2)) vars),
      ("aq", jsonOfList (fun (q : Nat × String × Nat) =>
          let c := cAt q.1; let a := aAt q.2.2
          Json.arr #[jB (GenLang.lgassoc_contains_fieldname g c q.2.1),
                     jExc jB (GenLang.lgassoc_contains_asset g c a),
                     jExc jS (GenLang.lgassoc_get_opposite_fieldname g c q.2.1),
                     jExc (jOptRef g.assets) (GenLang.lgassoc_get_opposite_asset g c a)]) aq),
      ("common", jsonOfList (fun (q : Nat × Nat) =>
          jExc (jsonOfList Drv.jOptS) (GenLangType.lgasset_get_all_common_superassets s (aAt q.1) (some (aAt q.2)))) common)])

end GenXG
/-! #### the class factory of `Py/GenClasses` (`gen_classes`): `_create_classes`, `get_association_by_signature` -/
namespace GenXC
open MalVerif.Py MalVerif.Py.Classes
open MalVerif.Py.Visitor (V)

def errName : CErr → String
  | .lookupError => "LookupError"
  | .py .typeError => "TypeError" | .py .keyError => "KeyError" | .py .indexError => "IndexError"
  | .py .attributeError => "AttributeError" | .py .valueError => "ValueError" | .py .unboundLocal => "UnboundLocalError"
  | .py .recursion => "RecursionError" | .py .nonTermination => "<nonTermination>" | .py .unmodelled => "<unmodelled>"
  | .py .compileError => "<compileError>"

/-- a Python value as ORDERED JSON (`Lean.Json` objects do not keep the insertion order): `None` / `bool` / `int` / `str` as
themselves, a float as `{"f": repr}`, a list as `{"l": [...]}`, a tuple as `{"t": [...]}`, a dictionary as
`{"d": [[key, value], ...]}` in insertion order.  `harness/props/c06.py: ordered` renders the real objects the same way. -/
partial def vToOrd : V → Json
  | .none => Json.null
  | .bool b => jB b
  | .int i => jI i
  | .num t => jO [("f", jS t)]
  | .str s => jS s
  | .list l => jO [("l", jsonOfList vToOrd l)]
  | .tuple l => jO [("t", jsonOfList vToOrd l)]
  | .dict d => jO [("d", jsonOfList (fun (e : String × V) => Json.arr #[jS e.1, vToOrd e.2]) d)]
  | .unbound => jO [("x", jS "unbound")]
  | .ctx .. => jO [("x", jS "ctx")]
  | .token .. => jO [("x", jS "token")]

/-- the inverse: the values the harness sends (TTC dictionaries, maxima) -/
partial def vOfOrd (j : Json) : R V :=
  match j with
  | .null => pure .none
  | .bool b => pure (.bool b)
  | .str s => pure (.str s)
  | .num _ => do pure (.int (← jint j))
  | .arr _ => throw "bad ordered value"
  | .obj _ =>
    match j.getObjVal? "f", j.getObjVal? "l", j.getObjVal? "t", j.getObjVal? "d" with
    | .ok f, _, _, _ => do pure (.num (← jstr f))
    | _, .ok l, _, _ => do pure (.list (← jlist vOfOrd l))
    | _, _, .ok t, _ => do pure (.tuple (← jlist vOfOrd t))
    | _, _, _, .ok d => do
      let kvs ← jlist (fun e => do
        match (← jarr e) with
        | [k, v] => pure ((← jstr k), (← vOfOrd v))
        | _ => throw "bad item") d
      pure (.dict kvs)
    | _, _, _, _ => throw "bad ordered value"

/-- what `json.loads` makes of the canonical TTC text of the language payload (keys sorted, as `jtxt` writes them) -/
partial def vOfJson : Json → V
  | .null => .none
  | .bool b => .bool b
  | .str s => .str s
  | .num n => if n.exponent == 0 then .int n.mantissa else .num (toString n)
  | .arr a => .list (a.toList.map vOfJson)
  | .obj o => .dict (o.toList.map (fun e => (e.1, vOfJson e.2)))

/-- the language graph of a language as the ties build it (`lgOfLang` of `Py/AbsClasses.lean`: asset object `i` =
declaration `i`, `attack_steps` = the inherited fold), with two things taken from the language instead of their
abstractions: the TTC of a step is the dictionary of the specification (`lgOfLang`: `{'name': n}` / `None`), and the
association objects are the nodes `_generate_graph` creates (`LG.assocNodes`: per asset, ancestors' declarations first,
duplicates of (name, left, right) skipped) instead of the declarations in declaration order -/
def lgOfLangSpec (L : Lang) (nodes : List AssocDecl) : LG :=
  let base := lgOfLang { L with assocs := nodes }
  -- the asset objects are computed once (`lg.asset` is a function: the generated code reads it at every attribute access)
  let objs : Array LGAsset := (L.assets.mapIdx (fun i a =>
      { base.asset i with attack_steps := (L.foldSteps a.name).map (fun e =>
          { name := e.1, type := e.2.type,
            ttc := (match Json.parse e.2.ttc with | .ok t => vOfJson t | .error _ => V.unbound) }) })).toArray
  { base with asset := fun i => objs.getD i {} }

/-- the language graph as the harness read it off the real `LanguageGraph` object: `assets` (name, indices of the super
assets, `attack_steps` with name / type / ttc) and `associations` (name; per field: index of the asset, field name, maximum) -/
def parseLG (j : Json) : R LG := do
  let step (e : Json) : R LGStep := do
    match (← jarr e) with
    | [n, t, c] => pure { name := ← jstr n, type := ← jstr t, ttc := ← vOfOrd c }
    | _ => throw "bad step"
  let fld (e : Json) : R LGField := do
    match (← jarr e) with
    | [a, f, m] => pure { asset := ← jnat a, fieldname := ← jstr f, maximum := ← vOfOrd m }
    | _ => throw "bad field"
  let assets ← jfield (jlist (fun a => do
    pure ({ name := ← jfield jstr a "name", super_assets := ← jfield (jlist jnat) a "supers",
            attack_steps := ← jfield (jlist step) a "steps" } : LGAsset))) j "assets"
  let assocs ← jfield (jlist (fun a => do
    pure ({ name := ← jfield jstr a "name", left_field := ← jfield fld a "left", right_field := ← jfield fld a "right" } : LGAssoc))) j "assocs"
  let arr := assets.toArray
  pure { asset := fun i => arr.getD i {}, assets := List.range arr.size, associations := assocs }

/-- `python_jsonschema_objects` is a parameter of the translation; here: the library accepts every schema (what it does
with the schema of a language is the assumption of C06 exercised on the real classes) -/
def pjsAccepts : Pjs := { ObjectBuilder := fun s => pure s, build_classes := fun _ _ => pure .none }

/-- `LanguageClassesFactory(lang_graph)` (`__init__`: `self.json_schema = {}; self._create_classes()`) by the GENERATED
`factory_create_classes`; then the GENERATED `get_association_by_signature` for every signature of `sigs`, each with the
class `Py/AbsClasses.lean` reads under the returned name; `inv` = the asset classes with their defenses as
`schemaDefenses` reads them -/
def runFactory (lg : LG) (sigs : List (String × String × String)) : Json :=
  match Gen.factory_create_classes pjsAccepts lg {} with
  | .error e => jO [("error", jS (errName e))]
  | .ok self =>
    let schema := self.json_schema
    let on (o : Option Nat) : Json := match o with | some n => jN n | none => Json.null
    jO [("schema", vToOrd schema),
        ("sigs", jsonOfList (fun (q : String × String × String) =>
          match Gen.factory_get_association_by_signature lg self q.1 q.2.1 q.2.2 with
          | .error e => jO [("error", jS (errName e))]
          | .ok cls => jO [("cls", jS cls),
              ("class", match schemaClassAt schema q.1 cls with
                | some c => Json.arr #[jS c.cls, jS c.lf, jS c.ltype, on c.lmax, jS c.rf, jS c.rtype, on c.rmax]
                | none => Json.null)]) sigs),
        ("assets", jsonOfList (fun n => Json.arr #[jS n,
            jsonOfList (fun (d : String × String) => Json.arr #[jS d.1, jS d.2]) ((schemaDefenses schema n).getD [])])
          (schemaAssetNames schema))]

def opGenClasses (j : Json) : R Json := do
  let sigs := (← jfieldOpt (jlist (fun e => do
    match (← jarr e) with
    | [n, l, r] => pure ((← jstr n), (← jstr l), (← jstr r))
    | _ => throw "bad signature")) j "sigs").getD []
  let mut out : List (String × Json) := []
  match j.getObjVal? "lang" with
  | .ok lj =>
    let L ← Drv.parseLang lj
    match LG.assocNodes L with
    | .error e => out := out ++ [("fromLang", jO [("langError", jS (Drv.lgErrName e))])]
    | .ok nodes => out := out ++ [("fromLang", runFactory (lgOfLangSpec L nodes) sigs)]
  | .error _ => pure ()
  match j.getObjVal? "lg" with
  | .ok gj => out := out ++ [("fromLG", runFactory (← parseLG gj) sigs)]
  | .error _ => pure ()
  pure (jO out)

end GenXC

def dispatch (j : Json) : R Json := do
  let op ← jfield jstr j "op"
  match op with
  | "apriori" => opApriori j
  | "ag_hist" => opAgHist j
  | "resolve" => opResolve j
  | "gen" => opGen j
  | "eval" => opEval j
  | "model_hist" => opModelHist j
  | "classes" => opClasses j
  | "compile" => opCompile j
  | "langgraph" => opLangGraph j
  | "legacy" => opLegacy j
  | "neo4j_model" => opNeo4jModel j
  | "neo4j_graph" => opNeo4jGraph j
  | "lex" => opLex j
  | "ser_model" => opSerModel j
  | "load_doc" => opLoadDoc j
  | "tree" => opTree j
  | "visit" => opVisit j
  | "gen_ag_hist" => GenX.opGenAgHist j
  | "gen_apriori" => GenX.opGenApriori j
  | "gen_model_hist" => GenXM.opGenModelHist j
  | "gen_resolve" => GenXL.opGenResolve j
  | "gen_generate" => GenXW.opGenGenerate j
  | "gen_legacy" => GenXLeg.opGenLegacy j
  | "gen_neo4j_model" => GenXNeo.opGenNeo4jModel j
  | "gen_neo4j_graph" => GenXNeo.opGenNeo4jGraph j
  | "gen_ag_todict" => GenXS.opGenAgTodict j
  | "gen_ag_fromdict" => GenXS.opGenAgFromdict j
  | "gen_ser_model" => GenXS.M.opGenSerModel j
  | "gen_load_doc" => GenXS.M.opGenLoadDoc j
  | "gen_langgraph" => GenXG.opGenLangGraph j
  | "gen_classes" => GenXC.opGenClasses j
  | _ => throw "bad-op"

def handle (line : String) : String :=
  match Json.parse line with
  | .error e => (jO [("error", jS s!"parse: {e}")]).compress
  | .ok j =>
    let c := jgetD j "case" Json.null
    match dispatch j with
    | .ok r => (jO [("case", c), ("model", r)]).compress
    | .error e => (jO [("case", c), ("error", jS e)]).compress

end Drv

partial def mainLoop (h : IO.FS.Stream) (out : IO.FS.Stream) : IO Unit := do
  let line ← h.getLine
  if line.isEmpty then return ()
  if line.trimAscii.isEmpty then mainLoop h out else
  out.putStrLn (Drv.handle line)
  mainLoop h out

def main : IO Unit := do
  let i ← IO.getStdin
  let o ← IO.getStdout
  mainLoop i o
  o.flush
