import MalVerif.Model.JsonUtil
import MalVerif.Model.AGraph
import MalVerif.Model.AGS
import MalVerif.Model.Query
import MalVerif.Model.Gen
import MalVerif.Model.MState
import MalVerif.Model.Serial
import MalVerif.Model.AGSerial
import MalVerif.Model.Compiler.Parser
import MalVerif.Model.LangGraph
import MalVerif.Model.Legacy
import MalVerif.Model.Neo4j
import MalVerif.Py.AbsVisitor
open Lean MalVerif

namespace Drv

def parseNType (s : String) : R AGraph.NType :=
  match s with
  | "or" => pure .or | "and" => pure .and | "defense" => pure .defense
  | "exist" => pure .exist | "notExist" => pure .notExist
  | _ => throw s!"bad node type {s}"

def parseANode (j : Json) : R AGraph.ANode := do
  pure { type := ← parseNType (← jfield jstr j "type"),
         children := ← jfield (jlist jnat) j "children",
         parents := ← jfield (jlist jnat) j "parents",
         defOne := ← jfield jbool j "defOne",
         defZero := ← jfield jbool j "defZero",
         exist := ← jfield jbool j "exist",
         ttcSet := ← jfield jbool j "ttcSet",
         ttcName := ← jfieldOpt jstr j "ttcName" }

def opApriori (j : Json) : R Json := do
  let g ← jfield (jlist parseANode) j "nodes"
  let order ← jfield (jlist jnat) j "order"
  -- labels the nodes carry when the analysis is called (absent: a freshly generated graph)
  let v0 := (← jfieldOpt (jlist jbool) j "viable0").getD []
  let n0 := (← jfieldOpt (jlist jbool) j "necessary0").getD []
  let v := AGraph.calcViabFrom g order (AGraph.labOfList v0)
  let n := AGraph.calcNecFrom g order (AGraph.labOfList n0)
  let idx := List.range g.length
  pure <| jO [("viable", jsonOfList jB (idx.map v)), ("necessary", jsonOfList jB (idx.map n))]


def ntypeName : AGraph.NType → String
  | .or => "or" | .and => "and" | .defense => "defense" | .exist => "exist" | .notExist => "notExist"
def jOptS' (o : Option String) : Json := match o with | some s => jS s | none => Json.null
def jOptB' (o : Option Bool) : Json := match o with | some s => jB s | none => Json.null

/-! ### attack-graph histories (C09, C11, C12, C13) -/
open AGS in
def obsSt (s : St) : Json :=
  let nid (r : Nat) : Json := jI (s.nobj r).id
  let aid (a : Nat) : Json := jI (s.aobj a).id
  jO [("nodes", jsonOfList (fun r =>
          let o := s.nobj r
          Json.arr #[jI o.id, jS (fullName o), jsonOfList nid o.children, jsonOfList nid o.parents,
                     jsonOfList aid o.compBy, jB o.viable, jB o.necessary,
                     Json.arr #[jS o.name, jS (ntypeName o.type),
                                jS o.ttc, jOptS' o.defense, jOptB' o.exist, jOptS' o.mitre, jsonOfList jS o.tags, jS o.extras,
                                jOptS' o.asset]]) s.nodes),
      ("attackers", jsonOfList (fun a =>
          let o := s.aobj a
          Json.arr #[jI o.id, jS o.name, jsonOfList nid o.entry, jsonOfList nid o.reached]) s.attackers),
      ("idIdx", jsonOfList (fun (e : Int × Nat) => Json.arr #[jI e.1, nid e.2]) s.idIdx),
      ("nameIdx", jsonOfList (fun (e : String × Nat) => Json.arr #[jS e.1, nid e.2]) s.nameIdx),
      ("attIdx", jsonOfList (fun (e : Int × Nat) => Json.arr #[jI e.1, aid e.2]) s.attIdx),
      ("next", Json.arr #[jI s.nextNode, jI s.nextAtt])]

def errName : AGS.Err → String
  | .valueError => "ValueError" | .attackGraphException => "AttackGraphException" | .lookupError => "LookupError"

open AGS in
def agStep (s : St) (j : Json) : R (St × Json × Json) := do
  let k ← jfield jstr j "k"
  let ok (s' : St) (out : Json := Json.null) : R (St × Json × Json) := pure (s', Json.null, out)
  let refs (l : List Nat) : Json := jsonOfList (fun r => jI (s.nobj r).id) l
  match k with
  | "add_node" =>
    let o : NodeObj := { name := ← jfield jstr j "name", asset := ← jfieldOpt jstr j "asset",
                         type := ← parseNType (← jfield jstr j "type"),
                         viable := ← jfield jbool j "viable", necessary := ← jfield jbool j "necessary",
                         defOne := ← jfield jbool j "defOne", suppress := ← jfield jbool j "suppress",
                         ttc := (← jfieldOpt jstr j "ttc").getD "null", defense := ← jfieldOpt jstr j "defense",
                         exist := ← jfieldOpt jbool j "exist", mitre := ← jfieldOpt jstr j "mitre",
                         tags := (← jfieldOpt (jlist jstr) j "tags").getD [], extras := (← jfieldOpt jstr j "extras").getD "{}" }
    match addNode s o (← jfieldOpt jint j "id") with
    | .ok s' => ok s'
    | .error e => pure (s, jS (errName e), Json.null)
  | "link" =>
    let p ← jfield jnat j "p"; let c ← jfield jnat j "c"
    ok (updN (updN s p (fun o => { o with children := o.children ++ [c] })) c (fun o => { o with parents := o.parents ++ [p] }))
  | "remove_node" => ok (removeNode s (← jfield jnat j "n"))
  | "add_attacker" =>
    match addAttacker s (← jfield jstr j "name") (← jfieldOpt jint j "id") (← jfield (jlist jint) j "entry")
            (← jfield (jlist jint) j "reached") with
    | .ok s' => ok s'
    | .error e => pure (s, jS (errName e), Json.null)
  | "add_node_again" =>
    -- `add_node` called with a node object that exists already (handle `n`)
    match addNodeObj s (← jfield jnat j "n") (← jfieldOpt jint j "id") with
    | .ok s' => ok s'
    | .error e => pure (s, jS (errName e), Json.null)
  | "add_attacker_again" =>
    match addAttackerObj s (← jfield jnat j "a") (← jfieldOpt jint j "id") (← jfield (jlist jint) j "entry")
            (← jfield (jlist jint) j "reached") with
    | .ok s' => ok s'
    | .error e => pure (s, jS (errName e), Json.null)
  | "remove_attacker" => ok (removeAttacker s (← jfield jnat j "a"))
  | "compromise" => ok (compromise s (← jfield jnat j "a") (← jfield jnat j "n"))
  | "undo" => ok (undo s (← jfield jnat j "a") (← jfield jnat j "n"))
  | "attach" =>
    let atts ← jfield (jlist (fun e => do
      let l ← jarr e
      match l with
      | [nm, eps] => pure ((← jstr nm), (← jlist jstr eps))
      | _ => throw "bad attach entry")) j "atts"
    match attach s atts with
    | .ok s' => ok s'
    | .error e => pure (s, jS (errName e), Json.null)
  | "set_labels" =>
    let labs ← jfield (jlist (fun e => do
      let l ← jarr e
      match l with
      | [r, v, n] => pure ((← jnat r), (← jbool v), (← jbool n))
      | _ => throw "bad label entry")) j "labels"
    ok (setLabels s labs)
  | "prune" => ok (prune s)
  | "touch" =>
    let n ← jfield jnat j "n"
    match (← jfield jstr j "field") with
    | "tags" => ok (updN s n (fun o => { o with tags := o.tags ++ ["touched"] }))
    | "extras" => let t ← jfield jstr j "new"; ok (updN s n (fun o => { o with extras := t }))
    | "ttc" => let t ← jfield jstr j "new"; ok (updN s n (fun o => { o with ttc := t }))
    | f => throw s!"bad touch field {f}"
  | "trav" => ok s (jB (trav s (← jfield jnat j "a") (← jfield jnat j "n")))
  | "surface" => ok s (refs (surface s (← jfield jnat j "a")))
  | "update_surface" =>
    ok s (refs (updateSurface s (← jfield jnat j "a") (← jfield (jlist jnat) j "cur") (← jfield (jlist jnat) j "nodes")))
  | "defense_surface" => ok s (refs (defenseSurface s))
  | "enabled_defenses" => ok s (refs (enabledDefenses s))
  | "lookup" =>
    let ids ← jfield (jlist jint) j "ids"
    let names ← jfield (jlist jstr) j "names"
    let aids ← jfield (jlist jint) j "aids"
    let f (o : Option Nat) : Json := match o with | some r => jI (s.nobj r).id | none => Json.null
    let fa (o : Option Nat) : Json := match o with | some r => jI (s.aobj r).id | none => Json.null
    ok s (jO [("ids", jsonOfList (fun i => f (getNodeById s i)) ids),
              ("names", jsonOfList (fun n => f (getNodeByName s n)) names),
              ("aids", jsonOfList (fun i => fa (getAttackerById s i)) aids)])
  | _ => throw s!"bad ag op {k}"

def opAgHist (j : Json) : R Json := do
  let ops ← jfield jarr j "ops"
  let mut s : AGS.St := {}
  let mut other : Option AGS.St := none      -- the other side of a deep copy
  let mut outs : Array Json := #[]
  for o in ops do
    let k ← jfield jstr o "k"
    let mut err := Json.null
    let mut out := Json.null
    if k == "save_load" then
      let d := AGS.toDoc s
      let d' := if (← jfield jstr o "fmt") == "json" then AGS.jsonRT d else AGS.yamlRT d
      let withModel ← jfield jbool o "withModel"
      match AGS.fromDoc withModel (fun _ => true) d' with
      | .ok s' => s := s'
      | .error e => err := jS (errName e)
    else if k == "deepcopy" then
      other := some s
      s := AGS.deepcopy s
    else if k == "switch" then
      match other with
      | some t =>
        let cur := s
        s := AGS.viewIn t cur
        other := some cur
      | none => throw "switch without deepcopy"
    else
      let (s', e, ou) ← agStep s o
      s := s'; err := e; out := ou
    let oo : Json := match other with | some t => obsSt (AGS.viewIn t s) | none => Json.null
    outs := outs.push (jO [("err", err), ("out", out), ("obs", obsSt s), ("other", oo)])
  pure (Json.arr outs)


/-! ### languages, instance models, generation (C01, C02, C03, C15, C16) -/

partial def parseExpr (j : Json) : R Expr := do
  let t ← jfield jstr j "type"
  match t with
  | "attackStep" => pure (.step (← jfield jstr j "name"))
  | "field" => pure (.field (← jfield jstr j "name"))
  | "variable" => pure (.var (← jfield jstr j "name"))
  | "collect" => pure (.collect (← parseExpr (← jget j "lhs")) (← parseExpr (← jget j "rhs")))
  | "union" => pure (.union (← parseExpr (← jget j "lhs")) (← parseExpr (← jget j "rhs")))
  | "intersection" => pure (.inter (← parseExpr (← jget j "lhs")) (← parseExpr (← jget j "rhs")))
  | "difference" => pure (.diff (← parseExpr (← jget j "lhs")) (← parseExpr (← jget j "rhs")))
  | "transitive" => pure (.trans (← parseExpr (← jget j "stepExpression")))
  | "subType" => pure (.sub (← jfield jstr j "subType") (← parseExpr (← jget j "stepExpression")))
  | _ => throw s!"bad expr type {t}"

def exprToJson : Expr → Json
  | .step n => jO [("type", jS "attackStep"), ("name", jS n)]
  | .field n => jO [("type", jS "field"), ("name", jS n)]
  | .var n => jO [("type", jS "variable"), ("name", jS n)]
  | .collect l r => jO [("type", jS "collect"), ("lhs", exprToJson l), ("rhs", exprToJson r)]
  | .union l r => jO [("type", jS "union"), ("lhs", exprToJson l), ("rhs", exprToJson r)]
  | .inter l r => jO [("type", jS "intersection"), ("lhs", exprToJson l), ("rhs", exprToJson r)]
  | .diff l r => jO [("type", jS "difference"), ("lhs", exprToJson l), ("rhs", exprToJson r)]
  | .trans e => jO [("type", jS "transitive"), ("stepExpression", exprToJson e)]
  | .sub t e => jO [("type", jS "subType"), ("subType", jS t), ("stepExpression", exprToJson e)]

def parseReaches (j : Json) : R Reaches := do
  pure { overrides := ← jfield jbool j "overrides", exprs := ← jfield (jlist parseExpr) j "exprs" }

def parseStep (j : Json) : R StepDecl := do
  pure { name := ← jfield jstr j "name", type := ← jfield jstr j "type", tags := ← jfield (jlist jstr) j "tags",
         ttc := ← jfield jstr j "ttc", ttcName := ← jfieldOpt jstr j "ttcName", metaTxt := ← jfield jstr j "meta",
         mitre := ← jfieldOpt jstr j "mitre", risk := ← jfield jstr j "risk",
         requires := ← jfieldOpt (jlist parseExpr) j "requires", reaches := ← jfieldOpt parseReaches j "reaches" }

def parseVar (j : Json) : R (String × Expr) := do
  match (← jarr j) with
  | [n, e] => pure ((← jstr n), (← parseExpr e))
  | _ => throw "bad variable"

def parseAsset (j : Json) : R AssetDecl := do
  pure { name := ← jfield jstr j "name", superAsset := ← jfieldOpt jstr j "superAsset",
         isAbstract := ← jfield jbool j "isAbstract", variables := ← jfield (jlist parseVar) j "variables",
         steps := ← jfield (jlist parseStep) j "steps", metaTxt := ← jfield jstr j "meta",
         category := ← jfield jstr j "category" }

def parseAssoc (j : Json) : R AssocDecl := do
  pure { name := ← jfield jstr j "name", leftAsset := ← jfield jstr j "leftAsset", leftField := ← jfield jstr j "leftField",
         leftMin := ← jfield jnat j "leftMin", leftMax := ← jfieldOpt jnat j "leftMax",
         rightAsset := ← jfield jstr j "rightAsset", rightField := ← jfield jstr j "rightField",
         rightMin := ← jfield jnat j "rightMin", rightMax := ← jfieldOpt jnat j "rightMax", metaTxt := ← jfield jstr j "meta" }

def parseLang (j : Json) : R Lang := do
  pure { assets := ← jfield (jlist parseAsset) j "assets", assocs := ← jfield (jlist parseAssoc) j "assocs" }

def parseIAsset (j : Json) : R IAsset := do
  let defs ← jfield (jlist (fun e => do
    match (← jarr e) with
    | [k, v] => pure ((← jstr k), (← jstr v))
    | _ => throw "bad defense")) j "defenses"
  pure { id := ← jfield jint j "id", name := ← jfield jstr j "name", type := ← jfield jstr j "type", defenses := defs }

def parseILink (j : Json) : R ILink := do
  pure { cls := ← jfield jstr j "cls", lf := ← jfield jstr j "lf", rf := ← jfield jstr j "rf",
         left := ← jfield (jlist jint) j "left", right := ← jfield (jlist jint) j "right" }

def parseInst (j : Json) : R Inst := do
  pure { assets := ← jfield (jlist parseIAsset) j "assets", links := ← jfield (jlist parseILink) j "links" }

def evalErrName : EvalErr → String
  | .recursion => "Recursion" | .noVariable => "LanguageGraphException" | .mixedVariable => "MixedVariable"
  | .lookup => "LookupError" | .noTarget => "AttackGraphStepExpressionError"

def jOptS (o : Option String) : Json := match o with | some s => jS s | none => Json.null
def jOptB (o : Option Bool) : Json := match o with | some s => jB s | none => Json.null

def stepToJson (d : StepDecl) : Json :=
  jO [("name", jS d.name), ("type", jS d.type), ("tags", jsonOfList jS d.tags), ("ttc", jS d.ttc),
      ("meta", jS d.metaTxt), ("risk", jS d.risk),
      ("requires", match d.requires with | some l => jsonOfList exprToJson l | none => Json.null),
      ("reaches", match d.reaches with
        | some r => jO [("overrides", jB r.overrides), ("exprs", jsonOfList exprToJson r.exprs)]
        | none => Json.null)]

/-- C03: the steps every asset type exposes -/
def opResolve (j : Json) : R Json := do
  let L ← parseLang (← jget j "lang")
  let types ← jfield (jlist jstr) j "types"
  pure <| jsonOfList (fun t => jsonOfList (fun (e : String × StepDecl) =>
      Json.arr #[jS e.1, stepToJson e.2]) (L.foldSteps t)) types

/-- C01 / C02 / C16: generate the attack graph -/
def opGen (j : Json) : R Json := do
  let L ← parseLang (← jget j "lang")
  let m ← parseInst (← jget j "inst")
  match genGraph L m with
  | .error e => pure (jO [("error", jS (evalErrName e))])
  | .ok (ns, es) =>
    pure <| jO [("nodes", jsonOfList (fun (n : GNode) => jO [("id", jN n.id), ("full_name", jS n.fullName),
                  ("asset", jS n.assetName), ("name", jS n.step), ("type", jS n.type), ("ttc", jS n.ttc),
                  ("tags", jsonOfList jS n.tags), ("mitre", jOptS n.mitre), ("defense", jOptS n.defense),
                  ("exist", jOptB n.exist)]) ns),
                ("edges", jsonOfList (fun (e : Nat × Nat) => Json.arr #[jN e.1, jN e.2]) es)]

/-- C01 localisation: evaluate one expression from a set of source assets -/
def opEval (j : Json) : R Json := do
  let L ← parseLang (← jget j "lang")
  let m ← parseInst (← jget j "inst")
  let e ← parseExpr (← jget j "expr")
  let xs ← jfield (jlist jint) j "sources"
  match eval L m e xs with
  | .error er => pure (jO [("error", jS (evalErrName er))])
  | .ok r => pure (jO [("targets", jsonOfList jI r.1), ("step", jOptS r.2)])


/-! ### instance-model histories (C05, C06, C07) -/
open MS in
def obsM (L : Lang) (s : St) : Json :=
  let aid (a : Nat) : Json := jI (s.aobj a).id
  let lpos (l : Nat) : Json := match s.associations.idxOf? l with | some i => jN i | none => jI (-1)
  jO [("assets", jsonOfList (fun a =>
          let o := s.aobj a
          let dflt := defensesOf L o.type
          let nd := o.defenses.filter (fun d => !(dflt.any (fun e => e.1 = d.1 && e.2 = d.2)))
          Json.arr #[jI o.id, jS o.name, jS o.type,
                     jsonOfList (fun (d : String × String) => Json.arr #[jS d.1, jS d.2]) nd,
                     jS o.extras, jsonOfList lpos o.assocs]) s.assets),
      ("associations", jsonOfList (fun l =>
          let o := s.lobj l
          Json.arr #[jS o.cls, jS o.lf, jsonOfList aid o.left, jS o.rf, jsonOfList aid o.right, jS o.extras]) s.associations),
      ("attackers", jsonOfList (fun t =>
          let o := s.tobj t
          Json.arr #[jI o.id, jS o.name, jsonOfList (fun (ep : Nat × List String) =>
              Json.arr #[aid ep.1, jsonOfList jS ep.2]) o.entry]) s.attackers),
      ("assetIds", jsonOfList jI s.assetIds), ("assetNames", jsonOfList jS s.assetNames),
      ("tta", jsonOfList (fun (e : String × List Nat) => Json.arr #[jS e.1, jsonOfList lpos e.2]) s.typeToAssoc),
      ("nextId", jI s.nextId)]

def mErrName : MS.Err → String
  | .valueError => "ValueError" | .lookupError => "LookupError" | .duplicateAssociation => "DuplicateModelAssociationError"
  | .modelAssociation => "ModelAssociationException" | .validation => "ValidationError"

open MS in
def mStep (L : Lang) (s : St) (j : Json) : R (St × Json × Json) := do
  let k ← jfield jstr j "k"
  let ok (s' : St) (out : Json := Json.null) : R (St × Json × Json) := pure (s', Json.null, out)
  let res (r : Except Err St) : R (St × Json × Json) :=
    match r with | .ok s' => pure (s', Json.null, Json.null) | .error e => pure (s, jS (mErrName e), Json.null)
  match k with
  | "add_asset" =>
    let defs ← jfield (jlist (fun e => do
      match (← jarr e) with
      | [a, b] => pure ((← jstr a), (← jstr b))
      | _ => throw "bad defense")) j "defenses"
    res (addAsset L s (← jfield jstr j "type") (← jfieldOpt jstr j "name") defs (← jfield jbool j "defsOk")
          (← jfield jstr j "extras") (← jfieldOpt jint j "id") (← jfield jbool j "allowDup"))
  | "remove_asset" => res (removeAsset s (← jfield jnat j "a"))
  | "remove_asset_from_association" => res (removeAssetFromAssociation s (← jfield jnat j "a") (← jfield jnat j "l"))
  | "add_association" => res (addAssociation L s (← jfield jstr j "cls") (← jfield (jlist jnat) j "left") (← jfield (jlist jnat) j "right"))
  | "remove_association" => res (removeAssociation s (← jfield jnat j "l"))
  | "set_assoc_extras" =>
    let l ← jfield jnat j "l"
    let ex ← jfield jstr j "extras"
    ok (updL s l (fun o => { o with extras := ex }))
  | "add_attacker" => ok (addAttacker s (← jfieldOpt jstr j "name") (← jfieldOpt jint j "id"))
  | "remove_attacker" => res (removeAttacker s (← jfield jnat j "t"))
  | "add_entry_point" => ok (addEntryPoint s (← jfield jnat j "t") (← jfield jnat j "a") (← jfield jstr j "step"))
  | "remove_entry_point" => ok (removeEntryPoint s (← jfield jnat j "t") (← jfield jnat j "a") (← jfield jstr j "step"))
  | "lookup" =>
    let ids ← jfield (jlist jint) j "ids"
    let names ← jfield (jlist jstr) j "names"
    let nb ← jfield (jlist (fun e => do
      match (← jarr e) with
      | [a, f] => pure ((← jnat a), (← jstr f))
      | _ => throw "bad nb")) j "nbrs"
    let f (o : Option Nat) : Json := match o with | some r => jI (s.aobj r).id | none => Json.null
    let ft (o : Option Nat) : Json := match o with | some r => jI (s.tobj r).id | none => Json.null
    ok s (jO [("ids", jsonOfList (fun i => f (getAssetById s i)) ids),
              ("names", jsonOfList (fun n => f (getAssetByName s n)) names),
              ("aids", jsonOfList (fun i => ft (getAttackerById s i)) ids),
              ("nbrs", jsonOfList (fun (e : Nat × String) => jsonOfList (fun r => jI (s.aobj r).id) (neighbours s e.1 e.2)) nb)])
  | _ => throw s!"bad model op {k}"

def opModelHist (j : Json) : R Json := do
  let L ← parseLang (← jget j "lang")
  let ops ← jfield jarr j "ops"
  let mut s : MS.St := {}
  let mut outs : Array Json := #[]
  for o in ops do
    let (s', err, out) ← mStep L s o
    s := s'
    outs := outs.push (jO [("err", err), ("out", out), ("obs", obsM L s)])
  pure (Json.arr outs)


/-! ### saving / loading instance models (C07) -/
open Ser in
def keyToJson : Key → Json
  | .i n => jI n | .s t => jS t
open Ser in
def parseKey (j : Json) : R Key :=
  match j with
  | .str t => pure (.s t)
  | _ => do pure (.i (← jint j))

open Ser in
def docToJson (d : ModelDoc) : Json :=
  let pair (a : String × String) : Json := Json.arr #[jS a.1, jS a.2]
  jO [("assets", jsonOfList (fun (e : Key × AssetEntry) => Json.arr #[keyToJson e.1,
          match e.2 with
          | .full n t ds ex => jO [("name", jS n), ("type", jS t), ("defenses", jsonOfList pair ds), ("extras", jOptS ex)]
          | .shorthand t => jS t]) d.assets),
      ("associations", jsonOfList (fun (a : AssocEntry) => jO [("cls", jS a.cls), ("lf", jS a.lf),
          ("left", jsonOfList keyToJson a.left), ("rf", jS a.rf), ("right", jsonOfList keyToJson a.right),
          ("extras", jOptS a.extras)]) d.associations),
      ("attackers", jsonOfList (fun (e : Key × AttackerEntry) => Json.arr #[keyToJson e.1,
          jO [("name", jS e.2.name), ("entry", jsonOfList (fun (p : Key × List String) =>
              Json.arr #[keyToJson p.1, jsonOfList jS p.2]) e.2.entry)]]) d.attackers)]

open Ser in
def parseDoc (j : Json) : R ModelDoc := do
  let assets ← jfield (jlist (fun e => do
    match (← jarr e) with
    | [k, v] =>
      let key ← parseKey k
      match v with
      | .str t => pure (key, AssetEntry.shorthand t)
      | _ =>
        let ds ← jfield (jlist (fun d => do
          match (← jarr d) with
          | [a, b] => pure ((← jstr a), (← jstr b))
          | _ => throw "bad defense")) v "defenses"
        pure (key, AssetEntry.full (← jfield jstr v "name") (← jfield jstr v "type") ds (← jfieldOpt jstr v "extras"))
    | _ => throw "bad asset entry")) j "assets"
  let assocs ← jfield (jlist (fun a => do
    pure ({ cls := ← jfield jstr a "cls", lf := ← jfield jstr a "lf", left := ← jfield (jlist parseKey) a "left",
            rf := ← jfield jstr a "rf", right := ← jfield (jlist parseKey) a "right",
            extras := ← jfieldOpt jstr a "extras" } : AssocEntry))) j "associations"
  let atts ← jfield (jlist (fun e => do
    match (← jarr e) with
    | [k, v] =>
      let entry ← jfield (jlist (fun p => do
        match (← jarr p) with
        | [a, st] => pure ((← parseKey a), (← jlist jstr st))
        | _ => throw "bad entry point")) v "entry"
      pure ((← parseKey k), ({ name := ← jfield jstr v "name", entry := entry } : AttackerEntry))
    | _ => throw "bad attacker entry")) j "attackers"
  pure { assets := assets, associations := assocs, attackers := atts }

def runModelOps (L : Lang) (ops : List Json) : R MS.St := do
  let mut s : MS.St := {}
  for o in ops do
    let (s', _, _) ← mStep L s o
    s := s'
  pure s

/-- build a model by a history, save it, pass it through the file layer, load it, save again -/
def opSerModel (j : Json) : R Json := do
  let L ← parseLang (← jget j "lang")
  let ops ← jfield jarr j "ops"
  let fmt ← jfield jstr j "fmt"
  let s ← runModelOps L ops
  let d := Ser.toDoc L s
  let d' := if fmt = "json" then Ser.jsonRT d else Ser.yamlRT d
  match Ser.fromDoc L (fun _ => true) d' with
  | .error e => pure (jO [("doc", docToJson d), ("error", jS (mErrName e)), ("orig", obsM L s)])
  | .ok s' => pure (jO [("doc", docToJson d), ("orig", obsM L s), ("loaded", obsM L s'), ("resaved", docToJson (Ser.toDoc L s'))])

/-- load a hand-written document -/
def opLoadDoc (j : Json) : R Json := do
  let L ← parseLang (← jget j "lang")
  let d ← parseDoc (← jget j "doc")
  let bad ← jfield (jlist parseKey) j "badDefenses"
  match Ser.fromDoc L (fun k => !bad.contains k) d with
  | .error e => pure (jO [("error", jS (mErrName e))])
  | .ok s => pure (jO [("loaded", obsM L s), ("resaved", docToJson (Ser.toDoc L s))])


/-- C06: the generated classes -/
def opClasses (j : Json) : R Json := do
  let L ← parseLang (← jget j "lang")
  let on (o : Option Nat) : Json := match o with | some n => jN n | none => Json.null
  pure <| jO [("assets", jsonOfList (fun (a : AssetDecl) => Json.arr #[jS a.name,
                 jsonOfList (fun (d : String × String) => Json.arr #[jS d.1, jS d.2]) (MS.defensesOf L a.name)]) L.assets),
              ("assocs", jsonOfList (fun (c : MS.AssocClass) => Json.arr #[jS c.cls, jS c.lf, jS c.ltype, on c.lmax,
                 jS c.rf, jS c.rtype, on c.rmax]) (MS.assocClasses L))]


/-! ### the MAL compiler (C04, C17) -/
open Mal in
def ttcToJson : TTC → Json
  | .func n args => jO [("type", jS "function"), ("name", jS n), ("arguments", jsonOfList jS args)]
  | .num v => jO [("type", jS "number"), ("value", jS v)]
  | .bin op l r => jO [("type", jS op), ("lhs", ttcToJson l), ("rhs", ttcToJson r)]

open Mal in
def cspecToJson (s : CSpec) : Json :=
  let metaJ (m : Meta) : Json := jO (m.map (fun e => (e.1, jS e.2)))
  let on (o : Option Nat) : Json := match o with | some n => jN n | none => Json.null
  jO [("formatVersion", jS "1.0.0"),
      ("defines", jO (s.defines.map (fun e => (e.1, jS e.2)))),
      ("categories", jsonOfList (fun (c : String × Meta) => jO [("name", jS c.1), ("meta", metaJ c.2)]) s.categories),
      ("assets", jsonOfList (fun (a : CAsset) => jO [("name", jS a.name), ("meta", metaJ a.metaD), ("category", jS a.category),
          ("isAbstract", jB a.isAbstract), ("superAsset", jOptS a.superAsset),
          ("variables", jsonOfList (fun (v : String × Expr) => jO [("name", jS v.1), ("stepExpression", exprToJson v.2)]) a.variables),
          ("attackSteps", jsonOfList (fun (st : CStep) => jO [("name", jS st.name), ("meta", metaJ st.metaD), ("type", jS st.type),
              ("tags", jsonOfList jS st.tags),
              ("risk", match st.risk with
                | some (c, i, a) => jO [("isConfidentiality", jB c), ("isIntegrity", jB i), ("isAvailability", jB a)]
                | none => Json.null),
              ("ttc", match st.ttc with | some t => ttcToJson t | none => Json.null),
              ("requires", match st.requires with
                | some l => jO [("overrides", jB true), ("stepExpressions", jsonOfList exprToJson l)] | none => Json.null),
              ("reaches", match st.reaches with
                | some (o, l) => jO [("overrides", jB o), ("stepExpressions", jsonOfList exprToJson l)] | none => Json.null)]) a.steps)]) s.assets),
      ("associations", jsonOfList (fun (a : CAssoc) => jO [("name", jS a.name), ("meta", metaJ a.metaD),
          ("leftAsset", jS a.leftAsset), ("leftField", jS a.leftField),
          ("leftMultiplicity", jO [("min", jN a.leftMin), ("max", on a.leftMax)]),
          ("rightAsset", jS a.rightAsset), ("rightField", jS a.rightField),
          ("rightMultiplicity", jO [("min", jN a.rightMin), ("max", on a.rightMax)])]) s.associations)]

def tokName (t : Mal.Tok) : String :=
  match t with
  | .str r => "STRING:" ++ r | .int s => "INT:" ++ s | .float s => "FLOAT:" ++ s | .id s => "ID:" ++ s
  | .kwAbstract => "ABSTRACT" | .kwAsset => "ASSET" | .kwAssociations => "ASSOCIATIONS" | .kwExtends => "EXTENDS"
  | .kwInclude => "INCLUDE" | .kwCategory => "CATEGORY" | .kwInfo => "INFO" | .kwLet => "LET"
  | .exists_ => "EXISTS" | .c => "C" | .i => "I" | .a => "A"
  | .lparen => "LPAREN" | .rparen => "RPAREN" | .lcurly => "LCURLY" | .rcurly => "RCURLY" | .hash => "HASH"
  | .colon => "COLON" | .larrow => "LARROW" | .rarrow => "RARROW" | .lsquare => "LSQUARE" | .rsquare => "RSQUARE"
  | .star => "STAR" | .assign => "ASSIGN" | .minus => "MINUS" | .intersect => "INTERSECT" | .union => "UNION"
  | .range => "RANGE" | .dot => "DOT" | .and_ => "AND" | .or_ => "OR" | .notExists => "NOTEXISTS" | .at => "AT"
  | .requires => "REQUIRES" | .inherits => "INHERITS" | .leadsto => "LEADSTO" | .comma => "COMMA" | .plus => "PLUS"
  | .divide => "DIVIDE" | .power => "POWER"

/-- compile a set of files: `files` = [[name, text] …], `root` = the file to start from -/
def opCompile (j : Json) : R Json := do
  let files ← jfield (jlist (fun e => do
    match (← jarr e) with
    | [n, t] => pure ((← jstr n), (← jstr t))
    | _ => throw "bad file")) j "files"
  let root ← jfield jstr j "root"
  let look (n : String) : Option String := (files.find? (·.1 = n)).map (·.2)
  match Mal.compileFile look 16 root with
  | some s => pure (jO [("spec", cspecToJson s)])
  | none => pure (jO [("error", jS "syntax")])

def opLex (j : Json) : R Json := do
  let src ← jfield jstr j "src"
  match Mal.lex src with
  | some ts => pure (jO [("tokens", jsonOfList (fun t => jS (tokName t)) ts)])
  | none => pure (jO [("error", jS "lexer")])


/-! ### the language graph (C15) -/
def lgErrName : LG.Err → String
  | .superAssetNotFound => "LanguageGraphSuperAssetNotFoundError" | .association => "LanguageGraphAssociationError"
  | .stepExpression => "LanguageGraphStepExpressionError" | .language => "LanguageGraphException" | .lookup => "LookupError"

def opLangGraph (j : Json) : R Json := do
  let L ← parseLang (← jget j "lang")
  let quads ← jfield (jlist (fun e => do
    match (← jarr e) with
    | [a, b, c, d] => pure ((← jstr a), (← jstr b), (← jstr c), (← jstr d))
    | _ => throw "bad quad")) j "lookups"
  match LG.generate L with
  | .error e => pure (jO [("error", jS (lgErrName e))])
  | .ok g =>
    let names := L.assets.map (·.name)
    let assocJ (a : AssocDecl) : Json := Json.arr #[jS a.name, jS a.leftField, jS a.rightField]
    pure <| jO [
      ("assets", jsonOfList (fun (a : AssetDecl) => Json.arr #[jS a.name,
          jsonOfList assocJ (LG.assocsOf L g.assocs a.name),
          jsonOfList (fun (e : String × StepDecl) => jS e.1) (L.foldSteps a.name),
          jsonOfList jS (match a.superAsset with | some s => [s] | none => []),
          jsonOfList jS ((L.assets.filter (fun b => b.superAsset = some a.name)).map (·.name))]) L.assets),
      ("assocs", jsonOfList (fun (a : AssocDecl) => Json.arr #[jS a.name, jS a.leftAsset, jS a.leftField, jS a.rightAsset, jS a.rightField]) g.assocs),
      ("links", jsonOfList (fun (l : LG.Link) => Json.arr #[jS l.srcAsset, jS l.srcStep, jS l.dstAsset, jS l.dstStep]) g.links),
      ("isSub", jsonOfList (fun t => jsonOfList (fun u => jB (L.isSub t u)) names) names),
      ("lookups", jsonOfList (fun (q : String × String × String × String) =>
          match LG.lookupAssoc L g.assocs q.1 q.2.1 q.2.2.1 q.2.2.2 with
          | .ok (some a) => Json.arr #[jS a.name, jS a.leftField, jS a.rightField]
          | .ok none => Json.null
          | .error _ => jS "LookupError") quads)]


/-! ### legacy loaders (C18) -/
open Legacy in
def oldDocToJson (d : OldDoc) : Json :=
  let pair (a : String × String) : Json := Json.arr #[jS a.1, jS a.2]
  jO [("assets", jsonOfList (fun (e : Ser.Key × OldAssetEntry) => Json.arr #[keyToJson e.1,
          match e.2 with
          | .full n t ds => jO [("name", jS n), ("metaconcept", jS t), ("defenses", jsonOfList pair ds)]
          | .shorthand t => jS t]) d.assets),
      ("associations", jsonOfList (fun (a : OldAssoc) => jO [("metaconcept", jS a.metaconcept), ("lf", jS a.lf),
          ("left", jsonOfList keyToJson a.left), ("rf", jS a.rf), ("right", jsonOfList keyToJson a.right)]) d.associations),
      ("attackers", jsonOfList (fun (e : Ser.Key × Ser.AttackerEntry) => Json.arr #[keyToJson e.1,
          jO [("name", jS e.2.name), ("entry", jsonOfList (fun (p : Ser.Key × List String) =>
              Json.arr #[keyToJson p.1, jsonOfList jS p.2]) e.2.entry)]]) d.attackers)]

open Legacy in
def scadDocToJson (d : ScadDoc) : Json :=
  jO [("objects", jsonOfList (fun (o : ScadObject) => jO [("id", jI o.id), ("name", jS o.name), ("metaConcept", jS o.metaConcept),
          ("defenses", jsonOfList (fun (x : String × String) => Json.arr #[jS x.1, jS x.2]) o.defenses)]) d.objects),
      ("associations", jsonOfList (fun (a : ScadAssoc) => jO [("sourceObject", jI a.sourceObject), ("targetObject", jI a.targetObject),
          ("sourceProperty", jS a.sourceProperty), ("targetProperty", jS a.targetProperty)]) d.associations)]

/-- build a model by a history; emit it in a legacy layout; load that with the model of the legacy loader -/
def opLegacy (j : Json) : R Json := do
  let L ← parseLang (← jget j "lang")
  let ops ← jfield jarr j "ops"
  let which ← jfield jstr j "which"
  let s ← runModelOps L ops
  let native := match Ser.fromDoc L (fun _ => true) (Ser.toDoc L s) with | .ok s' => obsM L s' | .error e => jS (mErrName e)
  if which == "old" then
    let d := Legacy.emitOld (Ser.jsonRT (Ser.toDoc L s))
    let loaded := match Legacy.loadOld L (fun _ => true) d with | .ok s' => obsM L s' | .error e => jS (mErrName e)
    pure (jO [("doc", oldDocToJson d), ("loaded", loaded), ("native", native)])
  else
    match LG.generate L with
    | .error e => pure (jO [("error", jS (lgErrName e))])
    | .ok g =>
      let d := Legacy.emitScad L s
      let loaded := match Legacy.loadScad L g.assocs (fun _ => true) d with | .ok s' => obsM L s' | .error e => jS (mErrName e)
      pure (jO [("doc", scadDocToJson d), ("loaded", loaded), ("native", native)])


/-! ### Neo4j ingestion (C19) -/
def opNeo4jModel (j : Json) : R Json := do
  let L ← parseLang (← jget j "lang")
  let ops ← jfield jarr j "ops"
  let s ← runModelOps L ops
  let g := Neo.ingestModel s
  let sub := jO [("nodes", jsonOfList (fun (n : Neo.DbNode) => Json.arr #[jS n.label, jS n.name, jS n.assetId, jS n.type]) g.nodes),
                 ("rels", jsonOfList (fun (r : Neo.DbRel) => Json.arr #[jN r.src, jS r.type, jN r.dst]) g.rels)]
  match LG.generate L with
  | .error e => pure (jO [("sub", sub), ("error", jS (lgErrName e))])
  | .ok lg =>
    let back := match Neo.getModel L lg.assocs g with | .ok s' => obsM L s' | .error e => jS (mErrName e)
    pure (jO [("sub", sub), ("back", back), ("orig", obsM L s)])

def opNeo4jGraph (j : Json) : R Json := do
  let ops ← jfield jarr j "ops"
  let mut s : AGS.St := {}
  for o in ops do
    let (s', _, _) ← agStep s o
    s := s'
  let g := Neo.ingestGraph ntypeName s
  pure (jO [("nodes", jsonOfList (fun (n : Neo.StepNode) => Json.arr #[jS n.label, jS n.name, jS n.fullName, jS n.type, jS n.ttc,
                jB n.necessary, jB n.viable, jsonOfList jS n.compBy, jOptS n.defense]) g.nodes),
            ("rels", jsonOfList (fun (r : Nat × Nat) => Json.arr #[jN r.1, jN r.2]) g.rels)])

/-! ### the parse tree of the model's tree builder and the *translated* visitor on it (C04, visitor domain) -/
open MalVerif.Py.Visitor in
mutual
def ptToJson : PT → Json
  | .tok t x i => Json.arr #[jS t, jS x, jN i]
  | .rule n cs => Json.arr (#[jS n] ++ (ptListToJson cs).toArray)
def ptListToJson : List PT → List Json
  | [] => []
  | c :: cs => ptToJson c :: ptListToJson cs
end

open MalVerif.Py.Visitor in
mutual
def vToJson : V → Json
  | .none => Json.null
  | .unbound => jS "<unbound>"
  | .bool b => jB b
  | .int i => jI i
  | .num t => jS t
  | .str s => jS s
  | .list l => Json.arr (vListToJson l).toArray
  | .tuple l => Json.arr (vListToJson l).toArray
  | .dict d => jO (vDictToJson d)
  | .ctx .. => jS "<ctx>"
  | .token .. => jS "<token>"
def vListToJson : List V → List Json
  | [] => []
  | v :: vs => vToJson v :: vListToJson vs
def vDictToJson : List (String × V) → List (String × Json)
  | [] => []
  | (k, v) :: r => (k, vToJson v) :: vDictToJson r
end

/-- the parse tree the model's tree builder makes of a source text (every token must be consumed) -/
def opTree (j : Json) : R Json := do
  let src ← jfield jstr j "src"
  match Mal.lex src with
  | none => pure (jO [("error", jS "lexer")])
  | some ts =>
    match Mal.treeMalRest ts with
    | some (t, []) => pure (jO [("tree", ptToJson t)])
    | _ => pure (jO [("error", jS "syntax")])

/-- compile a set of files with the translated visitor on the model's trees -/
def opVisit (j : Json) : R Json := do
  let files ← jfield (jlist (fun e => do
    match (← jarr e) with
    | [n, t] => pure ((← jstr n), (← jstr t))
    | _ => throw "bad file")) j "files"
  let root ← jfield jstr j "root"
  let look (n : String) : Option String := (files.find? (·.1 = n)).map (·.2)
  match MalVerif.Py.Visitor.compileGen look 16 (.str root) with
  | .ok v => pure (jO [("spec", vToJson v)])
  | .error e => pure (jO [("error", jS (reprStr e))])

def dispatch (j : Json) : R Json := do
  let op ← jfield jstr j "op"
  match op with
  | "apriori" => opApriori j
  | "ag_hist" => opAgHist j
  | "resolve" => opResolve j
  | "gen" => opGen j
  | "eval" => opEval j
  | "model_hist" => opModelHist j
  | "classes" => opClasses j
  | "compile" => opCompile j
  | "langgraph" => opLangGraph j
  | "legacy" => opLegacy j
  | "neo4j_model" => opNeo4jModel j
  | "neo4j_graph" => opNeo4jGraph j
  | "lex" => opLex j
  | "ser_model" => opSerModel j
  | "load_doc" => opLoadDoc j
  | "tree" => opTree j
  | "visit" => opVisit j
  | _ => throw "bad-op"

def handle (line : String) : String :=
  match Json.parse line with
  | .error e => (jO [("error", jS s!"parse: {e}")]).compress
  | .ok j =>
    let c := jgetD j "case" Json.null
    match dispatch j with
    | .ok r => (jO [("case", c), ("model", r)]).compress
    | .error e => (jO [("case", c), ("error", jS e)]).compress

end Drv

partial def mainLoop (h : IO.FS.Stream) (out : IO.FS.Stream) : IO Unit := do
  let line ← h.getLine
  if line.isEmpty then return ()
  if line.trimAscii.isEmpty then mainLoop h out else
  out.putStrLn (Drv.handle line)
  mainLoop h out

def main : IO Unit := do
  let i ← IO.getStdin
  let o ← IO.getStdout
  mainLoop i o
  o.flush
