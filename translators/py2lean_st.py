#!/usr/bin/env python3
"""py2lean_st — the heap AFTER an exception: a second emission mode for the translated MUTATORS (domain `st`).

    py2lean_st.py <repo> <outdir>      writes <outdir>/<Module>.lean (attack-graph core, `MalVerif/Py/GenSt`)
    py2lean_st.py <repo> --check <dir> exit 0 iff regenerated text == files in <dir>
    (translators/py2lean_stmodel.py: the same for the mutators of model.py, `MalVerif/Py/GenModelSt`)

The first emission mode (`py2lean.py`, `py2lean_model.py`) turns a mutator that may raise into
`f : H → Args → Except PyErr H`: when the Python raises, the heap is dropped, so "an operation that raises leaves
the state unchanged" cannot even be stated.  This translator re-uses the machinery of those two translators
UNCHANGED (typing tables, scoping, expressions, statements, the refusal rules — it subclasses `Tr` / `MTr` and
overrides nothing but `emit` and the header) and emits every function that both writes the heap and may raise a
second time, as

    f_st : H → Args → StM PyErr H H            (StM ε σ α = Except (ε × σ) α, MalVerif/Py/PreludeSt.lean)

where an exception carries the heap as it is at the moment the exception propagates.  The rules are applied to
each emitted `do` statement, one at a time (see PreludeSt.lean):

    throw E                       ->  throw (E, s)              s = the mutable heap variable: all writes so far
    x ← helper ..  /  (← helper ..)   ->  x ← liftE s (helper ..)   a raising computation that does not write the heap
    s ← g s ..   (g writes & raises)  ->  s ← g_st s ..             the callee's exception carries the (one) heap
    anything else                     unchanged

Functions that cannot raise (`attacker_compromise`, `model_add_attacker`, `add_entry_point`, the propagation
functions) and functions that do not write the heap are not emitted again: the generated modules import the
first-mode modules and call them.  `MalVerif/Py/GenSt/Coh*.lean` / `GenModelSt/Coh.lean` (generated too) state, for
every emitted function, the coherence with the first mode:  erase (f_st s a) = f s a  (proved by the tactic
`st_coh` of MalVerif/Py/StLib.lean), so every tie theorem about `f` transfers to `f_st`.
"""
from __future__ import annotations
import ast, os, re, sys
sys.path.insert(0, os.path.dirname(os.path.abspath(__file__)))
import py2lean as P

Unsupported = P.Unsupported
SUFFIX = '_st'

# modules of py2lean.MODULES whose mutators are emitted in the state-keeping mode
MODULE_ORDER = ['Attacker', 'NodeDelegates', 'Graph', 'Apriori', 'Attach']
GEN_NS = 'MalVerif.Py.GenSt'

TIE = {
    'order': 80,                       # after `py2lean` and `py2lean_model`: imports their generated modules
    'gen_dir': 'MalVerif/Py/GenSt',
    'gen_modules': MODULE_ORDER + ['Coh'],
    'chain': ['MalVerif.Py.TieSt', 'MalVerif.Py.TieStPartial', 'MalVerif.PropsGen.C09_St'],
    'needs': {'C09': ['MalVerif.Py.TieSt', 'MalVerif.Py.TieStPartial', 'MalVerif.PropsGen.C09_St'],
              'C11': ['MalVerif.Py.TieSt', 'MalVerif.Py.TieStPartial', 'MalVerif.PropsGen.C09_St']},
    'sources': {
        'C09': 'state-keeping emission (heap after an exception) of attackgraph.py: add_node, remove_node, add_attacker, '
               'remove_attacker; attacker.py: undo_compromise; node.py: undo_compromise; analyzers/apriori.py: '
               'evaluate_viability, evaluate_necessity, evaluate_viability_and_necessity, '
               'calculate_viability_and_necessity, prune_unviable_and_unnecessary_nodes; attackgraph.py: attach_attackers',
        'C11': 'state-keeping emission of attacker.py: undo_compromise; attackgraph.py: add_attacker, remove_attacker, '
               'attach_attackers (a rejected add_attacker leaves the attacker object and the graph untouched)',
    },
}

# ------------------------------------------------------------------ the rewriting of one emitted `do` statement
ARROW_LINE = re.compile(r'^(\s*)(let \S+|s) ← (.*)$')
THROW = re.compile(r'\bthrow (PyErr\.\w+)')

def _lift_nested(txt: str) -> str:
    """every nested action `(← e)` becomes `(← liftE s (e))` (innermost first)"""
    out, i = '', 0
    while True:
        j = txt.find('(← ', i)
        if j < 0: return out + txt[i:]
        depth, k = 0, j
        while k < len(txt):
            if txt[k] == '(': depth += 1
            elif txt[k] == ')':
                depth -= 1
                if depth == 0: break
            k += 1
        if k >= len(txt): raise Unsupported(f'unbalanced nested action in `{txt}`')
        inner = _lift_nested(txt[j + 3:k])
        out += txt[i:j] + f'(← liftE s ({inner}))'
        i = k + 1

def st_rewrite(line: str, st_names) -> str:
    if '←' not in line and 'throw' not in line: return line
    if '"' in line:
        # a string literal could contain anything; no emitted statement has both (checked, not assumed)
        raise Unsupported(f'string literal in a raising statement: {line.strip()}')
    line = _lift_nested(line)
    m = ARROW_LINE.match(line)
    if m:
        ind, lhs, rhs = m.groups()
        head = rhs.split(' ', 1)[0]
        if rhs.startswith('match '):
            pass                                    # `let v ← match x with | some v => pure v | none => throw ..`
        elif head in st_names:
            if lhs != 's': raise Unsupported(f'result of the mutator {head} bound to {lhs}')
            line = f'{ind}{lhs} ← {head}{SUFFIX}{rhs[len(head):]}'
        else:
            line = f'{ind}{lhs} ← liftE s ({rhs})'
    return THROW.sub(r'throw (\1, s)', line)

def is_st(f) -> bool:
    """emitted in the state-keeping mode: writes the heap and may raise"""
    return bool(f.mutates and f.raises)

class StEmit:
    """mixin for `P.Tr` / `M.MTr`: the statements are those of the base translator, rewritten one by one"""
    def emit(self, ind, s):
        names = {f.lean for f in self.fns.values() if is_st(f)}
        self.lines.append('  ' * ind + st_rewrite(s, names))

    def _translate(self):
        fn = self.fn
        if fn.recursive: raise Unsupported(f'{fn.lean}: recursive mutator that may raise')
        txt = super()._translate()
        lines = txt.split('\n')
        # the header line `def f (s : H) … : Except PyErr H := do`
        k = [i for i, l in enumerate(lines) if l.startswith(f'def {fn.lean} ')]
        if len(k) != 1 or not lines[k[0]].endswith(' : Except PyErr H := do'):
            raise Unsupported(f'{fn.lean}: header of a raising mutator expected')
        h = lines[k[0]]
        h = f'def {fn.lean}{SUFFIX} ' + h[len(f'def {fn.lean} '):-len(' : Except PyErr H := do')] + ' : StM PyErr H H := do'
        lines[k[0]] = h
        return '\n'.join(lines)

class StTr(StEmit, P.Tr):
    pass

HEADER = '''/- GENERATED by translators/{tr} from {path} — do not edit.
   State-keeping emission (an exception carries the heap at the moment it propagates); see
   MalVerif/Py/PreludeSt.lean for the rules.  Regenerated and compared on every run of the checks. -/
{imports}
set_option linter.unusedVariables false
namespace {ns}
open {opens}

'''

def params_of(f, skip=('graph',), env_types=None):
    """(binder text, argument text) of the Lean parameters of a translated function"""
    env_types = P.ENV_TYPES if env_types is None else env_types
    bs, xs = [], []
    if f.takes_s: bs.append('(s : H)'); xs.append('s')
    if f.takes_env: bs.append('(env : ENVTYPE)'); xs.append('env')
    for pn, pt in f.params:
        if pt in skip or pt in env_types: continue
        bs.append(f'({P.esc(pn)} : {P.lean_type(pt)})'); xs.append(P.esc(pn))
    return ' '.join(bs), ' '.join(xs)

def coherence_module(tr, ns, opens, imports, fns_in_order, envtype, path, fns):
    txt = HEADER.format(tr=tr, path=path, imports='\n'.join(imports), ns=ns, opens=opens)
    txt += ('/-! Coherence of the two emission modes, one statement per emitted function: forgetting the heap of the\n'
            'exception gives the first-mode function.  `st_coh` (MalVerif/Py/StLib.lean) walks the two `do` blocks in step. -/\n\n')
    for f in fns_in_order:
        bs, xs = params_of(f)
        bs = bs.replace('ENVTYPE', envtype)
        txt += f'theorem {f.lean}_coh {bs} :\n    erase ({f.lean}{SUFFIX} {xs}) = {f.lean} {xs} := by\n'
        used = ', '.join(f'{c}_coh' for c in sorted(f.calls) if is_st(fns[c]))        # the mutators it calls
        txt += f'  unfold {f.lean}{SUFFIX} {f.lean}\n  st_coh [{used}]\n\n'
    txt += f'end {ns}\n'
    return txt

def generate(repo, modules=None) -> dict[str, str]:
    want = [m for m in MODULE_ORDER if (not modules or m in modules or 'Coh' in modules)]
    saved = P.Tr
    P.Tr = StTr
    try:
        order = P.closure(want)
        fns, by_method = P.collect(repo, order)
        P.analyse(fns)
        out, emitted = {}, []
        for mod in want:
            path, sel = P.MODULES[mod]
            deps = [m for m in P.closure([mod]) if m != mod and m in MODULE_ORDER]
            imports = ['import MalVerif.Py.PreludeSt', f'import MalVerif.Py.Gen.{mod}'] + \
                      [f'import {GEN_NS}.{m}' for m in deps]
            txt = HEADER.format(tr='py2lean_st.py', path=path, imports='\n'.join(imports), ns=GEN_NS,
                                opens='MalVerif.Py MalVerif.Py.Gen MalVerif.PySt')
            n = 0
            for entry in sel:
                cls, name = entry[0], entry[1]
                if len(entry) > 2: name = f'{name}_{entry[2]}'
                f = by_method[(P.CLASS_TYPE[cls] if cls else None, name)]
                if not is_st(f): continue
                txt += StTr(f, fns, by_method).translate() + '\n'; n += 1; emitted.append(f)
            if n == 0: raise Unsupported(f'module {mod}: no mutator that may raise is left')
            txt += f'end {GEN_NS}\n'
            out[mod] = txt
        if not modules or 'Coh' in modules:
            out['Coh'] = coherence_module('py2lean_st.py', GEN_NS, 'MalVerif.Py MalVerif.Py.Gen MalVerif.PySt',
                                          ['import MalVerif.Py.StLib'] + [f'import {GEN_NS}.{m}' for m in want],
                                          emitted, 'EvalEnv', 'the modules of MalVerif/Py/GenSt', fns)
        return out
    finally:
        P.Tr = saved

def main(argv, gen=None):
    repo = argv[1]
    try:
        out = (gen or generate)(repo)
    except Unsupported as e:
        print(f'UNSUPPORTED: {e}')
        return 3
    if argv[2] == '--check':
        bad = [m for m, t in out.items() if not os.path.exists(os.path.join(argv[3], m + '.lean'))
               or open(os.path.join(argv[3], m + '.lean'), encoding='utf-8').read() != t]
        print('changed: ' + ' '.join(bad) if bad else 'unchanged')
        return 1 if bad else 0
    os.makedirs(argv[2], exist_ok=True)
    for m, t in out.items():
        with open(os.path.join(argv[2], m + '.lean'), 'w', encoding='utf-8') as fh: fh.write(t)
    return 0

if __name__ == '__main__':
    sys.exit(main(sys.argv))
